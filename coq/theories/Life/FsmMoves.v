(** Every change of the lifecycle state is an edge of the documented diagram. *)
From NL Require Import Life.Model Life.LockInv Life.FsmInv Life.Hist Life.Single.
From Coq Require Import Lia.

Definition fsm_move (a b : fsm) : Prop := a = b \/ edge a b.

Lemma move_refl a : fsm_move a a. Proof. left. reflexivity. Qed.

Lemma move_closed a : fsm_move a Closed.
Proof. right. destruct a; exact I. Qed.

Lemma move_trans_same a b c : a = b -> fsm_move b c -> fsm_move a c.
Proof. intros ->. auto. Qed.

Lemma fsm_refuse s t c : st_fsm (refuse s t c) = st_fsm s.
Proof. apply (refuse_effect s t c). Qed.

Lemma fsm_close_trigger s t : fsm_move (st_fsm s) (st_fsm (close_trigger s t)).
Proof.
  unfold close_trigger. destruct (st_fsm s) eqn:E; simpl; rewrite ?rl_fsm, ?E; try apply move_closed.
  destruct (runt s); simpl; rewrite ?E; [apply move_refl | apply move_closed].
Qed.

Lemma fsm_enter s t c part2 : fsm_move (st_fsm s) (st_fsm (enter s t c part2)).
Proof.
  unfold enter. destruct c; try apply move_refl.
  - unfold enter_start. destruct (st_fsm s) eqn:E; rewrite ?fsm_refuse, ?E; simpl; rewrite ?E; apply move_refl.
  - unfold enter_run. destruct (st_fsm s) eqn:E; rewrite ?fsm_refuse, ?E; simpl; try apply move_refl. right. exact I.
  - unfold enter_reset. destruct (st_fsm s) eqn:E; rewrite ?fsm_refuse, ?E; try apply move_refl;
      destruct (o_stmt o); simpl; rewrite ?ar_fsm; simpl; rewrite ?E; apply move_refl.
  - destruct part2.
    + unfold enter_close. simpl.
      destruct (st_fsm s) eqn:E; try (eapply move_trans_same; [|apply fsm_close_trigger]; simpl; auto).
      destruct (run_finished s) as [[|]|]; simpl; rewrite ?rl_fsm; simpl; rewrite ?E; try apply move_refl.
      eapply move_trans_same; [|apply fsm_close_trigger]. simpl. auto.
    + unfold enter_start. destruct (st_fsm s) eqn:E; rewrite ?fsm_refuse, ?E; simpl; rewrite ?E; apply move_refl.
  - unfold enter_run. destruct (st_fsm s) eqn:E; rewrite ?fsm_refuse, ?E; simpl; try apply move_refl. right. exact I.
  - unfold enter_run. destruct (st_fsm s) eqn:E; rewrite ?fsm_refuse, ?E; simpl; try apply move_refl. right. exact I.
  - unfold enter_run. destruct (st_fsm s) eqn:E; rewrite ?fsm_refuse, ?E; simpl; try apply move_refl. right. exact I.
Qed.

Lemma fsm_acquire s t c part2 : fsm_move (st_fsm s) (st_fsm (acquire s t c part2)).
Proof.
  unfold acquire. destruct (holder s); [apply move_refl|]. destruct (lockq s); [|apply move_refl].
  eapply move_trans_same; [|apply fsm_enter]. reflexivity.
Qed.

Lemma fsm_cont_finished n : forall s, st_fsm (cont_finished s n) = st_fsm s.
Proof. intros s. apply (scal_of_fields _ _ (scal_cont_finished n s)). Qed.

Lemma fsm_run_finish s : fsm_move (st_fsm s) (st_fsm (run_finish s)).
Proof.
  unfold run_finish. simpl. destruct (st_fsm s) eqn:E; simpl; rewrite ?E; try apply move_refl.
  rewrite fsm_cont_finished. simpl. right. exact I.
Qed.

Lemma fsm_step_run s : fsm_move (st_fsm s) (st_fsm (do_step_run s)).
Proof.
  unfold do_step_run. destruct (runt s) as [[]|]; try apply move_refl; simpl.
  - destruct (run_arg s); [apply move_refl | apply fsm_run_finish].
  - destruct (run_arg s); [apply move_refl|]. eapply move_trans_same; [|apply fsm_run_finish]. reflexivity.
  - destruct (run_call_pending s); [apply move_refl|]. destruct (pending_exit s); [|apply move_refl].
    simpl. destruct (run_arg s); [apply move_refl|]. eapply move_trans_same; [|apply fsm_run_finish]. reflexivity.
  - apply fsm_run_finish.
Qed.

Lemma fsm_do_call s t c : fsm_move (st_fsm s) (st_fsm (do_call s t c)).
Proof.
  unfold do_call. destruct (find_task (tasks s) t); [apply move_refl|].
  destruct c; cbn [nl_started nl_closed cont_closed running_process send_command set_trace].
  - destruct (nl_started s); [apply move_refl|]. eapply move_trans_same; [|apply fsm_acquire]. reflexivity.
  - eapply move_trans_same; [|apply fsm_acquire]. reflexivity.
  - eapply move_trans_same; [|apply fsm_acquire]. reflexivity.
  - destruct (nl_closed s); [apply move_refl|]. simpl.
    destruct (nl_started s); (eapply move_trans_same; [|apply fsm_acquire]; reflexivity).
  - destruct (cont_closed s); [apply move_refl|]. eapply move_trans_same; [|apply fsm_acquire]. reflexivity.
  - destruct (cont_closed s); [apply move_refl|]. eapply move_trans_same; [|apply fsm_acquire]. reflexivity.
  - eapply move_trans_same; [|apply fsm_acquire]. reflexivity.
  - destruct (running_process s); apply move_refl.
  - destruct (send_command s); apply move_refl.
Qed.

Lemma fsm_do_step s t : FI s -> fsm_move (st_fsm s) (st_fsm (do_step s t)).
Proof.
  intros [HP _]. unfold do_step. destruct (find_task (tasks s) t) as [[c p]|] eqn:Ef; [|apply move_refl].
  pose proof (HP _ _ _ Ef) as Hok.
  destruct p; simpl in Hok; try apply move_refl; try apply fsm_enter.
  - (* S_G1 *) destruct (st_fsm s) eqn:E; try discriminate. simpl. right. exact I.
  - (* S_G3 *) destruct c; simpl; rewrite ?rl_fsm; try apply move_refl.
    eapply move_trans_same; [|apply fsm_acquire]. symmetry. apply rl_fsm.
  - destruct (started_ev s); apply move_refl.
  - destruct c; simpl; rewrite ?rl_fsm; apply move_refl.
  - destruct c; simpl; rewrite ?ar_fsm; apply move_refl.
  - (* Z_G1b *) destruct (st_fsm s) eqn:E; try discriminate.
    + simpl. right. exact I.
    + destruct (runt s); simpl; rewrite ?E; [apply move_refl | right; exact I].
  - (* Z_WaitRunTask *) destruct (runt s); [apply move_refl|].
    destruct (st_fsm s) eqn:E; try discriminate; simpl; right; exact I.
  - simpl. rewrite rl_fsm. apply move_refl.
  - destruct (run_finished s) as [[|]|]; try apply move_refl. apply fsm_close_trigger.
  - destruct (runt s); [apply move_refl|]. simpl. apply move_closed.
  - simpl. rewrite rl_fsm. apply move_refl.
  - destruct (run_finished s) as [[|]|]; apply move_refl.
Qed.

Theorem fsm_step s l : FI s -> fsm_move (st_fsm s) (st_fsm (step s l)).
Proof.
  intros HF. destruct l; simpl.
  - apply fsm_do_call.
  - apply fsm_do_step; auto.
  - apply fsm_step_run.
  - unfold do_child_exit. destruct (alive s); apply move_refl.
Qed.

Theorem state_attr_edges stmt start th md ls l :
  let s := run_labels (init_state stmt start th md) ls in
  st_fsm (step s l) = st_fsm s \/ edge (st_fsm s) (st_fsm (step s l)).
Proof.
  intros s. destruct (fsm_step s l (reach_FI stmt start th md ls)) as [H|H]; auto.
Qed.

Theorem closed_absorbing stmt start th md ls l :
  let s := run_labels (init_state stmt start th md) ls in
  st_fsm s = Closed -> st_fsm (step s l) = Closed.
Proof.
  intros s Hc. destruct (state_attr_edges stmt start th md ls l) as [H|H]; fold s in H; [congruence|].
  rewrite Hc in H. destruct (st_fsm (step s l)); simpl in H; tauto.
Qed.
