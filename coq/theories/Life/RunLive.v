(** Liveness of an accepted run, as ONE theorem (the mirror of close_completes):
    from every reachable state in which a run task exists there is a continuation
    of internal labels (steps of tasks, of the run task, and the child's exit --
    that the child exits is the environment's part) after which the run task has
    ended, the state is 'finished', everything waiting for the run has returned and
    the record of THAT run is closed with `finished`. *)
From NL Require Import Life.Model Life.LockInv Life.FsmInv Life.Hist Life.Close Life.Protocol.
From Coq Require Import Lia.

Definition Good (s : state) : Prop := LkS s /\ FI s /\ CI s /\ PInv s /\ SInv (core_of s).

Lemma Good_step s l : Good s -> Good (step s l).
Proof.
  intros (HL & HF & HC & HP & HS). split; [|split; [|split; [|split]]].
  - apply LkS_step; auto.
  - apply FI_step; auto.
  - apply CI_step; auto.
  - apply PInv_step; auto.
  - apply SInv_step; auto.
Qed.

Lemma Good_reachable a b c d ls : Good (run_labels (init_state a b c d) ls).
Proof.
  destruct (reach_all a b c d ls) as (HL & HF & HP & HS). destruct (Close.all_inv a b c d ls) as (_ & _ & HC).
  split; [|split; [|split; [|split]]]; auto.
Qed.

Definition intl (l : label) : Prop := Close.internal l = true.

(** the run (number, script) the current record belongs to *)
Definition qid (q : qst) : option (Z * Z) :=
  match q with QI n st | QR n st | QF n st _ => Some (n, st) | _ => None end.
Definition rid (s : state) : option (Z * Z) := qid (qtr (rel (trace s))).

Lemma arun_rid k k' : AInv k -> arun k k' -> qid (qtr (k_rel k')) = qid (qtr (k_rel k)).
Proof.
  intros H St. destruct St; unfold AInv in H; simpl in *; auto.
  - destruct H as (_ & a0 & Ea & _ & ->). inversion Ea; subst. rewrite !Z.eqb_refl. reflexivity.
  - destruct H as (_ & a0 & Ea & _ & ->). inversion Ea; subst. rewrite !Z.eqb_refl. reflexivity.
Qed.

Lemma arun_end k k' : AInv k -> arun k k' -> Protocol.rank (k_runt k') = 0%nat ->
  k_runt k' = None /\ k_fsm k' = Finished /\ k_rf k' = Some true.
Proof.
  intros H St Hr. destruct St; simpl in *; try discriminate.
  unfold AInv in H. simpl in H. destruct H as (-> & _). auto.
Qed.

(** API steps cannot touch the core while a run task exists *)
Lemma api_keeps_core s l : Good s -> runt s <> None -> (forall o, l <> ChildExit o) -> l <> StepRun ->
  core_of (step s l) = core_of s.
Proof.
  intros (HL & HF & _ & _ & _) Hr Hc Hs. destruct (cls_step s l HL HF) as [E | St]; auto.
  exfalso. destruct HF as [_ HSc].
  assert (Hnf : st_fsm s <> Initialized).
  { intros Hi. apply Hr. eapply Scal_idle; [exact HSc | |]; rewrite Hi; discriminate. }
  unfold core_of in St. destruct l; cbn [step lstep] in *; try congruence;
    inversion St; subst; congruence.
Qed.

Lemma rpc_eq_wait (r : rpc) : r = RT_WaitChild \/ r <> RT_WaitChild.
Proof. destruct r; auto; right; discriminate. Qed.

(** at the wait for the child: discharge the F-guard, let the child exit *)
Lemma prepare s : Good s -> runt s = Some RT_WaitChild ->
  exists pre, Forall intl pre /\
    let s1 := run_labels s pre in
    Good s1 /\ runt s1 = Some RT_WaitChild /\ rid s1 = rid s /\
    run_call_pending s1 = false /\ pending_exit s1 <> None.
Proof.
  intros HG Hr.
  assert (A : exists pa, Forall intl pa /\ let sa := run_labels s pa in
            Good sa /\ runt sa = Some RT_WaitChild /\ rid sa = rid s /\ run_call_pending sa = false).
  { destruct (run_call_pending s) eqn:Ep.
    - pose proof HG as (HL & HF & HC & HP & HS).
      assert (Hsev : started_ev s = true) by (unfold SInv in HS; simpl in HS; rewrite Hr in HS; exact HS).
      destruct (f_guard_step s Ep Hsev) as (t & _ & _ & Hp').
      assert (Ec : core_of (step s (Step t)) = core_of s).
      { apply api_keeps_core; auto; try congruence; discriminate. }
      destruct (core_fields _ _ Ec) as (_ & E2 & _ & _ & _ & _ & _ & _ & E9).
      exists [Step t]. split; [repeat constructor|]. cbv zeta. change (run_labels s [Step t]) with (step s (Step t)).
      split; [apply Good_step; auto|]. split; [congruence|]. split; [unfold rid; rewrite E9; reflexivity | exact Hp'].
    - exists []. split; [constructor|]. simpl. auto. }
  destruct A as (pa & Hpa & HGa & Hra & Hida & Hpa').
  set (sa := run_labels s pa) in *.
  destruct (pending_exit sa) as [o|] eqn:Epe.
  - exists pa. split; auto. cbv zeta. fold sa. split; [exact HGa|]. repeat split; auto. congruence.
  - pose proof HGa as (HL & HF & HC & HP & HS). pose proof HF as [_ HSc].
    pose proof (sc_child _ _ _ _ _ _ HSc) as Hch. rewrite Hra in Hch. simpl in Hch.
    destruct Hch as [(Ha & _) | (_ & Hn)]; [|congruence].
    exists (pa ++ [ChildExit OReturn]). split; [apply Forall_app; split; auto; repeat constructor|].
    cbv zeta. rewrite run_labels_app. fold sa. simpl run_labels.
    assert (Ee : do_child_exit sa OReturn = set_pending_exit (set_alive sa 0%nat) (Some OReturn))
      by (unfold do_child_exit; rewrite Ha; reflexivity).
    pose proof (Good_step sa (ChildExit OReturn) HGa) as HG'. simpl in HG'.
    split; [exact HG'|]. rewrite Ee. unfold rid, run_call_pending in *. simpl. repeat split; auto. discriminate.
Qed.

Lemma prepare_any s r : Good s -> runt s = Some r ->
  exists pre, Forall intl pre /\
    let s1 := run_labels s pre in
    Good s1 /\ runt s1 = Some r /\ rid s1 = rid s /\
    (r = RT_WaitChild -> run_call_pending s1 = false /\ pending_exit s1 <> None).
Proof.
  intros HG Er. destruct (rpc_eq_wait r) as [-> | Hn].
  - destruct (prepare s HG Er) as (pre & Hpre & HG1 & Hr1 & Hid1 & Hp1 & Hpe1).
    exists pre. split; [exact Hpre|]. cbv zeta. split; [exact HG1|]. auto.
  - exists []. split; [constructor|]. cbv zeta. simpl. split; [exact HG|]. repeat split; auto; contradiction.
Qed.

(** phase 1: the run task runs to its end *)
Lemma drive n : forall s, Good s -> Protocol.rank (runt s) = S n ->
  exists ls', Forall intl ls' /\
    let s' := run_labels s ls' in
    Good s' /\ runt s' = None /\ st_fsm s' = Finished /\ run_finished s' = Some true /\ rid s' = rid s.
Proof.
  induction n as [|n IH]; intros s HG Hk.
  all: destruct (runt s) as [r|] eqn:Er; [|discriminate].
  all: destruct (prepare_any s r HG Er) as (pre & Hpre & HG1 & Hr1 & Hid1 & Hw1); set (s1 := run_labels s pre) in *.
  all: pose proof HG1 as (HL1 & HF1 & HC1 & HP1 & HS1).
  all: destruct (run_enabled s1 r HF1 Hr1 Hw1) as (_ & St).
  all: pose proof (arun_rank _ _ St) as Hrk; simpl in Hrk; rewrite Hr1, Hk in Hrk.
  all: pose proof (arun_rid _ _ HP1 St) as Hid2; simpl in Hid2.
  all: pose proof (Good_step s1 StepRun HG1) as HG2.
  - assert (Hz : Protocol.rank (runt (step s1 StepRun)) = 0%nat) by (simpl; lia).
    destruct (arun_end _ _ HP1 St Hz) as (E1 & E2 & E3). simpl in E1, E2, E3.
    exists (pre ++ [StepRun]). split; [apply Forall_app; split; auto; repeat constructor|].
    cbv zeta. rewrite run_labels_app. fold s1. simpl run_labels. split; [exact HG2|]. repeat split; auto.
    unfold rid in *. simpl in *. congruence.
  - destruct (IH (step s1 StepRun) HG2) as (ls2 & Hls2 & HG3 & R1 & R2 & R3 & R4); [simpl; lia|].
    exists (pre ++ StepRun :: ls2). split; [apply Forall_app; split; auto; constructor; auto; reflexivity|].
    cbv zeta. rewrite run_labels_app. fold s1. simpl run_labels. split; [exact HG3|]. repeat split; auto.
    unfold rid in *. simpl in *. congruence.
Qed.

(** phase 2: everything waiting for the run returns *)
Definition at_pw (ts : ttab) (x : nat * (call * pc)) : bool :=
  match find_task ts (fst x) with Some (_, P_WaitRunFinished) => true | _ => false end.

Lemma remove_length ts t x : find_task ts t = Some x -> (length (remove_task ts t) < length ts)%nat.
Proof.
  induction ts as [|[t' y] ts IH]; simpl; [discriminate|].
  assert (Hle : (length (remove_task ts t) <= length ts)%nat).
  { clear. induction ts as [|[t0 y0] ts IH]; simpl; auto. destruct (Nat.eqb t t0); simpl; lia. }
  destruct (Nat.eqb t t'); simpl; [lia|]. intros H. specialize (IH H). lia.
Qed.

Lemma drain n : forall s, Good s -> (length (tasks s) <= n)%nat -> run_finished s = Some true ->
  exists ls', Forall intl ls' /\
    let s' := run_labels s ls' in
    Good s' /\ core_of s' = core_of s /\
    (forall t c p, find_task (tasks s') t = Some (c, p) -> p <> P_WaitRunFinished).
Proof.
  induction n as [|n IH]; intros s HG Hlen Hrf.
  - exists []. split; [constructor|]. cbv zeta. simpl. split; [exact HG|]. split; auto.
    intros t c p Hf. destruct (tasks s); [discriminate | simpl in Hlen; lia].
  - destruct (existsb (at_pw (tasks s)) (tasks s)) eqn:Ex.
    + apply existsb_exists in Ex. destruct Ex as ([t x] & _ & Hx). unfold at_pw in Hx. simpl in Hx.
      destruct (find_task (tasks s) t) as [[c p]|] eqn:Ef; [|discriminate]. destruct p; try discriminate.
      assert (Es : step s (Step t) = finish_call s t c ROk) by (simpl; unfold do_step; rewrite Ef, Hrf; reflexivity).
      pose proof (Good_step s (Step t) HG) as HG1. rewrite Es in HG1.
      destruct (IH (finish_call s t c ROk) HG1) as (ls2 & Hls2 & HG2 & Ec2 & Hno2).
      * simpl. pose proof (remove_length _ _ _ Ef). lia.
      * exact Hrf.
      * exists (Step t :: ls2). split; [constructor; auto; reflexivity|]. cbv zeta.
        change (run_labels s (Step t :: ls2)) with (run_labels (step s (Step t)) ls2). rewrite Es.
        split; [exact HG2|]. split; [rewrite Ec2; reflexivity | exact Hno2].
    + exists []. split; [constructor|]. cbv zeta. simpl. split; [exact HG|]. split; auto.
      intros t c p Hf ->. pose proof (find_in _ _ _ Hf) as Hin.
      assert (Ht : existsb (at_pw (tasks s)) (tasks s) = true).
      { apply existsb_exists. exists (t, (c, P_WaitRunFinished)). split; auto. unfold at_pw. simpl. rewrite Hf. reflexivity. }
      congruence.
Qed.

Lemma Forall_intl_app a b : Forall intl a -> Forall intl b -> Forall intl (a ++ b).
Proof. intros. apply Forall_app. auto. Qed.

(** ---- the theorem ---- *)
Theorem accepted_run_finishes : forall stmt start th md ls,
  let s := run_labels (init_state stmt start th md) ls in
  runt s <> None ->
  exists ls', Forall (fun l => Close.internal l = true) ls' /\
    let s' := run_labels s ls' in
    runt s' = None /\ run_finished s' = Some true /\ alive s' = 0%nat /\ pending_exit s' = None /\
    st_fsm s' = Finished /\
    (forall t c p, find_task (tasks s') t = Some (c, p) -> p <> P_WaitRunFinished /\ p <> R_WaitStarted) /\
    proto (hooks_of (history s')) = PF /\
    exists n st o,
      rinfo (pubs_of (history s')) = QF n st o /\ exited_proc s' = Some o /\
      last_result (pubs_of (history s')) = Some o /\
      (forall a, run_arg s = Some a -> n = ra_no a /\ st = ra_stmt a).
Proof.
  intros stmt start th md ls s Hr.
  pose proof (Good_reachable stmt start th md ls) as HG. fold s in HG.
  destruct (runt s) as [r|] eqn:Er; [|congruence].
  assert (Hk : exists n, Protocol.rank (runt s) = S n) by (rewrite Er; destruct r; simpl; eauto).
  destruct Hk as (n & Hk).
  destruct (drive n s HG Hk) as (l1 & Hl1 & HG1 & R1 & R2 & R3 & R4). set (s1 := run_labels s l1) in *.
  destruct (drain (length (tasks s1)) s1 HG1 (le_n _) R3) as (l2 & Hl2 & HG2 & Ec & Hno).
  set (s2 := run_labels s1 l2) in *.
  destruct (core_fields _ _ Ec) as (E1 & E2 & E3 & E4 & E5 & E6 & E7 & E8 & E9).
  exists (l1 ++ l2). split; [apply Forall_intl_app; auto|]. cbv zeta. rewrite run_labels_app. fold s1. fold s2.
  pose proof HG2 as (HL2 & HF2 & HC2 & HP2 & HS2). pose proof HF2 as [_ HSc].
  pose proof (sc_child _ _ _ _ _ _ HSc) as Hch. rewrite E2, R1 in Hch. destruct Hch as (Ha & Hpe).
  assert (Hpf : hook_corr (proto (hooks_of (history s2))) (st_fsm s2) (runt s2) (run_arg s2)) by (apply PInv_hook_corr; auto).
  assert (Hq : rec_corr (rinfo (pubs_of (history s2))) (st_fsm s2) (runt s2) (run_arg s2) (exited_proc s2))
    by (apply PInv_rec_corr; auto).
  rewrite E1, E2, R1, R2 in Hpf, Hq. simpl in Hpf, Hq. destruct Hpf as (_ & Hpf). destruct Hq as (m & st & o & Hex & Hq).
  split; [congruence|]. split; [congruence|]. split; [exact Ha|]. split; [exact Hpe|]. split; [congruence|].
  split.
  { intros t c p Hf. split; [eapply Hno; eauto|]. intros ->.
    destruct (ci_tasks _ HC2 _ _ _ Hf) as (_ & _ & _ & H4). destruct (H4 eq_refl) as (_ & Hrw).
    rewrite E2, R1 in Hrw. discriminate. }
  split; [exact Hpf|]. exists m, st, o. split; [exact Hq|]. split; [exact Hex|]. split.
  { rewrite last_core. rewrite rinfo_core in Hq. eapply qtr_QF_ltr; eauto. }
  intros a Ha0.
  assert (Hid : rid s2 = rid s) by (unfold rid in *; rewrite E9; exact R4).
  assert (Hs : rid s = Some (ra_no a, ra_stmt a)).
  { destruct HG as (_ & _ & _ & HP & _). unfold PInv, AInv in HP. simpl in HP. unfold rid.
    rewrite Er, Ha0 in HP. unfold fin_rec in HP. simpl in HP.
    destruct r; dex; try discriminate;
      repeat match goal with H : Some _ = Some _ |- _ => inversion H; subst; clear H end;
      match goal with H : qtr _ = _ |- _ => rewrite H; reflexivity end. }
  unfold rid in Hid at 1. rewrite rinfo_core in Hq. simpl in Hq. rewrite Hq, Hs in Hid. simpl in Hid.
  inversion Hid. auto.
Qed.
