(** C02, Life/RecordRun.v: every run is good -- the child `ChReturned ret None` (one quarter of the case
    analysis of [every_run_good], Life/RecordTie.v) *)
From Coq Require Import List String ZArith Bool.
From NL Require Import Life.RecordSyntax Life.RecordInterp Gen.RunRecord Life.RecordRun.
Import ListNotations.

Lemma good_A : forall ret code look no script prev ran o,
  good_run (mkRun (ChReturned ret None) code look no script prev ran) (FS.trace o).
Proof. intros ret code look no script prev ran. all_traces_good code look script ran. Qed.
