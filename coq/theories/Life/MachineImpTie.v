(** Composition of the two regenerated sources: Gen/ImpSkeleton.v (nextline/imp.py, main.py; translate/
    imp_skeleton.py) and Gen/MachineWiring.v + Gen/FsmConfig.v (nextline/fsm/*; translate/machine_wiring.py,
    fsm_config.py).

    An Imp method is `async with self._lock: <prologue>; await self._machine.<m>(...); <epilogue>`.
    [compile] turns the regenerated tree of the method into a list of [iprim]: effects, waits, ONE trigger
    (resolved through the regenerated StateMachine: `aopen`/`aclose` are `await self.<trigger>()`, a plain
    trigger name is bound by AsyncMachine.add_model because StateMachine has no method of that name), and the
    release of the lock at the end of the `async with`.  The theorems show
      - which trigger each of Imp.aopen / run / reset / aclose fires, with what before and after it;
      - that the "Imp-level epilogue after a trigger" which Life/MachineTie.v (stage 1) copied from the model
        ([MachineTie.epilogue]) IS the rest of the regenerated Imp method after the trigger, run by [orun],
        followed by what Nextline does with the returned call ([after_imp], see below), for ALL model states;
      - that the model's [enter_close] is the regenerated prologue of Imp.aclose (pubsub.close, the wait for
        the run guarded by `state == 'running'` -- the regenerated Callback.wait_for_run_finish) and then the
        trigger, and that the whole close path has the order pubsub.close; wait; trigger close; pubsub.close;
        release; Continuous.close (the last from the regenerated Nextline.close).
    What REMAINS trusted at this level (stated precisely): [after_imp] -- what the Nextline wrapper does once
    the Imp method returned (the call returns / run_session goes on to wait for the run / a close() that had to
    start first goes on to its close part), copied from the model; the acquisition of the lock is the model's
    [acquire]; `hook.init` of Imp.aopen has no effect on the model state (Life/ArgTie.v); an exception leaving
    the `async with` releases the lock ([raise_out]); the keyword shape of the trigger calls
    (`reset(reset_options=...)`, Gen/ImpSkeleton.v does not carry arguments); the name tables
    [imp_trig_name] (TRIGGERS of translate/imp_skeleton.py) and [trig_of_name]. *)
From Coq Require Import List String Bool Arith ZArith.
From NL Require Import Life.Model Gen.FsmConfig Life.MachineSyntax Gen.MachineWiring Life.MachineTie.
From NL Require Life.ImpSyntax Gen.ImpSkeleton.
Import ListNotations.
Local Open Scope string_scope.
Local Open Scope list_scope.

Inductive iprim :=
| IDo (f : state -> state)
| IWait (a : state -> wstat) (r : state -> bool) (p : pc)
| ITrigger (tr : trig).

(** TRIGGERS of translate/imp_skeleton.py, read backwards *)
Definition imp_trig_name (t : ImpSyntax.trig) : string :=
  match t with
  | ImpSyntax.TRun => "run" | ImpSyntax.TReset => "reset" | ImpSyntax.TAopen => "aopen" | ImpSyntax.TAclose => "aclose"
  | ImpSyntax.TInitialize => "initialize" | ImpSyntax.TFinish => "finish" | ImpSyntax.TClose => "close"
  end.

Definition trig_of_name (n : string) : option trig :=
  if String.eqb n "initialize" then Some TInitialize else if String.eqb n "run" then Some TRun else
  if String.eqb n "finish" then Some TFinish else if String.eqb n "close" then Some TClose else
  if String.eqb n "reset" then Some TReset else None.

(** `self._machine.<n>(...)`: a trigger bound by add_model (no method of that name on the model), or a
    method of the regenerated StateMachine whose whole body is `await self.<trigger>()` *)
Definition resolve_name (n : string) : option trig :=
  match find_method machine_methods n with
  | None => if existsb (String.eqb n) config_triggers then trig_of_name n else None
  | Some m =>
    match m_body m, m_params m with
    | SAwaitSelf n', [] =>
      if m_async m && negb (sm_has n') && existsb (String.eqb n') config_triggers then trig_of_name n' else None
    | _, _ => None
    end
  end.
Definition resolve_trigger (t : ImpSyntax.trig) : option trig := resolve_name (imp_trig_name t).

Definition state_is (n : string) (s : state) : bool := String.eqb (state_name (st_fsm s)) n.

Fixpoint guard_waits (g : state -> bool) (l : list iprim) : option (list iprim) :=
  match l with
  | [] => Some []
  | IWait a r p :: l' =>
    match guard_waits g l' with
    | Some y => Some (IWait (fun s => if g s then a s else WPass) r p :: y)
    | None => None
    end
  | _ => None
  end.

Fixpoint compile (x : ImpSyntax.stmt) : option (list iprim) :=
  match x with
  | ImpSyntax.Skip => Some []
  | ImpSyntax.Seq a ImpSyntax.Return => compile a            (* `return await ...` as the last statement *)
  | ImpSyntax.Seq a b => match compile a, compile b with Some u, Some v => Some (u ++ v) | _, _ => None end
  | ImpSyntax.WithLock b => match compile b with Some u => Some (u ++ [IDo release]) | None => None end
  | ImpSyntax.Trigger t => match resolve_trigger t with Some tr => Some [ITrigger tr] | None => None end
  | ImpSyntax.PubSubClose => Some [IDo (fun s => publish s PEndAll)]
  | ImpSyntax.WaitRunFinish =>
    match wait_for_run_finish_prims with Some [PWait a r p] => Some [IWait a r p] | _ => None end
  | ImpSyntax.If (ImpSyntax.GStateIs n) th ImpSyntax.Skip =>
    match compile th with Some u => guard_waits (state_is n) u | None => None end
  | ImpSyntax.Hook false h => if String.eqb h "init" then Some [] else None
  | ImpSyntax.Call ImpSyntax.OContinuous m => if String.eqb m "close" then Some [IDo close_cont] else None
  | _ => None
  end.

Definition imp_prog (m : string) : option (list iprim) :=
  match ImpSyntax.assoc m ImpSkeleton.imp_methods with Some b => compile b | None => None end.

(** prologue, the trigger, epilogue *)
Fixpoint split_trigger (l : list iprim) : option (list iprim * trig * list iprim) :=
  match l with
  | [] => None
  | ITrigger tr :: r => Some ([], tr, r)
  | x :: r => match split_trigger r with Some (a, tr, b) => Some (x :: a, tr, b) | None => None end
  end.

(** Nextline.close: what follows `await self._imp.aclose()` inside the try *)
Fixpoint flatten (x : ImpSyntax.stmt) : list ImpSyntax.stmt :=
  match x with
  | ImpSyntax.Seq a b => flatten a ++ flatten b
  | ImpSyntax.TryExcept b _ => flatten b
  | y => [y]
  end.
Fixpoint after_aclose (l : list ImpSyntax.stmt) : option (list ImpSyntax.stmt) :=
  match l with
  | [] => None
  | ImpSyntax.Call ImpSyntax.OImp m :: r => if String.eqb m "aclose" then Some r else after_aclose r
  | _ :: r => after_aclose r
  end.
Fixpoint compile_list (l : list ImpSyntax.stmt) : option (list iprim) :=
  match l with
  | [] => Some []
  | x :: r => match compile x, compile_list r with Some u, Some v => Some (u ++ v) | _, _ => None end
  end.
Definition nextline_close_tail : option (list iprim) :=
  match ImpSyntax.assoc "close" ImpSkeleton.nextline_methods with
  | Some b => match after_aclose (flatten b) with Some r => compile_list r | None => None end
  | None => None
  end.

Inductive ooutc := ODone | OPark (p : pc) (k : list (prim pc)) (o : list iprim) | ORaise (x : exn) | OStuck.

Fixpoint orun (t : nat) (c : call) (o : list iprim) (s : state) : state * ooutc :=
  match o with
  | [] => (s, ODone)
  | IDo f :: o' => orun t c o' (f s)
  | IWait a r p :: o' =>
    match a s with
    | WPass => orun t c o' s
    | WPark => (s, OPark p [] o)
    | WRaise x => (s, ORaise x)
    end
  | ITrigger tr :: o' =>
    match script (st_fsm s) tr with
    | None => (s, ORaise XMachine)
    | Some _ =>
      match api_prog t c tr (st_fsm s) with
      | None => (s, OStuck)
      | Some k =>
        match run k s with
        | (s', KDone) => orun t c o' s'
        | (s', KPark p k') => (s', OPark p k' o')
        | (s', KRaise x) => (s', ORaise x)
        end
      end
    end
  end.

(** what the Nextline wrapper does once Imp.<m> returned (copied from the model, see the header) *)
Definition after_imp (m : string) (t : nat) (c : call) (s : state) : state :=
  if String.eqb m "aopen" then match c with CClose => acquire s t c true | _ => finish_call s t c ROk end
  else if String.eqb m "run" then
    match c with CRunContWait | CRunSession => set_pc s t c P_WaitRunFinished | _ => finish_call s t c ROk end
  else finish_call s t c ROk.

Definition oembed (m : string) (t : nat) (c : call) (r : state * ooutc) : state :=
  match r with
  | (s, ODone) => after_imp m t c s
  | (s, OPark p _ _) => set_pc s t c p
  | (s, ORaise x) => raise_out s t c x
  | (s, OStuck) => s
  end.

(** the part of Imp.<m> after its trigger (for aclose: followed by the tail of Nextline.close) *)
Definition imp_rest (m : string) : option (list iprim) :=
  match imp_prog m with
  | Some l => match split_trigger l with
              | Some (_, _, r) =>
                if String.eqb m "aclose" then match nextline_close_tail with Some u => Some (r ++ u) | None => None end
                else Some r
              | None => None end
  | None => None
  end.

Definition derived_epilogue (m : string) (t : nat) (c : call) (s : state) : state :=
  match imp_rest m with Some r => oembed m t c (orun t c r s) | None => s end.

(** ------------------------------------------------------------------ theorems *)

(** which trigger each Imp method fires under the lock, with what before and after it *)
Theorem imp_method_shapes :
  (exists r, imp_prog "aopen" = Some r /\ split_trigger r = Some ([], TInitialize, [IDo release])) /\
  (exists r, imp_prog "run" = Some r /\ split_trigger r = Some ([], TRun, [IDo release])) /\
  (exists r, imp_prog "reset" = Some r /\ split_trigger r = Some ([], TReset, [IDo release])) /\
  (exists r a rd, imp_prog "aclose" = Some r /\
     wait_for_run_finish_prims = Some [PWait a rd C_WaitRunFinished] /\
     split_trigger r = Some ([IDo (fun s => publish s PEndAll);
                              IWait (fun s => if state_is "running" s then a s else WPass) rd C_WaitRunFinished],
                             TClose,
                             [IDo (fun s => publish s PEndAll); IDo release])) /\
  nextline_close_tail = Some [IDo close_cont].
Proof.
  repeat split.
  - eexists; split; vm_compute; reflexivity.
  - eexists; split; vm_compute; reflexivity.
  - eexists; split; vm_compute; reflexivity.
  - do 3 eexists; repeat split; vm_compute; reflexivity.
Qed.

Lemma release_publish : forall s p, release (publish s p) = publish (release s) p.
Proof.
  intros s p; destruct s; unfold release; cbn.
  match goal with l : list nat |- _ => destruct l as [|x q] end; [reflexivity|]; cbn.
  match goal with |- context [find_task ?l ?x] => destruct (find_task l x) as [[c0 p0]|] end; reflexivity.
Qed.

(** the rests after the trigger, as derived from Gen/ImpSkeleton.v (by computation) *)
Lemma imp_rest_table :
  imp_rest "aopen" = Some [IDo release] /\ imp_rest "run" = Some [IDo release] /\ imp_rest "reset" = Some [IDo release] /\
  imp_rest "aclose" = Some [IDo (fun s => publish s PEndAll); IDo release; IDo close_cont].
Proof. repeat split; vm_compute; reflexivity. Qed.

(** the epilogues that stage 1 copied from the model are the regenerated rests of the Imp methods *)
Theorem imp_epilogue_aopen : forall s t c, epilogue t c TInitialize s = derived_epilogue "aopen" t c s.
Proof.
  intros s t c; unfold derived_epilogue; rewrite (proj1 imp_rest_table); destruct c; reflexivity.
Qed.

Theorem imp_epilogue_run : forall s t c, epilogue t c TRun s = derived_epilogue "run" t c s.
Proof.
  intros s t c; unfold derived_epilogue; rewrite (proj1 (proj2 imp_rest_table)); destruct c; reflexivity.
Qed.

Theorem imp_epilogue_reset : forall s t c, epilogue t c TReset s = derived_epilogue "reset" t c s.
Proof.
  intros s t c; unfold derived_epilogue; rewrite (proj1 (proj2 (proj2 imp_rest_table))); reflexivity.
Qed.

(** close: the second pubsub.close() BEFORE the release (the model writes them the other way round: they commute) *)
Theorem imp_epilogue_aclose : forall s t c, epilogue t c TClose s = derived_epilogue "aclose" t c s.
Proof.
  intros s t c; unfold derived_epilogue; rewrite (proj2 (proj2 (proj2 imp_rest_table))).
  cbn [orun oembed]. rewrite release_publish. reflexivity.
Qed.

(** the regenerated prologue of Imp.aclose, then the trigger: the model's [enter_close], all states *)
Definition imp_pre (m : string) : list iprim :=
  match imp_prog m with
  | Some l => match split_trigger l with Some (a, _, _) => a | None => [ITrigger TFinish] end
  | None => [ITrigger TFinish]
  end.

Theorem imp_close_prologue : forall s t,
  enter_close s t =
  match orun t CClose (imp_pre "aclose") s with
  | (s1, ODone) => close_trigger s1 t
  | (s1, OPark p _ _) => set_pc s1 t CClose p
  | (s1, ORaise x) => raise_out s1 t CClose x
  | (s1, OStuck) => s1
  end.
Proof.
  intros s t.
  let k := eval vm_compute in (imp_pre "aclose") in change (imp_pre "aclose") with k.
  destruct s; repeat match goal with f : fsm |- _ => destruct f end;
    try (match goal with r : option bool |- _ => destruct r as [[|]|] end); reflexivity.
Qed.

(** the other three have no prologue: the model's first segment under the lock is the trigger *)
Theorem imp_no_prologue : imp_pre "aopen" = [] /\ imp_pre "run" = [] /\ imp_pre "reset" = [].
Proof. vm_compute. repeat split. Qed.

(** the whole run of a regenerated Imp method from the moment it holds the lock, for the calls that map to it *)
Definition imp_run (m : string) (t : nat) (c : call) (s : state) : state :=
  match imp_prog m with
  | Some l => oembed m t c (orun t c (if String.eqb m "aclose"
                                      then match nextline_close_tail with Some u => l ++ u | None => [ITrigger TFinish] end
                                      else l) s)
  | None => s
  end.

Lemma imp_prog_table :
  imp_prog "aopen" = Some [ITrigger TInitialize; IDo release] /\
  imp_prog "run" = Some [ITrigger TRun; IDo release] /\
  imp_prog "reset" = Some [ITrigger TReset; IDo release].
Proof. repeat split; vm_compute; reflexivity. Qed.

Ltac split_state s :=
  destruct s; repeat match goal with f : fsm |- _ => destruct f end.
Ltac eval_scripts :=
  repeat match goal with
  | |- context [script ?a ?b] => let k := eval vm_compute in (script a b) in change (script a b) with k
  | |- context [api_prog ?t ?c ?tr ?src] =>
    let k := eval vm_compute in (api_prog t c tr src) in change (api_prog t c tr src) with k
  end.

(** the model's first segment under the lock = the regenerated Imp method run from its first statement *)
Theorem imp_run_aopen : forall s t c, enter_start s t c = imp_run "aopen" t c s.
Proof.
  intros s t c; unfold imp_run; rewrite (proj1 imp_prog_table); cbn [String.eqb Ascii.eqb Bool.eqb orun].
  split_state s; cbn [st_fsm]; eval_scripts; reflexivity.
Qed.

Theorem imp_run_run : forall s t c, enter_run s t c = imp_run "run" t c s.
Proof.
  intros s t c; unfold imp_run; rewrite (proj1 (proj2 imp_prog_table)); cbn [String.eqb Ascii.eqb Bool.eqb orun].
  split_state s; cbn [st_fsm]; eval_scripts; reflexivity.
Qed.

Theorem imp_run_reset : forall s t o, enter_reset s t o = imp_run "reset" t (CReset o) s.
Proof.
  intros s t o; unfold imp_run; rewrite (proj2 (proj2 imp_prog_table)); cbn [String.eqb Ascii.eqb Bool.eqb orun].
  destruct o as [[x|] [a|] [b|] [d|]]; split_state s; cbn [st_fsm]; eval_scripts; reflexivity.
Qed.

Lemma imp_prog_aclose : exists a rd,
  wait_for_run_finish_prims = Some [PWait a rd C_WaitRunFinished] /\
  imp_prog "aclose" = Some [IDo (fun s => publish s PEndAll);
                            IWait (fun s => if state_is "running" s then a s else WPass) rd C_WaitRunFinished;
                            ITrigger TClose; IDo (fun s => publish s PEndAll); IDo release] /\
  nextline_close_tail = Some [IDo close_cont].
Proof. do 2 eexists; repeat split; vm_compute; reflexivity. Qed.

(** the whole close path of the model, from the moment Imp.aclose holds the lock: pubsub.close(); the wait for the
    run if the state is `running`; the trigger `close`; pubsub.close() again; release; Continuous.close() *)
Theorem imp_run_aclose : forall s t, st_fsm s <> Created -> enter_close s t = imp_run "aclose" t CClose s.
Proof.
  intros s t H; unfold imp_run.
  destruct imp_prog_aclose as (a & rd & Hw & Hp & Ht).
  vm_compute in Hw. injection Hw as <- <-.
  rewrite Hp, Ht; clear Hp Ht.
  cbn [String.eqb Ascii.eqb Bool.eqb app orun].
  split_state s; cbn in H; try congruence; clear H; cbn [st_fsm state_is state_name publish set_trace Model.st_fsm];
    try (match goal with r : option bool |- _ => destruct r as [[|]|] end);
    try (match goal with r : option rpc |- _ => destruct r end).
  all: unfold enter_close, state_is; cbn [publish set_trace st_fsm run_finished runt state_name String.eqb Ascii.eqb Bool.eqb].
  all: eval_scripts.
  all: try reflexivity.
  all: cbn [orun run oembed]; rewrite release_publish; reflexivity.
Qed.

(** the event data: every `self._machine.<m>(...)` call of the regenerated Imp (argument shapes emitted by
    translate/machine_wiring.py) passes exactly the positional / keyword arguments that [trigger_event] gives the
    EventData of that trigger (reset: `reset_options=`, the others none); StateMachine.aopen / aclose and
    Callback._finish call their trigger without arguments (enforced by the translator: SAwaitSelf / SAwaitMachine) *)
Fixpoint strs_eqb (a b : list string) : bool :=
  match a, b with
  | [], [] => true
  | x :: a', y :: b' => String.eqb x y && strs_eqb a' b'
  | _, _ => false
  end.
Definition call_agrees (x : string * string * nat * list string) : bool :=
  match x with
  | (im, m, npos, kws) =>
    match resolve_name m, imp_prog im with
    | Some tr, Some l =>
      Nat.eqb npos (ev_nargs (trigger_event tr None)) && strs_eqb kws (ev_kwargs (trigger_event tr None)) &&
      match split_trigger l with Some (_, tr', _) => MachineTie.trig_eqb tr tr' | None => false end
    | _, _ => false
    end
  end.
Theorem imp_event_data :
  forallb call_agrees imp_trigger_calls = true /\
  map (fun x => fst (fst (fst x))) imp_trigger_calls = ["run"; "reset"; "aopen"; "aclose"].
Proof. vm_compute. split; reflexivity. Qed.
