(** C16 tie: an interpreter for the statement programs REGENERATED from
    nextline/continuous.py and nextline/main.py (Gen/ContinuousSkel.v, fail-closed translator
    translate/continuous_skeleton.py) and the theorems that connect what the interpreter
    computes on them -- for ALL environments -- with the functions of the hand-written
    lifecycle model (Life/Model.v: the [CRunCont] branch of [do_call], [refuse],
    [unregister_cont], [cont_disable], [close_cont], [arm], [cont_finished], the [CStart]
    branch of [do_call]).

    What the interpreter knows about Python:
      - sequencing, `if`, `return`, bare `raise`, `try / except <class> / finally` with
        Python's propagation (a handler that completes swallows the exception; the finally
        block always runs and its own non-normal outcome wins);
      - `async with <asynccontextmanager>`: the with-body runs at the generator's `yield`
        and its exception is thrown in there ([subst_yield]); a generator that completes
        after the throw suppresses the exception (contextlib);
      - `AsyncExitStack`: a context manager of the shape `pre; try: yield finally: await x`
        entered on the stack runs `pre` now and `await x` when the stack is left, whatever
        the outcome ([EnterCtx], [run_deferred]);
      - `PubSubItem.publish` raises (RuntimeError) once the item is closed; `aclose` is
        idempotent;
      - pluggy's `unregister(plugin=p)` raises AssertionError when p is not registered and
        removes that one object otherwise ([has_plugin], [remove_first]).
    Lenient (stated, not modelled): `register` of an object that is already registered raises
    in pluggy (a fresh Continue object is created per request; the translator refuses a class
    Continue with decorators/bases or `__eq__`/`__hash__`); `_REQUESTING.reset(token)` raises
    for a token of another context (the generator's finally runs in the task that entered it);
    `publish` / `aclose` / the calls of translated methods are atomic, no cancellation is
    delivered inside them (PubSubItem.publish never suspends -- a fact of
    nextline/utils/pubsub/item.py checked by C08's atomicity test, not re-checked here).
    The environment decides, for every await that is not translated code ([callee]: the
    body at the `yield`, the awaits of Imp, the command sent to the child): what the rest of
    the system does to the shared state meanwhile (an ARBITRARY function [e_interf], which is
    told the value of the ContextVar `_REQUESTING` in the awaiting context, since tasks
    created there inherit it) and whether the await raises, and with which kind of exception
    ([XOrdinary]: an `Exception`, e.g. MachineError; [XBaseOnly]: a `BaseException` that is
    not an `Exception`, e.g. CancelledError, KeyboardInterrupt).

    Shared state: the model's own [state] record -- the interpreter uses only its generic
    setters ([publish], [set_cont_plugins], [set_cont_closed], [set_nl_started],
    [set_nl_closed]) -- plus the two things the model abstracts: the request counter
    `_n_requests` (the model uses [length (cont_plugins s)]) and the closed flag of the
    PubSubItem (the model uses [cont_closed], i.e. `Continuous._closed`, for both).
    A Continue object is identified as in the model: by the task whose request created it
    and its `_run_started` flag ([cont_plugins : list (nat * bool)]). *)
From Coq Require Import List ZArith Bool Arith Lia.
From NL Require Import Life.Model Life.Hist Life.ContFlag.
From NL Require Export Life.ContSyntax Gen.ContinuousSkel.
Import ListNotations.
Open Scope Z_scope.

(** ---- states ---- *)
Inductive exc := XOrdinary | XBaseOnly | XStuck.
Inductive outc := Fin | Ret | Exc (x : exc).

Record shared := mkSh {
  sh_m : state;            (* trace (publications), cont_plugins, cont_closed (= Continuous._closed), nl_started, nl_closed *)
  sh_cnt : Z;              (* Continuous._n_requests *)
  sh_item : bool           (* PubSubItem._closed of the `continuous enabled` item *)
}.

Record frame := mkFr {
  fr_me : nat;             (* Continuous/Nextline methods: the executing task (identity of the plugin it creates);
                              Continue methods: the task whose request created `self` *)
  fr_started : bool;       (* `_run_started` of the Continue object in focus (`self`; the object under construction) *)
  fr_ctx : option nat;     (* _REQUESTING.get() in the current context *)
  fr_plugin : option nat;  (* local variable `plugin` *)
  fr_token : option (option nat);   (* local variable `token`: the value to restore *)
  fr_deferred : list callee;        (* exit callbacks of the innermost AsyncExitStack *)
  fr_sent : nat            (* `continue` commands sent *)
}.

Record env := mkEnv {
  e_exc : callee -> option exc;
  e_interf : callee -> option nat -> shared -> shared;
  e_own_started : bool     (* `plugin._run_started` at the moment `_requested` unregisters its plugin *)
}.

Definition set_m (sh : shared) (m : state) : shared := mkSh m (sh_cnt sh) (sh_item sh).
Definition set_cnt (sh : shared) (n : Z) : shared := mkSh (sh_m sh) n (sh_item sh).
Definition set_item (sh : shared) (b : bool) : shared := mkSh (sh_m sh) (sh_cnt sh) b.

Definition set_started (f : frame) (b : bool) : frame :=
  mkFr (fr_me f) b (fr_ctx f) (fr_plugin f) (fr_token f) (fr_deferred f) (fr_sent f).
Definition set_ctx (f : frame) (v : option nat) : frame :=
  mkFr (fr_me f) (fr_started f) v (fr_plugin f) (fr_token f) (fr_deferred f) (fr_sent f).
Definition set_plugin (f : frame) (v : option nat) : frame :=
  mkFr (fr_me f) (fr_started f) (fr_ctx f) v (fr_token f) (fr_deferred f) (fr_sent f).
Definition set_token (f : frame) (v : option (option nat)) : frame :=
  mkFr (fr_me f) (fr_started f) (fr_ctx f) (fr_plugin f) v (fr_deferred f) (fr_sent f).
Definition set_deferred (f : frame) (v : list callee) : frame :=
  mkFr (fr_me f) (fr_started f) (fr_ctx f) (fr_plugin f) (fr_token f) v (fr_sent f).
Definition set_sent (f : frame) (v : nat) : frame :=
  mkFr (fr_me f) (fr_started f) (fr_ctx f) (fr_plugin f) (fr_token f) (fr_deferred f) v.

(** ---- expressions ---- *)
Fixpoint ieval (x : iexpr) (sh : shared) : Z :=
  match x with
  | INum z => z
  | ICounter => sh_cnt sh
  | IAdd a b => ieval a sh + ieval b sh
  | ISub a b => ieval a sh - ieval b sh
  end.

Definition cmp (op : cmpop) (a b : Z) : bool :=
  match op with
  | CGt => a >? b | CGe => a >=? b | CLt => a <? b | CLe => a <=? b
  | CEq => a =? b | CNe => negb (a =? b)
  end.

Fixpoint beval (b : bexpr) (sh : shared) (fr : frame) : bool :=
  match b with
  | BConst v => v
  | BCmp op x y => cmp op (ieval x sh) (ieval y sh)
  | BNot x => negb (beval x sh fr)
  | BAnd x y => beval x sh fr && beval y sh fr
  | BOr x y => beval x sh fr || beval y sh fr
  | BClosed => cont_closed (sh_m sh)
  | BRunStarted => fr_started fr
  | BRequestingIsSelf => match fr_ctx fr with Some p => Nat.eqb p (fr_me fr) | None => false end
  | BNlStarted => nl_started (sh_m sh)
  | BNlClosed => nl_closed (sh_m sh)
  end.

(** ---- statements ---- *)
Notation res := (outc * shared * frame)%type.

Definition await (e : env) (c : callee) (sh : shared) (fr : frame) : res :=
  (match e_exc e c with Some x => Exc x | None => Fin end, e_interf e c (fr_ctx fr) sh, fr).

Definition catches (h : hclass) (x : exc) : bool :=
  match x, h with
  | XStuck, _ => false
  | XOrdinary, _ => true
  | XBaseOnly, HBaseException => true
  | XBaseOnly, HException => false
  end.

(** the registry entry of the Continue object created for task [t] whose `_run_started` is [b] *)
Definition is_plugin (t : nat) (b : bool) (x : nat * bool) : bool := Nat.eqb (fst x) t && Bool.eqb (snd x) b.

Fixpoint remove_first {A} (p : A -> bool) (l : list A) : list A :=
  match l with [] => [] | a :: r => if p a then r else a :: remove_first p r end.

(** pluggy's `unregister(plugin=...)` raises AssertionError("plugin is not registered") when the
    object is not registered, and removes that ONE object otherwise *)
Definition has_plugin (m : state) (t : nat) (b : bool) : bool := existsb (is_plugin t b) (cont_plugins m).
Definition unreg_m (m : state) (t : nat) (b : bool) : state :=
  set_cont_plugins m (remove_first (is_plugin t b) (cont_plugins m)).

Fixpoint run_deferred (e : env) (ctx : option nat) (l : list callee) (o : outc) (sh : shared) : outc * shared :=
  match l with
  | [] => (o, sh)
  | c :: r => run_deferred e ctx r (match e_exc e c with Some x => Exc x | None => o end) (e_interf e c ctx sh)
  end.

Fixpoint exec (s : stmt) (e : env) (cur : option exc) (sh : shared) (fr : frame) : res :=
  match s with
  | Skip | EventSet => (Fin, sh, fr)
  | Seq a b =>
      let '(o, sh1, fr1) := exec a e cur sh fr in
      match o with Fin => exec b e cur sh1 fr1 | _ => (o, sh1, fr1) end
  | SetCounter x => (Fin, set_cnt sh (ieval x sh), fr)
  | SetClosed b => (Fin, set_m sh (set_cont_closed (sh_m sh) (beval b sh fr)), fr)
  | NewItem => (Fin, set_item sh false, fr)
  | Publish b =>
      if sh_item sh then (Exc XOrdinary, sh, fr)
      else (Fin, set_m sh (publish (sh_m sh) (PCont (beval b sh fr))), fr)
  | CloseItem =>
      if sh_item sh then (Fin, sh, fr)
      else (Fin, set_item (set_m sh (publish (sh_m sh) PEndCont)) true, fr)
  | NewPlugin => (Fin, sh, set_plugin fr (Some (fr_me fr)))
  | Register PLocal =>
      match fr_plugin fr with
      | Some p => (Fin, set_m sh (set_cont_plugins (sh_m sh) (cont_plugins (sh_m sh) ++ [(p, fr_started fr)])), fr)
      | None => (Exc XStuck, sh, fr)
      end
  | Register PSelf => (Exc XStuck, sh, fr)
  | Unregister PLocal =>
      match fr_plugin fr with
      | Some p =>
          if has_plugin (sh_m sh) p (e_own_started e)
          then (Fin, set_m sh (unreg_m (sh_m sh) p (e_own_started e)), fr)
          else (Exc XOrdinary, sh, fr)
      | None => (Exc XStuck, sh, fr)
      end
  | Unregister PSelf =>
      if has_plugin (sh_m sh) (fr_me fr) (fr_started fr)
      then (Fin, set_m sh (unreg_m (sh_m sh) (fr_me fr) (fr_started fr)), fr)
      else (Exc XOrdinary, sh, fr)
  | CtxSet => (Fin, sh, set_ctx (set_token fr (Some (fr_ctx fr))) (fr_plugin fr))
  | CtxReset =>
      match fr_token fr with
      | Some v => (Fin, sh, set_ctx fr v)
      | None => (Exc XStuck, sh, fr)
      end
  | Yield => await e CBody sh fr
  | Await c => await e c sh fr
  | Raise => (Exc (match cur with Some x => x | None => XOrdinary end), sh, fr)
  | Return | ReturnLatest | ReturnSubscribe => (Ret, sh, fr)
  | If c a b => if beval c sh fr then exec a e cur sh fr else exec b e cur sh fr
  | Try body hc hb fin =>
      let '(o1, sh1, fr1) := exec body e cur sh fr in
      let '(o2, sh2, fr2) :=
        match o1, hc with
        | Exc x, Some h => if catches h x then exec hb e (Some x) sh1 fr1 else (o1, sh1, fr1)
        | _, _ => (o1, sh1, fr1)
        end in
      let '(o3, sh3, fr3) := exec fin e cur sh2 fr2 in
      (match o3 with Fin => o2 | _ => o3 end, sh3, fr3)
  | SetRunStarted b => (Fin, sh, set_started fr (beval b sh fr))
  | SendContinue => await e CSendCmd sh (set_sent fr (S (fr_sent fr)))
  | SetNlStarted b => (Fin, set_m sh (set_nl_started (sh_m sh) (beval b sh fr)), fr)
  | SetNlClosed b => (Fin, set_m sh (set_nl_closed (sh_m sh) (beval b sh fr)), fr)
  | Scope b =>
      let '(o, sh1, fr1) := exec b e cur sh fr in
      (match o with Ret => Fin | _ => o end, sh1, fr1)
  | WithExitStack b =>
      let '(o, sh1, fr1) := exec b e cur sh (set_deferred fr []) in
      let '(o2, sh2) := run_deferred e (fr_ctx fr1) (fr_deferred fr1) o sh1 in
      (o2, sh2, set_deferred fr1 (fr_deferred fr))
  | EnterCtx pre c =>
      let '(o, sh1, fr1) := exec pre e cur sh fr in
      match o with
      | Fin => (Fin, sh1, set_deferred fr1 (c :: fr_deferred fr1))
      | _ => (o, sh1, fr1)
      end
  | CallM _ | WithRequested _ | EnterCtxOf _ | Stuck => (Exc XStuck, sh, fr)
  end.

(** ---- inlining of calls and context managers ---- *)
Fixpoint has_yield (s : stmt) : bool :=
  match s with
  | Yield => true
  | Seq a b | If _ a b => has_yield a || has_yield b
  | Try a _ hb f => has_yield a || has_yield hb || has_yield f
  | Scope a | WithRequested a | WithExitStack a => has_yield a
  | EnterCtx a _ => has_yield a
  | _ => false
  end.

(** a `return` that would leave the statement itself (not one inside a called method) *)
Fixpoint has_return (s : stmt) : bool :=
  match s with
  | Return => true
  | Seq a b | If _ a b => has_return a || has_return b
  | Try a _ hb f => has_return a || has_return hb || has_return f
  | WithRequested a | WithExitStack a => has_return a
  | EnterCtx a _ => has_return a
  | _ => false
  end.

Fixpoint subst_yield (g body : stmt) : stmt :=
  match g with
  | Yield => body
  | Seq a b => Seq (subst_yield a body) (subst_yield b body)
  | If c a b => If c (subst_yield a body) (subst_yield b body)
  | Try a hc hb f => Try (subst_yield a body) hc (subst_yield hb body) (subst_yield f body)
  | x => x
  end.

(** `pre; try: yield finally: await c` *)
Definition split_ctx (g : stmt) : option (stmt * callee) :=
  match g with
  | Seq pre (Try Yield None _ (Await c)) => if has_yield pre || has_return pre then None else Some (pre, c)
  | Try Yield None _ (Await c) => Some (Skip, c)
  | _ => None
  end.

Fixpoint inline (fuel : nat) (s : stmt) : stmt :=
  match fuel with
  | O => Stuck
  | S f =>
    match s with
    | Seq a b => Seq (inline f a) (inline f b)
    | If c a b => If c (inline f a) (inline f b)
    | Try a hc hb fi => Try (inline f a) hc (inline f hb) (inline f fi)
    | NewPlugin => Seq NewPlugin (Scope (inline f (resolve MCInit)))      (* Continue.__init__ *)
    | CallM m => Scope (inline f (resolve m))
    | WithRequested b =>
        let g := inline f (resolve MRequested) in
        if has_return g || has_yield b then Stuck else subst_yield g (inline f b)
    | WithExitStack b => WithExitStack (inline f b)
    | EnterCtxOf m =>
        match split_ctx (inline f (resolve m)) with
        | Some (pre, c) => EnterCtx pre c
        | None => Stuck
        end
    | Scope b => Scope (inline f b)
    | EnterCtx pre c => EnterCtx (inline f pre) c
    | x => x
    end
  end.

(** a method as its caller sees it: `return` ends it *)
Definition prog (m : meth) : stmt := Scope (inline 64 (resolve m)).

(** ---- vocabulary of the statements ---- *)

(** `Continuous._closed` and the closed flag of its item agree (they are written together by
    Continuous.close / __init__ only: [close_coherent], [init_coherent]) *)
Definition coherent (sh : shared) : Prop := sh_item sh = cont_closed (sh_m sh).

Definition env_ok (e : env) : Prop := forall c v sh, coherent sh -> coherent (e_interf e c v sh).

(** the model's representation of the counter *)
Definition counted (sh : shared) : Prop := sh_cnt sh = Z.of_nat (length (cont_plugins (sh_m sh))).

(** the [CRunCont]/[CRunContWait] branch of [do_call], between the guard and [acquire] *)
Definition entry_m (m : state) (t : nat) : state :=
  set_cont_plugins (publish m (PCont true)) (cont_plugins m ++ [(t, false)]).

(** Continuous.disable() in terms of the counter *)
Definition disable_sh (sh : shared) : shared :=
  if cont_closed (sh_m sh) then set_cnt sh (sh_cnt sh - 1)
  else mkSh (publish (sh_m sh) (PCont (sh_cnt sh - 1 >? 0))) (sh_cnt sh - 1) (sh_item sh).

Definition at_yield (fr : frame) : frame :=
  set_ctx (set_token (set_started (set_plugin fr (Some (fr_me fr))) false) (Some (fr_ctx fr))) (Some (fr_me fr)).

Definition after_with (fr : frame) : frame := set_ctx (at_yield fr) (fr_ctx fr).

(** ---- small facts ---- *)
Lemma gt0_nonempty {A} (l : list A) : (Z.of_nat (length l) >? 0) = nonempty l.
Proof. destruct l; simpl; [reflexivity | ]. apply Z.gtb_lt. lia. Qed.

Lemma nonempty_match {A} (l : list A) : match l with [] => false | _ :: _ => true end = nonempty l.
Proof. reflexivity. Qed.

Lemma is_plugin_eq t b x : is_plugin t b x = true <-> x = (t, b).
Proof.
  destruct x as [a c]. unfold is_plugin. simpl. split.
  - intros H. apply andb_prop in H. destruct H as [H1 H2]. apply Nat.eqb_eq in H1. apply eqb_prop in H2. congruence.
  - intros H. inversion H. subst. rewrite Nat.eqb_refl, eqb_reflx. reflexivity.
Qed.

Lemma has_plugin_in m t b : has_plugin m t b = true <-> In (t, b) (cont_plugins m).
Proof.
  unfold has_plugin. rewrite existsb_exists. split.
  - intros (x & Hin & Hp). apply is_plugin_eq in Hp. subst x. exact Hin.
  - intros H. exists (t, b). split; [exact H | apply is_plugin_eq; reflexivity].
Qed.

Lemma remove_first_length {A} (p : A -> bool) l :
  existsb p l = true -> length (remove_first p l) = pred (length l).
Proof.
  induction l as [ | a l IH]; simpl; [discriminate | ]. destruct (p a) eqn:E; simpl; [reflexivity | ].
  intros H. rewrite IH by exact H. destruct l; [discriminate | reflexivity].
Qed.

(** with a duplicate-free registry (an invariant of the model) removing the one object is the
    model's `filter` *)
Lemma remove_first_filter {A} (p : A -> bool) (l : list A) (a : A) :
  NoDup l -> (forall x, p x = true -> x = a) ->
  remove_first p l = filter (fun x => negb (p x)) l.
Proof.
  intros ND Hp. induction l as [ | b l IH]; simpl; [reflexivity | ].
  inversion ND as [ | ? ? Hnb ND']; subst.
  destruct (p b) eqn:Eb; simpl.
  - assert (b = a) by (apply Hp; exact Eb). subst b.
    symmetry. apply filter_all. intros x Hx. destruct (p x) eqn:Ex; [ | reflexivity].
    assert (x = a) by (apply Hp; exact Ex). subst x. contradiction.
  - rewrite IH by exact ND'. reflexivity.
Qed.

Lemma unreg_m_false m t : NoDup (cont_plugins m) -> unreg_m m t false = unregister_cont m t.
Proof.
  intros ND. unfold unreg_m, unregister_cont. f_equal.
  rewrite (remove_first_filter _ _ (t, false) ND) by (intros x; apply is_plugin_eq).
  apply filter_ext. intros [a []]; reflexivity.
Qed.

Lemma unreg_m_true m t : NoDup (cont_plugins m) ->
  unreg_m m t true = set_cont_plugins m (filter (fun x => negb (snd x && Nat.eqb (fst x) t)) (cont_plugins m)).
Proof.
  intros ND. unfold unreg_m. f_equal.
  rewrite (remove_first_filter _ _ (t, true) ND) by (intros x; apply is_plugin_eq).
  apply filter_ext. intros [a []]; unfold is_plugin; simpl; rewrite ?andb_true_r, ?andb_false_r; reflexivity.
Qed.

Lemma unreg_length m t b :
  has_plugin m t b = true ->
  length (cont_plugins (unreg_m m t b)) = pred (length (cont_plugins m)).
Proof. intros H. unfold unreg_m. simpl. apply remove_first_length. exact H. Qed.

(** ---- running the interpreter symbolically ---- *)
Ltac prog_compute m :=
  unfold prog;
  let p := eval vm_compute in (inline 64 (resolve m)) in change (inline 64 (resolve m)) with p.

Ltac run :=
  cbv beta iota zeta delta [exec beval ieval cmp await catches run_deferred
       set_m set_cnt set_item set_started set_ctx set_plugin set_token set_deferred set_sent
       sh_m sh_cnt sh_item fr_me fr_started fr_ctx fr_plugin fr_token fr_deferred fr_sent
       negb andb orb entry_m disable_sh at_yield after_with].

(** finish: case analysis on the environment's answers that are still pending *)
Ltac done :=
  try reflexivity;
  repeat (match goal with |- context [e_exc ?e ?c] => destruct (e_exc e c) as [[ | | ] | ] end);
  reflexivity.

Lemma closed_unreg m t b : cont_closed (unreg_m m t b) = cont_closed m.
Proof. reflexivity. Qed.

(** ==== (1)(3) Continuous._requested, for ALL environments ====
    the whole generator: what it does up to the `yield`, what the environment is handed there
    (the shared state [sh1] = the model's [entry_m] with the counter incremented, and the
    ContextVar = the plugin just created), and what happens after the body, whatever the rest
    of the system did meanwhile ([sh2] is arbitrary) and whatever the body raised: the plugin
    of THIS request (and no other) is unregistered, the counter is decremented, the flag
    re-published from the counter unless closed, the ContextVar restored, the exception
    re-raised *)
Theorem requested_all_env : forall e cur sh fr,
  env_ok e -> coherent sh -> cont_closed (sh_m sh) = false ->
  let t := fr_me fr in
  let sh1 := mkSh (entry_m (sh_m sh) t) (sh_cnt sh + 1) false in
  let sh2 := e_interf e CBody (Some t) sh1 in
  exec (prog MRequested) e cur sh fr =
  match e_exc e CBody with
  | None => (Fin, sh2, after_with fr)
  | Some XStuck => (Exc XStuck, sh2, after_with fr)
  | Some x =>
      (if has_plugin (sh_m sh2) t (e_own_started e)
       then (Exc x, disable_sh (set_m sh2 (unreg_m (sh_m sh2) t (e_own_started e))), after_with fr)
       else (Exc XOrdinary, sh2, after_with fr))      (* AssertionError out of unregister: no disable() *)
  end.
Proof.
  intros e cur [m n it] [me st cx pl tk df sn] Hok Hco Hcl.
  unfold coherent in Hco. simpl in Hco, Hcl. rewrite Hcl in Hco. subst it.
  assert (Hco2 : coherent (e_interf e CBody (Some me) (mkSh (entry_m m me) (n + 1) false))).
  { apply Hok. unfold coherent. simpl. symmetry. exact Hcl. }
  unfold coherent in Hco2. revert Hco2.
  prog_compute MRequested. run. cbn [cont_plugins publish set_trace].
  generalize (e_interf e CBody (Some me)
       {| sh_m := set_cont_plugins (publish m (PCont true)) (cont_plugins m ++ [(me, false)]);
          sh_cnt := n + 1; sh_item := false |}).
  intros [m2 n2 it2]. run. intros ->.
  destruct (e_exc e CBody) as [[ | | ] | ]; run; try reflexivity.
  - destruct (has_plugin m2 me (e_own_started e)); run; [ | reflexivity].
    rewrite closed_unreg. destruct (cont_closed m2) eqn:Ec; run; rewrite ?closed_unreg, ?Ec; reflexivity.
  - destruct (has_plugin m2 me (e_own_started e)); run; [ | reflexivity].
    rewrite closed_unreg. destruct (cont_closed m2) eqn:Ec; run; rewrite ?closed_unreg, ?Ec; reflexivity.
Qed.

(** the same generator entered when the item has been closed: `publish(True)` raises before
    anything is registered or the ContextVar is set (the counter stays incremented: harmless,
    nothing is published any more once closed) *)
Theorem requested_closed : forall e cur sh fr,
  sh_item sh = true ->
  exec (prog MRequested) e cur sh fr = (Exc XOrdinary, set_cnt sh (sh_cnt sh + 1), fr).
Proof.
  intros e cur [m n it] fr H. simpl in H. subst it. prog_compute MRequested. run. reflexivity.
Qed.

(** the model side: the [CRunCont]/[CRunContWait] branch of [do_call] is [entry_m] *)
Lemma do_call_cont : forall s t c, is_cont c = true -> find_task (tasks s) t = None ->
  let s0 := set_trace s (EvCall t c :: trace s) in
  do_call s t c = if cont_closed s0 then finish_call s0 t c RRuntimeError
                  else acquire (entry_m s0 t) t c false.
Proof.
  intros s t c Hc Hf. unfold do_call. rewrite Hf. destruct c; try discriminate; reflexivity.
Qed.

Theorem tie_entry : forall s t c e cur fr n,
  is_cont c = true -> find_task (tasks s) t = None -> fr_me fr = t -> env_ok e ->
  let s0 := set_trace s (EvCall t c :: trace s) in
  let sh := mkSh s0 n (cont_closed s0) in
  (cont_closed s = false ->
     let sh1 := mkSh (entry_m s0 t) (n + 1) false in
     do_call s t c = acquire (sh_m sh1) t c false /\
     (counted sh -> counted sh1) /\
     exec (prog MRequested) e cur sh fr =
       (let sh2 := e_interf e CBody (Some t) sh1 in
        match e_exc e CBody with
        | None => (Fin, sh2, after_with fr)
        | Some XStuck => (Exc XStuck, sh2, after_with fr)
        | Some x => (if has_plugin (sh_m sh2) t (e_own_started e)
       then (Exc x, disable_sh (set_m sh2 (unreg_m (sh_m sh2) t (e_own_started e))), after_with fr)
       else (Exc XOrdinary, sh2, after_with fr))      (* AssertionError out of unregister: no disable() *)
        end)) /\
  (cont_closed s = true ->
     do_call s t c = finish_call s0 t c RRuntimeError /\
     exec (prog MRequested) e cur sh fr = (Exc XOrdinary, set_cnt sh (n + 1), fr)).
Proof.
  intros s t c e cur fr n Hc Hf Hme Hok s0 sh.
  assert (Ecl : cont_closed s0 = cont_closed s) by reflexivity.
  split; intros Hcl.
  - split; [ | split].
    + rewrite (do_call_cont s t c Hc Hf). cbv zeta. change (cont_closed (set_trace s (EvCall t c :: trace s))) with (cont_closed s). rewrite Hcl. reflexivity.
    + unfold counted. simpl. intros ->. rewrite app_length. simpl. lia.
    + subst t. apply (requested_all_env e cur sh fr Hok).
      * unfold coherent, sh. simpl. reflexivity.
      * exact Hcl.
  - split.
    + rewrite (do_call_cont s t c Hc Hf). cbv zeta. change (cont_closed (set_trace s (EvCall t c :: trace s))) with (cont_closed s). rewrite Hcl. reflexivity.
    + apply requested_closed. exact Hcl.
Qed.

(** ==== Continuous.disable / close / start / __init__ ==== *)
Theorem disable_exec : forall e cur sh fr,
  coherent sh ->
  exec (prog MDisable) e cur sh fr = (Fin, disable_sh sh, fr).
Proof.
  intros e cur [m n it] fr Hco. unfold coherent in Hco. simpl in Hco. subst it.
  prog_compute MDisable. run. destruct (cont_closed m) eqn:Ec; run; rewrite ?Ec; reflexivity.
Qed.

(** against the model: called after the plugin has been unregistered *)
Lemma disable_model : forall sh,
  cont_closed (sh_m sh) = false -> sh_cnt sh = Z.of_nat (S (length (cont_plugins (sh_m sh)))) ->
  sh_m (disable_sh sh) = cont_disable (sh_m sh) /\ counted (disable_sh sh).
Proof.
  intros [m n it] Hcl Hn. simpl in *. unfold disable_sh, counted. simpl. rewrite Hcl. simpl.
  split.
  - unfold cont_disable. rewrite nonempty_match, <- gt0_nonempty. do 3 f_equal. lia.
  - lia.
Qed.

Definition close_sh (sh : shared) : shared :=
  let m1 := set_cont_closed (sh_m sh) true in
  mkSh (publish (if sh_cnt sh >? 0 then publish m1 (PCont false) else m1) PEndCont) (sh_cnt sh) true.

Theorem close_exec : forall e cur sh fr,
  sh_item sh = false ->
  exec (prog MClose) e cur sh fr = (Fin, close_sh sh, fr).
Proof.
  intros e cur [m n it] fr H. simpl in H. subst it. prog_compute MClose. run. unfold close_sh. simpl.
  destruct (n >? 0); run; reflexivity.
Qed.

Lemma close_model : forall sh, counted sh ->
  sh_m (close_sh sh) = close_cont (sh_m sh) /\ coherent (close_sh sh) /\ counted (close_sh sh).
Proof.
  intros [m n it] Hn. unfold counted in Hn. simpl in Hn. subst n. unfold close_sh, coherent, counted. simpl.
  rewrite gt0_nonempty. split; [ | split].
  - unfold close_cont, cont_off_events. destruct m. simpl. destruct cont_plugins; reflexivity.
  - destruct m. simpl. destruct cont_plugins; reflexivity.
  - destruct m. simpl. destruct cont_plugins; reflexivity.
Qed.

Theorem start_exec : forall e cur sh fr,
  sh_item sh = false ->
  exec (prog MStart) e cur sh fr = (Fin, set_m sh (publish (sh_m sh) (PCont false)), fr).
Proof.
  intros e cur [m n it] fr H. simpl in H. subst it. prog_compute MStart. run. reflexivity.
Qed.

Theorem init_exec : forall e cur sh fr,
  exec (prog MInit) e cur sh fr = (Fin, mkSh (set_cont_closed (sh_m sh) false) 0 false, fr).
Proof.
  intros e cur [m n it] fr. prog_compute MInit. run. reflexivity.
Qed.

(** ==== the refusal path against the model's [refuse] ==== *)
Theorem tie_refuse : forall s t c e cur sh0 fr,
  is_cont c = true -> fr_me fr = t -> env_ok e -> coherent sh0 -> cont_closed (sh_m sh0) = false ->
  e_exc e CBody = Some XOrdinary -> e_own_started e = false ->
  let s1 := release s in
  (* whatever happened since the request was made: the refusal finds the state [release s] *)
  (forall v x, e_interf e CBody v x = mkSh s1 (Z.of_nat (length (cont_plugins s1))) (cont_closed s1)) ->
  NoDup (cont_plugins s1) -> In (t, false) (cont_plugins s1) ->
  exists sh',
    exec (prog MRequested) e cur sh0 fr = (Exc XOrdinary, sh', after_with fr) /\
    refuse s t c = finish_call (sh_m sh') t c RMachineError /\
    counted sh' /\ coherent sh'.
Proof.
  intros s t c e cur sh0 fr Hc Hme Hok Hco Hcl Hx Hos s1 Hint ND Hin.
  assert (Hhas : has_plugin s1 t false = true) by (apply has_plugin_in; exact Hin).
  rewrite (requested_all_env e cur sh0 fr Hok Hco Hcl). cbv zeta. rewrite Hx, Hos, Hint, Hme.
  cbn [sh_m]. rewrite Hhas.
  eexists. split; [reflexivity | ].
  unfold refuse. rewrite Hc. fold s1. rewrite (unreg_m_false s1 t ND).
  pose proof (unreg_length s1 t false Hhas) as Hlen. rewrite (unreg_m_false s1 t ND) in Hlen.
  assert (Hpos : (0 < length (cont_plugins s1))%nat) by (destruct (cont_plugins s1); [destruct Hin | simpl; lia]).
  unfold disable_sh, set_m, set_cnt. cbn [sh_m sh_cnt sh_item].
  change (cont_closed (unregister_cont s1 t)) with (cont_closed s1).
  destruct (cont_closed s1) eqn:Ec; unfold counted, coherent; cbn [sh_m sh_cnt sh_item].
  - split; [reflexivity | ]. rewrite Hlen. split; [lia | auto].
  - split; [ | split].
    + unfold cont_disable. rewrite nonempty_match, <- gt0_nonempty, Hlen. do 4 f_equal. lia.
    + change (cont_plugins (publish ?a ?b)) with (cont_plugins a). rewrite Hlen. lia.
    + auto.
Qed.

(** ==== the call sites in Nextline ==== *)

(** Nextline.start: the flag is published (False) before Imp.aopen is entered *)
Lemma do_call_start : forall s t, find_task (tasks s) t = None ->
  let s0 := set_trace s (EvCall t CStart :: trace s) in
  do_call s t CStart = if nl_started s0 then finish_call s0 t CStart ROk
                       else acquire (publish (set_nl_started s0 true) (PCont false)) t CStart false.
Proof. intros s t Hf. unfold do_call. rewrite Hf. reflexivity. Qed.

Theorem nl_start_exec : forall e cur sh fr,
  sh_item sh = false ->
  exec (prog MNlStart) e cur sh fr =
  if nl_started (sh_m sh) then (Fin, sh, fr)
  else (match e_exc e CImpOpen with Some x => Exc x | None => Fin end,
        e_interf e CImpOpen (fr_ctx fr) (set_m sh (publish (set_nl_started (sh_m sh) true) (PCont false))), fr).
Proof.
  intros e cur [m n it] [me st cx pl tk df sn] H. simpl in H. subst it. prog_compute MNlStart. run.
  destruct (nl_started m); run; done.
Qed.

(** Nextline.close on a started object: Imp.aclose first, Continuous.close after it and only
    if it returned.  When Imp.aclose raises (any class, cancellation included) nothing of
    Continuous changes, `Nextline._closed` is reset (close() can be called again) and the
    exception is re-raised *)
Theorem nl_close_exec : forall e cur sh fr,
  nl_started (sh_m sh) = true ->
  let sh0 := set_m sh (set_nl_closed (sh_m sh) true) in
  let sh1 := e_interf e CImpClose (fr_ctx fr) sh0 in
  sh_item sh1 = false ->
  exec (prog MNlClose) e cur sh fr =
  if nl_closed (sh_m sh) then (Fin, sh, fr)
  else match e_exc e CImpClose with
       | Some XStuck => (Exc XStuck, sh1, fr)
       | Some x => (Exc x, set_m sh1 (set_nl_closed (sh_m sh1) false), fr)
       | None => (Fin, close_sh sh1, fr)
       end.
Proof.
  intros e cur [m n it] [me st cx pl tk df sn] Hst. cbv zeta. unfold set_m. cbn [sh_m sh_cnt sh_item fr_ctx] in *.
  prog_compute MNlClose. run. destruct (nl_closed m) eqn:En; run; [reflexivity | ].
  change (nl_started (set_nl_closed m true)) with (nl_started m). rewrite Hst. run.
  generalize (e_interf e CImpClose cx {| sh_m := set_nl_closed m true; sh_cnt := n; sh_item := it |}).
  intros [m1 n1 it1] H. cbn [sh_item] in H. subst it1.
  destruct (e_exc e CImpClose) as [[ | | ] | ]; run; try reflexivity.
  unfold close_sh. cbn [sh_m sh_cnt sh_item]. destruct (n1 >? 0); run; reflexivity.
Qed.

(** ... and when Continuous.close itself raises (its item was closed behind its back while
    requests are counted: publish(False) raises) the flag `Nextline._closed` is reset as well *)
Theorem nl_close_cont_raises : forall e cur sh fr,
  nl_started (sh_m sh) = true -> nl_closed (sh_m sh) = false -> e_exc e CImpClose = None ->
  let sh0 := set_m sh (set_nl_closed (sh_m sh) true) in
  let sh1 := e_interf e CImpClose (fr_ctx fr) sh0 in
  sh_item sh1 = true -> sh_cnt sh1 > 0 ->
  exec (prog MNlClose) e cur sh fr =
  (Exc XOrdinary, set_m sh1 (set_nl_closed (set_cont_closed (sh_m sh1) true) false), fr).
Proof.
  intros e cur [m n it] [me st cx pl tk df sn] Hst Hcl Hx. cbv zeta. unfold set_m. cbn [sh_m sh_cnt sh_item fr_ctx] in *.
  prog_compute MNlClose. run. rewrite Hcl. run.
  change (nl_started (set_nl_closed m true)) with (nl_started m). rewrite Hst, Hx. run.
  generalize (e_interf e CImpClose cx {| sh_m := set_nl_closed m true; sh_cnt := n; sh_item := it |}).
  intros [m1 n1 it1] H Hn. cbn [sh_item sh_cnt] in H, Hn. subst it1.
  assert (E : n1 >? 0 = true) by (apply Z.gtb_lt; lia). rewrite E. run. reflexivity.
Qed.

(** Nextline.close on an object that was never started: start() first *)
Theorem nl_close_unstarted_exec : forall e cur sh fr,
  nl_started (sh_m sh) = false -> nl_closed (sh_m sh) = false -> sh_item sh = false ->
  e_exc e CImpOpen = None -> e_exc e CImpClose = None ->
  let sh0 := set_m sh (publish (set_nl_started (set_nl_closed (sh_m sh) true) true) (PCont false)) in
  let sh1 := e_interf e CImpClose (fr_ctx fr) (e_interf e CImpOpen (fr_ctx fr) sh0) in
  sh_item (e_interf e CImpOpen (fr_ctx fr) sh0) = false -> sh_item sh1 = false ->
  exec (prog MNlClose) e cur sh fr = (Fin, close_sh sh1, fr).
Proof.
  intros e cur [m n it] [me st cx pl tk df sn] Hst Hcl Hit Ho Hc. cbv zeta. unfold set_m. cbn [sh_m sh_cnt sh_item fr_ctx] in *. subst it.
  prog_compute MNlClose. run. rewrite Hcl. run.
  change (nl_started (set_nl_closed m true)) with (nl_started m). rewrite Hst. run. rewrite Ho, Hc.
  generalize (e_interf e CImpOpen cx
       {| sh_m := publish (set_nl_started (set_nl_closed m true) true) (PCont false); sh_cnt := n; sh_item := false |}).
  intros sha Ha. run.
  generalize dependent (e_interf e CImpClose cx sha).
  intros [m1 n1 it1] H. cbn [sh_item] in H. subst it1. run.
  unfold close_sh. cbn [sh_m sh_cnt sh_item]. destruct (n1 >? 0); run; reflexivity.
Qed.

(** plain run(): nothing of Continuous is touched; the run task is created in the caller's context *)
Theorem nl_run_exec : forall e cur sh fr,
  exec (prog MNlRun) e cur sh fr =
  (match e_exc e CImpRun with Some x => Exc x | None => Fin end, e_interf e CImpRun (fr_ctx fr) sh, fr).
Proof. intros e cur sh [me st cx pl tk df sn]. prog_compute MNlRun. run. done. Qed.

(** an environment seen from `_requested` when the with-body is the await of callee [c] *)
Definition env_body (e : env) (c : callee) : env :=
  mkEnv (fun k => match k with CBody => e_exc e c | _ => e_exc e k end)
        (fun k => match k with CBody => e_interf e c | _ => e_interf e k end)
        (e_own_started e).

Lemma env_body_ok e c : env_ok e -> env_ok (env_body e c).
Proof. intros H k v sh Hc. destruct k; simpl; apply H; exact Hc. Qed.

(** run_and_continue = `_requested` around exactly Imp.run() *)
Theorem run_and_continue_exec : forall e cur sh fr,
  env_ok e -> coherent sh -> cont_closed (sh_m sh) = false ->
  exec (prog MNlRunAndContinue) e cur sh fr = exec (prog MRequested) (env_body e CImpRun) cur sh fr.
Proof.
  intros e cur sh fr Hok Hco Hcl.
  rewrite (requested_all_env (env_body e CImpRun) cur sh fr (env_body_ok e CImpRun Hok) Hco Hcl). cbv zeta.
  destruct sh as [m n it]. destruct fr as [me st cx pl tk df sn].
  unfold coherent in Hco. simpl in Hco, Hcl. rewrite Hcl in Hco. subst it.
  assert (Hco2 : coherent (e_interf e CImpRun (Some me) (mkSh (entry_m m me) (n + 1) false))).
  { apply Hok. unfold coherent. simpl. symmetry. exact Hcl. }
  unfold coherent in Hco2. revert Hco2.
  prog_compute MNlRunAndContinue. unfold env_body. run. cbn [cont_plugins publish set_trace e_exc e_interf e_own_started].
  generalize (e_interf e CImpRun (Some me)
       {| sh_m := set_cont_plugins (publish m (PCont true)) (cont_plugins m ++ [(me, false)]);
          sh_cnt := n + 1; sh_item := false |}).
  intros [m2 n2 it2]. run. intros ->.
  destruct (e_exc e CImpRun) as [[ | | ] | ]; run; try reflexivity.
  - destruct (has_plugin m2 me (e_own_started e)); run; [ | reflexivity].
    rewrite closed_unreg. destruct (cont_closed m2) eqn:Ec; run; rewrite ?closed_unreg, ?Ec; reflexivity.
  - destruct (has_plugin m2 me (e_own_started e)); run; [ | reflexivity].
    rewrite closed_unreg. destruct (cont_closed m2) eqn:Ec; run; rewrite ?closed_unreg, ?Ec; reflexivity.
Qed.

(** run_continue_and_wait: `_requested` covers exactly the entering of run_session (= Imp.run());
    `started.set()` and the wait for the end of the run (Imp.wait, when the stack is left) come
    after the ContextVar has been restored, and only if the request was accepted *)
Theorem run_continue_and_wait_exec : forall e cur sh fr,
  env_ok e -> coherent sh -> cont_closed (sh_m sh) = false -> fr_deferred fr = [] ->
  exec (prog MNlRunContinueAndWait) e cur sh fr =
  let '(o, sh', fr') := exec (prog MRequested) (env_body e CImpRun) cur sh fr in
  match o with
  | Fin => (match e_exc e CImpWait with Some x => Exc x | None => Fin end, e_interf e CImpWait (fr_ctx fr') sh', fr')
  | _ => (o, sh', fr')
  end.
Proof.
  intros e cur sh fr Hok Hco Hcl Hdf.
  rewrite (requested_all_env (env_body e CImpRun) cur sh fr (env_body_ok e CImpRun Hok) Hco Hcl). cbv zeta.
  destruct sh as [m n it]. destruct fr as [me st cx pl tk df sn]. simpl in Hdf. subst df.
  unfold coherent in Hco. simpl in Hco, Hcl. rewrite Hcl in Hco. subst it.
  assert (Hco2 : coherent (e_interf e CImpRun (Some me) (mkSh (entry_m m me) (n + 1) false))).
  { apply Hok. unfold coherent. simpl. symmetry. exact Hcl. }
  unfold coherent in Hco2. revert Hco2.
  prog_compute MNlRunContinueAndWait. unfold env_body. run. cbn [cont_plugins publish set_trace e_exc e_interf e_own_started].
  generalize (e_interf e CImpRun (Some me)
       {| sh_m := set_cont_plugins (publish m (PCont true)) (cont_plugins m ++ [(me, false)]);
          sh_cnt := n + 1; sh_item := false |}).
  intros [m2 n2 it2]. run. intros ->.
  destruct (e_exc e CImpRun) as [[ | | ] | ]; run; try reflexivity.
  - destruct (has_plugin m2 me (e_own_started e)); run; [ | reflexivity].
    rewrite closed_unreg. destruct (cont_closed m2) eqn:Ec; run; rewrite ?closed_unreg, ?Ec; reflexivity.
  - destruct (has_plugin m2 me (e_own_started e)); run; [ | reflexivity].
    rewrite closed_unreg. destruct (cont_closed m2) eqn:Ec; run; rewrite ?closed_unreg, ?Ec; reflexivity.
  - destruct (e_exc e CImpWait); reflexivity.
Qed.

(** ==== (4) the Continue plugin ==== *)

(** on_start_run: `_run_started` becomes True only if the ContextVar of the context the hook
    runs in (the run task's, inherited from the request that created it) is this very plugin *)
Theorem on_start_run_exec : forall e cur sh fr,
  exec (prog MOnStartRun) e cur sh fr =
  (Fin, sh, set_started fr (fr_started fr || match fr_ctx fr with Some p => Nat.eqb p (fr_me fr) | None => false end)).
Proof.
  intros e cur sh [me st cx pl tk df sn]. prog_compute MOnStartRun. run.
  destruct st; (destruct cx as [p | ]; [destruct (Nat.eqb p me) | ]); run; reflexivity.
Qed.

(** the plugin [x] of the registry, as the frame of one of its hook implementations; the
    hooks of a run are called in the run task, whose context was copied from the request of
    task [owner]: `_REQUESTING` there is that request's plugin if it was a continue request *)
Definition plugin_frame (x : nat * bool) (ctx : option nat) : frame :=
  mkFr (fst x) (snd x) ctx None None [] O.

Definition run_ctx (requested : bool) (owner : nat) : option nat := if requested then Some owner else None.

(** ... which is the model's [arm] *)
Theorem tie_arm : forall e cur sh requested owner l,
  map (fun x => (fst x, fr_started (snd (exec (prog MOnStartRun) e cur sh (plugin_frame x (run_ctx requested owner)))))) l
  = arm requested owner l.
Proof.
  intros. unfold arm. apply map_ext. intros [t b]. rewrite on_start_run_exec. unfold run_ctx. simpl.
  destruct requested; simpl; [ | rewrite orb_false_r; reflexivity].
  rewrite (Nat.eqb_sym owner t). reflexivity.
Qed.

(** on_start_prompt: the command is sent iff `_run_started` *)
Theorem on_start_prompt_exec : forall e cur sh fr,
  exec (prog MOnStartPrompt) e cur sh fr =
  if fr_started fr
  then (match e_exc e CSendCmd with Some x => Exc x | None => Fin end,
        e_interf e CSendCmd (fr_ctx fr) sh, set_sent fr (S (fr_sent fr)))
  else (Fin, sh, fr).
Proof.
  intros e cur sh [me st cx pl tk df sn]. prog_compute MOnStartPrompt. run. destruct st; run; done.
Qed.

(** on_finished: nothing unless `_run_started`; otherwise the plugin unregisters itself and
    the request is no longer counted *)
Theorem on_finished_exec : forall e cur sh fr,
  coherent sh ->
  exec (prog MOnFinished) e cur sh fr =
  if fr_started fr then
    if has_plugin (sh_m sh) (fr_me fr) true
    then (Fin, disable_sh (set_m sh (unreg_m (sh_m sh) (fr_me fr) true)), fr)
    else (Exc XOrdinary, sh, fr)             (* not reached: pluggy calls the hooks of registered plugins only *)
  else (Fin, sh, fr).
Proof.
  intros e cur [m n it] [me st cx pl tk df sn] Hco. unfold coherent in Hco. simpl in Hco. subst it.
  prog_compute MOnFinished. run. destruct st; run; [ | reflexivity].
  destruct (has_plugin m me true); run; [ | reflexivity].
  unfold disable_sh. cbn [sh_m sh_cnt sh_item set_m]. rewrite closed_unreg.
  destruct (cont_closed m) eqn:Ec; run; rewrite ?closed_unreg, ?Ec; reflexivity.
Qed.

(** one unrolling of the model's [cont_finished] is the interpreted on_finished of the first
    started plugin *)
Theorem tie_cont_finished : forall e cur m n t b rest fuel,
  cont_closed m = false -> NoDup (cont_plugins m) ->
  filter (fun x => snd x) (cont_plugins m) = (t, b) :: rest ->
  let sh := mkSh m (Z.of_nat (length (cont_plugins m))) false in
  let r := exec (prog MOnFinished) e cur sh (plugin_frame (t, true) n) in
  cont_finished m (S fuel) = cont_finished (sh_m (snd (fst r))) fuel /\ counted (snd (fst r)).
Proof.
  intros e cur m n t b rest fuel Hcl ND Hf sh r.
  assert (Hin : In (t, true) (cont_plugins m)).
  { assert (H : In (t, b) (filter (fun x => snd x) (cont_plugins m))) by (rewrite Hf; left; reflexivity).
    apply filter_In in H. destruct H as [H1 H2]. simpl in H2. subst b. exact H1. }
  assert (Hex := on_finished_exec e cur sh (plugin_frame (t, true) n)).
  assert (Hhas : has_plugin m t true = true) by (apply has_plugin_in; exact Hin).
  subst r. rewrite Hex by (unfold coherent, sh; simpl; auto). cbn [plugin_frame fr_started fr_me fst snd].
  change (sh_m sh) with m. rewrite Hhas. cbn [fst snd].
  pose proof (unreg_length m t true Hhas) as Hlen.
  assert (Hpos : (0 < length (cont_plugins m))%nat) by (destruct (cont_plugins m); [destruct Hin | simpl; lia]).
  destruct (disable_model (set_m sh (unreg_m m t true))) as [E1 E2].
  - exact Hcl.
  - unfold sh, set_m. cbn [sh_m sh_cnt]. rewrite Hlen. lia.
  - change (sh_m sh) with m. split; [ | exact E2]. rewrite E1. unfold sh, set_m. cbn [sh_m]. rewrite (unreg_m_true m t ND).
    simpl. rewrite Hf. reflexivity.
Qed.

(** `_run_started` is written by Continue.__init__ (False) and on_start_run only; the
    ContextVar by `_requested` only; the counter / `_closed` by Continuous only *)
Fixpoint writes (p : stmt -> bool) (s : stmt) : bool :=
  p s ||
  match s with
  | Seq a b | If _ a b => writes p a || writes p b
  | Try a _ hb f => writes p a || writes p hb || writes p f
  | WithRequested a | WithExitStack a => writes p a
  | _ => false
  end.

Definition is_set_started (s : stmt) : bool := match s with SetRunStarted _ => true | _ => false end.
Definition is_ctx_write (s : stmt) : bool := match s with CtxSet | CtxReset => true | _ => false end.
Definition is_cont_write (s : stmt) : bool :=
  match s with SetCounter _ | SetClosed _ | Publish _ | CloseItem | NewItem | Register _ => true | _ => false end.

Definition all_meths : list meth :=
  [MInit; MStart; MClose; MRunAndContinue; MRunContinueAndWait; MRequested; MDisable;
   MAenter; MAexit; MEnabled; MSubscribeEnabled;
   MCInit; MOnStartRun; MOnStartPrompt; MOnFinished;
   MNlInit; MNlStart; MNlClose; MNlRun; MNlRunSession; MNlRunAndContinue; MNlRunContinueAndWait].

Definition meth_in (m : meth) (l : list meth) : bool :=
  existsb (fun k => match m, k with
                    | MInit, MInit | MStart, MStart | MClose, MClose | MRunAndContinue, MRunAndContinue
                    | MRunContinueAndWait, MRunContinueAndWait | MRequested, MRequested | MDisable, MDisable
                    | MAenter, MAenter | MAexit, MAexit | MEnabled, MEnabled | MSubscribeEnabled, MSubscribeEnabled
                    | MCInit, MCInit | MOnStartRun, MOnStartRun | MOnStartPrompt, MOnStartPrompt
                    | MOnFinished, MOnFinished | MNlInit, MNlInit | MNlStart, MNlStart | MNlClose, MNlClose
                    | MNlRun, MNlRun | MNlRunSession, MNlRunSession | MNlRunAndContinue, MNlRunAndContinue
                    | MNlRunContinueAndWait, MNlRunContinueAndWait => true
                    | _, _ => false end) l.

(** (own statements of each method, before inlining) *)
Theorem writers :
  forallb (fun m => negb (writes is_set_started (resolve m)) || meth_in m [MCInit; MOnStartRun]) all_meths = true /\
  forallb (fun m => negb (writes is_ctx_write (resolve m)) || meth_in m [MRequested]) all_meths = true /\
  forallb (fun m => negb (writes is_cont_write (resolve m)) || meth_in m [MInit; MStart; MClose; MRequested; MDisable]) all_meths = true.
Proof. vm_compute. repeat split. Qed.

(** ==== (2) the published flag is `counter > 0` unless closed (then it is off) ==== *)
Definition flag_inv (sh : shared) : Prop :=
  enabled_of (trace (sh_m sh)) = Some (if cont_closed (sh_m sh) then false else sh_cnt sh >? 0).

Lemma flag_init_start : forall e cur sh fr,
  let sh0 := snd (fst (exec (prog MInit) e cur sh fr)) in
  flag_inv (snd (fst (exec (prog MStart) e cur sh0 fr))).
Proof. intros. subst sh0. rewrite init_exec. cbn [fst snd]. rewrite start_exec by reflexivity. reflexivity. Qed.

Lemma flag_entry : forall sh t, cont_closed (sh_m sh) = false -> 0 <= sh_cnt sh ->
  flag_inv (mkSh (entry_m (sh_m sh) t) (sh_cnt sh + 1) false).
Proof.
  intros [m n it] t Hcl Hn. unfold flag_inv. simpl in *. rewrite Hcl.
  assert (n + 1 >? 0 = true) by (apply Z.gtb_lt; lia). rewrite H. reflexivity.
Qed.

Lemma flag_unreg : forall sh t b, flag_inv sh -> flag_inv (set_m sh (unreg_m (sh_m sh) t b)).
Proof. intros sh t b H. exact H. Qed.

Lemma flag_disable : forall sh, flag_inv sh -> flag_inv (disable_sh sh).
Proof.
  intros [m n it] H. unfold flag_inv, disable_sh in *. simpl in *.
  destruct (cont_closed m) eqn:Ec; simpl; rewrite Ec; [exact H | reflexivity].
Qed.

Lemma flag_close : forall sh, flag_inv sh -> cont_closed (sh_m sh) = false -> flag_inv (close_sh sh).
Proof.
  intros [m n it] H Hcl. unfold flag_inv, close_sh in *. simpl in *. rewrite Hcl in H.
  destruct (n >? 0) eqn:En.
  - destruct m; reflexivity.
  - destruct m; simpl in *. exact H.
Qed.

(** every way out of `_requested`, for all environments whose interference keeps the
    invariant: the flag is `counter > 0` unless closed *)
Theorem flag_requested : forall e cur sh fr,
  env_ok e -> coherent sh -> cont_closed (sh_m sh) = false -> 0 <= sh_cnt sh ->
  (forall c v x, flag_inv x -> flag_inv (e_interf e c v x)) ->
  flag_inv (snd (fst (exec (prog MRequested) e cur sh fr))).
Proof.
  intros e cur sh fr Hok Hco Hcl Hn Hfl.
  rewrite (requested_all_env e cur sh fr Hok Hco Hcl). cbv zeta.
  assert (H2 : flag_inv (e_interf e CBody (Some (fr_me fr)) (mkSh (entry_m (sh_m sh) (fr_me fr)) (sh_cnt sh + 1) false))).
  { apply Hfl. apply flag_entry; assumption. }
  destruct (e_exc e CBody) as [[ | | ] | ]; cbn [fst snd]; try exact H2;
    (destruct (has_plugin _ _ _); cbn [fst snd]; [apply flag_disable, flag_unreg, H2 | exact H2]).
Qed.

(** ==== the refusal on reachable states of the model ==== *)
Theorem tie_refuse_reachable : forall a b c d ls t c0 e cur sh0 fr,
  let s := run_labels (init_state a b c d) ls in
  find_task (tasks s) t = Some (c0, Granted1) -> is_cont c0 = true -> st_fsm s <> Initialized ->
  fr_me fr = t -> env_ok e -> coherent sh0 -> cont_closed (sh_m sh0) = false ->
  e_exc e CBody = Some XOrdinary -> e_own_started e = false ->
  (forall v x, e_interf e CBody v x =
               mkSh (release s) (Z.of_nat (length (cont_plugins (release s)))) (cont_closed (release s))) ->
  exists sh',
    exec (prog MRequested) e cur sh0 fr = (Exc XOrdinary, sh', after_with fr) /\
    step s (Step t) = finish_call (sh_m sh') t c0 RMachineError /\
    counted sh' /\ coherent sh'.
Proof.
  intros a b c d ls t c0 e cur sh0 fr s Hf Hc Hst Hme Hok Hco Hcl Hx Hos Hint.
  destruct (cont_inv_reachable a b c d ls) as (_ & ND & _). fold s in ND.
  destruct (registered_reachable a b c d ls) as (Hreg & _). fold s in Hreg.
  assert (Hin : In (t, false) (cont_plugins s)) by (apply (Hreg t c0 Granted1 Hf Hc); right; reflexivity).
  destruct (tie_refuse s t c0 e cur sh0 fr Hc Hme Hok Hco Hcl Hx Hos Hint) as (sh' & E1 & E2 & E3 & E4).
  - rewrite rl_plugins. exact ND.
  - rewrite rl_plugins. exact Hin.
  - exists sh'. split; [exact E1 | ]. split; [ | split; assumption].
    rewrite <- E2. simpl. unfold do_step. rewrite Hf. unfold enter.
    destruct c0; try discriminate; unfold enter_run; destruct (st_fsm s); try reflexivity; contradiction.
Qed.

(** ==== Nextline.start / close against the model ==== *)
Theorem tie_nl_start : forall s t e cur n fr,
  find_task (tasks s) t = None -> nl_started s = false ->
  let s0 := set_trace s (EvCall t CStart :: trace s) in
  let x := publish (set_nl_started s0 true) (PCont false) in
  do_call s t CStart = acquire x t CStart false /\
  exec (prog MNlStart) e cur (mkSh s0 n false) fr =
    (match e_exc e CImpOpen with Some y => Exc y | None => Fin end, e_interf e CImpOpen (fr_ctx fr) (mkSh x n false), fr).
Proof.
  intros s t e cur n fr Hf Hst s0 x. split.
  - rewrite (do_call_start s t Hf). cbv zeta. change (nl_started (set_trace s (EvCall t CStart :: trace s))) with (nl_started s).
    rewrite Hst. reflexivity.
  - rewrite nl_start_exec by reflexivity. cbn [sh_m]. change (nl_started s0) with (nl_started s). rewrite Hst. reflexivity.
Qed.

(** the last segment of close() in the model ([do_step] at [C_G4], [close_trigger] from Closed):
    Imp.aclose has left [s1] (its last act is the second `PEndAll`); Continuous.close follows *)
Theorem tie_nl_close : forall s1 e cur sh fr,
  nl_started (sh_m sh) = true -> nl_closed (sh_m sh) = false -> e_exc e CImpClose = None ->
  (forall v x, e_interf e CImpClose v x = mkSh s1 (Z.of_nat (length (cont_plugins s1))) false) ->
  exists sh', exec (prog MNlClose) e cur sh fr = (Fin, sh', fr) /\
              sh_m sh' = close_cont s1 /\ coherent sh' /\ counted sh'.
Proof.
  intros s1 e cur sh fr Hst Hcl Hx Hint.
  rewrite (nl_close_exec e cur sh fr Hst) by (rewrite Hint; reflexivity).
  rewrite Hcl, Hx, Hint. eexists. split; [reflexivity | ].
  apply (close_model (mkSh s1 (Z.of_nat (length (cont_plugins s1))) false)). reflexivity.
Qed.

(** Non-vacuity: a started object, one request already counted ([(7, true)]: its run is in
    progress); task 3 issues run_and_continue; meanwhile nothing else happens; Imp.run() is
    cancelled (a BaseException that is not an Exception).  The request is undone: counter back
    to 1, the flag re-published True (the other run goes on), only task 3's plugin removed, the
    ContextVar restored, the exception re-raised. *)
Definition ex_env : env := mkEnv (fun c => match c with CImpRun => Some XBaseOnly | _ => None end) (fun _ _ x => x) false.
Definition ex_sh : shared :=
  mkSh (set_cont_plugins (publish (set_nl_started (init_state 7 1 true false) true) (PCont true)) [(7%nat, true)]) 1 false.
Definition ex_fr : frame := mkFr 3 false None None None [] 0.

Example ex_refused_nonvacuous :
  let '(o, sh', fr') := exec (prog MNlRunAndContinue) ex_env None ex_sh ex_fr in
  o = Exc XBaseOnly /\ sh_cnt sh' = 1 /\ cont_plugins (sh_m sh') = [(7%nat, true)] /\
  rev (cpubs (trace (sh_m sh'))) = [true; true; true] /\ fr_ctx fr' = None /\
  env_ok ex_env /\ coherent ex_sh /\ counted ex_sh /\ flag_inv ex_sh /\ flag_inv sh'.
Proof. vm_compute. repeat split; intros; auto. Qed.

(** ==== `async with continuous:` and the read accessors ==== *)
Theorem aenter_exec : forall e cur sh fr,
  exec (prog MAenter) e cur sh fr = exec (prog MStart) e cur sh fr.
Proof.
  intros e cur [m n it] [me st cx pl tk df sn]. unfold prog.
  let p := eval vm_compute in (inline 64 (resolve MAenter)) in change (inline 64 (resolve MAenter)) with p.
  let p := eval vm_compute in (inline 64 (resolve MStart)) in change (inline 64 (resolve MStart)) with p.
  run. destruct it; reflexivity.
Qed.

Theorem aexit_exec : forall e cur sh fr,
  exec (prog MAexit) e cur sh fr = exec (prog MClose) e cur sh fr.
Proof.
  intros e cur [m n it] [me st cx pl tk df sn]. unfold prog.
  let p := eval vm_compute in (inline 64 (resolve MAexit)) in change (inline 64 (resolve MAexit)) with p.
  let p := eval vm_compute in (inline 64 (resolve MClose)) in change (inline 64 (resolve MClose)) with p.
  run. destruct it; destruct (n >? 0); reflexivity.
Qed.

(** PIN (reflexivity against the expected term, no semantics): `enabled` is exactly
    `return self._pubsub_enabled.latest()` -- the latest published value, [enabled_of] -- and
    `subscribe_enabled` exactly `return self._pubsub_enabled.subscribe()`; a default, a
    fallback or a cached value instead is refused by the translator or breaks this *)
Theorem accessors_pinned :
  resolve MEnabled = ReturnLatest /\ resolve MSubscribeEnabled = ReturnSubscribe.
Proof. split; reflexivity. Qed.
