(** Plugin registry (C12, last sentence): which plugin receives which hook call.

    Model of pluggy's PluginManager as used by nextline (Imp.register / Imp.unregister are
    synchronous; apluggy's [ahook.x(...)] calls every implementation registered AT THE CALL --
    creating the coroutines -- and then awaits them together): a hook call is an atomic
    snapshot of the registry.  Plugins are numbers; the registry lists them most recently
    registered first (pluggy calls implementations in LIFO order).
    Tied to /repo by harness/registry_tie.py (real Nextline object, passive plugins). *)
From Coq Require Import List Arith Bool Lia.
Import ListNotations.

Inductive rop := Reg (p : nat) | Unreg (p : nat) | Hook (h : nat).

Inductive rout :=
| Delivered (l : list (nat * nat))      (* (plugin, hook) in call order *)
| Done
| Refused.                              (* pluggy: ValueError / AssertionError, nothing changes *)

Definition mem (p : nat) (s : list nat) : bool := existsb (Nat.eqb p) s.

Definition rstep (s : list nat) (o : rop) : list nat * rout :=
  match o with
  | Reg p => if mem p s then (s, Refused) else (p :: s, Done)
  | Unreg p => if mem p s then (filter (fun q => negb (Nat.eqb q p)) s, Done) else (s, Refused)
  | Hook h => (s, Delivered (map (fun p => (p, h)) s))
  end.

Fixpoint rrun (s : list nat) (ops : list rop) : list rout :=
  match ops with
  | [] => []
  | o :: r => snd (rstep s o) :: rrun (fst (rstep s o)) r
  end.

Fixpoint rstate (s : list nat) (ops : list rop) : list nat :=
  match ops with
  | [] => s
  | o :: r => rstate (fst (rstep s o)) r
  end.

(** what plugin [p] received, in order *)
Definition got1 (p : nat) (o : rout) : list nat :=
  match o with
  | Delivered l => map snd (filter (fun x => Nat.eqb (fst x) p) l)
  | _ => []
  end.
Definition received (p : nat) (outs : list rout) : list nat := flat_map (got1 p) outs.

(** ---- the declarative side: registered = the last (un)registration of p so far was a Reg ---- *)
Fixpoint last_says (p : nat) (init : bool) (ops : list rop) : bool :=
  match ops with
  | [] => init
  | Reg q :: r => last_says p (if Nat.eqb q p then true else init) r
  | Unreg q :: r => last_says p (if Nat.eqb q p then false else init) r
  | Hook _ :: r => last_says p init r
  end.

(** the hook calls made while [p] was registered: call number i counts iff the last
    (un)registration of p among the first i operations was a registration *)
Fixpoint expected (p : nat) (init : bool) (ops : list rop) : list nat :=
  match ops with
  | [] => []
  | Reg q :: r => expected p (if Nat.eqb q p then true else init) r
  | Unreg q :: r => expected p (if Nat.eqb q p then false else init) r
  | Hook h :: r => if init then h :: expected p init r else expected p init r
  end.

Lemma mem_filter_neq p q s : mem p (filter (fun x => negb (Nat.eqb x q)) s) = mem p s && negb (Nat.eqb p q).
Proof.
  unfold mem. induction s as [|x s IH]; simpl; [reflexivity|].
  destruct (Nat.eqb x q) eqn:Exq; simpl.
  - rewrite IH. apply Nat.eqb_eq in Exq. subst x.
    destruct (Nat.eqb p q) eqn:Epq; simpl; [rewrite andb_false_r; reflexivity|reflexivity].
  - rewrite IH. destruct (Nat.eqb p x) eqn:Epx; simpl; [|reflexivity].
    apply Nat.eqb_eq in Epx. subst x. rewrite Exq. reflexivity.
Qed.

Lemma mem_step p s o :
  mem p (fst (rstep s o)) =
  match o with
  | Reg q => if Nat.eqb q p then true else mem p s
  | Unreg q => if Nat.eqb q p then false else mem p s
  | Hook _ => mem p s
  end.
Proof.
  destruct o as [q|q|h]; simpl; [| |reflexivity].
  - destruct (mem q s) eqn:Eq; simpl.
    + destruct (Nat.eqb q p) eqn:E; [apply Nat.eqb_eq in E; subst; exact Eq | reflexivity].
    + rewrite (Nat.eqb_sym p q). destruct (Nat.eqb q p); reflexivity.
  - destruct (mem q s) eqn:Eq; simpl.
    + rewrite mem_filter_neq, (Nat.eqb_sym p q). destruct (Nat.eqb q p); simpl; [apply andb_false_r | apply andb_true_r].
    + destruct (Nat.eqb q p) eqn:E; [apply Nat.eqb_eq in E; subst; exact Eq | reflexivity].
Qed.

Lemma NoDup_filter {A} (f : A -> bool) l : NoDup l -> NoDup (filter f l).
Proof.
  induction 1 as [|x l Hn Hd IH]; simpl; [constructor|].
  destruct (f x); [constructor; auto; rewrite filter_In; tauto | exact IH].
Qed.

Lemma mem_In p s : mem p s = true <-> In p s.
Proof.
  unfold mem. rewrite existsb_exists. split.
  - intros (x & Hi & E). apply Nat.eqb_eq in E. subst. exact Hi.
  - intros H. exists p. split; [exact H | apply Nat.eqb_refl].
Qed.

Lemma nodup_step s o : NoDup s -> NoDup (fst (rstep s o)).
Proof.
  intros H. destruct o as [q|q|h]; simpl; [| |exact H].
  - destruct (mem q s) eqn:E; simpl; [exact H|].
    constructor; [|exact H]. intros Hi. apply mem_In in Hi. congruence.
  - destruct (mem q s); simpl; [apply NoDup_filter; exact H | exact H].
Qed.

(** one hook call reaches [p] exactly once iff [p] is registered, never twice *)
Lemma got1_hook p h s : NoDup s ->
  got1 p (Delivered (map (fun q => (q, h)) s)) = if mem p s then [h] else [].
Proof.
  unfold got1. induction 1 as [|x s Hn Hd IH]; simpl; [reflexivity|].
  destruct (Nat.eqb x p) eqn:E; simpl.
  - apply Nat.eqb_eq in E. subst x. rewrite Nat.eqb_refl. simpl.
    rewrite IH. destruct (mem p s) eqn:Em; [apply mem_In in Em; contradiction | reflexivity].
  - rewrite (Nat.eqb_sym p x), E. simpl. exact IH.
Qed.

Theorem received_expected p : forall ops s, NoDup s ->
  received p (rrun s ops) = expected p (mem p s) ops.
Proof.
  induction ops as [|o ops IH]; intros s Hs; [reflexivity|].
  unfold received. cbn [rrun flat_map]. fold (received p (rrun (fst (rstep s o)) ops)).
  rewrite (IH _ (nodup_step s o Hs)), mem_step.
  destruct o as [q|q|h]; cbn [expected].
  - cbn [rstep]. destruct (mem q s); reflexivity.
  - cbn [rstep]. destruct (mem q s); reflexivity.
  - cbn [rstep snd fst]. rewrite (got1_hook p h s Hs). destruct (mem p s); reflexivity.
Qed.

Theorem registered_is_last_says p : forall ops s,
  mem p (rstate s ops) = last_says p (mem p s) ops.
Proof.
  induction ops as [|o ops IH]; intros s; [reflexivity|].
  cbn [rstate]. rewrite IH, mem_step. destruct o; reflexivity.
Qed.

(** deliveries of one call are in LIFO order of registration and to distinct plugins *)
Theorem registry_nodup : forall ops s, NoDup s -> NoDup (rstate s ops).
Proof. induction ops as [|o ops IH]; intros s H; [exact H|]. cbn [rstate]. apply IH, nodup_step, H. Qed.

(** a refused operation changes nothing *)
Theorem refused_no_change s o : snd (rstep s o) = Refused -> fst (rstep s o) = s.
Proof.
  destruct o as [q|q|h]; simpl; try discriminate.
  - destruct (mem q s); simpl; [reflexivity | discriminate].
  - destruct (mem q s); simpl; [discriminate | reflexivity].
Qed.

(** ---- co-simulation helpers ---- *)
Definition enc_out (o : rout) : list nat :=
  match o with
  | Delivered l => 2 :: flat_map (fun x => [fst x; snd x]) l
  | Done => [0]
  | Refused => [1]
  end.
Definition run_enc (ops : list rop) : list (list nat) := map enc_out (rrun [] ops).
