(** C14: run numbers and the script on display.  Invariants of the lifecycle
    model proved from the step classification of Life/NumKind.v, and the
    history theorems stated in Props/C14.v. *)
From NL Require Import Life.Model Life.LockInv Life.FsmInv Life.Hist Life.NumKind.
From Coq Require Import Lia.
Open Scope Z_scope.

(** ---- functions of the trace (newest first) ---- *)

(** run number carried by the latest on_initialize_run record *)
Fixpoint t_init (tr : list event) : option Z :=
  match tr with
  | [] => None
  | EvHook r :: rest => match h_hook r with HInitRun => h_runno r | _ => t_init rest end
  | _ :: rest => t_init rest
  end.

(** [run_no_start_from] of the reset records newer than the latest on_initialize_run *)
Fixpoint resets_since (tr : list event) : list (option Z) :=
  match tr with
  | [] => []
  | EvHook r :: rest =>
    match h_hook r with
    | HInitRun => []
    | HReset => h_start r :: resets_since rest
    | _ => resets_since rest
    end
  | _ :: rest => resets_since rest
  end.

(** latest published statement *)
Fixpoint t_stmt (tr : list event) : option Z :=
  match tr with
  | [] => None
  | EvPub (PStatement x) :: _ => Some x
  | _ :: rest => t_stmt rest
  end.

(** latest published run info: number, phase, statement *)
Fixpoint t_info (tr : list event) : option (Z * rphase * Z) :=
  match tr with
  | [] => None
  | EvPub (PRunInfo n ph x _) :: _ => Some (n, ph, x)
  | _ :: rest => t_info rest
  end.

(** latest published run info of phase `initialized` *)
Fixpoint t_info0 (tr : list event) : option (Z * Z) :=
  match tr with
  | [] => None
  | EvPub (PRunInfo n RInitialized x _) :: _ => Some (n, x)
  | _ :: rest => t_info0 rest
  end.

(** every event satisfies [P] relative to the trace below it *)
Fixpoint all_suffix (P : event -> list event -> Prop) (tr : list event) : Prop :=
  match tr with
  | [] => True
  | e :: r => P e r /\ all_suffix P r
  end.

Lemma all_suffix_split P tr : all_suffix P tr -> forall a e b, tr = a ++ e :: b -> P e b.
Proof.
  intros H a. revert tr H. induction a as [|x a IH]; intros tr H e b ->; simpl in H.
  - tauto.
  - destruct H as [_ H]. eapply IH; eauto.
Qed.

Lemma all_suffix_ext (P : event -> list event -> Prop) (Q : event -> Prop) tr tr' :
  (forall e prev, Q e -> P e prev) -> ext Q tr tr' -> all_suffix P tr -> all_suffix P tr'.
Proof. intros HQ Hx H. induction Hx; simpl; auto. Qed.

(** history (chronological) versus trace *)
Lemma history_split s h1 e h2 : history s = h1 ++ e :: h2 -> trace s = rev h2 ++ e :: rev h1.
Proof.
  unfold history. intros H. rewrite <- (rev_involutive (trace s)), H, rev_app_distr. simpl.
  rewrite <- app_assoc. reflexivity.
Qed.

Lemma all_suffix_history P s : all_suffix P (trace s) ->
  forall h1 e h2, history s = h1 ++ e :: h2 -> P e (rev h1).
Proof. intros H h1 e h2 Hh. eapply all_suffix_split; eauto. apply history_split. exact Hh. Qed.

(** ---- quiet events do not move the trace functions ---- *)
Lemma quiet_t_init cs tr tr' : ext (quiet_ev cs) tr tr' -> t_init tr' = t_init tr.
Proof.
  induction 1 as [|e tr' He _ IH]; auto. destruct e as [| r | |]; simpl; auto.
  simpl in He. destruct (h_hook r); auto; contradiction.
Qed.

Lemma quiet_resets cs tr tr' : ext (quiet_ev cs) tr tr' -> resets_since tr' = resets_since tr.
Proof.
  induction 1 as [|e tr' He _ IH]; auto. destruct e as [| r | |]; simpl; auto.
  simpl in He. destruct (h_hook r); auto; contradiction.
Qed.

Lemma quiet_t_info cs tr tr' : ext (quiet_ev cs) tr tr' -> t_info tr' = t_info tr.
Proof.
  induction 1 as [|e tr' He _ IH]; auto. destruct e as [| | p |]; simpl; auto.
  destruct p; simpl in He; auto; contradiction.
Qed.

Lemma quiet_t_info0 cs tr tr' : ext (quiet_ev cs) tr tr' -> t_info0 tr' = t_info0 tr.
Proof.
  induction 1 as [|e tr' He _ IH]; auto. destruct e as [| | p |]; simpl; auto.
  destruct p; simpl in He; auto; contradiction.
Qed.

Lemma quiet_t_stmt cs tr tr' : ext (quiet_ev cs) tr tr' -> t_stmt tr' = t_stmt tr \/ t_stmt tr' = Some cs.
Proof.
  induction 1 as [|e tr' He _ IH]; auto. destruct e as [| | p |]; simpl; auto.
  destruct p; simpl in He; auto. right. congruence.
Qed.

Lemma call_ext_quiet cs tr tr' : ext call_ev tr tr' -> ext (quiet_ev cs) tr tr'.
Proof. apply ext_weaken. apply call_quiet. Qed.

Lemma call_t_stmt tr tr' : ext call_ev tr tr' -> t_stmt tr' = t_stmt tr.
Proof. induction 1 as [|e tr' He _ IH]; auto. destruct e; simpl in *; auto; contradiction. Qed.

(** ---- the state invariant ---- *)
Definition midv (v : option (call * nat)) : bool :=
  match v with Some (_, 2%nat) | Some (_, 3%nat) => true | _ => false end.

(** a reset is between enter_reset and reset_reinit *)
Definition reset_mid (s : state) : bool := midv (hview s).

Definition compA (s : state) (ra : runarg) : Prop :=
  ra_stmt ra = c_stmt s /\ ra_threads ra = c_threads s /\ ra_modules ra = c_modules s /\ c_next s = ra_no ra + 1.

Record NI (start : Z) (s : state) : Prop := mkNI {
  ni_A : forall ra, run_arg s = Some ra -> reset_mid s = false -> compA s ra;
  ni_J : t_stmt (trace s) = Some (c_stmt s) \/ (t_init (trace s) = None /\ hview s = None);
  ni_N0 : t_init (trace s) = None ->
          pre_init (st_fsm s) /\ c_next s = start /\ (hview s = None \/ exists c, hview s = Some (c, 1%nat));
  ni_I1 : forall ra, run_arg s = Some ra ->
          t_init (trace s) = Some (ra_no ra) /\ t_info0 (trace s) = Some (ra_no ra, ra_stmt ra) /\
          exists ph, t_info (trace s) = Some (ra_no ra, ph, ra_stmt ra);
  ni_NC : forall n, t_init (trace s) = Some n ->
          (c_next s = n + 1 \/ In (Some (c_next s)) (resets_since (trace s))) /\
          (forall o k, hview s = Some (CReset o, 2%nat) -> o_start o = Some k -> In (Some k) (resets_since (trace s)))
}.

Lemma comp_eq s' s : comp s' = comp s ->
  c_stmt s' = c_stmt s /\ c_next s' = c_next s /\ c_threads s' = c_threads s /\ c_modules s' = c_modules s.
Proof. unfold comp. intros E. inversion E. auto. Qed.

Lemma comp_eq4 s' a b c d : comp s' = (a, b, c, d) ->
  c_stmt s' = a /\ c_next s' = b /\ c_threads s' = c /\ c_modules s' = d.
Proof. unfold comp. intros E. inversion E. auto. Qed.

Lemma NI_init a b c d : NI b (init_state a b c d).
Proof.
  constructor; simpl; try discriminate.
  - right. auto.
  - intros _. repeat split; auto. left. reflexivity.
Qed.

Lemma not_pre_init_if s : st_fsm s = Initialized \/ st_fsm s = Finished \/ st_fsm s = Running -> ~ pre_init (st_fsm s).
Proof. intros [H|[H|H]] [P|P]; congruence. Qed.

Section Step.
Variable start : Z.
Variables s s' : state.
Hypothesis HL : LkS s.
Hypothesis HF : FI s.
Hypothesis HK : kind s s'.
Hypothesis HN : NI start s.

Lemma A_step : forall ra, run_arg s' = Some ra -> reset_mid s' = false -> compA s' ra.
Proof.
  intros ra Hra Hm. unfold reset_mid in *. destruct HN as [A _ _ _ _]. unfold reset_mid in A.
  destruct HK as [Ec Er Ev Hp Hx | Ec Er Ef Ev Hx | c r tr1 Ec Er Ev Ev' Ef Hx Hr Ht
                  | ra0 Era Ev Ec Er Ef Ht | o pre Ev Hfs Ef Er Hx Hm' | o Ev Ev' Ec Er Ef Ht
                  | t o Ev Ev' Ec Er Ef Ht | t o pre Ev Ev' Ec Er Ef Hx Ht
                  | ra0 Era Ef Ec Er Ev Ef' Ht | ra0 oc Era Ef Ec Er Ev Ef' Ht].
  - destruct (comp_eq _ _ Ec) as (E1 & E2 & E3 & E4). unfold compA. rewrite E1, E2, E3, E4.
    apply A; congruence.
  - congruence.
  - destruct (comp_eq _ _ Ec) as (E1 & E2 & E3 & E4). unfold compA. rewrite E1, E2, E3, E4.
    apply A; [congruence | rewrite Ev; reflexivity].
  - destruct (comp_eq4 _ _ _ _ _ Ec) as (E1 & E2 & E3 & E4). unfold compA. rewrite E1, E2, E3, E4.
    rewrite Er in Hra. inversion Hra; subst. simpl. repeat split; auto; lia.
  - destruct (o_stmt o); destruct Hm' as (_ & Hv & _); rewrite Hv in Hm; discriminate.
  - rewrite Ev' in Hm. discriminate.
  - destruct (comp_eq _ _ Ec) as (E1 & E2 & E3 & E4). unfold compA. rewrite E1, E2, E3, E4.
    apply A; [congruence | rewrite Ev; reflexivity].
  - destruct (comp_eq _ _ Ec) as (E1 & E2 & E3 & E4). unfold compA. rewrite E1, E2, E3, E4.
    apply A; [congruence | rewrite Ev; reflexivity].
  - destruct (comp_eq _ _ Ec) as (E1 & E2 & E3 & E4). unfold compA. rewrite E1, E2, E3, E4.
    apply A; congruence.
  - destruct (comp_eq _ _ Ec) as (E1 & E2 & E3 & E4). unfold compA. rewrite E1, E2, E3, E4.
    apply A; congruence.
Qed.

Ltac kinds :=
  destruct HK as [Ec Er Ev Hp Hx | Ec Er Ef Ev Hx | c r tr1 Ec Er Ev Ev' Ef Hx Hr Ht
                  | ra0 Era Ev Ec Er Ef Ht | o pre Ev Hfs Ef Er Hx Hm' | o Ev Ev' Ec Er Ef Ht
                  | t o Ev Ev' Ec Er Ef Ht | t o pre Ev Ev' Ec Er Ef Hx Ht
                  | ra0 Era Ef Ec Er Ev Ef' Ht | ra0 oc Era Ef Ec Er Ev Ef' Ht].

Lemma J_step : t_stmt (trace s') = Some (c_stmt s') \/ (t_init (trace s') = None /\ hview s' = None).
Proof.
  destruct HN as [_ J N0 _ _].
  assert (Hq : comp s' = comp s -> hview s' = hview s -> ext (quiet_ev (c_stmt s)) (trace s) (trace s') ->
               t_stmt (trace s') = Some (c_stmt s') \/ (t_init (trace s') = None /\ hview s' = None)).
  { intros Ec Ev Hx. destruct (comp_eq _ _ Ec) as (E1 & _). rewrite E1, Ev, (quiet_t_init _ _ _ Hx).
    destruct (quiet_t_stmt _ _ _ Hx) as [E|E]; [rewrite E; exact J | left; exact E]. }
  kinds; auto.
  - left. rewrite Ht. simpl. destruct (comp_eq _ _ Ec) as (E1 & _). congruence.
  - destruct (comp_eq4 _ _ _ _ _ Ec) as (E1 & _). rewrite E1, Ht. simpl.
    destruct J as [J|[_ J]]; auto.
    destruct Ev as [[[c Ev] _] | (o & Ev & _)]; congruence.
  - destruct (o_stmt o) as [x|].
    + destruct Hm' as (Ec & _ & r & Hr & Ht). destruct (comp_eq4 _ _ _ _ _ Ec) as (E1 & _).
      left. rewrite Ht, E1. reflexivity.
    + destruct Hm' as (Ec & _ & Ht). destruct (comp_eq4 _ _ _ _ _ Ec) as (E1 & _).
      rewrite Ht, E1. simpl. rewrite (call_t_stmt _ _ Hx).
      destruct J as [J|[J _]]; auto. destruct (N0 J) as (P & _). exfalso. eapply not_pre_init_if; eauto. tauto.
  - destruct (comp_eq4 _ _ _ _ _ Ec) as (E1 & _). rewrite E1, Ht. destruct J as [J|[_ J]]; auto. congruence.
  - destruct (comp_eq _ _ Ec) as (E1 & _). rewrite E1, Ht. simpl. destruct J as [J|[_ J]]; auto. congruence.
  - destruct (comp_eq _ _ Ec) as (E1 & _). rewrite E1, Ht, Ev'. simpl. rewrite (call_t_stmt _ _ Hx).
    rewrite (quiet_t_init 0 _ _ (call_ext_quiet 0 _ _ Hx)). destruct J as [J|[J _]]; auto.
  - destruct (comp_eq _ _ Ec) as (E1 & _). rewrite E1, Ht. simpl. destruct J as [J|[J _]]; auto.
    destruct (N0 J) as (P & _). exfalso. eapply not_pre_init_if; eauto.
  - destruct (comp_eq _ _ Ec) as (E1 & _). rewrite E1, Ht. simpl. destruct J as [J|[J _]]; auto.
    destruct (N0 J) as (P & _). exfalso. eapply not_pre_init_if; eauto.
Qed.

Lemma N0_step : t_init (trace s') = None ->
  pre_init (st_fsm s') /\ c_next s' = start /\ (hview s' = None \/ exists c, hview s' = Some (c, 1%nat)).
Proof.
  destruct HN as [_ _ N0 _ _]. kinds.
  - rewrite (quiet_t_init _ _ _ Hx), Ev. destruct (comp_eq _ _ Ec) as (_ & E2 & _). rewrite E2.
    intros H. destruct (N0 H) as (P & Q & R). auto.
  - rewrite (quiet_t_init _ _ _ Hx). intros H. destruct (N0 H) as (P & _). exfalso. eapply not_pre_init_if; eauto.
  - rewrite Ht. simpl. rewrite Hr, (quiet_t_init _ _ _ Hx). intros H. destruct (N0 H) as (P & Q & R).
    destruct (comp_eq _ _ Ec) as (_ & E2 & _). rewrite Ef, E2. repeat split; auto. right. eauto.
  - rewrite Ht. simpl. discriminate.
  - intros H. exfalso. assert (H0 : t_init (trace s) = None).
    { rewrite <- (quiet_t_init 0 _ _ (call_ext_quiet 0 _ _ Hx)).
      destruct (o_stmt o); [destruct Hm' as (_ & _ & r & Hr & Ht) | destruct Hm' as (_ & _ & Ht)];
        rewrite Ht in H; simpl in H; rewrite ?Hr in H; exact H. }
    destruct (N0 H0) as (P & _). eapply not_pre_init_if; eauto. tauto.
  - rewrite Ht. intros H. destruct (N0 H) as (_ & _ & [R|[c R]]); congruence.
  - rewrite Ht. simpl. intros H. destruct (N0 H) as (_ & _ & [R|[c R]]); congruence.
  - rewrite Ht. simpl. rewrite (quiet_t_init 0 _ _ (call_ext_quiet 0 _ _ Hx)).
    intros H. destruct (N0 H) as (P & Q & R). destruct (comp_eq _ _ Ec) as (_ & E2 & _). rewrite Ef, E2. auto.
  - rewrite Ht. simpl. intros H. destruct (N0 H) as (P & _). exfalso. eapply not_pre_init_if; eauto.
  - rewrite Ht. simpl. intros H. destruct (N0 H) as (P & _). exfalso. eapply not_pre_init_if; eauto.
Qed.

(** events that are neither an on_initialize_run record nor a run-info publication *)
Definition inert_ev (e : event) : Prop :=
  match e with
  | EvHook r => h_hook r <> HInitRun
  | EvPub (PRunInfo _ _ _ _) => False
  | _ => True
  end.

Lemma inert_t_init tr tr' : ext inert_ev tr tr' -> t_init tr' = t_init tr.
Proof.
  induction 1 as [|e tr' He _ IH]; auto. destruct e as [| r | |]; simpl; auto.
  simpl in He. destruct (h_hook r); auto; congruence.
Qed.
Lemma inert_t_info tr tr' : ext inert_ev tr tr' -> t_info tr' = t_info tr.
Proof.
  induction 1 as [|e tr' He _ IH]; auto. destruct e as [| | p |]; simpl; auto.
  destruct p; simpl in He; auto; contradiction.
Qed.
Lemma inert_t_info0 tr tr' : ext inert_ev tr tr' -> t_info0 tr' = t_info0 tr.
Proof.
  induction 1 as [|e tr' He _ IH]; auto. destruct e as [| | p |]; simpl; auto.
  destruct p; simpl in He; auto; contradiction.
Qed.
Lemma quiet_inert cs e : quiet_ev cs e -> inert_ev e.
Proof.
  destruct e as [| r | p |]; simpl; auto.
  - destruct (h_hook r); try contradiction; discriminate.
  - destruct p; auto.
Qed.
Lemma call_inert e : call_ev e -> inert_ev e.
Proof. destruct e; simpl; auto; contradiction. Qed.

Definition I1 (s0 : state) : Prop := forall ra, run_arg s0 = Some ra ->
  t_init (trace s0) = Some (ra_no ra) /\ t_info0 (trace s0) = Some (ra_no ra, ra_stmt ra) /\
  exists ph, t_info (trace s0) = Some (ra_no ra, ph, ra_stmt ra).

Lemma I1_step : I1 s'.
Proof.
  assert (HI : I1 s) by (destruct HN; assumption). unfold I1 in *.
  assert (Hq : run_arg s' = run_arg s -> ext inert_ev (trace s) (trace s') ->
      forall ra, run_arg s' = Some ra ->
      t_init (trace s') = Some (ra_no ra) /\ t_info0 (trace s') = Some (ra_no ra, ra_stmt ra) /\
      exists ph, t_info (trace s') = Some (ra_no ra, ph, ra_stmt ra)).
  { intros Er Hx ra Hra. rewrite (inert_t_init _ _ Hx), (inert_t_info0 _ _ Hx), (inert_t_info _ _ Hx).
    apply HI. congruence. }
  kinds.
  - apply Hq; auto. eapply ext_weaken; [apply quiet_inert | exact Hx].
  - intros ra Hra. congruence.
  - apply Hq; auto. rewrite Ht. apply ext_cons; [simpl; rewrite Hr; discriminate|].
    apply ext_cons; [exact I|]. eapply ext_weaken; [apply quiet_inert | exact Hx].
  - intros ra Hra. rewrite Er in Hra. inversion Hra as [Hra']. rewrite <- Hra', Ht, Era. simpl. repeat split; eauto.
  - apply Hq; auto.
    assert (Hp : ext inert_ev (trace s) pre) by (eapply ext_weaken; [apply call_inert | exact Hx]).
    destruct (o_stmt o) as [x|].
    + destruct Hm' as (_ & _ & r & Hr & Ht). rewrite Ht.
      apply ext_cons; [simpl; rewrite Hr; discriminate|]. apply ext_cons; [exact I|].
      apply ext_cons; [simpl; discriminate | exact Hp].
    + destruct Hm' as (_ & _ & Ht). rewrite Ht. apply ext_cons; [simpl; discriminate | exact Hp].
  - apply Hq; auto. rewrite Ht. constructor.
  - apply Hq; auto. rewrite Ht. apply ext_cons; [exact I | constructor].
  - apply Hq; auto. rewrite Ht. apply ext_cons; [exact I|]. eapply ext_weaken; [apply call_inert | exact Hx].
  - intros ra Hra. rewrite Er, Era in Hra. inversion Hra; subst ra0. destruct (HI _ Era) as (A1 & A2 & _).
    rewrite Ht. simpl. repeat split; eauto.
  - intros ra Hra. rewrite Er, Era in Hra. inversion Hra; subst ra0. destruct (HI _ Era) as (A1 & A2 & _).
    rewrite Ht. simpl. repeat split; eauto.
Qed.

(** events that are neither an on_initialize_run nor a reset record *)
Definition noir_ev (e : event) : Prop :=
  match e with EvHook r => h_hook r <> HInitRun /\ h_hook r <> HReset | _ => True end.

Lemma noir_t_init tr tr' : ext noir_ev tr tr' -> t_init tr' = t_init tr.
Proof.
  induction 1 as [|e tr' He _ IH]; auto. destruct e as [| r | |]; simpl; auto.
  simpl in He. destruct (h_hook r); auto; destruct He; congruence.
Qed.
Lemma noir_resets tr tr' : ext noir_ev tr tr' -> resets_since tr' = resets_since tr.
Proof.
  induction 1 as [|e tr' He _ IH]; auto. destruct e as [| r | |]; simpl; auto.
  simpl in He. destruct (h_hook r); auto; destruct He; congruence.
Qed.
Lemma quiet_noir cs e : quiet_ev cs e -> noir_ev e.
Proof.
  destruct e as [| r | p |]; simpl; auto.
  destruct (h_hook r); try contradiction; split; discriminate.
Qed.
Lemma call_noir e : call_ev e -> noir_ev e.
Proof. destruct e; simpl; auto; contradiction. Qed.

Definition NC (s0 : state) : Prop := forall n, t_init (trace s0) = Some n ->
  (c_next s0 = n + 1 \/ In (Some (c_next s0)) (resets_since (trace s0))) /\
  (forall o k, hview s0 = Some (CReset o, 2%nat) -> o_start o = Some k -> In (Some k) (resets_since (trace s0))).

Lemma NC_step : NC s'.
Proof.
  assert (HC : NC s) by (destruct HN; assumption). unfold NC in *.
  assert (Hq : c_next s' = c_next s -> (forall o, hview s' = Some (CReset o, 2%nat) -> hview s = hview s') ->
               ext noir_ev (trace s) (trace s') ->
      forall n, t_init (trace s') = Some n ->
      (c_next s' = n + 1 \/ In (Some (c_next s')) (resets_since (trace s'))) /\
      (forall o k, hview s' = Some (CReset o, 2%nat) -> o_start o = Some k -> In (Some k) (resets_since (trace s')))).
  { intros E2 Ev Hx n. rewrite (noir_t_init _ _ Hx), (noir_resets _ _ Hx), E2. intros Hn.
    destruct (HC n Hn) as (C1 & C2). split; auto. intros o k Hv. apply C2. rewrite (Ev _ Hv). exact Hv. }
  kinds.
  - destruct (comp_eq _ _ Ec) as (_ & E2 & _). apply Hq; auto.
    eapply ext_weaken; [apply quiet_noir | exact Hx].
  - destruct (comp_eq _ _ Ec) as (_ & E2 & _). apply Hq; auto.
    eapply ext_weaken; [apply quiet_noir | exact Hx].
  - destruct (comp_eq _ _ Ec) as (_ & E2 & _). apply Hq; auto.
    + intros o Hv. congruence.
    + rewrite Ht. apply ext_cons; [simpl; rewrite Hr; split; discriminate|].
      apply ext_cons; [exact I|]. eapply ext_weaken; [apply quiet_noir | exact Hx].
  - destruct (comp_eq4 _ _ _ _ _ Ec) as (_ & E2 & _). intros n. rewrite Ht, Era, E2. simpl.
    intros Hn. inversion Hn; subst n. split; [left; reflexivity|].
    intros o k Hv. destruct Ev as [[_ Ev] | (o' & _ & Ev)]; congruence.
  - assert (Hp : ext noir_ev (trace s) pre) by (eapply ext_weaken; [apply call_noir | exact Hx]).
    intros n Hn.
    assert (Hn0 : t_init (trace s) = Some n).
    { rewrite <- (noir_t_init _ _ Hp).
      destruct (o_stmt o); [destruct Hm' as (_ & _ & r & Hr & Ht) | destruct Hm' as (_ & _ & Ht)];
        rewrite Ht in Hn; simpl in Hn; rewrite ?Hr in Hn; exact Hn. }
    destruct (HC n Hn0) as (C1 & _).
    destruct (o_stmt o) as [x|].
    + destruct Hm' as (Ec & Hv' & r & Hr & Ht). destruct (comp_eq4 _ _ _ _ _ Ec) as (_ & E2 & _).
      rewrite Ht, E2. simpl. rewrite Hr. simpl. rewrite (noir_resets _ _ Hp). split.
      * destruct C1; auto.
      * intros o0 k Hv Hk. rewrite Hv' in Hv. inversion Hv; subst o0. left. exact Hk.
    + destruct Hm' as (Ec & Hv' & Ht). unfold applied in Ec. destruct (comp_eq4 _ _ _ _ _ Ec) as (_ & E2 & _).
      rewrite Ht, E2. simpl. rewrite (noir_resets _ _ Hp). split.
      * destruct (o_start o) as [k|]; simpl; auto. destruct C1; auto.
      * intros o0 k Hv. congruence.
  - unfold applied in Ec. destruct (comp_eq4 _ _ _ _ _ Ec) as (_ & E2 & _).
    intros n. rewrite Ht, E2. intros Hn. destruct (HC n Hn) as (C1 & C2). split.
    + destruct (o_start o) as [k|] eqn:Eo; simpl; auto. right. eapply C2; eauto.
    + intros o0 k Hv. congruence.
  - destruct (comp_eq _ _ Ec) as (_ & E2 & _). apply Hq; auto.
    + intros o0 Hv. congruence.
    + rewrite Ht. apply ext_cons; [exact I | constructor].
  - destruct (comp_eq _ _ Ec) as (_ & E2 & _). apply Hq; auto.
    + intros o0 Hv. congruence.
    + rewrite Ht. apply ext_cons; [exact I|]. eapply ext_weaken; [apply call_noir | exact Hx].
  - destruct (comp_eq _ _ Ec) as (_ & E2 & _). apply Hq; auto.
    rewrite Ht. apply ext_cons; [simpl; split; discriminate|]. apply ext_cons; [exact I | constructor].
  - destruct (comp_eq _ _ Ec) as (_ & E2 & _). apply Hq; auto.
    rewrite Ht. apply ext_cons; [simpl; split; discriminate|]. apply ext_cons; [exact I | constructor].
Qed.

Lemma NI_kind : NI start s'.
Proof. constructor; [apply A_step | apply J_step | apply N0_step | apply I1_step | apply NC_step]. Qed.
End Step.

Theorem NI_step start s l : LkS s -> FI s -> NI start s -> NI start (step s l).
Proof. intros HL HF HN. eapply NI_kind; eauto. apply step_kind; auto. Qed.

Theorem NI_reachable a b c d ls : NI b (run_labels (init_state a b c d) ls).
Proof.
  unfold run_labels.
  generalize (LkS_init a b c d) (FI_init a b c d) (NI_init a b c d). generalize (init_state a b c d).
  induction ls as [|l ls IH]; intros s HL HF HN; simpl; auto.
  apply IH; [apply LkS_step | apply FI_step | apply NI_step]; auto.
Qed.

(** ---- history invariants: each event relative to the trace below it ---- *)
Definition P_consec (start : Z) (e : event) (prev : list event) : Prop :=
  forall r m, e = EvHook r -> h_hook r = HInitRun -> h_runno r = Some m ->
  match t_init prev with
  | Some n => m = n + 1 \/ In (Some m) (resets_since prev)
  | None => m = start
  end.

Definition P_start (e : event) (prev : list event) : Prop :=
  forall r, e = EvHook r -> h_hook r = HStartRun ->
  exists n x, h_runno r = Some n /\ h_stmt r = Some x /\ t_stmt prev = Some x /\ t_init prev = Some n /\
              t_info0 prev = Some (n, x) /\ t_info prev = Some (n, RRunning, x).

Definition P_carried (e : event) (prev : list event) : Prop :=
  (forall r, e = EvHook r -> h_hook r = HEndRun -> exists n, h_runno r = Some n /\ t_init prev = Some n) /\
  (forall k ph x res, e = EvPub (PRunInfo k ph x res) -> ph <> RInitialized -> t_init prev = Some k).

Definition P_initrec (e : event) (prev : list event) : Prop :=
  forall r, e = EvHook r -> h_hook r = HInitRun ->
  exists n x rest, h_runno r = Some n /\ h_stmt r = Some x /\
                   prev = EvPub (PRunInfo n RInitialized x None) :: EvPub (PRunNo n) :: rest.

(** what must follow a run-number publication / an `initialized` run info *)
Definition P_block (e : event) (prev : list event) : Prop :=
  match prev with
  | EvPub (PRunNo k) :: _ => exists x, e = EvPub (PRunInfo k RInitialized x None)
  | EvPub (PRunInfo k RInitialized x _) :: _ =>
    exists r, e = EvHook r /\ h_hook r = HInitRun /\ h_runno r = Some k /\ h_stmt r = Some x
  | _ => True
  end.

Definition top_ok (tr : list event) : Prop :=
  match tr with
  | EvPub (PRunNo _) :: _ => False
  | EvPub (PRunInfo _ RInitialized _ _) :: _ => False
  | _ => True
  end.

Definition PH (start : Z) (e : event) (prev : list event) : Prop :=
  P_consec start e prev /\ P_start e prev /\ P_carried e prev /\ P_initrec e prev /\ P_block e prev.

Definition HI (start : Z) (tr : list event) : Prop := all_suffix (PH start) tr /\ top_ok tr.

Definition plain_ev (e : event) : Prop :=
  match e with
  | EvHook r => match h_hook r with HInitRun | HStartRun | HEndRun => False | _ => True end
  | EvPub (PRunNo _) | EvPub (PRunInfo _ _ _ _) => False
  | _ => True
  end.

Lemma top_block e prev : top_ok prev -> P_block e prev.
Proof.
  unfold top_ok, P_block. destruct prev as [|[| |p|] rest]; auto. destruct p; auto; try contradiction.
  destruct ph; auto; contradiction.
Qed.

Lemma plain_PH start e prev : plain_ev e -> top_ok prev -> PH start e prev /\ top_ok (e :: prev).
Proof.
  intros Hp Ht. split; [repeat split|].
  - intros r m -> Hr _. simpl in Hp. rewrite Hr in Hp. contradiction.
  - intros r -> Hr. simpl in Hp. rewrite Hr in Hp. contradiction.
  - intros r -> Hr. simpl in Hp. rewrite Hr in Hp. contradiction.
  - intros k ph x res ->. contradiction.
  - intros r -> Hr. simpl in Hp. rewrite Hr in Hp. contradiction.
  - apply top_block; auto.
  - destruct e as [| |p|]; simpl; auto. destruct p; simpl in Hp; auto; contradiction.
Qed.

Lemma HI_ext start (Q : event -> Prop) tr tr' :
  (forall e, Q e -> plain_ev e) -> ext Q tr tr' -> HI start tr -> HI start tr'.
Proof.
  intros HQ Hx H. induction Hx as [|e tr' He _ IH]; auto.
  destruct IH as [IA IT]. destruct (plain_PH start e tr' (HQ _ He) IT) as [P T].
  split; simpl; auto.
Qed.

Lemma HI_cons start e tr : plain_ev e -> HI start tr -> HI start (e :: tr).
Proof.
  intros He [IA IT]. destruct (plain_PH start e tr He IT) as [P T]. split; simpl; auto.
Qed.

Lemma quiet_plain cs e : quiet_ev cs e -> plain_ev e.
Proof.
  destruct e as [| r | p |]; simpl; auto.
  - destruct (h_hook r); auto.
  - destruct p; auto.
Qed.
Lemma call_plain e : call_ev e -> plain_ev e.
Proof. destruct e; simpl; auto; contradiction. Qed.

Lemma running_not_mid s : LkS s -> FI s -> st_fsm s = Running -> reset_mid s = false.
Proof.
  intros HL HF Hr. unfold reset_mid. destruct (hview s) as [[c k]|] eqn:Ev; auto.
  pose proof (hview_fsm _ _ _ HL HF Ev) as H.
  destruct k as [|[|[|[|k]]]]; simpl; auto; destruct H; congruence.
Qed.

Ltac ph5 := unfold PH; split; [|split; [|split; [|split]]].
Ltac nohook := let r := fresh "r" in let H := fresh "H" in
  first [ intros r ? H; discriminate H | intros r H; discriminate H ].

Lemma PH_runno start k tr : top_ok tr -> PH start (EvPub (PRunNo k)) tr.
Proof.
  intros Ht. ph5.
  - intros r m H. discriminate H.
  - intros r H. discriminate H.
  - split; [intros r H; discriminate H | intros k0 ph x res H; discriminate H].
  - intros r H. discriminate H.
  - apply top_block; auto.
Qed.

Lemma PH_info0 start k x tr : PH start (EvPub (PRunInfo k RInitialized x None)) (EvPub (PRunNo k) :: tr).
Proof.
  ph5.
  - intros r m H. discriminate H.
  - intros r H. discriminate H.
  - split; [intros r H; discriminate H | intros k0 ph x0 res H Hph; inversion H; subst; congruence].
  - intros r H. discriminate H.
  - simpl. eauto.
Qed.

Lemma PH_initrec start f k x tr :
  match t_init tr with Some n => k = n + 1 \/ In (Some k) (resets_since tr) | None => k = start end ->
  PH start (EvHook (mkHook HInitRun f (Some k) (Some x) None))
           (EvPub (PRunInfo k RInitialized x None) :: EvPub (PRunNo k) :: tr).
Proof.
  intros Hc. ph5.
  - intros r m H _ Hm. inversion H; subst r. simpl in Hm. inversion Hm; subst m. simpl. exact Hc.
  - intros r H Hh. inversion H; subst r. discriminate Hh.
  - split; [intros r H Hh; inversion H; subst r; discriminate Hh | intros k0 ph x0 res H; discriminate H].
  - intros r H _. inversion H; subst r. simpl. exists k, x, tr. auto.
  - simpl. eexists. split; [reflexivity|]. simpl. auto.
Qed.

Lemma PH_info start k ph x res tr :
  ph <> RInitialized -> top_ok tr -> t_init tr = Some k -> PH start (EvPub (PRunInfo k ph x res)) tr.
Proof.
  intros Hph Ht Hi. ph5.
  - intros r m H. discriminate H.
  - intros r H. discriminate H.
  - split; [intros r H; discriminate H | intros k0 ph0 x0 res0 H _; inversion H; subst; exact Hi].
  - intros r H. discriminate H.
  - apply top_block; auto.
Qed.

Lemma PH_startrec start f n x tr :
  t_stmt tr = Some x -> t_init tr = Some n -> t_info0 tr = Some (n, x) ->
  PH start (EvHook (mkHook HStartRun f (Some n) (Some x) None)) (EvPub (PRunInfo n RRunning x None) :: tr).
Proof.
  intros H1 H2 H3. ph5.
  - intros r m H Hh. inversion H; subst r. discriminate Hh.
  - intros r H _. inversion H; subst r. simpl. exists n, x. repeat split; auto.
  - split; [intros r H Hh; inversion H; subst r; discriminate Hh | intros k0 ph x0 res H; discriminate H].
  - intros r H Hh. inversion H; subst r. discriminate Hh.
  - simpl. exact I.
Qed.

Lemma PH_endrec start f n x res tr :
  t_init tr = Some n ->
  PH start (EvHook (mkHook HEndRun f (Some n) None None)) (EvPub (PRunInfo n RFinished x res) :: tr).
Proof.
  intros H2. ph5.
  - intros r m H Hh. inversion H; subst r. discriminate Hh.
  - intros r H Hh. inversion H; subst r. discriminate Hh.
  - split; [intros r H _; inversion H; subst r; simpl; eauto | intros k0 ph x0 res0 H; discriminate H].
  - intros r H Hh. inversion H; subst r. discriminate Hh.
  - simpl. exact I.
Qed.

Lemma HI_kind start s s' :
  LkS s -> FI s -> NI start s -> kind s s' -> HI start (trace s) -> HI start (trace s').
Proof.
  intros HL HF HN HK H. destruct HN as [A J N0 I1' NC'].
  destruct HK as [Ec Er Ev Hp Hx | Ec Er Ef Ev Hx | c r tr1 Ec Er Ev Ev' Ef Hx Hr Ht
                  | ra0 Era Ev Ec Er Ef Ht | o pre Ev Hfs Ef Er Hx Hm' | o Ev Ev' Ec Er Ef Ht
                  | t o Ev Ev' Ec Er Ef Ht | t o pre Ev Ev' Ec Er Ef Hx Ht
                  | ra0 Era Ef Ec Er Ev Ef' Ht | ra0 oc Era Ef Ec Er Ev Ef' Ht].
  - eapply HI_ext; [apply quiet_plain | exact Hx | exact H].
  - eapply HI_ext; [apply quiet_plain | exact Hx | exact H].
  - rewrite Ht. apply HI_cons; [simpl; rewrite Hr; exact I|]. apply HI_cons; [exact I|].
    eapply HI_ext; [apply quiet_plain | exact Hx | exact H].
  - (* initialize_run *)
    rewrite Ht. destruct H as [IA IT]. unfold init_block. rewrite Era. simpl.
    split; [|exact I]. split; [|split; [|split; [|exact IA]]].
    + apply PH_initrec. destruct (t_init (trace s)) as [n|] eqn:En.
      * destruct (NC' n eq_refl) as (C1 & _). exact C1.
      * destruct (N0 eq_refl) as (_ & C & _). exact C.
    + apply PH_info0.
    + apply PH_runno. exact IT.
  - assert (Hp : HI start pre) by (eapply HI_ext; [apply call_plain | exact Hx | exact H]).
    destruct (o_stmt o) as [x|].
    + destruct Hm' as (_ & _ & r & Hr & Ht). rewrite Ht.
      apply HI_cons; [simpl; rewrite Hr; exact I|]. apply HI_cons; [exact I|]. apply HI_cons; [exact I | exact Hp].
    + destruct Hm' as (_ & _ & Ht). rewrite Ht. apply HI_cons; [exact I | exact Hp].
  - rewrite Ht. exact H.
  - rewrite Ht. apply HI_cons; [exact I | exact H].
  - rewrite Ht. apply HI_cons; [exact I|]. eapply HI_ext; [apply call_plain | exact Hx | exact H].
  - (* on_start_run *)
    destruct (I1' _ Era) as (B1 & B2 & _).
    destruct (A _ Era (running_not_mid _ HL HF Ef)) as (A1 & _).
    assert (Js : t_stmt (trace s) = Some (ra_stmt ra0)).
    { destruct J as [J|[J _]]; congruence. }
    rewrite Ht. destruct H as [IA IT]. split; [|exact I]. simpl.
    split; [|split; [|exact IA]].
    + apply PH_startrec; auto.
    + apply PH_info; auto. discriminate.
  - (* on_end_run *)
    destruct (I1' _ Era) as (B1 & B2 & _).
    rewrite Ht. destruct H as [IA IT]. split; [|exact I]. simpl.
    split; [|split; [|exact IA]].
    + apply PH_endrec; auto.
    + apply PH_info; auto. discriminate.
Qed.

Theorem HI_reachable a b c d ls : HI b (trace (run_labels (init_state a b c d) ls)).
Proof.
  assert (G : forall s, LkS s -> FI s -> NI b s -> HI b (trace s) ->
              HI b (trace (fold_left step ls s))).
  { induction ls as [|l ls IH]; intros s HL HF HN H; simpl; auto.
    apply IH; [apply LkS_step | apply FI_step | apply NI_step | ]; auto.
    eapply HI_kind; eauto. apply step_kind; auto. }
  apply G; [apply LkS_init | apply FI_init | apply NI_init | split; simpl; auto].
Qed.

(** ---- what a step appended ---- *)
Lemma appended_new s s' new : trace s' = new ++ trace s -> appended s s' = rev new.
Proof.
  intros E. unfold appended. rewrite E, app_length.
  replace (length new + length (trace s) - length (trace s))%nat with (length new + 0)%nat by lia.
  rewrite firstn_app_2. simpl. rewrite app_nil_r. reflexivity.
Qed.

Lemma in_appended s s' new e : trace s' = new ++ trace s -> (In e (appended s s') <-> In e new).
Proof. intros E. rewrite (appended_new _ _ _ E). symmetry. apply in_rev. Qed.

(** ---- the reset transition: ghost snapshot of the composer ---- *)
Definition reset_of (e : event) : option hookrec :=
  match e with
  | EvHook r => match h_hook r with HReset => Some r | _ => None end
  | _ => None
  end.

Fixpoint find_reset (l : list event) : option hookrec :=
  match l with
  | [] => None
  | e :: r => match reset_of e with Some x => Some x | None => find_reset r end
  end.

Lemma find_reset_app_none l1 l2 : (forall e, In e l1 -> reset_of e = None) -> find_reset (l1 ++ l2) = find_reset l2.
Proof.
  induction l1 as [|e l1 IH]; intros H; simpl; auto.
  rewrite (H e (or_introl eq_refl)). apply IH. intros e' Hin. apply H. right. exact Hin.
Qed.

Lemma find_reset_none l : (forall e, In e l -> reset_of e = None) -> find_reset l = None.
Proof. intros H. rewrite <- (app_nil_r l). rewrite find_reset_app_none; auto. Qed.

Lemma plain_or_reset_none e : plain_ev e -> (forall r, e = EvHook r -> h_hook r <> HReset) -> reset_of e = None.
Proof.
  intros _ H. destruct e as [| r | |]; simpl; auto. specialize (H r eq_refl). destruct (h_hook r); auto; congruence.
Qed.

Lemma quiet_reset_of cs e : quiet_ev cs e -> reset_of e = None.
Proof. destruct e as [| r | |]; simpl; auto. destruct (h_hook r); auto; contradiction. Qed.
Lemma call_reset_of e : call_ev e -> reset_of e = None.
Proof. destruct e; simpl; auto; contradiction. Qed.

Lemma ext_appended (P : event -> Prop) s s' :
  ext P (trace s) (trace s') -> forall e, In e (appended s s') -> P e.
Proof.
  intros Hx e Hin. destruct (ext_app _ _ _ Hx) as (new & E & Hf).
  apply (in_appended _ _ _ _ E) in Hin. rewrite Forall_forall in Hf. auto.
Qed.

Lemma ext_find_reset (P : event -> Prop) s s' :
  (forall e, P e -> reset_of e = None) -> ext P (trace s) (trace s') -> find_reset (appended s s') = None.
Proof. intros HP Hx. apply find_reset_none. intros e Hin. apply HP. eapply ext_appended; eauto. Qed.

Notation cfields := (Z * Z * bool * bool)%type.
Definition ghost := (cfields * option hookrec)%type.

Definition merged (c : cfields) (o : opts) : cfields :=
  match c with (a, b, x, y) => (dflt a (o_stmt o), dflt b (o_start o), dflt x (o_threads o), dflt y (o_modules o)) end.
Definition merged_stmt (c : cfields) (o : opts) : cfields :=
  match c with (a, b, x, y) => (dflt a (o_stmt o), b, x, y) end.
Definition ra_of (c : cfields) : runarg := match c with (a, b, x, y) => mkRunArg b a x y end.

(** the composer as it was just before the step that logged the latest reset record, and that record *)
Definition gnext (s s' : state) (g : ghost) : ghost :=
  match find_reset (appended s s') with Some r => (comp s, Some r) | None => g end.

Definition gstep (sg : state * ghost) (l : label) : state * ghost :=
  let s' := step (fst sg) l in (s', gnext (fst sg) s' (snd sg)).

Definition grun (sg : state * ghost) (ls : list label) : state * ghost := fold_left gstep ls sg.

Lemma grun_fst ls : forall sg, fst (grun sg ls) = run_labels (fst sg) ls.
Proof. induction ls as [|l ls IH]; intros sg; simpl; auto. change (fst (grun (gstep sg l) ls) = run_labels (step (fst sg) l) ls). rewrite IH. reflexivity. Qed.

Definition snapshot (stmt start : Z) (th md : bool) (ls : list label) : ghost :=
  snd (grun (init_state stmt start th md, (comp (init_state stmt start th md), None)) ls).

Definition ZG (s : state) (g : ghost) : Prop :=
  forall o k, hview s = Some (CReset o, k) -> (2 <= k)%nat ->
  (exists r, snd g = Some r /\ h_hook r = HReset /\ h_stmt r = o_stmt o /\ h_start r = o_start o) /\
  match k with
  | 2%nat => comp s = merged_stmt (fst g) o
  | 3%nat => comp s = merged (fst g) o
  | _ => run_arg s = Some (ra_of (merged (fst g) o))
  end.

Lemma ZG_kind s s' g : LkS s -> FI s -> kind s s' -> ZG s g -> ZG s' (gnext s s' g).
Proof.
  intros HL HF HK Z. unfold gnext.
  destruct HK as [Ec Er Ev Hp Hx | Ec Er Ef Ev Hx | c r tr1 Ec Er Ev Ev' Ef Hx Hr Ht
                  | ra0 Era Ev Ec Er Ef Ht | o pre Ev Hfs Ef Er Hx Hm' | o Ev Ev' Ec Er Ef Ht
                  | t o Ev Ev' Ec Er Ef Ht | t o pre Ev Ev' Ec Er Ef Hx Ht
                  | ra0 Era Ef Ec Er Ev Ef' Ht | ra0 oc Era Ef Ec Er Ev Ef' Ht].
  - rewrite (ext_find_reset _ _ _ (quiet_reset_of (c_stmt s)) Hx).
    intros o k Hv Hk. rewrite Ev in Hv. destruct (Z o k Hv Hk) as (Z1 & Z2). split; auto.
    rewrite Ec, Er. exact Z2.
  - rewrite (ext_find_reset _ _ _ (quiet_reset_of (c_stmt s)) Hx).
    intros o k Hv Hk. rewrite Ev in Hv. destruct (Z o k Hv Hk) as (Z1 & Z2). split; auto.
    pose proof (hview_fsm _ _ _ HL HF Hv) as Hf.
    destruct k as [|[|[|[|k]]]]; try lia; try (destruct Hf; congruence); congruence.
  - intros o k Hv Hk. rewrite Ev' in Hv. inversion Hv; subst. lia.
  - assert (Hn : find_reset (appended s s') = None).
    { rewrite (appended_new _ _ _ Ht). reflexivity. }
    rewrite Hn. intros o k Hv Hk. destruct Ev as [[_ Ev] | (o' & Ev & Ev')]; [congruence|].
    rewrite Ev' in Hv. inversion Hv; subst o' k. destruct (Z o 3%nat Ev) as (Z1 & Z2); [lia|]. split; auto.
    rewrite Er, Era. f_equal. destruct (fst g) as [[[a b] x] y]. simpl in *.
    destruct (comp_eq4 _ _ _ _ _ Z2) as (E1 & E2 & E3 & E4). congruence.
  - (* enter_reset *)
    destruct (ext_app _ _ _ Hx) as (np & Ep & Hfp).
    assert (Hcalls : forall e, In e (rev np) -> reset_of e = None).
    { intros e Hin. apply call_reset_of. rewrite Forall_forall in Hfp. apply Hfp. apply in_rev. exact Hin. }
    destruct (o_stmt o) as [x|] eqn:Eo.
    + destruct Hm' as (Ec & Hv' & r & Hr & Ht).
      assert (Hn : find_reset (appended s s') = Some (reset_rec s o)).
      { rewrite (appended_new s s' (EvHook r :: EvPub (PStatement x) :: EvHook (reset_rec s o) :: np)).
        - simpl. rewrite <- !app_assoc. rewrite find_reset_app_none; auto.
        - rewrite Ht, Ep. reflexivity. }
      rewrite Hn. intros o0 k Hv Hk. rewrite Hv' in Hv. inversion Hv; subst o0 k. split.
      * exists (reset_rec s o). simpl. auto.
      * simpl. rewrite Ec. unfold comp, merged_stmt. rewrite Eo. reflexivity.
    + destruct Hm' as (Ec & Hv' & Ht).
      assert (Hn : find_reset (appended s s') = Some (reset_rec s o)).
      { rewrite (appended_new s s' (EvHook (reset_rec s o) :: np)).
        - simpl. rewrite find_reset_app_none; auto.
        - rewrite Ht, Ep. reflexivity. }
      rewrite Hn. intros o0 k Hv Hk. rewrite Hv' in Hv. inversion Hv; subst o0 k. split.
      * exists (reset_rec s o). simpl. auto.
      * simpl. rewrite Ec. unfold comp, merged, applied. rewrite Eo. reflexivity.
  - assert (Hn : find_reset (appended s s') = None).
    { rewrite (appended_new s s' []); [reflexivity | rewrite Ht; reflexivity]. }
    rewrite Hn. intros o0 k Hv Hk. rewrite Ev' in Hv. inversion Hv; subst o0 k.
    destruct (Z o 2%nat Ev) as (Z1 & Z2); [lia|]. split; auto.
    rewrite Ec. unfold applied. destruct (fst g) as [[[a b] x] y]. simpl in *.
    destruct (comp_eq4 _ _ _ _ _ Z2) as (E1 & E2 & E3 & E4). congruence.
  - intros o0 k Hv. congruence.
  - intros o0 k Hv. congruence.
  - assert (Hn : find_reset (appended s s') = None).
    { rewrite (appended_new s s' [_; _] Ht). reflexivity. }
    rewrite Hn. intros o k Hv Hk. rewrite Ev in Hv. destruct (Z o k Hv Hk) as (Z1 & Z2). split; auto.
    rewrite Ec, Er. exact Z2.
  - assert (Hn : find_reset (appended s s') = None).
    { rewrite (appended_new s s' [_; _] Ht). reflexivity. }
    rewrite Hn. intros o k Hv Hk. rewrite Ev in Hv. destruct (Z o k Hv Hk) as (Z1 & Z2). split; auto.
    rewrite Ec, Er. exact Z2.
Qed.

(** ---- everything together, for every label sequence ---- *)
Theorem ZG_reachable a b c d ls :
  ZG (run_labels (init_state a b c d) ls) (snapshot a b c d ls).
Proof.
  unfold snapshot.
  assert (G : forall ls sg, LkS (fst sg) -> FI (fst sg) -> ZG (fst sg) (snd sg) ->
              ZG (fst (grun sg ls)) (snd (grun sg ls))).
  { clear. induction ls as [|l ls IH]; intros sg HL HF Z; simpl; auto.
    change (ZG (fst (grun (gstep sg l) ls)) (snd (grun (gstep sg l) ls))).
    apply IH; simpl; [apply LkS_step | apply FI_step | apply ZG_kind; auto; apply step_kind]; auto. }
  change (run_labels (init_state a b c d) ls) with
    (run_labels (fst (init_state a b c d, (comp (init_state a b c d), @None hookrec))) ls).
  rewrite <- grun_fst.
  apply G; simpl; [apply LkS_init | apply FI_init |].
  intros o k Hv. discriminate.
Qed.

(** ---- list facts ---- *)
Definition no_init (l : list event) : Prop := forall r, In (EvHook r) l -> h_hook r <> HInitRun.
Definition is_init (e : event) (n : Z) : Prop := exists r, e = EvHook r /\ h_hook r = HInitRun /\ h_runno r = Some n.

Lemma t_init_app_noinit l tr : no_init l -> t_init (l ++ tr) = t_init tr.
Proof.
  induction l as [|e l IH]; intros H; simpl; auto.
  assert (H' : no_init l) by (intros r Hin; apply H; right; exact Hin).
  destruct e as [| r | |]; auto. pose proof (H r (or_introl eq_refl)) as Hr.
  destruct (h_hook r); auto; congruence.
Qed.

Lemma no_init_rev l : no_init l -> no_init (rev l).
Proof. intros H r Hin. apply H. apply in_rev. exact Hin. Qed.

Lemma resets_app_init l a n tr m : is_init a n ->
  In (Some m) (resets_since (l ++ a :: tr)) -> exists r, In (EvHook r) l /\ h_hook r = HReset /\ h_start r = Some m.
Proof.
  intros (ra & -> & Ha & _). induction l as [|e l IH]; simpl.
  - rewrite Ha. intros [].
  - intros Hin. destruct e as [| r | |]; try (destruct (IH Hin) as (r0 & H1 & H2); exists r0; auto; fail).
    destruct (h_hook r) eqn:Er; try (destruct (IH Hin) as (r0 & H1 & H2); exists r0; auto; fail).
    + destruct Hin.
    + destruct Hin as [Hin|Hin].
      * exists r. auto.
      * destruct (IH Hin) as (r0 & H1 & H2). exists r0. auto.
Qed.

Lemma rev_mid_split (h1 : list event) a mid : rev (h1 ++ a :: mid) = rev mid ++ a :: rev h1.
Proof. rewrite rev_app_distr. simpl. rewrite <- app_assoc. reflexivity. Qed.

Lemma history_split2 s h1 a mid e h2 :
  history s = h1 ++ a :: mid ++ e :: h2 -> history s = (h1 ++ a :: mid) ++ e :: h2.
Proof. intros ->. rewrite <- app_assoc. reflexivity. Qed.

Lemma t_init_after_init h1 a n mid : is_init a n -> no_init mid -> t_init (rev (h1 ++ a :: mid)) = Some n.
Proof.
  intros (ra & -> & Ha & Hn) Hm. rewrite rev_mid_split, t_init_app_noinit by (apply no_init_rev; exact Hm).
  simpl. rewrite Ha. exact Hn.
Qed.

(** ---- readable history functions (chronological prefix) ---- *)
Definition latest_init_no (h : list event) : option Z := t_init (rev h).
Definition latest_statement (h : list event) : option Z := t_stmt (rev h).
Definition latest_run_info (h : list event) : option (Z * rphase * Z) := t_info (rev h).
Definition latest_initialized_info (h : list event) : option (Z * Z) := t_info0 (rev h).

Section Theorems.
Variables (stmt start : Z) (th md : bool) (ls : list label).
Let s := run_labels (init_state stmt start th md) ls.

Let HL : LkS s. Proof. apply LkS_reachable. Qed.
Let HF : FI s. Proof. apply inv_reachable. Qed.
Let HN : NI start s. Proof. apply NI_reachable. Qed.
Let HH : HI start (trace s). Proof. apply HI_reachable. Qed.

Lemma PH_at h1 e h2 : history s = h1 ++ e :: h2 -> PH start e (rev h1).
Proof. apply all_suffix_history. apply HH. Qed.

Theorem thm_first_init h1 e n h2 :
  history s = h1 ++ e :: h2 -> is_init e n -> no_init h1 -> n = start.
Proof.
  intros Hh (r & -> & Hr & Hn) Hno. destruct (PH_at _ _ _ Hh) as (Pc & _).
  specialize (Pc r n eq_refl Hr Hn).
  rewrite <- (app_nil_r (rev h1)), t_init_app_noinit in Pc by (apply no_init_rev; exact Hno). exact Pc.
Qed.

Theorem thm_consecutive h1 a n mid b m h2 :
  history s = h1 ++ a :: mid ++ b :: h2 -> is_init a n -> is_init b m -> no_init mid ->
  m = n + 1 \/ exists r, In (EvHook r) mid /\ h_hook r = HReset /\ h_start r = Some m.
Proof.
  intros Hh Ha (rb & -> & Hrb & Hm) Hno.
  destruct (PH_at _ _ _ (history_split2 _ _ _ _ _ _ Hh)) as (Pc & _).
  specialize (Pc rb m eq_refl Hrb Hm). rewrite (t_init_after_init _ _ _ _ Ha Hno) in Pc.
  destruct Pc as [Pc|Pc]; auto. right. rewrite rev_mid_split in Pc.
  destruct (resets_app_init _ _ _ _ _ Ha Pc) as (r & Hin & H1 & H2). exists r. split; auto.
  apply in_rev in Hin. exact Hin.
Qed.

Theorem thm_init_has_number h1 r h2 :
  history s = h1 ++ EvHook r :: h2 -> h_hook r = HInitRun ->
  exists n x h0, h_runno r = Some n /\ h_stmt r = Some x /\
                 h1 = h0 ++ [EvPub (PRunNo n); EvPub (PRunInfo n RInitialized x None)].
Proof.
  intros Hh Hr. destruct (PH_at _ _ _ Hh) as (_ & _ & _ & Pi & _).
  destruct (Pi r eq_refl Hr) as (n & x & rest & H1 & H2 & H3). exists n, x, (rev rest). repeat split; auto.
  rewrite <- (rev_involutive h1), H3. simpl. rewrite <- app_assoc. reflexivity.
Qed.

Theorem thm_executed h1 r h2 :
  history s = h1 ++ EvHook r :: h2 -> h_hook r = HStartRun ->
  exists n x, h_runno r = Some n /\ h_stmt r = Some x /\
    latest_statement h1 = Some x /\ latest_init_no h1 = Some n /\
    latest_initialized_info h1 = Some (n, x) /\ latest_run_info h1 = Some (n, RRunning, x).
Proof. intros Hh Hr. destruct (PH_at _ _ _ Hh) as (_ & Ps & _). exact (Ps r eq_refl Hr). Qed.

Theorem thm_carried_end h1 r h2 :
  history s = h1 ++ EvHook r :: h2 -> h_hook r = HEndRun ->
  exists n, h_runno r = Some n /\ latest_init_no h1 = Some n.
Proof. intros Hh Hr. destruct (PH_at _ _ _ Hh) as (_ & _ & (Pe & _) & _). exact (Pe r eq_refl Hr). Qed.

Theorem thm_carried_info h1 k ph x res h2 :
  history s = h1 ++ EvPub (PRunInfo k ph x res) :: h2 -> ph <> RInitialized -> latest_init_no h1 = Some k.
Proof. intros Hh Hp. destruct (PH_at _ _ _ Hh) as (_ & _ & (_ & Pe) & _). exact (Pe k ph x res eq_refl Hp). Qed.

Lemma next_exists h1 e h2 : history s = h1 ++ e :: h2 -> ~ top_ok (e :: rev h1) -> exists e' h3, h2 = e' :: h3.
Proof.
  intros Hh Hnt. destruct h2 as [|e' h3]; eauto. exfalso. apply Hnt.
  pose proof (history_split _ _ _ _ Hh) as Ht. simpl in Ht. rewrite <- Ht. apply HH.
Qed.

Lemma block_at h1 e e' h3 : history s = h1 ++ e :: e' :: h3 -> P_block e' (e :: rev h1).
Proof.
  intros Hh. assert (Hh' : history s = (h1 ++ [e]) ++ e' :: h3) by (rewrite <- app_assoc; exact Hh).
  destruct (PH_at _ _ _ Hh') as (_ & _ & _ & _ & Pb). rewrite rev_app_distr in Pb. exact Pb.
Qed.

Theorem thm_initialized_info_block h1 k x res h2 :
  history s = h1 ++ EvPub (PRunInfo k RInitialized x res) :: h2 ->
  exists r h3, h2 = EvHook r :: h3 /\ h_hook r = HInitRun /\ h_runno r = Some k /\ h_stmt r = Some x.
Proof.
  intros Hh. destruct (next_exists _ _ _ Hh) as (e' & h3 & ->); [simpl; auto|].
  pose proof (block_at _ _ _ _ Hh) as Pb. simpl in Pb. destruct Pb as (r & -> & H1 & H2 & H3). exists r, h3. auto.
Qed.

Theorem thm_run_no_block h1 k h2 :
  history s = h1 ++ EvPub (PRunNo k) :: h2 ->
  exists x r h3, h2 = EvPub (PRunInfo k RInitialized x None) :: EvHook r :: h3 /\
                 h_hook r = HInitRun /\ h_runno r = Some k /\ h_stmt r = Some x.
Proof.
  intros Hh. destruct (next_exists _ _ _ Hh) as (e' & h3 & ->); [simpl; auto|].
  pose proof (block_at _ _ _ _ Hh) as Pb. simpl in Pb. destruct Pb as (x & ->).
  assert (Hh' : history s = (h1 ++ [EvPub (PRunNo k)]) ++ EvPub (PRunInfo k RInitialized x None) :: h3)
    by (rewrite <- app_assoc; exact Hh).
  destruct (thm_initialized_info_block _ _ _ _ _ Hh') as (r & h4 & -> & H1 & H2 & H3).
  exists x, r, h4. auto.
Qed.
End Theorems.

(** ---- which steps append the return of a reset ---- *)
Definition noret (e : event) : Prop := match e with EvRet _ (CReset _) _ => False | _ => True end.

Lemma quiet_noret cs e : quiet_ev cs e -> noret e.
Proof. destruct e as [| | | t c r]; simpl; auto. Qed.
Lemma call_noret e : call_ev e -> noret e.
Proof. destruct e; simpl; auto; contradiction. Qed.

Lemma kind_events s s' : kind s s' ->
  (exists t o, hview s = Some (CReset o, 4%nat) /\ comp s' = comp s /\ run_arg s' = run_arg s /\
               st_fsm s' = st_fsm s /\ appended s s' = [EvRet t (CReset o) ROk])
  \/ (exists t o calls, comp s' = comp s /\ run_arg s' = run_arg s /\ Forall call_ev calls /\
                        appended s s' = calls ++ [EvRet t (CReset o) RMachineError])
  \/ (forall e, In e (appended s s') -> noret e).
Proof.
  intros HK.
  destruct HK as [Ec Er Ev Hp Hx | Ec Er Ef Ev Hx | c r tr1 Ec Er Ev Ev' Ef Hx Hr Ht
                  | ra0 Era Ev Ec Er Ef Ht | o pre Ev Hfs Ef Er Hx Hm' | o Ev Ev' Ec Er Ef Ht
                  | t o Ev Ev' Ec Er Ef Ht | t o pre Ev Ev' Ec Er Ef Hx Ht
                  | ra0 Era Ef Ec Er Ev Ef' Ht | ra0 oc Era Ef Ec Er Ev Ef' Ht].
  - right; right. intros e Hin. eapply quiet_noret. eapply ext_appended; eauto.
  - right; right. intros e Hin. eapply quiet_noret. eapply ext_appended; eauto.
  - right; right. destruct (ext_app _ _ _ Hx) as (n1 & E1 & F1).
    intros e Hin. apply (in_appended s s' (EvHook r :: EvPub (PStatement (c_stmt s)) :: n1)) in Hin;
      [|rewrite Ht, E1; reflexivity].
    destruct Hin as [<-|[<-|Hin]]; simpl; auto. rewrite Forall_forall in F1. eapply quiet_noret; eauto.
  - right; right. intros e Hin. apply (in_appended _ _ _ _ Ht) in Hin.
    destruct Hin as [<-|[<-|[<-|[]]]]; exact I.
  - right; right. destruct (ext_app _ _ _ Hx) as (n1 & E1 & F1). rewrite Forall_forall in F1.
    destruct (o_stmt o) as [x|].
    + destruct Hm' as (_ & _ & r & Hr & Ht).
      intros e Hin. apply (in_appended s s' (EvHook r :: EvPub (PStatement x) :: EvHook (reset_rec s o) :: n1)) in Hin;
        [|rewrite Ht, E1; reflexivity].
      destruct Hin as [<-|[<-|[<-|Hin]]]; simpl; auto. apply call_noret; auto.
    + destruct Hm' as (_ & _ & Ht).
      intros e Hin. apply (in_appended s s' (EvHook (reset_rec s o) :: n1)) in Hin; [|rewrite Ht, E1; reflexivity].
      destruct Hin as [<-|Hin]; simpl; auto. apply call_noret; auto.
  - right; right. intros e Hin. apply (in_appended s s' []) in Hin; [destruct Hin | rewrite Ht; reflexivity].
  - left. exists t, o. repeat split; auto. apply (appended_new s s' [_] Ht).
  - right; left. destruct (ext_app _ _ _ Hx) as (n1 & E1 & F1). exists t, o, (rev n1). repeat split; auto.
    + apply Forall_rev. exact F1.
    + rewrite (appended_new s s' (EvRet t (CReset o) RMachineError :: n1)); [reflexivity | rewrite Ht, E1; reflexivity].
  - right; right. intros e Hin. apply (in_appended s s' [_; _] _ Ht) in Hin. destruct Hin as [<-|[<-|[]]]; exact I.
  - right; right. intros e Hin. apply (in_appended s s' [_; _] _ Ht) in Hin. destruct Hin as [<-|[<-|[]]]; exact I.
Qed.

Section Theorems2.
Variables (stmt start : Z) (th md : bool) (ls : list label).
Let s := run_labels (init_state stmt start th md) ls.
Let HL : LkS s. Proof. apply LkS_reachable. Qed.
Let HF : FI s. Proof. apply inv_reachable. Qed.
Let HN : NI start s. Proof. apply NI_reachable. Qed.

Theorem thm_reset_ok l t o :
  In (EvRet t (CReset o) ROk) (appended s (step s l)) ->
  st_fsm (step s l) = Initialized /\
  run_arg (step s l) = Some (ra_of (merged (fst (snapshot stmt start th md ls)) o)) /\
  exists r, snd (snapshot stmt start th md ls) = Some r /\ h_hook r = HReset /\
            h_stmt r = o_stmt o /\ h_start r = o_start o.
Proof.
  intros Hin. pose proof (ZG_reachable stmt start th md ls) as Z. fold s in Z.
  destruct (kind_events _ _ (step_kind s l HL HF)) as [(t0 & o0 & Hv & Ec & Er & Ef & Ha) | [(t0 & o0 & calls & _ & _ & Fc & Ha) | Hno]].
  - rewrite Ha in Hin. destruct Hin as [Hin|[]]. inversion Hin; subst t0 o0.
    destruct (Z o 4%nat Hv) as (Z1 & Z2); [lia|]. simpl in Z2.
    pose proof (hview_fsm _ _ _ HL HF Hv) as Hf. simpl in Hf. split; [congruence | split; [congruence | exact Z1]].
  - exfalso. rewrite Ha in Hin. apply in_app_or in Hin. destruct Hin as [Hin|[Hin|[]]]; [|discriminate].
    rewrite Forall_forall in Fc. apply (Fc _ Hin).
  - exfalso. apply (Hno _ Hin).
Qed.

Theorem thm_reset_refused l t o :
  In (EvRet t (CReset o) RMachineError) (appended s (step s l)) ->
  comp (step s l) = comp s /\ run_arg (step s l) = run_arg s /\
  forall e, In e (appended s (step s l)) -> e = EvRet t (CReset o) RMachineError \/ call_ev e.
Proof.
  intros Hin.
  destruct (kind_events _ _ (step_kind s l HL HF)) as [(t0 & o0 & Hv & Ec & Er & Ef & Ha) | [(t0 & o0 & calls & Ec & Er & Fc & Ha) | Hno]].
  - exfalso. rewrite Ha in Hin. destruct Hin as [Hin|[]]. discriminate.
  - rewrite Forall_forall in Fc. repeat split; auto. rewrite Ha in *. intros e He.
    apply in_app_or in Hin. destruct Hin as [Hin|[Hin|[]]]; [exfalso; apply (Fc _ Hin)|].
    inversion Hin; subst t0 o0. apply in_app_or in He. destruct He as [He|[He|[]]]; auto.
  - exfalso. apply (Hno _ Hin).
Qed.

Definition zmid (p : pc) : bool := match p with Z_G1 | Z_G1b | Z_WaitRunTask => true | _ => false end.

Theorem thm_no_run_during_reset t c p :
  find_task (tasks s) t = Some (c, p) -> zmid p = true -> forall x, runt s = Some x -> early x = false.
Proof.
  intros Hf Hz x Hx. destruct HF as [HP HS]. pose proof (HP _ _ _ Hf) as Hok.
  destruct (early x) eqn:He; auto. pose proof (sc_early _ _ _ _ _ _ HS x Hx He) as Hr. rewrite Hr in Hok.
  destruct p; simpl in Hz; try discriminate; simpl in Hok; discriminate.
Qed.

Lemma reset_mid_task : reset_mid s = true -> exists t c p, find_task (tasks s) t = Some (c, p) /\ zmid p = true.
Proof.
  unfold reset_mid, hview, hpc. destruct (holder s) as [t|]; [|discriminate].
  destruct (find_task (tasks s) t) as [[c p]|] eqn:Ef; [|discriminate].
  intros H. exists t, c, p. split; auto. destruct p; simpl in *; auto; discriminate.
Qed.

Theorem thm_composer ra :
  run_arg s = Some ra -> (forall t c p, find_task (tasks s) t = Some (c, p) -> zmid p = false) -> compA s ra.
Proof.
  intros Hra Hno. apply (ni_A _ _ HN); auto. destruct (reset_mid s) eqn:Em; auto.
  destruct (reset_mid_task Em) as (t & c & p & Hf & Hz). rewrite (Hno _ _ _ Hf) in Hz. discriminate.
Qed.

Theorem thm_composer_at_run_start ra x :
  runt s = Some x -> early x = true -> run_arg s = Some ra -> compA s ra.
Proof.
  intros Hx He Hra. apply (ni_A _ _ HN); auto. apply running_not_mid; auto.
  destruct HF as [_ HS]. eapply sc_early; eauto.
Qed.
End Theorems2.

(** the run numbers of the on_initialize_run records, in order *)
Fixpoint init_nos (h : list event) : list Z :=
  match h with
  | [] => []
  | EvHook r :: rest =>
    match h_hook r, h_runno r with
    | HInitRun, Some n => n :: init_nos rest
    | _, _ => init_nos rest
    end
  | _ :: rest => init_nos rest
  end.

(** the options of an accepted reset, spelled out *)
Theorem thm_reset_options stmt start th md ls l t o :
  let s := run_labels (init_state stmt start th md) ls in
  let s' := step s l in
  In (EvRet t (CReset o) ROk) (appended s s') ->
  exists ra, run_arg s' = Some ra /\
    (forall x, o_stmt o = Some x -> ra_stmt ra = x) /\
    (forall n, o_start o = Some n -> ra_no ra = n) /\
    (forall b, o_threads o = Some b -> ra_threads ra = b) /\
    (forall b, o_modules o = Some b -> ra_modules ra = b).
Proof.
  intros s s' Hin. destruct (thm_reset_ok stmt start th md ls l t o Hin) as (_ & Hr & _).
  eexists. split; [exact Hr|]. destruct (fst (snapshot stmt start th md ls)) as [[[a b] x] y]. simpl.
  repeat split; intros v Hv; rewrite Hv; reflexivity.
Qed.

(** the statement "every PRunNo / PRunInfo publication between an on_initialize_run record and
    the next one carries the number of the former" is false of the model: the publications of an
    initialisation precede its hook record *)
Definition refute_ls : list label :=
  [Call 0 CStart; Step 0; Step 0; Step 0; Call 1 (CReset (mkOpts None None None None)); Step 1].

Definition refute_h1 : list event :=
  [EvCall 0 CStart; EvPub (PCont false); EvHook (mkHook HStart Created None None None); EvPub (PStatement 1);
   EvHook (mkHook HChangeScript Created None (Some 1) None); EvPub (PRunNo 1); EvPub (PRunInfo 1 RInitialized 1 None)].
Definition refute_mid : list event :=
  [EvPub (PState Initialized); EvHook (mkHook HChangeState Initialized (Some 1) None None); EvRet 0 CStart ROk;
   EvCall 1 (CReset (mkOpts None None None None)); EvHook (mkHook HReset Initialized (Some 1) None None)].
Definition refute_h2 : list event :=
  [EvPub (PRunInfo 2 RInitialized 1 None); EvHook (mkHook HInitRun Initialized (Some 2) (Some 1) None)].

Lemma carried_original_refuted :
  exists h1 a n mid k h2,
    history (run_labels (init_state 1 1 true false) refute_ls) = h1 ++ a :: mid ++ EvPub (PRunNo k) :: h2 /\
    is_init a n /\ no_init mid /\ k <> n.
Proof.
  exists refute_h1, (EvHook (mkHook HInitRun Initialized (Some 1) (Some 1) None)), 1, refute_mid, 2, refute_h2.
  split; [vm_compute; reflexivity|]. split; [|split; [|discriminate]].
  - eexists. split; [reflexivity|]. split; reflexivity.
  - intros r Hin. unfold refute_mid in Hin. simpl in Hin.
    destruct Hin as [Hin|[Hin|[Hin|[Hin|[Hin|[]]]]]]; try discriminate Hin; inversion Hin; subst r; discriminate.
Qed.
