(** C14: run numbers and the script on display.  Invariants of the lifecycle
    model proved from the step classification of Life/NumKind.v, and the
    history theorems stated in Props/C14.v. *)
From NL Require Import Life.Model Life.LockInv Life.FsmInv Life.Hist Life.NumKind.
From Coq Require Import Lia.
Open Scope Z_scope.

(** ---- functions of the trace (newest first) ---- *)

(** run number carried by the latest on_initialize_run record *)
Fixpoint t_init (tr : list event) : option Z :=
  match tr with
  | [] => None
  | EvHook r :: rest => match h_hook r with HInitRun => h_runno r | _ => t_init rest end
  | _ :: rest => t_init rest
  end.

(** [run_no_start_from] of the reset records newer than the latest on_initialize_run *)
Fixpoint resets_since (tr : list event) : list (option Z) :=
  match tr with
  | [] => []
  | EvHook r :: rest =>
    match h_hook r with
    | HInitRun => []
    | HReset => h_start r :: resets_since rest
    | _ => resets_since rest
    end
  | _ :: rest => resets_since rest
  end.

(** latest published statement *)
Fixpoint t_stmt (tr : list event) : option Z :=
  match tr with
  | [] => None
  | EvPub (PStatement x) :: _ => Some x
  | _ :: rest => t_stmt rest
  end.

(** latest published run info: number, phase, statement *)
Fixpoint t_info (tr : list event) : option (Z * rphase * Z) :=
  match tr with
  | [] => None
  | EvPub (PRunInfo n ph x _) :: _ => Some (n, ph, x)
  | _ :: rest => t_info rest
  end.

(** latest published run info of phase `initialized` *)
Fixpoint t_info0 (tr : list event) : option (Z * Z) :=
  match tr with
  | [] => None
  | EvPub (PRunInfo n RInitialized x _) :: _ => Some (n, x)
  | _ :: rest => t_info0 rest
  end.

(** every event satisfies [P] relative to the trace below it *)
Fixpoint all_suffix (P : event -> list event -> Prop) (tr : list event) : Prop :=
  match tr with
  | [] => True
  | e :: r => P e r /\ all_suffix P r
  end.

Lemma all_suffix_split P tr : all_suffix P tr -> forall a e b, tr = a ++ e :: b -> P e b.
Proof.
  intros H a. revert tr H. induction a as [|x a IH]; intros tr H e b ->; simpl in H.
  - tauto.
  - destruct H as [_ H]. eapply IH; eauto.
Qed.

Lemma all_suffix_ext (P : event -> list event -> Prop) (Q : event -> Prop) tr tr' :
  (forall e prev, Q e -> P e prev) -> ext Q tr tr' -> all_suffix P tr -> all_suffix P tr'.
Proof. intros HQ Hx H. induction Hx; simpl; auto. Qed.

(** history (chronological) versus trace *)
Lemma history_split s h1 e h2 : history s = h1 ++ e :: h2 -> trace s = rev h2 ++ e :: rev h1.
Proof.
  unfold history. intros H. rewrite <- (rev_involutive (trace s)), H, rev_app_distr. simpl.
  rewrite <- app_assoc. reflexivity.
Qed.

Lemma all_suffix_history P s : all_suffix P (trace s) ->
  forall h1 e h2, history s = h1 ++ e :: h2 -> P e (rev h1).
Proof. intros H h1 e h2 Hh. eapply all_suffix_split; eauto. apply history_split. exact Hh. Qed.

(** ---- quiet events do not move the trace functions ---- *)
Lemma quiet_t_init cs tr tr' : ext (quiet_ev cs) tr tr' -> t_init tr' = t_init tr.
Proof.
  induction 1 as [|e tr' He _ IH]; auto. destruct e as [| r | |]; simpl; auto.
  simpl in He. destruct (h_hook r); auto; contradiction.
Qed.

Lemma quiet_resets cs tr tr' : ext (quiet_ev cs) tr tr' -> resets_since tr' = resets_since tr.
Proof.
  induction 1 as [|e tr' He _ IH]; auto. destruct e as [| r | |]; simpl; auto.
  simpl in He. destruct (h_hook r); auto; contradiction.
Qed.

Lemma quiet_t_info cs tr tr' : ext (quiet_ev cs) tr tr' -> t_info tr' = t_info tr.
Proof.
  induction 1 as [|e tr' He _ IH]; auto. destruct e as [| | p |]; simpl; auto.
  destruct p; simpl in He; auto; contradiction.
Qed.

Lemma quiet_t_info0 cs tr tr' : ext (quiet_ev cs) tr tr' -> t_info0 tr' = t_info0 tr.
Proof.
  induction 1 as [|e tr' He _ IH]; auto. destruct e as [| | p |]; simpl; auto.
  destruct p; simpl in He; auto; contradiction.
Qed.

Lemma quiet_t_stmt cs tr tr' : ext (quiet_ev cs) tr tr' -> t_stmt tr' = t_stmt tr \/ t_stmt tr' = Some cs.
Proof.
  induction 1 as [|e tr' He _ IH]; auto. destruct e as [| | p |]; simpl; auto.
  destruct p; simpl in He; auto. right. congruence.
Qed.

Lemma call_ext_quiet cs tr tr' : ext call_ev tr tr' -> ext (quiet_ev cs) tr tr'.
Proof. apply ext_weaken. apply call_quiet. Qed.

Lemma call_t_stmt tr tr' : ext call_ev tr tr' -> t_stmt tr' = t_stmt tr.
Proof. induction 1 as [|e tr' He _ IH]; auto. destruct e; simpl in *; auto; contradiction. Qed.

(** ---- the state invariant ---- *)
Definition midv (v : option (call * nat)) : bool :=
  match v with Some (_, 2%nat) | Some (_, 3%nat) => true | _ => false end.

(** a reset is between enter_reset and reset_reinit *)
Definition reset_mid (s : state) : bool := midv (hview s).

Definition compA (s : state) (ra : runarg) : Prop :=
  ra_stmt ra = c_stmt s /\ ra_threads ra = c_threads s /\ ra_modules ra = c_modules s /\ c_next s = ra_no ra + 1.

Record NI (start : Z) (s : state) : Prop := mkNI {
  ni_A : forall ra, run_arg s = Some ra -> reset_mid s = false -> compA s ra;
  ni_J : t_stmt (trace s) = Some (c_stmt s) \/ (t_init (trace s) = None /\ hview s = None);
  ni_N0 : t_init (trace s) = None ->
          pre_init (st_fsm s) /\ c_next s = start /\ (hview s = None \/ exists c, hview s = Some (c, 1%nat));
  ni_I1 : forall ra, run_arg s = Some ra ->
          t_init (trace s) = Some (ra_no ra) /\ t_info0 (trace s) = Some (ra_no ra, ra_stmt ra) /\
          exists ph, t_info (trace s) = Some (ra_no ra, ph, ra_stmt ra);
  ni_NC : forall n, t_init (trace s) = Some n ->
          (c_next s = n + 1 \/ In (Some (c_next s)) (resets_since (trace s))) /\
          (forall o k, hview s = Some (CReset o, 2%nat) -> o_start o = Some k -> In (Some k) (resets_since (trace s)))
}.

Lemma comp_eq s' s : comp s' = comp s ->
  c_stmt s' = c_stmt s /\ c_next s' = c_next s /\ c_threads s' = c_threads s /\ c_modules s' = c_modules s.
Proof. unfold comp. intros E. inversion E. auto. Qed.

Lemma comp_eq4 s' a b c d : comp s' = (a, b, c, d) ->
  c_stmt s' = a /\ c_next s' = b /\ c_threads s' = c /\ c_modules s' = d.
Proof. unfold comp. intros E. inversion E. auto. Qed.

Lemma NI_init a b c d : NI b (init_state a b c d).
Proof.
  constructor; simpl; try discriminate.
  - right. auto.
  - intros _. repeat split; auto. left. reflexivity.
Qed.

Lemma not_pre_init_if s : st_fsm s = Initialized \/ st_fsm s = Finished \/ st_fsm s = Running -> ~ pre_init (st_fsm s).
Proof. intros [H|[H|H]] [P|P]; congruence. Qed.

Section Step.
Variable start : Z.
Variables s s' : state.
Hypothesis HL : LkS s.
Hypothesis HF : FI s.
Hypothesis HK : kind s s'.
Hypothesis HN : NI start s.

Lemma A_step : forall ra, run_arg s' = Some ra -> reset_mid s' = false -> compA s' ra.
Proof.
  intros ra Hra Hm. unfold reset_mid in *. destruct HN as [A _ _ _ _]. unfold reset_mid in A.
  destruct HK as [Ec Er Ev Hp Hx | Ec Er Ef Ev Hx | c r tr1 Ec Er Ev Ev' Ef Hx Hr Ht
                  | ra0 Era Ev Ec Er Ef Ht | o pre Ev Hfs Ef Er Hx Hm' | o Ev Ev' Ec Er Ef Ht
                  | t o Ev Ev' Ec Er Ef Ht | t o pre Ev Ev' Ec Er Ef Hx Ht
                  | ra0 Era Ef Ec Er Ev Ef' Ht | ra0 oc Era Ef Ec Er Ev Ef' Ht].
  - destruct (comp_eq _ _ Ec) as (E1 & E2 & E3 & E4). unfold compA. rewrite E1, E2, E3, E4.
    apply A; congruence.
  - congruence.
  - destruct (comp_eq _ _ Ec) as (E1 & E2 & E3 & E4). unfold compA. rewrite E1, E2, E3, E4.
    apply A; [congruence | rewrite Ev; reflexivity].
  - destruct (comp_eq4 _ _ _ _ _ Ec) as (E1 & E2 & E3 & E4). unfold compA. rewrite E1, E2, E3, E4.
    rewrite Er in Hra. inversion Hra; subst. simpl. repeat split; auto; lia.
  - destruct (o_stmt o); destruct Hm' as (_ & Hv & _); rewrite Hv in Hm; discriminate.
  - rewrite Ev' in Hm. discriminate.
  - destruct (comp_eq _ _ Ec) as (E1 & E2 & E3 & E4). unfold compA. rewrite E1, E2, E3, E4.
    apply A; [congruence | rewrite Ev; reflexivity].
  - destruct (comp_eq _ _ Ec) as (E1 & E2 & E3 & E4). unfold compA. rewrite E1, E2, E3, E4.
    apply A; [congruence | rewrite Ev; reflexivity].
  - destruct (comp_eq _ _ Ec) as (E1 & E2 & E3 & E4). unfold compA. rewrite E1, E2, E3, E4.
    apply A; congruence.
  - destruct (comp_eq _ _ Ec) as (E1 & E2 & E3 & E4). unfold compA. rewrite E1, E2, E3, E4.
    apply A; congruence.
Qed.

Ltac kinds :=
  destruct HK as [Ec Er Ev Hp Hx | Ec Er Ef Ev Hx | c r tr1 Ec Er Ev Ev' Ef Hx Hr Ht
                  | ra0 Era Ev Ec Er Ef Ht | o pre Ev Hfs Ef Er Hx Hm' | o Ev Ev' Ec Er Ef Ht
                  | t o Ev Ev' Ec Er Ef Ht | t o pre Ev Ev' Ec Er Ef Hx Ht
                  | ra0 Era Ef Ec Er Ev Ef' Ht | ra0 oc Era Ef Ec Er Ev Ef' Ht].

Lemma J_step : t_stmt (trace s') = Some (c_stmt s') \/ (t_init (trace s') = None /\ hview s' = None).
Proof.
  destruct HN as [_ J N0 _ _].
  assert (Hq : comp s' = comp s -> hview s' = hview s -> ext (quiet_ev (c_stmt s)) (trace s) (trace s') ->
               t_stmt (trace s') = Some (c_stmt s') \/ (t_init (trace s') = None /\ hview s' = None)).
  { intros Ec Ev Hx. destruct (comp_eq _ _ Ec) as (E1 & _). rewrite E1, Ev, (quiet_t_init _ _ _ Hx).
    destruct (quiet_t_stmt _ _ _ Hx) as [E|E]; [rewrite E; exact J | left; exact E]. }
  kinds; auto.
  - left. rewrite Ht. simpl. destruct (comp_eq _ _ Ec) as (E1 & _). congruence.
  - destruct (comp_eq4 _ _ _ _ _ Ec) as (E1 & _). rewrite E1, Ht. simpl.
    destruct J as [J|[_ J]]; auto.
    destruct Ev as [[[c Ev] _] | (o & Ev & _)]; congruence.
  - destruct (o_stmt o) as [x|].
    + destruct Hm' as (Ec & _ & r & Hr & Ht). destruct (comp_eq4 _ _ _ _ _ Ec) as (E1 & _).
      left. rewrite Ht, E1. reflexivity.
    + destruct Hm' as (Ec & _ & Ht). destruct (comp_eq4 _ _ _ _ _ Ec) as (E1 & _).
      rewrite Ht, E1. simpl. rewrite (call_t_stmt _ _ Hx).
      destruct J as [J|[J _]]; auto. destruct (N0 J) as (P & _). exfalso. eapply not_pre_init_if; eauto. tauto.
  - destruct (comp_eq4 _ _ _ _ _ Ec) as (E1 & _). rewrite E1, Ht. destruct J as [J|[_ J]]; auto. congruence.
  - destruct (comp_eq _ _ Ec) as (E1 & _). rewrite E1, Ht. simpl. destruct J as [J|[_ J]]; auto. congruence.
  - destruct (comp_eq _ _ Ec) as (E1 & _). rewrite E1, Ht, Ev'. simpl. rewrite (call_t_stmt _ _ Hx).
    rewrite (quiet_t_init 0 _ _ (call_ext_quiet 0 _ _ Hx)). destruct J as [J|[J _]]; auto.
  - destruct (comp_eq _ _ Ec) as (E1 & _). rewrite E1, Ht. simpl. destruct J as [J|[J _]]; auto.
    destruct (N0 J) as (P & _). exfalso. eapply not_pre_init_if; eauto.
  - destruct (comp_eq _ _ Ec) as (E1 & _). rewrite E1, Ht. simpl. destruct J as [J|[J _]]; auto.
    destruct (N0 J) as (P & _). exfalso. eapply not_pre_init_if; eauto.
Qed.

Lemma N0_step : t_init (trace s') = None ->
  pre_init (st_fsm s') /\ c_next s' = start /\ (hview s' = None \/ exists c, hview s' = Some (c, 1%nat)).
Proof.
  destruct HN as [_ _ N0 _ _]. kinds.
  - rewrite (quiet_t_init _ _ _ Hx), Ev. destruct (comp_eq _ _ Ec) as (_ & E2 & _). rewrite E2.
    intros H. destruct (N0 H) as (P & Q & R). auto.
  - rewrite (quiet_t_init _ _ _ Hx). intros H. destruct (N0 H) as (P & _). exfalso. eapply not_pre_init_if; eauto.
  - rewrite Ht. simpl. rewrite Hr, (quiet_t_init _ _ _ Hx). intros H. destruct (N0 H) as (P & Q & R).
    destruct (comp_eq _ _ Ec) as (_ & E2 & _). rewrite Ef, E2. repeat split; auto. right. eauto.
  - rewrite Ht. simpl. discriminate.
  - intros H. exfalso. assert (H0 : t_init (trace s) = None).
    { rewrite <- (quiet_t_init 0 _ _ (call_ext_quiet 0 _ _ Hx)).
      destruct (o_stmt o); [destruct Hm' as (_ & _ & r & Hr & Ht) | destruct Hm' as (_ & _ & Ht)];
        rewrite Ht in H; simpl in H; rewrite ?Hr in H; exact H. }
    destruct (N0 H0) as (P & _). eapply not_pre_init_if; eauto. tauto.
  - rewrite Ht. intros H. destruct (N0 H) as (_ & _ & [R|[c R]]); congruence.
  - rewrite Ht. simpl. intros H. destruct (N0 H) as (_ & _ & [R|[c R]]); congruence.
  - rewrite Ht. simpl. rewrite (quiet_t_init 0 _ _ (call_ext_quiet 0 _ _ Hx)).
    intros H. destruct (N0 H) as (P & Q & R). destruct (comp_eq _ _ Ec) as (_ & E2 & _). rewrite Ef, E2. auto.
  - rewrite Ht. simpl. intros H. destruct (N0 H) as (P & _). exfalso. eapply not_pre_init_if; eauto.
  - rewrite Ht. simpl. intros H. destruct (N0 H) as (P & _). exfalso. eapply not_pre_init_if; eauto.
Qed.

Definition I1 (s0 : state) : Prop := forall ra, run_arg s0 = Some ra ->
  t_init (trace s0) = Some (ra_no ra) /\ t_info0 (trace s0) = Some (ra_no ra, ra_stmt ra) /\
  exists ph, t_info (trace s0) = Some (ra_no ra, ph, ra_stmt ra).

Lemma I1_step : I1 s'.
Proof.
  assert (I : I1 s) by (destruct HN; assumption). unfold I1 in *.
  assert (Hq : forall cs, run_arg s' = run_arg s -> ext (quiet_ev cs) (trace s) (trace s') ->
      forall ra, run_arg s' = Some ra ->
      t_init (trace s') = Some (ra_no ra) /\ t_info0 (trace s') = Some (ra_no ra, ra_stmt ra) /\
      exists ph, t_info (trace s') = Some (ra_no ra, ph, ra_stmt ra)).
  { intros cs Er Hx ra Hra. rewrite (quiet_t_init _ _ _ Hx), (quiet_t_info0 _ _ _ Hx), (quiet_t_info _ _ _ Hx).
    apply I. congruence. }
  kinds; try (eapply Hq; eauto; fail).
  - intros ra Hra. congruence.
  - eapply Hq; eauto. rewrite Ht. apply ext_cons; [simpl; rewrite Hr; exact I0|].
    apply ext_cons; [simpl; reflexivity | exact Hx].
  - intros ra Hra. rewrite Er in Hra. inversion Hra; subst ra0. rewrite Ht. simpl. repeat split; eauto.
  - eapply (Hq (c_stmt s')); eauto.
    destruct (o_stmt o) as [x|].
    + destruct Hm' as (Ec & _ & r & Hr & Ht). destruct (comp_eq4 _ _ _ _ _ Ec) as (E1 & _). rewrite Ht, E1.
      apply ext_cons; [simpl; rewrite Hr; exact I0|]. apply ext_cons; [simpl; reflexivity|].
Abort.
