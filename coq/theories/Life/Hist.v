(** History functions: everything the property theorems say about what was
    observable is a function of the [trace] (newest first) alone. *)
From NL Require Import Life.Model.

Definition reachable (s : state) : Prop :=
  exists stmt start th md ls, s = run_labels (init_state stmt start th md) ls.

(** chronological order *)
Definition history (s : state) : list event := rev (trace s).

Fixpoint hooks_of (h : list event) : list hookrec :=
  match h with
  | [] => []
  | EvHook x :: r => x :: hooks_of r
  | _ :: r => hooks_of r
  end.

Fixpoint pubs_of (h : list event) : list pub :=
  match h with
  | [] => []
  | EvPub x :: r => x :: pubs_of r
  | _ :: r => pubs_of r
  end.

(** the values a `subscribe_state()` subscriber can see *)
Fixpoint states_of (l : list pub) : list fsm :=
  match l with
  | [] => []
  | PState f :: r => f :: states_of r
  | _ :: r => states_of r
  end.

(** the `continuous enabled` flag: the latest published value *)
Fixpoint enabled_of (tr : list event) : option bool :=   (* on the trace, newest first *)
  match tr with
  | [] => None
  | EvPub (PCont b) :: _ => Some b
  | _ :: r => enabled_of r
  end.

(** the documented state diagram (nextline/fsm/config.py docstring) *)
Definition edge (a b : fsm) : Prop :=
  match a, b with
  | Created, Initialized | Initialized, Running | Running, Finished
  | Initialized, Initialized | Finished, Initialized => True
  | Closed, Closed => True
  | Closed, _ => False
  | _, Closed => True
  | _, _ => False
  end.

(** the events a step appended *)
Definition appended (s s' : state) : list event :=
  rev (firstn (length (trace s') - length (trace s)) (trace s')).
