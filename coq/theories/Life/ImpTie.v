(** Tie of the lifecycle model (Life/Model.v) to nextline/imp.py and nextline/main.py.

    Gen/ImpSkeleton.v holds one statement term per method of class Imp and class Nextline,
    REGENERATED from the current source at every check (translate/imp_skeleton.py, fail-closed).
    This file gives the terms a semantics and proves, about the regenerated terms and for EVERY
    execution, the facts the hand-written model assumes:

      1. lock discipline: every machine trigger ISSUED BY A METHOD OF Imp OR Nextline (run, reset,
         aopen, aclose -- the run task's own `finish` trigger in fsm/callback.py is outside the
         lock by design and is not read here) and every `pubsub.close()` happens while the
         (single) lock is held, no `asyncio.wait_for` timeout is armed around anything under it, user code (the body of `run_session`) never runs under it, nobody
         waits for the lock while holding it, the lock is free again at the end of every call,
         whatever raised;
      2. the API calls that take the lock are exactly those for which [Model.do_call] goes
         through [acquire]; each fires the trigger the model gives it;
      3. the order of actions in Imp.aclose / Nextline.close is the order of the model's close
         path ([enter_close], [close_trigger], the C_ pcs), lock held at every gate;
      4. the `_started` / `_closed` guards: a second close() does nothing, close() on an object
         that was never started starts it first, flag test and flag set are in one atomic
         segment, and no method of Nextline reaches the machine other than through Imp's
         methods (which lock).

    Semantics.  An execution is a path through a decision tree: at every await (lock acquisition,
    trigger, hook, pubsub close, wait, call into Continuous, `yield` = the user's code) the
    environment decides whether it returns or raises (this covers cancellation); at every
    condition that is not a `_started`/`_closed` flag (the machine's state, anything untracked)
    it decides the value.  "For every execution" = for every oracle [list bool] followed through
    the tree = for every leaf ([follow_in_leaves]); the trees of the regenerated terms are finite
    and the obligations are decided by computation over all their leaves.
      5. per-call refinement (section 5): on representative reachable states of the model, the
         observations of EVERY execution of start/run/run_session/reset/close either equal those of
         [Model.do_call]/[do_step] for that task, or leave them exactly at a decision the model takes
         differently (trigger accepted/refused, state running or not), or contain a failure of the
         environment (cancellation, a raising hook, a timeout) which the model does not have.

    Python semantics built in (definitional, NOT proved from anything): `async with lock` releases on
    every exit; `try/finally` runs the finally block and lets its own exception win; `try/except
    BaseException` runs the handler on every exception (a cancellation or a timeout is an exception
    raised at the await the task is suspended at); `wait_for(c, timeout)` = c, any await of which may
    be the one the timeout cancels; an asynccontextmanager's body runs at its
    `yield`; asyncio.Lock is not re-entrant (taking it twice = [RBad]). *)
From Coq Require Import String List Bool Arith Lia.
From NL Require Import Life.ImpSyntax Gen.ImpSkeleton Life.Model Life.LockInv Life.Hist.
Import ListNotations.
Local Open Scope nat_scope.

(** ---- decision trees ---- *)
Inductive tree (A : Type) := Leaf (a : A) | Node (no yes : tree A).
Arguments Leaf {A} a.
Arguments Node {A} no yes.

Fixpoint bind {A B} (t : tree A) (k : A -> tree B) : tree B :=
  match t with
  | Leaf a => k a
  | Node n y => Node (bind n k) (bind y k)
  end.

(** the execution chosen by an oracle (exhausted = `no`: returns / false) *)
Fixpoint follow {A} (t : tree A) (o : list bool) : A :=
  match t with
  | Leaf a => a
  | Node n y =>
    match o with
    | true :: r => follow y r
    | false :: r => follow n r
    | [] => follow n []
    end
  end.

Fixpoint leaves {A} (t : tree A) : list A :=
  match t with
  | Leaf a => [a]
  | Node n y => leaves n ++ leaves y
  end.

Lemma follow_in_leaves {A} (t : tree A) : forall o, In (follow t o) (leaves t).
Proof.
  induction t as [a | n IHn y IHy]; intros o; simpl.
  - left. reflexivity.
  - apply in_or_app. destruct o as [ | [ | ] r]; [left; apply IHn | right; apply IHy | left; apply IHn].
Qed.

(** ---- semantics of the statement terms ---- *)
Record cfg := mkCfg { f_started : bool; f_closed : bool; lk_held : bool }.

Definition get_flag (f : flag) (c : cfg) : bool :=
  match f with FStarted => f_started c | FClosed => f_closed c end.
Definition set_flag (f : flag) (v : bool) (c : cfg) : cfg :=
  match f with
  | FStarted => mkCfg v (f_closed c) (lk_held c)
  | FClosed => mkCfg (f_started c) v (lk_held c)
  end.
Definition set_held (c : cfg) (v : bool) : cfg := mkCfg (f_started c) (f_closed c) v.

Inductive res := RNorm | RRet | RExc | RBad.

(** [ok = false]: this await raised *)
Inductive ev :=
| EAcq (ok : bool) | ERel
| ETrig (t : trig) (ok : bool)
| EPubClose (ok : bool)
| EWaitRun (ok : bool)
| EHook (async : bool) (name : string) (ok : bool)
| EAwait (ok : bool)
| ECont (m : string) (ok : bool)     (* Continuous.<m>: its own work (publications of the `enabled` item) *)
| EYield (ok : bool)                 (* the user's code inside `async with run_session()` *)
| ESet (f : flag) (v : bool)
| EGuard (g : guard) (v : bool)
| EEnter (o : obj) (m : string)
| EWaitFor                           (* entering `asyncio.wait_for(..., timeout)`: from here a raise may be the timeout *)
| EStuck.                            (* lock taken twice / unknown method / call depth exhausted *)

Notation out := (res * cfg * list ev)%type.

Definition may_raise (e : bool -> ev) (c : cfg) : tree out :=
  Node (Leaf (RNorm, c, [e true])) (Leaf (RExc, c, [e false])).

Definition tag (e : ev) (t : tree out) : tree out :=
  bind t (fun x => let '(r, c, tr) := x in Leaf (r, c, e :: tr)).

Definition then_ (t : tree out) (k : cfg -> tree out) : tree out :=
  bind t (fun x => let '(r, c1, tr) := x in
    match r with
    | RNorm => bind (k c1) (fun y => let '(r2, c2, tr2) := y in Leaf (r2, c2, tr ++ tr2))
    | _ => Leaf x
    end).

Definition ret_to_norm (r : res) : res := match r with RRet => RNorm | x => x end.

Definition lookup (o : obj) (m : string) : option stmt :=
  match o with
  | OImp => assoc m imp_methods
  | ONextline => assoc m nextline_methods
  | OContinuous => None
  end.

Definition stuck (c : cfg) : tree out := Leaf (RBad, c, [EStuck]).

Fixpoint sem (fuel : nat) : stmt -> cfg -> tree out :=
  fix go (s : stmt) (c : cfg) : tree out :=
    match s with
    | Skip => Leaf (RNorm, c, [])
    | Seq a b => then_ (go a c) (go b)
    | WithLock b =>
      if lk_held c then stuck c
      else Node (bind (go b (set_held c true))
                      (fun x => let '(r, c1, tr) := x in Leaf (r, set_held c1 false, EAcq true :: tr ++ [ERel])))
                (Leaf (RExc, c, [EAcq false]))
    | If g a b =>
      match g with
      | GFlag f => if get_flag f c then tag (EGuard g true) (go a c) else tag (EGuard g false) (go b c)
      | _ => Node (tag (EGuard g false) (go b c)) (tag (EGuard g true) (go a c))
      end
    | Return => Leaf (RRet, c, [])
    | Raise => Leaf (RExc, c, [])
    | SetFlag f v => Leaf (RNorm, set_flag f v c, [ESet f v])
    | Trigger t => may_raise (ETrig t) c
    | PubSubClose => may_raise EPubClose c
    | WaitRunFinish => may_raise EWaitRun c
    | Hook a n => may_raise (EHook a n) c
    | AwaitOther _ => may_raise EAwait c
    | Yield => may_raise EYield c
    | TryFinally a b =>
      bind (go a c) (fun x => let '(r, c1, tr) := x in
        bind (go b c1) (fun y => let '(r2, c2, tr2) := y in
          Leaf (match r2 with RNorm => r | _ => r2 end, c2, tr ++ tr2)))
    | TryExcept a h =>
      bind (go a c) (fun x => let '(r, c1, tr) := x in
        match r with
        | RExc => bind (go h c1) (fun y => let '(r2, c2, tr2) := y in Leaf (r2, c2, tr ++ tr2))
        | _ => Leaf x
        end)
    | WaitFor b => tag EWaitFor (go b c)
    | ImpSyntax.Call ob m =>
      match fuel with
      | O => stuck c
      | S f =>
        match ob with
        | OContinuous =>
          match assoc m continuous_calls with
          | None => stuck c
          | Some ns =>
            then_ (may_raise (ECont m) c)
              ((fix calls (ns : list string) (c : cfg) : tree out :=
                  match ns with
                  | [] => Leaf (RNorm, c, [])
                  | n :: r => then_ (sem f (ImpSyntax.Call ONextline n) c) (calls r)
                  end) ns)
          end
        | _ =>
          match lookup ob m with
          | None => stuck c
          | Some body =>
            bind (sem f body c) (fun x => let '(r, c1, tr) := x in Leaf (ret_to_norm r, c1, EEnter ob m :: tr))
          end
        end
      end
    | WithCall ob m b =>
      match fuel with
      | O => stuck c
      | S f =>
        match lookup ob m with
        | None => stuck c
        | Some g =>
          bind (sem f (subst_yield g b) c)
               (fun x => let '(r, c1, tr) := x in Leaf (ret_to_norm r, c1, EEnter ob m :: tr))
        end
      end
    end.

Definition FUEL : nat := 10.

(** a call of method [m] of [ob] on an object whose flags are [st], [cl]; the lock is not held
    by the calling task *)
Definition run (ob : obj) (m : string) (st cl : bool) : tree out :=
  sem FUEL (ImpSyntax.Call ob m) (mkCfg st cl false).

(** THE INTERPRETER: the execution selected by the oracle [o] *)
Definition exec (ob : obj) (m : string) (st cl : bool) (o : list bool) : out := follow (run ob m st cl) o.

Definition res_of (x : out) : res := fst (fst x).
Definition cfg_of (x : out) : cfg := snd (fst x).
Definition trace_of (x : out) : list ev := snd x.

Definition methods (ob : obj) : list (string * stmt) :=
  match ob with OImp => imp_methods | ONextline => nextline_methods | OContinuous => [] end.
Definition names (ob : obj) : list string := map fst (methods ob).

(** ---- from "all leaves" to "all oracles" ---- *)
Definition bools : list bool := [false; true].

Definition all_exec (P : out -> bool) (ob : obj) (m : string) : bool :=
  forallb (fun st => forallb (fun cl => forallb P (leaves (run ob m st cl))) bools) bools.

Lemma in_bools b : In b bools.
Proof. destruct b; simpl; auto. Qed.

Lemma all_exec_sound P ob m : all_exec P ob m = true -> forall st cl o, P (exec ob m st cl o) = true.
Proof.
  unfold all_exec. intros H st cl o.
  rewrite forallb_forall in H. specialize (H st (in_bools st)).
  rewrite forallb_forall in H. specialize (H cl (in_bools cl)).
  rewrite forallb_forall in H. apply H. apply follow_in_leaves.
Qed.

Lemma all_names_sound P ob :
  forallb (all_exec P ob) (names ob) = true ->
  forall m, In m (names ob) -> forall st cl o, P (exec ob m st cl o) = true.
Proof.
  intros H m Hin. rewrite forallb_forall in H. apply all_exec_sound. apply H. exact Hin.
Qed.

(** ---- 1. lock discipline ---- *)
Definition is_bad (r : res) : bool := match r with RBad => true | _ => false end.

(** walks a trace with the lock status: acquisitions only when free, releases only when held,
    triggers and pubsub closes only when held, user code only when free, no wait_for timeout armed
    while it is held, free at the end.  (That the lock is released when the body raises is the
    meaning given to `async with` in [sem], i.e. Python's; what is PROVED is that nothing is done
    outside it and that it is never nested.) *)
Fixpoint lock_ok (held : bool) (t : list ev) : bool :=
  match t with
  | [] => negb held
  | EAcq true :: r => negb held && lock_ok true r
  | EAcq false :: r => negb held && lock_ok held r
  | ERel :: r => held && lock_ok false r
  | ETrig _ _ :: r => held && lock_ok held r
  | EPubClose _ :: r => held && lock_ok held r
  | EYield _ :: r => negb held && lock_ok held r
  | EWaitFor :: r => negb held && lock_ok held r
  | EStuck :: _ => false
  | _ :: r => lock_ok held r
  end.

Definition disciplined (x : out) : bool :=
  negb (is_bad (res_of x)) && lock_ok false (trace_of x) && negb (lk_held (cfg_of x)).

Lemma discipline_check_imp : forallb (all_exec disciplined OImp) (names OImp) = true.
Proof. vm_compute. reflexivity. Qed.
Lemma discipline_check_nextline : forallb (all_exec disciplined ONextline) (names ONextline) = true.
Proof. vm_compute. reflexivity. Qed.

Theorem lock_discipline : forall ob m, In m (names ob) -> forall st cl o,
  let x := exec ob m st cl o in
  res_of x <> RBad /\ lock_ok false (trace_of x) = true /\ lk_held (cfg_of x) = false.
Proof.
  intros ob m Hin st cl o x.
  assert (H : disciplined x = true).
  { destruct ob; [ exact (all_names_sound _ OImp discipline_check_imp m Hin st cl o)
                 | exact (all_names_sound _ ONextline discipline_check_nextline m Hin st cl o) | destruct Hin ]. }
  unfold disciplined in H. rewrite !andb_true_iff, !negb_true_iff in H. destruct H as ((Hb & Hl) & Hh).
  repeat split; auto. intros E. rewrite E in Hb. discriminate.
Qed.

(** the wait for the end of the run: under the lock in close(), outside it in run_session() /
    run_continue_and_wait() -- the model's pcs C_WaitRunFinished / P_WaitRunFinished *)
Fixpoint waits_held (expect held : bool) (t : list ev) : bool :=
  match t with
  | [] => true
  | EAcq true :: r => waits_held expect true r
  | ERel :: r => waits_held expect false r
  | EWaitRun _ :: r => Bool.eqb held expect && waits_held expect held r
  | _ :: r => waits_held expect held r
  end.

Definition close_names : list string := ["close"; "__aexit__"]%string.
Definition session_names : list string := ["run_session"; "run_continue_and_wait"]%string.

Theorem wait_for_run_lock_status :
  (forall m, In m close_names -> forall st cl o, waits_held true false (trace_of (exec ONextline m st cl o)) = true) /\
  (forall st cl o, waits_held true false (trace_of (exec OImp "aclose" st cl o)) = true) /\
  (forall m, In m session_names -> forall st cl o, waits_held false false (trace_of (exec ONextline m st cl o)) = true) /\
  locked_pc C_WaitRunFinished = true /\ locked_pc P_WaitRunFinished = false.
Proof.
  assert (A : forallb (all_exec (fun x => waits_held true false (trace_of x)) ONextline) close_names = true)
    by (vm_compute; reflexivity).
  assert (B : all_exec (fun x => waits_held true false (trace_of x)) OImp "aclose" = true) by (vm_compute; reflexivity).
  assert (C : forallb (all_exec (fun x => waits_held false false (trace_of x)) ONextline) session_names = true)
    by (vm_compute; reflexivity).
  rewrite forallb_forall in A, C.
  repeat split.
  - intros m Hm. apply (all_exec_sound (fun x => waits_held true false (trace_of x))). apply A. exact Hm.
  - apply (all_exec_sound (fun x => waits_held true false (trace_of x))). exact B.
  - intros m Hm. apply (all_exec_sound (fun x => waits_held false false (trace_of x))). apply C. exact Hm.
Qed.

(** ---- 2. which API calls take the lock: code = model ---- *)

(** the methods of Nextline that are the API call [c] of the model *)
Definition nl_methods_of (c : call) : list string :=
  match c with
  | CStart => ["start"; "__aenter__"]
  | CRun => ["run"]
  | CReset _ => ["reset"]
  | CClose => ["close"; "__aexit__"]
  | CRunCont => ["run_and_continue"]
  | CRunContWait => ["run_continue_and_wait"]
  | CRunSession => ["run_session"]
  | CSignal => ["interrupt"; "terminate"; "kill"]
  | CSend => ["send_pdb_command"]
  end%string.

(** model: the lock is held by another task; the call goes through [acquire] iff it queues *)
Definition busy (st cl : bool) : state :=
  set_holder (set_nl_closed (set_nl_started (init_state 0 1 false false) st) cl) (Some 0).

Definition model_acquires (st cl : bool) (c : call) : bool :=
  match lockq (do_call (busy st cl) 1 c) with [] => false | _ :: _ => true end.

Definition is_acq (e : ev) : bool := match e with EAcq _ => true | _ => false end.
Definition raised (e : ev) : bool :=
  match e with
  | EAcq ok | ETrig _ ok | EPubClose ok | EWaitRun ok | EHook _ _ ok | EAwait ok | ECont _ ok | EYield ok => negb ok
  | _ => false
  end.

(** code: the execution in which nothing raises asks for the lock / some execution does *)
Definition code_acquires (st cl : bool) (m : string) : bool :=
  existsb is_acq (trace_of (exec ONextline m st cl [])).
Definition code_may_acquire (st cl : bool) (m : string) : bool :=
  existsb (fun x => existsb is_acq (trace_of x)) (leaves (run ONextline m st cl)).

Theorem lock_set_agrees : forall c m st cl, In m (nl_methods_of c) ->
  code_acquires st cl m = model_acquires st cl c /\ code_may_acquire st cl m = model_acquires st cl c.
Proof.
  intros c m st cl Hin.
  destruct c; simpl in Hin;
    repeat (destruct Hin as [<- | Hin]; [ destruct st, cl; vm_compute; split; reflexivity | ]); destruct Hin.
Qed.

(** ... and which trigger each call fires first.  Model: the pc the call is at after [do_call]
    in a state that accepts it tells the transition it is in. *)
Definition pc_trig (p : pc) : option trig :=
  match p with
  | S_G1 | S_G2 | S_G3 => Some TAopen
  | R_WaitStarted | R_G => Some TRun
  | Z_G1 | Z_G1b | Z_WaitRunTask | Z_G3 | Z_G4 => Some TReset
  | C_WaitRunFinished | C_WaitRunTask | C_G3 | C_G4 => Some TAclose
  | _ => None
  end.

Definition st_created : state := init_state 0 1 false false.
Definition st_initialized : state :=
  run_labels st_created [Call 0 CStart; Step 0; Step 0; Step 0].

Definition model_first_trigger (s : state) (c : call) : option trig :=
  match find_task (tasks (do_call s 1 c)) 1 with
  | Some (_, p) => pc_trig p
  | None => None
  end.

Fixpoint first_trig (t : list ev) : option trig :=
  match t with
  | [] => None
  | ETrig x _ :: _ => Some x
  | _ :: r => first_trig r
  end.

Definition code_first_trigger (st cl : bool) (m : string) : option trig :=
  first_trig (trace_of (exec ONextline m st cl [])).

Theorem call_trigger_agrees : forall c m, In m (nl_methods_of c) ->
  code_first_trigger true false m = model_first_trigger st_initialized c /\
  (c = CStart \/ c = CClose -> code_first_trigger false false m = model_first_trigger st_created c).
Proof.
  intros c m Hin.
  destruct c as [ | | [[x|] [a|] [b|] [d|]] | | | | | | ]; simpl in Hin;
    repeat (destruct Hin as [<- | Hin];
            [ split; [ vm_compute; reflexivity | intros [E|E]; try discriminate E; vm_compute; reflexivity ] | ]);
    destruct Hin.
Qed.

(** every other method of Nextline is no lifecycle request: in no execution does it ask for the
    lock, trigger, close the broker, wait for the run, call into Continuous or set a flag *)
Definition api_names : list string :=
  ["start"; "__aenter__"; "run"; "reset"; "close"; "__aexit__"; "run_and_continue";
   "run_continue_and_wait"; "run_session"; "interrupt"; "terminate"; "kill"; "send_pdb_command"]%string.

Definition inert_ev (e : ev) : bool :=
  match e with
  | EAcq _ | ERel | ETrig _ _ | EPubClose _ | EWaitRun _ | ECont _ _ | ESet _ _ | EYield _ | EAwait _ | EStuck
  | EHook true _ _ => false
  | _ => true
  end.

Definition mem (m : string) (l : list string) : bool := existsb (String.eqb m) l.

Lemma api_names_cover : forall c m, In m (nl_methods_of c) -> mem m api_names = true.
Proof.
  intros c m Hin. destruct c; simpl in Hin;
    repeat (destruct Hin as [<- | Hin]; [ vm_compute; reflexivity | ]); destruct Hin.
Qed.

Theorem other_methods_inert : forall m, In m (names ONextline) -> mem m api_names = false ->
  forall st cl o, forallb inert_ev (trace_of (exec ONextline m st cl o)) = true.
Proof.
  assert (H : forallb (fun m => mem m api_names || all_exec (fun x => forallb inert_ev (trace_of x)) ONextline m)
                      (names ONextline) = true) by (vm_compute; reflexivity).
  intros m Hin Hm. rewrite forallb_forall in H. specialize (H m Hin). rewrite Hm in H. simpl in H.
  apply (all_exec_sound (fun x => forallb inert_ev (trace_of x))). exact H.
Qed.

(** ---- 3. the order of actions of close(): code = model ---- *)
Inductive act := AContStart | ATrigOpen | APubSubClose | AWaitRun | ATrigClose | AContClose.

(** model side: what a step appends to the trace (chronological), plus arriving at the wait.
    (In the histories below no continuous request is registered, so the only publication of
    `enabled = False` is the one of Continuous.start().) *)
Definition act_of_event (e : event) : list act :=
  match e with
  | EvPub (PCont false) => [AContStart]
  | EvPub PEndAll => [APubSubClose]
  | EvPub PEndCont => [AContClose]
  | EvHook h => match h_hook h with HStart => [ATrigOpen] | HClose => [ATrigClose] | _ => [] end
  | _ => []
  end.

Definition pc_of (s : state) (t : nat) : option pc := option_map snd (find_task (tasks s) t).

Definition wait_act (t : nat) (s s' : state) : list act :=
  match pc_of s' t, pc_of s t with
  | Some C_WaitRunFinished, Some C_WaitRunFinished => []
  | Some C_WaitRunFinished, _ => [AWaitRun]
  | _, _ => []
  end.

Fixpoint model_acts (t : nat) (s : state) (ls : list label) : list act :=
  match ls with
  | [] => []
  | l :: r =>
    let s' := step s l in
    flat_map act_of_event (appended s s') ++ wait_act t s s' ++ model_acts t s' r
  end.

(** the lock is held by task [t] in every intermediate state of its call *)
Fixpoint model_holds (t : nat) (s : state) (ls : list label) : bool :=
  match ls with
  | [] => true
  | l :: r =>
    let s' := step s l in
    match find_task (tasks s') t with
    | Some (_, p) => match holder s' with Some h => Nat.eqb h t | None => false end && locked_pc p
    | None => true
    end && model_holds t s' r
  end.

Definition returned_ok (t : nat) (s : state) : bool :=
  match trace s with EvRet t' CClose ROk :: _ => Nat.eqb t t' | _ => false end.

(** code side *)
Definition act_of_ev (e : ev) : list act :=
  match e with
  | ECont m _ => if String.eqb m "start" then [AContStart] else if String.eqb m "close" then [AContClose] else []
  | ETrig TAopen _ => [ATrigOpen]
  | ETrig TAclose _ => [ATrigClose]
  | EPubClose _ => [APubSubClose]
  | EWaitRun _ => [AWaitRun]
  | _ => []
  end.

Definition is_running_guard (b : bool) (e : ev) : bool :=
  match e with EGuard (GStateIs s) v => String.eqb s "running" && Bool.eqb v b | _ => false end.

(** the executions in which nothing raises and the machine's state is / is not 'running' *)
Definition happy (ob : obj) (m : string) (st cl running : bool) : list (list act) :=
  map (fun x => flat_map act_of_ev (trace_of x))
      (filter (fun x => negb (existsb raised (trace_of x)) &&
                        negb (existsb (is_running_guard (negb running)) (trace_of x)))
              (leaves (run ob m st cl))).

(** ECont events (Continuous.start / close) happen outside the lock *)
Fixpoint cont_unlocked (held : bool) (t : list ev) : bool :=
  match t with
  | [] => true
  | EAcq true :: r => cont_unlocked true r
  | ERel :: r => cont_unlocked false r
  | ECont _ _ :: r => negb held && cont_unlocked held r
  | _ :: r => cont_unlocked held r
  end.

Definition started_ls : list label := [Call 1 CStart; Step 1; Step 1; Step 1].
Definition running_ls : list label :=
  started_ls ++ [Call 1 CRun; StepRun; StepRun; StepRun; Step 1; Step 1].

(** close() in state 'initialized' *)
Definition close_ls_idle : list label := [Call 2 CClose; Step 2; Step 2].
(** close() while the run is in progress: it waits; the child exits; the run finishes; it goes on *)
Definition close_ls_running : list label :=
  [Call 2 CClose; ChildExit OReturn; StepRun; StepRun; StepRun; StepRun; Step 2; Step 2; Step 2].
(** close() on an object that was never started *)
Definition close_ls_fresh : list label := [Call 2 CClose; Step 2; Step 2; Step 2; Step 2; Step 2].

Definition s_started : state := run_labels st_created started_ls.
Definition s_running : state := run_labels st_created running_ls.
Definition s_closed : state := run_labels s_started close_ls_idle.

Theorem close_order_agrees :
  (* state 'initialized' (or 'finished'): no wait *)
  happy ONextline "close" true false false = [model_acts 2 s_started close_ls_idle] /\
  (* state 'running': the wait comes between the first pubsub.close() and the trigger *)
  happy ONextline "close" true false true = [model_acts 2 s_running close_ls_running] /\
  (* never started: Continuous.start, the `initialize` transition, then the close part *)
  happy ONextline "close" false false false = [model_acts 2 st_created close_ls_fresh] /\
  (* second close: nothing *)
  happy ONextline "close" true true false = [model_acts 2 s_closed [Call 3 CClose]] /\
  (* Imp.aclose alone is the close part without Continuous.close() *)
  map (fun a => a ++ [AContClose]) (happy OImp "aclose" true false false) = [model_acts 2 s_started close_ls_idle] /\
  map (fun a => a ++ [AContClose]) (happy OImp "aclose" true false true) = [model_acts 2 s_running close_ls_running] /\
  (* the model's paths are complete close() calls during which the caller holds the lock at every gate *)
  model_holds 2 s_started close_ls_idle = true /\ returned_ok 2 (run_labels s_started close_ls_idle) = true /\
  model_holds 2 s_running close_ls_running = true /\ returned_ok 2 (run_labels s_running close_ls_running) = true /\
  model_holds 2 st_created close_ls_fresh = true /\ returned_ok 2 (run_labels st_created close_ls_fresh) = true /\
  st_fsm s_running = Running /\ st_fsm s_started = Initialized /\
  (* spelled out (a pin of the order, for the reader; the content is the equalities above) *)
  model_acts 2 s_running close_ls_running = [APubSubClose; AWaitRun; ATrigClose; APubSubClose; AContClose] /\
  model_acts 2 st_created close_ls_fresh = [AContStart; ATrigOpen; APubSubClose; ATrigClose; APubSubClose; AContClose].
Proof. vm_compute. repeat split; reflexivity. Qed.

(** in every execution (not only the happy ones) the actions of close() are a prefix of such a
    path, cut where something raised; Continuous.start / close run outside the lock *)
Fixpoint is_prefix (a b : list act) : bool :=
  match a, b with
  | [], _ => true
  | x :: a', y :: b' =>
    match x, y with
    | AContStart, AContStart | ATrigOpen, ATrigOpen | APubSubClose, APubSubClose | AWaitRun, AWaitRun
    | ATrigClose, ATrigClose | AContClose, AContClose => is_prefix a' b'
    | _, _ => false
    end
  | _ :: _, [] => false
  end.

Definition close_paths (st cl : bool) : list (list act) :=
  happy ONextline "close" st cl false ++ happy ONextline "close" st cl true.

Definition close_shape (st cl : bool) (x : out) : bool :=
  existsb (is_prefix (flat_map act_of_ev (trace_of x))) (close_paths st cl) && cont_unlocked false (trace_of x).

Theorem close_every_execution_is_a_cut_path : forall m, In m close_names -> forall st cl o,
  close_shape st cl (exec ONextline m st cl o) = true.
Proof.
  assert (H : forallb (fun m => forallb (fun st => forallb (fun cl =>
                forallb (close_shape st cl) (leaves (run ONextline m st cl))) bools) bools) close_names = true)
    by (vm_compute; reflexivity).
  intros m Hm st cl o. rewrite forallb_forall in H. specialize (H m Hm).
  rewrite forallb_forall in H. specialize (H st (in_bools st)).
  rewrite forallb_forall in H. specialize (H cl (in_bools cl)).
  rewrite forallb_forall in H. apply H. apply follow_in_leaves.
Qed.

(** Imp.aopen: the synchronous `init` hook, then the trigger, both under the lock
    (a PIN of the shape of the regenerated term: equality with a trace written by hand) *)
Theorem aopen_shape :
  trace_of (exec OImp "aopen" false false []) =
    [EEnter OImp "aopen"; EAcq true; EHook false "init" true; ETrig TAopen true; ERel].
Proof. vm_compute. reflexivity. Qed.

(** ---- 4. the guards of Nextline.start() / close() ---- *)

(** a second close() / start() returns at the guard: nothing else happens, nothing changes *)
Lemma singleton_follow {A} (t : tree A) x : leaves t = [x] -> forall o, follow t o = x.
Proof.
  intros H o. pose proof (follow_in_leaves t o) as Hin. rewrite H in Hin. destruct Hin as [<- | []]. reflexivity.
Qed.

Theorem second_close_does_nothing : forall st o,
  exec ONextline "close" st true o =
    (RNorm, mkCfg st true false, [EEnter ONextline "close"; EGuard (GFlag FClosed) true]).
Proof. intros st o. unfold exec. apply singleton_follow. destruct st; vm_compute; reflexivity. Qed.

Theorem second_start_does_nothing : forall cl o,
  exec ONextline "start" true cl o =
    (RNorm, mkCfg true cl false, [EEnter ONextline "start"; EGuard (GFlag FStarted) true]).
Proof. intros cl o. unfold exec. apply singleton_follow. destruct cl; vm_compute; reflexivity. Qed.

(** close() on an object that was never started: whatever raises, the close part (pubsub.close,
    the `close` trigger) is reached only after the `initialize` transition completed, and both
    flags end up set *)
Fixpoint opened_first (opened : bool) (t : list ev) : bool :=
  match t with
  | [] => true
  | ETrig TAopen true :: r => opened_first true r
  | ETrig TAclose _ :: r => opened && opened_first opened r
  | EPubClose _ :: r => opened && opened_first opened r
  | _ :: r => opened_first opened r
  end.

Definition is_norm (r : res) : bool := match r with RNorm | RRet => true | _ => false end.

Definition close_fresh_ok (x : out) : bool :=
  opened_first false (trace_of x) && f_started (cfg_of x) && (negb (is_norm (res_of x)) || f_closed (cfg_of x)).

Theorem close_starts_first : forall m, In m close_names -> forall o,
  let x := exec ONextline m false false o in
  opened_first false (trace_of x) = true /\ f_started (cfg_of x) = true /\
  (is_norm (res_of x) = true -> f_closed (cfg_of x) = true).
Proof.
  assert (H : forallb (fun m => forallb close_fresh_ok (leaves (run ONextline m false false))) close_names = true)
    by (vm_compute; reflexivity).
  intros m Hm o x. rewrite forallb_forall in H. specialize (H m Hm). rewrite forallb_forall in H.
  specialize (H x (follow_in_leaves _ o)). unfold close_fresh_ok in H. rewrite !andb_true_iff in H.
  destruct H as ((H1 & H2) & H3). repeat split; auto. intros Hn. rewrite Hn in H3. exact H3.
Qed.

(** the flag test and the flag assignments are in ONE atomic segment, as in [Model.do_call]:
    no suspension point (await) comes before an assignment of True to `_started` / `_closed`
    (the only assignment of False is the one in the `except BaseException` handler of close()) *)
Definition suspends (e : ev) : bool :=
  match e with
  | EAcq _ | ETrig _ _ | EPubClose _ | EWaitRun _ | EHook true _ _ | EAwait _ | ECont _ _ | EYield _ => true
  | _ => false
  end.

Fixpoint sets_atomic (susp : bool) (t : list ev) : bool :=
  match t with
  | [] => true
  | ESet _ true :: r => negb susp && sets_atomic susp r
  | e :: r => sets_atomic (susp || suspends e) r
  end.

Theorem flags_set_atomically : forall m, In m (names ONextline) -> forall st cl o,
  sets_atomic false (trace_of (exec ONextline m st cl o)) = true.
Proof.
  assert (H : forallb (all_exec (fun x => sets_atomic false (trace_of x)) ONextline) (names ONextline) = true)
    by (vm_compute; reflexivity).
  exact (all_names_sound (fun x => sets_atomic false (trace_of x)) ONextline H).
Qed.

(** `_started` is set (to True) only by start(), `_closed` only by close(); the only assignment of
    False is `_closed = False` inside an `except BaseException` handler of close() *)
Fixpoint flag_sets (handler : bool) (s : stmt) : list (flag * bool * bool) :=
  match s with
  | SetFlag f v => [(f, v, handler)]
  | Seq a b | If _ a b | TryFinally a b => flag_sets handler a ++ flag_sets handler b
  | TryExcept a h => flag_sets handler a ++ flag_sets true h
  | WithLock a | WithCall _ _ a | WaitFor a => flag_sets handler a
  | _ => []
  end.

Definition flag_sets_ok (x : string * stmt) : bool :=
  forallb (fun fvh : flag * bool * bool => let '(f, v, h) := fvh in
             String.eqb (fst x) (match f with FStarted => "start" | FClosed => "close" end) &&
             (if v then negb h else h && flag_eqb f FClosed))
          (flag_sets false (snd x)).

(** no method of Nextline touches the machine, the lock, the broker's close, the callback or a
    hook itself: it can reach them only by calling a method of Imp *)
Fixpoint no_direct (s : stmt) : bool :=
  match s with
  | WithLock _ | Trigger _ | PubSubClose | WaitRunFinish | Hook _ _ => false
  | Seq a b | If _ a b | TryFinally a b | TryExcept a b => no_direct a && no_direct b
  | WithCall _ _ a | WaitFor a => no_direct a
  | _ => true
  end.

(** inside Imp, a trigger / pubsub.close() occurs only textually inside `async with self._lock` *)
Fixpoint locked_text (inside : bool) (s : stmt) : bool :=
  match s with
  | Trigger _ | PubSubClose => inside
  | WithLock a => locked_text true a
  | Seq a b | If _ a b | TryFinally a b | TryExcept a b => locked_text inside a && locked_text inside b
  | WithCall _ _ a | WaitFor a => locked_text inside a
  | _ => true
  end.

Theorem nextline_reaches_machine_only_through_imp :
  forallb (fun x => no_direct (snd x)) nextline_methods = true /\
  forallb flag_sets_ok nextline_methods = true /\
  forallb (fun x => locked_text false (snd x)) imp_methods = true /\
  imp_locks = ["_lock"%string] /\
  (forall a b c d, nextline_init_flags =
     [(FStarted, nl_started (init_state a b c d)); (FClosed, nl_closed (init_state a b c d))]).
Proof. vm_compute. repeat split; reflexivity. Qed.

(** the signal / command calls: one hook call, no lock (Model: CSignal, CSend)
    (a PIN of the shape of the regenerated terms) *)
Theorem signal_calls_shape :
  map (fun m => trace_of (exec ONextline m true false []))
      ["interrupt"; "terminate"; "kill"; "send_pdb_command"]%string =
  [[EEnter ONextline "interrupt"; EEnter OImp "interrupt"; EHook true "interrupt" true];
   [EEnter ONextline "terminate"; EEnter OImp "terminate"; EHook true "terminate" true];
   [EEnter ONextline "kill"; EEnter OImp "kill"; EHook true "kill" true];
   [EEnter ONextline "send_pdb_command"; EEnter OImp "send_command"; EHook true "send_command" true]].
Proof. vm_compute. reflexivity. Qed.

(** ---- 4b. a close() that was cut, the timeout of `__aexit__` (fix 9ec32d9) ---- *)

(** For every execution of close() / __aexit__() on an object with `_closed` False:
    - nothing raised  <->  it returns normally, and then `_closed` is True;
    - something raised (a refused trigger, a raising hook, a cancellation, the timeout of
      `__aexit__`) <-> the exception propagates (it is not swallowed), and then `_closed` is False
      again: the next close() is not a no-op but does the work again ([exec .. false ..] is the
      full tree above);
    - in both cases the lock is free. *)
Definition close_outcome_ok (x : out) : bool :=
  if existsb raised (trace_of x)
  then (match res_of x with RExc => true | _ => false end) && negb (f_closed (cfg_of x))
  else is_norm (res_of x) && f_closed (cfg_of x).

Theorem cut_close_can_be_repeated : forall m, In m close_names -> forall st o,
  let x := exec ONextline m st false o in
  (existsb raised (trace_of x) = true -> res_of x = RExc /\ f_closed (cfg_of x) = false) /\
  (existsb raised (trace_of x) = false -> is_norm (res_of x) = true /\ f_closed (cfg_of x) = true) /\
  lk_held (cfg_of x) = false.
Proof.
  assert (H : forallb (fun m => forallb (fun st => forallb (fun x => close_outcome_ok x && negb (lk_held (cfg_of x)))
                (leaves (run ONextline m st false))) bools) close_names = true) by (vm_compute; reflexivity).
  intros m Hm st o x. rewrite forallb_forall in H. specialize (H m Hm).
  rewrite forallb_forall in H. specialize (H st (in_bools st)). rewrite forallb_forall in H.
  specialize (H x (follow_in_leaves _ o)). rewrite andb_true_iff, negb_true_iff in H. destruct H as (H & Hl).
  unfold close_outcome_ok in H. split; [ | split; [ | exact Hl ] ]; intros E; rewrite E in H;
    rewrite andb_true_iff in H; destruct H as (H1 & H2).
  - split; [ destruct (res_of x); try discriminate; reflexivity | rewrite negb_true_iff in H2; exact H2 ].
  - split; assumption.
Qed.

(** `asyncio.wait_for` occurs in one place only: Nextline.__aexit__ = wait_for(self.close(), timeout),
    armed before anything else happens and outside the lock; no other method of Imp or Nextline
    runs anything under a timeout (Life/Model.v has no timeouts: a close() waits for the run for
    as long as it takes) *)
Definition is_waitfor (e : ev) : bool := match e with EWaitFor => true | _ => false end.
Definition waitfor_ok (m : string) (x : out) : bool :=
  if String.eqb m "__aexit__"
  then match trace_of x with
       | EEnter ONextline _ :: EWaitFor :: EEnter ONextline c :: r => String.eqb c "close" && negb (existsb is_waitfor r)
       | _ => false
       end
  else negb (existsb is_waitfor (trace_of x)).

Theorem timeout_only_around_close_in_aexit :
  (forall m, In m (names ONextline) -> forall st cl o, waitfor_ok m (exec ONextline m st cl o) = true) /\
  (forall m, In m (names OImp) -> forall st cl o, existsb is_waitfor (trace_of (exec OImp m st cl o)) = false) /\
  assoc "__aexit__"%string nextline_methods = Some (WaitFor (ImpSyntax.Call ONextline "close")).
Proof.
  assert (A : forallb (fun m => all_exec (waitfor_ok m) ONextline m) (names ONextline) = true) by (vm_compute; reflexivity).
  assert (B : forallb (all_exec (fun x => negb (existsb is_waitfor (trace_of x))) OImp) (names OImp) = true)
    by (vm_compute; reflexivity).
  repeat split.
  - intros m Hm. rewrite forallb_forall in A. apply all_exec_sound. apply A. exact Hm.
  - intros m Hm st cl o. apply negb_true_iff.
    exact (all_names_sound (fun x => negb (existsb is_waitfor (trace_of x))) OImp B m Hm st cl o).
Qed.

(** THE TIMEOUT FIRES while close() waits for the run (the script is busy / stopped at a prompt for
    longer than `timeout_on_exit`): the wait is cancelled, the lock is released, the `close`
    transition is never triggered, the TimeoutError leaves `__aexit__` (intended API:
    tests/main/test_nextline.py::test_timeout; for C03 it stays the recorded finding "close() with
    a run that does not end"), `_closed` is False again -- and a close() issued afterwards takes
    the whole path again ([close_order_agrees]: state 'running' or, once the run has ended, not). *)
Theorem aexit_timeout_while_waiting_for_the_run :
  let x := exec ONextline "__aexit__" true false [false; false; true; true] in
  res_of x = RExc /\ f_closed (cfg_of x) = false /\ lk_held (cfg_of x) = false /\
  trace_of x = [EEnter ONextline "__aexit__"; EWaitFor; EEnter ONextline "close"; EGuard (GFlag FClosed) false;
                ESet FClosed true; EEnter ONextline "start"; EGuard (GFlag FStarted) true;
                EEnter OImp "aclose"; EAcq true; EPubClose true; EGuard (GStateIs "running") true;
                EWaitRun false; ERel; ESet FClosed false] /\
  happy ONextline "close" true (f_closed (cfg_of x)) true = [model_acts 2 s_running close_ls_running].
Proof. vm_compute. repeat split; reflexivity. Qed.

(** the `finally` of run_session is reached from every await of the protected body: whenever the
    body of `async with run_session()` was entered, the wait for the end of the run is reached,
    whether the body raised (cancellation included) or not *)
Fixpoint wait_after_yield (yielded : bool) (t : list ev) : bool :=
  match t with
  | [] => negb yielded
  | EYield _ :: r => wait_after_yield true r
  | EWaitRun _ :: r => wait_after_yield false r
  | _ :: r => wait_after_yield yielded r
  end.

Theorem run_session_finally_reached : forall m, In m session_names -> forall st cl o,
  wait_after_yield false (trace_of (exec ONextline m st cl o)) = true.
Proof.
  assert (H : forallb (all_exec (fun x => wait_after_yield false (trace_of x)) ONextline) session_names = true)
    by (vm_compute; reflexivity).
  intros m Hm. rewrite forallb_forall in H. apply (all_exec_sound (fun x => wait_after_yield false (trace_of x))).
  apply H. exact Hm.
Qed.

(** fsm/machine.py (a PIN of names): StateMachine.aopen / aclose are `await self.initialize()` /
    `await self.close()`, and each transitions-callback awaits the Callback method the model's
    comments name *)
Theorem machine_wrappers_pin :
  machine_wrappers = [("aclose", "close"); ("aopen", "initialize")]%string /\
  machine_callbacks =
    [("after_state_change", ["on_change_state"]); ("on_exit_created", ["start"]);
     ("on_enter_initialized", ["initialize_run"]); ("on_enter_running", ["start_run"]);
     ("on_close_while_running", ["wait_for_run_finish"]); ("on_enter_finished", ["finish"]);
     ("on_exit_finished", ["on_exit_finished"]); ("on_enter_closed", ["close"]); ("on_reset", ["reset"])]%string.
Proof. vm_compute. split; reflexivity. Qed.

(** ---- 5. per-call refinement: the interpreter's executions against Model.do_call / do_step ----

    Observations of ONE API call of ONE task (the alphabet both sides are projected to): *)
Inductive oev :=
| OFlag (f : flag)            (* `_started` / `_closed` goes False -> True *)
| OContStart | OContClose     (* Continuous.start() / close() *)
| OTrig (t : trig)            (* the transition is accepted and entered *)
| ORefused                    (* the trigger raises MachineError *)
| OPubClose                   (* pubsub.close() *)
| OWait (locked : bool)       (* starts to wait for the end of the run, holding the lock or not *)
| ORet (ok : bool).           (* the call returns / raises *)

Definition oev_eqb (a b : oev) : bool :=
  match a, b with
  | OFlag f, OFlag g => flag_eqb f g
  | OContStart, OContStart | OContClose, OContClose | ORefused, ORefused | OPubClose, OPubClose => true
  | OTrig x, OTrig y => trig_eqb x y
  | OWait x, OWait y | ORet x, ORet y => Bool.eqb x y
  | _, _ => false
  end.

(** -- model side: task [t] alone, every hook gate released at once, the child exits when the call
       waits for the run.  The events of a step are read off the model's own trace, flags, holder
       and the pc of the task before / after it. *)
Definition pc_in_trig (p : pc) : option trig :=
  match p with
  | S_G1 | S_G2 | S_G3 => Some TAopen
  | R_WaitStarted | R_G => Some TRun
  | Z_G1 | Z_G1b | Z_WaitRunTask | Z_G3 | Z_G4 => Some TReset
  | C_WaitRunTask | C_G3 | C_G4 => Some TAclose      (* C_WaitRunFinished: the wait BEFORE the trigger *)
  | _ => None
  end.

Definition opt_trig_eqb (a b : option trig) : bool :=
  match a, b with Some x, Some y => trig_eqb x y | None, None => true | _, _ => false end.

Definition wait_kind (p : option pc) : nat :=
  match p with Some C_WaitRunFinished => 1 | Some P_WaitRunFinished => 2 | _ => 0 end.

Definition holds (s : state) (t : nat) : bool :=
  match holder s with Some h => Nat.eqb h t | None => false end.

Definition oev_of_event (t : nat) (e : event) : list oev :=
  match e with
  | EvPub (PCont false) => [OContStart]
  | EvPub PEndAll => [OPubClose]
  | EvPub PEndCont => [OContClose]
  | EvRet t' _ r =>
    if Nat.eqb t t'
    then (match r with RMachineError => [ORefused] | _ => [] end) ++ [ORet (match r with ROk => true | _ => false end)]
    else []
  | _ => []
  end.

Definition step_oevs (t : nat) (s s' : state) : list oev :=
  (if negb (nl_closed s) && nl_closed s' then [OFlag FClosed] else []) ++
  (if negb (nl_started s) && nl_started s' then [OFlag FStarted] else []) ++
  flat_map (oev_of_event t) (appended s s') ++
  (if negb (wait_kind (pc_of s' t) =? 0) && negb (wait_kind (pc_of s' t) =? wait_kind (pc_of s t))
   then [OWait (holds s' t)] else []) ++
  match pc_of s' t with
  | Some p' =>
    match pc_in_trig p' with
    | Some tr => if opt_trig_eqb (match pc_of s t with Some p => pc_in_trig p | None => None end) (Some tr)
                 then [] else [OTrig tr]
    | None => []
    end
  | None => []
  end.

Definition env_round (s : state) (t : nat) : state :=
  let s1 := if negb (wait_kind (pc_of s t) =? 0) && (0 <? alive s) then do_child_exit s OReturn else s in
  Nat.iter 8 do_step_run s1.

(** events are paired with the lifecycle state at the beginning of the atomic segment they are in *)
Fixpoint drive (fuel t : nat) (s : state) : list (oev * fsm) * state :=
  match fuel with
  | O => ([], s)
  | S f =>
    match find_task (tasks s) t with
    | None => ([], s)
    | Some _ =>
      let s1 := env_round s t in
      let s2 := do_step s1 t in
      let r := drive f t s2 in
      (map (fun e => (e, st_fsm s1)) (step_oevs t s1 s2) ++ fst r, snd r)
    end
  end.

Definition model_call (s : state) (t : nat) (c : call) : list (oev * fsm) * state :=
  let s1 := do_call s t c in
  let r := drive 30 t s1 in
  (map (fun e => (e, st_fsm s)) (step_oevs t s s1) ++ fst r, snd r).

(** -- code side: projection of a trace of the interpreter *)
Inductive cev :=
| CObs (e : oev)
| CState (name : string) (v : bool)      (* the code asked `self._machine.state == name` and got v *)
| CEnv.                                  (* an await failed for a reason the model does not have *)

Fixpoint project (held : bool) (t : list ev) : list cev :=
  match t with
  | [] => []
  | EAcq true :: r => project true r
  | EAcq false :: _ => [CEnv]
  | ERel :: r => project false r
  | ESet f true :: r => CObs (OFlag f) :: project held r
  | ECont m true :: r =>
    (if String.eqb m "start" then [CObs OContStart] else if String.eqb m "close" then [CObs OContClose] else [])
    ++ project held r
  | ETrig tr true :: r => CObs (OTrig tr) :: project held r
  | ETrig _ false :: r => CObs ORefused :: project held r
  | EPubClose true :: r => CObs OPubClose :: project held r
  | EWaitRun true :: r => CObs (OWait held) :: project held r
  | EGuard (GStateIs x) v :: r => CState x v :: project held r
  | ECont _ false :: _ | EPubClose false :: _ | EWaitRun false :: _ | EHook _ _ false :: _
  | EAwait false :: _ | EYield false :: _ | EStuck :: _ => [CEnv]
  | _ :: r => project held r
  end.

Definition code_obs (x : out) : list cev :=
  project false (trace_of x) ++ [CObs (ORet (is_norm (res_of x)))].

Definition fsm_name (f : fsm) : string :=
  match f with
  | Created => "created" | Initialized => "initialized" | Running => "running"
  | Finished => "finished" | Closed => "closed"
  end.

Inductive verdict :=
| VEqual       (* the same observations, in the same order, to the end *)
| VDecision    (* equal up to a decision (trigger accepted / refused, state is / is not x) that the model,
                  in the state it is in at that moment, takes the other way: not an execution in THIS state *)
| VEnv         (* equal up to an await that fails for an outside reason: cancellation, raising hook, timeout *)
| VMismatch.   (* the code does something the model does not *)

Definition trig_outcome (e : oev) : option bool :=
  match e with OTrig _ => Some true | ORefused => Some false | _ => None end.

Fixpoint cmp (cur : fsm) (c : list cev) (m : list (oev * fsm)) : verdict :=
  match c with
  | [] => match m with [] => VEqual | _ :: _ => VMismatch end
  | CEnv :: _ => VEnv
  | CState x v :: r =>
    let st := match m with (_, b) :: _ => b | [] => cur end in
    if Bool.eqb v (String.eqb (fsm_name st) x) then cmp cur r m else VDecision
  | CObs e :: r =>
    match m with
    | [] => VMismatch
    | (e', b) :: m' =>
      if oev_eqb e e' then cmp b r m'
      else match trig_outcome e, trig_outcome e' with
           | Some x, Some y => if Bool.eqb x y then VMismatch else VDecision
           | _, _ => VMismatch
           end
    end
  end.

(** representative reachable states with the lock free: every lifecycle state, and for
    'finished' both "the run task is gone" and "the run task still sits in its on_finished hooks" *)
Definition finished_ls : list label := running_ls ++ [ChildExit OReturn; StepRun; StepRun; StepRun; StepRun].
Definition finishing_ls : list label := running_ls ++ [ChildExit OReturn; StepRun; StepRun].
Definition reset_ls : list label :=
  finished_ls ++ [Model.Call 1 (CReset (mkOpts (Some 5%Z) (Some 9%Z) None None)); Step 1; Step 1; Step 1; Step 1; Step 1].

Definition ref_states : list state :=
  [st_created; s_started; s_running; run_labels st_created finishing_ls; run_labels st_created finished_ls;
   run_labels st_created reset_ls; s_closed].

Definition ref_calls : list call :=
  [CStart; CRun; CRunSession; CReset (mkOpts None None None None);
   CReset (mkOpts (Some 3%Z) (Some 7%Z) (Some true) None); CClose].

Definition is_equal (v : verdict) : bool := match v with VEqual => true | _ => false end.
Definition is_mismatch (v : verdict) : bool := match v with VMismatch => true | _ => false end.

Definition verdict_of (s : state) (c : call) (x : out) : verdict :=
  cmp (st_fsm s) (code_obs x) (fst (model_call s 5 c)).

(** for an execution with equal observations also the flags agree at the end and the lock is free *)
Definition end_agrees (s : state) (c : call) (x : out) : bool :=
  let sf := snd (model_call s 5 c) in
  Bool.eqb (f_started (cfg_of x)) (nl_started sf) && Bool.eqb (f_closed (cfg_of x)) (nl_closed sf) &&
  negb (lk_held (cfg_of x)) && negb (holds sf 5) &&
  match find_task (tasks sf) 5 with None => true | Some _ => false end.

Definition refines (s : state) (c : call) (m : string) : bool :=
  let lv := leaves (run ONextline m (nl_started s) (nl_closed s)) in
  forallb (fun x => negb (is_mismatch (verdict_of s c x)) &&
                    (negb (is_equal (verdict_of s c x)) || end_agrees s c x)) lv &&
  existsb (fun x => is_equal (verdict_of s c x)) lv.

Lemma refinement_check :
  forallb (fun s => forallb (fun c => forallb (refines s c) (nl_methods_of c)) ref_calls) ref_states = true.
Proof. vm_compute. reflexivity. Qed.

(** the states are what they are said to be; the lock is free and task 5 is idle in each *)
Lemma ref_states_are :
  map st_fsm ref_states = [Created; Initialized; Running; Finished; Finished; Initialized; Closed] /\
  map runt ref_states = [None; None; Some RT_WaitChild; Some RT_G_fin; None; None; None] /\
  forallb (fun s => match holder s, find_task (tasks s) 5 with None, None => true | _, _ => false end) ref_states = true.
Proof. vm_compute. repeat split; reflexivity. Qed.

(** PER-CALL REFINEMENT.  In each of these states, for start / run / run_session / reset / close
    (and `async with`: __aenter__, __aexit__), EVERY execution of the regenerated code (every
    oracle) is one of: the model's own behaviour for that call ([VEqual]: same flags set, same
    Continuous calls, same trigger accepted or refused, same pubsub closes, same wait with the same
    lock status, same return/raise, in the same order; and the same flags and a free lock at the
    end); or it leaves the model's behaviour exactly at a decision the model takes the other way
    in that state; or at a failure of the environment.  It never does anything else, and the
    model's behaviour IS one of the executions.
    Scope: one call of one task from a state in which the lock is free, on the seven states
    above (by computation), hook gates released at once; queueing for a busy lock is
    [lock_set_agrees] + Life/LockInv.v; interleavings of several calls are the model's business. *)
Theorem call_refinement : forall s c m, In s ref_states -> In c ref_calls -> In m (nl_methods_of c) ->
  (forall o, let x := exec ONextline m (nl_started s) (nl_closed s) o in
     verdict_of s c x <> VMismatch /\ (verdict_of s c x = VEqual -> end_agrees s c x = true)) /\
  (exists o, verdict_of s c (exec ONextline m (nl_started s) (nl_closed s) o) = VEqual).
Proof.
  intros s c m Hs Hc Hm. pose proof refinement_check as H.
  rewrite forallb_forall in H. specialize (H s Hs). rewrite forallb_forall in H. specialize (H c Hc).
  rewrite forallb_forall in H. specialize (H m Hm). unfold refines in H. rewrite andb_true_iff in H.
  destruct H as (Hall & Hex). split.
  - intros o x. rewrite forallb_forall in Hall. specialize (Hall x (follow_in_leaves _ o)).
    rewrite andb_true_iff in Hall. destruct Hall as (H1 & H2). split.
    + intros E. rewrite E in H1. discriminate.
    + intros E. rewrite E in H2. exact H2.
  - rewrite existsb_exists in Hex. destruct Hex as (x & Hin & Hx).
    assert (Hf : forall (t : tree out) y, In y (leaves t) -> exists o, follow t o = y).
    { induction t as [a | n IHn y' IHy]; simpl; intros y Hy.
      - destruct Hy as [<- | []]. exists []. reflexivity.
      - apply in_app_or in Hy. destruct Hy as [Hy | Hy].
        + destruct (IHn _ Hy) as (o & Ho). exists (false :: o). exact Ho.
        + destruct (IHy _ Hy) as (o & Ho). exists (true :: o). exact Ho. }
    destruct (Hf _ _ Hin) as (o & Ho). exists o. unfold exec. rewrite Ho.
    destruct (verdict_of s c x); try discriminate. reflexivity.
Qed.

(** what the observations look like (non-vacuity): close() while the run is in progress *)
Example model_call_close_running :
  map fst (fst (model_call s_running 5 CClose)) =
  [OFlag FClosed; OPubClose; OWait true; OTrig TAclose; OPubClose; OContClose; ORet true] /\
  map fst (fst (model_call s_running 5 CRun)) = [ORefused; ORet false] /\
  map fst (fst (model_call st_created 5 CClose)) =
  [OFlag FClosed; OFlag FStarted; OContStart; OTrig TAopen; OPubClose; OTrig TAclose; OPubClose; OContClose; ORet true] /\
  map fst (fst (model_call s_started 5 CRunSession)) = [OTrig TRun; OWait false; ORet true].
Proof. vm_compute. repeat split; reflexivity. Qed.

(** ---- a look at the interpreter (non-vacuity) ---- *)
Example exec_close_fresh_happy :
  trace_of (exec ONextline "close" false false []) =
  [EEnter ONextline "close"; EGuard (GFlag FClosed) false; ESet FClosed true;
   EEnter ONextline "start"; EGuard (GFlag FStarted) false; ESet FStarted true; ECont "start" true;
   EEnter OImp "aopen"; EAcq true; EHook false "init" true; ETrig TAopen true; ERel;
   EEnter OImp "aclose"; EAcq true; EPubClose true; EGuard (GStateIs "running") false; ETrig TAclose true;
   EPubClose true; ERel; ECont "close" true].
Proof. vm_compute. reflexivity. Qed.

(** the `close` trigger raises: the lock is released, Continuous.close() is not reached, the handler
    of close() resets `_closed` *)
Example exec_close_trigger_raises :
  let x := exec ONextline "close" true false [false; false; false; true] in
  res_of x = RExc /\
  trace_of x = [EEnter ONextline "close"; EGuard (GFlag FClosed) false; ESet FClosed true;
                EEnter ONextline "start"; EGuard (GFlag FStarted) true;
                EEnter OImp "aclose"; EAcq true; EPubClose true; EGuard (GStateIs "running") false;
                ETrig TAclose false; ERel; ESet FClosed false].
Proof. vm_compute. split; reflexivity. Qed.

Example exec_run_session_body_raises :
  let x := exec ONextline "run_session" true false [false; false; true; false] in
  res_of x = RExc /\
  trace_of x = [EEnter ONextline "run_session"; EEnter OImp "run"; EAcq true; ETrig TRun true; ERel;
                EYield false; EEnter OImp "wait"; EWaitRun true].
Proof. vm_compute. split; reflexivity. Qed.

Example executions_counted :
  List.length (leaves (run ONextline "close" false false)) = 15 /\
  List.length (leaves (run ONextline "run_continue_and_wait" true false)) = 7.
Proof. vm_compute. split; reflexivity. Qed.
