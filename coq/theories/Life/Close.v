(** close(): safety (it returns ROk, leaves everything shut down, is idempotent)
    and progress (a measure, absence of deadlock, completion given the child's exit)
    on the lifecycle model.  Every statement is for every reachable state. *)
From NL Require Import Life.Model Life.LockInv Life.FsmInv Life.Hist.
From Coq Require Import Lia.

(** ---- fields that [release], [apply_rest], [cont_finished] do not touch ---- *)
Ltac rl_tac s := unfold release; destruct (lockq s) as [|?t ?q]; simpl; auto;
  match goal with |- context [find_task (tasks s) ?t] => destruct (find_task (tasks s) t) as [[? ?]|] end; reflexivity.
Lemma rl_trace s : trace (release s) = trace s. Proof. rl_tac s. Qed.
Lemma rl_nls s : nl_started (release s) = nl_started s. Proof. rl_tac s. Qed.
Lemma rl_nlc s : nl_closed (release s) = nl_closed s. Proof. rl_tac s. Qed.
Lemma rl_cc s : cont_closed (release s) = cont_closed s. Proof. rl_tac s. Qed.
Lemma rl_cp s : cont_plugins (release s) = cont_plugins s. Proof. rl_tac s. Qed.
Lemma rl_sev s : started_ev (release s) = started_ev s. Proof. rl_tac s. Qed.

Ltac ar_tac s o := unfold apply_rest; destruct (o_start o), (o_threads o), (o_modules o); reflexivity.
Lemma ar_trace s o : trace (apply_rest s o) = trace s. Proof. ar_tac s o. Qed.
Lemma ar_nls s o : nl_started (apply_rest s o) = nl_started s. Proof. ar_tac s o. Qed.
Lemma ar_nlc s o : nl_closed (apply_rest s o) = nl_closed s. Proof. ar_tac s o. Qed.
Lemma ar_cc s o : cont_closed (apply_rest s o) = cont_closed s. Proof. ar_tac s o. Qed.
Lemma ar_sev s o : started_ev (apply_rest s o) = started_ev s. Proof. ar_tac s o. Qed.

Definition only_cont (new : list event) : Prop := forall e, In e new -> exists b, e = EvPub (PCont b).

Lemma cf_trace n : forall s, exists new, trace (cont_finished s n) = new ++ trace s /\ only_cont new.
Proof.
  induction n as [|n IH]; intros s; simpl.
  - exists []. split; auto. intros e [].
  - destruct (filter _ (cont_plugins s)) as [|[t b] r].
    + exists []. split; auto. intros e [].
    + match goal with |- context [cont_finished ?x n] => destruct (IH x) as (new & E & H) end.
      simpl in E. eexists (new ++ [_]). split.
      * rewrite E. rewrite <- app_assoc. reflexivity.
      * intros e Hin. apply in_app_or in Hin. destruct Hin as [Hin|[<-|[]]]; eauto.
Qed.

Lemma cf_nls n : forall s, nl_started (cont_finished s n) = nl_started s.
Proof. induction n as [|n IH]; intros s; simpl; auto. destruct (filter _ (cont_plugins s)) as [|[t b] r]; auto. rewrite IH. reflexivity. Qed.
Lemma cf_nlc n : forall s, nl_closed (cont_finished s n) = nl_closed s.
Proof. induction n as [|n IH]; intros s; simpl; auto. destruct (filter _ (cont_plugins s)) as [|[t b] r]; auto. rewrite IH. reflexivity. Qed.
Lemma cf_cc n : forall s, cont_closed (cont_finished s n) = cont_closed s.
Proof. induction n as [|n IH]; intros s; simpl; auto. destruct (filter _ (cont_plugins s)) as [|[t b] r]; auto. rewrite IH. reflexivity. Qed.
Lemma cf_sev n : forall s, started_ev (cont_finished s n) = started_ev s.
Proof. induction n as [|n IH]; intros s; simpl; auto. destruct (filter _ (cont_plugins s)) as [|[t b] r]; auto. rewrite IH. reflexivity. Qed.
Lemma cf_holder n s : holder (cont_finished s n) = holder s. Proof. apply (slk_cont_finished n s). Qed.
Lemma cf_lockq n s : lockq (cont_finished s n) = lockq s. Proof. apply (slk_cont_finished n s). Qed.
Lemma cf_tasks n s : tasks (cont_finished s n) = tasks s. Proof. apply (slk_cont_finished n s). Qed.
Lemma cf_fsm n s : st_fsm (cont_finished s n) = st_fsm s. Proof. apply (scal_of_fields _ _ (scal_cont_finished n s)). Qed.
Lemma cf_runt n s : runt (cont_finished s n) = runt s. Proof. apply (scal_of_fields _ _ (scal_cont_finished n s)). Qed.
Lemma cf_rf n s : run_finished (cont_finished s n) = run_finished s. Proof. apply (scal_of_fields _ _ (scal_cont_finished n s)). Qed.
Lemma cf_alive n s : alive (cont_finished s n) = alive s. Proof. apply (scal_of_fields _ _ (scal_cont_finished n s)). Qed.
Lemma cf_pe n s : pending_exit (cont_finished s n) = pending_exit s. Proof. apply (scal_of_fields _ _ (scal_cont_finished n s)). Qed.

(** ---- per-task predicates ---- *)
Definition TQ (Q : call -> pc -> Prop) (ts : ttab) : Prop :=
  forall t c p, find_task ts t = Some (c, p) -> Q c p.

Lemma TQ_put (Q : call -> pc -> Prop) ts t c p : TQ Q ts -> Q c p -> TQ Q (put_task ts t (c, p)).
Proof.
  intros H Hq t' c' p' Hf. destruct (Nat.eq_dec t' t) as [->|Hn].
  - rewrite find_put_eq in Hf. inversion Hf; subst. exact Hq.
  - rewrite find_put_neq in Hf by assumption. eauto.
Qed.

Lemma TQ_remove (Q : call -> pc -> Prop) ts t : TQ Q ts -> TQ Q (remove_task ts t).
Proof.
  intros H t' c' p' Hf. destruct (Nat.eq_dec t' t) as [->|Hn].
  - rewrite find_remove_eq in Hf. discriminate.
  - rewrite find_remove_neq in Hf by assumption. eauto.
Qed.

Lemma TQ_rel (Q : call -> pc -> Prop) q ts : (forall c p, Q c p -> Q c (granted_pc p)) -> TQ Q ts -> TQ Q (rel_tasks q ts).
Proof.
  intros Hg H. unfold rel_tasks. destruct q as [|t1 q]; auto.
  destruct (find_task ts t1) as [[c p]|] eqn:E; auto. apply TQ_put; auto. apply Hg. eauto.
Qed.

Lemma TQ_mono (Q Q' : call -> pc -> Prop) ts : (forall c p, Q c p -> Q' c p) -> TQ Q ts -> TQ Q' ts.
Proof. intros Hm H t c p Hf. apply Hm. eauto. Qed.

Lemma TQ_ext (Q : call -> pc -> Prop) ts ts' : teq ts ts' -> TQ Q ts -> TQ Q ts'.
Proof. intros E H t c p Hf. rewrite <- E in Hf. eauto. Qed.

(** ---- the invariant used by the close theorems ---- *)
Definition in_close2 (p : pc) : bool :=
  match p with C_WaitRunFinished | C_WaitRunTask | C_G3 | C_G4 => true | _ => false end.

(** the run task has not passed the wait for the child *)
Definition rws_ok (r : option rpc) : bool :=
  match r with Some RT_New | Some RT_Created | Some RT_G_start | Some RT_WaitChild => true | _ => false end.

Definition late4 (x : rpc) : bool :=
  match x with RT_WaitChild | RT_G_end | RT_G_fin | RT_G_cs => true | _ => false end.

Definition QC (f : fsm) (r : option rpc) (nlc : bool) (tr : list event) (c : call) (p : pc) : Prop :=
  ((p = WaitLock1 \/ p = Granted1) -> c <> CStart /\ c <> CClose) /\
  (c = CClose -> nlc = true) /\
  (in_close2 p = true -> In (EvPub PEndAll) tr) /\
  (p = R_WaitStarted -> f = Running /\ rws_ok r = true).

Record CI (s : state) : Prop := mkCI {
  ci_fresh : nl_started s = false ->
             st_fsm s = Created /\ holder s = None /\ lockq s = [] /\ nl_closed s = false;
  ci_created : nl_started s = true -> st_fsm s = Created ->
               exists t c, holder s = Some t /\ find_task (tasks s) t = Some (c, S_G1);
  ci_closed : st_fsm s = Closed -> nl_closed s = true;
  ci_sev : forall x, runt s = Some x -> late4 x = true -> started_ev s = true;
  ci_tasks : TQ (QC (st_fsm s) (runt s) (nl_closed s) (trace s)) (tasks s)
}.

Lemma QC_change f r nlc tr f' r' nlc' tr' c p :
  QC f r nlc tr c p -> (nlc = true -> nlc' = true) -> incl tr tr' ->
  (p = R_WaitStarted -> f = Running -> rws_ok r = true -> f' = Running /\ rws_ok r' = true) ->
  QC f' r' nlc' tr' c p.
Proof.
  intros (H1 & H2 & H3 & H4) Hn Hi Hr. repeat split; auto.
  - apply H1; auto.
  - apply H1; auto.
  - apply Hr; auto; apply H4; auto.
  - apply Hr; auto; apply H4; auto.
Qed.

Lemma QC_granted f r nlc tr c p : QC f r nlc tr c p -> QC f r nlc tr c (granted_pc p).
Proof.
  intros (H1 & H2 & H3 & H4). unfold QC.
  destruct p; simpl; auto; (split; [|split; [|split]]); auto; try discriminate;
    try (intros [?|?]; discriminate); intros _; apply H1; auto.
Qed.

(** the head of the wait queue is not the holder *)
Lemma Lk_head_neq t q t1 q' ts : Lk (Some t) q ts -> q = t1 :: q' -> t1 <> t.
Proof.
  intros HL -> ->. destruct (lk_holder_has _ _ _ HL t eq_refl) as (c & p & Hf & Hl).
  destruct (lk_q_wait _ _ _ HL t (or_introl eq_refl)) as (c' & p' & Hf' & Hw).
  rewrite Hf in Hf'. inversion Hf'; subst. rewrite (waitlock_not_locked _ Hw) in Hl. discriminate.
Qed.

Lemma teq_remove_rel q ts t : (forall t1 q', q = t1 :: q' -> t1 <> t) ->
  teq (remove_task (rel_tasks q ts) t) (rel_tasks q (remove_task ts t)).
Proof.
  intros Hn. unfold rel_tasks. destruct q as [|t1 q']; [apply teq_refl|].
  specialize (Hn t1 q' eq_refl). rewrite find_remove_neq by assumption.
  destruct (find_task ts t1) as [[c p]|]; [|apply teq_refl].
  apply teq_remove_put_comm. congruence.
Qed.

Lemma TQ_release_remove (Q : call -> pc -> Prop) q ts t :
  Lk (Some t) q ts -> (forall c p, Q c p -> Q c (granted_pc p)) ->
  TQ Q (remove_task ts t) -> TQ Q (remove_task (rel_tasks q ts) t).
Proof.
  intros HL Hg H. eapply TQ_ext; [apply teq_sym, teq_remove_rel|].
  - intros t1 q' E. eapply Lk_head_neq; eauto.
  - apply TQ_rel; auto.
Qed.

(** entries of the tasks other than [t] come from the old table, possibly granted the lock *)
Definition others_from (ts ts' : ttab) (t : nat) : Prop :=
  forall t' c p, t' <> t -> find_task ts' t' = Some (c, p) ->
    exists p0, find_task ts t' = Some (c, p0) /\ (p = p0 \/ p = granted_pc p0).

Lemma of_refl ts t : others_from ts ts t.
Proof. intros t' c p _ Hf. exists p. auto. Qed.
Lemma of_put ts t x : others_from ts (put_task ts t x) t.
Proof. intros t' c p Hn Hf. rewrite find_put_neq in Hf by assumption. exists p. auto. Qed.
Lemma of_remove ts t : others_from ts (remove_task ts t) t.
Proof. intros t' c p Hn Hf. rewrite find_remove_neq in Hf by assumption. exists p. auto. Qed.
Lemma of_rel q ts t : others_from ts (rel_tasks q ts) t.
Proof.
  intros t' c p Hn Hf. unfold rel_tasks in Hf. destruct q as [|t1 q]; [exists p; auto|].
  destruct (find_task ts t1) as [[c1 p1]|] eqn:E; [|exists p; auto].
  destruct (Nat.eq_dec t' t1) as [->|Hn1].
  - rewrite find_put_eq in Hf. inversion Hf; subst. exists p1. auto.
  - rewrite find_put_neq in Hf by assumption. exists p. auto.
Qed.
Lemma granted_idem p : granted_pc (granted_pc p) = granted_pc p.
Proof. destruct p; reflexivity. Qed.
Lemma of_trans a b c t : others_from a b t -> others_from b c t -> others_from a c t.
Proof.
  intros H1 H2 t' c0 p Hn Hf. destruct (H2 _ _ _ Hn Hf) as (p1 & Hf1 & Hp1).
  destruct (H1 _ _ _ Hn Hf1) as (p0 & Hf0 & Hp0). exists p0. split; auto.
  destruct Hp1 as [->| ->]; destruct Hp0 as [->| ->]; auto. right. apply granted_idem.
Qed.
Lemma of_teq a b b' t : teq b b' -> others_from a b t -> others_from a b' t.
Proof. intros E H t' c p Hn Hf. rewrite <- E in Hf. eauto. Qed.

Lemma not_rws_nonholder s t' c p :
  LkS s -> holder s <> Some t' -> find_task (tasks s) t' = Some (c, p) -> p <> R_WaitStarted.
Proof.
  intros HL Hh Hf ->. apply Hh. eapply (lk_holder_of _ _ _ HL); eauto.
Qed.

Lemma CI_build s s' t :
  LkS s -> CI s ->
  (nl_started s' = false ->
     st_fsm s' = Created /\ holder s' = None /\ lockq s' = [] /\ nl_closed s' = false) ->
  (nl_started s' = true -> st_fsm s' = Created ->
     exists t0 c, holder s' = Some t0 /\ find_task (tasks s') t0 = Some (c, S_G1)) ->
  (st_fsm s' = Closed -> nl_closed s' = true) ->
  (forall x, runt s' = Some x -> late4 x = true -> started_ev s' = true) ->
  (nl_closed s = true -> nl_closed s' = true) -> incl (trace s) (trace s') ->
  others_from (tasks s) (tasks s') t ->
  ((st_fsm s' = st_fsm s /\ runt s' = runt s) \/ holder s = Some t \/ holder s = None) ->
  (forall c p, find_task (tasks s') t = Some (c, p) ->
     QC (st_fsm s') (runt s') (nl_closed s') (trace s') c p) ->
  CI s'.
Proof.
  intros HL HC H1 H2 H3 H4 Hn Hi Ho Hs Ht. constructor; auto.
  intros t' c p Hf. destruct (Nat.eq_dec t' t) as [->|Hne]; [eauto|].
  destruct (Ho _ _ _ Hne Hf) as (p0 & Hf0 & Hp).
  pose proof (ci_tasks _ HC _ _ _ Hf0) as Hq.
  assert (Hq' : QC (st_fsm s') (runt s') (nl_closed s') (trace s') c p0).
  { eapply QC_change; eauto. intros -> Hr Hw.
    destruct Hs as [(-> & ->) | [Hh | Hh]]; auto.
    - exfalso. eapply not_rws_nonholder; eauto. congruence.
    - exfalso. eapply not_rws_nonholder; eauto. congruence. }
  destruct Hp as [->| ->]; auto. apply QC_granted; auto.
Qed.

Ltac fsimpl :=
  simpl;
  rewrite ?rl_trace, ?rl_nls, ?rl_nlc, ?rl_cc, ?rl_cp, ?rl_sev, ?rl_fsm, ?rl_runt, ?rl_rf, ?rl_alive, ?rl_pe, ?rl_ra,
          ?release_holder, ?release_lockq, ?release_tasks,
          ?ar_trace, ?ar_nls, ?ar_nlc, ?ar_cc, ?ar_sev, ?ar_fsm, ?ar_runt, ?ar_rf, ?ar_alive, ?ar_pe, ?ar_ra,
          ?apply_rest_holder, ?apply_rest_lockq, ?apply_rest_tasks;
  simpl.

Lemma holder_started s t : CI s -> holder s = Some t -> nl_started s = true.
Proof.
  intros HC Hh. destruct (nl_started s) eqn:E; auto.
  destruct (ci_fresh _ HC E) as (_ & Hn & _). congruence.
Qed.

Lemma holder_not_created s t c p :
  CI s -> holder s = Some t -> find_task (tasks s) t = Some (c, p) -> p <> S_G1 -> st_fsm s <> Created.
Proof.
  intros HC Hh Hf Hp Hcr. destruct (ci_created _ HC (holder_started _ _ HC Hh) Hcr) as (t0 & c0 & Hh0 & Hf0).
  assert (t0 = t) by congruence. subst t0. rewrite Hf in Hf0. inversion Hf0. congruence.
Qed.

Lemma incl_cons_r {A} (l l' : list A) x : incl l l' -> incl l (x :: l').
Proof. intros H. apply incl_tl. exact H. Qed.

Ltac incl_tac := repeat (apply incl_cons_r); apply incl_refl.

Ltac qc_tac :=
  unfold QC; refine (conj _ (conj _ (conj _ _)));
  [ try (intros [?|?]; discriminate) | try (intros; discriminate); auto
  | simpl; try (intros; discriminate); auto | try (intros; discriminate) ].

Ltac put_entry := let c0 := fresh "c" in let p0 := fresh "p" in let E := fresh "E" in
  intros c0 p0; rewrite find_put_eq; intros E; inversion E; subst c0 p0; clear E.

Lemma CI_close_trigger s t p :
  LkS s -> CI s -> holder s = Some t -> find_task (tasks s) t = Some (CClose, p) ->
  st_fsm s <> Created -> st_fsm s <> Running -> In (EvPub PEndAll) (trace s) ->
  CI (close_trigger s t).
Proof.
  intros HL HC Hh Hf Hncr Hnr Hin.
  pose proof (holder_started _ _ HC Hh) as Hst.
  destruct (ci_tasks _ HC _ _ _ Hf) as (_ & Hnlc & _). specialize (Hnlc eq_refl).
  unfold close_trigger. destruct (st_fsm s) eqn:Efs; try congruence.
  - (* Initialized *)
    apply (CI_build s _ t); auto; fsimpl; try congruence; try discriminate; try incl_tac.
    + apply (ci_sev _ HC).
    + apply of_put.
    + put_entry. qc_tac.
  - (* Finished *)
    destruct (runt s) eqn:Er.
    + apply (CI_build s _ t); auto; fsimpl; try congruence; try discriminate; try incl_tac.
      * apply (ci_sev _ HC).
      * apply of_put.
      * put_entry. qc_tac.
    + apply (CI_build s _ t); auto; fsimpl; try congruence; try discriminate; try incl_tac.
      * apply of_put.
      * put_entry. qc_tac.
  - (* Closed *)
    apply (CI_build s _ t); auto; fsimpl; try congruence; try discriminate; try incl_tac.
    + apply (ci_sev _ HC).
    + eapply of_trans; [apply of_rel | apply of_remove].
    + intros c0 p0. rewrite find_remove_eq. discriminate.
Qed.

Ltac ci_side := try (intros; congruence); try (intros; discriminate); try incl_tac.

Lemma CI_trace_ext s e : CI s -> CI (set_trace s (e :: trace s)).
Proof.
  intros [H1 H2 H3 H4 H5]. constructor; auto. simpl.
  eapply TQ_mono; [|exact H5]. intros c p Hq. eapply QC_change; eauto. incl_tac.
Qed.

Lemma CI_enter_close s t p :
  LkS s -> FI s -> CI s -> holder s = Some t -> find_task (tasks s) t = Some (CClose, p) ->
  st_fsm s <> Created -> CI (enter_close s t).
Proof.
  intros HL HF HC Hh Hf Hncr. unfold enter_close.
  assert (HC1 : CI (publish s PEndAll)) by (apply CI_trace_ext; auto).
  assert (HL1 : LkS (publish s PEndAll)) by exact HL.
  pose proof (holder_started _ _ HC Hh) as Hst.
  destruct (ci_tasks _ HC _ _ _ Hf) as (_ & Hnlc & _). specialize (Hnlc eq_refl).
  destruct (st_fsm (publish s PEndAll)) eqn:Efs; simpl in Efs;
    try (eapply CI_close_trigger; eauto; simpl; try congruence; auto; fail).
  destruct HF as [_ HS]. destruct (Scal_running_not_none _ _ _ _ _ _ HS Efs) as (x & Hr & He & Hrf).
  simpl. rewrite Hrf.
  apply (CI_build s _ t); auto; fsimpl; ci_side.
  - apply (ci_sev _ HC).
  - apply of_put.
  - put_entry. qc_tac.
Qed.

Lemma CI_refuse s t c :
  LkS s -> CI s -> holder s = Some t -> st_fsm s <> Created -> CI (refuse s t c).
Proof.
  intros HL HC Hh Hncr. pose proof (holder_started _ _ HC Hh) as Hst.
  unfold refuse.
  destruct (is_cont c); [destruct (cont_closed (release s))|];
    (apply (CI_build s _ t); auto; fsimpl; ci_side;
     [ apply (ci_closed _ HC) | apply (ci_sev _ HC)
     | eapply of_trans; [apply of_rel | apply of_remove]
     | intros c0 p0; rewrite find_remove_eq; discriminate ]).
Qed.

Lemma CI_enter_run s t c :
  LkS s -> CI s -> holder s = Some t -> st_fsm s <> Created -> runlike c = true ->
  CI (enter_run s t c).
Proof.
  intros HL HC Hh Hncr Hrl. pose proof (holder_started _ _ HC Hh) as Hst.
  unfold enter_run. destruct (st_fsm s) eqn:Efs; try (apply CI_refuse; auto; congruence).
  apply (CI_build s _ t); auto; fsimpl; ci_side.
  - intros x E. inversion E; subst. discriminate.
  - apply of_put.
  - put_entry. qc_tac.
    + intros ->. discriminate.
    + intros _. auto.
Qed.

Lemma CI_enter_reset s t o :
  LkS s -> CI s -> holder s = Some t -> st_fsm s <> Created -> CI (enter_reset s t o).
Proof.
  intros HL HC Hh Hncr. pose proof (holder_started _ _ HC Hh) as Hst.
  unfold enter_reset.
  destruct (st_fsm s) eqn:Efs; try (apply CI_refuse; auto; congruence);
    (destruct (o_stmt o);
     (apply (CI_build s _ t); auto; fsimpl; ci_side;
      [ apply (ci_sev _ HC) | apply of_put | put_entry; qc_tac ])).
Qed.

Lemma CI_enter s t c part2 p :
  LkS s -> FI s -> CI s -> holder s = Some t -> find_task (tasks s) t = Some (c, p) ->
  st_fsm s <> Created -> c <> CStart -> (c = CClose -> part2 = true) ->
  CI (enter s t c part2).
Proof.
  intros HL HF HC Hh Hf Hncr Hns Hcl. unfold enter. destruct c; auto; try congruence.
  - apply CI_enter_run; auto.
  - apply CI_enter_reset; auto.
  - rewrite (Hcl eq_refl). eapply CI_enter_close; eauto.
  - apply CI_enter_run; auto.
  - apply CI_enter_run; auto.
  - apply CI_enter_run; auto.
Qed.

Definition gpc (part2 : bool) : pc := if part2 then Granted2 else Granted1.
Definition wpc (part2 : bool) : pc := if part2 then WaitLock2 else WaitLock1.

Lemma CI_acquire s t c part2 :
  LkS s -> FI s -> CI s -> nl_started s = true -> find_task (tasks s) t = None ->
  compat c (gpc part2) = true -> c <> CStart -> (c = CClose -> part2 = true /\ nl_closed s = true) ->
  CI (acquire s t c part2).
Proof.
  intros HL HF HC Hst Hfree Hcomp Hns Hcl. unfold acquire.
  destruct (holder s) as [h|] eqn:Eh.
  - (* busy *)
    apply (CI_build s _ t); auto; fsimpl; ci_side.
    + intros _ Hcr. destruct (ci_created _ HC Hst Hcr) as (t0 & c0 & Hh0 & Hf0).
      exists t0, c0. split; [congruence|]. rewrite find_put_neq; auto. intros ->. congruence.
    + apply (ci_closed _ HC).
    + apply (ci_sev _ HC).
    + apply of_put.
    + put_entry. destruct part2; qc_tac.
      * intros E. apply Hcl; auto.
      * intros _. split; auto. intros E. destruct (Hcl E). discriminate.
      * intros E. apply Hcl; auto.
  - destruct (lockq s) as [|t1 q] eqn:Eq.
    2:{ exfalso. apply (lk_q_holder _ _ _ HL); [rewrite Eq; discriminate | exact Eh]. }
    assert (Hncr : st_fsm s <> Created).
    { intros Hcr. destruct (ci_created _ HC Hst Hcr) as (t0 & c0 & Hh0 & _). congruence. }
    set (s2 := set_pc (set_holder s (Some t)) t c (if part2 then Granted2 else Granted1)).
    assert (HL2 : LkS s2).
    { unfold LkS, s2. simpl. rewrite Eq. unfold LkS in HL. rewrite Eh, Eq in HL.
      apply Lk_take; auto. destruct part2; reflexivity. }
    assert (HF2 : FI s2).
    { destruct HF as [HP HS]. split; auto. unfold s2. simpl. apply PcOk_put; auto. destruct part2; reflexivity. }
    assert (HC2 : CI s2).
    { apply (CI_build s _ t); auto; unfold s2; fsimpl; ci_side.
      - apply (ci_closed _ HC).
      - apply (ci_sev _ HC).
      - apply of_put.
      - put_entry. destruct part2; qc_tac.
        + intros E. apply Hcl; auto.
        + intros _. split; auto. intros E. destruct (Hcl E). discriminate.
        + intros E. apply Hcl; auto. }
    eapply (CI_enter s2); eauto.
    + unfold s2. simpl. apply find_put_eq.
    + intros E. apply Hcl; auto.
Qed.

Lemma CI_fields s s' :
  nl_started s' = nl_started s -> nl_closed s' = nl_closed s -> st_fsm s' = st_fsm s ->
  holder s' = holder s -> lockq s' = lockq s -> tasks s' = tasks s -> runt s' = runt s ->
  started_ev s' = started_ev s -> trace s' = trace s -> CI s -> CI s'.
Proof.
  intros E1 E2 E3 E4 E5 E6 E7 E8 E9 [H1 H2 H3 H4 H5].
  constructor; rewrite ?E1, ?E2, ?E3, ?E4, ?E5, ?E6, ?E7, ?E8, ?E9; auto.
Qed.

Lemma created_keep s ts' t :
  CI s -> nl_started s = true -> st_fsm s = Created ->
  holder s <> Some t -> (forall t', t' <> t -> find_task ts' t' = find_task (tasks s) t') ->
  exists t0 c, holder s = Some t0 /\ find_task ts' t0 = Some (c, S_G1).
Proof.
  intros HC Hst Hcr Hnh Hsame. destruct (ci_created _ HC Hst Hcr) as (t0 & c0 & Hh0 & Hf0).
  exists t0, c0. split; auto. rewrite Hsame; auto. intros ->. congruence.
Qed.

Lemma free_not_holder s t : LkS s -> find_task (tasks s) t = None -> holder s <> Some t.
Proof.
  intros HL Hf Hh. destruct (lk_holder_has _ _ _ HL t Hh) as (c & p & Hf' & _). congruence.
Qed.

(** a task outside the lock appears, moves or leaves; nothing else changes *)
Lemma CI_free_step s s' t :
  LkS s -> CI s -> holder s <> Some t ->
  nl_started s' = nl_started s -> nl_closed s' = nl_closed s -> st_fsm s' = st_fsm s ->
  holder s' = holder s -> lockq s' = lockq s -> runt s' = runt s -> started_ev s' = started_ev s ->
  incl (trace s) (trace s') ->
  (forall t', t' <> t -> find_task (tasks s') t' = find_task (tasks s) t') ->
  (forall c p, find_task (tasks s') t = Some (c, p) ->
     QC (st_fsm s') (runt s') (nl_closed s') (trace s') c p) ->
  CI s'.
Proof.
  intros HL HC Hnh E1 E2 E3 E4 E5 E7 E8 Hi Hsame Hent.
  apply (CI_build s _ t); auto; rewrite ?E1, ?E2, ?E3, ?E4, ?E5, ?E7, ?E8; auto.
  - apply (ci_fresh _ HC).
  - intros Hst Hcr. eapply created_keep; eauto.
  - apply (ci_closed _ HC).
  - apply (ci_sev _ HC).
  - intros t' c p Hn Hf. rewrite Hsame in Hf by assumption. exists p. auto.
Qed.

Ltac free_tac HL HC Hnh :=
  eapply CI_free_step; [exact HL | exact HC | exact Hnh | | | | | | | | | |]; fsimpl; try reflexivity; ci_side;
  [ intros t' Hn; rewrite ?find_remove_neq, ?find_put_neq by assumption; reflexivity
  | first [ intros c0 p0; rewrite find_remove_eq; discriminate | put_entry; qc_tac ] ].

Lemma CI_do_call_started s t c :
  LkS s -> FI s -> CI s -> nl_started s = true -> find_task (tasks s) t = None -> CI (do_call s t c).
Proof.
  intros HL HF HC Hst Hfree. unfold do_call. rewrite Hfree.
  pose proof (free_not_holder _ _ HL Hfree) as Hnh.
  set (s0 := set_trace s (EvCall t c :: trace s)).
  assert (HC0 : CI s0) by (apply CI_trace_ext; auto).
  assert (HL0 : LkS s0) by exact HL.
  assert (HF0 : FI s0) by exact HF.
  destruct c; cbn [nl_started nl_closed cont_closed running_process send_command set_trace s0].
  - rewrite Hst. free_tac HL HC Hnh.
  - apply CI_acquire; auto; discriminate.
  - apply CI_acquire; auto; discriminate.
  - destruct (nl_closed s) eqn:Enc; [free_tac HL HC Hnh|]. simpl. rewrite Hst.
    apply CI_acquire; auto; try discriminate.
    constructor; simpl; try apply HC; auto; try congruence.
    eapply TQ_mono; [|apply (ci_tasks _ HC0)]. intros c p Hq. eapply QC_change; eauto. apply incl_refl.
  - destruct (cont_closed s); [free_tac HL HC Hnh|].
    apply CI_acquire; auto; try discriminate.
    eapply (CI_fields (publish s0 (PCont true))); auto. apply CI_trace_ext; auto.
  - destruct (cont_closed s); [free_tac HL HC Hnh|].
    apply CI_acquire; auto; try discriminate.
    eapply (CI_fields (publish s0 (PCont true))); auto. apply CI_trace_ext; auto.
  - apply CI_acquire; auto; discriminate.
  - destruct (running_process s); free_tac HL HC Hnh.
  - destruct (send_command s); free_tac HL HC Hnh.
Qed.

Lemma acquire_free s t c b : holder s = None -> lockq s = [] ->
  acquire s t c b = enter (set_pc (set_holder s (Some t)) t c (if b then Granted2 else Granted1)) t c b.
Proof. unfold acquire. intros -> ->. reflexivity. Qed.
Lemma acquire_busy s t c b h : holder s = Some h ->
  acquire s t c b = set_pc (set_lockq s (lockq s ++ [t])) t c (if b then WaitLock2 else WaitLock1).
Proof. unfold acquire. intros ->. reflexivity. Qed.
Lemma enter_start_created s t c : st_fsm s = Created ->
  enter_start s t c = set_pc (change_script (log_hook s HStart None None)) t c S_G1.
Proof. unfold enter_start. intros ->. reflexivity. Qed.
Lemma enter_run_created s t c : st_fsm s = Created -> enter_run s t c = refuse s t c.
Proof. unfold enter_run. intros ->. reflexivity. Qed.
Lemma enter_reset_created s t o : st_fsm s = Created -> enter_reset s t o = refuse s t (CReset o).
Proof. unfold enter_reset. intros ->. reflexivity. Qed.
Lemma release_empty s : lockq s = [] -> release s = set_holder s None.
Proof. unfold release. intros ->. reflexivity. Qed.

Lemma CI_fresh_start s s0 t c :
  LkS s -> CI s -> nl_started s = false -> (c = CClose -> nl_closed s0 = true) ->
  st_fsm s0 = st_fsm s -> holder s0 = holder s -> lockq s0 = lockq s -> tasks s0 = tasks s ->
  runt s0 = runt s -> started_ev s0 = started_ev s -> nl_started s0 = true ->
  incl (trace s) (trace s0) ->
  CI (acquire s0 t c false) \/ (c <> CStart /\ c <> CClose).
Proof.
  intros HL HC Hst Hcl E1 E2 E3 E4 E5 E6 E7 Hi.
  destruct (ci_fresh _ HC Hst) as (Hcr & Hh & Hq & Hnc).
  destruct (match c with CStart | CClose => true | _ => false end) eqn:Ec;
    [left | right; destruct c; split; discriminate].
  rewrite acquire_free by congruence.
  assert (Een : enter (set_pc (set_holder s0 (Some t)) t c Granted1) t c false =
                enter_start (set_pc (set_holder s0 (Some t)) t c Granted1) t c)
    by (destruct c; try discriminate; reflexivity).
  rewrite Een, enter_start_created by (simpl; congruence).
  apply (CI_build s _ t); auto; simpl; rewrite ?E1, ?E2, ?E3, ?E4, ?E5, ?E6, ?E7; ci_side.
  - intros _ _. exists t, c. split; auto. apply find_put_eq.
  - apply (ci_sev _ HC).
  - repeat apply incl_cons_r. exact Hi.
  - eapply of_trans; apply of_put.
  - put_entry. qc_tac.
Qed.

Lemma CI_fresh_refuse s s0 t c :
  LkS s -> CI s -> nl_started s = false -> runlike c = true \/ (exists o, c = CReset o) ->
  st_fsm s0 = st_fsm s -> holder s0 = holder s -> lockq s0 = lockq s -> tasks s0 = tasks s ->
  runt s0 = runt s -> started_ev s0 = started_ev s -> nl_started s0 = false -> nl_closed s0 = nl_closed s ->
  incl (trace s) (trace s0) ->
  CI (acquire s0 t c false).
Proof.
  intros HL HC Hst Hk E1 E2 E3 E4 E5 E6 E7 E8 Hi.
  destruct (ci_fresh _ HC Hst) as (Hcr & Hh & Hq & Hnc).
  rewrite acquire_free by congruence.
  set (s2 := set_pc (set_holder s0 (Some t)) t c Granted1).
  assert (Een : enter s2 t c false = refuse s2 t c).
  { destruct Hk as [Hk | (o & ->)].
    - transitivity (enter_run s2 t c); [destruct c; try discriminate; reflexivity|].
      apply enter_run_created. simpl. congruence.
    - apply enter_reset_created. simpl. congruence. }
  rewrite Een. unfold refuse. rewrite (release_empty s2) by (simpl; congruence).
  destruct (is_cont c); [destruct (cont_closed (set_holder s2 None))|];
  (apply (CI_build s _ t); auto; simpl; rewrite ?E1, ?E2, ?E3, ?E4, ?E5, ?E6, ?E7, ?E8; ci_side;
   first [ solve [intros _; repeat split; auto]
         | solve [apply (ci_sev _ HC)]
         | solve [repeat apply incl_cons_r; exact Hi]
         | solve [eapply of_trans; [apply of_put | apply of_remove]]
         | solve [intros c0 p0; rewrite find_remove_eq; discriminate] ]).
Qed.

Lemma CI_do_call_fresh s t c :
  LkS s -> FI s -> CI s -> nl_started s = false -> find_task (tasks s) t = None -> CI (do_call s t c).
Proof.
  intros HL HF HC Hst Hfree. unfold do_call. rewrite Hfree.
  pose proof (free_not_holder _ _ HL Hfree) as Hnh.
  destruct (ci_fresh _ HC Hst) as (Hcr & Hh & Hq & Hnc).
  destruct c; cbn [nl_started nl_closed cont_closed running_process send_command set_trace];
    rewrite ?Hst, ?Hnc; cbn [nl_started set_nl_closed set_trace]; rewrite ?Hst.
  - destruct (CI_fresh_start s (publish (set_nl_started (set_trace s (EvCall t CStart :: trace s)) true) (PCont false)) t CStart)
      as [H | (H & _)]; auto; try congruence. simpl. incl_tac.
  - apply (CI_fresh_refuse s); auto. simpl. incl_tac.
  - apply (CI_fresh_refuse s); eauto. simpl. incl_tac.
  - destruct (CI_fresh_start s (publish (set_nl_started (set_nl_closed (set_trace s (EvCall t CClose :: trace s)) true) true) (PCont false)) t CClose)
      as [H | (_ & H)]; auto; try congruence. simpl. incl_tac.
  - destruct (cont_closed s) eqn:Ecc; [free_tac HL HC Hnh | ].
    apply (CI_fresh_refuse s); auto. simpl. incl_tac.
  - destruct (cont_closed s) eqn:Ecc; [free_tac HL HC Hnh | ].
    apply (CI_fresh_refuse s); auto. simpl. incl_tac.
  - apply (CI_fresh_refuse s); auto. simpl. incl_tac.
  - destruct (running_process s); free_tac HL HC Hnh.
  - destruct (send_command s); free_tac HL HC Hnh.
Qed.

Lemma unlocked_not_holder s t c p :
  LkS s -> find_task (tasks s) t = Some (c, p) -> locked_pc p = false -> holder s <> Some t.
Proof.
  intros HL Hf Hl Hh. destruct (lk_holder_has _ _ _ HL t Hh) as (c' & p' & Hf' & Hl'). congruence.
Qed.

Ltac hstep s t HC :=
  apply (CI_build s _ t); auto; fsimpl; ci_side;
  first [ solve [apply (ci_closed _ HC)] | solve [apply (ci_sev _ HC)] | solve [apply of_put]
        | solve [eapply of_trans; [apply of_rel | apply of_remove]]
        | solve [eapply of_trans; [apply of_rel | apply of_put]]
        | solve [intros c0 p0; rewrite find_remove_eq; discriminate]
        | solve [put_entry; qc_tac] | idtac ].

Lemma CI_do_step s t : LkS s -> FI s -> CI s -> CI (do_step s t).
Proof.
  intros HL HF HC. unfold do_step. destruct (find_task (tasks s) t) as [[c p]|] eqn:Ef; auto.
  pose proof HF as [HP HS].
  pose proof (HP _ _ _ Ef) as Hok.
  pose proof (lk_compat _ _ _ HL _ _ _ Ef) as Hc.
  pose proof (ci_tasks _ HC _ _ _ Ef) as (Hq1 & Hq2 & Hq3 & Hq4).
  assert (Hhold : locked_pc p = true -> holder s = Some t /\ nl_started s = true /\ (p <> S_G1 -> st_fsm s <> Created)).
  { intros Hl. assert (Hh : holder s = Some t) by (eapply (lk_holder_of _ _ _ HL); eauto).
    repeat split; auto. eapply holder_started; eauto. intros Hp. eapply holder_not_created; eauto. }
  destruct p; simpl in Hhold; try (destruct (Hhold eq_refl) as (Hh & Hst & Hncr); clear Hhold); auto; simpl in Hok.
  - (* Granted1 *)
    destruct (Hq1 (or_intror eq_refl)) as (Hn1 & Hn2).
    eapply CI_enter; eauto; try (apply Hncr; discriminate); congruence.
  - (* Granted2 *)
    eapply CI_enter; eauto; try (apply Hncr; discriminate); destruct c; simpl in Hc; congruence.
  - (* S_G1 *) hstep s t HC.
  - (* S_G2 *) specialize (Hncr ltac:(discriminate)). hstep s t HC.
  - (* S_G3 *) specialize (Hncr ltac:(discriminate)).
    destruct c; simpl in Hc; try discriminate.
    + hstep s t HC.
    + (* close(): queue again for the close part *)
      pose proof HL as HL0. unfold LkS in HL0. rewrite Hh in HL0.
      pose proof (Lk_release_forget _ _ _ HL0) as HFg.
      destruct (lockq s) as [|t1 q] eqn:Eq.
      * rewrite acquire_free by (rewrite ?release_holder, ?release_lockq, Eq; reflexivity).
        set (s2 := set_pc (set_holder (release s) (Some t)) t CClose Granted2).
        assert (HL2 : LkS s2).
        { unfold LkS, s2. simpl. rewrite ?release_lockq, ?release_tasks, ?Eq. apply Lk_readd_take; auto. }
        assert (HF2 : FI s2).
        { split; unfold s2; simpl.
          - rewrite rl_fsm, release_tasks, Eq. apply PcOk_release_put; auto.
          - rewrite rl_fsm, rl_runt, rl_rf, rl_alive, rl_pe, rl_ra. exact HS. }
        assert (HC2 : CI s2).
        { unfold s2. hstep s t HC. }
        unfold enter. eapply (CI_enter_close s2); eauto.
        -- unfold s2. simpl. apply find_put_eq.
        -- unfold s2. simpl. rewrite rl_fsm. exact Hncr.
      * rewrite (acquire_busy _ _ _ _ t1) by (rewrite release_holder, Eq; reflexivity).
        hstep s t HC.
  - (* R_WaitStarted *) specialize (Hncr ltac:(discriminate)).
    destruct (started_ev s); auto. hstep s t HC.
  - (* R_G *) specialize (Hncr ltac:(discriminate)).
    destruct c; simpl in Hc; try discriminate; hstep s t HC.
  - (* Z_G1 *) specialize (Hncr ltac:(discriminate)).
    destruct c; simpl in Hc; try discriminate. hstep s t HC.
  - (* Z_G1b *) specialize (Hncr ltac:(discriminate)). unfold reset_reinit.
    destruct (st_fsm s) eqn:Efs; try discriminate.
    + hstep s t HC.
    + destruct (runt s) eqn:Er; hstep s t HC.
  - (* Z_WaitRunTask *) specialize (Hncr ltac:(discriminate)). unfold reset_reinit.
    destruct (runt s) eqn:Er; auto. hstep s t HC.
  - (* Z_G3 *) specialize (Hncr ltac:(discriminate)). hstep s t HC.
  - (* Z_G4 *) specialize (Hncr ltac:(discriminate)). hstep s t HC.
  - (* C_WaitRunFinished *) specialize (Hncr ltac:(discriminate)).
    destruct (run_finished s) as [[|]|] eqn:Erf; auto.
    destruct c; simpl in Hc; try discriminate.
    eapply CI_close_trigger; eauto.
    intros Hr. destruct (Scal_running_not_none _ _ _ _ _ _ HS Hr) as (x & _ & _ & E). congruence.
  - (* C_WaitRunTask *) specialize (Hncr ltac:(discriminate)).
    destruct (runt s) eqn:Er; auto. destruct c; simpl in Hc; try discriminate.
    unfold close_enter_closed. hstep s t HC.
  - (* C_G3 *) specialize (Hncr ltac:(discriminate)). hstep s t HC.
  - (* C_G4 *) specialize (Hncr ltac:(discriminate)). hstep s t HC.
  - (* P_WaitRunFinished *)
    destruct (run_finished s) as [[|]|]; auto.
    assert (Hnh : holder s <> Some t) by (eapply unlocked_not_holder; eauto).
    free_tac HL HC Hnh.
  - (* Sig_G *)
    assert (Hnh : holder s <> Some t) by (eapply unlocked_not_holder; eauto).
    free_tac HL HC Hnh.
Qed.

Lemma CI_notask_step s s' :
  LkS s -> CI s ->
  nl_started s' = nl_started s -> nl_closed s' = nl_closed s -> holder s' = holder s ->
  lockq s' = lockq s -> tasks s' = tasks s -> incl (trace s) (trace s') ->
  (nl_started s = false -> st_fsm s' = Created) ->
  (st_fsm s' = Created -> st_fsm s = Created) -> (st_fsm s' = Closed -> st_fsm s = Closed) ->
  (forall x, runt s' = Some x -> late4 x = true -> started_ev s' = true) ->
  (forall t c, find_task (tasks s) t = Some (c, R_WaitStarted) ->
     st_fsm s' = Running /\ rws_ok (runt s') = true) ->
  CI s'.
Proof.
  intros HL HC E1 E2 E3 E4 E5 Hi Hfr Hcr Hcl Hsev Hrws.
  constructor; rewrite ?E1, ?E2, ?E3, ?E4, ?E5; auto.
  - intros Hst. destruct (ci_fresh _ HC Hst) as (Hf & ? & ? & ?). repeat split; auto.
  - intros Hst Hc. apply (ci_created _ HC Hst). auto.
  - intros Hc. apply (ci_closed _ HC). auto.
  - intros t c p Hf. pose proof (ci_tasks _ HC _ _ _ Hf) as Hq.
    eapply QC_change; eauto. intros -> _ _. eauto.
Qed.

Lemma pending_of_rws s t c :
  LkS s -> find_task (tasks s) t = Some (c, R_WaitStarted) -> run_call_pending s = true.
Proof.
  intros HL Hf. assert (Hh : holder s = Some t) by (eapply (lk_holder_of _ _ _ HL); eauto).
  unfold run_call_pending. rewrite Hh, Hf. reflexivity.
Qed.

Lemma run_finish_running s :
  st_fsm s = Running ->
  run_finish s =
  set_runt (cont_finished (log_hook (set_st_fsm (set_run_arg (set_started_ev s true) None) Finished) HFinished None None)
                          (length (cont_plugins s))) (Some RT_G_fin).
Proof. unfold run_finish. simpl. intros ->. reflexivity. Qed.

Ltac rs_tac Hrws :=
  try solve [let x := fresh "x" in let E := fresh "E" in intros x E; inversion E; subst; discriminate];
  try solve [let t := fresh "t" in let c := fresh "c" in let Hf := fresh "Hf" in
             intros t c Hf; destruct (Hrws _ _ Hf); auto; discriminate].

Lemma CI_step_run s : LkS s -> FI s -> CI s -> CI (do_step_run s).
Proof.
  intros HL HF HC. pose proof HF as [HP HS]. unfold do_step_run.
  destruct (runt s) as [x|] eqn:Er; auto.
  assert (Hfsm : if early x then st_fsm s = Running else st_fsm s = Finished).
  { destruct (early x) eqn:Ee; [eapply sc_early | eapply sc_late]; eauto. }
  assert (Hst : nl_started s = true).
  { destruct (nl_started s) eqn:E; auto. destruct (ci_fresh _ HC E) as (Hcr & _).
    rewrite Hcr in Hfsm. destruct (early x); discriminate. }
  assert (Hra : early x = true -> run_arg s <> None).
  { intros He. apply (sc_ra _ _ _ _ _ _ HS). right. rewrite He in Hfsm. exact Hfsm. }
  assert (Hrws : forall t c, find_task (tasks s) t = Some (c, R_WaitStarted) ->
                             st_fsm s = Running /\ rws_ok (Some x) = true).
  { intros t c Hf. rewrite <- Er. apply (ci_tasks _ HC _ _ _ Hf). reflexivity. }
  pose proof (ci_sev _ HC x Er) as Hsev.
  destruct x; simpl in Hfsm.
  - (* RT_New *)
    destruct (run_arg s) eqn:Era; [|exfalso; apply Hra; auto].
    apply (CI_notask_step s); auto; fsimpl; ci_side; rs_tac Hrws.
  - (* RT_Created *)
    simpl. destruct (run_arg s) eqn:Era; [|exfalso; apply Hra; auto].
    apply (CI_notask_step s); auto; fsimpl; ci_side; rs_tac Hrws.
  - (* RT_G_start *)
    apply (CI_notask_step s); auto; fsimpl; ci_side; rs_tac Hrws.
  - (* RT_WaitChild *)
    destruct (run_call_pending s) eqn:Epend; auto. destruct (pending_exit s) as [o|] eqn:Epe; auto.
    simpl. destruct (run_arg s) eqn:Era; [|exfalso; apply Hra; auto].
    apply (CI_notask_step s); auto; fsimpl; ci_side.
    intros t c Hf. rewrite (pending_of_rws _ _ _ HL Hf) in Epend. discriminate.
  - (* RT_G_end *)
    rewrite run_finish_running by assumption.
    match goal with |- context [cont_finished ?y ?n] => destruct (cf_trace n y) as (new & Et & _) end.
    apply (CI_notask_step s); auto; simpl; rewrite ?cf_nls, ?cf_nlc, ?cf_holder, ?cf_lockq, ?cf_tasks, ?cf_fsm, ?cf_sev; simpl; ci_side;
      rs_tac Hrws.
    rewrite Et. simpl. apply incl_appr. incl_tac.
  - (* RT_G_fin *)
    apply (CI_notask_step s); auto; fsimpl; ci_side; rs_tac Hrws.
  - (* RT_G_cs *)
    apply (CI_notask_step s); auto; fsimpl; ci_side; rs_tac Hrws.
Qed.

Lemma CI_child_exit s o : LkS s -> CI s -> CI (do_child_exit s o).
Proof.
  intros HL HC. unfold do_child_exit. destruct (alive s); auto.
  apply (CI_fields s); auto.
Qed.

Theorem CI_step s l : LkS s -> FI s -> CI s -> CI (step s l).
Proof.
  intros HL HF HC. destruct l; simpl.
  - destruct (find_task (tasks s) t) eqn:Ef.
    + unfold do_call. rewrite Ef. exact HC.
    + destruct (nl_started s) eqn:Est; [apply CI_do_call_started | apply CI_do_call_fresh]; auto.
  - apply CI_do_step; auto.
  - apply CI_step_run; auto.
  - apply CI_child_exit; auto.
Qed.

Lemma CI_init a b c d : CI (init_state a b c d).
Proof.
  constructor; simpl; auto; try discriminate.
  intros t c0 p H. discriminate.
Qed.

Theorem all_inv a b c d ls :
  let s := run_labels (init_state a b c d) ls in LkS s /\ FI s /\ CI s.
Proof.
  unfold run_labels. generalize (LkS_init a b c d) (FI_init a b c d) (CI_init a b c d).
  generalize (init_state a b c d).
  induction ls as [|l ls IH]; intros s HL HF HC; simpl; auto.
  apply IH; [apply LkS_step | apply FI_step | apply CI_step]; auto.
Qed.
