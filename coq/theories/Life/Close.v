(** close(): safety (it returns ROk, leaves everything shut down, is idempotent)
    and progress (a measure, absence of deadlock, completion given the child's exit)
    on the lifecycle model.  Every statement is for every reachable state. *)
From NL Require Import Life.Model Life.LockInv Life.FsmInv Life.Hist.
From Coq Require Import Lia.

(** ---- fields that [release], [apply_rest], [cont_finished] do not touch ---- *)
Ltac rl_tac s := unfold release; destruct (lockq s) as [|?t ?q]; simpl; auto;
  match goal with |- context [find_task (tasks s) ?t] => destruct (find_task (tasks s) t) as [[? ?]|] end; reflexivity.
Lemma rl_trace s : trace (release s) = trace s. Proof. rl_tac s. Qed.
Lemma rl_nls s : nl_started (release s) = nl_started s. Proof. rl_tac s. Qed.
Lemma rl_nlc s : nl_closed (release s) = nl_closed s. Proof. rl_tac s. Qed.
Lemma rl_cc s : cont_closed (release s) = cont_closed s. Proof. rl_tac s. Qed.
Lemma rl_cp s : cont_plugins (release s) = cont_plugins s. Proof. rl_tac s. Qed.
Lemma rl_sev s : started_ev (release s) = started_ev s. Proof. rl_tac s. Qed.

Ltac ar_tac s o := unfold apply_rest; destruct (o_start o), (o_threads o), (o_modules o); reflexivity.
Lemma ar_trace s o : trace (apply_rest s o) = trace s. Proof. ar_tac s o. Qed.
Lemma ar_nls s o : nl_started (apply_rest s o) = nl_started s. Proof. ar_tac s o. Qed.
Lemma ar_nlc s o : nl_closed (apply_rest s o) = nl_closed s. Proof. ar_tac s o. Qed.
Lemma ar_cc s o : cont_closed (apply_rest s o) = cont_closed s. Proof. ar_tac s o. Qed.
Lemma ar_sev s o : started_ev (apply_rest s o) = started_ev s. Proof. ar_tac s o. Qed.

Definition only_cont (new : list event) : Prop := forall e, In e new -> exists b, e = EvPub (PCont b).

Lemma cf_trace n : forall s, exists new, trace (cont_finished s n) = new ++ trace s /\ only_cont new.
Proof.
  induction n as [|n IH]; intros s; simpl.
  - exists []. split; auto. intros e [].
  - destruct (filter _ (cont_plugins s)) as [|[t b] r].
    + exists []. split; auto. intros e [].
    + match goal with |- context [cont_finished ?x n] => destruct (IH x) as (new & E & H) end.
      simpl in E. eexists (new ++ [_]). split.
      * rewrite E. rewrite <- app_assoc. reflexivity.
      * intros e Hin. apply in_app_or in Hin. destruct Hin as [Hin|[<-|[]]]; eauto.
Qed.

Lemma cf_nls n : forall s, nl_started (cont_finished s n) = nl_started s.
Proof. induction n as [|n IH]; intros s; simpl; auto. destruct (filter _ (cont_plugins s)) as [|[t b] r]; auto. rewrite IH. reflexivity. Qed.
Lemma cf_nlc n : forall s, nl_closed (cont_finished s n) = nl_closed s.
Proof. induction n as [|n IH]; intros s; simpl; auto. destruct (filter _ (cont_plugins s)) as [|[t b] r]; auto. rewrite IH. reflexivity. Qed.
Lemma cf_cc n : forall s, cont_closed (cont_finished s n) = cont_closed s.
Proof. induction n as [|n IH]; intros s; simpl; auto. destruct (filter _ (cont_plugins s)) as [|[t b] r]; auto. rewrite IH. reflexivity. Qed.
Lemma cf_sev n : forall s, started_ev (cont_finished s n) = started_ev s.
Proof. induction n as [|n IH]; intros s; simpl; auto. destruct (filter _ (cont_plugins s)) as [|[t b] r]; auto. rewrite IH. reflexivity. Qed.
Lemma cf_holder n s : holder (cont_finished s n) = holder s. Proof. apply (slk_cont_finished n s). Qed.
Lemma cf_lockq n s : lockq (cont_finished s n) = lockq s. Proof. apply (slk_cont_finished n s). Qed.
Lemma cf_tasks n s : tasks (cont_finished s n) = tasks s. Proof. apply (slk_cont_finished n s). Qed.
Lemma cf_fsm n s : st_fsm (cont_finished s n) = st_fsm s. Proof. apply (scal_of_fields _ _ (scal_cont_finished n s)). Qed.
Lemma cf_runt n s : runt (cont_finished s n) = runt s. Proof. apply (scal_of_fields _ _ (scal_cont_finished n s)). Qed.
Lemma cf_rf n s : run_finished (cont_finished s n) = run_finished s. Proof. apply (scal_of_fields _ _ (scal_cont_finished n s)). Qed.
Lemma cf_alive n s : alive (cont_finished s n) = alive s. Proof. apply (scal_of_fields _ _ (scal_cont_finished n s)). Qed.
Lemma cf_pe n s : pending_exit (cont_finished s n) = pending_exit s. Proof. apply (scal_of_fields _ _ (scal_cont_finished n s)). Qed.

(** Continuous.close(): at most one `False` publication before the item is closed *)
Lemma close_cont_eq s :
  close_cont s = publish (set_cont_closed s true) PEndCont \/
  close_cont s = publish (set_cont_closed (publish s (PCont false)) true) PEndCont.
Proof.
  unfold close_cont, cont_off_events. destruct (cont_plugins s); [left | right]; destruct s; reflexivity.
Qed.

Ltac cc_cases s := let E := fresh "Ecc" in
  match goal with |- context [close_cont ?x] => destruct (close_cont_eq x) as [E|E]; rewrite E; clear E end.

(** ---- per-task predicates ---- *)
Definition TQ (Q : call -> pc -> Prop) (ts : ttab) : Prop :=
  forall t c p, find_task ts t = Some (c, p) -> Q c p.

Lemma TQ_put (Q : call -> pc -> Prop) ts t c p : TQ Q ts -> Q c p -> TQ Q (put_task ts t (c, p)).
Proof.
  intros H Hq t' c' p' Hf. destruct (Nat.eq_dec t' t) as [->|Hn].
  - rewrite find_put_eq in Hf. inversion Hf; subst. exact Hq.
  - rewrite find_put_neq in Hf by assumption. eauto.
Qed.

Lemma TQ_remove (Q : call -> pc -> Prop) ts t : TQ Q ts -> TQ Q (remove_task ts t).
Proof.
  intros H t' c' p' Hf. destruct (Nat.eq_dec t' t) as [->|Hn].
  - rewrite find_remove_eq in Hf. discriminate.
  - rewrite find_remove_neq in Hf by assumption. eauto.
Qed.

Lemma TQ_rel (Q : call -> pc -> Prop) q ts : (forall c p, Q c p -> Q c (granted_pc p)) -> TQ Q ts -> TQ Q (rel_tasks q ts).
Proof.
  intros Hg H. unfold rel_tasks. destruct q as [|t1 q]; auto.
  destruct (find_task ts t1) as [[c p]|] eqn:E; auto. apply TQ_put; auto. apply Hg. eauto.
Qed.

Lemma TQ_mono (Q Q' : call -> pc -> Prop) ts : (forall c p, Q c p -> Q' c p) -> TQ Q ts -> TQ Q' ts.
Proof. intros Hm H t c p Hf. apply Hm. eauto. Qed.

Lemma TQ_ext (Q : call -> pc -> Prop) ts ts' : teq ts ts' -> TQ Q ts -> TQ Q ts'.
Proof. intros E H t c p Hf. rewrite <- E in Hf. eauto. Qed.

(** ---- the invariant used by the close theorems ---- *)
Definition in_close2 (p : pc) : bool :=
  match p with C_WaitRunFinished | C_WaitRunTask | C_G3 | C_G4 => true | _ => false end.

(** the run task has not passed the wait for the child *)
Definition rws_ok (r : option rpc) : bool :=
  match r with Some RT_New | Some RT_Created | Some RT_G_start | Some RT_WaitChild => true | _ => false end.

Definition late4 (x : rpc) : bool :=
  match x with RT_WaitChild | RT_G_end | RT_G_fin | RT_G_cs => true | _ => false end.

Definition QC (f : fsm) (r : option rpc) (nlc : bool) (tr : list event) (c : call) (p : pc) : Prop :=
  ((p = WaitLock1 \/ p = Granted1) -> c <> CStart /\ c <> CClose) /\
  (c = CClose -> nlc = true) /\
  (in_close2 p = true -> In (EvPub PEndAll) tr) /\
  (p = R_WaitStarted -> f = Running /\ rws_ok r = true).

Record CI (s : state) : Prop := mkCI {
  ci_fresh : nl_started s = false ->
             st_fsm s = Created /\ holder s = None /\ lockq s = [] /\ nl_closed s = false;
  ci_created : nl_started s = true -> st_fsm s = Created ->
               exists t c, holder s = Some t /\ find_task (tasks s) t = Some (c, S_G1);
  ci_closed : st_fsm s = Closed -> nl_closed s = true;
  ci_sev : forall x, runt s = Some x -> late4 x = true -> started_ev s = true;
  ci_tasks : TQ (QC (st_fsm s) (runt s) (nl_closed s) (trace s)) (tasks s)
}.

Lemma QC_change f r nlc tr f' r' nlc' tr' c p :
  QC f r nlc tr c p -> (nlc = true -> nlc' = true) -> incl tr tr' ->
  (p = R_WaitStarted -> f = Running -> rws_ok r = true -> f' = Running /\ rws_ok r' = true) ->
  QC f' r' nlc' tr' c p.
Proof.
  intros (H1 & H2 & H3 & H4) Hn Hi Hr. repeat split; auto.
  - apply H1; auto.
  - apply H1; auto.
  - apply Hr; auto; apply H4; auto.
  - apply Hr; auto; apply H4; auto.
Qed.

Lemma QC_granted f r nlc tr c p : QC f r nlc tr c p -> QC f r nlc tr c (granted_pc p).
Proof.
  intros (H1 & H2 & H3 & H4). unfold QC.
  destruct p; simpl; auto; (split; [|split; [|split]]); auto; try discriminate;
    try (intros [?|?]; discriminate); intros _; apply H1; auto.
Qed.

(** the head of the wait queue is not the holder *)
Lemma Lk_head_neq t q t1 q' ts : Lk (Some t) q ts -> q = t1 :: q' -> t1 <> t.
Proof.
  intros HL -> ->. destruct (lk_holder_has _ _ _ HL t eq_refl) as (c & p & Hf & Hl).
  destruct (lk_q_wait _ _ _ HL t (or_introl eq_refl)) as (c' & p' & Hf' & Hw).
  rewrite Hf in Hf'. inversion Hf'; subst. rewrite (waitlock_not_locked _ Hw) in Hl. discriminate.
Qed.

Lemma teq_remove_rel q ts t : (forall t1 q', q = t1 :: q' -> t1 <> t) ->
  teq (remove_task (rel_tasks q ts) t) (rel_tasks q (remove_task ts t)).
Proof.
  intros Hn. unfold rel_tasks. destruct q as [|t1 q']; [apply teq_refl|].
  specialize (Hn t1 q' eq_refl). rewrite find_remove_neq by assumption.
  destruct (find_task ts t1) as [[c p]|]; [|apply teq_refl].
  apply teq_remove_put_comm. congruence.
Qed.

Lemma TQ_release_remove (Q : call -> pc -> Prop) q ts t :
  Lk (Some t) q ts -> (forall c p, Q c p -> Q c (granted_pc p)) ->
  TQ Q (remove_task ts t) -> TQ Q (remove_task (rel_tasks q ts) t).
Proof.
  intros HL Hg H. eapply TQ_ext; [apply teq_sym, teq_remove_rel|].
  - intros t1 q' E. eapply Lk_head_neq; eauto.
  - apply TQ_rel; auto.
Qed.

(** entries of the tasks other than [t] come from the old table, possibly granted the lock *)
Definition others_from (ts ts' : ttab) (t : nat) : Prop :=
  forall t' c p, t' <> t -> find_task ts' t' = Some (c, p) ->
    exists p0, find_task ts t' = Some (c, p0) /\ (p = p0 \/ p = granted_pc p0).

Lemma of_refl ts t : others_from ts ts t.
Proof. intros t' c p _ Hf. exists p. auto. Qed.
Lemma of_put ts t x : others_from ts (put_task ts t x) t.
Proof. intros t' c p Hn Hf. rewrite find_put_neq in Hf by assumption. exists p. auto. Qed.
Lemma of_remove ts t : others_from ts (remove_task ts t) t.
Proof. intros t' c p Hn Hf. rewrite find_remove_neq in Hf by assumption. exists p. auto. Qed.
Lemma of_rel q ts t : others_from ts (rel_tasks q ts) t.
Proof.
  intros t' c p Hn Hf. unfold rel_tasks in Hf. destruct q as [|t1 q]; [exists p; auto|].
  destruct (find_task ts t1) as [[c1 p1]|] eqn:E; [|exists p; auto].
  destruct (Nat.eq_dec t' t1) as [->|Hn1].
  - rewrite find_put_eq in Hf. inversion Hf; subst. exists p1. auto.
  - rewrite find_put_neq in Hf by assumption. exists p. auto.
Qed.
Lemma granted_idem p : granted_pc (granted_pc p) = granted_pc p.
Proof. destruct p; reflexivity. Qed.
Lemma of_trans a b c t : others_from a b t -> others_from b c t -> others_from a c t.
Proof.
  intros H1 H2 t' c0 p Hn Hf. destruct (H2 _ _ _ Hn Hf) as (p1 & Hf1 & Hp1).
  destruct (H1 _ _ _ Hn Hf1) as (p0 & Hf0 & Hp0). exists p0. split; auto.
  destruct Hp1 as [->| ->]; destruct Hp0 as [->| ->]; auto. right. apply granted_idem.
Qed.
Lemma of_teq a b b' t : teq b b' -> others_from a b t -> others_from a b' t.
Proof. intros E H t' c p Hn Hf. rewrite <- E in Hf. eauto. Qed.

Lemma not_rws_nonholder s t' c p :
  LkS s -> holder s <> Some t' -> find_task (tasks s) t' = Some (c, p) -> p <> R_WaitStarted.
Proof.
  intros HL Hh Hf ->. apply Hh. eapply (lk_holder_of _ _ _ HL); eauto.
Qed.

Lemma CI_build s s' t :
  LkS s -> CI s ->
  (nl_started s' = false ->
     st_fsm s' = Created /\ holder s' = None /\ lockq s' = [] /\ nl_closed s' = false) ->
  (nl_started s' = true -> st_fsm s' = Created ->
     exists t0 c, holder s' = Some t0 /\ find_task (tasks s') t0 = Some (c, S_G1)) ->
  (st_fsm s' = Closed -> nl_closed s' = true) ->
  (forall x, runt s' = Some x -> late4 x = true -> started_ev s' = true) ->
  (nl_closed s = true -> nl_closed s' = true) -> incl (trace s) (trace s') ->
  others_from (tasks s) (tasks s') t ->
  ((st_fsm s' = st_fsm s /\ runt s' = runt s) \/ holder s = Some t \/ holder s = None) ->
  (forall c p, find_task (tasks s') t = Some (c, p) ->
     QC (st_fsm s') (runt s') (nl_closed s') (trace s') c p) ->
  CI s'.
Proof.
  intros HL HC H1 H2 H3 H4 Hn Hi Ho Hs Ht. constructor; auto.
  intros t' c p Hf. destruct (Nat.eq_dec t' t) as [->|Hne]; [eauto|].
  destruct (Ho _ _ _ Hne Hf) as (p0 & Hf0 & Hp).
  pose proof (ci_tasks _ HC _ _ _ Hf0) as Hq.
  assert (Hq' : QC (st_fsm s') (runt s') (nl_closed s') (trace s') c p0).
  { eapply QC_change; eauto. intros -> Hr Hw.
    destruct Hs as [(-> & ->) | [Hh | Hh]]; auto.
    - exfalso. eapply not_rws_nonholder; eauto. congruence.
    - exfalso. eapply not_rws_nonholder; eauto. congruence. }
  destruct Hp as [->| ->]; auto. apply QC_granted; auto.
Qed.

Ltac fsimpl :=
  simpl;
  rewrite ?rl_trace, ?rl_nls, ?rl_nlc, ?rl_cc, ?rl_cp, ?rl_sev, ?rl_fsm, ?rl_runt, ?rl_rf, ?rl_alive, ?rl_pe, ?rl_ra,
          ?release_holder, ?release_lockq, ?release_tasks,
          ?ar_trace, ?ar_nls, ?ar_nlc, ?ar_cc, ?ar_sev, ?ar_fsm, ?ar_runt, ?ar_rf, ?ar_alive, ?ar_pe, ?ar_ra,
          ?apply_rest_holder, ?apply_rest_lockq, ?apply_rest_tasks;
  simpl.

Lemma holder_started s t : CI s -> holder s = Some t -> nl_started s = true.
Proof.
  intros HC Hh. destruct (nl_started s) eqn:E; auto.
  destruct (ci_fresh _ HC E) as (_ & Hn & _). congruence.
Qed.

Lemma holder_not_created s t c p :
  CI s -> holder s = Some t -> find_task (tasks s) t = Some (c, p) -> p <> S_G1 -> st_fsm s <> Created.
Proof.
  intros HC Hh Hf Hp Hcr. destruct (ci_created _ HC (holder_started _ _ HC Hh) Hcr) as (t0 & c0 & Hh0 & Hf0).
  assert (t0 = t) by congruence. subst t0. rewrite Hf in Hf0. inversion Hf0. congruence.
Qed.

Lemma incl_cons_r {A} (l l' : list A) x : incl l l' -> incl l (x :: l').
Proof. intros H. apply incl_tl. exact H. Qed.

Ltac incl_tac := repeat (apply incl_cons_r); apply incl_refl.

Ltac qc_tac :=
  unfold QC; refine (conj _ (conj _ (conj _ _)));
  [ try (intros [?|?]; discriminate) | try (intros; discriminate); auto
  | simpl; try (intros; discriminate); auto | try (intros; discriminate) ].

Ltac put_entry := let c0 := fresh "c" in let p0 := fresh "p" in let E := fresh "E" in
  intros c0 p0; rewrite find_put_eq; intros E; inversion E; subst c0 p0; clear E.

Lemma CI_close_trigger s t p :
  LkS s -> CI s -> holder s = Some t -> find_task (tasks s) t = Some (CClose, p) ->
  st_fsm s <> Created -> st_fsm s <> Running -> In (EvPub PEndAll) (trace s) ->
  CI (close_trigger s t).
Proof.
  intros HL HC Hh Hf Hncr Hnr Hin.
  pose proof (holder_started _ _ HC Hh) as Hst.
  destruct (ci_tasks _ HC _ _ _ Hf) as (_ & Hnlc & _). specialize (Hnlc eq_refl).
  unfold close_trigger. destruct (st_fsm s) eqn:Efs; try congruence.
  - (* Initialized *)
    apply (CI_build s _ t); auto; fsimpl; try congruence; try discriminate; try incl_tac.
    + apply (ci_sev _ HC).
    + apply of_put.
    + put_entry. qc_tac.
  - (* Finished *)
    destruct (runt s) eqn:Er.
    + apply (CI_build s _ t); auto; fsimpl; try congruence; try discriminate; try incl_tac.
      * apply (ci_sev _ HC).
      * apply of_put.
      * put_entry. qc_tac.
    + apply (CI_build s _ t); auto; fsimpl; try congruence; try discriminate; try incl_tac.
      * apply of_put.
      * put_entry. qc_tac.
  - (* Closed *)
    cc_cases s;
    (apply (CI_build s _ t); auto; fsimpl; try congruence; try discriminate; try incl_tac;
     [ apply (ci_sev _ HC)
     | eapply of_trans; [apply of_rel | apply of_remove]
     | intros c0 p0; rewrite find_remove_eq; discriminate ]).
Qed.

Ltac ci_side := try (intros; congruence); try (intros; discriminate); try incl_tac.

Lemma CI_trace_ext s e : CI s -> CI (set_trace s (e :: trace s)).
Proof.
  intros [H1 H2 H3 H4 H5]. constructor; auto. simpl.
  eapply TQ_mono; [|exact H5]. intros c p Hq. eapply QC_change; eauto. incl_tac.
Qed.

Lemma CI_enter_close s t p :
  LkS s -> FI s -> CI s -> holder s = Some t -> find_task (tasks s) t = Some (CClose, p) ->
  st_fsm s <> Created -> CI (enter_close s t).
Proof.
  intros HL HF HC Hh Hf Hncr. unfold enter_close.
  assert (HC1 : CI (publish s PEndAll)) by (apply CI_trace_ext; auto).
  assert (HL1 : LkS (publish s PEndAll)) by exact HL.
  pose proof (holder_started _ _ HC Hh) as Hst.
  destruct (ci_tasks _ HC _ _ _ Hf) as (_ & Hnlc & _). specialize (Hnlc eq_refl).
  destruct (st_fsm (publish s PEndAll)) eqn:Efs; simpl in Efs;
    try (eapply CI_close_trigger; eauto; simpl; try congruence; auto; fail).
  destruct HF as [_ HS]. destruct (Scal_running_not_none _ _ _ _ _ _ HS Efs) as (x & Hr & He & Hrf).
  simpl. rewrite Hrf.
  apply (CI_build s _ t); auto; fsimpl; ci_side.
  - apply (ci_sev _ HC).
  - apply of_put.
  - put_entry. qc_tac.
Qed.

Lemma CI_refuse s t c :
  LkS s -> CI s -> holder s = Some t -> st_fsm s <> Created -> CI (refuse s t c).
Proof.
  intros HL HC Hh Hncr. pose proof (holder_started _ _ HC Hh) as Hst.
  unfold refuse.
  destruct (is_cont c); [destruct (cont_closed (release s))|];
    (apply (CI_build s _ t); auto; fsimpl; ci_side;
     [ apply (ci_closed _ HC) | apply (ci_sev _ HC)
     | eapply of_trans; [apply of_rel | apply of_remove]
     | intros c0 p0; rewrite find_remove_eq; discriminate ]).
Qed.

Lemma CI_enter_run s t c :
  LkS s -> CI s -> holder s = Some t -> st_fsm s <> Created -> runlike c = true ->
  CI (enter_run s t c).
Proof.
  intros HL HC Hh Hncr Hrl. pose proof (holder_started _ _ HC Hh) as Hst.
  unfold enter_run. destruct (st_fsm s) eqn:Efs; try (apply CI_refuse; auto; congruence).
  apply (CI_build s _ t); auto; fsimpl; ci_side.
  - intros x E. inversion E; subst. discriminate.
  - apply of_put.
  - put_entry. qc_tac.
    + intros ->. discriminate.
    + intros _. auto.
Qed.

Lemma CI_enter_reset s t o :
  LkS s -> CI s -> holder s = Some t -> st_fsm s <> Created -> CI (enter_reset s t o).
Proof.
  intros HL HC Hh Hncr. pose proof (holder_started _ _ HC Hh) as Hst.
  unfold enter_reset.
  destruct (st_fsm s) eqn:Efs; try (apply CI_refuse; auto; congruence);
    (destruct (o_stmt o);
     (apply (CI_build s _ t); auto; fsimpl; ci_side;
      [ apply (ci_sev _ HC) | apply of_put | put_entry; qc_tac ])).
Qed.

Lemma CI_enter s t c part2 p :
  LkS s -> FI s -> CI s -> holder s = Some t -> find_task (tasks s) t = Some (c, p) ->
  st_fsm s <> Created -> c <> CStart -> (c = CClose -> part2 = true) ->
  CI (enter s t c part2).
Proof.
  intros HL HF HC Hh Hf Hncr Hns Hcl. unfold enter. destruct c; auto; try congruence.
  - apply CI_enter_run; auto.
  - apply CI_enter_reset; auto.
  - rewrite (Hcl eq_refl). eapply CI_enter_close; eauto.
  - apply CI_enter_run; auto.
  - apply CI_enter_run; auto.
  - apply CI_enter_run; auto.
Qed.

Definition gpc (part2 : bool) : pc := if part2 then Granted2 else Granted1.
Definition wpc (part2 : bool) : pc := if part2 then WaitLock2 else WaitLock1.

Lemma CI_acquire s t c part2 :
  LkS s -> FI s -> CI s -> nl_started s = true -> find_task (tasks s) t = None ->
  compat c (gpc part2) = true -> c <> CStart -> (c = CClose -> part2 = true /\ nl_closed s = true) ->
  CI (acquire s t c part2).
Proof.
  intros HL HF HC Hst Hfree Hcomp Hns Hcl. unfold acquire.
  destruct (holder s) as [h|] eqn:Eh.
  - (* busy *)
    apply (CI_build s _ t); auto; fsimpl; ci_side.
    + intros _ Hcr. destruct (ci_created _ HC Hst Hcr) as (t0 & c0 & Hh0 & Hf0).
      exists t0, c0. split; [congruence|]. rewrite find_put_neq; auto. intros ->. congruence.
    + apply (ci_closed _ HC).
    + apply (ci_sev _ HC).
    + apply of_put.
    + put_entry. destruct part2; qc_tac.
      * intros E. apply Hcl; auto.
      * intros _. split; auto. intros E. destruct (Hcl E). discriminate.
      * intros E. apply Hcl; auto.
  - destruct (lockq s) as [|t1 q] eqn:Eq.
    2:{ exfalso. apply (lk_q_holder _ _ _ HL); [rewrite Eq; discriminate | exact Eh]. }
    assert (Hncr : st_fsm s <> Created).
    { intros Hcr. destruct (ci_created _ HC Hst Hcr) as (t0 & c0 & Hh0 & _). congruence. }
    set (s2 := set_pc (set_holder s (Some t)) t c (if part2 then Granted2 else Granted1)).
    assert (HL2 : LkS s2).
    { unfold LkS, s2. simpl. rewrite Eq. unfold LkS in HL. rewrite Eh, Eq in HL.
      apply Lk_take; auto. destruct part2; reflexivity. }
    assert (HF2 : FI s2).
    { destruct HF as [HP HS]. split; auto. unfold s2. simpl. apply PcOk_put; auto. destruct part2; reflexivity. }
    assert (HC2 : CI s2).
    { apply (CI_build s _ t); auto; unfold s2; fsimpl; ci_side.
      - apply (ci_closed _ HC).
      - apply (ci_sev _ HC).
      - apply of_put.
      - put_entry. destruct part2; qc_tac.
        + intros E. apply Hcl; auto.
        + intros _. split; auto. intros E. destruct (Hcl E). discriminate.
        + intros E. apply Hcl; auto. }
    eapply (CI_enter s2); eauto.
    + unfold s2. simpl. apply find_put_eq.
    + intros E. apply Hcl; auto.
Qed.

Lemma CI_fields s s' :
  nl_started s' = nl_started s -> nl_closed s' = nl_closed s -> st_fsm s' = st_fsm s ->
  holder s' = holder s -> lockq s' = lockq s -> tasks s' = tasks s -> runt s' = runt s ->
  started_ev s' = started_ev s -> trace s' = trace s -> CI s -> CI s'.
Proof.
  intros E1 E2 E3 E4 E5 E6 E7 E8 E9 [H1 H2 H3 H4 H5].
  constructor; rewrite ?E1, ?E2, ?E3, ?E4, ?E5, ?E6, ?E7, ?E8, ?E9; auto.
Qed.

Lemma created_keep s ts' t :
  CI s -> nl_started s = true -> st_fsm s = Created ->
  holder s <> Some t -> (forall t', t' <> t -> find_task ts' t' = find_task (tasks s) t') ->
  exists t0 c, holder s = Some t0 /\ find_task ts' t0 = Some (c, S_G1).
Proof.
  intros HC Hst Hcr Hnh Hsame. destruct (ci_created _ HC Hst Hcr) as (t0 & c0 & Hh0 & Hf0).
  exists t0, c0. split; auto. rewrite Hsame; auto. intros ->. congruence.
Qed.

Lemma free_not_holder s t : LkS s -> find_task (tasks s) t = None -> holder s <> Some t.
Proof.
  intros HL Hf Hh. destruct (lk_holder_has _ _ _ HL t Hh) as (c & p & Hf' & _). congruence.
Qed.

(** a task outside the lock appears, moves or leaves; nothing else changes *)
Lemma CI_free_step s s' t :
  LkS s -> CI s -> holder s <> Some t ->
  nl_started s' = nl_started s -> nl_closed s' = nl_closed s -> st_fsm s' = st_fsm s ->
  holder s' = holder s -> lockq s' = lockq s -> runt s' = runt s -> started_ev s' = started_ev s ->
  incl (trace s) (trace s') ->
  (forall t', t' <> t -> find_task (tasks s') t' = find_task (tasks s) t') ->
  (forall c p, find_task (tasks s') t = Some (c, p) ->
     QC (st_fsm s') (runt s') (nl_closed s') (trace s') c p) ->
  CI s'.
Proof.
  intros HL HC Hnh E1 E2 E3 E4 E5 E7 E8 Hi Hsame Hent.
  apply (CI_build s _ t); auto; rewrite ?E1, ?E2, ?E3, ?E4, ?E5, ?E7, ?E8; auto.
  - apply (ci_fresh _ HC).
  - intros Hst Hcr. eapply created_keep; eauto.
  - apply (ci_closed _ HC).
  - apply (ci_sev _ HC).
  - intros t' c p Hn Hf. rewrite Hsame in Hf by assumption. exists p. auto.
Qed.

Ltac free_tac HL HC Hnh :=
  eapply CI_free_step; [exact HL | exact HC | exact Hnh | | | | | | | | | |]; fsimpl; try reflexivity; ci_side;
  [ intros t' Hn; rewrite ?find_remove_neq, ?find_put_neq by assumption; reflexivity
  | first [ intros c0 p0; rewrite find_remove_eq; discriminate | put_entry; qc_tac ] ].

Lemma CI_do_call_started s t c :
  LkS s -> FI s -> CI s -> nl_started s = true -> find_task (tasks s) t = None -> CI (do_call s t c).
Proof.
  intros HL HF HC Hst Hfree. unfold do_call. rewrite Hfree.
  pose proof (free_not_holder _ _ HL Hfree) as Hnh.
  set (s0 := set_trace s (EvCall t c :: trace s)).
  assert (HC0 : CI s0) by (apply CI_trace_ext; auto).
  assert (HL0 : LkS s0) by exact HL.
  assert (HF0 : FI s0) by exact HF.
  destruct c; cbn [nl_started nl_closed cont_closed running_process send_command set_trace s0].
  - rewrite Hst. free_tac HL HC Hnh.
  - apply CI_acquire; auto; discriminate.
  - apply CI_acquire; auto; discriminate.
  - destruct (nl_closed s) eqn:Enc; [free_tac HL HC Hnh|]. simpl. rewrite Hst.
    apply CI_acquire; auto; try discriminate.
    constructor; simpl; try apply HC; auto; try congruence.
    eapply TQ_mono; [|apply (ci_tasks _ HC0)]. intros c p Hq. eapply QC_change; eauto. apply incl_refl.
  - destruct (cont_closed s); [free_tac HL HC Hnh|].
    apply CI_acquire; auto; try discriminate.
    eapply (CI_fields (publish s0 (PCont true))); auto. apply CI_trace_ext; auto.
  - destruct (cont_closed s); [free_tac HL HC Hnh|].
    apply CI_acquire; auto; try discriminate.
    eapply (CI_fields (publish s0 (PCont true))); auto. apply CI_trace_ext; auto.
  - apply CI_acquire; auto; discriminate.
  - destruct (running_process s); free_tac HL HC Hnh.
  - destruct (send_command s); free_tac HL HC Hnh.
Qed.

Lemma acquire_free s t c b : holder s = None -> lockq s = [] ->
  acquire s t c b = enter (set_pc (set_holder s (Some t)) t c (if b then Granted2 else Granted1)) t c b.
Proof. unfold acquire. intros -> ->. reflexivity. Qed.
Lemma acquire_busy s t c b h : holder s = Some h ->
  acquire s t c b = set_pc (set_lockq s (lockq s ++ [t])) t c (if b then WaitLock2 else WaitLock1).
Proof. unfold acquire. intros ->. reflexivity. Qed.
Lemma enter_start_created s t c : st_fsm s = Created ->
  enter_start s t c = set_pc (change_script (log_hook s HStart None None)) t c S_G1.
Proof. unfold enter_start. intros ->. reflexivity. Qed.
Lemma enter_run_created s t c : st_fsm s = Created -> enter_run s t c = refuse s t c.
Proof. unfold enter_run. intros ->. reflexivity. Qed.
Lemma enter_reset_created s t o : st_fsm s = Created -> enter_reset s t o = refuse s t (CReset o).
Proof. unfold enter_reset. intros ->. reflexivity. Qed.
Lemma release_empty s : lockq s = [] -> release s = set_holder s None.
Proof. unfold release. intros ->. reflexivity. Qed.

Lemma CI_fresh_start s s0 t c :
  LkS s -> CI s -> nl_started s = false -> (c = CClose -> nl_closed s0 = true) ->
  st_fsm s0 = st_fsm s -> holder s0 = holder s -> lockq s0 = lockq s -> tasks s0 = tasks s ->
  runt s0 = runt s -> started_ev s0 = started_ev s -> nl_started s0 = true ->
  incl (trace s) (trace s0) ->
  CI (acquire s0 t c false) \/ (c <> CStart /\ c <> CClose).
Proof.
  intros HL HC Hst Hcl E1 E2 E3 E4 E5 E6 E7 Hi.
  destruct (ci_fresh _ HC Hst) as (Hcr & Hh & Hq & Hnc).
  destruct (match c with CStart | CClose => true | _ => false end) eqn:Ec;
    [left | right; destruct c; split; discriminate].
  rewrite acquire_free by congruence.
  assert (Een : enter (set_pc (set_holder s0 (Some t)) t c Granted1) t c false =
                enter_start (set_pc (set_holder s0 (Some t)) t c Granted1) t c)
    by (destruct c; try discriminate; reflexivity).
  rewrite Een, enter_start_created by (simpl; congruence).
  apply (CI_build s _ t); auto; simpl; rewrite ?E1, ?E2, ?E3, ?E4, ?E5, ?E6, ?E7; ci_side.
  - intros _ _. exists t, c. split; auto. apply find_put_eq.
  - apply (ci_sev _ HC).
  - repeat apply incl_cons_r. exact Hi.
  - eapply of_trans; apply of_put.
  - put_entry. qc_tac.
Qed.

Lemma CI_fresh_refuse s s0 t c :
  LkS s -> CI s -> nl_started s = false -> runlike c = true \/ (exists o, c = CReset o) ->
  st_fsm s0 = st_fsm s -> holder s0 = holder s -> lockq s0 = lockq s -> tasks s0 = tasks s ->
  runt s0 = runt s -> started_ev s0 = started_ev s -> nl_started s0 = false -> nl_closed s0 = nl_closed s ->
  incl (trace s) (trace s0) ->
  CI (acquire s0 t c false).
Proof.
  intros HL HC Hst Hk E1 E2 E3 E4 E5 E6 E7 E8 Hi.
  destruct (ci_fresh _ HC Hst) as (Hcr & Hh & Hq & Hnc).
  rewrite acquire_free by congruence.
  set (s2 := set_pc (set_holder s0 (Some t)) t c Granted1).
  assert (Een : enter s2 t c false = refuse s2 t c).
  { destruct Hk as [Hk | (o & ->)].
    - transitivity (enter_run s2 t c); [destruct c; try discriminate; reflexivity|].
      apply enter_run_created. simpl. congruence.
    - apply enter_reset_created. simpl. congruence. }
  rewrite Een. unfold refuse. rewrite (release_empty s2) by (simpl; congruence).
  destruct (is_cont c); [destruct (cont_closed (set_holder s2 None))|];
  (apply (CI_build s _ t); auto; simpl; rewrite ?E1, ?E2, ?E3, ?E4, ?E5, ?E6, ?E7, ?E8; ci_side;
   first [ solve [intros _; repeat split; auto]
         | solve [apply (ci_sev _ HC)]
         | solve [repeat apply incl_cons_r; exact Hi]
         | solve [eapply of_trans; [apply of_put | apply of_remove]]
         | solve [intros c0 p0; rewrite find_remove_eq; discriminate] ]).
Qed.

Lemma CI_do_call_fresh s t c :
  LkS s -> FI s -> CI s -> nl_started s = false -> find_task (tasks s) t = None -> CI (do_call s t c).
Proof.
  intros HL HF HC Hst Hfree. unfold do_call. rewrite Hfree.
  pose proof (free_not_holder _ _ HL Hfree) as Hnh.
  destruct (ci_fresh _ HC Hst) as (Hcr & Hh & Hq & Hnc).
  destruct c; cbn [nl_started nl_closed cont_closed running_process send_command set_trace];
    rewrite ?Hst, ?Hnc; cbn [nl_started set_nl_closed set_trace]; rewrite ?Hst.
  - destruct (CI_fresh_start s (publish (set_nl_started (set_trace s (EvCall t CStart :: trace s)) true) (PCont false)) t CStart)
      as [H | (H & _)]; auto; try congruence. simpl. incl_tac.
  - apply (CI_fresh_refuse s); auto. simpl. incl_tac.
  - apply (CI_fresh_refuse s); eauto. simpl. incl_tac.
  - destruct (CI_fresh_start s (publish (set_nl_started (set_nl_closed (set_trace s (EvCall t CClose :: trace s)) true) true) (PCont false)) t CClose)
      as [H | (_ & H)]; auto; try congruence. simpl. incl_tac.
  - destruct (cont_closed s) eqn:Ecc; [free_tac HL HC Hnh | ].
    apply (CI_fresh_refuse s); auto. simpl. incl_tac.
  - destruct (cont_closed s) eqn:Ecc; [free_tac HL HC Hnh | ].
    apply (CI_fresh_refuse s); auto. simpl. incl_tac.
  - apply (CI_fresh_refuse s); auto. simpl. incl_tac.
  - destruct (running_process s); free_tac HL HC Hnh.
  - destruct (send_command s); free_tac HL HC Hnh.
Qed.

Lemma unlocked_not_holder s t c p :
  LkS s -> find_task (tasks s) t = Some (c, p) -> locked_pc p = false -> holder s <> Some t.
Proof.
  intros HL Hf Hl Hh. destruct (lk_holder_has _ _ _ HL t Hh) as (c' & p' & Hf' & Hl'). congruence.
Qed.

Ltac hstep s t HC :=
  apply (CI_build s _ t); auto; fsimpl; ci_side;
  first [ solve [apply (ci_closed _ HC)] | solve [apply (ci_sev _ HC)] | solve [apply of_put]
        | solve [eapply of_trans; [apply of_rel | apply of_remove]]
        | solve [eapply of_trans; [apply of_rel | apply of_put]]
        | solve [intros c0 p0; rewrite find_remove_eq; discriminate]
        | solve [put_entry; qc_tac] | idtac ].

Lemma CI_do_step s t : LkS s -> FI s -> CI s -> CI (do_step s t).
Proof.
  intros HL HF HC. unfold do_step. destruct (find_task (tasks s) t) as [[c p]|] eqn:Ef; auto.
  pose proof HF as [HP HS].
  pose proof (HP _ _ _ Ef) as Hok.
  pose proof (lk_compat _ _ _ HL _ _ _ Ef) as Hc.
  pose proof (ci_tasks _ HC _ _ _ Ef) as (Hq1 & Hq2 & Hq3 & Hq4).
  assert (Hhold : locked_pc p = true -> holder s = Some t /\ nl_started s = true /\ (p <> S_G1 -> st_fsm s <> Created)).
  { intros Hl. assert (Hh : holder s = Some t) by (eapply (lk_holder_of _ _ _ HL); eauto).
    repeat split; auto. eapply holder_started; eauto. intros Hp. eapply holder_not_created; eauto. }
  destruct p; simpl in Hhold; try (destruct (Hhold eq_refl) as (Hh & Hst & Hncr); clear Hhold); auto; simpl in Hok.
  - (* Granted1 *)
    destruct (Hq1 (or_intror eq_refl)) as (Hn1 & Hn2).
    eapply CI_enter; eauto; try (apply Hncr; discriminate); congruence.
  - (* Granted2 *)
    eapply CI_enter; eauto; try (apply Hncr; discriminate); destruct c; simpl in Hc; congruence.
  - (* S_G1 *) hstep s t HC.
  - (* S_G2 *) specialize (Hncr ltac:(discriminate)). hstep s t HC.
  - (* S_G3 *) specialize (Hncr ltac:(discriminate)).
    destruct c; simpl in Hc; try discriminate.
    + hstep s t HC.
    + (* close(): queue again for the close part *)
      pose proof HL as HL0. unfold LkS in HL0. rewrite Hh in HL0.
      pose proof (Lk_release_forget _ _ _ HL0) as HFg.
      destruct (lockq s) as [|t1 q] eqn:Eq.
      * rewrite acquire_free by (rewrite ?release_holder, ?release_lockq, Eq; reflexivity).
        set (s2 := set_pc (set_holder (release s) (Some t)) t CClose Granted2).
        assert (HL2 : LkS s2).
        { unfold LkS, s2. simpl. rewrite ?release_lockq, ?release_tasks, ?Eq. apply Lk_readd_take; auto. }
        assert (HF2 : FI s2).
        { split; unfold s2; simpl.
          - rewrite rl_fsm, release_tasks, Eq. apply PcOk_release_put; auto.
          - rewrite rl_fsm, rl_runt, rl_rf, rl_alive, rl_pe, rl_ra. exact HS. }
        assert (HC2 : CI s2).
        { unfold s2. hstep s t HC. }
        unfold enter. eapply (CI_enter_close s2); eauto.
        -- unfold s2. simpl. apply find_put_eq.
        -- unfold s2. simpl. rewrite rl_fsm. exact Hncr.
      * rewrite (acquire_busy _ _ _ _ t1) by (rewrite release_holder, Eq; reflexivity).
        hstep s t HC.
  - (* R_WaitStarted *) specialize (Hncr ltac:(discriminate)).
    destruct (started_ev s); auto. hstep s t HC.
  - (* R_G *) specialize (Hncr ltac:(discriminate)).
    destruct c; simpl in Hc; try discriminate; hstep s t HC.
  - (* Z_G1 *) specialize (Hncr ltac:(discriminate)).
    destruct c; simpl in Hc; try discriminate. hstep s t HC.
  - (* Z_G1b *) specialize (Hncr ltac:(discriminate)). unfold reset_reinit.
    destruct (st_fsm s) eqn:Efs; try discriminate.
    + hstep s t HC.
    + destruct (runt s) eqn:Er; hstep s t HC.
  - (* Z_WaitRunTask *) specialize (Hncr ltac:(discriminate)). unfold reset_reinit.
    destruct (runt s) eqn:Er; auto. hstep s t HC.
  - (* Z_G3 *) specialize (Hncr ltac:(discriminate)). hstep s t HC.
  - (* Z_G4 *) specialize (Hncr ltac:(discriminate)). hstep s t HC.
  - (* C_WaitRunFinished *) specialize (Hncr ltac:(discriminate)).
    destruct (run_finished s) as [[|]|] eqn:Erf; auto.
    destruct c; simpl in Hc; try discriminate.
    eapply CI_close_trigger; eauto.
    intros Hr. destruct (Scal_running_not_none _ _ _ _ _ _ HS Hr) as (x & _ & _ & E). congruence.
  - (* C_WaitRunTask *) specialize (Hncr ltac:(discriminate)).
    destruct (runt s) eqn:Er; auto. destruct c; simpl in Hc; try discriminate.
    unfold close_enter_closed. hstep s t HC.
  - (* C_G3 *) specialize (Hncr ltac:(discriminate)). hstep s t HC.
  - (* C_G4 *) specialize (Hncr ltac:(discriminate)). cc_cases s; hstep s t HC.
  - (* P_WaitRunFinished *)
    destruct (run_finished s) as [[|]|]; auto.
    assert (Hnh : holder s <> Some t) by (eapply unlocked_not_holder; eauto).
    free_tac HL HC Hnh.
  - (* Sig_G *)
    assert (Hnh : holder s <> Some t) by (eapply unlocked_not_holder; eauto).
    free_tac HL HC Hnh.
Qed.

Lemma CI_notask_step s s' :
  LkS s -> CI s ->
  nl_started s' = nl_started s -> nl_closed s' = nl_closed s -> holder s' = holder s ->
  lockq s' = lockq s -> tasks s' = tasks s -> incl (trace s) (trace s') ->
  (nl_started s = false -> st_fsm s' = Created) ->
  (st_fsm s' = Created -> st_fsm s = Created) -> (st_fsm s' = Closed -> st_fsm s = Closed) ->
  (forall x, runt s' = Some x -> late4 x = true -> started_ev s' = true) ->
  (forall t c, find_task (tasks s) t = Some (c, R_WaitStarted) ->
     st_fsm s' = Running /\ rws_ok (runt s') = true) ->
  CI s'.
Proof.
  intros HL HC E1 E2 E3 E4 E5 Hi Hfr Hcr Hcl Hsev Hrws.
  constructor; rewrite ?E1, ?E2, ?E3, ?E4, ?E5; auto.
  - intros Hst. destruct (ci_fresh _ HC Hst) as (Hf & ? & ? & ?). repeat split; auto.
  - intros Hst Hc. apply (ci_created _ HC Hst). auto.
  - intros Hc. apply (ci_closed _ HC). auto.
  - intros t c p Hf. pose proof (ci_tasks _ HC _ _ _ Hf) as Hq.
    eapply QC_change; eauto. intros -> _ _. eauto.
Qed.

Lemma pending_of_rws s t c :
  LkS s -> find_task (tasks s) t = Some (c, R_WaitStarted) -> run_call_pending s = true.
Proof.
  intros HL Hf. assert (Hh : holder s = Some t) by (eapply (lk_holder_of _ _ _ HL); eauto).
  unfold run_call_pending. rewrite Hh, Hf. reflexivity.
Qed.

Lemma run_finish_running s :
  st_fsm s = Running ->
  run_finish s =
  set_runt (cont_finished (log_hook (set_st_fsm (set_run_arg (set_started_ev s true) None) Finished) HFinished None None)
                          (length (cont_plugins s))) (Some RT_G_fin).
Proof. unfold run_finish. simpl. intros ->. reflexivity. Qed.

Ltac rs_tac Hrws :=
  try solve [let x := fresh "x" in let E := fresh "E" in intros x E; inversion E; subst; discriminate];
  try solve [let t := fresh "t" in let c := fresh "c" in let Hf := fresh "Hf" in
             intros t c Hf; destruct (Hrws _ _ Hf); auto; discriminate].

Lemma CI_step_run s : LkS s -> FI s -> CI s -> CI (do_step_run s).
Proof.
  intros HL HF HC. pose proof HF as [HP HS]. unfold do_step_run.
  destruct (runt s) as [x|] eqn:Er; auto.
  assert (Hfsm : if early x then st_fsm s = Running else st_fsm s = Finished).
  { destruct (early x) eqn:Ee; [eapply sc_early | eapply sc_late]; eauto. }
  assert (Hst : nl_started s = true).
  { destruct (nl_started s) eqn:E; auto. destruct (ci_fresh _ HC E) as (Hcr & _).
    rewrite Hcr in Hfsm. destruct (early x); discriminate. }
  assert (Hra : early x = true -> run_arg s <> None).
  { intros He. apply (sc_ra _ _ _ _ _ _ HS). right. rewrite He in Hfsm. exact Hfsm. }
  assert (Hrws : forall t c, find_task (tasks s) t = Some (c, R_WaitStarted) ->
                             st_fsm s = Running /\ rws_ok (Some x) = true).
  { intros t c Hf. rewrite <- Er. apply (ci_tasks _ HC _ _ _ Hf). reflexivity. }
  pose proof (ci_sev _ HC x Er) as Hsev.
  destruct x; simpl in Hfsm.
  - (* RT_New *)
    destruct (run_arg s) eqn:Era; [|exfalso; apply Hra; auto].
    apply (CI_notask_step s); auto; fsimpl; ci_side; rs_tac Hrws.
  - (* RT_Created *)
    simpl. destruct (run_arg s) eqn:Era; [|exfalso; apply Hra; auto].
    apply (CI_notask_step s); auto; fsimpl; ci_side; rs_tac Hrws.
  - (* RT_G_start *)
    apply (CI_notask_step s); auto; fsimpl; ci_side; rs_tac Hrws.
  - (* RT_WaitChild *)
    destruct (run_call_pending s) eqn:Epend; auto. destruct (pending_exit s) as [o|] eqn:Epe; auto.
    simpl. destruct (run_arg s) eqn:Era; [|exfalso; apply Hra; auto].
    apply (CI_notask_step s); auto; fsimpl; ci_side.
    intros t c Hf. rewrite (pending_of_rws _ _ _ HL Hf) in Epend. discriminate.
  - (* RT_G_end *)
    rewrite run_finish_running by assumption.
    match goal with |- context [cont_finished ?y ?n] => destruct (cf_trace n y) as (new & Et & _) end.
    apply (CI_notask_step s); auto; simpl; rewrite ?cf_nls, ?cf_nlc, ?cf_holder, ?cf_lockq, ?cf_tasks, ?cf_fsm, ?cf_sev; simpl; ci_side;
      rs_tac Hrws.
    rewrite Et. simpl. apply incl_appr. incl_tac.
  - (* RT_G_fin *)
    apply (CI_notask_step s); auto; fsimpl; ci_side; rs_tac Hrws.
  - (* RT_G_cs *)
    apply (CI_notask_step s); auto; fsimpl; ci_side; rs_tac Hrws.
Qed.

Lemma CI_child_exit s o : LkS s -> CI s -> CI (do_child_exit s o).
Proof.
  intros HL HC. unfold do_child_exit. destruct (alive s); auto.
  apply (CI_fields s); auto.
Qed.

Theorem CI_step s l : LkS s -> FI s -> CI s -> CI (step s l).
Proof.
  intros HL HF HC. destruct l; simpl.
  - destruct (find_task (tasks s) t) eqn:Ef.
    + unfold do_call. rewrite Ef. exact HC.
    + destruct (nl_started s) eqn:Est; [apply CI_do_call_started | apply CI_do_call_fresh]; auto.
  - apply CI_do_step; auto.
  - apply CI_step_run; auto.
  - apply CI_child_exit; auto.
Qed.

Lemma CI_init a b c d : CI (init_state a b c d).
Proof.
  constructor; simpl; auto; try discriminate; intros t c0 p H; discriminate.
Qed.

Theorem all_inv a b c d ls :
  let s := run_labels (init_state a b c d) ls in LkS s /\ FI s /\ CI s.
Proof.
  unfold run_labels. generalize (LkS_init a b c d) (FI_init a b c d) (CI_init a b c d).
  generalize (init_state a b c d).
  induction ls as [|l ls IH]; intros s HL HF HC; simpl; auto.
  apply IH; [apply LkS_step | apply FI_step | apply CI_step]; auto.
Qed.

(** ---- what a step appends to the trace: at most one return, and it is the newest event ---- *)
Definition noret (new : list event) : Prop := forall t c r, ~ In (EvRet t c r) new.

Definition Quiet (s s' : state) : Prop := exists new, trace s' = new ++ trace s /\ noret new.

(** what the close that does the work appends last (newest first): the item of
    `continuous` is closed, before it possibly one `False`, before that the broker is
    closed ONCE MORE -- atomically with the return *)
Definition close_shape (new : list event) : Prop :=
  exists coff mid, (coff = [] \/ coff = [EvPub (PCont false)]) /\
                   new = EvPub PEndCont :: coff ++ EvPub PEndAll :: mid.

Lemma close_shape0 mid : close_shape (EvPub PEndCont :: EvPub PEndAll :: mid).
Proof. exists [], mid. auto. Qed.
Lemma close_shape1 mid : close_shape (EvPub PEndCont :: EvPub (PCont false) :: EvPub PEndAll :: mid).
Proof. exists [EvPub (PCont false)], mid. auto. Qed.
Lemma close_shape_app new n1 : close_shape new -> close_shape (new ++ n1).
Proof.
  intros (coff & mid & Hc & ->). exists coff, (mid ++ n1). split; auto.
  simpl. rewrite <- app_assoc. reflexivity.
Qed.

Definition RetsClose (s s' : state) (t : nat) : Prop :=
  exists new, trace s' = EvRet t CClose ROk :: new ++ trace s /\ noret new /\ close_shape new /\
    st_fsm s' = Closed /\ cont_closed s' = true /\
    In (EvPub PEndAll) (trace s') /\ In (EvPub PEndCont) (trace s').

Definition StepOK (s s' : state) (t : nat) (c : call) : Prop :=
  Quiet s s' \/ (c = CClose /\ RetsClose s s' t) \/
  (c <> CClose /\ exists r new, trace s' = EvRet t c r :: new ++ trace s /\ noret new).

Lemma noret_app a b : noret a -> noret b -> noret (a ++ b).
Proof. intros Ha Hb t c r Hin. apply in_app_or in Hin. destruct Hin; [eapply Ha | eapply Hb]; eauto. Qed.

Lemma Quiet_refl s s' : trace s' = trace s -> Quiet s s'.
Proof. intros E. exists []. split; auto. intros t c r []. Qed.

Lemma Quiet_trans s s1 s' : Quiet s s1 -> Quiet s1 s' -> Quiet s s'.
Proof.
  intros (n1 & E1 & H1) (n2 & E2 & H2). exists (n2 ++ n1). split.
  - rewrite E2, E1, app_assoc. reflexivity.
  - apply noret_app; auto.
Qed.

Lemma StepOK_pre s s1 s' t c : Quiet s s1 -> StepOK s1 s' t c -> StepOK s s' t c.
Proof.
  intros HQ [H | [(Hc & new & E & Hn & Hrest) | (Hc & r & new & E & Hn)]].
  - left. eapply Quiet_trans; eauto.
  - right. left. split; auto. destruct HQ as (n1 & E1 & H1). exists (new ++ n1).
    destruct Hrest as (Hsh & Hrest).
    split; [|split; [|split; auto]]. + rewrite E, E1, app_assoc. reflexivity. + apply noret_app; auto.
    + apply close_shape_app; auto.
  - right. right. split; auto. destruct HQ as (n1 & E1 & H1). exists r, (new ++ n1).
    split. + rewrite E, E1, app_assoc. reflexivity. + apply noret_app; auto.
Qed.

Ltac noret_tac := let H := fresh in intros ? ? ? H; simpl in H; intuition discriminate.

Ltac ext_tac :=
  fsimpl;
  match goal with
  | |- exists new, ?tr = new ++ ?tr /\ _ => exists []
  | |- exists new, ?a :: ?tr = new ++ ?tr /\ _ => exists [a]
  | |- exists new, ?a :: ?b :: ?tr = new ++ ?tr /\ _ => exists [a; b]
  | |- exists new, ?a :: ?b :: ?c :: ?tr = new ++ ?tr /\ _ => exists [a; b; c]
  | |- exists new, ?a :: ?b :: ?c :: ?d :: ?tr = new ++ ?tr /\ _ => exists [a; b; c; d]
  | |- exists new, ?a :: ?b :: ?c :: ?d :: ?e :: ?tr = new ++ ?tr /\ _ => exists [a; b; c; d; e]
  | |- exists new, ?x :: ?tr = ?y :: new ++ ?tr /\ _ => exists []
  | |- exists new, ?x :: ?a :: ?tr = ?y :: new ++ ?tr /\ _ => exists [a]
  | |- exists new, ?x :: ?a :: ?b :: ?tr = ?y :: new ++ ?tr /\ _ => exists [a; b]
  | |- exists new, ?x :: ?a :: ?b :: ?c :: ?tr = ?y :: new ++ ?tr /\ _ => exists [a; b; c]
  | |- exists new, ?x :: ?a :: ?b :: ?c :: ?d :: ?tr = ?y :: new ++ ?tr /\ _ => exists [a; b; c; d]
  end; split; [reflexivity | first [noret_tac | split; [noret_tac|]]].

Ltac quiet_tac := unfold Quiet; ext_tac.

Lemma SO_refuse s t c : c <> CClose -> StepOK s (refuse s t c) t c.
Proof.
  intros Hc. right. right. split; auto. unfold refuse.
  destruct (is_cont c); [destruct (cont_closed (release s))|]; eexists; ext_tac.
Qed.

Lemma SO_close_trigger s t :
  In (EvPub PEndAll) (trace s) -> StepOK s (close_trigger s t) t CClose.
Proof.
  intros Hin. unfold close_trigger. destruct (st_fsm s) eqn:Efs; try (left; quiet_tac; fail).
  - destruct (runt s); left; quiet_tac.
  - right. left. split; auto. cc_cases s; (unfold RetsClose; ext_tac; fsimpl; repeat split; simpl; auto 8 using close_shape0, close_shape1).
Qed.

Lemma SO_enter_close s t :
  (st_fsm s = Running -> run_finished s = Some false) -> StepOK s (enter_close s t) t CClose.
Proof.
  intros Hrf. unfold enter_close.
  assert (HQ : Quiet s (publish s PEndAll)) by quiet_tac.
  destruct (st_fsm (publish s PEndAll)) eqn:Efs; simpl in Efs;
    try (eapply StepOK_pre; [exact HQ | apply SO_close_trigger; simpl; auto]; fail).
  simpl. rewrite (Hrf Efs). left. quiet_tac.
Qed.

Lemma SO_enter s t c part2 :
  (c = CClose -> part2 = true \/ st_fsm s = Created) ->
  (st_fsm s = Running -> run_finished s = Some false) ->
  StepOK s (enter s t c part2) t c.
Proof.
  intros Hcl Hrf. unfold enter. destruct c.
  - unfold enter_start. destruct (st_fsm s); try (apply SO_refuse; discriminate). left. quiet_tac.
  - unfold enter_run. destruct (st_fsm s); try (apply SO_refuse; discriminate). left. quiet_tac.
  - unfold enter_reset. destruct (st_fsm s); try (apply SO_refuse; discriminate);
      (destruct (o_stmt o); left; quiet_tac).
  - destruct part2; [apply SO_enter_close; auto|].
    destruct (Hcl eq_refl) as [?|Hcr]; [discriminate|].
    rewrite enter_start_created by assumption. left. quiet_tac.
  - unfold enter_run. destruct (st_fsm s); try (apply SO_refuse; discriminate). left. quiet_tac.
  - unfold enter_run. destruct (st_fsm s); try (apply SO_refuse; discriminate). left. quiet_tac.
  - unfold enter_run. destruct (st_fsm s); try (apply SO_refuse; discriminate). left. quiet_tac.
  - left. apply Quiet_refl. reflexivity.
  - left. apply Quiet_refl. reflexivity.
Qed.

Lemma SO_acquire s t c part2 :
  (c = CClose -> part2 = true \/ st_fsm s = Created) ->
  (st_fsm s = Running -> run_finished s = Some false) ->
  StepOK s (acquire s t c part2) t c.
Proof.
  intros Hcl Hrf. unfold acquire.
  destruct (holder s); [left; apply Quiet_refl; reflexivity|].
  destruct (lockq s); [|left; apply Quiet_refl; reflexivity].
  eapply StepOK_pre; [|apply SO_enter; simpl; auto]. apply Quiet_refl. reflexivity.
Qed.

Lemma FI_rf s : FI s -> st_fsm s = Running -> run_finished s = Some false.
Proof.
  intros [_ HS] Hr. destruct (Scal_running_not_none _ _ _ _ _ _ HS Hr) as (x & _ & _ & E). exact E.
Qed.

Definition Again (s s' : state) (t : nat) : Prop :=
  nl_closed s = true /\ s' = set_trace s (EvRet t CClose ROk :: EvCall t CClose :: trace s).

Lemma remove_absent ts t : find_task ts t = None -> remove_task ts t = ts.
Proof.
  induction ts as [|[t' x] ts IH]; simpl; auto.
  destruct (Nat.eqb t t'); [discriminate|]. intros H. rewrite IH; auto.
Qed.

Lemma again_eq s t : find_task (tasks s) t = None ->
  finish_call (set_trace s (EvCall t CClose :: trace s)) t CClose ROk =
  set_trace s (EvRet t CClose ROk :: EvCall t CClose :: trace s).
Proof.
  intros Hf. unfold finish_call, add_ret. simpl. rewrite remove_absent by assumption.
  destruct s; reflexivity.
Qed.

Lemma SO_do_call s t c :
  FI s -> CI s -> find_task (tasks s) t = None ->
  (c = CClose /\ Again s (do_call s t c) t) \/
  ((c = CClose -> nl_closed s = false) /\ StepOK s (do_call s t c) t c).
Proof.
  intros HF HC Hfree. unfold do_call. rewrite Hfree.
  pose proof (FI_rf _ HF) as Hrf.
  set (s0 := set_trace s (EvCall t c :: trace s)).
  assert (HQ0 : Quiet s s0) by (unfold s0; quiet_tac).
  destruct c; cbn [nl_started nl_closed cont_closed running_process send_command set_trace s0].
  - right. split; [try discriminate; auto|]. destruct (nl_started s).
    + right. right. split; [discriminate|]. eexists. ext_tac.
    + eapply StepOK_pre; [|apply SO_acquire; simpl; auto; discriminate]. quiet_tac.
  - right. split; [try discriminate; auto|]. eapply StepOK_pre; [exact HQ0 | apply SO_acquire; simpl; auto; discriminate].
  - right. split; [try discriminate; auto|]. eapply StepOK_pre; [exact HQ0 | apply SO_acquire; simpl; auto; discriminate].
  - destruct (nl_closed s) eqn:Enc.
    + left. split; auto. split; auto. apply again_eq; auto.
    + right. split; [auto|]. simpl. destruct (nl_started s) eqn:Est.
      * eapply StepOK_pre; [|apply SO_acquire; simpl; auto]. quiet_tac.
      * destruct (ci_fresh _ HC Est) as (Hcr & _).
        eapply StepOK_pre; [|apply SO_acquire; simpl; auto]. quiet_tac.
  - right. split; [try discriminate; auto|]. destruct (cont_closed s).
    + right. right. split; [discriminate|]. eexists. ext_tac.
    + eapply StepOK_pre; [|apply SO_acquire; simpl; auto; discriminate]. quiet_tac.
  - right. split; [try discriminate; auto|]. destruct (cont_closed s).
    + right. right. split; [discriminate|]. eexists. ext_tac.
    + eapply StepOK_pre; [|apply SO_acquire; simpl; auto; discriminate]. quiet_tac.
  - right. split; [try discriminate; auto|]. eapply StepOK_pre; [exact HQ0 | apply SO_acquire; simpl; auto; discriminate].
  - right. split; [try discriminate; auto|]. destruct (running_process s).
    + left. quiet_tac.
    + right. right. split; [discriminate|]. eexists. ext_tac.
  - right. split; [try discriminate; auto|]. destruct (send_command s).
    + left. quiet_tac.
    + right. right. split; [discriminate|]. eexists. ext_tac.
Qed.

Lemma noret_only_cont new : only_cont new -> noret new.
Proof. intros H t c r Hin. destruct (H _ Hin) as (b & E). discriminate. Qed.

Lemma SO_do_step s t c p :
  LkS s -> FI s -> CI s -> find_task (tasks s) t = Some (c, p) -> StepOK s (do_step s t) t c.
Proof.
  intros HL HF HC Ef. unfold do_step. rewrite Ef.
  pose proof (FI_rf _ HF) as Hrf. pose proof HF as [HP HS].
  pose proof (HP _ _ _ Ef) as Hok.
  pose proof (lk_compat _ _ _ HL _ _ _ Ef) as Hc.
  pose proof (ci_tasks _ HC _ _ _ Ef) as (Hq1 & Hq2 & Hq3 & Hq4).
  destruct p; simpl in Hok; try (left; quiet_tac; fail).
  - (* Granted1 *) apply SO_enter; auto. intros ->. destruct (Hq1 (or_intror eq_refl)) as (_ & Hn). congruence.
  - (* Granted2 *) apply SO_enter; auto.
  - (* S_G3 *)
    assert (HQ : Quiet s (release s)) by (apply Quiet_refl; apply rl_trace).
    destruct c; simpl in Hc; try discriminate.
    + right. right. split; [discriminate|]. eexists. ext_tac.
    + eapply StepOK_pre; [exact HQ|]. apply SO_acquire; auto. rewrite rl_fsm, rl_rf. exact Hrf.
  - (* R_WaitStarted *) destruct (started_ev s); left; [quiet_tac | apply Quiet_refl; reflexivity].
  - (* R_G *)
    destruct c; simpl in Hc; try discriminate;
      first [ left; quiet_tac | right; right; split; [discriminate|]; eexists; ext_tac ].
  - (* Z_G1 *) destruct c; simpl in Hc; try discriminate. left. quiet_tac.
  - (* Z_G1b *) unfold reset_reinit. destruct (st_fsm s); try (left; quiet_tac; fail).
    destruct (runt s); left; quiet_tac.
  - (* Z_WaitRunTask *) unfold reset_reinit. destruct (runt s); left; [apply Quiet_refl; reflexivity | quiet_tac].
  - (* Z_G4 *) destruct c; simpl in Hc; try discriminate. right. right. split; [discriminate|]. eexists. ext_tac.
  - (* C_WaitRunFinished *)
    destruct c; simpl in Hc; try discriminate.
    destruct (run_finished s) as [[|]|]; try (left; apply Quiet_refl; reflexivity).
    apply SO_close_trigger. auto.
  - (* C_WaitRunTask *) destruct (runt s); left; [apply Quiet_refl; reflexivity | quiet_tac].
  - (* C_G4 *)
    destruct c; simpl in Hc; try discriminate. right. left. split; auto.
    cc_cases s; (unfold RetsClose; ext_tac; fsimpl;
                 destruct (st_fsm s); try discriminate; repeat split; simpl; auto 8 using close_shape0, close_shape1).
  - (* P_WaitRunFinished *)
    destruct (run_finished s) as [[|]|]; try (left; apply Quiet_refl; reflexivity).
    destruct c; simpl in Hc; try discriminate; right; right; (split; [discriminate|]); eexists; ext_tac.
  - (* Sig_G *)
    destruct c; simpl in Hc; try discriminate; right; right; (split; [discriminate|]); eexists; ext_tac.
Qed.

Lemma Quiet_run_finish s : Quiet s (run_finish s).
Proof.
  unfold run_finish. simpl. destruct (st_fsm s); try (apply Quiet_refl; reflexivity).
  match goal with |- context [cont_finished ?y ?n] => destruct (cf_trace n y) as (new & Et & Hoc) end.
  exists (new ++ [EvHook (mkHook HFinished Finished None None None)]). split.
  - simpl. rewrite Et. simpl. rewrite <- app_assoc. reflexivity.
  - apply noret_app; [apply noret_only_cont; auto | noret_tac].
Qed.

Lemma Quiet_step_run s : Quiet s (do_step_run s).
Proof.
  unfold do_step_run. destruct (runt s) as [[]|]; try (apply Quiet_refl; reflexivity); try quiet_tac.
  - destruct (run_arg s); [apply Quiet_refl; reflexivity | apply Quiet_run_finish].
  - simpl. destruct (run_arg s); [quiet_tac|].
    eapply Quiet_trans; [|apply Quiet_run_finish]. apply Quiet_refl. reflexivity.
  - destruct (run_call_pending s); [apply Quiet_refl; reflexivity|].
    destruct (pending_exit s); [|apply Quiet_refl; reflexivity]. simpl.
    destruct (run_arg s); [quiet_tac|].
    eapply Quiet_trans; [|apply Quiet_run_finish]. apply Quiet_refl. reflexivity.
  - apply Quiet_run_finish.
Qed.

Lemma Quiet_child_exit s o : Quiet s (do_child_exit s o).
Proof. unfold do_child_exit. destruct (alive s); apply Quiet_refl; reflexivity. Qed.

(** ---- A. safety of close ---- *)
Definition closed_down (s : state) : Prop :=
  st_fsm s = Closed /\ alive s = 0%nat /\ pending_exit s = None /\ runt s = None /\
  cont_closed s = true /\ In (EvPub PEndAll) (trace s) /\ In (EvPub PEndCont) (trace s).

Lemma appended_ext s s' new : trace s' = new ++ trace s -> appended s s' = rev new.
Proof.
  intros E. unfold appended. rewrite E, app_length.
  replace (length new + length (trace s) - length (trace s))%nat with (length new) by lia.
  rewrite firstn_app, firstn_all, Nat.sub_diag. simpl. rewrite app_nil_r. reflexivity.
Qed.

Lemma Quiet_no_ret s s' t c r : Quiet s s' -> ~ In (EvRet t c r) (appended s s').
Proof.
  intros (new & E & Hn) Hin. rewrite (appended_ext _ _ _ E) in Hin. apply in_rev in Hin. eapply Hn; eauto.
Qed.

Lemma StepOK_ret s s' t0 c t r :
  StepOK s s' t0 c -> In (EvRet t CClose r) (appended s s') ->
  t = t0 /\ c = CClose /\ r = ROk /\ RetsClose s s' t0.
Proof.
  intros [HQ | [(Hc & HR) | (Hc & r0 & new & E & Hn)]] Hin.
  - exfalso. eapply Quiet_no_ret; eauto.
  - destruct HR as (new & E & Hn & Hrest).
    change (EvRet t0 CClose ROk :: new ++ trace s) with ((EvRet t0 CClose ROk :: new) ++ trace s) in E.
    pose proof Hin as Hin'. rewrite (appended_ext _ _ _ E) in Hin'. apply in_rev in Hin'.
    destruct Hin' as [Heq | Hin'].
    + inversion Heq; subst. repeat split; auto. exists new. auto.
    + exfalso. eapply Hn; eauto.
  - change (EvRet t0 c r0 :: new ++ trace s) with ((EvRet t0 c r0 :: new) ++ trace s) in E.
    rewrite (appended_ext _ _ _ E) in Hin. apply in_rev in Hin.
    destruct Hin as [Heq | Hin].
    + inversion Heq; subst. congruence.
    + exfalso. eapply Hn; eauto.
Qed.

Lemma closed_scal s : FI s -> st_fsm s = Closed -> alive s = 0%nat /\ pending_exit s = None /\ runt s = None.
Proof.
  intros [_ HS] Hc. assert (Hr : runt s = None) by (eapply Scal_idle; eauto; congruence).
  pose proof (sc_child _ _ _ _ _ _ HS) as Hch. rewrite Hr in Hch. simpl in Hch. tauto.
Qed.

Lemma RetsClose_down s s' t : FI s' -> RetsClose s s' t -> closed_down s'.
Proof.
  intros HF (new & E & Hn & _ & Hc & Hcc & Hi1 & Hi2).
  destruct (closed_scal _ HF Hc) as (Ha & Hp & Hr). repeat split; auto.
Qed.

Lemma close_returns s l t r :
  LkS s -> FI s -> CI s -> In (EvRet t CClose r) (appended s (step s l)) ->
  r = ROk /\
  ((closed_down (step s l) /\
    ((l = Call t CClose /\ nl_closed s = false /\ find_task (tasks s) t = None) \/
     (l = Step t /\ exists p, find_task (tasks s) t = Some (CClose, p)))) \/
   (l = Call t CClose /\ nl_closed s = true /\ find_task (tasks s) t = None /\
    step s l = set_trace s (EvRet t CClose ROk :: EvCall t CClose :: trace s))).
Proof.
  intros HL HF HC Hin. pose proof (FI_step s l HL HF) as HF'.
  destruct l as [t0 c | t0 | | o]; simpl in *.
  - destruct (find_task (tasks s) t0) eqn:Ef.
    + exfalso. unfold do_call in Hin. rewrite Ef in Hin.
      eapply Quiet_no_ret; [|exact Hin]. apply Quiet_refl. reflexivity.
    + destruct (SO_do_call s t0 c HF HC Ef) as [(-> & Hnc & Heq) | (Hnc & HS)].
      * rewrite Heq in Hin.
        rewrite (appended_ext s _ [EvRet t0 CClose ROk; EvCall t0 CClose]) in Hin by reflexivity.
        simpl in Hin. destruct Hin as [Hin | [Hin | []]]; [discriminate|]. inversion Hin; subst.
        split; auto.
      * destruct (StepOK_ret _ _ _ _ _ _ HS Hin) as (-> & -> & -> & HR).
        split; auto. left. split; [eapply RetsClose_down; eauto|]. left. auto.
  - destruct (find_task (tasks s) t0) as [[c p]|] eqn:Ef.
    + destruct (StepOK_ret _ _ _ _ _ _ (SO_do_step s t0 c p HL HF HC Ef) Hin) as (-> & -> & -> & HR).
      split; auto. left. split; [eapply RetsClose_down; eauto|]. right. eauto.
    + exfalso. unfold do_step in Hin. rewrite Ef in Hin.
      eapply Quiet_no_ret; [|exact Hin]. apply Quiet_refl. reflexivity.
  - exfalso. eapply Quiet_no_ret; [|exact Hin]. apply Quiet_step_run.
  - exfalso. eapply Quiet_no_ret; [|exact Hin]. apply Quiet_child_exit.
Qed.

Lemma fsm_refuse s t c : st_fsm (refuse s t c) = st_fsm s.
Proof. unfold refuse. destruct (is_cont c); [destruct (cont_closed (release s))|]; simpl; apply rl_fsm. Qed.

Lemma fsm_enter_closed s t c b : st_fsm s = Closed -> st_fsm (enter s t c b) = Closed.
Proof.
  intros Hc. unfold enter, enter_start, enter_run, enter_reset, enter_close, close_trigger.
  destruct c; try destruct b; simpl; rewrite ?Hc; simpl; rewrite ?fsm_refuse, ?rl_fsm; auto.
Qed.

Lemma fsm_acquire_closed s t c b : st_fsm s = Closed -> st_fsm (acquire s t c b) = Closed.
Proof.
  intros Hc. unfold acquire. destruct (holder s); auto. destruct (lockq s); auto.
  apply fsm_enter_closed. exact Hc.
Qed.

Lemma fsm_closed_step s l : LkS s -> FI s -> st_fsm s = Closed -> st_fsm (step s l) = Closed.
Proof.
  intros HL HF Hc. destruct l as [t c | t | | o]; simpl.
  - unfold do_call. destruct (find_task (tasks s) t); auto.
    destruct c; cbn [nl_started nl_closed cont_closed running_process send_command set_trace];
      repeat match goal with |- context [if ?b then _ else _] => destruct b end;
      try (apply fsm_acquire_closed); simpl; auto.
  - unfold do_step. destruct (find_task (tasks s) t) as [[c p]|] eqn:Ef; auto.
    destruct HF as [HP HS]. pose proof (HP _ _ _ Ef) as Hok. rewrite Hc in Hok.
    destruct p; simpl in Hok; try discriminate; auto; try (apply fsm_enter_closed; auto).
    + simpl. rewrite rl_fsm. auto.
    + destruct (run_finished s) as [[|]|]; auto.
  - unfold do_step_run. destruct HF as [_ HS].
    assert (Hr : runt s = None) by (eapply Scal_idle; eauto; congruence). rewrite Hr. auto.
  - unfold do_child_exit. destruct (alive s); auto.
Qed.

Lemma run_labels_app s l1 l2 : run_labels s (l1 ++ l2) = run_labels (run_labels s l1) l2.
Proof. unfold run_labels. apply fold_left_app. Qed.

Lemma inv_run s ls : LkS s -> FI s -> CI s ->
  LkS (run_labels s ls) /\ FI (run_labels s ls) /\ CI (run_labels s ls).
Proof.
  revert s. induction ls as [|l ls IH]; intros s HL HF HC; simpl; auto.
  apply IH; [apply LkS_step | apply FI_step | apply CI_step]; auto.
Qed.

Lemma closed_absorbing s ls : LkS s -> FI s -> CI s -> st_fsm s = Closed -> st_fsm (run_labels s ls) = Closed.
Proof.
  revert s. induction ls as [|l ls IH]; intros s HL HF HC Hc; simpl; auto.
  apply IH; [apply LkS_step | apply FI_step | apply CI_step | apply fsm_closed_step]; auto.
Qed.

Lemma close_again_noop s t :
  CI s -> st_fsm s = Closed -> find_task (tasks s) t = None ->
  step s (Call t CClose) = set_trace s (EvRet t CClose ROk :: EvCall t CClose :: trace s).
Proof.
  intros HC Hc Hf. simpl. unfold do_call. rewrite Hf.
  cbn [nl_closed set_trace]. rewrite (ci_closed _ HC Hc). apply again_eq. exact Hf.
Qed.

(** ---- A, for every reachable state ---- *)
Theorem close_returns_reachable : forall stmt start th md ls l t r,
  let s := run_labels (init_state stmt start th md) ls in
  In (EvRet t CClose r) (appended s (step s l)) ->
  r = ROk /\
  ((closed_down (step s l) /\
    ((l = Call t CClose /\ nl_closed s = false /\ find_task (tasks s) t = None) \/
     (l = Step t /\ exists p, find_task (tasks s) t = Some (CClose, p)))) \/
   (l = Call t CClose /\ nl_closed s = true /\ find_task (tasks s) t = None /\
    step s l = set_trace s (EvRet t CClose ROk :: EvCall t CClose :: trace s))).
Proof.
  intros stmt start th md ls l t r s. destruct (all_inv stmt start th md ls) as (HL & HF & HC).
  apply close_returns; auto.
Qed.

Theorem close_never_raises : forall stmt start th md ls l t r,
  let s := run_labels (init_state stmt start th md) ls in
  In (EvRet t CClose r) (appended s (step s l)) ->
  r <> RAttributeError /\ r <> RMachineError /\ r <> RRuntimeError /\ r <> RAssertionError.
Proof.
  intros stmt start th md ls l t r s Hin.
  destruct (close_returns_reachable stmt start th md ls l t r Hin) as (-> & _).
  repeat split; discriminate.
Qed.

Theorem close_idempotent : forall stmt start th md ls,
  let s := run_labels (init_state stmt start th md) ls in
  st_fsm s = Closed ->
  (forall ls', st_fsm (run_labels s ls') = Closed) /\
  (forall ls' t, let s' := run_labels s ls' in
     find_task (tasks s') t = None ->
     step s' (Call t CClose) = set_trace s' (EvRet t CClose ROk :: EvCall t CClose :: trace s')).
Proof.
  intros stmt start th md ls s Hc. destruct (all_inv stmt start th md ls) as (HL & HF & HC).
  split.
  - intros ls'. apply closed_absorbing; auto.
  - intros ls' t s' Hf. destruct (inv_run s ls' HL HF HC) as (HL' & HF' & HC').
    apply close_again_noop; auto. apply closed_absorbing; auto.
Qed.

Theorem no_child_after_close : forall stmt start th md ls,
  let s := run_labels (init_state stmt start th md) ls in
  st_fsm s = Closed ->
  alive s = 0%nat /\ runt s = None /\ pending_exit s = None /\
  forall ls', alive (run_labels s ls') = 0%nat /\ runt (run_labels s ls') = None.
Proof.
  intros stmt start th md ls s Hc. destruct (all_inv stmt start th md ls) as (HL & HF & HC).
  destruct (closed_scal _ HF Hc) as (Ha & Hp & Hr). repeat split; auto.
  - destruct (inv_run s ls' HL HF HC) as (HL' & HF' & HC').
    apply (closed_scal _ HF'). apply closed_absorbing; auto.
  - destruct (inv_run s ls' HL HF HC) as (HL' & HF' & HC').
    apply (closed_scal _ HF'). apply closed_absorbing; auto.
Qed.

(** ---- B. progress: a measure that every internal step decreases ---- *)
Definition rank (p : pc) : nat :=
  match p with
  | WaitLock1 => 40 | Granted1 => 39 | S_G1 => 38 | S_G2 => 37 | S_G3 => 36
  | WaitLock2 => 35 | Granted2 => 34 | C_WaitRunFinished => 33 | C_WaitRunTask => 32 | C_G3 => 31 | C_G4 => 30
  | Z_G1 => 25 | Z_G1b => 24 | Z_WaitRunTask => 23 | Z_G3 => 22 | Z_G4 => 21
  | R_WaitStarted => 20 | R_G => 19 | P_WaitRunFinished => 18
  | Sig_G => 1
  end%nat.

Definition rank_r (r : option rpc) : nat :=
  match r with
  | None => 0 | Some RT_New => 10 | Some RT_Created => 7 | Some RT_G_start => 6 | Some RT_WaitChild => 5
  | Some RT_G_end => 4 | Some RT_G_fin => 3 | Some RT_G_cs => 2
  end%nat.

Fixpoint mu_tasks (ts : ttab) : nat :=
  match ts with
  | [] => 0
  | (_, (_, p)) :: r => rank p + mu_tasks r
  end%nat.

Definition pe_n (o : option outcome) : nat := match o with Some _ => 1 | None => 0 end.

Definition sc (s : state) : nat := (rank_r (runt s) + 2 * alive s + pe_n (pending_exit s))%nat.

Definition mu (s : state) : nat := (mu_tasks (tasks s) + sc s)%nat.

Lemma rank_pos p : (1 <= rank p)%nat.
Proof. destruct p; simpl; lia. Qed.

Lemma mt_put_existing ts t c0 p0 c p :
  find_task ts t = Some (c0, p0) ->
  (mu_tasks (put_task ts t (c, p)) + rank p0 = mu_tasks ts + rank p)%nat.
Proof.
  induction ts as [|[t' [c' p']] ts IH]; simpl; [discriminate|].
  destruct (Nat.eqb t t') eqn:E; simpl.
  - intros H. inversion H; subst. lia.
  - intros H. specialize (IH H). lia.
Qed.

Lemma mt_remove ts t c0 p0 :
  find_task ts t = Some (c0, p0) -> (mu_tasks (remove_task ts t) + rank p0 <= mu_tasks ts)%nat.
Proof.
  induction ts as [|[t' [c' p']] ts IH]; simpl; [discriminate|].
  destruct (Nat.eqb t t') eqn:E; simpl.
  - intros H. inversion H; subst. clear IH.
    assert (Hle : forall l, (mu_tasks (remove_task l t) <= mu_tasks l)%nat).
    { induction l as [|[t1 [c1 p1]] l IHl]; simpl; auto. destruct (Nat.eqb t t1); simpl; lia. }
    specialize (Hle ts). lia.
  - intros H. specialize (IH H). lia.
Qed.

Lemma rank_granted p : (rank (granted_pc p) <= rank p)%nat.
Proof. destruct p; simpl; lia. Qed.

Lemma mt_rel q ts : (mu_tasks (rel_tasks q ts) <= mu_tasks ts)%nat.
Proof.
  unfold rel_tasks. destruct q as [|t1 q]; auto.
  destruct (find_task ts t1) as [[c p]|] eqn:E; auto.
  pose proof (mt_put_existing ts t1 c p c (granted_pc p) E). pose proof (rank_granted p). lia.
Qed.

Lemma find_rel_other q ts t :
  (forall t1 q', q = t1 :: q' -> t1 <> t) -> find_task (rel_tasks q ts) t = find_task ts t.
Proof.
  intros Hn. unfold rel_tasks. destruct q as [|t1 q']; auto.
  destruct (find_task ts t1) as [[c p]|]; auto. apply find_put_neq. intros ->. eapply Hn; eauto.
Qed.

Lemma holder_find_rel s t :
  LkS s -> holder s = Some t -> find_task (rel_tasks (lockq s) (tasks s)) t = find_task (tasks s) t.
Proof.
  intros HL Hh. apply find_rel_other. intros t1 q' Eq. unfold LkS in HL. rewrite Hh in HL.
  eapply Lk_head_neq; eauto.
Qed.

(** the three shapes of a step of task [t] *)
Lemma mu_inside s s' t c p c' p' :
  find_task (tasks s) t = Some (c, p) -> tasks s' = put_task (tasks s) t (c', p') ->
  (rank p' + sc s' < rank p + sc s)%nat -> (mu s' < mu s)%nat.
Proof.
  intros Hf Et Hlt. unfold mu. rewrite Et. pose proof (mt_put_existing _ _ _ _ c' p' Hf). lia.
Qed.

Lemma mu_leave s s' t c p :
  LkS s -> holder s = Some t -> find_task (tasks s) t = Some (c, p) ->
  tasks s' = remove_task (rel_tasks (lockq s) (tasks s)) t -> sc s' = sc s -> (mu s' < mu s)%nat.
Proof.
  intros HL Hh Hf Et Es. unfold mu. rewrite Et, Es.
  pose proof (holder_find_rel _ _ HL Hh) as Hfr. rewrite Hf in Hfr.
  pose proof (mt_remove _ _ _ _ Hfr). pose proof (mt_rel (lockq s) (tasks s)). pose proof (rank_pos p). lia.
Qed.

Lemma mu_leave_put s s' t c p c' p' :
  LkS s -> holder s = Some t -> find_task (tasks s) t = Some (c, p) ->
  tasks s' = put_task (rel_tasks (lockq s) (tasks s)) t (c', p') -> sc s' = sc s ->
  (rank p' < rank p)%nat -> (mu s' < mu s)%nat.
Proof.
  intros HL Hh Hf Et Es Hlt. unfold mu. rewrite Et, Es.
  pose proof (holder_find_rel _ _ HL Hh) as Hfr. rewrite Hf in Hfr.
  pose proof (mt_put_existing _ _ _ _ c' p' Hfr). pose proof (mt_rel (lockq s) (tasks s)). lia.
Qed.

Lemma mu_free_leave s s' t c p :
  find_task (tasks s) t = Some (c, p) -> tasks s' = remove_task (tasks s) t -> sc s' = sc s -> (mu s' < mu s)%nat.
Proof.
  intros Hf Et Es. unfold mu. rewrite Et, Es. pose proof (mt_remove _ _ _ _ Hf). pose proof (rank_pos p). lia.
Qed.

Ltac mu_in Hf := eapply mu_inside; [exact Hf | fsimpl; reflexivity | unfold sc; fsimpl; simpl; try lia].
Ltac mu_lv HL Hh Hf := eapply mu_leave; [exact HL | exact Hh | exact Hf | fsimpl; reflexivity | unfold sc; fsimpl; reflexivity].
Ltac mu_lp HL Hh Hf := eapply mu_leave_put; [exact HL | exact Hh | exact Hf | fsimpl; reflexivity | unfold sc; fsimpl; reflexivity | simpl; lia].

Lemma mu_refuse s t c c0 p :
  LkS s -> holder s = Some t -> find_task (tasks s) t = Some (c0, p) -> (mu (refuse s t c) < mu s)%nat.
Proof.
  intros HL Hh Hf. unfold refuse.
  destruct (is_cont c); [destruct (cont_closed (release s))|]; mu_lv HL Hh Hf.
Qed.

Lemma mu_close_trigger s t c0 p :
  LkS s -> holder s = Some t -> find_task (tasks s) t = Some (c0, p) -> (33 <= rank p)%nat ->
  (mu (close_trigger s t) < mu s)%nat.
Proof.
  intros HL Hh Hf Hr. unfold close_trigger, close_enter_closed.
  destruct (st_fsm s); try (mu_in Hf; fail).
  - destruct (runt s) eqn:Er; mu_in Hf.
  - mu_lv HL Hh Hf.
Qed.

Lemma mu_enter_close s t c0 p :
  LkS s -> FI s -> holder s = Some t -> find_task (tasks s) t = Some (c0, p) -> (34 <= rank p)%nat ->
  (mu (enter_close s t) < mu s)%nat.
Proof.
  intros HL HF Hh Hf Hr. unfold enter_close.
  assert (Hmu : mu (publish s PEndAll) = mu s) by reflexivity.
  assert (HL1 : LkS (publish s PEndAll)) by exact HL.
  destruct (st_fsm (publish s PEndAll)) eqn:Efs; simpl in Efs;
    try (rewrite <- Hmu; eapply mu_close_trigger; eauto; lia).
  simpl. rewrite (FI_rf _ HF Efs). mu_in Hf.
Qed.

Lemma mu_enter (s : state) (t : nat) (c : call) (part2 : bool) (p : pc) :
  LkS s -> FI s -> holder s = Some t -> find_task (tasks s) t = Some (c, p) ->
  p = (if part2 then Granted2 else Granted1) -> compat c p = true ->
  (mu (enter s t c part2) < mu s)%nat.
Proof.
  intros HL HF Hh Hf Hp Hc.
  assert (Hrun : (mu (enter_run s t c) < mu s)%nat).
  { unfold enter_run. destruct (st_fsm s) eqn:Efs; try (eapply mu_refuse; eauto).
    assert (Hr : runt s = None) by (destruct HF as [_ HS]; eapply Scal_idle; eauto; congruence).
    mu_in Hf. rewrite Hr. destruct part2; subst p; simpl; lia. }
  assert (Hst : part2 = false -> (mu (enter_start s t c) < mu s)%nat).
  { intros ->. unfold enter_start. destruct (st_fsm s); try (eapply mu_refuse; eauto).
    mu_in Hf. subst p. simpl. lia. }
  unfold enter. destruct c; auto; try (destruct part2; subst p; discriminate).
  - destruct part2; [subst p; discriminate | auto].
  - unfold enter_reset. destruct (st_fsm s); try (eapply mu_refuse; eauto);
      (destruct (o_stmt o); mu_in Hf; destruct part2; subst p; simpl; lia).
  - destruct part2; auto. eapply mu_enter_close; eauto. subst p. simpl. lia.
Qed.

Lemma requeue_inv s t :
  LkS s -> FI s -> holder s = Some t -> lockq s = [] ->
  LkS (set_pc (set_holder (release s) (Some t)) t CClose Granted2) /\
  FI (set_pc (set_holder (release s) (Some t)) t CClose Granted2).
Proof.
  intros HL HF Hh Eq. pose proof HL as HL0. unfold LkS in HL0. rewrite Hh in HL0.
  pose proof (Lk_release_forget _ _ _ HL0) as HFg. destruct HF as [HP HS]. split.
  - unfold LkS. simpl. rewrite ?release_lockq, ?release_tasks, ?Eq. rewrite Eq in HFg. apply Lk_readd_take; auto.
  - split; simpl.
    + rewrite rl_fsm, release_tasks. apply PcOk_release_put; auto.
    + rewrite rl_fsm, rl_runt, rl_rf, rl_alive, rl_pe, rl_ra. exact HS.
Qed.

Lemma mu_do_step s t : LkS s -> FI s -> (mu (do_step s t) < mu s)%nat \/ do_step s t = s.
Proof.
  intros HL HF. unfold do_step. destruct (find_task (tasks s) t) as [[c p]|] eqn:Ef; auto.
  pose proof (lk_compat _ _ _ HL _ _ _ Ef) as Hc.
  assert (Hhold : locked_pc p = true -> holder s = Some t) by (intros Hl; eapply (lk_holder_of _ _ _ HL); eauto).
  destruct p; simpl in Hhold; try specialize (Hhold eq_refl); auto.
  - left. eapply mu_enter; eauto.
  - left. eapply mu_enter; eauto.
  - left. mu_in Ef.
  - left. mu_in Ef.
  - (* S_G3 *) left. destruct c; simpl in Hc; try discriminate.
    + mu_lv HL Hhold Ef.
    + destruct (lockq s) as [|t1 q] eqn:Eq.
      * rewrite acquire_free by (rewrite ?release_holder, ?release_lockq, Eq; reflexivity).
        destruct (requeue_inv s t HL HF Hhold Eq) as (HL2 & HF2).
        set (s2 := set_pc (set_holder (release s) (Some t)) t CClose Granted2) in *.
        assert (H1 : (mu s2 < mu s)%nat).
        { unfold s2. eapply mu_leave_put; [exact HL | exact Hhold | exact Ef | fsimpl; reflexivity
                                          | unfold sc; fsimpl; reflexivity | simpl; lia]. }
        assert (H2 : (mu (enter s2 t CClose true) < mu s2)%nat).
        { eapply mu_enter; eauto; try reflexivity. unfold s2. simpl. apply find_put_eq. }
        lia.
      * rewrite (acquire_busy _ _ _ _ t1) by (rewrite release_holder, Eq; reflexivity).
        eapply mu_leave_put; [exact HL | exact Hhold | exact Ef | fsimpl; rewrite Eq; reflexivity
                             | unfold sc; fsimpl; reflexivity | simpl; lia].
  - destruct (started_ev s); auto. left. mu_in Ef.
  - (* R_G *) left. destruct c; simpl in Hc; try discriminate; first [mu_lv HL Hhold Ef | mu_lp HL Hhold Ef].
  - destruct c; simpl in Hc; try discriminate. left. mu_in Ef.
  - (* Z_G1b *) left. unfold reset_reinit. destruct (st_fsm s); try (mu_in Ef; fail).
    destruct (runt s); mu_in Ef.
  - unfold reset_reinit. destruct (runt s); auto. left. mu_in Ef.
  - left. mu_in Ef.
  - left. mu_lv HL Hhold Ef.
  - (* C_WaitRunFinished *) destruct (run_finished s) as [[|]|]; auto.
    left. eapply mu_close_trigger; eauto; simpl; lia.
  - unfold close_enter_closed. destruct (runt s); auto. left. mu_in Ef.
  - left. mu_in Ef.
  - left. mu_lv HL Hhold Ef.
  - (* P_WaitRunFinished *) destruct (run_finished s) as [[|]|]; auto.
    left. eapply mu_free_leave; [exact Ef | reflexivity | reflexivity].
  - left. eapply mu_free_leave; [exact Ef | reflexivity | reflexivity].
Qed.

Lemma sc_run_finish s : (sc (run_finish s) <= 3 + 2 * alive s + pe_n (pending_exit s))%nat.
Proof.
  unfold run_finish. simpl. destruct (st_fsm s); unfold sc; simpl; rewrite ?cf_alive, ?cf_pe; simpl; lia.
Qed.

Lemma tasks_run_finish s : tasks (run_finish s) = tasks s.
Proof. apply (slk_run_finish s). Qed.

Lemma mu_step_run s : (mu (do_step_run s) < mu s)%nat \/ do_step_run s = s.
Proof.
  unfold do_step_run. destruct (runt s) as [x|] eqn:Er; auto.
  assert (Hrf : forall s1, tasks s1 = tasks s -> alive s1 = alive s ->
                           (pe_n (pending_exit s1) + 4 <= rank_r (runt s) + pe_n (pending_exit s))%nat ->
                           (mu (run_finish s1) < mu s)%nat).
  { intros s1 Et Ea Hr. unfold mu. rewrite tasks_run_finish, Et.
    pose proof (sc_run_finish s1). unfold sc at 2. rewrite Ea in *. lia. }
  destruct x.
  - left. destruct (run_arg s).
    + unfold mu, sc. simpl. rewrite Er. simpl. lia.
    + apply Hrf; auto. rewrite Er. cbn [rank_r]. lia.
  - left. simpl. destruct (run_arg s).
    + unfold mu, sc. simpl. rewrite Er. simpl. lia.
    + apply Hrf; auto. rewrite Er. cbn [rank_r]. simpl. lia.
  - left. unfold mu, sc. simpl. rewrite Er. simpl. lia.
  - destruct (run_call_pending s); auto. destruct (pending_exit s) as [o|] eqn:Epe; auto.
    left. simpl. destruct (run_arg s).
    + unfold mu, sc. simpl. rewrite Er, Epe. simpl. lia.
    + apply Hrf; auto. rewrite Er, ?Epe. simpl. lia.
  - left. apply Hrf; auto. rewrite Er. cbn [rank_r]. lia.
  - left. unfold mu, sc. simpl. rewrite Er. simpl. lia.
  - left. unfold mu, sc. simpl. rewrite Er. simpl. lia.
Qed.

Lemma mu_child_exit s o : (mu (do_child_exit s o) < mu s)%nat \/ do_child_exit s o = s.
Proof.
  unfold do_child_exit. destruct (alive s) as [|n] eqn:Ea; auto.
  left. unfold mu, sc. simpl. rewrite Ea. destruct (pending_exit s); simpl; lia.
Qed.

Definition internal (l : label) : bool := match l with Call _ _ => false | _ => true end.

Theorem measure_decreases : forall stmt start th md ls l,
  let s := run_labels (init_state stmt start th md) ls in
  internal l = true -> step s l <> s -> (mu (step s l) < mu s)%nat.
Proof.
  intros stmt start th md ls l s Hi Hne. destruct (all_inv stmt start th md ls) as (HL & HF & HC).
  fold s in HL, HF. destruct l; try discriminate; simpl in *.
  - destruct (mu_do_step s t HL HF); auto. contradiction.
  - destruct (mu_step_run s); auto. contradiction.
  - destruct (mu_child_exit s o); auto. contradiction.
Qed.

(** ---- the recorded finding, formally: close() while the child never exits ---- *)
Definition stuck_labels : list label :=
  [Call 0 CStart; Step 0; Step 0; Step 0;            (* start(): initialized *)
   Call 0 CRun; StepRun; StepRun; StepRun;           (* run(): the child is created, the run waits for it *)
   Step 0; Step 0;                                   (* run() publishes `running` and returns *)
   Call 1 CClose]%nat.                               (* close() from another task *)

Definition stuck_state : state := run_labels (init_state 0 1 false false) stuck_labels.

Lemma stuck_witness :
  find_task (tasks stuck_state) 1%nat = Some (CClose, C_WaitRunFinished) /\
  st_fsm stuck_state = Running /\ runt stuck_state = Some RT_WaitChild /\
  alive stuck_state = 1%nat /\ pending_exit stuck_state = None /\
  (forall t, step stuck_state (Step t) = stuck_state) /\
  step stuck_state StepRun = stuck_state /\
  (forall o, step stuck_state (ChildExit o) <> stuck_state) /\
  (* once the child exits, the same close completes *)
  (let s' := run_labels stuck_state [ChildExit OReturn; StepRun; StepRun; StepRun; StepRun;
                                    Step 1; Step 1; Step 1]%nat in
   st_fsm s' = Closed /\ tasks s' = [] /\ alive s' = 0%nat /\
   hd_error (trace s') = Some (EvRet 1%nat CClose ROk)).
Proof.
  remember stuck_state as s eqn:Es. vm_compute in Es. subst s.
  repeat split; try (vm_compute; reflexivity).
  - intros t. simpl. unfold do_step. simpl find_task.
    destruct (Nat.eqb t 1); reflexivity.
  - intros o. simpl. unfold do_child_exit. simpl. intros H.
    apply (f_equal alive) in H. simpl in H. discriminate.
Qed.

(** ---- `_run_finished` exists as soon as a run was started ---- *)
Definition JI (s : state) : Prop :=
  run_finished s = None -> st_fsm s <> Running /\ st_fsm s <> Finished.

Ltac ji HJ := unfold JI in *; fsimpl; rewrite ?cf_rf, ?cf_fsm; simpl;
  first [ exact HJ | intros _; split; discriminate | intros; discriminate ].

Lemma JI_refuse s t c : JI s -> JI (refuse s t c).
Proof. intros HJ. unfold refuse. destruct (is_cont c); [destruct (cont_closed (release s))|]; ji HJ. Qed.

Lemma JI_close_trigger s t : JI s -> JI (close_trigger s t).
Proof.
  intros HJ. unfold close_trigger, close_enter_closed.
  destruct (st_fsm s) eqn:Efs; try destruct (runt s); try (ji HJ);
    unfold JI in *; fsimpl; rewrite ?Efs; try exact HJ; intros; split; discriminate.
Qed.

Lemma JI_enter_close s t : JI s -> JI (enter_close s t).
Proof.
  intros HJ. unfold enter_close. assert (HJ1 : JI (publish s PEndAll)) by exact HJ.
  destruct (st_fsm (publish s PEndAll)) eqn:Efs; try (apply JI_close_trigger; exact HJ1).
  destruct (run_finished (publish s PEndAll)) as [[|]|] eqn:Erf;
    [apply JI_close_trigger; exact HJ1 | ji HJ | ji HJ].
Qed.

Lemma JI_enter s t c b : JI s -> JI (enter s t c b).
Proof.
  intros HJ. unfold enter, enter_start, enter_run, enter_reset.
  destruct c; auto; try (destruct b; [apply JI_enter_close; auto|]);
    destruct (st_fsm s); try (apply JI_refuse; auto); try (destruct (o_stmt o)); ji HJ.
Qed.

Lemma JI_acquire s t c b : JI s -> JI (acquire s t c b).
Proof.
  intros HJ. unfold acquire. destruct (holder s); [exact HJ|]. destruct (lockq s); [|exact HJ].
  apply JI_enter. exact HJ.
Qed.

Lemma JI_step s l : JI s -> JI (step s l).
Proof.
  intros HJ. destruct l as [t c | t | | o]; simpl.
  - unfold do_call. destruct (find_task (tasks s) t); auto.
    destruct c; cbn [nl_started nl_closed cont_closed running_process send_command set_trace];
      repeat match goal with |- context [if ?b then _ else _] => destruct b end;
      try (apply JI_acquire); exact HJ.
  - unfold do_step. destruct (find_task (tasks s) t) as [[c p]|]; auto.
    destruct p; auto;
    first [ apply JI_enter; exact HJ
          | solve [ji HJ]
          | solve [destruct c; try (ji HJ); apply JI_acquire; ji HJ]
          | solve [destruct (started_ev s); auto; ji HJ]
          | solve [destruct c; auto; ji HJ]
          | solve [unfold reset_reinit; destruct (st_fsm s) eqn:Efs; try (ji HJ); destruct (runt s); ji HJ]
          | solve [unfold reset_reinit; destruct (runt s); auto; ji HJ]
          | solve [destruct (run_finished s) as [[|]|]; auto; apply JI_close_trigger; auto]
          | solve [unfold close_enter_closed; destruct (runt s); auto; ji HJ]
          | solve [destruct (run_finished s) as [[|]|]; auto; ji HJ] ].
  - assert (Hrf : forall s1, run_finished s1 = run_finished s -> st_fsm s1 = st_fsm s -> JI (run_finish s1)).
    { intros s1 E1 E2. unfold run_finish. simpl. rewrite E2. destruct (st_fsm s) eqn:Efs; try (unfold JI; simpl; intros; discriminate).
      unfold JI in *. simpl. rewrite cf_rf. simpl. rewrite E1. intros H. destruct (HJ H). congruence. }
    unfold do_step_run. destruct (runt s) as [[]|]; auto;
      first [ solve [ji HJ]
            | solve [destruct (run_arg s); [exact HJ | apply Hrf; auto]]
            | solve [simpl; destruct (run_arg s); [exact HJ | apply Hrf; auto]]
            | solve [destruct (run_call_pending s); auto; destruct (pending_exit s); auto; simpl;
                     destruct (run_arg s); [exact HJ | apply Hrf; auto]]
            | solve [apply Hrf; auto] ].
  - unfold do_child_exit. destruct (alive s); auto.
Qed.

Lemma JI_reachable a b c d ls : JI (run_labels (init_state a b c d) ls).
Proof.
  unfold run_labels. assert (H0 : JI (init_state a b c d)) by (unfold JI; simpl; intros _; split; discriminate).
  revert H0. generalize (init_state a b c d).
  induction ls as [|l ls IH]; intros s HJ; simpl; auto. apply IH. apply JI_step. exact HJ.
Qed.

(** ---- which labels are enabled ---- *)
Definition blocked (s : state) (t : nat) : bool :=
  match find_task (tasks s) t with
  | None => true
  | Some (c, p) =>
    match p with
    | WaitLock1 | WaitLock2 => true
    | R_WaitStarted => if started_ev s then false else true
    | P_WaitRunFinished | C_WaitRunFinished => match run_finished s with Some true => false | _ => true end
    | Z_WaitRunTask | C_WaitRunTask => match runt s with None => false | Some _ => true end
    | Z_G1 => match c with CReset _ => false | _ => true end
    | _ => false
    end
  end.

Definition run_blocked (s : state) : bool :=
  match runt s with
  | None => true
  | Some RT_WaitChild =>
    if run_call_pending s then true else match pending_exit s with None => true | Some _ => false end
  | Some _ => false
  end.

Ltac en tac := split; [let H := fresh in intros H; discriminate H | intros _; tac].
Ltac bl := split; [intros _; reflexivity | let H := fresh in intros H; discriminate H].

Lemma do_step_progress s t : LkS s -> FI s ->
  (blocked s t = true -> do_step s t = s) /\ (blocked s t = false -> (mu (do_step s t) < mu s)%nat).
Proof.
  intros HL HF. unfold blocked, do_step. destruct (find_task (tasks s) t) as [[c p]|] eqn:Ef; [|bl].
  pose proof (lk_compat _ _ _ HL _ _ _ Ef) as Hc.
  assert (Hhold : locked_pc p = true -> holder s = Some t) by (intros Hl; eapply (lk_holder_of _ _ _ HL); eauto).
  destruct p; simpl in Hhold; try specialize (Hhold eq_refl); try bl.
  - en ltac:(eapply mu_enter; eauto).
  - en ltac:(eapply mu_enter; eauto).
  - en ltac:(mu_in Ef).
  - en ltac:(mu_in Ef).
  - (* S_G3 *) en ltac:(idtac). destruct c; simpl in Hc; try discriminate.
    + mu_lv HL Hhold Ef.
    + destruct (lockq s) as [|t1 q] eqn:Eq.
      * rewrite acquire_free by (rewrite ?release_holder, ?release_lockq, Eq; reflexivity).
        destruct (requeue_inv s t HL HF Hhold Eq) as (HL2 & HF2).
        set (s2 := set_pc (set_holder (release s) (Some t)) t CClose Granted2) in *.
        assert (H1 : (mu s2 < mu s)%nat).
        { unfold s2. eapply mu_leave_put; [exact HL | exact Hhold | exact Ef | fsimpl; reflexivity
                                          | unfold sc; fsimpl; reflexivity | simpl; lia]. }
        assert (H2 : (mu (enter s2 t CClose true) < mu s2)%nat).
        { eapply mu_enter; eauto; try reflexivity. unfold s2. simpl. apply find_put_eq. }
        lia.
      * rewrite (acquire_busy _ _ _ _ t1) by (rewrite release_holder, Eq; reflexivity).
        eapply mu_leave_put; [exact HL | exact Hhold | exact Ef | fsimpl; rewrite Eq; reflexivity
                             | unfold sc; fsimpl; reflexivity | simpl; lia].
  - destruct (started_ev s); [en ltac:(mu_in Ef) | bl].
  - (* R_G *) en ltac:(idtac). destruct c; simpl in Hc; try discriminate; first [mu_lv HL Hhold Ef | mu_lp HL Hhold Ef].
  - destruct c; simpl in Hc; try discriminate. en ltac:(mu_in Ef).
  - (* Z_G1b *) en ltac:(idtac). unfold reset_reinit. destruct (st_fsm s); try (mu_in Ef; fail).
    destruct (runt s); mu_in Ef.
  - unfold reset_reinit. destruct (runt s); [bl | en ltac:(mu_in Ef)].
  - en ltac:(mu_in Ef).
  - en ltac:(mu_lv HL Hhold Ef).
  - (* C_WaitRunFinished *) destruct (run_finished s) as [[|]|]; try bl.
    en ltac:(eapply mu_close_trigger; eauto; simpl; lia).
  - unfold close_enter_closed. destruct (runt s); [bl | en ltac:(mu_in Ef)].
  - en ltac:(mu_in Ef).
  - en ltac:(mu_lv HL Hhold Ef).
  - (* P_WaitRunFinished *) destruct (run_finished s) as [[|]|]; try bl.
    en ltac:(eapply mu_free_leave; [exact Ef | reflexivity | reflexivity]).
  - en ltac:(eapply mu_free_leave; [exact Ef | reflexivity | reflexivity]).
Qed.

Lemma step_run_progress s :
  (run_blocked s = true -> do_step_run s = s) /\ (run_blocked s = false -> (mu (do_step_run s) < mu s)%nat).
Proof.
  unfold run_blocked, do_step_run. destruct (runt s) as [x|] eqn:Er; [|bl].
  assert (Hrf : forall s1, tasks s1 = tasks s -> alive s1 = alive s ->
                           (pe_n (pending_exit s1) + 4 <= rank_r (runt s) + pe_n (pending_exit s))%nat ->
                           (mu (run_finish s1) < mu s)%nat).
  { intros s1 Et Ea Hr. unfold mu. rewrite tasks_run_finish, Et.
    pose proof (sc_run_finish s1). unfold sc at 2. rewrite Ea in *. lia. }
  destruct x.
  - en ltac:(idtac). destruct (run_arg s).
    + unfold mu, sc. simpl. rewrite Er. simpl. lia.
    + apply Hrf; auto. rewrite Er. cbn [rank_r]. lia.
  - en ltac:(idtac). simpl. destruct (run_arg s).
    + unfold mu, sc. simpl. rewrite Er. simpl. lia.
    + apply Hrf; auto. rewrite Er. cbn [rank_r]. simpl. lia.
  - en ltac:(idtac). unfold mu, sc. simpl. rewrite Er. simpl. lia.
  - destruct (run_call_pending s); [bl|]. destruct (pending_exit s) as [o|] eqn:Epe; [|bl].
    en ltac:(idtac). simpl. destruct (run_arg s).
    + unfold mu, sc. simpl. rewrite Er, Epe. simpl. lia.
    + apply Hrf; auto. rewrite Er, ?Epe. simpl. lia.
  - en ltac:(idtac). apply Hrf; auto. rewrite Er. cbn [rank_r]. lia.
  - en ltac:(idtac). unfold mu, sc. simpl. rewrite Er. simpl. lia.
  - en ltac:(idtac). unfold mu, sc. simpl. rewrite Er. simpl. lia.
Qed.

Definition all_blocked (s : state) : bool := forallb (fun x => blocked s (fst x)) (tasks s).

Lemma find_in ts t x : find_task ts t = Some x -> In (t, x) ts.
Proof.
  induction ts as [|[t' y] ts IH]; simpl; [discriminate|].
  destruct (Nat.eqb t t') eqn:E.
  - intros H. inversion H; subst. apply Nat.eqb_eq in E. subst. left. reflexivity.
  - intros H. right. auto.
Qed.

Lemma all_blocked_spec s t x : all_blocked s = true -> find_task (tasks s) t = Some x -> blocked s t = true.
Proof.
  intros Hb Hf. unfold all_blocked in Hb. rewrite forallb_forall in Hb.
  apply (Hb (t, x)). apply find_in. exact Hf.
Qed.

Lemma not_all_blocked s : all_blocked s = false -> exists t, blocked s t = false.
Proof.
  unfold all_blocked. generalize (tasks s) at 1. intros l. induction l as [|x l IH]; simpl; [discriminate|].
  destruct (blocked s (fst x)) eqn:E; simpl; eauto.
Qed.

Definition waits_only_child (s : state) : Prop :=
  runt s = Some RT_WaitChild /\ pending_exit s = None /\ alive s = 1%nat /\
  run_call_pending s = false /\ st_fsm s = Running /\
  (exists h c, holder s = Some h /\ find_task (tasks s) h = Some (c, C_WaitRunFinished)) /\
  (forall t c p, find_task (tasks s) t = Some (c, p) ->
     p = WaitLock1 \/ p = WaitLock2 \/ p = C_WaitRunFinished \/ p = P_WaitRunFinished).

Lemma no_deadlock_inv s :
  LkS s -> FI s -> CI s -> JI s ->
  (exists t c p, find_task (tasks s) t = Some (c, p) /\ compat CClose p = true) ->
  (exists t', (mu (step s (Step t')) < mu s)%nat) \/
  (mu (step s StepRun) < mu s)%nat \/
  (waits_only_child s /\
   forall o, (mu (step s (ChildExit o)) < mu s)%nat /\ run_blocked (step s (ChildExit o)) = false).
Proof.
  intros HL HF HC HJ (t0 & c0 & p0 & Ef0 & Hlk).
  destruct (all_blocked s) eqn:Hab.
  2:{ left. destruct (not_all_blocked _ Hab) as (t' & Hb). exists t'. simpl.
      apply (do_step_progress s t' HL HF). exact Hb. }
  destruct (run_blocked s) eqn:Hrb.
  2:{ right. left. simpl. apply (step_run_progress s). exact Hrb. }
  right. right. pose proof HF as [HP HS].
  (* the lock holder *)
  assert (Hholder : exists h ch ph, holder s = Some h /\ find_task (tasks s) h = Some (ch, ph) /\ locked_pc ph = true).
  { pose proof (all_blocked_spec _ _ _ Hab Ef0) as Hb0. unfold blocked in Hb0. rewrite Ef0 in Hb0.
    assert (Hcase : waitlock p0 = true \/ locked_pc p0 = true) by (destruct p0; simpl in *; auto; discriminate).
    destruct Hcase as [Hw | Hl].
    - pose proof (lk_wait_q _ _ _ HL _ _ _ Ef0 Hw) as Hin.
      destruct (holder s) as [h|] eqn:Eh.
      + destruct (lk_holder_has _ _ _ HL h Eh) as (ch & ph & Hfh & Hlh). exists h, ch, ph. auto.
      + exfalso. apply (lk_q_holder _ _ _ HL); auto. intros E. rewrite E in Hin. destruct Hin.
    - exists t0, c0, p0. repeat split; auto. eapply (lk_holder_of _ _ _ HL); eauto. }
  destruct Hholder as (h & ch & ph & Hh & Efh & Hlh).
  pose proof (all_blocked_spec _ _ _ Hab Efh) as Hbh. unfold blocked in Hbh. rewrite Efh in Hbh.
  pose proof (HP _ _ _ Efh) as Hokh. pose proof (lk_compat _ _ _ HL _ _ _ Efh) as Hch.
  pose proof (ci_tasks _ HC _ _ _ Efh) as (_ & _ & _ & Hq4).
  assert (Hlate : forall x, runt s = Some x -> st_fsm s <> Running -> run_blocked s = false).
  { intros x Er Hnr. unfold run_blocked. rewrite Er.
    destruct (early x) eqn:Ee; [exfalso; apply Hnr; eapply sc_early; eauto|].
    destruct x; simpl in Ee; try discriminate; reflexivity. }
  destruct ph; simpl in Hlh; try discriminate; try discriminate Hbh.
  - (* R_WaitStarted, `started` not set: the run task has not reached the wait for the child *)
    exfalso. destruct (Hq4 eq_refl) as (Hrun & Hrws).
    destruct (started_ev s) eqn:Esev; [discriminate|].
    unfold run_blocked in Hrb. destruct (runt s) as [[]|] eqn:Er; simpl in Hrws; try discriminate.
    pose proof (ci_sev _ HC _ Er eq_refl). congruence.
  - (* Z_G1 with a call that is not reset: excluded by [compat] *)
    destruct ch; simpl in Hch; discriminate.
  - (* Z_WaitRunTask *)
    exfalso. destruct (runt s) as [x|] eqn:Er; [|discriminate].
    rewrite (Hlate x eq_refl) in Hrb; [discriminate|]. intros E. rewrite E in Hokh. discriminate.
  - (* C_WaitRunFinished *)
    destruct (run_finished s) as [[|]|] eqn:Erf; try discriminate.
    2:{ exfalso. destruct (HJ Erf) as (H1 & H2). simpl in Hokh. destruct (st_fsm s); try discriminate; congruence. }
    destruct (runt s) as [x|] eqn:Er.
    2:{ exfalso. apply (sc_rf_none _ _ _ _ _ _ HS); auto. }
    assert (Hpend : run_call_pending s = false) by (unfold run_call_pending; rewrite Hh, Efh; reflexivity).
    assert (Hx : x = RT_WaitChild /\ pending_exit s = None).
    { unfold run_blocked in Hrb. rewrite Er, Hpend in Hrb. destruct x; try discriminate.
      destruct (pending_exit s); [discriminate | auto]. }
    destruct Hx as (-> & Hpe).
    assert (Hrun : st_fsm s = Running) by (eapply sc_early; eauto).
    assert (Hal : alive s = 1%nat).
    { pose proof (sc_child _ _ _ _ _ _ HS) as Hch'. rewrite ?Er in Hch'. simpl in Hch'.
      destruct Hch' as [(? & _) | (_ & Hne)]; auto. congruence. }
    split.
    + repeat split; auto. { exists h, ch. auto. }
      intros t c p Ef. pose proof (all_blocked_spec _ _ _ Hab Ef) as Hb. unfold blocked in Hb. rewrite Ef in Hb.
      pose proof (HP _ _ _ Ef) as Hok. rewrite Hrun in Hok.
      pose proof (lk_compat _ _ _ HL _ _ _ Ef) as Hcc.
      destruct p; simpl in Hok; try discriminate; auto.
      rewrite (ci_sev _ HC _ Er eq_refl) in Hb. discriminate.
    + intros o. simpl. unfold do_child_exit. rewrite Hal. split.
      * unfold mu, sc. simpl. rewrite Hal, Hpe. simpl. lia.
      * unfold run_blocked. simpl. rewrite Er. change (run_call_pending _) with (run_call_pending s).
        rewrite Hpend. reflexivity.
  - (* C_WaitRunTask *)
    exfalso. destruct (runt s) as [x|] eqn:Er; [|discriminate].
    rewrite (Hlate x eq_refl) in Hrb; [discriminate|]. intros E. rewrite E in Hokh. discriminate.
Qed.

(** ---- a call in flight stays in the table while other tasks move ---- *)
Definition Pers (ts ts' : ttab) (t : nat) : Prop :=
  forall c p, find_task ts t = Some (c, p) -> exists p', find_task ts' t = Some (c, p').

Lemma pers_refl ts t : Pers ts ts t.
Proof. intros c p H. eauto. Qed.
Lemma pers_trans a b c t : Pers a b t -> Pers b c t -> Pers a c t.
Proof. intros H1 H2 c0 p Hf. destruct (H1 _ _ Hf) as (p1 & Hf1). eauto. Qed.
Lemma pers_put ts t t' x : t <> t' -> Pers ts (put_task ts t' x) t.
Proof. intros Hn c p Hf. exists p. rewrite find_put_neq; auto. Qed.
Lemma pers_remove ts t t' : t <> t' -> Pers ts (remove_task ts t') t.
Proof. intros Hn c p Hf. exists p. rewrite find_remove_neq; auto. Qed.
Lemma pers_rel q ts t : Pers ts (rel_tasks q ts) t.
Proof.
  intros c p Hf. unfold rel_tasks. destruct q as [|t1 q]; eauto.
  destruct (find_task ts t1) as [[c1 p1]|] eqn:E; eauto.
  destruct (Nat.eq_dec t t1) as [->|Hn].
  - rewrite find_put_eq. rewrite Hf in E. inversion E; subst. eauto.
  - rewrite find_put_neq by assumption. eauto.
Qed.

Lemma pers_HRes s t' s' t : t <> t' -> HRes s t' s' -> Pers (tasks s) (tasks s') t.
Proof.
  intros Hn [(_ & _ & c & p & _ & _ & E) | [(_ & _ & E) | (_ & _ & c & p & _ & _ & _ & E)]]; rewrite E.
  - apply pers_put; auto.
  - eapply pers_trans; [apply pers_rel | apply pers_remove; auto].
  - eapply pers_trans; [apply pers_rel | apply pers_put; auto].
Qed.

Ltac pers_tac Hn :=
  fsimpl;
  first [ apply pers_refl
        | apply pers_put; exact Hn
        | apply pers_remove; exact Hn
        | eapply pers_trans; [apply pers_rel | apply pers_remove; exact Hn]
        | eapply pers_trans; [apply pers_rel | apply pers_put; exact Hn] ].

Lemma do_step_other s t' t : LkS s -> t <> t' -> Pers (tasks s) (tasks (do_step s t')) t.
Proof.
  intros HL Hn. unfold do_step. destruct (find_task (tasks s) t') as [[c p]|] eqn:Ef; [|apply pers_refl].
  pose proof (lk_compat _ _ _ HL _ _ _ Ef) as Hc.
  destruct p; try (pers_tac Hn; fail).
  - apply (pers_HRes s t'); auto. apply HRes_enter; eauto.
  - apply (pers_HRes s t'); auto. apply HRes_enter; eauto.
  - (* S_G3 *) destruct c; simpl in Hc; try discriminate; [pers_tac Hn|].
    unfold acquire. rewrite release_holder, release_lockq.
    destruct (rel_holder (lockq s)); [pers_tac Hn|]. destruct (tl (lockq s)); [|pers_tac Hn].
    set (s2 := set_pc (set_holder (release s) (Some t')) t' CClose Granted2).
    eapply (pers_trans _ (tasks s2)); [unfold s2; pers_tac Hn|].
    apply (pers_HRes s2 t'); auto. apply HRes_enter_close.
  - destruct (started_ev s); pers_tac Hn.
  - destruct c; simpl in Hc; try discriminate; pers_tac Hn.
  - destruct c; simpl in Hc; try discriminate; pers_tac Hn.
  - unfold reset_reinit. destruct (st_fsm s); try (pers_tac Hn; fail). destruct (runt s); pers_tac Hn.
  - unfold reset_reinit. destruct (runt s); pers_tac Hn.
  - destruct (run_finished s) as [[|]|]; try apply pers_refl. apply (pers_HRes s t'); auto. apply HRes_close_trigger.
  - unfold close_enter_closed. destruct (runt s); pers_tac Hn.
  - destruct (run_finished s) as [[|]|]; pers_tac Hn.
Qed.

Definition HasC (ts : ttab) (t : nat) : Prop := exists p, find_task ts t = Some (CClose, p).

Lemma RetsClose_pre s s1 s' t : Quiet s s1 -> RetsClose s1 s' t -> RetsClose s s' t.
Proof.
  intros (n1 & E1 & H1) (new & E & Hn & Hsh & Hrest). exists (new ++ n1). split; [|split; [|split; auto]].
  - rewrite E, E1, app_assoc. reflexivity.
  - apply noret_app; auto.
  - apply close_shape_app; auto.
Qed.

Ltac hasc := left; eexists; fsimpl; apply find_put_eq.

Lemma own_close_trigger s t :
  In (EvPub PEndAll) (trace s) ->
  HasC (tasks (close_trigger s t)) t \/ RetsClose s (close_trigger s t) t.
Proof.
  intros Hin. unfold close_trigger, close_enter_closed. destruct (st_fsm s) eqn:Efs; try hasc.
  - destruct (runt s); hasc.
  - right. cc_cases s; (unfold RetsClose; ext_tac; fsimpl; repeat split; simpl; auto 8 using close_shape0, close_shape1).
Qed.

Lemma own_enter_close s t :
  (st_fsm s = Running -> run_finished s = Some false) ->
  HasC (tasks (enter_close s t)) t \/ RetsClose s (enter_close s t) t.
Proof.
  intros Hrf. unfold enter_close.
  assert (HQ : Quiet s (publish s PEndAll)) by quiet_tac.
  assert (Hct : HasC (tasks (close_trigger (publish s PEndAll) t)) t \/
                RetsClose s (close_trigger (publish s PEndAll) t) t).
  { destruct (own_close_trigger (publish s PEndAll) t) as [H|H]; [simpl; auto | auto |].
    right. eapply RetsClose_pre; eauto. }
  destruct (st_fsm (publish s PEndAll)) eqn:Efs; simpl in Efs; auto.
  simpl. rewrite (Hrf Efs). hasc.
Qed.

Lemma own_do_step s t p :
  LkS s -> FI s -> CI s -> find_task (tasks s) t = Some (CClose, p) ->
  HasC (tasks (do_step s t)) t \/ RetsClose s (do_step s t) t.
Proof.
  intros HL HF HC Ef. unfold do_step. rewrite Ef.
  pose proof (FI_rf _ HF) as Hrf. pose proof HF as [HP HS].
  pose proof (HP _ _ _ Ef) as Hok.
  pose proof (lk_compat _ _ _ HL _ _ _ Ef) as Hc.
  pose proof (ci_tasks _ HC _ _ _ Ef) as (Hq1 & Hq2 & Hq3 & Hq4).
  assert (Hsame : HasC (tasks s) t) by (exists p; exact Ef).
  destruct p; simpl in Hc; try discriminate; auto; try hasc.
  - (* Granted1: excluded *) destruct (Hq1 (or_intror eq_refl)) as (_ & Hn). congruence.
  - (* Granted2 *) unfold enter. apply own_enter_close. auto.
  - (* S_G3 *)
    unfold acquire. rewrite release_holder, release_lockq.
    destruct (rel_holder (lockq s)); [hasc|]. destruct (tl (lockq s)); [|hasc].
    set (s2 := set_pc (set_holder (release s) (Some t)) t CClose Granted2).
    assert (HQ : Quiet s s2) by (apply Quiet_refl; unfold s2; fsimpl; reflexivity).
    unfold enter. destruct (own_enter_close s2 t) as [H|H]; auto.
    + unfold s2. fsimpl. exact Hrf.
    + right. eapply RetsClose_pre; eauto.
  - (* C_WaitRunFinished *) destruct (run_finished s) as [[|]|]; auto. apply own_close_trigger. auto.
  - (* C_WaitRunTask *) unfold close_enter_closed. destruct (runt s); auto. hasc.
  - (* C_G4 *) right. simpl in Hok.
    cc_cases s; (unfold RetsClose; ext_tac; fsimpl;
                 destruct (st_fsm s); try discriminate; repeat split; simpl; auto 8 using close_shape0, close_shape1).
Qed.

Lemma close_task_step s l t :
  LkS s -> FI s -> CI s -> HasC (tasks s) t -> internal l = true ->
  HasC (tasks (step s l)) t \/ RetsClose s (step s l) t.
Proof.
  intros HL HF HC (p & Ef) Hi. destruct l as [? ? | t' | | o]; try discriminate; simpl.
  - destruct (Nat.eq_dec t t') as [<-|Hn].
    + eapply own_do_step; eauto.
    + left. destruct (do_step_other s t' t HL Hn _ _ Ef) as (p' & Hf'). exists p'. exact Hf'.
  - left. exists p. destruct (slk_step_run s) as (_ & _ & E). rewrite E. exact Ef.
  - left. exists p. unfold do_child_exit. destruct (alive s); exact Ef.
Qed.

Lemma close_completes_inv t : forall n s,
  (mu s < n)%nat -> LkS s -> FI s -> CI s -> JI s -> HasC (tasks s) t ->
  exists pre l, Forall (fun x => internal x = true) (pre ++ [l]) /\
                RetsClose (run_labels s pre) (run_labels s (pre ++ [l])) t.
Proof.
  induction n as [|n IH]; intros s Hmu HL HF HC HJ Hc; [lia|].
  assert (Hen : exists l, internal l = true /\ (mu (step s l) < mu s)%nat).
  { destruct Hc as (p & Ef).
    destruct (no_deadlock_inv s HL HF HC HJ) as [(t' & H) | [H | (_ & H)]].
    - exists t, CClose, p. split; auto. apply (lk_compat _ _ _ HL _ _ _ Ef).
    - exists (Step t'). auto.
    - exists StepRun. auto.
    - exists (ChildExit OReturn). split; auto. apply H. }
  destruct Hen as (l & Hi & Hlt).
  destruct (close_task_step s l t HL HF HC Hc Hi) as [Hc1 | HR].
  - destruct (IH (step s l)) as (pre & l' & Hall & HR); auto; try lia.
    + apply LkS_step; auto. + apply FI_step; auto. + apply CI_step; auto. + apply JI_step; auto.
    + exists (l :: pre), l'. split; [constructor; auto | exact HR].
  - exists [], l. split; [constructor; auto | exact HR].
Qed.

(** ---- B, for every reachable state ---- *)
Theorem no_deadlock : forall stmt start th md ls,
  let s := run_labels (init_state stmt start th md) ls in
  (exists t c p, find_task (tasks s) t = Some (c, p) /\ compat CClose p = true) ->
  (exists t', (mu (step s (Step t')) < mu s)%nat) \/
  (mu (step s StepRun) < mu s)%nat \/
  (waits_only_child s /\
   forall o, (mu (step s (ChildExit o)) < mu s)%nat /\ run_blocked (step s (ChildExit o)) = false).
Proof.
  intros stmt start th md ls s. destruct (all_inv stmt start th md ls) as (HL & HF & HC).
  apply no_deadlock_inv; auto. apply JI_reachable.
Qed.

Lemma StepOK_ext s s' t c : StepOK s s' t c -> exists new, trace s' = new ++ trace s.
Proof.
  intros [(new & E & _) | [(_ & new & E & _) | (_ & r & new & E & _)]].
  - eauto.
  - exists (EvRet t CClose ROk :: new). exact E.
  - exists (EvRet t c r :: new). exact E.
Qed.

Lemma step_trace_ext s l : LkS s -> FI s -> CI s -> exists new, trace (step s l) = new ++ trace s.
Proof.
  intros HL HF HC. destruct l as [t c | t | | o]; simpl.
  - destruct (find_task (tasks s) t) eqn:Ef.
    + unfold do_call. rewrite Ef. exists []. reflexivity.
    + destruct (SO_do_call s t c HF HC Ef) as [(_ & _ & E) | (_ & H)].
      * rewrite E. exists [EvRet t CClose ROk; EvCall t CClose]. reflexivity.
      * eapply StepOK_ext; eauto.
  - destruct (find_task (tasks s) t) as [[c p]|] eqn:Ef.
    + eapply StepOK_ext. eapply SO_do_step; eauto.
    + unfold do_step. rewrite Ef. exists []. reflexivity.
  - destruct (Quiet_step_run s) as (n & E & _). eauto.
  - destruct (Quiet_child_exit s o) as (n & E & _). eauto.
Qed.

Lemma run_trace_ext ls : forall s, LkS s -> FI s -> CI s -> exists new, trace (run_labels s ls) = new ++ trace s.
Proof.
  induction ls as [|l ls IH]; intros s HL HF HC; simpl; [exists []; reflexivity|].
  destruct (IH (step s l)) as (n1 & E1); [apply LkS_step | apply FI_step | apply CI_step |]; auto.
  destruct (step_trace_ext s l HL HF HC) as (n2 & E2).
  exists (n1 ++ n2). rewrite E1, E2, app_assoc. reflexivity.
Qed.

Theorem close_completes : forall stmt start th md ls t p,
  let s := run_labels (init_state stmt start th md) ls in
  find_task (tasks s) t = Some (CClose, p) ->
  exists ls', Forall (fun x => internal x = true) ls' /\
    let s' := run_labels s ls' in
    hd_error (trace s') = Some (EvRet t CClose ROk) /\ closed_down s' /\
    exists new, trace s' = new ++ trace s /\ In (EvRet t CClose ROk) new.
Proof.
  intros stmt start th md ls t p s Ef. destruct (all_inv stmt start th md ls) as (HL & HF & HC).
  fold s in HL, HF, HC.
  destruct (close_completes_inv t (S (mu s)) s) as (pre & l & Hall & HR); auto.
  - apply JI_reachable.
  - exists p. exact Ef.
  - exists (pre ++ [l]). split; auto. cbv zeta.
    destruct (inv_run s (pre ++ [l]) HL HF HC) as (_ & HF' & _).
    pose proof (RetsClose_down _ _ _ HF' HR) as Hd.
    destruct HR as (new & E & _). split; [rewrite E; reflexivity|]. split; auto.
    destruct (run_trace_ext pre s HL HF HC) as (n0 & E0).
    exists (EvRet t CClose ROk :: new ++ n0). split.
    + rewrite E, E0. simpl. rewrite app_assoc. reflexivity.
    + left. reflexivity.
Qed.

(** ---- the broker is closed once more, atomically with the return ---- *)
Lemma close_returns_RC s l t r :
  LkS s -> FI s -> CI s -> In (EvRet t CClose r) (appended s (step s l)) ->
  (l = Call t CClose /\ nl_closed s = true) \/ RetsClose s (step s l) t.
Proof.
  intros HL HF HC Hin. destruct l as [t0 c | t0 | | o]; simpl in *.
  - destruct (find_task (tasks s) t0) eqn:Ef.
    + exfalso. unfold do_call in Hin. rewrite Ef in Hin.
      eapply Quiet_no_ret; [|exact Hin]. apply Quiet_refl. reflexivity.
    + destruct (SO_do_call s t0 c HF HC Ef) as [(-> & Hnc & Heq) | (Hnc & HS)].
      * left. rewrite Heq in Hin.
        rewrite (appended_ext s _ [EvRet t0 CClose ROk; EvCall t0 CClose]) in Hin by reflexivity.
        simpl in Hin. destruct Hin as [Hin | [Hin | []]]; [discriminate|]. inversion Hin; subst. auto.
      * destruct (StepOK_ret _ _ _ _ _ _ HS Hin) as (-> & -> & -> & HR). auto.
  - destruct (find_task (tasks s) t0) as [[c p]|] eqn:Ef.
    + destruct (StepOK_ret _ _ _ _ _ _ (SO_do_step s t0 c p HL HF HC Ef) Hin) as (-> & -> & -> & HR). auto.
    + exfalso. unfold do_step in Hin. rewrite Ef in Hin.
      eapply Quiet_no_ret; [|exact Hin]. apply Quiet_refl. reflexivity.
  - exfalso. eapply Quiet_no_ret; [|exact Hin]. apply Quiet_step_run.
  - exfalso. eapply Quiet_no_ret; [|exact Hin]. apply Quiet_child_exit.
Qed.

(** the close that does the work (issued with `_closed` false): what its last step appends *)
Theorem close_return_shape : forall stmt start th md ls l t r,
  let s := run_labels (init_state stmt start th md) ls in
  In (EvRet t CClose r) (appended s (step s l)) ->
  nl_closed s = false \/ l = Step t ->
  exists coff mid, (coff = [] \/ coff = [EvPub (PCont false)]) /\
    trace (step s l) =
    EvRet t CClose ROk :: EvPub PEndCont :: coff ++ EvPub PEndAll :: mid ++ trace s.
Proof.
  intros stmt start th md ls l t r s Hin Hw. destruct (all_inv stmt start th md ls) as (HL & HF & HC).
  destruct (close_returns_RC s l t r HL HF HC Hin) as [(-> & Hnc) | HR].
  - destruct Hw as [Hw | Hw]; [fold s in Hnc; congruence | discriminate].
  - destruct HR as (new & E & _ & (coff & mid & Hc & ->) & _). exists coff, mid. split; auto.
    rewrite E. simpl. rewrite <- app_assoc. reflexivity.
Qed.

(** a subscription is a point of the history: the trace prefix [pre] at which it was
    handed out.  Whatever that point, up to and including the state the returning step
    starts from, the broker is closed after it and before the return *)
Theorem subscriptions_ended : forall stmt start th md ls l t r,
  let s := run_labels (init_state stmt start th md) ls in
  In (EvRet t CClose r) (appended s (step s l)) ->
  nl_closed s = false \/ l = Step t ->
  forall older pre, trace s = older ++ pre ->
  exists post, trace (step s l) = EvRet t CClose ROk :: post ++ pre /\ In (EvPub PEndAll) post.
Proof.
  intros stmt start th md ls l t r s Hin Hw older pre Eo.
  destruct (close_return_shape stmt start th md ls l t r Hin Hw) as (coff & mid & Hc & E).
  fold s in E. exists (EvPub PEndCont :: coff ++ EvPub PEndAll :: mid ++ older). split.
  - rewrite E, Eo. simpl. f_equal. f_equal. rewrite <- !app_assoc. simpl. rewrite <- app_assoc. reflexivity.
  - right. apply in_or_app. right. left. reflexivity.
Qed.
