(** Statement AST of the non-interactive-mode code (nextline/continuous.py: classes
    Continue and Continuous; the call sites in nextline/main.py).  The programs over this
    AST are REGENERATED from the source on every check (Gen/ContinuousSkel.v, fail-closed
    translator translate/continuous_skeleton.py); Life/ContTie.v interprets them.
    Definitions only; stdlib only. *)
From Coq Require Import List ZArith Bool.
Import ListNotations.

(** integer expressions over the request counter *)
Inductive iexpr :=
| INum (z : Z)
| ICounter                          (* self._n_requests *)
| IAdd (a b : iexpr)
| ISub (a b : iexpr).

Inductive cmpop := CGt | CGe | CLt | CLe | CEq | CNe.

Inductive bexpr :=
| BConst (b : bool)
| BCmp (op : cmpop) (a b : iexpr)
| BNot (b : bexpr)
| BAnd (a b : bexpr)
| BOr (a b : bexpr)
| BClosed                           (* Continuous: self._closed *)
| BRunStarted                       (* Continue: self._run_started *)
| BRequestingIsSelf                 (* Continue: _REQUESTING.get() is self *)
| BNlStarted                        (* Nextline: self._started *)
| BNlClosed.                        (* Nextline: self._closed *)

(** the class named by an `except` clause *)
Inductive hclass := HException | HBaseException.

(** which Continue object a register/unregister names *)
Inductive pref :=
| PLocal                            (* the local variable `plugin` of Continuous._requested *)
| PSelf.                            (* `self` inside a method of Continue *)

(** awaits whose duration and outcome belong to the environment *)
Inductive callee :=
| CBody                             (* the body of `async with self._requested()`, seen from the generator: its `yield` *)
| CImpOpen | CImpClose | CImpRun | CImpWait   (* await self._imp.aopen() / aclose() / run() / wait() *)
| CSendCmd.                         (* await context.nextline.send_pdb_command(command='continue', ...) *)

Inductive meth :=
| MInit | MStart | MClose | MRunAndContinue | MRunContinueAndWait | MRequested | MDisable   (* Continuous *)
| MAenter | MAexit | MEnabled | MSubscribeEnabled                                          (* Continuous: __aenter__, __aexit__, the two accessors *)
| MCInit | MOnStartRun | MOnStartPrompt | MOnFinished                                          (* Continue *)
| MNlInit | MNlStart | MNlClose | MNlRun | MNlRunSession | MNlRunAndContinue | MNlRunContinueAndWait.  (* Nextline *)

Inductive stmt :=
| Skip
| Seq (a b : stmt)
| SetCounter (e : iexpr)            (* self._n_requests = e   (`+= e` / `-= e` are desugared) *)
| SetClosed (b : bexpr)             (* self._closed = b  (Continuous) *)
| NewItem                           (* self._pubsub_enabled = PubSubItem[bool]() *)
| Publish (b : bexpr)               (* await self._pubsub_enabled.publish(b) *)
| CloseItem                         (* await self._pubsub_enabled.aclose() *)
| NewPlugin                         (* plugin = Continue(continuous=self) *)
| Register (p : pref)               (* self._nextline.register(plugin=plugin) *)
| Unregister (p : pref)             (* ....unregister(plugin=plugin) / context.nextline.unregister(plugin=self) *)
| CtxSet                            (* token = _REQUESTING.set(plugin) *)
| CtxReset                          (* _REQUESTING.reset(token) *)
| Yield                             (* the `yield` of an asynccontextmanager *)
| Await (c : callee)
| Raise                             (* bare `raise` *)
| Return
| ReturnLatest                      (* return self._pubsub_enabled.latest()     -- the accessor `enabled` *)
| ReturnSubscribe                   (* return self._pubsub_enabled.subscribe()  -- `subscribe_enabled` *)
| If (c : bexpr) (a b : stmt)
| Try (body : stmt) (hc : option hclass) (hb : stmt) (fin : stmt)
                                    (* try: body [except hc: hb] [finally: fin]; absent parts are None / Skip *)
| SetRunStarted (b : bexpr)         (* self._run_started = b  (Continue) *)
| SendContinue                      (* await context.nextline.send_pdb_command(command='continue', prompt_no=event.prompt_no, trace_no=event.trace_no) *)
| SetNlStarted (b : bexpr)          (* self._started = b  (Nextline) *)
| SetNlClosed (b : bexpr)           (* self._closed = b   (Nextline) *)
| EventSet                          (* started.set() *)
| CallM (m : meth)                  (* await <obj>.<method>() of a translated method *)
| WithRequested (body : stmt)       (* async with self._requested(): body *)
| WithExitStack (body : stmt)       (* async with AsyncExitStack() as stack: body *)
| EnterCtxOf (m : meth)             (* await stack.enter_async_context(<translated asynccontextmanager>()) *)
(* not generated; produced by inlining (Life/ContTie.v) *)
| Scope (body : stmt)               (* the body of a called method: its `return` ends the call only *)
| EnterCtx (pre : stmt) (exit : callee)   (* a context manager `pre; try: yield finally: await exit` entered on the stack *)
| Stuck.                            (* inlining failed (unknown shape / out of fuel): every obligation fails *)
