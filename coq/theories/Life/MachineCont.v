(** The continuation a task stores when it parks is determined by the program and the program counter:
    [run] parking at p, started from the program of a trigger or from any continuation stored earlier
    ([after_pc p0] of it, or the rest behind the wait it was parked at), stores exactly [after_pc p] of the
    WHOLE program.  Together with the theorems tie_step_* of Life/MachineTie.v (which start from
    [api_cont ... p] = [after_pc p] of the program) this closes the simulation of one trigger: the model's
    successive segments follow the one program derived from the regenerated code.  Generic in the program;
    needs only that its program counters are pairwise distinct, which is proved for every program
    [api_prog] can produce. *)
From Coq Require Import List String Bool Arith ZArith Lia.
From NL Require Import Life.Model Gen.FsmConfig Life.MachineSyntax Gen.MachineWiring Life.MachineTie.
Import ListNotations.

Fixpoint pcs (k : list (prim pc)) : list pc :=
  match k with
  | [] => []
  | PGate p :: r => p :: pcs r
  | PWait _ _ p :: r => p :: pcs r
  | _ :: r => pcs r
  end.

Lemma pc_eqb_refl : forall p, pc_eqb p p = true.
Proof. intros p; unfold pc_eqb; apply Nat.eqb_refl. Qed.

Lemma pc_eqb_true : forall p q, pc_eqb p q = true -> p = q.
Proof. intros p q; destruct p, q; cbn; intros H; try reflexivity; discriminate. Qed.

Lemma pcs_app : forall a b, pcs (a ++ b) = pcs a ++ pcs b.
Proof. induction a as [|x a IH]; intros b; [reflexivity|]. destruct x; cbn; rewrite ?IH; reflexivity. Qed.

Lemma run_park_in : forall k s s' p k', run k s = (s', KPark p k') -> In p (pcs k).
Proof.
  induction k as [|x k IH]; intros s s' p k' H; cbn in H; [discriminate|].
  destruct x as [f|q|a r q|x]; cbn.
  - eapply IH; eauto.
  - injection H as _ <- _. left; reflexivity.
  - destruct (a s); [right; eapply IH; eauto | injection H as _ <- _; left; reflexivity | discriminate].
  - discriminate.
Qed.

Lemma after_pc_skip : forall pre k p, ~ In p (pcs pre) -> after_pc p (pre ++ k) = after_pc p k.
Proof.
  induction pre as [|x pre IH]; intros k p H; [reflexivity|].
  destruct x as [f|q|a r q|x]; cbn in *; try (apply IH; exact H).
  - destruct (pc_eqb p q) eqn:E; [apply pc_eqb_true in E; subst; exfalso; apply H; left; reflexivity|].
    apply IH; intros H1; apply H; right; exact H1.
  - destruct (pc_eqb p q) eqn:E; [apply pc_eqb_true in E; subst; exfalso; apply H; left; reflexivity|].
    apply IH; intros H1; apply H; right; exact H1.
Qed.

(** parking from the head of a program whose counters are distinct *)
Lemma run_park_after : forall k s s' p k', NoDup (pcs k) -> run k s = (s', KPark p k') -> k' = after_pc p k.
Proof.
  induction k as [|x k IH]; intros s s' p k' N H; cbn in H; [discriminate|].
  destruct x as [f|q|a r q|x]; cbn in N |- *.
  - eapply IH; eauto.
  - injection H as _ <- <-. rewrite pc_eqb_refl; reflexivity.
  - destruct (a s) eqn:E.
    + inversion N as [|? ? Hn N']; subst.
      assert (Hin : In p (pcs k)) by (eapply run_park_in; eauto).
      destruct (pc_eqb p q) eqn:Eq; [apply pc_eqb_true in Eq; subst; contradiction|].
      eapply IH; eauto.
    + injection H as _ <- <-. rewrite pc_eqb_refl; reflexivity.
    + discriminate.
  - discriminate.
Qed.

(** ... and from any suffix of it *)
Lemma run_park_after_suffix : forall pre k0 s s' p k', NoDup (pcs (pre ++ k0)) ->
  run k0 s = (s', KPark p k') -> k' = after_pc p (pre ++ k0).
Proof.
  intros pre k0 s s' p k' N H.
  rewrite pcs_app in N.
  assert (Hin : In p (pcs k0)) by (eapply run_park_in; eauto).
  rewrite after_pc_skip.
  - eapply run_park_after; eauto. clear - N. induction (pcs pre) as [|x l IH]; [exact N|].
    inversion N; subst; apply IH; assumption.
  - intros Hp. clear - N Hin Hp. induction (pcs pre) as [|x l IH]; [contradiction|].
    cbn in N; inversion N as [|? ? Hn N']; subst. destruct Hp as [->|Hp]; [apply Hn; apply in_or_app; right; exact Hin|].
    apply IH; assumption.
Qed.

Lemma after_pc_suffix : forall k p, exists pre, k = pre ++ after_pc p k.
Proof.
  induction k as [|x k IH]; intros p; [exists []; reflexivity|].
  destruct (IH p) as [pre E].
  destruct x as [f|q|a r q|x]; cbn.
  - exists (PDo f :: pre); cbn; f_equal; exact E.
  - destruct (pc_eqb p q); [exists [PGate q]; reflexivity | exists (PGate q :: pre); cbn; f_equal; exact E].
  - destruct (pc_eqb p q); [exists []; reflexivity | exists (PWait a r q :: pre); cbn; f_equal; exact E].
  - exists (PRaise x :: pre); cbn; f_equal; exact E.
Qed.

(** the closure property: whatever continuation a task is resumed from, the next one it stores is again
    [after_pc] of the whole program *)
Theorem continuation_closed : forall k p s s' p2 k2, NoDup (pcs k) ->
  (run (after_pc p k) s = (s', KPark p2 k2) -> k2 = after_pc p2 k) /\
  (forall a r q rest, after_pc p k = PWait a r q :: rest -> run rest s = (s', KPark p2 k2) -> k2 = after_pc p2 k).
Proof.
  intros k p s s' p2 k2 N; destruct (after_pc_suffix k p) as [pre E].
  remember (after_pc p k) as k0 eqn:Ek0. clear Ek0. subst k. split.
  - intros H. eapply run_park_after_suffix; eauto.
  - intros a r q rest Ea H. subst k0.
    replace (pre ++ PWait a r q :: rest) with ((pre ++ [PWait a r q]) ++ rest) in * by (rewrite <- app_assoc; reflexivity).
    eapply run_park_after_suffix; eauto.
Qed.

(** every program of an API trigger has pairwise distinct program counters *)
Theorem api_prog_distinct : forall t c tr src k, api_prog t c tr src = Some k -> NoDup (pcs k).
Proof.
  intros t c tr src k H.
  destruct tr, src; try (vm_compute in H; discriminate);
    try (vm_compute in H; injection H as <-; cbn [pcs];
         repeat (constructor; [cbn; intuition discriminate|]); constructor).
  all: destruct c; try (vm_compute in H; discriminate).
  all: match goal with o : opts |- _ => destruct o as [[x|] a b d] end.
  all: vm_compute in H; injection H as <-; cbn [pcs]; repeat (constructor; [cbn; intuition discriminate|]); constructor.
Qed.

(** the composition: the first park of a trigger stores [api_cont], and so does every later one *)
Theorem api_continuations : forall t c tr src k, api_prog t c tr src = Some k ->
  (forall s s' p k', run k s = (s', KPark p k') -> k' = api_cont t c tr src p) /\
  (forall p s s' p2 k2, run (api_cont t c tr src p) s = (s', KPark p2 k2) -> k2 = api_cont t c tr src p2) /\
  (forall p a r q rest s s' p2 k2, api_cont t c tr src p = PWait a r q :: rest ->
     run rest s = (s', KPark p2 k2) -> k2 = api_cont t c tr src p2).
Proof.
  intros t c tr src k H. pose proof (api_prog_distinct _ _ _ _ _ H) as N.
  unfold api_cont; rewrite H. repeat split.
  - intros; eapply run_park_after; eauto.
  - intros p s s' p2 k2 Hr. eapply (proj1 (continuation_closed k p s s' p2 k2 N)); exact Hr.
  - intros p a r q rest s s' p2 k2 Ea Hr. eapply (proj2 (continuation_closed k p s s' p2 k2 N)); eauto.
Qed.
