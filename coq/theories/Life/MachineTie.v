(** Tie of the callback wiring of Life/Model.v to nextline/fsm/machine.py, callback.py, config.py.

    1. [script]: the callbacks the `transitions` library (0.9.3) runs for ONE trigger, in order,
       resolved from the regenerated CONFIG table (Gen/FsmConfig.v) and the regenerated set of
       StateMachine methods (Gen/MachineWiring.v).  TRUSTED (read from the installed source):
         - core.py:447-458 `Event._is_valid_source`: no transition from the source state and
           `ignore_invalid_triggers` false -> MachineError before any effect;
         - extensions/asyncio.py:187-219 `AsyncEvent._trigger/_process`: the source state is read
           once; the transitions of (trigger, source) are tried in table order, the first whose
           conditions hold is executed (CONFIG has no conditions: the first one);
         - extensions/asyncio.py:102-132 `AsyncTransition.execute`: prepare, conditions,
           machine.before_state_change, transition.before, [dest is not None: _change_state],
           transition.after, machine.after_state_change -- the last list also for an internal
           transition (dest None);
         - extensions/asyncio.py:134-145 `_change_state`: exit callbacks of the SOURCE state,
           set_state(dest), enter callbacks of dest;
         - core.py:870-888 `Machine._add_model_to_state`: `on_enter_<state>` / `on_exit_<state>`
           are added iff the model has a method of that name (states of CONFIG are plain strings);
         - core.py:1178-1197 `callback`: a string names a method of the model (`model=self`),
           called with the EventData (`send_event=True`).
    2. the expansion of every callback through the regenerated method bodies of StateMachine
       and Callback down to hooks, waits, assignments ([micro]);
    3. an interpreter of that program over the states of Life/Model.v which uses the model's
       own helpers for the meaning of a hook ([log_hook], [change_state_hook], ...), and
       theorems, for ALL model states, that the segments of the model ([enter_start],
       [enter_run], [enter_reset], [close_trigger], [do_step] at every pc inside a trigger,
       [run_finish], [do_step_run] at RT_G_fin / RT_G_cs) are exactly that interpreter on the
       program derived from the regenerated code.
    Kinds of obligation.  [script_table], [expand_table]: the script / expansion computed from the
    regenerated files compared with the spelled-out term (a pin of the DERIVED script, by vm_compute).
    [script_refused], [script_moves_along_table], [expand_total], [api_prog_total]: exhaustive over the
    finite domain 5 states x 5 triggers.  [tie_*]: equalities between the model's segment and the
    interpreter on the derived program, for ALL model states (case analysis on [st_fsm] / the run task /
    the reset options, both sides reduced by conversion).  Side conditions, all of them about states the
    model never reaches: [close_trigger] from Running only with `_run_finished` set (Imp.aclose has
    waited); Z_G1 only for a reset that carries a statement; Z_WaitRunTask / C_WaitRunTask only from
    Finished; for the program counters BEFORE the state change the continuation is the one of the
    CURRENT [st_fsm] (the library reads the source state once, at trigger time; under the lifecycle
    lock only `finish` could change it in between, and reset is refused while running).
    NOT proved here (left for a later stage): the generic lemma that the continuation stored by [run]
    when it parks at p is [after_pc p] of the whole program (it holds by construction when the program
    counters of a program are pairwise distinct); [hook_order_finish] assumes no Continue plugin.
    Not modelled: a hook / wait that raises or is cancelled (the model has no such path);
    `except BaseException` around `await self._task_run` is required syntactically (without it
    the expansion fails), its catching of the awaiting task's own cancellation is not modelled. *)
From Coq Require Import List String Bool Arith ZArith.
From NL Require Import Life.Model Gen.FsmConfig Life.MachineSyntax Gen.MachineWiring.
Import ListNotations.
Local Open Scope string_scope.
Local Open Scope list_scope.

(** ------------------------------------------------------------------ 1. the script *)

Definition state_name (f : fsm) : string :=
  match f with Created => "created" | Initialized => "initialized" | Running => "running"
             | Finished => "finished" | Closed => "closed" end.

Definition trig_name (t : trig) : string :=
  match t with TInitialize => "initialize" | TRun => "run" | TFinish => "finish" | TClose => "close" | TReset => "reset" end.

(** the names behind the constructors of Gen/FsmConfig.v (table BEFORE of translate/fsm_config.py) *)
Definition before_names (b : before) : list string :=
  match b with BNone => [] | BCloseWhileRunning => ["on_close_while_running"] | BReset => ["on_reset"] end.

Definition fsm_eqb (a b : fsm) : bool :=
  match a, b with
  | Created, Created | Initialized, Initialized | Running, Running | Finished, Finished | Closed, Closed => true
  | _, _ => false
  end.
Definition trig_eqb (a b : trig) : bool :=
  match a, b with
  | TInitialize, TInitialize | TRun, TRun | TFinish, TFinish | TClose, TClose | TReset, TReset => true
  | _, _ => false
  end.

Fixpoint find_method (l : list method) (n : string) : option method :=
  match l with
  | [] => None
  | m :: r => if String.eqb (m_name m) n then Some m else find_method r n
  end.

Definition sm_has (n : string) : bool := match find_method machine_methods n with Some _ => true | None => false end.

(** core.py:882-888 *)
Definition dyn_cb (kind : string) (f : fsm) : list string :=
  let n := (kind ++ "_" ++ state_name f)%string in if sm_has n then [n] else [].

Inductive action :=
| Cb (m : string)          (* the StateMachine method m is called with the EventData and awaited *)
| SetState (d : fsm).

Fixpoint find_tr (tb : list (trig * fsm * option fsm * before)) (tr : trig) (src : fsm) : option (option fsm * before) :=
  match tb with
  | [] => None
  | (t, s, d, b) :: r => if trig_eqb t tr && fsm_eqb s src then Some (d, b) else find_tr r tr src
  end.

(** what StateMachine.__init__ wires *)
Definition model_is_self : bool :=
  existsb (fun i => match i with IMachine _ cls ms sp => String.eqb cls "AsyncMachine" && ms && sp | _ => false end) machine_init.
Definition wired_after_state_change : list string :=
  flat_map (fun i => match i with IAfterStateChange _ n => [n] | _ => [] end) machine_init.
Definition callback_backref : bool :=
  existsb (fun i => match i with IBackRef a b => String.eqb a "_callback" && String.eqb b "_machine" | _ => false end) machine_init.

(** [None]: the trigger is refused (MachineError).  [Some (dest, actions)] otherwise. *)
Definition script (src : fsm) (tr : trig) : option (option fsm * list action) :=
  if negb (model_is_self && negb queued) then None else
  match find_tr table tr src with
  | None => if ignore_invalid_triggers then Some (None, []) else None
  | Some (dest, b) =>
    let before := map Cb (before_names b) in
    let change := match dest with
                  | Some d => map Cb (dyn_cb "on_exit" src) ++ [SetState d] ++ map Cb (dyn_cb "on_enter" d)
                  | None => []
                  end in
    Some (dest, before ++ change ++ map Cb wired_after_state_change)
  end.

(** ------------------------------------------------------------------ 2. expansion *)

Inductive val := VState | VContext | VTrigKwarg (k : string) | VUnbound.

Inductive exn := XAssert | XKey | XMachine | XAttr.

(** what the hooks / waits of one trigger are, in order *)
Inductive micro :=
| USetState (d : fsm)
| UHook (h : string) (kw : list (string * val))     (* await ahook.h(kw) *)
| UCompose                                          (* context.run_arg = hook.compose_run_arg(context) *)
| UWaitRunFinished                                  (* await self._run_finished.wait() *)
| UAwaitRunTask                                     (* try: await self._task_run  except BaseException: log *)
| UNewRunFinished | UNewStarted | UCreateRunTask | UWaitStarted      (* Callback.start_run *)
| URaise (x : exn).

Fixpoint lookup {A} (l : list (string * A)) (k : string) : option A :=
  match l with [] => None | (k', v) :: r => if String.eqb k k' then Some v else lookup r k end.

Definition eval_arg (env : list (string * val)) (a : arg) : val :=
  match a with
  | ASelfState => VState
  | ASelfContext => VContext
  | ALocal v => match lookup env v with Some x => x | None => VUnbound end
  end.

(** the EventData of a trigger: destination of the executing transition, keyword names, number of positional arguments *)
Record evenv := mkEv { ev_dest : option fsm; ev_kwargs : list string; ev_nargs : nat }.

(** Imp.reset calls `self._machine.reset(reset_options=reset_options)`; every other trigger is called without arguments *)
Definition trigger_event (tr : trig) (dest : option fsm) : evenv :=
  mkEv dest (match tr with TReset => ["reset_options"] | _ => [] end) 0.

Record mst := mkM { m_env : list (string * val); m_kw : list string;
                    m_calls : list (string * list val * list (string * val)) }.

Inductive flow := FNormal | FReturn | FRaise (x : exn) | FUnsupported.

Fixpoint eval_expr (e : evenv) (st : mst) (x : expr) : bool :=
  match x with
  | EEvTransition => true              (* asyncio.py:214: event_data.transition = trans before execute *)
  | EEvDest => match ev_dest e with Some _ => true | None => false end
  | EEvArgs => negb (Nat.eqb (ev_nargs e) 0)
  | EEvKwargs => match m_kw st with [] => false | _ => true end
  | EIsInstance v cls => match lookup (m_env st) v with
                         | Some (VTrigKwarg k) => String.eqb k "reset_options" && String.eqb cls "ResetOptions"
                         | _ => false end
  | ENot a => negb (eval_expr e st a)
  | EAnd a b => eval_expr e st a && eval_expr e st b
  | EOr a b => eval_expr e st a || eval_expr e st b
  end.

Fixpoint remove_str (l : list string) (k : string) : list string :=
  match l with [] => [] | x :: r => if String.eqb x k then r else x :: remove_str r k end.

(** a StateMachine callback method run on the EventData *)
Fixpoint mexec (e : evenv) (s : stmt) (st : mst) : mst * flow :=
  match s with
  | SSkip => (st, FNormal)
  | SSeq a b => match mexec e a st with (st1, FNormal) => mexec e b st1 | r => r end
  | SIf c th el => if eval_expr e st c then mexec e th st else mexec e el st
  | SReturn => (st, FReturn)
  | SAssert c => if eval_expr e st c then (st, FNormal) else (st, FRaise XAssert)
  | SPopKwarg v k =>
    if existsb (String.eqb k) (m_kw st)
    then (mkM ((v, VTrigKwarg k) :: m_env st) (remove_str (m_kw st) k) (m_calls st), FNormal)
    else (st, FRaise XKey)
  | SAwaitCallback m pos kw =>
    (mkM (m_env st) (m_kw st)
         (m_calls st ++ [(m, map (eval_arg (m_env st)) pos, map (fun p => (fst p, eval_arg (m_env st) (snd p))) kw)]), FNormal)
  | _ => (st, FUnsupported)
  end.

Fixpoint bind_params (ps : list string) (pos : list val) (kw : list (string * val)) : option (list (string * val)) :=
  match ps, pos with
  | [], [] => match kw with [] => Some [] | _ => None end
  | [], _ :: _ => None
  | p :: r, v :: pos' => match bind_params r pos' kw with Some l => Some ((p, v) :: l) | None => None end
  | p :: r, [] => match lookup kw p with
                  | Some v => match bind_params r [] (filter (fun x => negb (String.eqb (fst x) p)) kw) with
                              | Some l => Some ((p, v) :: l) | None => None end
                  | None => None end
  end.

(** a Callback method, as the list of what it does *)
Fixpoint cexec (env : list (string * val)) (s : stmt) : option (list micro) :=
  match s with
  | SSkip => Some []
  | SSeq a b => match cexec env a, cexec env b with Some x, Some y => Some (x ++ y) | _, _ => None end
  | SAHook h kw => Some [UHook h (map (fun p => (fst p, eval_arg env (snd p))) kw)]
  | SRunArgFromHook h kw =>
    if String.eqb h "compose_run_arg" then
      match kw with [(c, ASelfContext)] => if String.eqb c "context" then Some [UCompose] else None | _ => None end
    else None
  | SAwaitEventWait (TSelf a) => if String.eqb a "_run_finished" then Some [UWaitRunFinished] else None
  | SAwaitEventWait (TLocal a) => if String.eqb a "started" then Some [UWaitStarted] else None
  | STryExcept (SAwaitTask a) cls SLogException =>
    if String.eqb a "_task_run" && String.eqb cls "BaseException" then Some [UAwaitRunTask] else None
  | SNewEvent (TSelf a) => if String.eqb a "_run_finished" then Some [UNewRunFinished] else None
  | SNewEvent (TLocal a) => if String.eqb a "started" then Some [UNewStarted] else None
  | SCreateTask a m kw =>
    if String.eqb a "_task_run" && String.eqb m "_run" then
      match kw with [(p, ALocal v)] => if String.eqb p "started" && String.eqb v "started" then Some [UCreateRunTask] else None
                  | _ => None end
    else None
  | _ => None
  end.

Definition expand_call (c : string * list val * list (string * val)) : option (list micro) :=
  match c with
  | (m, pos, kw) =>
    match find_method callback_methods m with
    | None => None
    | Some cm => if negb (m_async cm) then None else
                 match bind_params (m_params cm) pos kw with
                 | None => None
                 | Some env => cexec env (m_body cm)
                 end
    end
  end.

Fixpoint concat_opt {A} (l : list (option (list A))) : option (list A) :=
  match l with
  | [] => Some []
  | None :: _ => None
  | Some x :: r => match concat_opt r with Some y => Some (x ++ y) | None => None end
  end.

(** one action of the script; the keyword arguments of the event are shared by the callbacks of one trigger *)
Fixpoint expand_actions (e : evenv) (kw : list string) (l : list action) : option (list micro) :=
  match l with
  | [] => Some []
  | SetState d :: r => match expand_actions e kw r with Some y => Some (USetState d :: y) | None => None end
  | Cb m :: r =>
    match find_method machine_methods m with
    | None => None
    | Some mm =>
      if negb (m_async mm) then None else
      match m_params mm with
      | [_] =>
        match mexec e (m_body mm) (mkM [] kw []) with
        | (st, FUnsupported) => None
        | (st, FRaise x) =>
          match concat_opt (map expand_call (m_calls st)) with Some x0 => Some (x0 ++ [URaise x]) | None => None end
        | (st, _) =>
          match concat_opt (map expand_call (m_calls st)), expand_actions e (m_kw st) r with
          | Some x, Some y => Some (x ++ y) | _, _ => None end
        end
      | _ => None
      end
    end
  end.

Definition expand (src : fsm) (tr : trig) : option (list micro) :=
  match script src tr with
  | None => None
  | Some (dest, acts) => let e := trigger_event tr dest in expand_actions e (ev_kwargs e) acts
  end.

(** ------------------------------------------------------------------ 3. the program over model states *)

Inductive wstat := WPass | WPark | WRaise (x : exn).

Inductive prim (P : Type) :=
| PDo (f : state -> state)                 (* an atomic effect *)
| PGate (p : P)                            (* gate of an awaited hook: the task parks at p until it is stepped *)
| PWait (arrive : state -> wstat) (ready : state -> bool) (p : P)
| PRaise (x : exn).
Arguments PDo {P}. Arguments PGate {P}. Arguments PWait {P}. Arguments PRaise {P}.

Inductive outc (P : Type) := KDone | KPark (p : P) (k : list (prim P)) | KRaise (x : exn).
Arguments KDone {P}. Arguments KPark {P}. Arguments KRaise {P}.

Fixpoint run {P} (k : list (prim P)) (s : state) : state * outc P :=
  match k with
  | [] => (s, KDone)
  | PDo f :: k' => run k' (f s)
  | PGate p :: k' => (s, KPark p k')
  | PWait a r p :: k' =>
    match a s with
    | WPass => run k' s
    | WPark => (s, KPark p k)
    | WRaise x => (s, KRaise x)
    end
  | PRaise x :: _ => (s, KRaise x)
  end.

Definition hook_of (h : string) : option hook :=
  if String.eqb h "start" then Some HStart else
  if String.eqb h "on_initialize_run" then Some HInitRun else
  if String.eqb h "on_change_state" then Some HChangeState else
  if String.eqb h "on_finished" then Some HFinished else
  if String.eqb h "reset" then Some HReset else
  if String.eqb h "close" then Some HClose else None.

(** context.run_arg = compose_run_arg(): RunArgComposer (Life/ArgTie.v) *)
Definition compose_assign (s : state) : state :=
  set_run_arg (set_c_next s (c_next s + 1)%Z) (Some (mkRunArg (c_next s) (c_stmt s) (c_threads s) (c_modules s))).

(** the built-in implementations of on_initialize_run read context.run_arg *)
Definition on_initialize_run_hook (s : state) : state :=
  match run_arg s with
  | Some ra => log_hook (publish (publish s (PRunNo (ra_no ra))) (PRunInfo (ra_no ra) RInitialized (ra_stmt ra) None))
                        HInitRun (Some (ra_stmt ra)) None
  | None => log_hook s HInitRun None None
  end.

(** names of the suspension points of Life/Model.v *)
Definition gate_pc (tr : trig) (h : hook) : option pc :=
  match tr, h with
  | TInitialize, HStart => Some S_G1 | TInitialize, HInitRun => Some S_G2 | TInitialize, HChangeState => Some S_G3
  | TRun, HChangeState => Some R_G
  | TReset, HReset => Some Z_G1b | TReset, HInitRun => Some Z_G3 | TReset, HChangeState => Some Z_G4
  | TClose, HStart => Some S_G1 | TClose, HClose => Some C_G3 | TClose, HChangeState => Some C_G4
  | _, _ => None
  end.

Definition only_context (kw : list (string * val)) : bool :=
  match kw with [(c, VContext)] => String.eqb c "context" | _ => false end.

(** one micro step of an API task t executing the call c (trigger tr) *)
Definition api_micro (t : nat) (c : call) (tr : trig) (m : micro) : option (list (prim pc)) :=
  match m with
  | USetState d => Some [PDo (fun s => set_st_fsm s d)]
  | UCompose => Some [PDo compose_assign]
  | UHook h kw =>
    match hook_of h with
    | None => None
    | Some hk =>
      match gate_pc tr hk with
      | None => None
      | Some p =>
        match hk with
        | HStart => if only_context kw then Some [PDo (fun s => change_script (log_hook s HStart None None)); PGate p] else None
        | HInitRun => if only_context kw then Some [PDo on_initialize_run_hook; PGate p] else None
        | HClose => if only_context kw then Some [PDo (fun s => log_hook s HClose None None); PGate p] else None
        | HChangeState =>
          match kw with
          | [(a, VContext); (b, VState)] =>
            if String.eqb a "context" && String.eqb b "state_name" then Some [PDo change_state_hook; PGate p] else None
          | _ => None
          end
        | HReset =>
          match kw, c with
          | [(a, VContext); (b, VTrigKwarg k)], CReset o =>
            if String.eqb a "context" && String.eqb b "reset_options" && String.eqb k "reset_options" then
              match o_stmt o with
              | Some x => Some [PDo (fun s => change_script (set_c_stmt (log_hook s HReset (o_stmt o) (o_start o)) x)); PGate Z_G1;
                                PDo (fun s => apply_rest s o); PGate p]
              | None => Some [PDo (fun s => apply_rest (log_hook s HReset (o_stmt o) (o_start o)) o); PGate p]
              end
            else None
          | _, _ => None
          end
        | _ => None
        end
      end
    end
  | UWaitRunFinished =>
    match tr with
    | TClose => Some [PWait (fun s => match run_finished s with None => WRaise XAttr | Some true => WPass | Some false => WPark end)
                            (fun s => match run_finished s with Some true => true | _ => false end) C_WaitRunFinished]
    | _ => None
    end
  | UAwaitRunTask =>
    let w := PWait (fun s => match runt s with None => WPass | Some _ => WPark end)
                   (fun s => match runt s with None => true | Some _ => false end) in
    match tr with
    | TReset => Some [w Z_WaitRunTask]
    | TClose => Some [w C_WaitRunTask]
    | _ => None
    end
  | UNewRunFinished => Some [PDo (fun s => set_run_finished s (Some false))]
  | UNewStarted => Some [PDo (fun s => set_started_ev s false)]
  | UCreateRunTask => Some [PDo (fun s => set_run_cont (set_run_owner (set_runt s (Some RT_New)) t) (is_cont c))]
  | UWaitStarted =>
    match tr with
    | TRun => Some [PWait (fun s => if started_ev s then WPass else WPark) started_ev R_WaitStarted]
    | _ => None
    end
  | URaise x => Some [PRaise x]
  end.

Definition api_prog (t : nat) (c : call) (tr : trig) (src : fsm) : option (list (prim pc)) :=
  match expand src tr with
  | None => None
  | Some ms => concat_opt (map (api_micro t c tr) ms)
  end.

(** what follows the trigger in the API method (Imp / Nextline: Life/ImpTie.v), copied from the model *)
Definition epilogue (t : nat) (c : call) (tr : trig) (s : state) : state :=
  match tr with
  | TInitialize => let s1 := release s in match c with CClose => acquire s1 t c true | _ => finish_call s1 t c ROk end
  | TRun => let s1 := release s in
            match c with CRunContWait | CRunSession => set_pc s1 t c P_WaitRunFinished | _ => finish_call s1 t c ROk end
  | TReset => finish_call (release s) t c ROk
  | TClose => finish_call (close_cont (publish (release s) PEndAll)) t c ROk
  | TFinish => s
  end.

Definition raise_out (s : state) (t : nat) (c : call) (x : exn) : state :=
  match x with
  | XMachine => refuse s t c
  | XAttr => finish_call (release s) t c RAttributeError
  | XAssert => finish_call (release s) t c RAssertionError
  | XKey => finish_call (release s) t c RRuntimeError
  end.

Definition api_embed (t : nat) (c : call) (tr : trig) (r : state * outc pc) : state :=
  match r with
  | (s, KPark p _) => set_pc s t c p
  | (s, KDone) => epilogue t c tr s
  | (s, KRaise x) => raise_out s t c x
  end.

(** the task t fires the trigger tr in state s *)
Definition api_trigger (t : nat) (c : call) (tr : trig) (s : state) : state :=
  match script (st_fsm s) tr with
  | None => refuse s t c
  | Some _ =>
    match api_prog t c tr (st_fsm s) with
    | Some k => api_embed t c tr (run k s)
    | None => s
    end
  end.

(** the continuation stored when the task parks at p *)
Definition pc_num (p : pc) : nat :=
  match p with
  | WaitLock1 => 0 | Granted1 => 1 | WaitLock2 => 2 | Granted2 => 3 | S_G1 => 4 | S_G2 => 5 | S_G3 => 6
  | R_WaitStarted => 7 | R_G => 8 | Z_G1 => 9 | Z_G1b => 10 | Z_WaitRunTask => 11 | Z_G3 => 12 | Z_G4 => 13
  | C_WaitRunFinished => 14 | C_WaitRunTask => 15 | C_G3 => 16 | C_G4 => 17 | P_WaitRunFinished => 18 | Sig_G => 19
  end.
Definition pc_eqb (a b : pc) : bool := Nat.eqb (pc_num a) (pc_num b).

Fixpoint after_pc (p : pc) (k : list (prim pc)) : list (prim pc) :=
  match k with
  | [] => []
  | PGate q :: k' => if pc_eqb p q then k' else after_pc p k'
  | PWait a r q :: k' => if pc_eqb p q then k else after_pc p k'
  | _ :: k' => after_pc p k'
  end.

(** the task parked at p, with the stored continuation k, is stepped: a wait is re-tested, a gate is passed *)
Definition api_resume (t : nat) (c : call) (tr : trig) (p : pc) (k : list (prim pc)) (s : state) : state :=
  match k with
  | PWait _ r q :: k' =>
    if pc_eqb p q then (if r s then api_embed t c tr (run k' s) else s) else api_embed t c tr (run k s)
  | _ => api_embed t c tr (run k s)
  end.

Definition api_cont (t : nat) (c : call) (tr : trig) (src : fsm) (p : pc) : list (prim pc) :=
  match api_prog t c tr src with Some k => after_pc p k | None => [PRaise XKey] end.

(** ------------------------------------------------------------------ facts about the script *)

Theorem config_flags : ignore_invalid_triggers = false /\ queued = false /\ model_is_self = true /\
  wired_after_state_change = ["after_state_change"] /\ callback_backref = true.
Proof. vm_compute. repeat split. Qed.

(** AsyncMachine.add_model binds the triggers / `state` only if the model has no such attribute *)
Theorem no_name_collision :
  forallb (fun n => negb (sm_has n)) (config_triggers ++ ["state"; "trigger"]) = true.
Proof. vm_compute. reflexivity. Qed.

Theorem every_dynamic_callback_names_a_state :
  forallb (fun m => let n := m_name m in
     if prefix "on_enter_" n then existsb (fun f => String.eqb n ("on_enter_" ++ state_name f)%string) states
     else if prefix "on_exit_" n then existsb (fun f => String.eqb n ("on_exit_" ++ state_name f)%string) states
     else true) machine_methods = true.
Proof. vm_compute. reflexivity. Qed.

(** the scripts, spelled out (derived by computation from the regenerated files) *)
Theorem script_table :
  script Created TInitialize = Some (Some Initialized, [Cb "on_exit_created"; SetState Initialized; Cb "on_enter_initialized"; Cb "after_state_change"]) /\
  script Initialized TRun = Some (Some Running, [SetState Running; Cb "on_enter_running"; Cb "after_state_change"]) /\
  script Running TFinish = Some (Some Finished, [SetState Finished; Cb "on_enter_finished"; Cb "after_state_change"]) /\
  script Initialized TReset = Some (Some Initialized, [Cb "on_reset"; SetState Initialized; Cb "on_enter_initialized"; Cb "after_state_change"]) /\
  script Finished TReset = Some (Some Initialized, [Cb "on_reset"; Cb "on_exit_finished"; SetState Initialized; Cb "on_enter_initialized"; Cb "after_state_change"]) /\
  script Created TClose = Some (Some Closed, [Cb "on_exit_created"; SetState Closed; Cb "on_enter_closed"; Cb "after_state_change"]) /\
  script Initialized TClose = Some (Some Closed, [SetState Closed; Cb "on_enter_closed"; Cb "after_state_change"]) /\
  script Running TClose = Some (Some Closed, [Cb "on_close_while_running"; SetState Closed; Cb "on_enter_closed"; Cb "after_state_change"]) /\
  script Finished TClose = Some (Some Closed, [Cb "on_exit_finished"; SetState Closed; Cb "on_enter_closed"; Cb "after_state_change"]) /\
  script Closed TClose = Some (None, [Cb "after_state_change"]).
Proof. vm_compute. repeat split. Qed.

(** refusal: exactly the pairs without a row in CONFIG *)
Theorem script_refused : forall src tr,
  script src tr = None <->
  match tr, src with
  | TInitialize, Created | TRun, Initialized | TFinish, Running | TClose, _
  | TReset, Initialized | TReset, Finished => False
  | _, _ => True
  end.
Proof. intros src tr; destruct src, tr; vm_compute; split; try tauto; try discriminate. Qed.

(** every accepted trigger expands completely (no construct of the regenerated code is left uninterpreted) *)
Theorem expand_total : forall src tr, script src tr <> None -> expand src tr <> None.
Proof. intros src tr; destruct src, tr; vm_compute; try discriminate; tauto. Qed.

Theorem api_prog_total : forall t c src tr, tr <> TFinish -> script src tr <> None ->
  (tr = TReset -> exists o, c = CReset o) -> api_prog t c tr src <> None.
Proof.
  intros t c src tr Hf Hs Hr.
  destruct tr; try congruence;
    try (destruct src; vm_compute in Hs; try congruence; vm_compute; discriminate).
  destruct (Hr eq_refl) as [o ->].
  destruct src; vm_compute in Hs; try congruence; destruct o as [[x|] a b d]; vm_compute; discriminate.
Qed.

(** the expansion, spelled out: hooks / waits in order *)
Definition kwc : list (string * val) := [("context", VContext)].
Theorem expand_table :
  expand Created TInitialize = Some [UHook "start" kwc; USetState Initialized; UCompose; UHook "on_initialize_run" kwc;
                                      UHook "on_change_state" [("context", VContext); ("state_name", VState)]] /\
  expand Initialized TRun = Some [USetState Running; UNewRunFinished; UNewStarted; UCreateRunTask; UWaitStarted;
                                  UHook "on_change_state" [("context", VContext); ("state_name", VState)]] /\
  expand Running TFinish = Some [USetState Finished; UHook "on_finished" kwc;
                                 UHook "on_change_state" [("context", VContext); ("state_name", VState)]] /\
  expand Finished TReset = Some [UHook "reset" [("context", VContext); ("reset_options", VTrigKwarg "reset_options")];
                                 UAwaitRunTask; USetState Initialized; UCompose; UHook "on_initialize_run" kwc;
                                 UHook "on_change_state" [("context", VContext); ("state_name", VState)]] /\
  expand Initialized TReset = Some [UHook "reset" [("context", VContext); ("reset_options", VTrigKwarg "reset_options")];
                                 USetState Initialized; UCompose; UHook "on_initialize_run" kwc;
                                 UHook "on_change_state" [("context", VContext); ("state_name", VState)]] /\
  expand Running TClose = Some [UWaitRunFinished; USetState Closed; UHook "close" kwc;
                                UHook "on_change_state" [("context", VContext); ("state_name", VState)]] /\
  expand Finished TClose = Some [UAwaitRunTask; USetState Closed; UHook "close" kwc;
                                 UHook "on_change_state" [("context", VContext); ("state_name", VState)]] /\
  expand Initialized TClose = Some [USetState Closed; UHook "close" kwc;
                                 UHook "on_change_state" [("context", VContext); ("state_name", VState)]] /\
  expand Closed TClose = Some [].
Proof. vm_compute. repeat split. Qed.

(** ------------------------------------------------------------------ 4. agreement with Life/Model.v, for ALL states *)

Ltac split_state s :=
  destruct s; repeat match goal with f : fsm |- _ => destruct f end.

(** compute the script / program (closed terms over t, c) by vm_compute, then compare with the
    model by conversion (never normalise through [release] / [acquire]: the terms explode) *)
Ltac eval_progs :=
  repeat match goal with
  | |- context [script ?a ?b] => let k := eval vm_compute in (script a b) in change (script a b) with k
  | |- context [api_prog ?t ?c ?tr ?src] =>
    let k := eval vm_compute in (api_prog t c tr src) in change (api_prog t c tr src) with k
  | |- context [api_cont ?t ?c ?tr ?src ?p] =>
    let k := eval vm_compute in (api_cont t c tr src p) in change (api_cont t c tr src p) with k
  end.
Ltac tie := unfold api_trigger; eval_progs; reflexivity.

(** [initialize] (Imp.aopen -> StateMachine.aopen -> initialize): refusal iff no row; otherwise the first segment *)
Theorem tie_enter_start : forall s t c, enter_start s t c = api_trigger t c TInitialize s.
Proof. intros s t c; split_state s; tie. Qed.

Theorem tie_enter_run : forall s t c, enter_run s t c = api_trigger t c TRun s.
Proof. intros s t c; split_state s; tie. Qed.

Theorem tie_enter_reset : forall s t o, enter_reset s t o = api_trigger t (CReset o) TReset s.
Proof. intros s t [[x|] [a|] [b|] [d|]]; split_state s; tie. Qed.

(** [close]: every source state but Created (next theorem); from Running the model calls it only
    once `_run_finished` is set (Imp.aclose has waited), and then the wait of
    on_close_while_running -> wait_for_run_finish passes at once *)
Theorem tie_close_trigger : forall s t, st_fsm s <> Created ->
  (st_fsm s = Running -> run_finished s = Some true) ->
  close_trigger s t = api_trigger t CClose TClose s.
Proof.
  intros s t H1 H2; split_state s; cbn in H1, H2; try congruence;
    try (rewrite (H2 eq_refl)); try (match goal with r : option rpc |- _ => destruct r end); tie.
Qed.

(** the model has no suspension at the `start` hook of a close() from Created (unreachable: Imp.aclose
    runs after aopen): the same program with that one gate erased *)
Fixpoint ungate (p : pc) (k : list (prim pc)) : list (prim pc) :=
  match k with
  | [] => []
  | PGate q :: k' => if pc_eqb p q then k' else PGate q :: ungate p k'
  | x :: k' => x :: ungate p k'
  end.
Theorem tie_close_trigger_created : forall s t, st_fsm s = Created ->
  exists k, api_prog t CClose TClose Created = Some k /\
            close_trigger s t = api_embed t CClose TClose (run (ungate S_G1 k) s).
Proof.
  intros s t H; eexists; split; [vm_compute; reflexivity|].
  split_state s; cbn in H; try congruence; tie.
Qed.

(** resumption of a task parked inside a trigger *)
Theorem tie_step_initialize : forall s t c p, find_task (tasks s) t = Some (c, p) ->
  In p [S_G1; S_G2; S_G3] ->
  do_step s t = api_resume t c TInitialize p (api_cont t c TInitialize Created p) s.
Proof.
  intros s t c p H Hp; unfold do_step; rewrite H; clear H.
  cbn in Hp; destruct Hp as [<-|[<-|[<-|[]]]]; split_state s; tie.
Qed.

Theorem tie_step_run : forall s t c p, find_task (tasks s) t = Some (c, p) ->
  In p [R_WaitStarted; R_G] ->
  do_step s t = api_resume t c TRun p (api_cont t c TRun Initialized p) s.
Proof.
  intros s t c p H Hp; unfold do_step; rewrite H; clear H.
  cbn in Hp; destruct Hp as [<-|[<-|[]]]; eval_progs; [|reflexivity].
  destruct s; cbn [api_resume Model.started_ev].
  match goal with |- context [if ?b then _ else _] => destruct b end; reflexivity.
Qed.

(** reset: before the state change the continuation is the one of the CURRENT source state
    (Finished: on_exit_finished awaits the run task; Initialized: no exit callback) *)
Theorem tie_step_reset_before : forall s t o p, find_task (tasks s) t = Some (CReset o, p) ->
  (st_fsm s = Initialized \/ st_fsm s = Finished) ->
  (p = Z_G1 /\ o_stmt o <> None) \/ p = Z_G1b \/ (p = Z_WaitRunTask /\ st_fsm s = Finished) ->
  do_step s t = api_resume t (CReset o) TReset p (api_cont t (CReset o) TReset (st_fsm s) p) s.
Proof.
  intros s t o p H Hs Hp; unfold do_step; rewrite H; clear H.
  destruct o as [[x|] [a|] [b|] [d|]]; destruct Hp as [[-> Hn]|[->| [-> Hn]]]; try (cbn in Hn; congruence);
    split_state s; cbn in Hs; destruct Hs; try congruence; try (cbn in Hn; congruence);
    try (match goal with r : option rpc |- _ => destruct r end); tie.
Qed.

Theorem tie_step_reset_after : forall s t o p src, find_task (tasks s) t = Some (CReset o, p) ->
  (src = Initialized \/ src = Finished) -> In p [Z_G3; Z_G4] ->
  do_step s t = api_resume t (CReset o) TReset p (api_cont t (CReset o) TReset src p) s.
Proof.
  intros s t o p src H Hs Hp; unfold do_step; rewrite H; clear H.
  destruct o as [[x|] [a|] [b|] [d|]]; cbn in Hp; destruct Hp as [<-|[<-|[]]]; destruct Hs as [-> | ->];
    split_state s; tie.
Qed.

Theorem tie_step_close_wait_task : forall s t, find_task (tasks s) t = Some (CClose, C_WaitRunTask) ->
  do_step s t = api_resume t CClose TClose C_WaitRunTask (api_cont t CClose TClose Finished C_WaitRunTask) s.
Proof.
  intros s t H; unfold do_step; rewrite H; clear H.
  split_state s; try (match goal with r : option rpc |- _ => destruct r end); tie.
Qed.

Theorem tie_step_close_after : forall s t p src, find_task (tasks s) t = Some (CClose, p) ->
  src <> Closed -> In p [C_G3; C_G4] ->
  do_step s t = api_resume t CClose TClose p (api_cont t CClose TClose src p) s.
Proof.
  intros s t p src H Hs Hp; unfold do_step; rewrite H; clear H.
  cbn in Hp; destruct Hp as [<-|[<-|[]]]; destruct src; try congruence; split_state s; tie.
Qed.

(** Imp.aclose awaits Callback.wait_for_run_finish itself before the trigger: the same regenerated method *)
Definition wait_for_run_finish_prims : option (list (prim pc)) :=
  match expand_call ("wait_for_run_finish", [], []) with
  | Some ms => concat_opt (map (api_micro 0 CClose TClose) ms)
  | None => None
  end.

Theorem tie_close_wait_run_finished : forall s t,
  exists a r, wait_for_run_finish_prims = Some [PWait a r C_WaitRunFinished] /\
  (find_task (tasks s) t = Some (CClose, C_WaitRunFinished) ->
     do_step s t = if r s then close_trigger s t else s) /\
  (st_fsm s = Running ->
     enter_close s t = let s1 := publish s PEndAll in
                       match a s1 with
                       | WPass => close_trigger s1 t
                       | WPark => set_pc s1 t CClose C_WaitRunFinished
                       | WRaise x => raise_out s1 t CClose x
                       end).
Proof.
  intros s t; do 2 eexists; split; [vm_compute; reflexivity|]; split.
  - intros H; unfold do_step; rewrite H; clear H. destruct s; cbn.
    match goal with r : option bool |- _ => destruct r as [[|]|] end; reflexivity.
  - intros H; unfold enter_close. destruct s; cbn in H; subst; cbn.
    match goal with r : option bool |- _ => destruct r as [[|]|] end; reflexivity.
Qed.

(** ---- the run task: the `finally` of Callback._run and Callback._finish *)

Definition rpc_num (p : rpc) : nat :=
  match p with RT_New => 0 | RT_Created => 1 | RT_G_start => 2 | RT_WaitChild => 3 | RT_G_end => 4 | RT_G_fin => 5 | RT_G_cs => 6 end.

Fixpoint after_rpc (p : rpc) (k : list (prim rpc)) : list (prim rpc) :=
  match k with
  | [] => []
  | PGate q :: k' => if Nat.eqb (rpc_num p) (rpc_num q) then k' else after_rpc p k'
  | _ :: k' => after_rpc p k'
  end.

Definition run_micro (m : micro) : option (list (prim rpc)) :=
  match m with
  | USetState d => Some [PDo (fun s => set_st_fsm s d)]
  | UHook h kw =>
    match hook_of h, kw with
    | Some HFinished, [(a, VContext)] =>
      if String.eqb a "context" then
        Some [PDo (fun s => let s3 := log_hook s HFinished None None in cont_finished s3 (length (cont_plugins s3))); PGate RT_G_fin]
      else None
    | Some HChangeState, [(a, VContext); (b, VState)] =>
      if String.eqb a "context" && String.eqb b "state_name" then Some [PDo change_state_hook; PGate RT_G_cs] else None
    | _, _ => None
    end
  | _ => None
  end.

(** what the run task does after the `async with awith.run` block ended (normally or not):
    the finally of _run, then _finish; the trigger inside try/finally *)
Definition run_tail (src : fsm) : option (list (prim rpc)) :=
  match find_method callback_methods "_run", find_method callback_methods "_finish" with
  | Some r, Some f =>
    match m_body r, m_body f with
    | STryFinally (SAWith h [(c, ASelfContext)] (SEventSet (TLocal e1))) (SSeq (SEventSet (TLocal e2)) (SAwaitSelf fin)),
      SSeq SRunArgNone (STryFinally (SAwaitMachine tr) (SEventSet (TSelf rf))) =>
      if String.eqb h "run" && String.eqb c "context" && String.eqb e1 "started" && String.eqb e2 "started"
         && String.eqb fin "_finish" && String.eqb tr "finish" && String.eqb rf "_run_finished"
         && match m_params r with [p] => String.eqb p "started" | _ => false end
      then
        let pre := [PDo (fun s => set_started_ev s true); PDo (fun s => set_run_arg s None)] in
        let post := [PDo (fun s => set_run_finished s (Some true))] in
        match script src TFinish with
        | None => Some (pre ++ post)                 (* MachineError: finally, then the task ends with it *)
        | Some _ =>
          match expand src TFinish with
          | Some ms => match concat_opt (map run_micro ms) with Some k => Some (pre ++ k ++ post) | None => None end
          | None => None
          end
        end
      else None
    | _, _ => None
    end
  | _, _ => None
  end.

Definition run_embed (r : state * outc rpc) : state :=
  match r with
  | (s, KPark p _) => set_runt s (Some p)
  | (s, _) => set_runt s None
  end.

Theorem tie_run_finish : forall s,
  exists k, run_tail (st_fsm s) = Some k /\ run_finish s = run_embed (run k s).
Proof.
  intros s; split_state s; eexists; (split; [vm_compute; reflexivity|]); reflexivity.
Qed.

Theorem tie_step_run_task : forall s p, runt s = Some p -> In p [RT_G_fin; RT_G_cs] ->
  exists k, run_tail Running = Some k /\ do_step_run s = run_embed (run (after_rpc p k) s).
Proof.
  intros s p H Hp; eexists; split; [vm_compute; reflexivity|].
  unfold do_step_run; rewrite H; clear H.
  cbn in Hp; destruct Hp as [<-|[<-|[]]]; split_state s; tie.
Qed.

(** ------------------------------------------------------------------ 5. what a plugin observes *)

(** run a program to its end, every gate released and every wait satisfied at once *)
Fixpoint run_all {P} (k : list (prim P)) (s : state) : state :=
  match k with
  | [] => s
  | PDo f :: k' => run_all k' (f s)
  | _ :: k' => run_all k' s
  end.

Fixpoint hooks_of (tr : list event) : list (hook * fsm) :=
  match tr with
  | [] => []
  | EvHook h :: r => hooks_of r ++ [(h_hook h, h_fsm h)]
  | _ :: r => hooks_of r
  end.

(** the hooks one trigger calls, oldest first, each with the lifecycle state it sees
    (no helper of the model reads the trace: it is emptied first so that only the new events remain) *)
Definition hook_order {P} (k : list (prim P)) (s : state) : list (hook * fsm) :=
  hooks_of (trace (run_all k (set_trace s []))).

Definition api_hook_order (t : nat) (c : call) (tr : trig) (s : state) : option (list (hook * fsm)) :=
  match api_prog t c tr (st_fsm s) with Some k => Some (hook_order k s) | None => None end.

Theorem hook_order_initialize : forall s t c,
  api_hook_order t c TInitialize s =
  match st_fsm s with
  | Created => Some [(HStart, Created); (HChangeScript, Created); (HInitRun, Initialized); (HChangeState, Initialized)]
  | _ => None
  end.
Proof. intros s t c; split_state s; vm_compute; reflexivity. Qed.

Theorem hook_order_run : forall s t c,
  api_hook_order t c TRun s = match st_fsm s with Initialized => Some [(HChangeState, Running)] | _ => None end.
Proof. intros s t c; split_state s; vm_compute; reflexivity. Qed.

Theorem hook_order_reset : forall s t o,
  api_hook_order t (CReset o) TReset s =
  match st_fsm s with
  | Initialized | Finished =>
    Some ((HReset, st_fsm s) :: (match o_stmt o with Some _ => [(HChangeScript, st_fsm s)] | None => [] end)
          ++ [(HInitRun, Initialized); (HChangeState, Initialized)])
  | _ => None
  end.
Proof. intros s t [[x|] [a|] [b|] [d|]]; split_state s; vm_compute; reflexivity. Qed.

Theorem hook_order_close : forall s t,
  api_hook_order t CClose TClose s =
  match st_fsm s with
  | Created => Some [(HStart, Created); (HChangeScript, Created); (HClose, Closed); (HChangeState, Closed)]
  | Closed => Some []                     (* internal transition: after_state_change returns early *)
  | _ => Some [(HClose, Closed); (HChangeState, Closed)]
  end.
Proof. intros s t; split_state s; vm_compute; reflexivity. Qed.

(** stated for a state without registered Continue plugins (their built-in on_finished
    implementation, [cont_finished], publishes but calls no hook and does not touch the state) *)
Theorem hook_order_finish : forall s, cont_plugins s = [] ->
  match run_tail (st_fsm s) with Some k => Some (hook_order k s) | None => None end =
  match st_fsm s with
  | Running => Some [(HFinished, Finished); (HChangeState, Finished)]
  | _ => Some []
  end.
Proof. intros s H; split_state s; cbn in H; subst; vm_compute; reflexivity. Qed.

(** ------------------------------------------------------------------ 6. refusal (C15) and moves (C01) *)

Theorem run_refused_unless_initialized : forall s t c,
  (st_fsm s <> Initialized -> script (st_fsm s) TRun = None /\ enter_run s t c = refuse s t c) /\
  (st_fsm s = Initialized -> script (st_fsm s) TRun <> None /\ st_fsm (enter_run s t c) = Running).
Proof.
  intros s t c; split; intros H.
  - assert (E : script (st_fsm s) TRun = None) by (apply script_refused; destruct (st_fsm s); tauto).
    split; [exact E|]. rewrite tie_enter_run; unfold api_trigger; rewrite E; reflexivity.
  - rewrite H; split; [vm_compute; discriminate|].
    destruct s; cbn in H; subst; reflexivity.
Qed.

Theorem reset_refused_while_running : forall s t o, st_fsm s = Running ->
  script (st_fsm s) TReset = None /\ enter_reset s t o = refuse s t (CReset o).
Proof.
  intros s t o H.
  assert (E : script (st_fsm s) TReset = None) by (rewrite H; vm_compute; reflexivity).
  split; [exact E|]. rewrite tie_enter_reset; unfold api_trigger; rewrite E; reflexivity.
Qed.

(** every state change of every script goes along a row of CONFIG, and there is exactly one per
    accepted non-internal trigger, none for the internal one *)
Theorem script_moves_along_table : forall src tr dest acts, script src tr = Some (dest, acts) ->
  exists b, In (tr, src, dest, b) table /\
  filter (fun a => match a with SetState _ => true | _ => false end) acts =
  match dest with Some d => [SetState d] | None => [] end.
Proof.
  intros src tr dest acts H; destruct src, tr; vm_compute in H; try discriminate;
    injection H as <- <-; eexists; (split; [|reflexivity]); cbn; tauto.
Qed.

(** ------------------------------------------------------------------ 7. on_finished with Continue plugins registered *)

(** the built-in on_finished of the Continue plugins ([cont_finished]) publishes only: no hook, no state change *)
Lemma cont_finished_inv : forall n s,
  st_fsm (cont_finished s n) = st_fsm s /\ hooks_of (trace (cont_finished s n)) = hooks_of (trace s).
Proof.
  induction n; intros s; cbn [cont_finished]; [split; reflexivity|].
  destruct (filter (fun x => snd x) (cont_plugins s)) as [|[t b] l]; [split; reflexivity|].
  match goal with |- context [cont_finished ?x n] => destruct (IHn x) as [E1 E2]; rewrite E1, E2 end.
  split; reflexivity.
Qed.

Lemma run_tail_running :
  run_tail Running = Some [PDo (fun s => set_started_ev s true); PDo (fun s => set_run_arg s None);
                           PDo (fun s => set_st_fsm s Finished);
                           PDo (fun s => let s3 := log_hook s HFinished None None in cont_finished s3 (length (cont_plugins s3)));
                           PGate RT_G_fin; PDo change_state_hook; PGate RT_G_cs;
                           PDo (fun s => set_run_finished s (Some true))].
Proof. vm_compute. reflexivity. Qed.

(** [hook_order_finish] without the hypothesis on the Continue plugins *)
Theorem hook_order_finish_all : forall s,
  match run_tail (st_fsm s) with Some k => Some (hook_order k s) | None => None end =
  match st_fsm s with
  | Running => Some [(HFinished, Finished); (HChangeState, Finished)]
  | _ => Some []
  end.
Proof.
  intros s; destruct (st_fsm s) eqn:E.
  1,2,4,5: split_state s; cbn in E; try discriminate; vm_compute; reflexivity.
  rewrite run_tail_running. f_equal. unfold hook_order. cbn [run_all].
  match goal with |- context [cont_finished ?x ?n] =>
    destruct (cont_finished_inv n x) as [E1 E2]; set (X := cont_finished x n) in *; clearbody X end.
  unfold change_state_hook, log_hook, publish.
  cbn [trace set_trace set_run_finished hooks_of h_hook h_fsm st_fsm].
  rewrite ?E1, ?E2. destruct s; reflexivity.
Qed.
