(** Lock discipline of the lifecycle model: at most one API task is inside a
    transition (it holds the lock), waiters are exactly the tasks queued in
    FIFO order, and program counters are compatible with the call they belong
    to.  Holds in every reachable state (every label sequence). *)
From NL Require Import Life.Model.
From Coq Require Import Lia.

Definition waitlock (p : pc) : bool := match p with WaitLock1 | WaitLock2 => true | _ => false end.

Definition locked_pc (p : pc) : bool :=
  match p with WaitLock1 | WaitLock2 | P_WaitRunFinished | Sig_G => false | _ => true end.

Definition runlike (c : call) : bool :=
  match c with CRun | CRunCont | CRunContWait | CRunSession => true | _ => false end.

Definition compat (c : call) (p : pc) : bool :=
  match p with
  | WaitLock1 | Granted1 => match c with CSignal | CSend => false | _ => true end
  | WaitLock2 | Granted2 | C_WaitRunFinished | C_WaitRunTask | C_G3 | C_G4 =>
    match c with CClose => true | _ => false end
  | S_G1 | S_G2 | S_G3 => match c with CStart | CClose => true | _ => false end
  | R_WaitStarted | R_G => runlike c
  | Z_G1 | Z_G1b | Z_WaitRunTask | Z_G3 | Z_G4 => match c with CReset _ => true | _ => false end
  | P_WaitRunFinished => match c with CRunContWait | CRunSession => true | _ => false end
  | Sig_G => match c with CSignal | CSend => true | _ => false end
  end.

Notation ttab := (list (nat * (call * pc))).

Record Lk (h : option nat) (q : list nat) (ts : ttab) : Prop := mkLk {
  lk_holder_of : forall t c p, find_task ts t = Some (c, p) -> locked_pc p = true -> h = Some t;
  lk_holder_has : forall t, h = Some t -> exists c p, find_task ts t = Some (c, p) /\ locked_pc p = true;
  lk_q_wait : forall t, In t q -> exists c p, find_task ts t = Some (c, p) /\ waitlock p = true;
  lk_wait_q : forall t c p, find_task ts t = Some (c, p) -> waitlock p = true -> In t q;
  lk_q_nodup : NoDup q;
  lk_q_holder : q <> [] -> h <> None;
  lk_compat : forall t c p, find_task ts t = Some (c, p) -> compat c p = true
}.

Definition LkS (s : state) : Prop := Lk (holder s) (lockq s) (tasks s).

(** ---- the task table ---- *)
Lemma find_put_eq ts t x : find_task (put_task ts t x) t = Some x.
Proof.
  induction ts as [|[t' y] ts IH]; simpl.
  - rewrite Nat.eqb_refl. reflexivity.
  - destruct (Nat.eqb t t') eqn:E; simpl; rewrite E; auto.
Qed.

Lemma find_put_neq ts t t' x : t' <> t -> find_task (put_task ts t x) t' = find_task ts t'.
Proof.
  intros Hn. induction ts as [|[t0 y] ts IH]; simpl.
  - apply Nat.eqb_neq in Hn. rewrite Hn. reflexivity.
  - destruct (Nat.eqb t t0) eqn:E; simpl.
    + apply Nat.eqb_eq in E. subst t0. apply Nat.eqb_neq in Hn. rewrite Hn. reflexivity.
    + destruct (Nat.eqb t' t0); auto.
Qed.

Lemma find_remove_eq ts t : find_task (remove_task ts t) t = None.
Proof.
  induction ts as [|[t' y] ts IH]; simpl; auto.
  destruct (Nat.eqb t t') eqn:E; simpl; rewrite ?E; auto.
Qed.

Lemma find_remove_neq ts t t' : t' <> t -> find_task (remove_task ts t) t' = find_task ts t'.
Proof.
  intros Hn. induction ts as [|[t0 y] ts IH]; simpl; auto.
  destruct (Nat.eqb t t0) eqn:E; simpl.
  - apply Nat.eqb_eq in E. subst t0. apply Nat.eqb_neq in Hn. rewrite Hn. exact IH.
  - destruct (Nat.eqb t' t0); auto.
Qed.

Lemma waitlock_not_locked p : waitlock p = true -> locked_pc p = false.
Proof. destruct p; simpl; congruence. Qed.

Lemma granted_locked p : waitlock p = true -> locked_pc (granted_pc p) = true /\ waitlock (granted_pc p) = false.
Proof. destruct p; simpl; try discriminate; auto. Qed.

Lemma granted_compat c p : waitlock p = true -> compat c p = true -> compat c (granted_pc p) = true.
Proof. destruct p; simpl; auto; discriminate. Qed.

(** ---- triple-level operations and their effect on [Lk] ---- *)

(** a task that is neither waiting nor holding changes to another such pc, (dis)appears *)
Lemma Lk_put_free h q ts t c p :
  Lk h q ts ->
  (forall c0 p0, find_task ts t = Some (c0, p0) -> locked_pc p0 = false /\ waitlock p0 = false) ->
  locked_pc p = false -> waitlock p = false -> compat c p = true ->
  Lk h q (put_task ts t (c, p)).
Proof.
  intros [H1 H2 H3 H4 H5 H6 H7] Hold Hl Hw Hc. constructor; auto.
  - intros t' c' p' Hf Hlk. destruct (Nat.eq_dec t' t) as [->|Hn].
    + rewrite find_put_eq in Hf. inversion Hf; subst. congruence.
    + rewrite find_put_neq in Hf by assumption. eauto.
  - intros t' Hh. destruct (H2 _ Hh) as (c' & p' & Hf & Hlk).
    destruct (Nat.eq_dec t' t) as [->|Hn].
    + destruct (Hold _ _ Hf). congruence.
    + exists c', p'. rewrite find_put_neq by assumption. auto.
  - intros t' Hin. destruct (H3 _ Hin) as (c' & p' & Hf & Hwl).
    destruct (Nat.eq_dec t' t) as [->|Hn].
    + destruct (Hold _ _ Hf). congruence.
    + exists c', p'. rewrite find_put_neq by assumption. auto.
  - intros t' c' p' Hf Hwl. destruct (Nat.eq_dec t' t) as [->|Hn].
    + rewrite find_put_eq in Hf. inversion Hf; subst. congruence.
    + rewrite find_put_neq in Hf by assumption. eauto.
  - intros t' c' p' Hf. destruct (Nat.eq_dec t' t) as [->|Hn].
    + rewrite find_put_eq in Hf. inversion Hf; subst. assumption.
    + rewrite find_put_neq in Hf by assumption. eauto.
Qed.

Lemma Lk_remove_free h q ts t :
  Lk h q ts ->
  (forall c0 p0, find_task ts t = Some (c0, p0) -> locked_pc p0 = false /\ waitlock p0 = false) ->
  Lk h q (remove_task ts t).
Proof.
  intros [H1 H2 H3 H4 H5 H6 H7] Hold. constructor; auto.
  - intros t' c' p' Hf Hlk. destruct (Nat.eq_dec t' t) as [->|Hn].
    + rewrite find_remove_eq in Hf. discriminate.
    + rewrite find_remove_neq in Hf by assumption. eauto.
  - intros t' Hh. destruct (H2 _ Hh) as (c' & p' & Hf & Hlk).
    destruct (Nat.eq_dec t' t) as [->|Hn].
    + destruct (Hold _ _ Hf). congruence.
    + exists c', p'. rewrite find_remove_neq by assumption. auto.
  - intros t' Hin. destruct (H3 _ Hin) as (c' & p' & Hf & Hwl).
    destruct (Nat.eq_dec t' t) as [->|Hn].
    + destruct (Hold _ _ Hf). congruence.
    + exists c', p'. rewrite find_remove_neq by assumption. auto.
  - intros t' c' p' Hf Hwl. destruct (Nat.eq_dec t' t) as [->|Hn].
    + rewrite find_remove_eq in Hf. discriminate.
    + rewrite find_remove_neq in Hf by assumption. eauto.
  - intros t' c' p' Hf. destruct (Nat.eq_dec t' t) as [->|Hn].
    + rewrite find_remove_eq in Hf. discriminate.
    + rewrite find_remove_neq in Hf by assumption. eauto.
Qed.

(** the holder moves to another pc inside the lock *)
Lemma Lk_put_holder q ts t c p :
  Lk (Some t) q ts -> locked_pc p = true -> compat c p = true ->
  Lk (Some t) q (put_task ts t (c, p)).
Proof.
  intros [H1 H2 H3 H4 H5 H6 H7] Hl Hc.
  assert (Hw : waitlock p = false) by (destruct p; simpl in *; congruence).
  destruct (H2 t eq_refl) as (c0 & p0 & Hf0 & Hl0).
  constructor; auto.
  - intros t' c' p' Hf Hlk. destruct (Nat.eq_dec t' t) as [->|Hn]; auto.
    rewrite find_put_neq in Hf by assumption. eauto.
  - intros t' Hh. assert (t' = t) by congruence. subst t'. exists c, p. rewrite find_put_eq. auto.
  - intros t' Hin. destruct (H3 _ Hin) as (c' & p' & Hf & Hwl).
    destruct (Nat.eq_dec t' t) as [->|Hn].
    + rewrite Hf in Hf0. inversion Hf0; subst. rewrite (waitlock_not_locked _ Hwl) in Hl0. discriminate.
    + exists c', p'. rewrite find_put_neq by assumption. auto.
  - intros t' c' p' Hf Hwl. destruct (Nat.eq_dec t' t) as [->|Hn].
    + rewrite find_put_eq in Hf. inversion Hf; subst. congruence.
    + rewrite find_put_neq in Hf by assumption. eauto.
  - intros t' c' p' Hf. destruct (Nat.eq_dec t' t) as [->|Hn].
    + rewrite find_put_eq in Hf. inversion Hf; subst. assumption.
    + rewrite find_put_neq in Hf by assumption. eauto.
Qed.

(** a new task takes the free lock *)
Lemma Lk_take ts t c p :
  Lk None [] ts -> find_task ts t = None \/ (exists c0 p0, find_task ts t = Some (c0, p0) /\ locked_pc p0 = false /\ waitlock p0 = false) ->
  locked_pc p = true -> compat c p = true ->
  Lk (Some t) [] (put_task ts t (c, p)).
Proof.
  intros [H1 H2 H3 H4 H5 H6 H7] Hnew Hl Hc.
  assert (Hw : waitlock p = false) by (destruct p; simpl in *; congruence).
  constructor; auto.
  - intros t' c' p' Hf Hlk. destruct (Nat.eq_dec t' t) as [->|Hn]; auto.
    rewrite find_put_neq in Hf by assumption. specialize (H1 _ _ _ Hf Hlk). discriminate.
  - intros t' Hh. assert (t' = t) by congruence. subst t'. exists c, p. rewrite find_put_eq. auto.
  - intros t' [].
  - intros t' c' p' Hf Hwl. destruct (Nat.eq_dec t' t) as [->|Hn].
    + rewrite find_put_eq in Hf. inversion Hf; subst. congruence.
    + rewrite find_put_neq in Hf by assumption. eauto.
  - intros t' c' p' Hf. destruct (Nat.eq_dec t' t) as [->|Hn].
    + rewrite find_put_eq in Hf. inversion Hf; subst. assumption.
    + rewrite find_put_neq in Hf by assumption. eauto.
Qed.

Lemma NoDup_snoc {A} (l : list A) x : NoDup l -> ~ In x l -> NoDup (l ++ [x]).
Proof.
  induction l as [|a l IH]; simpl; intros Hnd Hni.
  - constructor; [intros [] | constructor].
  - inversion Hnd; subst. constructor.
    + intros Hin. apply in_app_or in Hin. destruct Hin as [Hin|[<-|[]]]; [contradiction|].
      apply Hni. left. reflexivity.
    + apply IH; auto.
Qed.

(** a new task queues for the lock *)
Lemma Lk_enqueue h q ts t c p :
  Lk h q ts -> ~ (h = None /\ q = []) ->
  find_task ts t = None \/ (exists c0 p0, find_task ts t = Some (c0, p0) /\ locked_pc p0 = false /\ waitlock p0 = false) ->
  waitlock p = true -> compat c p = true ->
  Lk h (q ++ [t]) (put_task ts t (c, p)).
Proof.
  intros [H1 H2 H3 H4 H5 H6 H7] Hbusy Hnew Hw Hc.
  pose proof (waitlock_not_locked _ Hw) as Hl.
  assert (Hnq : ~ In t q).
  { intros Hin. destruct (H3 _ Hin) as (c' & p' & Hf & Hwl).
    destruct Hnew as [Hn | (c0 & p0 & Hf0 & _ & Hw0)]; congruence. }
  assert (Hnh : h <> Some t).
  { intros Hh. destruct (H2 _ Hh) as (c' & p' & Hf & Hlk).
    destruct Hnew as [Hn | (c0 & p0 & Hf0 & Hl0 & _)]; congruence. }
  constructor.
  - intros t' c' p' Hf Hlk. destruct (Nat.eq_dec t' t) as [->|Hn].
    + rewrite find_put_eq in Hf. inversion Hf; subst. congruence.
    + rewrite find_put_neq in Hf by assumption. eauto.
  - intros t' Hh. destruct (H2 _ Hh) as (c' & p' & Hf & Hlk).
    destruct (Nat.eq_dec t' t) as [->|Hn]; [congruence|].
    exists c', p'. rewrite find_put_neq by assumption. auto.
  - intros t' Hin. apply in_app_or in Hin. destruct Hin as [Hin|[<-|[]]].
    + destruct (H3 _ Hin) as (c' & p' & Hf & Hwl).
      destruct (Nat.eq_dec t' t) as [->|Hn]; [contradiction|].
      exists c', p'. rewrite find_put_neq by assumption. auto.
    + exists c, p. rewrite find_put_eq. auto.
  - intros t' c' p' Hf Hwl. apply in_or_app. destruct (Nat.eq_dec t' t) as [->|Hn].
    + right. left. reflexivity.
    + left. rewrite find_put_neq in Hf by assumption. eauto.
  - apply NoDup_snoc; auto.
  - intros _. destruct h; [discriminate|]. destruct q; [exfalso; apply Hbusy; auto|].
    apply H6. discriminate.
  - intros t' c' p' Hf. destruct (Nat.eq_dec t' t) as [->|Hn].
    + rewrite find_put_eq in Hf. inversion Hf; subst. assumption.
    + rewrite find_put_neq in Hf by assumption. eauto.
Qed.

(** ---- tables up to [find_task] ---- *)
Definition teq (ts ts' : ttab) : Prop := forall t, find_task ts t = find_task ts' t.

Lemma Lk_ext h q ts ts' : teq ts ts' -> Lk h q ts -> Lk h q ts'.
Proof.
  intros E [H1 H2 H3 H4 H5 H6 H7]. constructor; auto.
  - intros t c p Hf. rewrite <- E in Hf. eauto.
  - intros t Hh. destruct (H2 _ Hh) as (c & p & Hf & Hl). exists c, p. rewrite <- E. auto.
  - intros t Hin. destruct (H3 _ Hin) as (c & p & Hf & Hl). exists c, p. rewrite <- E. auto.
  - intros t c p Hf. rewrite <- E in Hf. eauto.
  - intros t c p Hf. rewrite <- E in Hf. eauto.
Qed.

Lemma teq_refl ts : teq ts ts. Proof. intros t. reflexivity. Qed.
Lemma teq_sym ts ts' : teq ts ts' -> teq ts' ts. Proof. intros E t. symmetry. apply E. Qed.
Lemma teq_trans a b c : teq a b -> teq b c -> teq a c. Proof. intros E1 E2 t. rewrite E1. apply E2. Qed.

Lemma teq_put ts ts' t x : teq ts ts' -> teq (put_task ts t x) (put_task ts' t x).
Proof.
  intros E t'. destruct (Nat.eq_dec t' t) as [->|Hn].
  - rewrite !find_put_eq. reflexivity.
  - rewrite !find_put_neq by assumption. apply E.
Qed.

Lemma teq_remove ts ts' t : teq ts ts' -> teq (remove_task ts t) (remove_task ts' t).
Proof.
  intros E t'. destruct (Nat.eq_dec t' t) as [->|Hn].
  - rewrite !find_remove_eq. reflexivity.
  - rewrite !find_remove_neq by assumption. apply E.
Qed.

Lemma teq_put_put ts t x y : teq (put_task (put_task ts t x) t y) (put_task ts t y).
Proof.
  intros t'. destruct (Nat.eq_dec t' t) as [->|Hn].
  - rewrite !find_put_eq. reflexivity.
  - rewrite !find_put_neq by assumption. reflexivity.
Qed.

Lemma teq_remove_put ts t x : teq (remove_task (put_task ts t x) t) (remove_task ts t).
Proof.
  intros t'. destruct (Nat.eq_dec t' t) as [->|Hn].
  - rewrite !find_remove_eq. reflexivity.
  - rewrite !find_remove_neq, find_put_neq by assumption. reflexivity.
Qed.

Lemma teq_put_remove ts t x : teq (put_task (remove_task ts t) t x) (put_task ts t x).
Proof.
  intros t'. destruct (Nat.eq_dec t' t) as [->|Hn].
  - rewrite !find_put_eq. reflexivity.
  - rewrite !find_put_neq, find_remove_neq by assumption. reflexivity.
Qed.

Lemma teq_put_same ts t x : find_task ts t = Some x -> teq (put_task ts t x) ts.
Proof.
  intros Hf t'. destruct (Nat.eq_dec t' t) as [->|Hn].
  - rewrite find_put_eq. auto.
  - rewrite find_put_neq by assumption. reflexivity.
Qed.

Lemma teq_put_comm ts t t' x y : t <> t' ->
  teq (put_task (put_task ts t x) t' y) (put_task (put_task ts t' y) t x).
Proof.
  intros Hn u. destruct (Nat.eq_dec u t) as [E1|H1]; destruct (Nat.eq_dec u t') as [E2|H2]; subst; try congruence.
  - rewrite find_put_neq, !find_put_eq by congruence. reflexivity.
  - rewrite find_put_eq, find_put_neq, find_put_eq by congruence. reflexivity.
  - rewrite !find_put_neq by congruence. reflexivity.
Qed.

Lemma teq_remove_put_comm ts t t' x : t <> t' ->
  teq (remove_task (put_task ts t' x) t) (put_task (remove_task ts t) t' x).
Proof.
  intros Hn u. destruct (Nat.eq_dec u t) as [->|H1].
  - rewrite find_remove_eq, find_put_neq, find_remove_eq by congruence. reflexivity.
  - rewrite find_remove_neq by assumption. destruct (Nat.eq_dec u t') as [->|H2].
    + rewrite !find_put_eq. reflexivity.
    + rewrite !find_put_neq, find_remove_neq by assumption. reflexivity.
Qed.

(** ---- release ---- *)
Definition rel_holder (q : list nat) : option nat := match q with [] => None | t :: _ => Some t end.
Definition rel_tasks (q : list nat) (ts : ttab) : ttab :=
  match q with
  | [] => ts
  | t :: _ => match find_task ts t with Some (c, p) => put_task ts t (c, granted_pc p) | None => ts end
  end.

Lemma release_holder s : holder (release s) = rel_holder (lockq s).
Proof. unfold release. destruct (lockq s) as [|t q]; simpl; auto. destruct (find_task (tasks s) t) as [[c p]|]; reflexivity. Qed.
Lemma release_lockq s : lockq (release s) = tl (lockq s).
Proof. unfold release. destruct (lockq s) as [|t q] eqn:E; simpl; auto. destruct (find_task (tasks s) t) as [[c p]|]; reflexivity. Qed.
Lemma release_tasks s : tasks (release s) = rel_tasks (lockq s) (tasks s).
Proof. unfold release, rel_tasks. destruct (lockq s) as [|t q]; simpl; auto. destruct (find_task (tasks s) t) as [[c p]|]; reflexivity. Qed.

(** the holder releases the lock and its own entry is forgotten *)
Lemma Lk_release_forget q ts t :
  Lk (Some t) q ts -> Lk (rel_holder q) (tl q) (remove_task (rel_tasks q ts) t).
Proof.
  intros [H1 H2 H3 H4 H5 H6 H7].
  destruct (H2 t eq_refl) as (c0 & p0 & Hf0 & Hl0).
  destruct q as [|t1 q]; simpl.
  - constructor; try (intros; contradiction); auto.
    + intros t' c p Hf Hl. destruct (Nat.eq_dec t' t) as [->|Hn].
      * rewrite find_remove_eq in Hf. discriminate.
      * rewrite find_remove_neq in Hf by assumption. specialize (H1 _ _ _ Hf Hl). congruence.
    + intros t' Hh. discriminate.
    + intros t' c p Hf Hw. destruct (Nat.eq_dec t' t) as [->|Hn].
      * rewrite find_remove_eq in Hf. discriminate.
      * rewrite find_remove_neq in Hf by assumption. eauto.
    + intros t' c p Hf. destruct (Nat.eq_dec t' t) as [->|Hn].
      * rewrite find_remove_eq in Hf. discriminate.
      * rewrite find_remove_neq in Hf by assumption. eauto.
  - destruct (H3 t1 (or_introl eq_refl)) as (c1 & p1 & Hf1 & Hw1).
    assert (Hne : t1 <> t).
    { intros ->. rewrite Hf1 in Hf0. inversion Hf0; subst. rewrite (waitlock_not_locked _ Hw1) in Hl0. discriminate. }
    inversion H5 as [|? ? Hni Hnd]; subst.
    rewrite Hf1. destruct (granted_locked _ Hw1) as (Hgl & Hgw).
    assert (Hfind : forall t', t' <> t -> find_task (remove_task (put_task ts t1 (c1, granted_pc p1)) t) t' =
                                if Nat.eqb t' t1 then Some (c1, granted_pc p1) else find_task ts t').
    { intros t' Hn. rewrite find_remove_neq by assumption. destruct (Nat.eqb_spec t' t1) as [->|Hn1].
      - apply find_put_eq.
      - apply find_put_neq. assumption. }
    constructor.
    + intros t' c p Hf Hl. destruct (Nat.eq_dec t' t) as [->|Hn].
      * rewrite find_remove_eq in Hf. discriminate.
      * rewrite Hfind in Hf by assumption. destruct (Nat.eqb_spec t' t1) as [->|Hn1]; auto.
        specialize (H1 _ _ _ Hf Hl). congruence.
    + intros t' Hh. assert (t' = t1) by congruence. subst t'.
      exists c1, (granted_pc p1). rewrite Hfind, Nat.eqb_refl by assumption. auto.
    + intros t' Hin. destruct (H3 t' (or_intror Hin)) as (c & p & Hf & Hw).
      assert (t' <> t1) by (intros ->; contradiction).
      assert (t' <> t).
      { intros ->. rewrite Hf in Hf0. inversion Hf0; subst. rewrite (waitlock_not_locked _ Hw) in Hl0. discriminate. }
      exists c, p. rewrite Hfind by assumption. destruct (Nat.eqb_spec t' t1); [contradiction|]. auto.
    + intros t' c p Hf Hw. destruct (Nat.eq_dec t' t) as [->|Hn].
      * rewrite find_remove_eq in Hf. discriminate.
      * rewrite Hfind in Hf by assumption. destruct (Nat.eqb_spec t' t1) as [->|Hn1].
        -- inversion Hf; subst. congruence.
        -- destruct (H4 _ _ _ Hf Hw) as [<-|Hin]; [congruence | assumption].
    + assumption.
    + intros _. discriminate.
    + intros t' c p Hf. destruct (Nat.eq_dec t' t) as [->|Hn].
      * rewrite find_remove_eq in Hf. discriminate.
      * rewrite Hfind in Hf by assumption. destruct (Nat.eqb_spec t' t1) as [->|Hn1].
        -- inversion Hf; subst. apply granted_compat; eauto.
        -- eauto.
Qed.

(** re-adding the forgotten task *)
Lemma Lk_readd_free h q ts t c p :
  Lk h q (remove_task ts t) -> locked_pc p = false -> waitlock p = false -> compat c p = true ->
  Lk h q (put_task ts t (c, p)).
Proof.
  intros H Hl Hw Hc. eapply Lk_ext; [apply teq_put_remove|].
  apply Lk_put_free; auto. intros c0 p0 Hf. rewrite find_remove_eq in Hf. discriminate.
Qed.

Lemma Lk_readd_take ts t c p :
  Lk None [] (remove_task ts t) -> locked_pc p = true -> compat c p = true ->
  Lk (Some t) [] (put_task ts t (c, p)).
Proof.
  intros H Hl Hc. eapply Lk_ext; [apply teq_put_remove|].
  apply Lk_take; auto. left. apply find_remove_eq.
Qed.

Lemma Lk_readd_enqueue h q ts t c p :
  Lk h q (remove_task ts t) -> ~ (h = None /\ q = []) -> waitlock p = true -> compat c p = true ->
  Lk h (q ++ [t]) (put_task ts t (c, p)).
Proof.
  intros H Hb Hw Hc. eapply Lk_ext; [apply teq_put_remove|].
  apply Lk_enqueue; auto. left. apply find_remove_eq.
Qed.

Lemma Lk_forget_free h q ts t :
  Lk h q ts ->
  (forall c0 p0, find_task ts t = Some (c0, p0) -> locked_pc p0 = false /\ waitlock p0 = false) ->
  Lk h q (remove_task ts t).
Proof. apply Lk_remove_free. Qed.

(** ---- state level ---- *)

(** what a step of the lock holder [t] can do to the lock triple *)
Definition HRes (s : state) (t : nat) (s' : state) : Prop :=
  (holder s' = holder s /\ lockq s' = lockq s /\
   exists c p, locked_pc p = true /\ compat c p = true /\ tasks s' = put_task (tasks s) t (c, p))
  \/ (holder s' = rel_holder (lockq s) /\ lockq s' = tl (lockq s) /\
      tasks s' = remove_task (rel_tasks (lockq s) (tasks s)) t)
  \/ (holder s' = rel_holder (lockq s) /\ lockq s' = tl (lockq s) /\
      exists c p, locked_pc p = false /\ waitlock p = false /\ compat c p = true /\
                  tasks s' = put_task (rel_tasks (lockq s) (tasks s)) t (c, p)).

Lemma HRes_Lk s t s' : LkS s -> holder s = Some t -> HRes s t s' -> LkS s'.
Proof.
  unfold LkS. intros HL Hh [(E1 & E2 & c & p & Hl & Hc & E3) | [(E1 & E2 & E3) | (E1 & E2 & c & p & Hl & Hw & Hc & E3)]];
    rewrite E1, E2, E3; rewrite Hh in HL.
  - rewrite Hh. apply Lk_put_holder; auto.
  - apply Lk_release_forget; auto.
  - apply Lk_readd_free; auto. apply Lk_release_forget; auto.
Qed.

(** same lock triple *)
Definition slk (s s' : state) : Prop := holder s' = holder s /\ lockq s' = lockq s /\ tasks s' = tasks s.

Lemma HRes_slk s s1 t s' : slk s s1 -> HRes s1 t s' -> HRes s t s'.
Proof. intros (E1 & E2 & E3). unfold HRes. rewrite E1, E2, E3. auto. Qed.

Lemma apply_rest_holder s o : holder (apply_rest s o) = holder s.
Proof. unfold apply_rest. destruct (o_start o), (o_threads o), (o_modules o); reflexivity. Qed.
Lemma apply_rest_lockq s o : lockq (apply_rest s o) = lockq s.
Proof. unfold apply_rest. destruct (o_start o), (o_threads o), (o_modules o); reflexivity. Qed.
Lemma apply_rest_tasks s o : tasks (apply_rest s o) = tasks s.
Proof. unfold apply_rest. destruct (o_start o), (o_threads o), (o_modules o); reflexivity. Qed.

Ltac hput c p := left; simpl; rewrite ?apply_rest_holder, ?apply_rest_lockq, ?apply_rest_tasks; simpl;
  repeat split; auto; apply (ex_intro _ c); apply (ex_intro _ p); simpl; auto.

Lemma HRes_refuse s t c : HRes s t (refuse s t c).
Proof.
  right. left. unfold refuse.
  destruct (is_cont c); [destruct (cont_closed (release s))|]; simpl;
    rewrite ?release_holder, ?release_lockq, ?release_tasks; auto.
Qed.

Lemma HRes_release_finish s s1 t c r :
  holder s1 = holder (release s) -> lockq s1 = lockq (release s) -> tasks s1 = tasks (release s) ->
  HRes s t (finish_call s1 t c r).
Proof.
  intros E1 E2 E3. right. left. simpl. rewrite E1, E2, E3, release_holder, release_lockq, release_tasks. auto.
Qed.

Lemma HRes_close_trigger s t : HRes s t (close_trigger s t).
Proof.
  unfold close_trigger. destruct (st_fsm s).
  - hput CClose C_G3.
  - hput CClose C_G3.
  - hput CClose C_G3.
  - destruct (runt s); [hput CClose C_WaitRunTask | hput CClose C_G3].
  - apply HRes_release_finish; reflexivity.
Qed.

Lemma HRes_enter_close s t : HRes s t (enter_close s t).
Proof.
  unfold enter_close.
  assert (Hs : slk s (publish s PEndAll)) by (repeat split).
  destruct (st_fsm (publish s PEndAll)) eqn:Ef; try (eapply HRes_slk; [exact Hs | apply HRes_close_trigger]).
  destruct (run_finished (publish s PEndAll)) as [[|]|].
  - eapply HRes_slk; [exact Hs | apply HRes_close_trigger].
  - hput CClose C_WaitRunFinished.
  - eapply HRes_slk; [exact Hs|]. apply HRes_release_finish; reflexivity.
Qed.

Lemma HRes_enter (s : state) (t : nat) (c : call) (part2 : bool) :
  (exists G : pc, find_task (tasks s) t = Some (c, G) /\ locked_pc G = true /\ compat c G = true) ->
  compat c (if part2 then Granted2 else Granted1) = true ->
  HRes s t (enter s t c part2).
Proof.
  intros (G & Hf & HG & HcG) Hc. unfold enter.
  destruct c; simpl in Hc; try discriminate.
  - (* CStart *) unfold enter_start. destruct (st_fsm s); try apply HRes_refuse. hput CStart S_G1.
  - (* CRun *) unfold enter_run. destruct (st_fsm s); try apply HRes_refuse. hput CRun R_WaitStarted.
  - (* CReset *) unfold enter_reset. destruct (st_fsm s); try apply HRes_refuse.
    + destruct (o_stmt o); [hput (CReset o) Z_G1 | hput (CReset o) Z_G1b].
    + destruct (o_stmt o); [hput (CReset o) Z_G1 | hput (CReset o) Z_G1b].
  - (* CClose *) destruct part2; [apply HRes_enter_close|].
    unfold enter_start. destruct (st_fsm s); try apply HRes_refuse. hput CClose S_G1.
  - unfold enter_run. destruct (st_fsm s); try apply HRes_refuse. hput CRunCont R_WaitStarted.
  - unfold enter_run. destruct (st_fsm s); try apply HRes_refuse. hput CRunContWait R_WaitStarted.
  - unfold enter_run. destruct (st_fsm s); try apply HRes_refuse. hput CRunSession R_WaitStarted.
  - destruct part2; discriminate.
  - destruct part2; discriminate.
Qed.

Lemma slk_refl s : slk s s. Proof. repeat split. Qed.

Lemma LkS_slk s s' : slk s s' -> LkS s -> LkS s'.
Proof. intros (E1 & E2 & E3). unfold LkS. rewrite E1, E2, E3. auto. Qed.

(** a task that is not in the table (or at a free pc) asks for the lock *)
Lemma LkS_acquire (s : state) (t : nat) (c : call) (part2 : bool) :
  LkS s ->
  (find_task (tasks s) t = None \/
   exists (c0 : call) (p0 : pc), find_task (tasks s) t = Some (c0, p0) /\ locked_pc p0 = false /\ waitlock p0 = false) ->
  compat c (if part2 then Granted2 else Granted1) = true ->
  LkS (acquire s t c part2).
Proof.
  intros HL Hnew Hc. unfold acquire.
  assert (Hcw : compat c (if part2 then WaitLock2 else WaitLock1) = true) by (destruct part2; exact Hc).
  destruct (holder s) as [h|] eqn:Eh.
  - unfold LkS. simpl. rewrite Eh. unfold LkS in HL. rewrite Eh in HL.
    apply Lk_enqueue; auto; [intros [? _]; discriminate | destruct part2; reflexivity].
  - destruct (lockq s) as [|t1 q] eqn:Eq.
    + set (G := if part2 then Granted2 else Granted1).
      set (s2 := set_pc (set_holder s (Some t)) t c G).
      assert (HL2 : LkS s2).
      { unfold LkS, s2. simpl. rewrite Eq. unfold LkS in HL. rewrite Eh, Eq in HL.
        apply Lk_take; auto. unfold G. destruct part2; reflexivity. }
      eapply HRes_Lk; [exact HL2 | reflexivity |].
      apply HRes_enter; auto. exists G. unfold s2. simpl. rewrite find_put_eq.
      repeat split; auto. unfold G. destruct part2; reflexivity.
    + unfold LkS in *. simpl. rewrite Eh in *. rewrite Eq in HL.
      change (t1 :: q ++ [t]) with ((t1 :: q) ++ [t]).
      apply Lk_enqueue; auto; [intros [_ ?]; discriminate | destruct part2; reflexivity].
Qed.

(** close(): the start part is over; release and queue again for the close part *)
Lemma LkS_requeue s t :
  LkS s -> holder s = Some t -> LkS (acquire (release s) t CClose true).
Proof.
  intros HL Hh. unfold LkS in HL. rewrite Hh in HL.
  pose proof (Lk_release_forget _ _ _ HL) as HF.
  unfold acquire. rewrite release_holder, release_lockq.
  destruct (rel_holder (lockq s)) as [h|] eqn:Eh.
  - unfold LkS. simpl. rewrite ?release_holder, ?release_lockq, ?release_tasks, ?Eh.
    apply Lk_readd_enqueue; auto. intros [? _]; discriminate.
  - destruct (tl (lockq s)) as [|t1 q] eqn:Eq.
    + set (s2 := set_pc (set_holder (release s) (Some t)) t CClose Granted2).
      assert (HL2 : LkS s2).
      { unfold LkS, s2. simpl. rewrite ?release_lockq, ?release_tasks, ?Eq.
        apply Lk_readd_take; auto. }
      eapply HRes_Lk; [exact HL2 | reflexivity |].
      apply HRes_enter; auto. exists Granted2. unfold s2. simpl. rewrite find_put_eq. auto.
    + unfold LkS. simpl. rewrite ?release_holder, ?release_lockq, ?release_tasks, ?Eh, ?Eq.
      rewrite ?Eq in HF. change (t1 :: q ++ [t]) with ((t1 :: q) ++ [t]).
      apply Lk_readd_enqueue; auto. intros [_ ?]; discriminate.
Qed.

Lemma LkS_finish_free s s1 t c r :
  LkS s -> slk s s1 ->
  (forall c0 p0, find_task (tasks s) t = Some (c0, p0) -> locked_pc p0 = false /\ waitlock p0 = false) ->
  LkS (finish_call s1 t c r).
Proof.
  intros HL (E1 & E2 & E3) Hfree. unfold LkS. simpl. rewrite E1, E2, E3. apply Lk_remove_free; auto.
Qed.

Lemma LkS_put_free s s1 t c p :
  LkS s -> slk s s1 ->
  (forall c0 p0, find_task (tasks s) t = Some (c0, p0) -> locked_pc p0 = false /\ waitlock p0 = false) ->
  locked_pc p = false -> waitlock p = false -> compat c p = true ->
  LkS (set_pc s1 t c p).
Proof.
  intros HL (E1 & E2 & E3) Hfree Hl Hw Hc. unfold LkS. simpl. rewrite E1, E2, E3. apply Lk_put_free; auto.
Qed.

Lemma slk_cont_finished n : forall s, slk s (cont_finished s n).
Proof.
  induction n as [|n IH]; intros s; simpl; [apply slk_refl|].
  destruct (filter _ (cont_plugins s)) as [|[t b] r]; [apply slk_refl|].
  match goal with |- slk _ (cont_finished ?x n) => destruct (IH x) as (E1 & E2 & E3) end.
  repeat split; [rewrite E1 | rewrite E2 | rewrite E3]; reflexivity.
Qed.

Lemma slk_run_finish s : slk s (run_finish s).
Proof.
  unfold run_finish. simpl. destruct (st_fsm s); try (repeat split; reflexivity).
  match goal with |- slk _ (set_runt (cont_finished ?x ?n) _) => destruct (slk_cont_finished n x) as (E1 & E2 & E3) end.
  repeat split; simpl; [rewrite E1 | rewrite E2 | rewrite E3]; reflexivity.
Qed.

Lemma slk_trans a b c : slk a b -> slk b c -> slk a c.
Proof. intros (A1 & A2 & A3) (B1 & B2 & B3). repeat split; congruence. Qed.

Lemma slk_step_run s : slk s (do_step_run s).
Proof.
  unfold do_step_run. destruct (runt s) as [[]|]; try apply slk_refl.
  - destruct (run_arg s); [repeat split | apply slk_run_finish].
  - simpl. destruct (run_arg s).
    + repeat split.
    + eapply slk_trans; [|apply slk_run_finish]. repeat split.
  - repeat split.
  - destruct (run_call_pending s); [apply slk_refl|]. destruct (pending_exit s); [|apply slk_refl].
    simpl. destruct (run_arg s).
    + repeat split.
    + eapply slk_trans; [|apply slk_run_finish]. repeat split.
  - apply slk_run_finish.
  - repeat split.
  - repeat split.
Qed.

Lemma LkS_do_call s t c : LkS s -> LkS (do_call s t c).
Proof.
  intros HL. unfold do_call. destruct (find_task (tasks s) t) as [x|] eqn:Ef; auto.
  assert (Hfree : forall c0 p0, find_task (tasks s) t = Some (c0, p0) -> locked_pc p0 = false /\ waitlock p0 = false)
    by (intros; congruence).
  destruct c; cbn [nl_started nl_closed cont_closed running_process send_command set_trace].
  - destruct (nl_started s); [eapply LkS_finish_free; eauto; repeat split|].
    apply LkS_acquire; auto; try (left; exact Ef); try (eapply LkS_slk; [|exact HL]; repeat split).
  - apply LkS_acquire; auto.
  - apply LkS_acquire; auto.
  - destruct (nl_closed s); [eapply LkS_finish_free; eauto; repeat split|]. simpl.
    destruct (nl_started s); apply LkS_acquire; auto; try (left; exact Ef); try (eapply LkS_slk; [|exact HL]; repeat split).
  - destruct (cont_closed s); [eapply LkS_finish_free; eauto; repeat split|].
    apply LkS_acquire; auto; try (left; exact Ef); try (eapply LkS_slk; [|exact HL]; repeat split).
  - destruct (cont_closed s); [eapply LkS_finish_free; eauto; repeat split|].
    apply LkS_acquire; auto; try (left; exact Ef); try (eapply LkS_slk; [|exact HL]; repeat split).
  - apply LkS_acquire; auto.
  - destruct (running_process s).
    + eapply LkS_put_free; eauto. repeat split.
    + eapply LkS_finish_free; eauto. repeat split.
  - destruct (send_command s).
    + eapply LkS_put_free; eauto. repeat split.
    + eapply LkS_finish_free; eauto. repeat split.
Qed.

Ltac inside c p := eapply HRes_Lk; [eassumption | eassumption | hput c p].

Lemma LkS_do_step s t : LkS s -> LkS (do_step s t).
Proof.
  intros HL. unfold do_step. destruct (find_task (tasks s) t) as [[c p]|] eqn:Ef; auto.
  pose proof (lk_compat _ _ _ HL _ _ _ Ef) as Hc.
  assert (Hhold : locked_pc p = true -> holder s = Some t) by (intros Hl; eapply (lk_holder_of _ _ _ HL); eauto).
  destruct p; simpl in Hhold; try specialize (Hhold eq_refl); auto.
  - (* Granted1 *)
    eapply HRes_Lk; eauto; apply HRes_enter; eauto; try (exists Granted1; auto).
  - (* Granted2 *)
    eapply HRes_Lk; eauto; apply HRes_enter; eauto; try (exists Granted2; auto).
  - inside c S_G2.
  - inside c S_G3.
  - (* S_G3 *)
    destruct c; simpl in Hc; try discriminate.
    + eapply HRes_Lk; eauto. apply HRes_release_finish; reflexivity.
    + apply LkS_requeue; auto.
  - destruct (started_ev s); auto. inside c R_G.
  - (* R_G *)
    destruct c; simpl in Hc; try discriminate;
      try (eapply HRes_Lk; eauto; apply HRes_release_finish; reflexivity);
      (eapply HRes_Lk; eauto; right; right; simpl; rewrite release_holder, release_lockq, release_tasks;
       repeat split; auto;
       match goal with E : find_task _ _ = Some (?c0, _) |- _ => apply (ex_intro _ c0) end;
       exists P_WaitRunFinished; simpl; auto).
  - (* Z_G1 *)
    destruct c; simpl in Hc; try discriminate. inside (CReset o) Z_G1b.
  - (* Z_G1b *)
    destruct (st_fsm s); try (inside c Z_G3). destruct (runt s); [inside c Z_WaitRunTask | inside c Z_G3].
  - destruct (runt s); auto. inside c Z_G3.
  - inside c Z_G4.
  - eapply HRes_Lk; eauto. apply HRes_release_finish; reflexivity.
  - destruct (run_finished s) as [[|]|]; auto. eapply HRes_Lk; eauto. apply HRes_close_trigger.
  - destruct (runt s); auto. destruct c; simpl in Hc; try discriminate. inside CClose C_G3.
  - inside c C_G4.
  - eapply HRes_Lk; eauto. apply HRes_release_finish; reflexivity.
  - (* P_WaitRunFinished *)
    destruct (run_finished s) as [[|]|]; auto.
    eapply LkS_finish_free; eauto; [apply slk_refl|]. intros c0 p0 Hf. rewrite Ef in Hf. inversion Hf; subst. auto.
  - eapply LkS_finish_free; eauto; [apply slk_refl|]. intros c0 p0 Hf. rewrite Ef in Hf. inversion Hf; subst. auto.
Qed.

Theorem LkS_step s l : LkS s -> LkS (step s l).
Proof.
  intros HL. destruct l; simpl.
  - apply LkS_do_call; auto.
  - apply LkS_do_step; auto.
  - eapply LkS_slk; [apply slk_step_run | exact HL].
  - unfold do_child_exit. destruct (alive s); auto.
Qed.

Lemma LkS_init a b c d : LkS (init_state a b c d).
Proof.
  unfold LkS. simpl. constructor; simpl; try (intros; discriminate); try (intros; contradiction); auto.
  constructor.
Qed.

Theorem LkS_reachable a b c d ls : LkS (run_labels (init_state a b c d) ls).
Proof.
  unfold run_labels. generalize (LkS_init a b c d). generalize (init_state a b c d).
  induction ls as [|l ls IH]; intros s HL; simpl; auto. apply IH. apply LkS_step. exact HL.
Qed.
