(** Consequences of the invariants for "one execution at a time" (C15) and for
    the state diagram (C01). *)
From NL Require Import Life.Model Life.LockInv Life.FsmInv Life.Hist.
From Coq Require Import Lia.

Section Reach.
Variables (stmt start : Z) (th md : bool) (ls : list label).
Let s := run_labels (init_state stmt start th md) ls.

Lemma reach_LkS : LkS s.
Proof. apply (inv_reachable stmt start th md ls). Qed.

Lemma reach_FI : FI s.
Proof. apply (inv_reachable stmt start th md ls). Qed.

Lemma single_child : (alive s <= 1)%nat /\ (alive s = 1%nat -> st_fsm s = Running).
Proof.
  destruct reach_FI as [_ HS]. pose proof (sc_child _ _ _ _ _ _ HS) as Hc.
  unfold child_ok in Hc. split.
  - destruct (runt s) as [[]|]; try (destruct Hc as [Ha _]; lia); destruct Hc as [(Ha & _) | (Ha & _)]; lia.
  - intros Ha. destruct (runt s) as [x|] eqn:Er.
    + destruct x; try (destruct Hc as [H0 _]; lia); eapply sc_early; eauto.
    + destruct Hc as [H0 _]. lia.
Qed.

Lemma finished_implies_exited : st_fsm s = Finished -> alive s = 0%nat /\ pending_exit s = None.
Proof.
  intros Hf. destruct reach_FI as [_ HS]. pose proof (sc_child _ _ _ _ _ _ HS) as Hc.
  unfold child_ok in Hc. destruct (runt s) as [x|] eqn:Er; auto.
  destruct (early x) eqn:E.
  - pose proof (sc_early _ _ _ _ _ _ HS x eq_refl E). congruence.
  - destruct x; simpl in E; try discriminate; auto.
Qed.
End Reach.

(** a refused request changes nothing but the call log (and, for a continue
    request, undoes its own registration) *)
Lemma refuse_effect s t c :
  st_fsm (refuse s t c) = st_fsm s /\ runt (refuse s t c) = runt s /\ run_finished (refuse s t c) = run_finished s
  /\ run_arg (refuse s t c) = run_arg s /\ alive (refuse s t c) = alive s /\ pending_exit (refuse s t c) = pending_exit s
  /\ c_stmt (refuse s t c) = c_stmt s /\ c_next (refuse s t c) = c_next s
  /\ c_threads (refuse s t c) = c_threads s /\ c_modules (refuse s t c) = c_modules s
  /\ (exists r, hd_error (trace (refuse s t c)) = Some (EvRet t c r) /\ r <> ROk)
  /\ hooks_of (trace (refuse s t c)) = hooks_of (trace s).
Proof.
  unfold refuse.
  assert (R : forall x, st_fsm (release x) = st_fsm x /\ runt (release x) = runt x /\ run_finished (release x) = run_finished x
     /\ run_arg (release x) = run_arg x /\ alive (release x) = alive x /\ pending_exit (release x) = pending_exit x
     /\ c_stmt (release x) = c_stmt x /\ c_next (release x) = c_next x /\ c_threads (release x) = c_threads x
     /\ c_modules (release x) = c_modules x /\ trace (release x) = trace x /\ cont_plugins (release x) = cont_plugins x).
  { intros x. unfold release. destruct (lockq x) as [|t1 q]; simpl; [repeat split|].
    destruct (find_task (tasks x) t1) as [[c1 p1]|]; repeat split. }
  destruct (R s) as (R1 & R2 & R3 & R4 & R5 & R6 & R7 & R8 & R9 & R10 & R11 & R12).
  destruct (is_cont c); [destruct (cont_closed (release s))|]; simpl; rewrite ?R1, ?R2, ?R3, ?R4, ?R5, ?R6, ?R7, ?R8, ?R9, ?R10, ?R11;
    repeat split; auto; try (eexists; split; [reflexivity | discriminate]).
Qed.

Lemma second_run_refused s t c part2 :
  runlike c = true -> st_fsm s <> Initialized -> enter s t c part2 = refuse s t c.
Proof.
  intros Hc Hf. unfold enter. destruct c; simpl in Hc; try discriminate;
    unfold enter_run; destruct (st_fsm s); try reflexivity; congruence.
Qed.

Lemma no_reset_during_run s t o :
  st_fsm s <> Initialized -> st_fsm s <> Finished -> enter s t (CReset o) false = refuse s t (CReset o).
Proof.
  intros H1 H2. unfold enter, enter_reset. destruct (st_fsm s); try reflexivity; congruence.
Qed.

(** while a run task exists the state is 'running' or 'finished': no request can start another *)
Lemma run_task_states stmt start th md ls :
  let s := run_labels (init_state stmt start th md) ls in
  runt s <> None -> st_fsm s = Running \/ st_fsm s = Finished.
Proof.
  intros s Hr. destruct (reach_FI stmt start th md ls) as [_ HS]. fold s in HS.
  destruct (runt s) as [x|] eqn:Er; [|congruence].
  destruct (early x) eqn:E; [left; eapply sc_early | right; eapply sc_late]; eauto.
Qed.
