(** C16: the `continuous enabled` flag and the Continue plugins.
    Invariant [cont_inv] of the lifecycle model (Life/Model.v) relating the
    registered plugins [cont_plugins] to the calls in flight and to the run
    task, and the history theorems that follow from it. *)
From NL Require Import Life.Model Life.LockInv Life.FsmInv Life.Hist.
From Coq Require Import Lia.

(** ---- vocabulary ---- *)
Definition nonempty {A} (l : list A) : bool := match l with [] => false | _ :: _ => true end.

(** the run task has been created but `on_start_run` has not run yet *)
Definition fresh (r : option rpc) : bool :=
  match r with Some RT_New | Some RT_Created => true | _ => false end.

(** between `on_start_run` and `on_finished`: the run whose prompts can be answered *)
Definition mid (r : option rpc) : bool :=
  match r with Some RT_G_start | Some RT_WaitChild | Some RT_G_end => true | _ => false end.

(** where the call of a pending (not yet started) continue request can be *)
Definition pend_pc (s : state) (t : nat) (p : pc) : Prop :=
  p = WaitLock1 \/ p = Granted1 \/
  (p = R_WaitStarted /\ run_owner s = t /\ run_cont s = true /\ fresh (runt s) = true).

Definition pend_ok (s : state) (t : nat) : Prop :=
  exists c p, find_task (tasks s) t = Some (c, p) /\ is_cont c = true /\ pend_pc s t p.

Definition pend_pcb (p : pc) : bool :=
  match p with WaitLock1 | Granted1 | R_WaitStarted => true | _ => false end.

(** the invariant once start() has been requested *)
Record CJ (s : state) : Prop := mkCJ {
  cj_started : nl_started s = true;
  cj_pend : forall t, In (t, false) (cont_plugins s) -> pend_ok s t;
  cj_nodup : NoDup (cont_plugins s);
  cj_run : forall t, In (t, true) (cont_plugins s) ->
           t = run_owner s /\ run_cont s = true /\ mid (runt s) = true;
  cj_ev : fresh (runt s) = true -> started_ev s = false;
  cj_closed : cont_closed s = true -> st_fsm s = Closed;
  cj_flag : cont_closed s = false -> enabled_of (trace s) = Some (nonempty (cont_plugins s));
  cj_off : cont_closed s = true -> enabled_of (trace s) = Some false
}.

(** before start(): nothing but the trace has changed *)
Definition PS (s : state) : Prop :=
  exists a b c d tr, s = set_trace (init_state a b c d) tr /\ enabled_of tr <> Some true.

Definition CI (s : state) : Prop := if nl_started s then CJ s else PS s.

(** ---- projections of [release] / [apply_rest] on the fields used here ---- *)
Ltac rl_tac s := unfold release; destruct (lockq s) as [|? ?]; simpl; auto;
  match goal with |- context [find_task ?a ?b] => destruct (find_task a b) as [[? ?]|] end; reflexivity.
Ltac ar_tac o := unfold apply_rest; destruct (o_start o), (o_threads o), (o_modules o); reflexivity.

Lemma rl_plugins s : cont_plugins (release s) = cont_plugins s. Proof. rl_tac s. Qed.
Lemma rl_closed s : cont_closed (release s) = cont_closed s. Proof. rl_tac s. Qed.
Lemma rl_nls s : nl_started (release s) = nl_started s. Proof. rl_tac s. Qed.
Lemma rl_trace s : trace (release s) = trace s. Proof. rl_tac s. Qed.
Lemma rl_owner s : run_owner (release s) = run_owner s. Proof. rl_tac s. Qed.
Lemma rl_rcont s : run_cont (release s) = run_cont s. Proof. rl_tac s. Qed.
Lemma rl_sev s : started_ev (release s) = started_ev s. Proof. rl_tac s. Qed.

Lemma ar_plugins s o : cont_plugins (apply_rest s o) = cont_plugins s. Proof. ar_tac o. Qed.
Lemma ar_closed s o : cont_closed (apply_rest s o) = cont_closed s. Proof. ar_tac o. Qed.
Lemma ar_nls s o : nl_started (apply_rest s o) = nl_started s. Proof. ar_tac o. Qed.
Lemma ar_trace s o : trace (apply_rest s o) = trace s. Proof. ar_tac o. Qed.
Lemma ar_owner s o : run_owner (apply_rest s o) = run_owner s. Proof. ar_tac o. Qed.
Lemma ar_rcont s o : run_cont (apply_rest s o) = run_cont s. Proof. ar_tac o. Qed.
Lemma ar_sev s o : started_ev (apply_rest s o) = started_ev s. Proof. ar_tac o. Qed.

Ltac cv_simpl :=
  simpl;
  rewrite ?ar_plugins, ?ar_closed, ?ar_nls, ?ar_trace, ?ar_owner, ?ar_rcont, ?ar_sev,
          ?ar_fsm, ?ar_runt, ?apply_rest_tasks, ?apply_rest_holder, ?apply_rest_lockq,
          ?rl_plugins, ?rl_closed, ?rl_nls, ?rl_trace, ?rl_owner, ?rl_rcont, ?rl_sev,
          ?rl_fsm, ?rl_runt; simpl.

(** ---- lists ---- *)
Lemma NoDup_map_in {A B} (f : A -> B) (l : list A) :
  (forall x y, In x l -> In y l -> f x = f y -> x = y) -> NoDup l -> NoDup (map f l).
Proof.
  induction l as [|a l IH]; simpl; intros Hinj Hnd; [constructor|].
  inversion Hnd; subst. constructor.
  - intros Hin. apply in_map_iff in Hin. destruct Hin as (x & Hfx & Hx).
    assert (x = a) by (apply Hinj; auto). subst. contradiction.
  - apply IH; auto.
Qed.

Lemma nonempty_map {A B} (f : A -> B) l : nonempty (map f l) = nonempty l.
Proof. destruct l; reflexivity. Qed.

Lemma filter_all {A} (p : A -> bool) l : (forall x, In x l -> p x = true) -> filter p l = l.
Proof.
  induction l as [|a l IH]; simpl; intros H; auto.
  rewrite (H a) by auto. f_equal. apply IH. auto.
Qed.

Lemma filter_filter_imp {A} (p q : A -> bool) l :
  (forall x, p x = true -> q x = true) -> filter p (filter q l) = filter p l.
Proof.
  intros H. induction l as [|a l IH]; simpl; auto.
  destruct (q a) eqn:Eq; simpl.
  - destruct (p a); [f_equal|]; auto.
  - destruct (p a) eqn:Ep; auto. rewrite (H _ Ep) in Eq. discriminate.
Qed.

Lemma filter_comm {A} (p q : A -> bool) l : filter p (filter q l) = filter q (filter p l).
Proof.
  induction l as [|a l IH]; simpl; auto.
  destruct (q a) eqn:Eq, (p a) eqn:Ep; simpl; rewrite ?Eq, ?Ep, ?IH; auto.
Qed.

Lemma filter_length_le {A} (p : A -> bool) l : (length (filter p l) <= length l)%nat.
Proof. induction l as [|a l IH]; simpl; auto. destruct (p a); simpl; lia. Qed.

(** ---- the other tasks during a step of the lock holder ---- *)
Lemma find_rel_tasks_fwd q ts t' c p :
  find_task ts t' = Some (c, p) ->
  exists p', find_task (rel_tasks q ts) t' = Some (c, p') /\ (p' = p \/ p' = granted_pc p).
Proof.
  intros Hf. unfold rel_tasks. destruct q as [|t1 q]; [eauto|].
  destruct (find_task ts t1) as [[c1 p1]|] eqn:E1; [|eauto].
  destruct (Nat.eq_dec t' t1) as [->|Hn].
  - rewrite find_put_eq. rewrite Hf in E1. inversion E1; subst. eauto.
  - rewrite find_put_neq by assumption. eauto.
Qed.

Definition tstep (ts ts' : ttab) (t : nat) : Prop :=
  forall t' c p, t' <> t -> find_task ts t' = Some (c, p) ->
  exists p', find_task ts' t' = Some (c, p') /\ (p' = p \/ p' = granted_pc p).

Lemma HRes_tstep s t s' : HRes s t s' -> tstep (tasks s) (tasks s') t.
Proof.
  intros [(_ & _ & c & p & _ & _ & E) | [(_ & _ & E) | (_ & _ & c & p & _ & _ & _ & E)]] t' c' p' Hn Hf; rewrite E.
  - rewrite find_put_neq by assumption. eauto.
  - rewrite find_remove_neq by assumption. apply find_rel_tasks_fwd; auto.
  - rewrite find_put_neq by assumption. apply find_rel_tasks_fwd; auto.
Qed.

(** a pending request of a task that does not hold the lock waits for the lock *)
Lemma pend_waits s t t' : LkS s -> holder s = Some t -> t' <> t -> pend_ok s t' ->
  exists c, find_task (tasks s) t' = Some (c, WaitLock1) /\ is_cont c = true.
Proof.
  intros HL Hh Hn (c & p & Hf & Hc & Hp). exists c. split; auto.
  destruct Hp as [-> | [-> | (-> & _)]]; auto;
    pose proof (lk_holder_of _ _ _ HL _ _ _ Hf eq_refl); congruence.
Qed.

Lemma pend_other s s' t t' : LkS s -> holder s = Some t -> tstep (tasks s) (tasks s') t ->
  t' <> t -> pend_ok s t' -> pend_ok s' t'.
Proof.
  intros HL Hh Ht Hn Hp. destruct (pend_waits _ _ _ HL Hh Hn Hp) as (c & Hf & Hc).
  destruct (Ht _ _ _ Hn Hf) as (p' & Hf' & Hp'). exists c, p'. repeat split; auto.
  destruct Hp' as [-> | ->]; [left | right; left]; reflexivity.
Qed.

(** a task whose pc is not a pending one has no pending plugin *)
Lemma not_pend s t c p : CJ s -> find_task (tasks s) t = Some (c, p) ->
  is_cont c = false \/ pend_pcb p = false \/ (p = R_WaitStarted /\ started_ev s = true) ->
  ~ In (t, false) (cont_plugins s).
Proof.
  intros HC Hf Hor Hin. destruct (cj_pend _ HC _ Hin) as (c' & p' & Hf' & Hc' & Hp').
  rewrite Hf in Hf'. inversion Hf'; subst c' p'.
  destruct Hor as [E | [E | (-> & E)]].
  - congruence.
  - destruct Hp' as [-> | [-> | (-> & _)]]; discriminate.
  - destruct Hp' as [? | [? | (_ & _ & _ & Hfr)]]; try discriminate.
    rewrite (cj_ev _ HC Hfr) in E. discriminate.
Qed.

Lemma no_task_no_pend s t : CJ s -> find_task (tasks s) t = None -> ~ In (t, false) (cont_plugins s).
Proof.
  intros HC Hf Hin. destruct (cj_pend _ HC _ Hin) as (c' & p' & Hf' & _). congruence.
Qed.

(** ---- steps that do not touch the plugins, the flag or the run task ---- *)
Definition cvw (s : state) :=
  (cont_plugins s, cont_closed s, nl_started s, run_owner s, run_cont s, runt s, started_ev s,
   enabled_of (trace s)).

Lemma cvw_fields s s' : cvw s' = cvw s ->
  cont_plugins s' = cont_plugins s /\ cont_closed s' = cont_closed s /\ nl_started s' = nl_started s /\
  run_owner s' = run_owner s /\ run_cont s' = run_cont s /\ runt s' = runt s /\
  started_ev s' = started_ev s /\ enabled_of (trace s') = enabled_of (trace s).
Proof. unfold cvw. intros E. inversion E. repeat split; reflexivity. Qed.

Lemma CJ_frame s s' :
  cvw s' = cvw s -> (st_fsm s = Closed -> st_fsm s' = Closed) ->
  (forall t', In (t', false) (cont_plugins s) -> pend_ok s t' -> pend_ok s' t') ->
  CJ s -> CJ s'.
Proof.
  intros E Hcl Hp HC. destruct (cvw_fields _ _ E) as (E1 & E2 & E3 & E4 & E5 & E6 & E7 & E8).
  destruct HC as [h1 h2 h3 h4 h5 h6 h7 h8].
  constructor; rewrite ?E1, ?E2, ?E3, ?E4, ?E5, ?E6, ?E7, ?E8; auto.
Qed.

Lemma CJ_holder_neutral s s' t :
  LkS s -> CJ s -> holder s = Some t -> HRes s t s' ->
  cvw s' = cvw s -> (st_fsm s = Closed -> st_fsm s' = Closed) ->
  ~ In (t, false) (cont_plugins s) -> CJ s'.
Proof.
  intros HL HC Hh HR E Hcl Hni. eapply CJ_frame; eauto.
  intros t' Hin Hp. destruct (Nat.eq_dec t' t) as [->|Hn]; [contradiction|].
  eapply pend_other; eauto. apply HRes_tstep; auto.
Qed.

(** a task outside the lock changes only its own entry *)
Lemma pend_free s s' t t' :
  (forall u, u <> t -> find_task (tasks s') u = find_task (tasks s) u) ->
  run_owner s' = run_owner s -> run_cont s' = run_cont s -> runt s' = runt s ->
  t' <> t -> pend_ok s t' -> pend_ok s' t'.
Proof.
  intros Ht E1 E2 E3 Hn (c & p & Hf & Hc & Hp). exists c, p. rewrite Ht by assumption.
  repeat split; auto. unfold pend_pc. rewrite E1, E2, E3. exact Hp.
Qed.

Lemma CJ_free_neutral s s' t :
  CJ s -> (forall u, u <> t -> find_task (tasks s') u = find_task (tasks s) u) ->
  cvw s' = cvw s -> (st_fsm s = Closed -> st_fsm s' = Closed) ->
  ~ In (t, false) (cont_plugins s) -> CJ s'.
Proof.
  intros HC Ht E Hcl Hni. destruct (cvw_fields _ _ E) as (E1 & E2 & E3 & E4 & E5 & E6 & E7 & E8).
  eapply CJ_frame; eauto.
  intros t' Hin Hp. destruct (Nat.eq_dec t' t) as [->|Hn]; [contradiction|].
  eapply pend_free; eauto.
Qed.

Lemma find_remove_other ts t u : u <> t -> find_task (remove_task ts t) u = find_task ts u.
Proof. intros. apply find_remove_neq. assumption. Qed.
Lemma find_put_other ts t x u : u <> t -> find_task (put_task ts t x) u = find_task ts u.
Proof. intros. apply find_put_neq. assumption. Qed.

(** ---- a refused request ---- *)
Definition unreg_pred (t : nat) (x : nat * bool) : bool := negb (Nat.eqb (fst x) t && negb (snd x)).

Lemma CJ_holder_unreg s s' t :
  LkS s -> CJ s -> holder s = Some t -> HRes s t s' ->
  cont_plugins s' = filter (unreg_pred t) (cont_plugins s) ->
  cont_closed s' = cont_closed s -> nl_started s' = nl_started s ->
  run_owner s' = run_owner s -> run_cont s' = run_cont s -> runt s' = runt s ->
  started_ev s' = started_ev s -> st_fsm s' = st_fsm s ->
  (cont_closed s = false -> enabled_of (trace s') = Some (nonempty (cont_plugins s'))) ->
  (cont_closed s = true -> enabled_of (trace s') = enabled_of (trace s)) -> CJ s'.
Proof.
  intros HL HC Hh HR Ep E2 E3 E4 E5 E6 E7 E8 Hfl Hoff.
  destruct HC as [h1 h2 h3 h4 h5 h6 h7 h8].
  constructor; rewrite ?E2, ?E3, ?E4, ?E5, ?E6, ?E7, ?E8; auto.
  - intros t' Hin. rewrite Ep in Hin. apply filter_In in Hin. destruct Hin as (Hin & Hpr).
    assert (Hn : t' <> t).
    { intros ->. unfold unreg_pred in Hpr. simpl in Hpr. rewrite Nat.eqb_refl in Hpr. discriminate. }
    eapply pend_other; eauto. apply HRes_tstep; auto.
  - rewrite Ep. apply NoDup_filter. auto.
  - intros t' Hin. rewrite Ep in Hin. apply filter_In in Hin. destruct Hin as (Hin & _). auto.
  - intros Hcl. rewrite (Hoff Hcl). auto.
Qed.

Lemma CJ_refuse s t c p :
  LkS s -> CJ s -> holder s = Some t -> find_task (tasks s) t = Some (c, p) -> CJ (refuse s t c).
Proof.
  intros HL HC Hh Hf. unfold refuse. destruct (is_cont c) eqn:Ec.
  - destruct (cont_closed (release s)) eqn:Ecl; rewrite rl_closed in Ecl.
    + eapply CJ_holder_unreg; eauto; try (cv_simpl; reflexivity).
      * apply HRes_release_finish; reflexivity.
      * intros E. congruence.
    + eapply CJ_holder_unreg; eauto; try (cv_simpl; reflexivity).
      * apply HRes_release_finish; reflexivity.
      * intros E. congruence.
  - eapply CJ_holder_neutral; eauto.
    + apply HRes_release_finish; reflexivity.
    + unfold cvw. cv_simpl. reflexivity.
    + cv_simpl. auto.
    + eapply not_pend; eauto.
Qed.

(** ---- an accepted run request ---- *)
Lemma tstep_put ts t x : tstep ts (put_task ts t x) t.
Proof. intros u c p Hn Hf. rewrite find_put_neq by assumption. eauto. Qed.

Lemma CJ_enter_run s t c G :
  LkS s -> FI s -> CJ s -> holder s = Some t -> find_task (tasks s) t = Some (c, G) ->
  CJ (enter_run s t c).
Proof.
  intros HL HF HC Hh Hf. unfold enter_run.
  destruct (st_fsm s) eqn:Efs; try (eapply CJ_refuse; eauto).
  assert (Hr : runt s = None).
  { destruct HF as [_ HS]. eapply Scal_idle; eauto; rewrite Efs; discriminate. }
  pose proof HC as [h1 h2 h3 h4 h5 h6 h7 h8].
  constructor; simpl; auto.
  - intros t' Hin. destruct (Nat.eq_dec t' t) as [->|Hn].
    + destruct (h2 _ Hin) as (c' & p' & Hf' & Hc' & _). rewrite Hf in Hf'. inversion Hf'; subst c' p'.
      exists c, R_WaitStarted. simpl. rewrite find_put_eq. repeat split; auto.
      right. right. simpl. auto.
    + eapply (pend_other s); eauto. simpl. apply tstep_put.
  - intros t' Hin. destruct (h4 _ Hin) as (_ & _ & Hm). rewrite Hr in Hm. discriminate.
  - intros Hc. rewrite (h6 Hc) in Efs. discriminate.
Qed.

(** ---- close ---- *)
Lemma CJ_close_finish s t c :
  LkS s -> CJ s -> holder s = Some t -> st_fsm s = Closed -> ~ In (t, false) (cont_plugins s) ->
  CJ (finish_call (close_cont (publish (release s) PEndAll)) t c ROk).
Proof.
  intros HL HC Hh Hfs Hni. pose proof HC as [h1 h2 h3 h4 h5 h6 h7 h8].
  constructor; cv_simpl; auto; try discriminate.
  - intros t' Hin. destruct (Nat.eq_dec t' t) as [->|Hn]; [contradiction|].
    eapply (pend_other s); eauto. apply HRes_tstep.
    apply (HRes_release_finish s (close_cont (publish (release s) PEndAll)) t c ROk); reflexivity.
  - intros _. unfold cont_off_events. simpl. rewrite rl_plugins.
    destruct (cont_plugins s) eqn:Ep; simpl; auto.
    destruct (cont_closed s) eqn:Ecl; auto.
Qed.

Ltac neutral_by HR :=
  eapply CJ_holder_neutral;
  [ eassumption | eassumption | eassumption | exact HR
  | unfold cvw; cv_simpl; reflexivity
  | cv_simpl; intros; try congruence; auto
  | eapply not_pend; eauto ].

Lemma CJ_close_trigger s t p :
  LkS s -> CJ s -> holder s = Some t -> find_task (tasks s) t = Some (CClose, p) ->
  CJ (close_trigger s t).
Proof.
  intros HL HC Hh Hf. pose proof (HRes_close_trigger s t) as HR. unfold close_trigger in *.
  destruct (st_fsm s) eqn:Efs.
  - neutral_by HR.
  - neutral_by HR.
  - neutral_by HR.
  - destruct (runt s); neutral_by HR.
  - apply CJ_close_finish; auto. eapply not_pend; eauto.
Qed.

Lemma CJ_pub_endall s : CJ s -> CJ (publish s PEndAll).
Proof.
  intros HC. eapply (CJ_frame s); [reflexivity | auto | | exact HC]. intros t' _ Hp. exact Hp.
Qed.

Ltac neutral_with tac :=
  eapply CJ_holder_neutral;
  [ eassumption | eassumption | eassumption | tac
  | unfold cvw; cv_simpl; reflexivity
  | cv_simpl; intros; try congruence; auto
  | eapply not_pend; eauto ].

Lemma CJ_enter_close s t p :
  LkS s -> CJ s -> holder s = Some t -> find_task (tasks s) t = Some (CClose, p) ->
  CJ (enter_close s t).
Proof.
  intros HL HC Hh Hf. unfold enter_close.
  assert (HL1 : LkS (publish s PEndAll)) by exact HL.
  pose proof (CJ_pub_endall _ HC) as HC1.
  destruct (st_fsm (publish s PEndAll)) eqn:Efs;
    try (eapply CJ_close_trigger; eauto; fail).
  destruct (run_finished (publish s PEndAll)) as [[|]|].
  - eapply CJ_close_trigger; eauto.
  - neutral_with ltac:(hput CClose C_WaitRunFinished).
  - neutral_with ltac:(apply HRes_release_finish; reflexivity).
Qed.

Lemma CJ_enter s t c part2 G :
  LkS s -> FI s -> CJ s -> holder s = Some t -> find_task (tasks s) t = Some (c, G) ->
  CJ (enter s t c part2).
Proof.
  intros HL HF HC Hh Hf. unfold enter.
  destruct c; auto; try (eapply CJ_enter_run; eauto; fail).
  - unfold enter_start. destruct (st_fsm s) eqn:Efs; try (eapply CJ_refuse; eauto; fail).
    neutral_with ltac:(hput CStart S_G1).
  - unfold enter_reset. destruct (st_fsm s) eqn:Efs; try (eapply CJ_refuse; eauto; fail).
    + destruct (o_stmt o); [neutral_with ltac:(hput (CReset o) Z_G1) | neutral_with ltac:(hput (CReset o) Z_G1b)].
    + destruct (o_stmt o); [neutral_with ltac:(hput (CReset o) Z_G1) | neutral_with ltac:(hput (CReset o) Z_G1b)].
  - destruct part2; [eapply CJ_enter_close; eauto |].
    unfold enter_start. destruct (st_fsm s) eqn:Efs; try (eapply CJ_refuse; eauto; fail).
    neutral_with ltac:(hput CClose S_G1).
Qed.

(** ---- a new call asks for the lock ---- *)
Lemma CJ_ext s s' :
  tasks s' = tasks s -> cvw s' = cvw s -> st_fsm s' = st_fsm s -> CJ s -> CJ s'.
Proof.
  intros Et E Ef HC. destruct (cvw_fields _ _ E) as (E1 & E2 & E3 & E4 & E5 & E6 & E7 & E8).
  eapply (CJ_frame s); eauto; [congruence|].
  intros t' _ (c & p & Hf & Hc & Hp). exists c, p. rewrite Et. repeat split; auto.
  unfold pend_pc. rewrite E4, E5, E6. exact Hp.
Qed.

Lemma CJ_acquire (s : state) (t : nat) (c : call) (part2 : bool) :
  LkS s -> FI s -> find_task (tasks s) t = None ->
  compat c (if part2 then Granted2 else Granted1) = true ->
  CJ (set_pc s t c (if part2 then WaitLock2 else WaitLock1)) ->
  CJ (set_pc s t c (if part2 then Granted2 else Granted1)) ->
  CJ (acquire s t c part2).
Proof.
  intros HL HF Hnew Hc HW HG. unfold acquire.
  destruct (holder s) as [h|] eqn:Eh.
  - eapply CJ_ext; [| | | exact HW]; reflexivity.
  - destruct (lockq s) as [|t1 q] eqn:Eq.
    + set (G := if part2 then Granted2 else Granted1) in *.
      set (s2 := set_pc (set_holder s (Some t)) t c G).
      assert (HL2 : LkS s2).
      { unfold LkS, s2. simpl. rewrite Eq. unfold LkS in HL. rewrite Eh, Eq in HL.
        apply Lk_take; auto. unfold G. destruct part2; reflexivity. }
      assert (HF2 : FI s2).
      { destruct HF as [HP HS]. split; auto. unfold s2. simpl. apply PcOk_put; auto.
        unfold G. destruct part2; reflexivity. }
      assert (HC2 : CJ s2) by (eapply CJ_ext; [| | | exact HG]; reflexivity).
      eapply CJ_enter; eauto. unfold s2. simpl. apply find_put_eq.
    + eapply CJ_ext; [| | | exact HW]; reflexivity.
Qed.

Lemma CJ_new_task s s1 t c p :
  CJ s -> find_task (tasks s) t = None -> tasks s1 = tasks s -> cvw s1 = cvw s -> st_fsm s1 = st_fsm s ->
  CJ (set_pc s1 t c p).
Proof.
  intros HC Hnew Et E Ef. eapply (CJ_free_neutral s _ t); eauto.
  - intros u Hn. simpl. rewrite Et. apply find_put_other; auto.
  - simpl. intros; congruence.
  - apply no_task_no_pend; auto.
Qed.

Lemma nonempty_snoc {A} (l : list A) x : nonempty (l ++ [x]) = true.
Proof. destruct l; reflexivity. Qed.

Lemma CJ_register s t c p :
  CJ s -> find_task (tasks s) t = None -> is_cont c = true -> p = WaitLock1 \/ p = Granted1 ->
  cont_closed s = false ->
  CJ (set_pc (set_cont_plugins (publish (set_trace s (EvCall t c :: trace s)) (PCont true))
                               (cont_plugins s ++ [(t, false)])) t c p).
Proof.
  intros HC Hnew Hc Hp Hncl. pose proof (no_task_no_pend _ _ HC Hnew) as Hni.
  pose proof HC as [h1 h2 h3 h4 h5 h6 h7 h8].
  constructor; simpl; auto.
  - intros t' Hin. apply in_app_or in Hin. destruct Hin as [Hin | [Hin | []]].
    + assert (t' <> t) by (intros ->; contradiction).
      eapply (pend_free s _ t); eauto. intros u Hn. simpl. apply find_put_other; auto.
    + inversion Hin; subst t'. exists c, p. simpl. rewrite find_put_eq. repeat split; auto.
      destruct Hp as [-> | ->]; [left | right; left]; reflexivity.
  - apply NoDup_snoc; auto.
  - intros t' Hin. apply in_app_or in Hin. destruct Hin as [Hin | [Hin | []]]; auto. discriminate.
  - intros _. rewrite nonempty_snoc. reflexivity.
  - intros E. congruence.
Qed.

Lemma CJ_finish_free s s1 t c r :
  CJ s -> tasks s1 = tasks s -> cvw s1 = cvw s -> st_fsm s1 = st_fsm s ->
  ~ In (t, false) (cont_plugins s) -> CJ (finish_call s1 t c r).
Proof.
  intros HC Et E Ef Hni. eapply (CJ_free_neutral s _ t); eauto.
  - intros u Hn. simpl. rewrite Et. apply find_remove_other; auto.
  - simpl. intros; congruence.
Qed.

Lemma CJ_do_call s t c : LkS s -> FI s -> CJ s -> CJ (do_call s t c).
Proof.
  intros HL HF HC. unfold do_call. destruct (find_task (tasks s) t) as [x|] eqn:Ef; auto.
  pose proof (no_task_no_pend _ _ HC Ef) as Hni.
  pose proof (cj_started _ HC) as Hst.
  set (s0 := set_trace s (EvCall t c :: trace s)).
  assert (HL0 : LkS s0) by exact HL. assert (HF0 : FI s0) by exact HF.
  assert (Hacq : forall part2 : bool, compat c (if part2 then Granted2 else Granted1) = true ->
                 CJ (acquire s0 t c part2)).
  { intros part2 Hc. apply CJ_acquire; auto; apply (CJ_new_task s); auto. }
  destruct c; cbn [nl_started nl_closed cont_closed running_process send_command set_trace];
    try (apply (Hacq false); reflexivity).
  - unfold s0. simpl. rewrite Hst. apply (CJ_finish_free s); auto.
  - destruct (nl_closed s0); [apply (CJ_finish_free s); auto|].
    simpl. rewrite Hst.
    apply CJ_acquire; [exact HL | exact HF | exact Ef | reflexivity | apply (CJ_new_task s); auto | apply (CJ_new_task s); auto].
  - destruct (cont_closed s0) eqn:Ecl; [apply (CJ_finish_free s); auto|].
    apply CJ_acquire; [exact HL | exact HF | exact Ef | reflexivity
                     | exact (CJ_register s t CRunCont WaitLock1 HC Ef eq_refl (or_introl eq_refl) Ecl)
                     | exact (CJ_register s t CRunCont Granted1 HC Ef eq_refl (or_intror eq_refl) Ecl)].
  - destruct (cont_closed s0) eqn:Ecl; [apply (CJ_finish_free s); auto|].
    apply CJ_acquire; [exact HL | exact HF | exact Ef | reflexivity
                     | exact (CJ_register s t CRunContWait WaitLock1 HC Ef eq_refl (or_introl eq_refl) Ecl)
                     | exact (CJ_register s t CRunContWait Granted1 HC Ef eq_refl (or_intror eq_refl) Ecl)].
  - destruct (running_process s0); [apply (CJ_new_task s) | apply (CJ_finish_free s)]; auto.
  - destruct (send_command s0); [apply (CJ_new_task s) | apply (CJ_finish_free s)]; auto.
Qed.

(** ---- close(): the start part is over, queue again for the close part ---- *)
Lemma tstep_rel_put q ts t x : tstep ts (put_task (rel_tasks q ts) t x) t.
Proof. intros u c p Hn Hf. rewrite find_put_neq by assumption. apply find_rel_tasks_fwd; auto. Qed.

Lemma CJ_holder_neutral_ts s s' t :
  LkS s -> CJ s -> holder s = Some t -> tstep (tasks s) (tasks s') t ->
  cvw s' = cvw s -> (st_fsm s = Closed -> st_fsm s' = Closed) ->
  ~ In (t, false) (cont_plugins s) -> CJ s'.
Proof.
  intros HL HC Hh HR E Hcl Hni. eapply CJ_frame; eauto.
  intros t' Hin Hp. destruct (Nat.eq_dec t' t) as [->|Hn]; [contradiction|].
  eapply pend_other; eauto.
Qed.

Lemma CJ_requeue s t :
  LkS s -> FI s -> CJ s -> holder s = Some t -> find_task (tasks s) t = Some (CClose, S_G3) ->
  CJ (acquire (release s) t CClose true).
Proof.
  intros HL HF HC Hh Hf. pose proof HF as [HP HS].
  assert (Hni : ~ In (t, false) (cont_plugins s)) by (eapply not_pend; eauto).
  pose proof HL as HL0. unfold LkS in HL0. rewrite Hh in HL0.
  pose proof (Lk_release_forget _ _ _ HL0) as HFg.
  assert (HSr : Scal (st_fsm (release s)) (runt (release s)) (run_finished (release s)) (alive (release s))
                     (pending_exit (release s)) (run_arg (release s))).
  { rewrite rl_fsm, rl_runt, rl_rf, rl_alive, rl_pe, rl_ra. exact HS. }
  assert (Hgen : forall s', tasks s' = put_task (tasks (release s)) t (CClose, WaitLock2) \/
                            tasks s' = put_task (tasks (release s)) t (CClose, Granted2) ->
                            cvw s' = cvw (release s) -> st_fsm s' = st_fsm (release s) -> CJ s').
  { intros s' Et E Ef. eapply (CJ_holder_neutral_ts s s' t); eauto.
    - rewrite release_tasks in Et. destruct Et as [-> | ->]; apply tstep_rel_put.
    - rewrite E. unfold cvw. cv_simpl. reflexivity.
    - rewrite Ef, rl_fsm. auto. }
  unfold acquire. rewrite release_holder, release_lockq.
  destruct (rel_holder (lockq s)) as [h|] eqn:Eh.
  - apply Hgen; auto.
  - destruct (tl (lockq s)) as [|t1 q] eqn:Eq.
    + set (s2 := set_pc (set_holder (release s) (Some t)) t CClose Granted2).
      assert (HL2 : LkS s2).
      { unfold LkS, s2. simpl. rewrite ?release_lockq, ?release_tasks, ?Eq. apply Lk_readd_take; auto. }
      assert (HF2 : FI s2).
      { split; auto. unfold s2. simpl. rewrite release_tasks. apply PcOk_release_put; auto. }
      assert (HC2 : CJ s2) by (apply Hgen; auto).
      eapply CJ_enter; eauto. unfold s2. simpl. apply find_put_eq.
    + apply Hgen; auto.
Qed.

(** ---- a step of an API task ---- *)
Ltac relfin := apply HRes_release_finish; reflexivity.

Lemma CJ_do_step s t : LkS s -> FI s -> CJ s -> CJ (do_step s t).
Proof.
  intros HL HF HC. unfold do_step. destruct (find_task (tasks s) t) as [[c p]|] eqn:Ef; auto.
  pose proof HF as [HP HS].
  pose proof (HP _ _ _ Ef) as Hok.
  pose proof (lk_compat _ _ _ HL _ _ _ Ef) as Hc.
  assert (Hhold : locked_pc p = true -> holder s = Some t) by (intros Hl; eapply (lk_holder_of _ _ _ HL); eauto).
  destruct p; simpl in Hhold; try specialize (Hhold eq_refl); auto; simpl in Hok.
  - eapply CJ_enter; eauto.
  - eapply CJ_enter; eauto.
  - (* S_G1 *) destruct (st_fsm s) eqn:Efs; try discriminate. neutral_with ltac:(hput c S_G2).
  - neutral_with ltac:(hput c S_G3).
  - (* S_G3 *) destruct c; simpl in Hc; try discriminate.
    + neutral_with relfin.
    + apply CJ_requeue; auto.
  - (* R_WaitStarted *) destruct (started_ev s) eqn:Esv; auto. neutral_with ltac:(hput c R_G).
  - (* R_G *)
    destruct c; simpl in Hc; try discriminate; try (neutral_with relfin; fail);
      (neutral_with ltac:(right; right; simpl; rewrite release_holder, release_lockq, release_tasks;
                          repeat split; auto;
                          match goal with E : find_task _ _ = Some (?c0, _) |- _ => apply (ex_intro _ c0) end;
                          exists P_WaitRunFinished; simpl; auto)).
  - (* Z_G1 *) destruct c; simpl in Hc; try discriminate. neutral_with ltac:(hput (CReset o) Z_G1b).
  - (* Z_G1b *)
    destruct (st_fsm s) eqn:Efs; try discriminate.
    + neutral_with ltac:(hput c Z_G3).
    + destruct (runt s) eqn:Er; [neutral_with ltac:(hput c Z_WaitRunTask) | neutral_with ltac:(hput c Z_G3)].
  - (* Z_WaitRunTask *)
    destruct (runt s) eqn:Er; auto. destruct (st_fsm s) eqn:Efs; try discriminate; neutral_with ltac:(hput c Z_G3).
  - neutral_with ltac:(hput c Z_G4).
  - neutral_with relfin.
  - (* C_WaitRunFinished *)
    destruct (run_finished s) as [[|]|] eqn:Erf; auto.
    destruct c; simpl in Hc; try discriminate. eapply CJ_close_trigger; eauto.
  - (* C_WaitRunTask *)
    destruct (runt s) eqn:Er; auto. destruct c; simpl in Hc; try discriminate.
    neutral_with ltac:(hput CClose C_G3).
  - neutral_with ltac:(hput c C_G4).
  - (* C_G4 *) destruct (st_fsm s) eqn:Efs; try discriminate.
    apply CJ_close_finish; auto. eapply not_pend; eauto.
  - (* P_WaitRunFinished *)
    destruct (run_finished s) as [[|]|]; auto. apply (CJ_finish_free s); auto. eapply not_pend; eauto.
  - apply (CJ_finish_free s); auto. eapply not_pend; eauto.
Qed.

(** ---- [cont_finished]: every started plugin unregisters itself ---- *)
Definition cfv (s : state) :=
  (nl_started s, cont_closed s, run_owner s, run_cont s, started_ev s, runt s, st_fsm s, tasks s).

Lemma cf_fields n : forall s, cfv (cont_finished s n) = cfv s.
Proof.
  induction n as [|n IH]; intros s; simpl; auto.
  destruct (filter _ (cont_plugins s)) as [|[t b] r]; auto. rewrite IH. reflexivity.
Qed.

Definition unstarted (x : nat * bool) : bool := negb (snd x).

Lemma filter_snd_nil l : filter (fun x : nat * bool => snd x) l = [] -> filter unstarted l = l.
Proof.
  intros H. apply filter_all. intros [t b] Hin. unfold unstarted. simpl. destruct b; auto.
  assert (Hi : In (t, true) (filter (fun x : nat * bool => snd x) l)) by (apply filter_In; auto).
  rewrite H in Hi. destruct Hi.
Qed.

Lemma cf_plugins n : forall s, (length (filter (fun x => snd x) (cont_plugins s)) <= n)%nat ->
  cont_plugins (cont_finished s n) = filter unstarted (cont_plugins s).
Proof.
  induction n as [|n IH]; intros s Hle; simpl.
  - symmetry. apply filter_snd_nil. destruct (filter _ (cont_plugins s)); auto. simpl in Hle. lia.
  - destruct (filter (fun x => snd x) (cont_plugins s)) as [|[t b] r] eqn:E.
    + symmetry. apply filter_snd_nil. auto.
    + rewrite IH; simpl.
      * apply filter_filter_imp. intros [t' b']. unfold unstarted. simpl. destruct b'; simpl; auto; discriminate.
      * rewrite filter_comm, E. simpl. rewrite Nat.eqb_refl.
        assert (b = true).
        { assert (Hi : In (t, b) (filter (fun x => snd x) (cont_plugins s))) by (rewrite E; left; auto).
          apply filter_In in Hi. destruct Hi as (_ & Hi). exact Hi. }
        subst b. simpl. simpl in Hle. pose proof (filter_length_le (fun x : nat * bool => negb (snd x && Nat.eqb (fst x) t)) r). lia.
Qed.

Lemma cf_flag n : forall s, enabled_of (trace s) = Some (nonempty (cont_plugins s)) ->
  enabled_of (trace (cont_finished s n)) = Some (nonempty (cont_plugins (cont_finished s n))).
Proof.
  induction n as [|n IH]; intros s H; simpl; auto.
  destruct (filter _ (cont_plugins s)) as [|[t b] r]; auto.
Qed.

Lemma cfv_fields s s' : cfv s' = cfv s ->
  nl_started s' = nl_started s /\ cont_closed s' = cont_closed s /\ run_owner s' = run_owner s /\
  run_cont s' = run_cont s /\ started_ev s' = started_ev s /\ runt s' = runt s /\
  st_fsm s' = st_fsm s /\ tasks s' = tasks s.
Proof. unfold cfv. intros E. inversion E. repeat split; reflexivity. Qed.

(** the completion of the run: every started plugin goes, the flag follows *)
Lemma CJ_after_finish s s3 n :
  CJ s -> st_fsm s = Running -> fresh (runt s) = false ->
  tasks s3 = tasks s -> cont_plugins s3 = cont_plugins s -> nl_started s3 = nl_started s ->
  cont_closed s3 = cont_closed s -> run_owner s3 = run_owner s -> run_cont s3 = run_cont s ->
  enabled_of (trace s3) = enabled_of (trace s) -> (length (cont_plugins s3) <= n)%nat ->
  CJ (set_runt (cont_finished s3 n) (Some RT_G_fin)).
Proof.
  intros HC Hfs Hnf F8 Fp F1 F2 F3 F4 Ft Hn.
  destruct (cfv_fields _ _ (cf_fields n s3)) as (E1 & E2 & E3 & E4 & E5 & E6 & E7 & E8).
  assert (Ep : cont_plugins (cont_finished s3 n) = filter unstarted (cont_plugins s)).
  { rewrite cf_plugins; [rewrite Fp; reflexivity|]. pose proof (filter_length_le (fun x : nat * bool => snd x) (cont_plugins s3)). lia. }
  pose proof HC as [h1 h2 h3 h4 h5 h6 h7 h8].
  constructor; simpl; rewrite ?E1, ?E2, ?E3, ?E4, ?E8, ?Ep, ?F1, ?F2, ?F3, ?F4, ?F8; auto.
  - intros t' Hin. apply filter_In in Hin. destruct Hin as (Hin & _).
    destruct (h2 _ Hin) as (c & p & Hf & Hc & Hp). exists c, p. simpl. rewrite E8, F8.
    repeat split; auto. destruct Hp as [-> | [-> | (_ & _ & _ & Hfr)]]; [left | right; left | congruence]; reflexivity.
  - apply NoDup_filter. auto.
  - intros t' Hin. apply filter_In in Hin. destruct Hin as (_ & Hu). discriminate.
  - discriminate.
  - intros Hcl. rewrite (h6 Hcl) in Hfs. discriminate.
  - intros Hcl. rewrite <- Ep. apply cf_flag. rewrite Ft, Fp. auto.
  - intros Hcl. rewrite (h6 Hcl) in Hfs. discriminate.
Qed.

Lemma CJ_run_finish s x :
  FI s -> CJ s -> runt s = Some x -> early x = true -> fresh (runt s) = false -> CJ (run_finish s).
Proof.
  intros [HP HS] HC Hr He Hnf. pose proof (sc_early _ _ _ _ _ _ HS x Hr He) as Hfs.
  unfold run_finish. simpl. rewrite Hfs.
  apply (CJ_after_finish s); auto.
Qed.

(** ---- a step of the run task ---- *)
Lemma CJ_run_step s s' :
  CJ s -> tasks s' = tasks s -> cont_plugins s' = cont_plugins s -> nl_started s' = nl_started s ->
  cont_closed s' = cont_closed s -> run_owner s' = run_owner s -> run_cont s' = run_cont s ->
  st_fsm s' = st_fsm s -> enabled_of (trace s') = enabled_of (trace s) ->
  (mid (runt s) = true -> mid (runt s') = true) ->
  (fresh (runt s) = true -> fresh (runt s') = true) ->
  (fresh (runt s') = true -> started_ev s' = false) -> CJ s'.
Proof.
  intros HC E8 Ep E1 E2 E3 E4 E7 Et Hm Hf Hev. pose proof HC as [h1 h2 h3 h4 h5 h6 h7 h8].
  constructor; rewrite ?E1, ?E2, ?E3, ?E4, ?E7, ?Ep, ?Et; auto.
  - intros t' Hin. destruct (h2 _ Hin) as (c & p & Hft & Hc & Hp). exists c, p. rewrite E8.
    repeat split; auto. unfold pend_pc. rewrite E3, E4.
    destruct Hp as [-> | [-> | (-> & Ho & Hrc & Hfr)]]; auto. right. right. auto.
  - intros t' Hin. destruct (h4 _ Hin) as (Ho & Hrc & Hmid). auto.
Qed.

(** Continue.on_start_run *)
Lemma arm_in_false r o l t : In (t, false) (arm r o l) -> In (t, false) l /\ (r && Nat.eqb t o) = false.
Proof.
  unfold arm. intros Hin. apply in_map_iff in Hin. destruct Hin as ([t' b] & Heq & Hin). simpl in Heq.
  assert (Et : t' = t) by congruence. subst t'.
  assert (Hb : b || (r && Nat.eqb t o) = false) by congruence.
  destruct b; simpl in Hb; [discriminate|]. auto.
Qed.

Lemma arm_in_true r o l t : (forall x, In x l -> snd x = false) ->
  In (t, true) (arm r o l) -> r = true /\ t = o.
Proof.
  unfold arm. intros Hall Hin. apply in_map_iff in Hin. destruct Hin as ([t' b] & Heq & Hin). simpl in Heq.
  assert (Et : t' = t) by congruence. subst t'.
  assert (Hbb : b || (r && Nat.eqb t o) = true) by congruence.
  pose proof (Hall _ Hin) as Hb. simpl in Hb. subst b. simpl in Hbb.
  destruct r; simpl in Hbb; [|discriminate]. split; auto. apply Nat.eqb_eq. auto.
Qed.

Lemma arm_nodup r o l : (forall x, In x l -> snd x = false) -> NoDup l -> NoDup (arm r o l).
Proof.
  intros Hall Hnd. unfold arm. apply NoDup_map_in; auto.
  intros [t1 b1] [t2 b2] H1 H2 Heq. pose proof (Hall _ H1) as E1. pose proof (Hall _ H2) as E2.
  simpl in *. subst. inversion Heq. reflexivity.
Qed.

Lemma CJ_arm s s3 :
  CJ s -> runt s = Some RT_Created ->
  tasks s3 = tasks s -> cont_plugins s3 = cont_plugins s -> nl_started s3 = nl_started s ->
  cont_closed s3 = cont_closed s -> run_owner s3 = run_owner s -> run_cont s3 = run_cont s ->
  st_fsm s3 = st_fsm s -> enabled_of (trace s3) = enabled_of (trace s) ->
  CJ (set_runt (set_cont_plugins s3 (arm (run_cont s) (run_owner s) (cont_plugins s))) (Some RT_G_start)).
Proof.
  intros HC Hr E8 Ep E1 E2 E3 E4 E7 Et. pose proof HC as [h1 h2 h3 h4 h5 h6 h7 h8].
  assert (Hall : forall x, In x (cont_plugins s) -> snd x = false).
  { intros [t b] Hin. destruct b; auto. destruct (h4 _ Hin) as (_ & _ & Hm). rewrite Hr in Hm. discriminate. }
  constructor; simpl; rewrite ?E1, ?E2, ?E3, ?E4, ?E7, ?Ep, ?Et, ?E8; auto.
  - intros t' Hin. apply arm_in_false in Hin. destruct Hin as (Hin & Hno).
    destruct (h2 _ Hin) as (c & p & Hf & Hc & Hp). exists c, p. simpl. rewrite E8.
    repeat split; auto.
    destruct Hp as [-> | [-> | (_ & Ho & Hrc & _)]]; [left | right; left |]; auto.
    rewrite Hrc, Ho, Nat.eqb_refl in Hno. discriminate.
  - apply arm_nodup; auto.
  - intros t' Hin. apply arm_in_true in Hin; auto. destruct Hin as (-> & ->). auto.
  - discriminate.
  - intros Hcl. unfold arm. rewrite nonempty_map. auto.
Qed.

Lemma CJ_step_run s : FI s -> CJ s -> CJ (do_step_run s).
Proof.
  intros HF HC. pose proof HF as [HP HS]. pose proof HC as [h1 h2 h3 h4 h5 h6 h7 h8].
  unfold do_step_run. destruct (runt s) as [x|] eqn:Er; auto.
  assert (Hra : early x = true -> run_arg s <> None).
  { intros He. apply (sc_ra _ _ _ _ _ _ HS). right. eapply sc_early; eauto. }
  destruct x.
  - (* RT_New *)
    destruct (run_arg s) eqn:Era; [|exfalso; apply Hra; auto].
    apply (CJ_run_step s); simpl; auto; rewrite Er; simpl; auto.
  - (* RT_Created *)
    simpl. destruct (run_arg s) eqn:Era; [|exfalso; apply Hra; auto].
    apply (CJ_arm s); auto.
  - (* RT_G_start *)
    apply (CJ_run_step s); simpl; auto; rewrite Er; simpl; auto; discriminate.
  - (* RT_WaitChild *)
    destruct (run_call_pending s); auto. destruct (pending_exit s) as [o|] eqn:Epe; auto.
    simpl. destruct (run_arg s) eqn:Era; [|exfalso; apply Hra; auto].
    apply (CJ_run_step s); simpl; auto; rewrite Er; simpl; auto; discriminate.
  - (* RT_G_end *)
    eapply CJ_run_finish; eauto. rewrite Er. reflexivity.
  - (* RT_G_fin *)
    apply (CJ_run_step s); simpl; auto; rewrite Er; simpl; auto; discriminate.
  - (* RT_G_cs *)
    apply (CJ_run_step s); simpl; auto; rewrite Er; simpl; auto; discriminate.
Qed.

Lemma CJ_child_exit s o : CJ s -> CJ (do_child_exit s o).
Proof.
  intros HC. unfold do_child_exit. destruct (alive s); auto.
  eapply CJ_ext; [| | | exact HC]; reflexivity.
Qed.

Theorem CJ_step s l : LkS s -> FI s -> CJ s -> CJ (step s l).
Proof.
  intros HL HF HC. destruct l; simpl.
  - apply CJ_do_call; auto.
  - apply CJ_do_step; auto.
  - apply CJ_step_run; auto.
  - apply CJ_child_exit; auto.
Qed.

(** ---- before start() ---- *)
Ltac ps_same a b c d :=
  exists a, b, c, d; eexists; split; [reflexivity | simpl; try assumption; try discriminate].

Lemma CJ_first_start (s' : state) :
  nl_started s' = true -> cont_plugins s' = [] -> runt s' = None -> cont_closed s' = false ->
  enabled_of (trace s') = Some false -> CJ s'.
Proof.
  intros E1 E2 E3 E4 E5. constructor; rewrite ?E2, ?E3; simpl; auto; try discriminate; try contradiction.
  - constructor.
  - rewrite E4. discriminate.
Qed.

Lemma CI_step_pre s l : nl_started s = false -> PS s -> CI (step s l).
Proof.
  intros Hns (a & b & c & d & tr & -> & Hen). unfold CI. destruct l as [t c0| t | | o]; simpl.
  - unfold do_call. simpl.
    destruct c0; cbv -[Nat.eqb PS]; rewrite ?Nat.eqb_refl; cbv -[Nat.eqb PS]; rewrite ?Nat.eqb_refl; cbv -[Nat.eqb PS].
    + apply CJ_first_start; reflexivity.
    + ps_same a b c d.
    + ps_same a b c d.
    + apply CJ_first_start; reflexivity.
    + ps_same a b c d.
    + ps_same a b c d.
    + ps_same a b c d.
    + ps_same a b c d.
    + ps_same a b c d.
  - ps_same a b c d.
  - ps_same a b c d.
  - ps_same a b c d.
Qed.

(** ---- every reachable state ---- *)
Lemma CI_init a b c d : CI (init_state a b c d).
Proof. unfold CI. simpl. exists a, b, c, d, []. split; [reflexivity | simpl; discriminate]. Qed.

Theorem CI_step s l : LkS s -> FI s -> CI s -> CI (step s l).
Proof.
  intros HL HF HC. unfold CI in HC. destruct (nl_started s) eqn:Ens.
  - pose proof (CJ_step s l HL HF HC) as HC'. unfold CI. rewrite (cj_started _ HC'). exact HC'.
  - apply CI_step_pre; auto.
Qed.

Theorem CI_reachable a b c d ls :
  LkS (run_labels (init_state a b c d) ls) /\ FI (run_labels (init_state a b c d) ls) /\
  CI (run_labels (init_state a b c d) ls).
Proof.
  unfold run_labels. generalize (LkS_init a b c d) (FI_init a b c d) (CI_init a b c d).
  generalize (init_state a b c d).
  induction ls as [|l ls IH]; intros s HL HF HC; simpl; auto.
  apply IH; [apply LkS_step | apply FI_step | apply CI_step]; auto.
Qed.

(** the structural invariant in one statement *)
Definition cont_inv (s : state) : Prop :=
  (forall t, In (t, false) (cont_plugins s) -> pend_ok s t) /\
  NoDup (cont_plugins s) /\
  (forall t, In (t, true) (cont_plugins s) ->
     t = run_owner s /\ run_cont s = true /\ mid (runt s) = true) /\
  (nl_started s = false -> cont_plugins s = []).

Lemma PS_plugins s : PS s -> cont_plugins s = [] /\ cont_closed s = false /\ enabled_of (trace s) <> Some true.
Proof. intros (a & b & c & d & tr & -> & Hen). simpl. auto. Qed.

Lemma CI_cont_inv s : CI s -> cont_inv s.
Proof.
  unfold CI, cont_inv. destruct (nl_started s) eqn:Ens; intros H.
  - destruct H as [h1 h2 h3 h4 h5 h6 h7 h8]. split; [|split; [|split]]; auto. discriminate.
  - destruct (PS_plugins _ H) as (E & _). rewrite E. split; [|split; [|split]]; auto; try (intros; contradiction). constructor.
Qed.

Theorem cont_inv_reachable a b c d ls : cont_inv (run_labels (init_state a b c d) ls).
Proof. apply CI_cont_inv. apply CI_reachable. Qed.

Theorem flag_reachable a b c d ls :
  let s := run_labels (init_state a b c d) ls in
  (nl_started s = true -> cont_closed s = false ->
   enabled_of (trace s) = Some (nonempty (cont_plugins s))) /\
  (nl_started s = false ->
   cont_plugins s = [] /\ cont_closed s = false /\ enabled_of (trace s) <> Some true).
Proof.
  intros s. destruct (CI_reachable a b c d ls) as (_ & _ & HC). fold s in HC. unfold CI in HC.
  destruct (nl_started s) eqn:Ens; split; intros; try discriminate.
  - apply (cj_flag _ HC); auto.
  - apply PS_plugins; auto.
Qed.

Theorem plain_run_reachable a b c d ls :
  let s := run_labels (init_state a b c d) ls in
  run_cont s = false -> forall x, In x (cont_plugins s) -> snd x = false.
Proof.
  intros s Hrc [t b0] Hin. destruct (cont_inv_reachable a b c d ls) as (_ & _ & H & _). fold s in H.
  destruct b0; auto. destruct (H _ Hin) as (_ & E & _). congruence.
Qed.

Lemma NoDup_all_eq {A} (l : list A) a : NoDup l -> (forall x, In x l -> x = a) -> (length l <= 1)%nat.
Proof.
  intros Hnd Hall. destruct l as [|x [|y l]]; simpl; auto.
  exfalso. inversion Hnd as [|? ? Hni _]; subst. apply Hni. left.
  rewrite (Hall x), (Hall y); simpl; auto.
Qed.

Theorem started_at_most_one a b c d ls :
  let s := run_labels (init_state a b c d) ls in
  (length (filter (fun x => snd x) (cont_plugins s)) <= 1)%nat.
Proof.
  intros s. destruct (cont_inv_reachable a b c d ls) as (_ & Hnd & H & _). fold s in Hnd, H.
  apply (NoDup_all_eq _ (run_owner s, true)).
  - apply NoDup_filter. auto.
  - intros [t b0] Hin. apply filter_In in Hin. destruct Hin as (Hin & Hb). simpl in Hb. subst b0.
    destruct (H _ Hin) as (-> & _). reflexivity.
Qed.

(** ---- which return a step adds to the history ---- *)
Fixpoint rets_of (tr : list event) : list (nat * call * result) :=
  match tr with
  | [] => []
  | EvRet t c r :: k => (t, c, r) :: rets_of k
  | _ :: k => rets_of k
  end.

Lemma rets_off s tr : rets_of (cont_off_events s ++ tr) = rets_of tr.
Proof. unfold cont_off_events. destruct (cont_plugins s); reflexivity. Qed.

(** the state either has the returns [base], or one more; a refused continue
    request has its plugin removed and the flag re-published just before it returns *)
Definition RSb (base : list (nat * call * result)) (s' : state) : Prop :=
  rets_of (trace s') = base \/
  exists t c r tr1, trace s' = EvRet t c r :: tr1 /\ rets_of tr1 = base /\
    (r = RMachineError -> is_cont c = true ->
     ~ In (t, false) (cont_plugins s') /\
     (cont_closed s' = false -> exists tr2, tr1 = EvPub (PCont (nonempty (cont_plugins s'))) :: tr2)).

Lemma RSb_same base s' : rets_of (trace s') = base -> RSb base s'.
Proof. left. assumption. Qed.

Lemma RSb_finish base s1 t c r :
  rets_of (trace s1) = base -> r <> RMachineError \/ is_cont c = false -> RSb base (finish_call s1 t c r).
Proof.
  intros E Hor. right. exists t, c, r, (trace s1). simpl. repeat split; auto.
  all: intros; destruct Hor; congruence.
Qed.

Lemma unreg_not_in t l : ~ In (t, false) (filter (unreg_pred t) l).
Proof.
  intros Hin. apply filter_In in Hin. destruct Hin as (_ & H). unfold unreg_pred in H. simpl in H.
  rewrite Nat.eqb_refl in H. discriminate.
Qed.

Lemma RSb_refuse base s t c : rets_of (trace s) = base -> RSb base (refuse s t c).
Proof.
  intros E. unfold refuse. destruct (is_cont c) eqn:Ec.
  - destruct (cont_closed (release s)) eqn:Ecl.
    + right. exists t, c, RMachineError. eexists. simpl. split; [reflexivity|]. cv_simpl.
      split; auto. intros _ _. split; [apply unreg_not_in | rewrite rl_closed in Ecl; rewrite Ecl; discriminate].
    + right. exists t, c, RMachineError. eexists. simpl. split; [reflexivity|]. cv_simpl.
      split; auto. intros _ _. split; [apply unreg_not_in | eauto].
  - apply RSb_finish; [cv_simpl; auto | right; auto].
Qed.

Ltac rs := first [apply RSb_refuse | apply RSb_finish | apply RSb_same]; cv_simpl; rewrite ?rets_off; auto; try (left; discriminate).

Lemma RSb_close_trigger base s t : rets_of (trace s) = base -> RSb base (close_trigger s t).
Proof. intros E. unfold close_trigger. destruct (st_fsm s); try destruct (runt s); rs. Qed.

Lemma RSb_enter_close base s t : rets_of (trace s) = base -> RSb base (enter_close s t).
Proof.
  intros E. unfold enter_close.
  destruct (st_fsm (publish s PEndAll)); try (apply RSb_close_trigger; simpl; auto; fail).
  destruct (run_finished (publish s PEndAll)) as [[|]|]; try (apply RSb_close_trigger; simpl; auto; fail); rs.
Qed.

Lemma RSb_enter base s t c part2 : rets_of (trace s) = base -> RSb base (enter s t c part2).
Proof.
  intros E. unfold enter.
  assert (H1 : forall c0, RSb base (enter_start s t c0)).
  { intros c0. unfold enter_start. destruct (st_fsm s); rs. }
  assert (H2 : forall c0, RSb base (enter_run s t c0)).
  { intros c0. unfold enter_run. destruct (st_fsm s); rs. }
  destruct c; auto; try (apply RSb_same; exact E).
  - unfold enter_reset. destruct (st_fsm s); try destruct (o_stmt o); rs.
  - destruct part2; auto. apply RSb_enter_close; auto.
Qed.

Lemma RSb_acquire base s t c part2 : rets_of (trace s) = base -> RSb base (acquire s t c part2).
Proof.
  intros E. unfold acquire. destruct (holder s); [rs|]. destruct (lockq s); [|rs].
  apply RSb_enter. simpl. auto.
Qed.

Lemma RSb_do_call s t c : RSb (rets_of (trace s)) (do_call s t c).
Proof.
  unfold do_call. destruct (find_task (tasks s) t); [rs|].
  destruct c; cbn [nl_started nl_closed cont_closed running_process send_command set_trace];
    try (apply RSb_acquire; reflexivity).
  - destruct (nl_started s); [rs | apply RSb_acquire; reflexivity].
  - destruct (nl_closed s); [rs|]. simpl. destruct (nl_started s); apply RSb_acquire; reflexivity.
  - destruct (cont_closed s); [rs | apply RSb_acquire; reflexivity].
  - destruct (cont_closed s); [rs | apply RSb_acquire; reflexivity].
  - destruct (running_process s); rs.
  - destruct (send_command s); rs.
Qed.

Lemma RSb_do_step s t : RSb (rets_of (trace s)) (do_step s t).
Proof.
  unfold do_step. destruct (find_task (tasks s) t) as [[c p]|]; [|rs].
  destruct p; try (rs; fail); try (apply RSb_enter; reflexivity).
  - (* S_G3 *) destruct c; try (rs; fail). apply RSb_acquire. cv_simpl. reflexivity.
  - destruct (started_ev s); rs.
  - destruct c; rs.
  - destruct c; rs.
  - destruct (st_fsm s); try destruct (runt s); rs.
  - destruct (runt s); rs.
  - destruct (run_finished s) as [[|]|]; try (rs; fail). apply RSb_close_trigger. reflexivity.
  - destruct (runt s); rs.
  - destruct (run_finished s) as [[|]|]; rs.
Qed.

Lemma cf_rets n : forall s, rets_of (trace (cont_finished s n)) = rets_of (trace s).
Proof.
  induction n as [|n IH]; intros s; simpl; auto.
  destruct (filter _ (cont_plugins s)) as [|[t b] r]; auto. rewrite IH. reflexivity.
Qed.

Lemma run_finish_rets s : rets_of (trace (run_finish s)) = rets_of (trace s).
Proof. unfold run_finish. simpl. destruct (st_fsm s); simpl; auto. rewrite cf_rets. reflexivity. Qed.

Lemma step_run_rets s : rets_of (trace (do_step_run s)) = rets_of (trace s).
Proof.
  unfold do_step_run. destruct (runt s) as [[]|]; auto; try apply run_finish_rets.
  - destruct (run_arg s); auto. apply run_finish_rets.
  - simpl. destruct (run_arg s); auto. rewrite run_finish_rets. reflexivity.
  - destruct (run_call_pending s); auto. destruct (pending_exit s); auto. simpl.
    destruct (run_arg s); auto. rewrite run_finish_rets. reflexivity.
Qed.

Theorem RSb_step s l : RSb (rets_of (trace s)) (step s l).
Proof.
  destruct l; simpl.
  - apply RSb_do_call.
  - apply RSb_do_step.
  - left. apply step_run_rets.
  - left. unfold do_child_exit. destruct (alive s); reflexivity.
Qed.

(** a step that adds the refusal (MachineError) of a continue request *)
Theorem refused_step s l t c :
  is_cont c = true ->
  rets_of (trace (step s l)) = (t, c, RMachineError) :: rets_of (trace s) ->
  ~ In (t, false) (cont_plugins (step s l)) /\
  (cont_closed (step s l) = false ->
   enabled_of (trace (step s l)) = Some (nonempty (cont_plugins (step s l))) /\
   exists tr2, trace (step s l) =
     EvRet t c RMachineError :: EvPub (PCont (nonempty (cont_plugins (step s l)))) :: tr2).
Proof.
  intros Hc Hr. destruct (RSb_step s l) as [E | (t0 & c0 & r0 & tr1 & Et & E1 & H)].
  - rewrite E in Hr. exfalso. apply (f_equal (@length _)) in Hr. simpl in Hr. lia.
  - rewrite Et in Hr. simpl in Hr. rewrite E1 in Hr. inversion Hr; subst t0 c0 r0.
    destruct (H eq_refl Hc) as (Hni & Hop). split; auto. intros Hcl.
    destruct (Hop Hcl) as (tr2 & ->). rewrite Et. simpl. split; eauto.
Qed.

(** ---- close() runs once: at most one CClose call is ever in flight, none after
    the continuous item has been closed ---- *)
Definition subc (ts0 ts : ttab) : Prop :=
  forall t p, find_task ts t = Some (CClose, p) -> exists p0, find_task ts0 t = Some (CClose, p0).

Lemma subc_refl ts : subc ts ts. Proof. intros t p H. eauto. Qed.

Lemma subc_put ts0 ts t c p :
  subc ts0 ts -> (c = CClose -> exists p0, find_task ts0 t = Some (CClose, p0)) ->
  subc ts0 (put_task ts t (c, p)).
Proof.
  intros H Hc t' p' Hf. destruct (Nat.eq_dec t' t) as [->|Hn].
  - rewrite find_put_eq in Hf. inversion Hf; subst. auto.
  - rewrite find_put_neq in Hf by assumption. eauto.
Qed.

Lemma subc_remove ts0 ts t : subc ts0 ts -> subc ts0 (remove_task ts t).
Proof.
  intros H t' p' Hf. destruct (Nat.eq_dec t' t) as [->|Hn].
  - rewrite find_remove_eq in Hf. discriminate.
  - rewrite find_remove_neq in Hf by assumption. eauto.
Qed.

Lemma find_rel_tasks_call q ts t' c p' :
  find_task (rel_tasks q ts) t' = Some (c, p') -> exists p, find_task ts t' = Some (c, p).
Proof.
  unfold rel_tasks. destruct q as [|t1 q]; [eauto|].
  destruct (find_task ts t1) as [[c1 p1]|] eqn:E1; [|eauto].
  destruct (Nat.eq_dec t' t1) as [->|Hn].
  - rewrite find_put_eq. intros H. inversion H; subst. eauto.
  - rewrite find_put_neq by assumption. eauto.
Qed.

Lemma subc_rel ts0 q ts : subc ts0 ts -> subc ts0 (rel_tasks q ts).
Proof. intros H t' p' Hf. apply find_rel_tasks_call in Hf. destruct Hf as (p & Hf). eauto. Qed.

Lemma subc_put_base ts t p : subc (put_task ts t (CClose, p)) ts.
Proof.
  intros t' p' Hf. destruct (Nat.eq_dec t' t) as [->|Hn].
  - rewrite find_put_eq. eauto.
  - rewrite find_put_neq by assumption. eauto.
Qed.

Definition Kt (ts : ttab) (nc cc : bool) : Prop :=
  (forall t p, find_task ts t = Some (CClose, p) -> nc = true) /\
  (forall t t' p p', find_task ts t = Some (CClose, p) -> find_task ts t' = Some (CClose, p') -> t = t') /\
  (cc = true -> nc = true /\ forall t p, find_task ts t <> Some (CClose, p)).

Definition K (s : state) : Prop := Kt (tasks s) (nl_closed s) (cont_closed s).

(** what a step does to the CClose entries, to nl_closed and to cont_closed *)
Definition KSb (ts0 : ttab) (nc0 cc0 : bool) (s' : state) : Prop :=
  subc ts0 (tasks s') /\ nl_closed s' = nc0 /\
  (cont_closed s' = cc0 \/
   exists t p, find_task ts0 t = Some (CClose, p) /\ find_task (tasks s') t = None).

Lemma Kt_step ts0 nc0 cc0 s' : Kt ts0 nc0 cc0 -> KSb ts0 nc0 cc0 s' -> K s'.
Proof.
  intros (k1 & k2 & k3) (Hs & En & Hcc). unfold K, Kt. rewrite En. repeat split.
  - intros t p Hf. destruct (Hs _ _ Hf) as (p0 & Hf0). eauto.
  - intros t t' p p' Hf Hf'. destruct (Hs _ _ Hf) as (p0 & Hf0). destruct (Hs _ _ Hf') as (p1 & Hf1). eauto.
  - destruct Hcc as [E | (t & p & Hf & Hn)].
    + rewrite E in H. apply k3; auto.
    + eauto.
  - intros t' p' Hf'. destruct (Hs _ _ Hf') as (p0 & Hf0).
    destruct Hcc as [E | (t & p & Hf & Hn)].
    + rewrite E in H. destruct (k3 H) as (_ & Hno). eapply Hno; eauto.
    + assert (t' = t) by eauto. subst t'. congruence.
Qed.

Lemma Kt_new_close ts cc t p : Kt ts false cc -> Kt (put_task ts t (CClose, p)) true cc.
Proof.
  intros (k1 & k2 & k3).
  assert (Hno : forall t' p', find_task ts t' <> Some (CClose, p')).
  { intros t' p' Hf. specialize (k1 _ _ Hf). discriminate. }
  split; [auto | split].
  - intros t1 t2 p1 p2 H1 H2.
    destruct (Nat.eq_dec t1 t) as [->|N1]; destruct (Nat.eq_dec t2 t) as [->|N2]; auto.
    + rewrite find_put_neq in H2 by assumption. exfalso. eapply Hno; eauto.
    + rewrite find_put_neq in H1 by assumption. exfalso. eapply Hno; eauto.
    + rewrite find_put_neq in H1 by assumption. exfalso. eapply Hno; eauto.
  - intros Hcc. destruct (k3 Hcc). discriminate.
Qed.

Lemma rl_nlc s : nl_closed (release s) = nl_closed s. Proof. rl_tac s. Qed.
Lemma ar_nlc s o : nl_closed (apply_rest s o) = nl_closed s. Proof. ar_tac o. Qed.

Ltac kv := cv_simpl; rewrite ?rl_nlc, ?ar_nlc, ?release_tasks; simpl.
Ltac ksub :=
  kv; repeat first [ assumption | apply subc_remove | apply subc_rel
                   | (apply subc_put; [|first [assumption | intros _; assumption | discriminate]]) ].
Ltac ksame := split; [ksub | split; [kv; auto | left; kv; auto]].

Section KWalk.
Variables (ts0 : ttab) (nc0 cc0 : bool).

Lemma KSb_refuse s t c :
  subc ts0 (tasks s) -> nl_closed s = nc0 -> cont_closed s = cc0 -> KSb ts0 nc0 cc0 (refuse s t c).
Proof.
  intros Hs En Ec. unfold refuse. destruct (is_cont c); [destruct (cont_closed (release s))|]; ksame.
Qed.

Lemma KSb_close_trigger s t :
  subc ts0 (tasks s) -> (exists p0, find_task ts0 t = Some (CClose, p0)) ->
  nl_closed s = nc0 -> cont_closed s = cc0 -> KSb ts0 nc0 cc0 (close_trigger s t).
Proof.
  intros Hs Hc En Ec. unfold close_trigger.
  destruct (st_fsm s); try destruct (runt s); try (ksame; fail);
    (split; [ksub | split; [kv; auto |]]; right; destruct Hc as (p0 & Hf0); exists t, p0; split; auto;
     simpl; apply find_remove_eq).
Qed.

Lemma KSb_enter_close s t :
  subc ts0 (tasks s) -> (exists p0, find_task ts0 t = Some (CClose, p0)) ->
  nl_closed s = nc0 -> cont_closed s = cc0 -> KSb ts0 nc0 cc0 (enter_close s t).
Proof.
  intros Hs Hc En Ec. unfold enter_close.
  destruct (st_fsm (publish s PEndAll)); try (apply KSb_close_trigger; auto; fail).
  destruct (run_finished (publish s PEndAll)) as [[|]|]; try (apply KSb_close_trigger; auto; fail); ksame.
Qed.

Lemma KSb_enter s t c part2 :
  subc ts0 (tasks s) -> (c = CClose -> exists p0, find_task ts0 t = Some (CClose, p0)) ->
  nl_closed s = nc0 -> cont_closed s = cc0 -> KSb ts0 nc0 cc0 (enter s t c part2).
Proof.
  intros Hs Hc En Ec. unfold enter.
  assert (H1 : forall c0, (c0 = CClose -> exists p0, find_task ts0 t = Some (CClose, p0)) ->
                          KSb ts0 nc0 cc0 (enter_start s t c0)).
  { intros c0 Hc0. unfold enter_start. destruct (st_fsm s); try (apply KSb_refuse; auto; fail). ksame. }
  assert (H2 : forall c0, (c0 = CClose -> exists p0, find_task ts0 t = Some (CClose, p0)) ->
                          KSb ts0 nc0 cc0 (enter_run s t c0)).
  { intros c0 Hc0. unfold enter_run. destruct (st_fsm s); try (apply KSb_refuse; auto; fail). ksame. }
  destruct c; auto; try (ksame; fail).
  - unfold enter_reset. destruct (st_fsm s); try (apply KSb_refuse; auto; fail); destruct (o_stmt o); ksame.
  - destruct part2; auto. apply KSb_enter_close; auto.
Qed.

Lemma KSb_acquire s t c part2 :
  subc ts0 (tasks s) -> (c = CClose -> exists p0, find_task ts0 t = Some (CClose, p0)) ->
  nl_closed s = nc0 -> cont_closed s = cc0 -> KSb ts0 nc0 cc0 (acquire s t c part2).
Proof.
  intros Hs Hc En Ec. unfold acquire. destruct (holder s); [ksame|]. destruct (lockq s); [|ksame].
  apply KSb_enter; auto. ksub.
Qed.
End KWalk.

Lemma KSb_do_call s t c : c <> CClose \/ nl_closed s = true ->
  KSb (tasks s) (nl_closed s) (cont_closed s) (do_call s t c).
Proof.
  intros Hor. pose proof (subc_refl (tasks s)) as Hs0. unfold do_call.
  destruct (find_task (tasks s) t); [ksame|].
  destruct c; cbn [nl_started nl_closed cont_closed running_process send_command set_trace];
    try (apply KSb_acquire; [exact Hs0 | discriminate | reflexivity | reflexivity]).
  - destruct (nl_started s); [ksame | apply KSb_acquire; [exact Hs0 | discriminate | reflexivity | reflexivity]].
  - destruct Hor as [Hn | Hn]; [congruence|]. rewrite Hn. ksame.
  - destruct (cont_closed s) eqn:Ecl; [ksame | apply KSb_acquire; [exact Hs0 | discriminate | reflexivity | simpl; auto]].
  - destruct (cont_closed s) eqn:Ecl; [ksame | apply KSb_acquire; [exact Hs0 | discriminate | reflexivity | simpl; auto]].
  - destruct (running_process s); ksame.
  - destruct (send_command s); ksame.
Qed.

Lemma K_call_close s t : K s -> find_task (tasks s) t = None -> nl_closed s = false -> K (do_call s t CClose).
Proof.
  intros HK Ef Hnc. unfold do_call. rewrite Ef. cbn [nl_closed set_trace]. rewrite Hnc.
  unfold K in HK. rewrite Hnc in HK.
  pose proof (Kt_new_close _ _ t WaitLock1 HK) as HK1.
  cbn [nl_started set_nl_closed set_trace].
  destruct (nl_started s);
    (eapply Kt_step; [exact HK1 |];
     apply KSb_acquire; [apply subc_put_base | intros _; eexists; apply find_put_eq | reflexivity | reflexivity]).
Qed.

Lemma KSb_do_step s t : LkS s -> KSb (tasks s) (nl_closed s) (cont_closed s) (do_step s t).
Proof.
  intros HL. pose proof (subc_refl (tasks s)) as Hs0.
  unfold do_step. destruct (find_task (tasks s) t) as [[c p]|] eqn:Ef; [|ksame].
  pose proof (lk_compat _ _ _ HL _ _ _ Ef) as Hc.
  assert (Hc0 : c = CClose -> exists p0, find_task (tasks s) t = Some (CClose, p0)) by (intros ->; eauto).
  destruct p; try (ksame; fail); try (apply KSb_enter; auto; fail).
  - (* S_G3 *) destruct c; try (ksame; fail). apply KSb_acquire; auto; [ksub | kv; auto | kv; auto].
  - destruct (started_ev s); ksame.
  - destruct c; ksame.
  - destruct c; ksame.
  - destruct (st_fsm s); try destruct (runt s); ksame.
  - destruct (runt s); ksame.
  - destruct (run_finished s) as [[|]|]; try (ksame; fail).
    destruct c; simpl in Hc; try discriminate. apply KSb_close_trigger; auto.
  - destruct (runt s); try (ksame; fail). destruct c; simpl in Hc; try discriminate. ksame.
  - (* C_G4 *) destruct c; simpl in Hc; try discriminate.
    split; [ksub | split; [kv; auto |]]. right. exists t, C_G4. split; auto. simpl. apply find_remove_eq.
  - destruct (run_finished s) as [[|]|]; ksame.
Qed.

Lemma cf_nlc n : forall s, nl_closed (cont_finished s n) = nl_closed s.
Proof.
  induction n as [|n IH]; intros s; simpl; auto.
  destruct (filter _ (cont_plugins s)) as [|[t b] r]; auto. rewrite IH. reflexivity.
Qed.

Lemma run_finish_k s : tasks (run_finish s) = tasks s /\ nl_closed (run_finish s) = nl_closed s /\
  cont_closed (run_finish s) = cont_closed s.
Proof.
  unfold run_finish. simpl. destruct (st_fsm s); simpl; auto.
  match goal with |- context [cont_finished ?x ?n] =>
    destruct (cfv_fields _ _ (cf_fields n x)) as (_ & E2 & _ & _ & _ & _ & _ & E8);
    pose proof (cf_nlc n x) as E1 end.
  rewrite E1, E2, E8. auto.
Qed.

Lemma step_run_k s : KSb (tasks s) (nl_closed s) (cont_closed s) (do_step_run s).
Proof.
  assert (H : tasks (do_step_run s) = tasks s /\ nl_closed (do_step_run s) = nl_closed s /\
              cont_closed (do_step_run s) = cont_closed s).
  { unfold do_step_run. destruct (runt s) as [[]|]; auto; try apply run_finish_k.
    - destruct (run_arg s); auto. apply run_finish_k.
    - simpl. destruct (run_arg s); auto. apply (run_finish_k (set_running_process s true)).
    - destruct (run_call_pending s); auto. destruct (pending_exit s); auto. simpl.
      destruct (run_arg s); auto.
      match goal with |- context [run_finish ?x] => apply (run_finish_k x) end. }
  destruct H as (E1 & E2 & E3). split; [rewrite E1; apply subc_refl | auto].
Qed.

Theorem K_step s l : LkS s -> K s -> K (step s l).
Proof.
  intros HL HK. destruct l as [t c | t | | o]; simpl.
  - destruct (find_task (tasks s) t) eqn:Ef.
    + unfold do_call. rewrite Ef. exact HK.
    + assert (Hd : c <> CClose \/ nl_closed s = true \/ (c = CClose /\ nl_closed s = false)).
      { destruct c; try (left; discriminate). destruct (nl_closed s); auto. }
      destruct Hd as [Hd | [Hd | (-> & Hd)]].
      * eapply Kt_step; [exact HK | apply KSb_do_call; auto].
      * eapply Kt_step; [exact HK | apply KSb_do_call; auto].
      * apply K_call_close; auto.
  - eapply Kt_step; [exact HK | apply KSb_do_step; auto].
  - eapply Kt_step; [exact HK | apply step_run_k].
  - unfold do_child_exit. destruct (alive s); exact HK.
Qed.

Theorem K_reachable a b c d ls : K (run_labels (init_state a b c d) ls).
Proof.
  assert (H : LkS (run_labels (init_state a b c d) ls) /\ K (run_labels (init_state a b c d) ls)).
  { unfold run_labels.
    assert (HK0 : K (init_state a b c d)).
    { unfold K, Kt. simpl. repeat split; intros; discriminate. }
    generalize (LkS_init a b c d) HK0. generalize (init_state a b c d).
    induction ls as [|l ls IH]; intros s HL HK; simpl; auto.
    apply IH; [apply LkS_step | apply K_step]; auto. }
  apply H.
Qed.

(** ---- after Continuous.close(): nothing is published on the flag any more ---- *)
Fixpoint cpubs (tr : list event) : list bool :=
  match tr with
  | [] => []
  | EvPub (PCont b) :: k => b :: cpubs k
  | _ :: k => cpubs k
  end.

Definition Qb (b : list bool) (s' : state) : Prop := cpubs (trace s') = b /\ cont_closed s' = true.

Ltac qs := match goal with H : Qb _ _ |- _ => destruct H as (?E1 & ?E2) end; split; cv_simpl; auto.

Lemma Qb_refuse b s t c : Qb b s -> Qb b (refuse s t c).
Proof.
  intros H. unfold refuse. destruct (is_cont c); [|qs].
  rewrite rl_closed. destruct H as (E1 & E2). rewrite E2. split; cv_simpl; auto.
Qed.

Lemma Qb_enter b s t c part2 : c <> CClose -> Qb b s -> Qb b (enter s t c part2).
Proof.
  intros Hnc H. unfold enter.
  assert (H1 : forall c0, Qb b (enter_start s t c0)).
  { intros c0. unfold enter_start. destruct (st_fsm s); try (apply Qb_refuse; auto; fail). qs. }
  assert (H2 : forall c0, Qb b (enter_run s t c0)).
  { intros c0. unfold enter_run. destruct (st_fsm s); try (apply Qb_refuse; auto; fail). qs. }
  destruct c; auto; try congruence.
  unfold enter_reset. destruct (st_fsm s); try (apply Qb_refuse; auto; fail); destruct (o_stmt o); qs.
Qed.

Lemma Qb_acquire b s t c part2 : c <> CClose -> Qb b s -> Qb b (acquire s t c part2).
Proof.
  intros Hnc H. unfold acquire. destruct (holder s); [qs|]. destruct (lockq s); [|qs].
  apply Qb_enter; auto; destruct H; split; auto.
Qed.

Lemma Qb_do_call s t c : cont_closed s = true -> nl_started s = true -> nl_closed s = true ->
  Qb (cpubs (trace s)) (do_call s t c).
Proof.
  intros Hcl Hst Hnc. unfold do_call.
  assert (H0 : Qb (cpubs (trace s)) s) by (split; auto).
  destruct (find_task (tasks s) t); auto.
  assert (H1 : Qb (cpubs (trace s)) (set_trace s (EvCall t c :: trace s))) by (split; auto).
  destruct c; cbn [nl_started nl_closed cont_closed running_process send_command set_trace];
    rewrite ?Hcl, ?Hst, ?Hnc; try (apply Qb_acquire; [discriminate | auto]; fail); try (split; simpl; auto; fail).
  - destruct (running_process s); split; simpl; auto.
  - destruct (send_command s); split; simpl; auto.
Qed.

Lemma Qb_do_step s t : LkS s -> cont_closed s = true ->
  (forall p, find_task (tasks s) t <> Some (CClose, p)) -> Qb (cpubs (trace s)) (do_step s t).
Proof.
  intros HL Hcl Hno. assert (H0 : Qb (cpubs (trace s)) s) by (split; auto).
  unfold do_step. destruct (find_task (tasks s) t) as [[c p]|] eqn:Ef; auto.
  pose proof (lk_compat _ _ _ HL _ _ _ Ef) as Hc.
  assert (Hnc : c <> CClose) by (intros ->; eapply Hno; eauto).
  destruct p; auto; try (apply Qb_enter; auto; fail); try (qs; fail);
    try (destruct c; simpl in Hc; try discriminate; congruence).
  - destruct c; try (qs; fail). congruence.
  - destruct (started_ev s); auto; qs.
  - destruct c; auto; qs.
  - destruct c; auto; qs.
  - destruct (st_fsm s); try destruct (runt s); auto; qs.
  - destruct (runt s); auto; qs.
  - destruct (run_finished s) as [[|]|]; auto; qs.
Qed.

Lemma closed_step s l : LkS s -> FI s -> CI s -> K s -> cont_closed s = true ->
  cpubs (trace (step s l)) = cpubs (trace s) /\ cont_closed (step s l) = true.
Proof.
  intros HL HF HC (_ & _ & k3) Hcl. destruct (k3 Hcl) as (Hnc & Hno).
  unfold CI in HC. destruct (nl_started s) eqn:Ens.
  - destruct l; simpl.
    + apply Qb_do_call; auto.
    + apply Qb_do_step; auto.
    + pose proof (cj_closed _ HC Hcl) as Hfs. destruct HF as [_ HS].
      assert (Hr : runt s = None) by (eapply Scal_idle; eauto; rewrite Hfs; discriminate).
      unfold do_step_run. rewrite Hr. auto.
    + unfold do_child_exit. destruct (alive s); auto.
  - destruct (PS_plugins _ HC) as (_ & E & _). congruence.
Qed.

Theorem closed_forever a b c d ls ls' :
  let s := run_labels (init_state a b c d) ls in
  cont_closed s = true ->
  cpubs (trace (run_labels s ls')) = cpubs (trace s) /\ cont_closed (run_labels s ls') = true.
Proof.
  intros s Hcl. destruct (CI_reachable a b c d ls) as (HL & HF & HC). fold s in HL, HF, HC.
  pose proof (K_reachable a b c d ls) as HK. fold s in HK.
  revert HL HF HC HK Hcl. generalize s. clear s.
  induction ls' as [|l ls' IH]; intros s HL HF HC HK Hcl; simpl; auto.
  destruct (closed_step s l HL HF HC HK Hcl) as (E1 & E2).
  destruct (IH (step s l)) as (E3 & E4); auto using LkS_step, FI_step, CI_step, K_step.
  split; auto. unfold run_labels in *. congruence.
Qed.

(** a continue request on a closed Continuous fails at once and changes nothing else *)
Lemma closed_request s t c : cont_closed s = true -> is_cont c = true -> find_task (tasks s) t = None ->
  step s (Call t c) =
  set_trace (set_tasks s (remove_task (tasks s) t)) (EvRet t c RRuntimeError :: EvCall t c :: trace s).
Proof.
  intros Hcl Hc Hf. simpl. unfold do_call. rewrite Hf. destruct c; try discriminate; simpl; rewrite Hcl; reflexivity.
Qed.

(** ---- the step in which the run task performs Callback._finish (on_finished) ---- *)
Lemma run_finish_running s : st_fsm s = Running ->
  runt (run_finish s) = Some RT_G_fin /\
  cont_plugins (run_finish s) = filter unstarted (cont_plugins s) /\
  cont_closed (run_finish s) = cont_closed s /\ nl_started (run_finish s) = nl_started s.
Proof.
  intros Hfs. unfold run_finish. simpl. rewrite Hfs. simpl.
  match goal with |- context [cont_finished ?x ?n] =>
    destruct (cfv_fields _ _ (cf_fields n x)) as (E1 & E2 & _);
    pose proof (cf_plugins n x) as Ep end.
  repeat split; auto. rewrite Ep; auto. apply filter_length_le.
Qed.

Theorem finished_step a b c d ls :
  let s := run_labels (init_state a b c d) ls in
  runt s = Some RT_G_end ->
  let s' := step s StepRun in
  runt s' = Some RT_G_fin /\
  cont_plugins s' = filter unstarted (cont_plugins s) /\
  (forall x, In x (cont_plugins s') -> snd x = false) /\
  (cont_closed s = false -> enabled_of (trace s') = Some (nonempty (cont_plugins s'))).
Proof.
  intros s Hr s'. destruct (CI_reachable a b c d ls) as (HL & HF & HC). fold s in HL, HF, HC.
  pose proof HF as [_ HS]. pose proof (sc_early _ _ _ _ _ _ HS _ Hr eq_refl) as Hfs.
  assert (Es' : s' = run_finish s) by (unfold s'; simpl; unfold do_step_run; rewrite Hr; reflexivity).
  destruct (run_finish_running s Hfs) as (E1 & E2 & E3 & E4). rewrite <- Es' in *.
  repeat split; auto.
  - intros [t b0] Hin. rewrite E2 in Hin. apply filter_In in Hin. destruct Hin as (_ & Hu).
    unfold unstarted in Hu. simpl in *. destruct b0; auto.
  - intros Hcl. pose proof (CI_step s StepRun HL HF HC) as HC'. fold s' in HC'. unfold CI in HC'.
    destruct (nl_started s') eqn:Ens.
    + apply (cj_flag _ HC'). congruence.
    + destruct HC' as (a0 & b1 & c0 & d0 & tr & Hs & _). rewrite Hs in E1. discriminate.
Qed.

(** ---- the trace only grows: [trace (step s l) = new ++ trace s] ---- *)
Definition Ex (base tr : list event) : Prop := exists new, tr = new ++ base.

Lemma Ex_refl base : Ex base base. Proof. exists []. reflexivity. Qed.
Lemma Ex_cons base tr e : Ex base tr -> Ex base (e :: tr).
Proof. intros (new & ->). exists (e :: new). reflexivity. Qed.

Lemma Ex_app base tr pre : Ex base tr -> Ex base (pre ++ tr).
Proof. intros (new & ->). exists (pre ++ new). rewrite app_assoc. reflexivity. Qed.

Ltac ex := cv_simpl; repeat first [apply Ex_cons | apply Ex_app]; auto using Ex_refl.

Lemma Ex_refuse base s t c : Ex base (trace s) -> Ex base (trace (refuse s t c)).
Proof. intros H. unfold refuse. destruct (is_cont c); [destruct (cont_closed (release s))|]; ex. Qed.

Lemma Ex_close_trigger base s t : Ex base (trace s) -> Ex base (trace (close_trigger s t)).
Proof. intros H. unfold close_trigger. destruct (st_fsm s); try destruct (runt s); ex. Qed.

Lemma Ex_enter_close base s t : Ex base (trace s) -> Ex base (trace (enter_close s t)).
Proof.
  intros H. unfold enter_close.
  assert (H1 : Ex base (trace (publish s PEndAll))) by ex.
  destruct (st_fsm (publish s PEndAll)); try (apply Ex_close_trigger; auto; fail).
  destruct (run_finished (publish s PEndAll)) as [[|]|]; try (apply Ex_close_trigger; auto; fail); ex.
Qed.

Lemma Ex_enter base s t c part2 : Ex base (trace s) -> Ex base (trace (enter s t c part2)).
Proof.
  intros H. unfold enter.
  assert (H1 : forall c0, Ex base (trace (enter_start s t c0))).
  { intros c0. unfold enter_start. destruct (st_fsm s); try (apply Ex_refuse; auto; fail). ex. }
  assert (H2 : forall c0, Ex base (trace (enter_run s t c0))).
  { intros c0. unfold enter_run. destruct (st_fsm s); try (apply Ex_refuse; auto; fail). ex. }
  destruct c; auto.
  - unfold enter_reset. destruct (st_fsm s); try (apply Ex_refuse; auto; fail); destruct (o_stmt o); ex.
  - destruct part2; auto. apply Ex_enter_close; auto.
Qed.

Lemma Ex_acquire base s t c part2 : Ex base (trace s) -> Ex base (trace (acquire s t c part2)).
Proof.
  intros H. unfold acquire. destruct (holder s); [ex|]. destruct (lockq s); [|ex].
  apply Ex_enter. ex.
Qed.

Lemma Ex_do_call s t c : Ex (trace s) (trace (do_call s t c)).
Proof.
  unfold do_call. destruct (find_task (tasks s) t); [apply Ex_refl|].
  destruct c; cbn [nl_started nl_closed cont_closed running_process send_command set_trace];
    try (apply Ex_acquire; ex; fail).
  - destruct (nl_started s); [ex | apply Ex_acquire; ex].
  - destruct (nl_closed s); [ex|]. simpl. destruct (nl_started s); apply Ex_acquire; ex.
  - destruct (cont_closed s); [ex | apply Ex_acquire; ex].
  - destruct (cont_closed s); [ex | apply Ex_acquire; ex].
  - destruct (running_process s); ex.
  - destruct (send_command s); ex.
Qed.

Lemma Ex_do_step s t : Ex (trace s) (trace (do_step s t)).
Proof.
  pose proof (Ex_refl (trace s)) as H0.
  unfold do_step. destruct (find_task (tasks s) t) as [[c p]|]; auto.
  destruct p; auto; try (apply Ex_enter; auto; fail); try (ex; fail).
  - destruct c; try (ex; fail). apply Ex_acquire. ex.
  - destruct (started_ev s); auto; ex.
  - destruct c; auto; ex.
  - destruct c; auto; ex.
  - destruct (st_fsm s); try destruct (runt s); auto; ex.
  - destruct (runt s); auto; ex.
  - destruct (run_finished s) as [[|]|]; auto. apply Ex_close_trigger; auto.
  - destruct (runt s); auto; ex.
  - destruct (run_finished s) as [[|]|]; auto; ex.
Qed.

Lemma Ex_cf base n : forall s, Ex base (trace s) -> Ex base (trace (cont_finished s n)).
Proof.
  induction n as [|n IH]; intros s H; simpl; auto.
  destruct (filter _ (cont_plugins s)) as [|[t b] r]; auto. apply IH. ex.
Qed.

Lemma Ex_run_finish base s : Ex base (trace s) -> Ex base (trace (run_finish s)).
Proof. intros H. unfold run_finish. simpl. destruct (st_fsm s); simpl; auto. apply Ex_cf. ex. Qed.

Lemma Ex_step_run s : Ex (trace s) (trace (do_step_run s)).
Proof.
  pose proof (Ex_refl (trace s)) as H0.
  unfold do_step_run. destruct (runt s) as [[]|]; auto; try (apply Ex_run_finish; auto; fail); try (ex; fail).
  - destruct (run_arg s); [ex | apply Ex_run_finish; auto].
  - simpl. destruct (run_arg s); [ex | apply Ex_run_finish; ex].
  - destruct (run_call_pending s); auto. destruct (pending_exit s); auto. simpl.
    destruct (run_arg s); [ex | apply Ex_run_finish; ex].
Qed.

Theorem step_trace_grows s l : exists new, trace (step s l) = new ++ trace s.
Proof.
  destruct l; simpl.
  - apply Ex_do_call.
  - apply Ex_do_step.
  - apply Ex_step_run.
  - unfold do_child_exit. destruct (alive s); apply Ex_refl.
Qed.

Lemma appended_new s s' new : trace s' = new ++ trace s -> appended s s' = rev new.
Proof.
  intros E. unfold appended. rewrite E, app_length.
  replace (length new + length (trace s) - length (trace s))%nat with (length new) by lia.
  rewrite firstn_app, firstn_all, Nat.sub_diag. simpl. rewrite app_nil_r. reflexivity.
Qed.

Lemma rets_of_app a b : rets_of (a ++ b) = rets_of a ++ rets_of b.
Proof.
  induction a as [|e a IH]; simpl; auto. destruct e; auto. simpl. rewrite IH. reflexivity.
Qed.

Lemma in_rets t c r tr : In (EvRet t c r) tr -> In (t, c, r) (rets_of tr).
Proof.
  induction tr as [|e tr IH]; simpl; auto. intros [-> | Hin]; [left; reflexivity|].
  destruct e; auto. right. auto.
Qed.

(** the formulation with [appended] (Hist.v) *)
Theorem refused_appended s l t c :
  is_cont c = true -> In (EvRet t c RMachineError) (appended s (step s l)) ->
  ~ In (t, false) (cont_plugins (step s l)) /\
  (cont_closed (step s l) = false ->
   enabled_of (trace (step s l)) = Some (nonempty (cont_plugins (step s l)))).
Proof.
  intros Hc Hin. destruct (step_trace_grows s l) as (new & En).
  rewrite (appended_new _ _ _ En) in Hin. apply in_rev in Hin. apply in_rets in Hin.
  assert (Hr : rets_of (trace (step s l)) = rets_of new ++ rets_of (trace s)) by (rewrite En; apply rets_of_app).
  destruct (RSb_step s l) as [E | (t0 & c0 & r0 & tr1 & Et & E1 & H)].
  - rewrite E in Hr. apply (f_equal (@length _)) in Hr. rewrite app_length in Hr.
    destruct (rets_of new); [destruct Hin | simpl in Hr; lia].
  - assert (Hr2 : rets_of (trace (step s l)) = [(t0, c0, r0)] ++ rets_of (trace s)).
    { rewrite Et. simpl. rewrite E1. reflexivity. }
    rewrite Hr in Hr2. apply app_inv_tail in Hr2. rewrite Hr2 in Hin. destruct Hin as [Heq | []].
    inversion Heq; subst t0 c0 r0.
    destruct (refused_step s l t c Hc) as (A & B); [rewrite Et; simpl; rewrite E1; reflexivity|].
    split; auto. intros Hcl. apply (B Hcl).
Qed.

(** ---- the statements used by Props/C16.v ---- *)
Theorem flag_closed a b c d ls :
  let s := run_labels (init_state a b c d) ls in
  cont_closed s = true -> enabled_of (trace s) = Some false.
Proof.
  intros s Hcl. destruct (CI_reachable a b c d ls) as (_ & _ & HC). fold s in HC. unfold CI in HC.
  destruct (nl_started s).
  - apply (cj_off _ HC Hcl).
  - destruct (PS_plugins _ HC) as (_ & E & _). congruence.
Qed.

Lemma cpubs_app x y : cpubs (x ++ y) = cpubs x ++ cpubs y.
Proof.
  induction x as [|e x IH]; simpl; auto. destruct e; auto. destruct p; auto. simpl. rewrite IH. reflexivity.
Qed.

Lemma in_cpubs b tr : In (EvPub (PCont b)) tr -> In b (cpubs tr).
Proof.
  induction tr as [|e tr IH]; simpl; auto. intros [-> | Hin]; [left; reflexivity|].
  destruct e; auto. destruct p; auto. right. auto.
Qed.

(** a step from a state in which the continuous item is closed publishes nothing on the flag *)
Theorem closed_step_silent a b c d ls l b0 :
  let s := run_labels (init_state a b c d) ls in
  cont_closed s = true -> ~ In (EvPub (PCont b0)) (appended s (step s l)).
Proof.
  intros s Hcl Hin. destruct (CI_reachable a b c d ls) as (HL & HF & HC). fold s in HL, HF, HC.
  pose proof (K_reachable a b c d ls) as HK. fold s in HK.
  destruct (closed_step s l HL HF HC HK Hcl) as (E & _).
  destruct (step_trace_grows s l) as (new & En).
  rewrite (appended_new _ _ _ En) in Hin. apply in_rev in Hin. apply in_cpubs in Hin.
  rewrite En, cpubs_app in E.
  assert (Hn : cpubs new = []).
  { apply (f_equal (@length _)) in E. rewrite app_length in E. destruct (cpubs new); auto. simpl in E. lia. }
  rewrite Hn in Hin. destruct Hin.
Qed.

Theorem refused_reachable a b c d ls l t c0 :
  let s := run_labels (init_state a b c d) ls in
  let s' := step s l in
  is_cont c0 = true -> In (EvRet t c0 RMachineError) (appended s s') ->
  ~ In (t, false) (cont_plugins s') /\
  (cont_closed s' = false -> enabled_of (trace s') = Some (nonempty (cont_plugins s'))) /\
  (cont_closed s' = true -> enabled_of (trace s') = Some false) /\
  (cont_plugins s' = [] -> enabled_of (trace s') = Some false) /\
  (cont_closed s = true -> forall b0, ~ In (EvPub (PCont b0)) (appended s s')).
Proof.
  intros s s' Hc Hin. destruct (refused_appended s l t c0 Hc Hin) as (A & B).
  fold s' in A, B.
  assert (Hoff : cont_closed s' = true -> enabled_of (trace s') = Some false).
  { intros Hcl. assert (Es : s' = run_labels (init_state a b c d) (ls ++ [l])).
    { unfold s', s, run_labels. rewrite fold_left_app. reflexivity. }
    rewrite Es in *. apply flag_closed. exact Hcl. }
  repeat split; auto.
  - intros E. destruct (cont_closed s') eqn:Ecl; auto. rewrite (B eq_refl), E. reflexivity.
  - intros Hcl b0. apply closed_step_silent. exact Hcl.
Qed.

Theorem plain_run_never_auto a b c d ls :
  let s := run_labels (init_state a b c d) ls in
  run_cont s = false -> runt s <> None -> forall x, In x (cont_plugins s) -> snd x = false.
Proof. intros s Hrc _. apply plain_run_reachable. exact Hrc. Qed.

Theorem started_own_run a b c d ls t :
  let s := run_labels (init_state a b c d) ls in
  In (t, true) (cont_plugins s) -> t = run_owner s /\ run_cont s = true /\ mid (runt s) = true.
Proof. intros s Hin. destruct (cont_inv_reachable a b c d ls) as (_ & _ & H & _). apply H. exact Hin. Qed.

Theorem closed_request_reachable a b c d ls t c0 :
  let s := run_labels (init_state a b c d) ls in
  cont_closed s = true -> is_cont c0 = true -> find_task (tasks s) t = None ->
  step s (Call t c0) =
  set_trace (set_tasks s (remove_task (tasks s) t)) (EvRet t c0 RRuntimeError :: EvCall t c0 :: trace s).
Proof. intros s. apply closed_request. Qed.

(** ================================================================== *)
(** The converse invariant: a continue request that is pending or whose run
    is in progress HAS its plugin registered (so the flag is true then). *)
Record CK (s : state) : Prop := mkCK {
  ck_wait : forall t c p, find_task (tasks s) t = Some (c, p) -> is_cont c = true ->
            p = WaitLock1 \/ p = Granted1 -> In (t, false) (cont_plugins s);
  ck_owner : fresh (runt s) = true ->
             exists c, find_task (tasks s) (run_owner s) = Some (c, R_WaitStarted) /\ is_cont c = run_cont s;
  ck_acc : fresh (runt s) = true -> run_cont s = true -> In (run_owner s, false) (cont_plugins s);
  ck_run : mid (runt s) = true -> run_cont s = true -> In (run_owner s, true) (cont_plugins s);
  ck_ev : fresh (runt s) = true -> started_ev s = false
}.

Lemma find_rel_tasks_bwd q ts t' c p' :
  find_task (rel_tasks q ts) t' = Some (c, p') ->
  exists p, find_task ts t' = Some (c, p) /\ (p' = p \/ (waitlock p = true /\ p' = granted_pc p)).
Proof.
  unfold rel_tasks. destruct q as [|t1 q]; [eauto|].
  destruct (find_task ts t1) as [[c1 p1]|] eqn:E1; [|eauto].
  destruct (Nat.eq_dec t' t1) as [->|Hn].
  - rewrite find_put_eq. intros H. inversion H; subst. exists p1. split; auto.
    destruct (waitlock p1) eqn:Ew; auto. left. destruct p1; simpl in *; try discriminate; reflexivity.
  - rewrite find_put_neq by assumption. eauto.
Qed.

Definition tback (ts ts' : ttab) (t : nat) : Prop :=
  forall t' c p', t' <> t -> find_task ts' t' = Some (c, p') ->
  exists p, find_task ts t' = Some (c, p) /\ (p' = p \/ (waitlock p = true /\ p' = granted_pc p)).

Lemma HRes_tback s t s' : HRes s t s' -> tback (tasks s) (tasks s') t.
Proof.
  intros [(_ & _ & c & p & _ & _ & E) | [(_ & _ & E) | (_ & _ & c & p & _ & _ & _ & E)]] t' c' p' Hn; rewrite E.
  - rewrite find_put_neq by assumption. eauto.
  - rewrite find_remove_neq by assumption. apply find_rel_tasks_bwd.
  - rewrite find_put_neq by assumption. apply find_rel_tasks_bwd.
Qed.

Lemma wait_back p p0 : p = WaitLock1 \/ p = Granted1 ->
  p = p0 \/ (waitlock p0 = true /\ p = granted_pc p0) -> p0 = WaitLock1 \/ p0 = Granted1.
Proof.
  intros Hp [<- | (Hw & E)]; auto. destruct p0; simpl in *; try discriminate; auto;
    destruct Hp; subst; discriminate.
Qed.

(** the new pc of the task that moved is not one of the pending ones *)
Definition own_ok (ts' : ttab) (t : nat) : Prop :=
  forall c p, find_task ts' t = Some (c, p) -> pend_pcb p = false.

Definition ckv (s : state) := (cont_plugins s, run_owner s, run_cont s, runt s, started_ev s).

Lemma CK_frame s s' t c p :
  CK s -> find_task (tasks s) t = Some (c, p) ->
  tstep (tasks s) (tasks s') t -> tback (tasks s) (tasks s') t -> own_ok (tasks s') t ->
  ckv s' = ckv s -> p <> R_WaitStarted \/ started_ev s = true -> CK s'.
Proof.
  intros [k1 k2 k3 k4 k5] Hf Hfw Hbw Hown E Hp.
  unfold ckv in E. inversion E as [[E1 E2 E3 E4 E5]].
  constructor; rewrite ?E1, ?E2, ?E3, ?E4, ?E5; auto.
  - intros t' c' p' Hf' Hc' Hp'. destruct (Nat.eq_dec t' t) as [->|Hn].
    + pose proof (Hown _ _ Hf') as Ho. destruct Hp' as [-> | ->]; discriminate.
    + destruct (Hbw _ _ _ Hn Hf') as (p0 & Hf0 & Hr). eapply k1; eauto. eapply wait_back; eauto.
  - intros Hfr. destruct (k2 Hfr) as (c0 & Hf0 & Hc0). exists c0. split; auto.
    destruct (Nat.eq_dec (run_owner s) t) as [Heq|Hn].
    + rewrite Heq, Hf in Hf0. inversion Hf0; subst. destruct Hp as [Hp | Hp]; [congruence|].
      rewrite (k5 Hfr) in Hp. discriminate.
    + destruct (Hfw _ _ _ Hn Hf0) as (p' & Hf' & [-> | ->]); exact Hf'.
Qed.

Lemma CK_holder_neutral s s' t c p :
  CK s -> find_task (tasks s) t = Some (c, p) -> HRes s t s' -> own_ok (tasks s') t ->
  ckv s' = ckv s -> p <> R_WaitStarted \/ started_ev s = true -> CK s'.
Proof.
  intros HK Hf HR Hown E Hp. eapply CK_frame; eauto; [apply HRes_tstep | apply HRes_tback]; auto.
Qed.

Ltac own_tac :=
  let c' := fresh "c'" in let p' := fresh "p'" in let Hf' := fresh "Hf'" in
  intros c' p' Hf'; simpl in Hf'; rewrite ?release_tasks, ?apply_rest_tasks in Hf'; simpl in Hf';
  rewrite ?find_remove_eq, ?find_put_eq in Hf'; first [discriminate | inversion Hf'; reflexivity].

Ltac kneutral tac :=
  eapply CK_holder_neutral;
  [ eassumption | eassumption | tac | own_tac | unfold ckv; cv_simpl; reflexivity
  | first [left; discriminate | left; assumption | right; assumption] ].

Lemma unreg_keeps t l x : In x l -> fst x <> t \/ snd x = true -> In x (filter (unreg_pred t) l).
Proof.
  intros Hin Hor. apply filter_In. split; auto. unfold unreg_pred. destruct x as [t' b]. simpl in *.
  destruct Hor as [Hn | ->]; [|rewrite Bool.andb_false_r; reflexivity].
  apply Nat.eqb_neq in Hn. rewrite Hn. reflexivity.
Qed.

Lemma CK_unreg s s' t c G :
  CK s -> find_task (tasks s) t = Some (c, G) -> G <> R_WaitStarted -> HRes s t s' ->
  find_task (tasks s') t = None ->
  cont_plugins s' = filter (unreg_pred t) (cont_plugins s) ->
  run_owner s' = run_owner s -> run_cont s' = run_cont s -> runt s' = runt s -> started_ev s' = started_ev s ->
  CK s'.
Proof.
  intros [k1 k2 k3 k4 k5] Hf HG HR Hnone Ep E2 E3 E4 E5.
  assert (Hown : fresh (runt s) = true -> run_owner s <> t).
  { intros Hfr Heq. destruct (k2 Hfr) as (c0 & Hf0 & _). rewrite Heq, Hf in Hf0. congruence. }
  constructor; rewrite ?Ep, ?E2, ?E3, ?E4, ?E5; auto.
  - intros t' c' p' Hf' Hc' Hp'. assert (Hn : t' <> t) by (intros ->; congruence).
    destruct (HRes_tback _ _ _ HR _ _ _ Hn Hf') as (p0 & Hf0 & Hr).
    apply unreg_keeps; [|left; exact Hn]. eapply k1; eauto. eapply wait_back; eauto.
  - intros Hfr. destruct (k2 Hfr) as (c0 & Hf0 & Hc0). exists c0. split; auto.
    destruct (HRes_tstep _ _ _ HR _ _ _ (Hown Hfr) Hf0) as (p' & Hf' & [-> | ->]); exact Hf'.
  - intros Hfr Hrc. apply unreg_keeps; auto.
  - intros Hm Hrc. apply unreg_keeps; auto.
Qed.

Lemma CK_refuse s t c G :
  CK s -> find_task (tasks s) t = Some (c, G) -> G <> R_WaitStarted -> CK (refuse s t c).
Proof.
  intros HK Hf HG. unfold refuse. destruct (is_cont c) eqn:Ec.
  - destruct (cont_closed (release s)).
    + eapply CK_unreg; eauto; try (cv_simpl; reflexivity).
      * relfin.
      * simpl. apply find_remove_eq.
    + eapply CK_unreg; eauto; try (cv_simpl; reflexivity).
      * relfin.
      * simpl. apply find_remove_eq.
  - eapply CK_holder_neutral; eauto.
    + relfin.
    + own_tac.
    + unfold ckv. cv_simpl. reflexivity.
Qed.

Lemma CK_enter_run s t c :
  FI s -> CK s -> find_task (tasks s) t = Some (c, Granted1) -> CK (enter_run s t c).
Proof.
  intros HF HK Hf. unfold enter_run.
  destruct (st_fsm s) eqn:Efs; try (eapply CK_refuse; eauto; discriminate).
  assert (Hr : runt s = None).
  { destruct HF as [_ HS]. eapply Scal_idle; eauto; rewrite Efs; discriminate. }
  pose proof HK as [k1 k2 k3 k4 k5].
  constructor; simpl; auto; try discriminate.
  - intros t' c' p' Hf' Hc' Hp'. destruct (Nat.eq_dec t' t) as [->|Hn].
    + rewrite find_put_eq in Hf'. inversion Hf'; subst. destruct Hp'; discriminate.
    + rewrite find_put_neq in Hf' by assumption. eauto.
  - intros _. exists c. rewrite find_put_eq. auto.
  - intros _ Hc. eapply k1; eauto.
Qed.

Lemma CK_close_trigger s t p :
  CK s -> find_task (tasks s) t = Some (CClose, p) -> p <> R_WaitStarted \/ started_ev s = true ->
  CK (close_trigger s t).
Proof.
  intros HK Hf Hp. pose proof (HRes_close_trigger s t) as HR. unfold close_trigger in *.
  destruct (st_fsm s); try destruct (runt s);
    (eapply CK_holder_neutral; [eassumption | eassumption | exact HR | own_tac | unfold ckv; cv_simpl; reflexivity | exact Hp]).
Qed.

Lemma CK_pub_endall s : CK s -> CK (publish s PEndAll).
Proof. intros [k1 k2 k3 k4 k5]. constructor; auto. Qed.

Lemma CK_enter_close s t p :
  CK s -> find_task (tasks s) t = Some (CClose, p) -> p <> R_WaitStarted \/ started_ev s = true ->
  CK (enter_close s t).
Proof.
  intros HK Hf Hp. unfold enter_close. pose proof (CK_pub_endall _ HK) as HK1.
  destruct (st_fsm (publish s PEndAll)); try (eapply CK_close_trigger; eauto; fail).
  destruct (run_finished (publish s PEndAll)) as [[|]|].
  - eapply CK_close_trigger; eauto.
  - eapply CK_holder_neutral; [exact HK | exact Hf | hput CClose C_WaitRunFinished | own_tac
                              | unfold ckv; cv_simpl; reflexivity | exact Hp].
  - eapply (CK_holder_neutral (publish s PEndAll)); [exact HK1 | exact Hf | relfin | own_tac
                              | unfold ckv; cv_simpl; reflexivity | exact Hp].
Qed.

Lemma CK_enter (s : state) (t : nat) (c : call) (part2 : bool) :
  LkS s -> FI s -> CK s ->
  find_task (tasks s) t = Some (c, if part2 then Granted2 else Granted1) ->
  CK (enter s t c part2).
Proof.
  intros HL HF HK Hf. unfold enter.
  pose proof (lk_compat _ _ _ HL _ _ _ Hf) as Hc.
  assert (HG : (if part2 then Granted2 else Granted1) <> R_WaitStarted) by (destruct part2; discriminate).
  assert (Hrun : runlike c = true -> CK (enter_run s t c)).
  { intros Hrl. destruct part2; [destruct c; discriminate|]. apply CK_enter_run; auto. }
  destruct c; auto.
  - unfold enter_start. destruct (st_fsm s); try (eapply CK_refuse; eauto; fail).
    kneutral ltac:(hput CStart S_G1).
  - unfold enter_reset. destruct (st_fsm s); try (eapply CK_refuse; eauto; fail);
      (destruct (o_stmt o); [kneutral ltac:(hput (CReset o) Z_G1) | kneutral ltac:(hput (CReset o) Z_G1b)]).
  - destruct part2; [eapply CK_enter_close; eauto; left; discriminate|].
    unfold enter_start. destruct (st_fsm s); try (eapply CK_refuse; eauto; fail).
    kneutral ltac:(hput CClose S_G1).
Qed.

Lemma CK_ext s s' : tasks s' = tasks s -> ckv s' = ckv s -> CK s -> CK s'.
Proof.
  intros Et E [k1 k2 k3 k4 k5]. unfold ckv in E. inversion E as [[E1 E2 E3 E4 E5]].
  constructor; rewrite ?Et, ?E1, ?E2, ?E3, ?E4, ?E5; auto.
Qed.

Lemma CK_acquire (s : state) (t : nat) (c : call) (part2 : bool) :
  LkS s -> FI s -> find_task (tasks s) t = None ->
  compat c (if part2 then Granted2 else Granted1) = true ->
  CK (set_pc s t c (if part2 then WaitLock2 else WaitLock1)) ->
  CK (set_pc s t c (if part2 then Granted2 else Granted1)) ->
  CK (acquire s t c part2).
Proof.
  intros HL HF Hnew Hc HW HG. unfold acquire.
  destruct (holder s) as [h|] eqn:Eh.
  - eapply CK_ext; [| | exact HW]; reflexivity.
  - destruct (lockq s) as [|t1 q] eqn:Eq.
    + set (G := if part2 then Granted2 else Granted1) in *.
      set (s2 := set_pc (set_holder s (Some t)) t c G).
      assert (HL2 : LkS s2).
      { unfold LkS, s2. simpl. rewrite Eq. unfold LkS in HL. rewrite Eh, Eq in HL.
        apply Lk_take; auto. unfold G. destruct part2; reflexivity. }
      assert (HF2 : FI s2).
      { destruct HF as [HP HS]. split; auto. unfold s2. simpl. apply PcOk_put; auto.
        unfold G. destruct part2; reflexivity. }
      assert (HK2 : CK s2) by (eapply CK_ext; [| | exact HG]; reflexivity).
      apply CK_enter; auto. unfold s2. simpl. apply find_put_eq.
    + eapply CK_ext; [| | exact HW]; reflexivity.
Qed.

(** a new entry for a task that was not in the table *)
Lemma CK_new_task s s1 t c p :
  CK s -> find_task (tasks s) t = None -> tasks s1 = tasks s ->
  run_owner s1 = run_owner s -> run_cont s1 = run_cont s -> runt s1 = runt s -> started_ev s1 = started_ev s ->
  (forall x, In x (cont_plugins s) -> In x (cont_plugins s1)) ->
  (is_cont c = true -> p = WaitLock1 \/ p = Granted1 -> In (t, false) (cont_plugins s1)) ->
  CK (set_pc s1 t c p).
Proof.
  intros [k1 k2 k3 k4 k5] Hnew Et E2 E3 E4 E5 Hincl Hreg.
  constructor; simpl; rewrite ?Et, ?E2, ?E3, ?E4, ?E5; auto.
  - intros t' c' p' Hf' Hc' Hp'. destruct (Nat.eq_dec t' t) as [->|Hn].
    + rewrite find_put_eq in Hf'. inversion Hf'; subst. auto.
    + rewrite find_put_neq in Hf' by assumption. eauto.
  - intros Hfr. destruct (k2 Hfr) as (c0 & Hf0 & Hc0). exists c0. split; auto.
    rewrite find_put_neq; auto. intros Heq. congruence.
Qed.

Lemma CK_finish_free s s1 t c r :
  CK s -> tasks s1 = tasks s -> ckv s1 = ckv s ->
  (forall c0 p0, find_task (tasks s) t = Some (c0, p0) -> p0 <> R_WaitStarted) ->
  CK (finish_call s1 t c r).
Proof.
  intros [k1 k2 k3 k4 k5] Et E Hnr. unfold ckv in E. inversion E as [[E1 E2 E3 E4 E5]].
  constructor; simpl; rewrite ?Et, ?E1, ?E2, ?E3, ?E4, ?E5; auto.
  - intros t' c' p' Hf' Hc' Hp'. destruct (Nat.eq_dec t' t) as [->|Hn].
    + rewrite find_remove_eq in Hf'. discriminate.
    + rewrite find_remove_neq in Hf' by assumption. eauto.
  - intros Hfr. destruct (k2 Hfr) as (c0 & Hf0 & Hc0). exists c0. split; auto.
    rewrite find_remove_neq; auto. intros Heq. rewrite Heq in Hf0. apply (Hnr _ _ Hf0). reflexivity.
Qed.

Ltac knew s :=
  apply (CK_new_task s); simpl; auto;
  try (intros; discriminate);
  try (intros; apply in_or_app; auto; fail);
  try (intros; apply in_or_app; right; left; reflexivity).

Lemma CK_do_call s t c : LkS s -> FI s -> CK s -> CK (do_call s t c).
Proof.
  intros HL HF HK. unfold do_call. destruct (find_task (tasks s) t) as [x|] eqn:Ef; auto.
  assert (Hnr : forall c0 p0, find_task (tasks s) t = Some (c0, p0) -> p0 <> R_WaitStarted) by (intros; congruence).
  destruct c; cbn [nl_started nl_closed cont_closed running_process send_command set_trace].
  - destruct (nl_started s); [apply (CK_finish_free s); auto|].
    apply CK_acquire; [exact HL | exact HF | exact Ef | reflexivity | knew s | knew s].
  - apply CK_acquire; [exact HL | exact HF | exact Ef | reflexivity | knew s | knew s].
  - apply CK_acquire; [exact HL | exact HF | exact Ef | reflexivity | knew s | knew s].
  - destruct (nl_closed s); [apply (CK_finish_free s); auto|]. simpl.
    destruct (nl_started s);
      (apply CK_acquire; [exact HL | exact HF | exact Ef | reflexivity | knew s | knew s]).
  - destruct (cont_closed s); [apply (CK_finish_free s); auto|].
    apply CK_acquire; [exact HL | exact HF | exact Ef | reflexivity | knew s | knew s].
  - destruct (cont_closed s); [apply (CK_finish_free s); auto|].
    apply CK_acquire; [exact HL | exact HF | exact Ef | reflexivity | knew s | knew s].
  - apply CK_acquire; [exact HL | exact HF | exact Ef | reflexivity | knew s | knew s].
  - destruct (running_process s); [knew s | apply (CK_finish_free s); auto].
  - destruct (send_command s); [knew s | apply (CK_finish_free s); auto].
Qed.

Lemma tback_rel_put q ts t x : tback ts (put_task (rel_tasks q ts) t x) t.
Proof. intros u c p Hn Hf. rewrite find_put_neq in Hf by assumption. apply find_rel_tasks_bwd in Hf. exact Hf. Qed.

Lemma CK_requeue s t :
  LkS s -> FI s -> CK s -> holder s = Some t -> find_task (tasks s) t = Some (CClose, S_G3) ->
  CK (acquire (release s) t CClose true).
Proof.
  intros HL HF HK Hh Hf. pose proof HF as [HP HS].
  pose proof HL as HL0. unfold LkS in HL0. rewrite Hh in HL0.
  pose proof (Lk_release_forget _ _ _ HL0) as HFg.
  assert (HSr : Scal (st_fsm (release s)) (runt (release s)) (run_finished (release s)) (alive (release s))
                     (pending_exit (release s)) (run_arg (release s))).
  { rewrite rl_fsm, rl_runt, rl_rf, rl_alive, rl_pe, rl_ra. exact HS. }
  assert (Hgen : forall s', tasks s' = put_task (tasks (release s)) t (CClose, WaitLock2) \/
                            tasks s' = put_task (tasks (release s)) t (CClose, Granted2) ->
                            ckv s' = ckv (release s) -> CK s').
  { intros s' Et E. eapply (CK_frame s s' t); eauto.
    - rewrite release_tasks in Et. destruct Et as [-> | ->]; apply tstep_rel_put.
    - rewrite release_tasks in Et. destruct Et as [-> | ->]; apply tback_rel_put.
    - intros c' p' Hf'. destruct Et as [Et | Et]; rewrite Et, find_put_eq in Hf'; inversion Hf'; reflexivity.
    - rewrite E. unfold ckv. cv_simpl. reflexivity.
    - left. discriminate. }
  unfold acquire. rewrite release_holder, release_lockq.
  destruct (rel_holder (lockq s)) as [h|] eqn:Eh.
  - apply Hgen; auto.
  - destruct (tl (lockq s)) as [|t1 q] eqn:Eq.
    + set (s2 := set_pc (set_holder (release s) (Some t)) t CClose Granted2).
      assert (HL2 : LkS s2).
      { unfold LkS, s2. simpl. rewrite ?release_lockq, ?release_tasks, ?Eq. apply Lk_readd_take; auto. }
      assert (HF2 : FI s2).
      { split; auto. unfold s2. simpl. rewrite release_tasks. apply PcOk_release_put; auto. }
      assert (HK2 : CK s2) by (apply Hgen; auto).
      apply (CK_enter s2 t CClose true); auto. unfold s2. simpl. apply find_put_eq.
    + apply Hgen; auto.
Qed.

Lemma CK_do_step s t : LkS s -> FI s -> CK s -> CK (do_step s t).
Proof.
  intros HL HF HK. unfold do_step. destruct (find_task (tasks s) t) as [[c p]|] eqn:Ef; auto.
  pose proof (lk_compat _ _ _ HL _ _ _ Ef) as Hc.
  assert (Hhold : locked_pc p = true -> holder s = Some t) by (intros Hl; eapply (lk_holder_of _ _ _ HL); eauto).
  destruct p; simpl in Hhold; try specialize (Hhold eq_refl); auto.
  - apply (CK_enter s t c false); auto.
  - apply (CK_enter s t c true); auto.
  - kneutral ltac:(hput c S_G2).
  - kneutral ltac:(hput c S_G3).
  - destruct c; simpl in Hc; try discriminate.
    + kneutral relfin.
    + apply CK_requeue; auto.
  - destruct (started_ev s) eqn:Esv; auto. kneutral ltac:(hput c R_G).
  - destruct c; simpl in Hc; try discriminate; try (kneutral relfin; fail);
      (kneutral ltac:(right; right; simpl; rewrite release_holder, release_lockq, release_tasks;
                      repeat split; auto;
                      match goal with E : find_task _ _ = Some (?c0, _) |- _ => apply (ex_intro _ c0) end;
                      exists P_WaitRunFinished; simpl; auto)).
  - destruct c; simpl in Hc; try discriminate. kneutral ltac:(hput (CReset o) Z_G1b).
  - destruct (st_fsm s); try (kneutral ltac:(hput c Z_G3); fail).
    destruct (runt s); [kneutral ltac:(hput c Z_WaitRunTask) | kneutral ltac:(hput c Z_G3)].
  - destruct (runt s); auto. kneutral ltac:(hput c Z_G3).
  - kneutral ltac:(hput c Z_G4).
  - kneutral relfin.
  - destruct (run_finished s) as [[|]|]; auto.
    destruct c; simpl in Hc; try discriminate. eapply CK_close_trigger; eauto. left. discriminate.
  - destruct (runt s); auto. destruct c; simpl in Hc; try discriminate. kneutral ltac:(hput CClose C_G3).
  - kneutral ltac:(hput c C_G4).
  - kneutral relfin.
  - destruct (run_finished s) as [[|]|]; auto. apply (CK_finish_free s); auto.
    intros c0 p0 Hf0. rewrite Ef in Hf0. inversion Hf0. discriminate.
  - apply (CK_finish_free s); auto. intros c0 p0 Hf0. rewrite Ef in Hf0. inversion Hf0. discriminate.
Qed.

Lemma CK_run_step s s' :
  CK s -> tasks s' = tasks s -> cont_plugins s' = cont_plugins s ->
  run_owner s' = run_owner s -> run_cont s' = run_cont s ->
  (fresh (runt s') = true -> fresh (runt s) = true /\ started_ev s' = started_ev s) ->
  (mid (runt s') = true -> mid (runt s) = true) -> CK s'.
Proof.
  intros [k1 k2 k3 k4 k5] Et Ep E2 E3 Hfr Hm.
  constructor; rewrite ?Et, ?Ep, ?E2, ?E3; auto.
  - intros H. destruct (Hfr H). auto.
  - intros H. destruct (Hfr H). auto.
  - intros H. destruct (Hfr H) as (H1 & ->). auto.
Qed.

Lemma arm_keeps r o l t : In (t, false) l -> t <> o -> In (t, false) (arm r o l).
Proof.
  intros Hin Hn. unfold arm. apply in_map_iff. exists (t, false). split; auto. simpl.
  apply Nat.eqb_neq in Hn. rewrite Hn, Bool.andb_false_r. reflexivity.
Qed.

Lemma arm_owner o l : In (o, false) l -> In (o, true) (arm true o l).
Proof.
  intros Hin. unfold arm. apply in_map_iff. exists (o, false). split; auto. simpl.
  rewrite Nat.eqb_refl. reflexivity.
Qed.

Lemma CK_arm s s3 :
  CK s -> runt s = Some RT_Created -> tasks s3 = tasks s ->
  run_owner s3 = run_owner s -> run_cont s3 = run_cont s ->
  CK (set_runt (set_cont_plugins s3 (arm (run_cont s) (run_owner s) (cont_plugins s))) (Some RT_G_start)).
Proof.
  intros [k1 k2 k3 k4 k5] Hr Et E2 E3. rewrite Hr in *.
  destruct (k2 eq_refl) as (c0 & Hf0 & Hc0).
  constructor; simpl; rewrite ?Et, ?E2, ?E3; auto; try discriminate.
  - intros t c p Hf Hc Hp. apply arm_keeps; eauto.
    intros ->. rewrite Hf0 in Hf. inversion Hf; subst. destruct Hp; discriminate.
  - intros _ Hrc. rewrite Hrc. apply arm_owner. auto.
Qed.

Lemma CK_after_finish s s3 n :
  CK s -> runt s = Some RT_G_end -> tasks s3 = tasks s -> cont_plugins s3 = cont_plugins s ->
  (length (cont_plugins s3) <= n)%nat ->
  CK (set_runt (cont_finished s3 n) (Some RT_G_fin)).
Proof.
  intros [k1 k2 k3 k4 k5] Hr Et Ep Hn.
  destruct (cfv_fields _ _ (cf_fields n s3)) as (_ & _ & _ & _ & _ & _ & _ & E8).
  assert (Epl : cont_plugins (cont_finished s3 n) = filter unstarted (cont_plugins s)).
  { rewrite cf_plugins; [rewrite Ep; reflexivity|]. pose proof (filter_length_le (fun x : nat * bool => snd x) (cont_plugins s3)). lia. }
  constructor; simpl; try discriminate.
  intros t c p Hf Hc Hp. rewrite Epl. apply filter_In. split; [|reflexivity].
  rewrite E8, Et in Hf. eauto.
Qed.

Lemma CK_step_run s : FI s -> CK s -> CK (do_step_run s).
Proof.
  intros HF HK. pose proof HF as [HP HS].
  unfold do_step_run. destruct (runt s) as [x|] eqn:Er; auto.
  assert (Hra : early x = true -> run_arg s <> None).
  { intros He. apply (sc_ra _ _ _ _ _ _ HS). right. eapply sc_early; eauto. }
  destruct x.
  - destruct (run_arg s) eqn:Era; [|exfalso; apply Hra; auto].
    apply (CK_run_step s); simpl; auto; rewrite Er; simpl; auto.
  - simpl. destruct (run_arg s) eqn:Era; [|exfalso; apply Hra; auto].
    apply (CK_arm s); auto.
  - apply (CK_run_step s); simpl; auto; rewrite Er; simpl; auto; discriminate.
  - destruct (run_call_pending s); auto. destruct (pending_exit s) as [o|] eqn:Epe; auto.
    simpl. destruct (run_arg s) eqn:Era; [|exfalso; apply Hra; auto].
    apply (CK_run_step s); simpl; auto; rewrite Er; simpl; auto; discriminate.
  - pose proof (sc_early _ _ _ _ _ _ HS _ eq_refl eq_refl) as Hfs.
    unfold run_finish. simpl. rewrite Hfs. apply (CK_after_finish s); auto.
  - apply (CK_run_step s); simpl; auto; rewrite Er; simpl; auto; discriminate.
  - apply (CK_run_step s); simpl; auto; rewrite Er; simpl; auto; discriminate.
Qed.

Theorem CK_step s l : LkS s -> FI s -> CK s -> CK (step s l).
Proof.
  intros HL HF HK. destruct l; simpl.
  - apply CK_do_call; auto.
  - apply CK_do_step; auto.
  - apply CK_step_run; auto.
  - unfold do_child_exit. destruct (alive s); auto. eapply CK_ext; [| | exact HK]; reflexivity.
Qed.

Lemma CK_init a b c d : CK (init_state a b c d).
Proof. constructor; simpl; try discriminate. Qed.

Theorem CK_reachable a b c d ls : CK (run_labels (init_state a b c d) ls).
Proof.
  assert (H : LkS (run_labels (init_state a b c d) ls) /\ FI (run_labels (init_state a b c d) ls) /\
              CK (run_labels (init_state a b c d) ls)).
  { unfold run_labels. generalize (LkS_init a b c d) (FI_init a b c d) (CK_init a b c d).
    generalize (init_state a b c d).
    induction ls as [|l ls IH]; intros s HL HF HK; simpl; auto.
    apply IH; [apply LkS_step | apply FI_step | apply CK_step]; auto. }
  apply H.
Qed.

(** a continue request is "active": its call waits for / has just got the lock, or
    it was accepted and its run has not yet performed on_finished *)
Definition active (s : state) : Prop :=
  (exists t c p, find_task (tasks s) t = Some (c, p) /\ is_cont c = true /\ (p = WaitLock1 \/ p = Granted1)) \/
  (run_cont s = true /\ (fresh (runt s) = true \/ mid (runt s) = true)).

Theorem registered_reachable a b c d ls :
  let s := run_labels (init_state a b c d) ls in
  (forall t c0 p, find_task (tasks s) t = Some (c0, p) -> is_cont c0 = true ->
                  p = WaitLock1 \/ p = Granted1 -> In (t, false) (cont_plugins s)) /\
  (run_cont s = true -> fresh (runt s) = true -> In (run_owner s, false) (cont_plugins s)) /\
  (run_cont s = true -> mid (runt s) = true -> In (run_owner s, true) (cont_plugins s)).
Proof.
  intros s. destruct (CK_reachable a b c d ls) as [k1 k2 k3 k4 k5]. fold s in k1, k2, k3, k4, k5.
  repeat split; auto.
Qed.

Lemma active_plugins s : CK s -> active s -> cont_plugins s <> [].
Proof.
  intros [k1 k2 k3 k4 k5] [(t & c & p & Hf & Hc & Hp) | (Hrc & [Hfr | Hm])] E.
  - pose proof (k1 _ _ _ Hf Hc Hp) as Hin. rewrite E in Hin. destruct Hin.
  - pose proof (k3 Hfr Hrc) as Hin. rewrite E in Hin. destruct Hin.
  - pose proof (k4 Hm Hrc) as Hin. rewrite E in Hin. destruct Hin.
Qed.

Lemma plugins_active s : cont_inv s -> cont_plugins s <> [] -> active s.
Proof.
  intros (Hp & _ & Hr & _) Hne. destruct (cont_plugins s) as [|[t b] l] eqn:E; [congruence|].
  destruct b.
  - destruct (Hr t (or_introl eq_refl)) as (_ & Hrc & Hm). right. auto.
  - destruct (Hp t (or_introl eq_refl)) as (c & p & Hf & Hc & [-> | [-> | (_ & _ & Hrc & Hfr)]]).
    + left. exists t, c, WaitLock1. auto.
    + left. exists t, c, Granted1. auto.
    + right. auto.
Qed.

(** the flag, exactly: true while a continue request is active, false otherwise *)
Theorem flag_exact a b c d ls :
  let s := run_labels (init_state a b c d) ls in
  nl_started s = true -> cont_closed s = false ->
  (active s -> enabled_of (trace s) = Some true) /\
  (~ active s -> enabled_of (trace s) = Some false).
Proof.
  intros s Hst Hcl. destruct (flag_reachable a b c d ls) as (Hfl & _). fold s in Hfl.
  rewrite (Hfl Hst Hcl).
  pose proof (CK_reachable a b c d ls) as HK. pose proof (cont_inv_reachable a b c d ls) as HI.
  fold s in HK, HI. split; intros Ha.
  - pose proof (active_plugins _ HK Ha) as Hne. destruct (cont_plugins s); [congruence | reflexivity].
  - destruct (cont_plugins s) eqn:E; [reflexivity|]. exfalso. apply Ha. apply plugins_active; auto.
    rewrite E. discriminate.
Qed.

(** a continue request that was waiting for the lock when the object got closed:
    once it is given the lock it is refused with MachineError and nothing is published *)
Theorem refused_after_close a b c d ls t c0 :
  let s := run_labels (init_state a b c d) ls in
  cont_closed s = true -> is_cont c0 = true -> find_task (tasks s) t = Some (c0, Granted1) ->
  let s' := step s (Step t) in
  trace s' = EvRet t c0 RMachineError :: trace s /\
  ~ In (t, false) (cont_plugins s') /\ find_task (tasks s') t = None /\ cont_closed s' = true.
Proof.
  intros s Hcl Hc Hf s'. destruct (CI_reachable a b c d ls) as (_ & _ & HC). fold s in HC. unfold CI in HC.
  assert (Hfs : st_fsm s = Closed).
  { destruct (nl_started s); [apply (cj_closed _ HC Hcl)|].
    destruct (PS_plugins _ HC) as (_ & E & _). congruence. }
  assert (Es : s' = finish_call (unregister_cont (release s) t) t c0 RMachineError).
  { unfold s'. simpl. unfold do_step. rewrite Hf.
    destruct c0; try discriminate; simpl; unfold enter_run; rewrite Hfs; unfold refuse; simpl;
      rewrite rl_closed, Hcl; reflexivity. }
  rewrite Es. simpl. rewrite rl_trace, rl_plugins, rl_closed. repeat split; auto.
  - apply unreg_not_in.
  - apply find_remove_eq.
Qed.
