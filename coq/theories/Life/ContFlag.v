(** C16: the `continuous enabled` flag and the Continue plugins.
    Invariant [cont_inv] of the lifecycle model (Life/Model.v) relating the
    registered plugins [cont_plugins] to the calls in flight and to the run
    task, and the history theorems that follow from it. *)
From NL Require Import Life.Model Life.LockInv Life.FsmInv Life.Hist.
From Coq Require Import Lia.

(** ---- vocabulary ---- *)
Definition nonempty {A} (l : list A) : bool := match l with [] => false | _ :: _ => true end.

(** the run task has been created but `on_start_run` has not run yet *)
Definition fresh (r : option rpc) : bool :=
  match r with Some RT_New | Some RT_Created => true | _ => false end.

(** between `on_start_run` and `on_finished`: the run whose prompts can be answered *)
Definition mid (r : option rpc) : bool :=
  match r with Some RT_G_start | Some RT_WaitChild | Some RT_G_end => true | _ => false end.

(** where the call of a pending (not yet started) continue request can be *)
Definition pend_pc (s : state) (t : nat) (p : pc) : Prop :=
  p = WaitLock1 \/ p = Granted1 \/
  (p = R_WaitStarted /\ run_owner s = t /\ run_cont s = true /\ fresh (runt s) = true).

Definition pend_ok (s : state) (t : nat) : Prop :=
  exists c p, find_task (tasks s) t = Some (c, p) /\ is_cont c = true /\ pend_pc s t p.

Definition pend_pcb (p : pc) : bool :=
  match p with WaitLock1 | Granted1 | R_WaitStarted => true | _ => false end.

(** the invariant once start() has been requested *)
Record CJ (s : state) : Prop := mkCJ {
  cj_started : nl_started s = true;
  cj_pend : forall t, In (t, false) (cont_plugins s) -> pend_ok s t;
  cj_nodup : NoDup (cont_plugins s);
  cj_run : forall t, In (t, true) (cont_plugins s) ->
           t = run_owner s /\ run_cont s = true /\ mid (runt s) = true;
  cj_ev : fresh (runt s) = true -> started_ev s = false;
  cj_closed : cont_closed s = true -> st_fsm s = Closed;
  cj_flag : cont_closed s = false -> enabled_of (trace s) = Some (nonempty (cont_plugins s))
}.

(** before start(): nothing but the trace has changed *)
Definition PS (s : state) : Prop :=
  exists a b c d, s = set_trace (init_state a b c d) (trace s) /\ enabled_of (trace s) <> Some true.

Definition CI (s : state) : Prop := if nl_started s then CJ s else PS s.

(** ---- projections of [release] / [apply_rest] on the fields used here ---- *)
Ltac rl_tac s := unfold release; destruct (lockq s) as [|? ?]; simpl; auto;
  match goal with |- context [find_task ?a ?b] => destruct (find_task a b) as [[? ?]|] end; reflexivity.
Ltac ar_tac o := unfold apply_rest; destruct (o_start o), (o_threads o), (o_modules o); reflexivity.

Lemma rl_plugins s : cont_plugins (release s) = cont_plugins s. Proof. rl_tac s. Qed.
Lemma rl_closed s : cont_closed (release s) = cont_closed s. Proof. rl_tac s. Qed.
Lemma rl_nls s : nl_started (release s) = nl_started s. Proof. rl_tac s. Qed.
Lemma rl_trace s : trace (release s) = trace s. Proof. rl_tac s. Qed.
Lemma rl_owner s : run_owner (release s) = run_owner s. Proof. rl_tac s. Qed.
Lemma rl_rcont s : run_cont (release s) = run_cont s. Proof. rl_tac s. Qed.
Lemma rl_sev s : started_ev (release s) = started_ev s. Proof. rl_tac s. Qed.

Lemma ar_plugins s o : cont_plugins (apply_rest s o) = cont_plugins s. Proof. ar_tac o. Qed.
Lemma ar_closed s o : cont_closed (apply_rest s o) = cont_closed s. Proof. ar_tac o. Qed.
Lemma ar_nls s o : nl_started (apply_rest s o) = nl_started s. Proof. ar_tac o. Qed.
Lemma ar_trace s o : trace (apply_rest s o) = trace s. Proof. ar_tac o. Qed.
Lemma ar_owner s o : run_owner (apply_rest s o) = run_owner s. Proof. ar_tac o. Qed.
Lemma ar_rcont s o : run_cont (apply_rest s o) = run_cont s. Proof. ar_tac o. Qed.
Lemma ar_sev s o : started_ev (apply_rest s o) = started_ev s. Proof. ar_tac o. Qed.

Ltac cv_simpl :=
  simpl;
  rewrite ?ar_plugins, ?ar_closed, ?ar_nls, ?ar_trace, ?ar_owner, ?ar_rcont, ?ar_sev,
          ?ar_fsm, ?ar_runt, ?apply_rest_tasks, ?apply_rest_holder, ?apply_rest_lockq,
          ?rl_plugins, ?rl_closed, ?rl_nls, ?rl_trace, ?rl_owner, ?rl_rcont, ?rl_sev,
          ?rl_fsm, ?rl_runt; simpl.

(** ---- lists ---- *)
Lemma NoDup_map_in {A B} (f : A -> B) (l : list A) :
  (forall x y, In x l -> In y l -> f x = f y -> x = y) -> NoDup l -> NoDup (map f l).
Proof.
  induction l as [|a l IH]; simpl; intros Hinj Hnd; [constructor|].
  inversion Hnd; subst. constructor.
  - intros Hin. apply in_map_iff in Hin. destruct Hin as (x & Hfx & Hx).
    assert (x = a) by (apply Hinj; auto). subst. contradiction.
  - apply IH; auto.
Qed.

Lemma nonempty_map {A B} (f : A -> B) l : nonempty (map f l) = nonempty l.
Proof. destruct l; reflexivity. Qed.

Lemma filter_all {A} (p : A -> bool) l : (forall x, In x l -> p x = true) -> filter p l = l.
Proof.
  induction l as [|a l IH]; simpl; intros H; auto.
  rewrite (H a) by auto. f_equal. apply IH. auto.
Qed.

Lemma filter_filter_imp {A} (p q : A -> bool) l :
  (forall x, p x = true -> q x = true) -> filter p (filter q l) = filter p l.
Proof.
  intros H. induction l as [|a l IH]; simpl; auto.
  destruct (q a) eqn:Eq; simpl.
  - destruct (p a); [f_equal|]; auto.
  - destruct (p a) eqn:Ep; auto. rewrite (H _ Ep) in Eq. discriminate.
Qed.

Lemma filter_comm {A} (p q : A -> bool) l : filter p (filter q l) = filter q (filter p l).
Proof.
  induction l as [|a l IH]; simpl; auto.
  destruct (q a) eqn:Eq, (p a) eqn:Ep; simpl; rewrite ?Eq, ?Ep, ?IH; auto.
Qed.

Lemma filter_length_le {A} (p : A -> bool) l : (length (filter p l) <= length l)%nat.
Proof. induction l as [|a l IH]; simpl; auto. destruct (p a); simpl; lia. Qed.

(** ---- the other tasks during a step of the lock holder ---- *)
Lemma find_rel_tasks_fwd q ts t' c p :
  find_task ts t' = Some (c, p) ->
  exists p', find_task (rel_tasks q ts) t' = Some (c, p') /\ (p' = p \/ p' = granted_pc p).
Proof.
  intros Hf. unfold rel_tasks. destruct q as [|t1 q]; [eauto|].
  destruct (find_task ts t1) as [[c1 p1]|] eqn:E1; [|eauto].
  destruct (Nat.eq_dec t' t1) as [->|Hn].
  - rewrite find_put_eq. rewrite Hf in E1. inversion E1; subst. eauto.
  - rewrite find_put_neq by assumption. eauto.
Qed.

Definition tstep (ts ts' : ttab) (t : nat) : Prop :=
  forall t' c p, t' <> t -> find_task ts t' = Some (c, p) ->
  exists p', find_task ts' t' = Some (c, p') /\ (p' = p \/ p' = granted_pc p).

Lemma HRes_tstep s t s' : HRes s t s' -> tstep (tasks s) (tasks s') t.
Proof.
  intros [(_ & _ & c & p & _ & _ & E) | [(_ & _ & E) | (_ & _ & c & p & _ & _ & _ & E)]] t' c' p' Hn Hf; rewrite E.
  - rewrite find_put_neq by assumption. eauto.
  - rewrite find_remove_neq by assumption. apply find_rel_tasks_fwd; auto.
  - rewrite find_put_neq by assumption. apply find_rel_tasks_fwd; auto.
Qed.

(** a pending request of a task that does not hold the lock waits for the lock *)
Lemma pend_waits s t t' : LkS s -> holder s = Some t -> t' <> t -> pend_ok s t' ->
  exists c, find_task (tasks s) t' = Some (c, WaitLock1) /\ is_cont c = true.
Proof.
  intros HL Hh Hn (c & p & Hf & Hc & Hp). exists c. split; auto.
  destruct Hp as [-> | [-> | (-> & _)]]; auto;
    pose proof (lk_holder_of _ _ _ HL _ _ _ Hf eq_refl); congruence.
Qed.

Lemma pend_other s s' t t' : LkS s -> holder s = Some t -> tstep (tasks s) (tasks s') t ->
  t' <> t -> pend_ok s t' -> pend_ok s' t'.
Proof.
  intros HL Hh Ht Hn Hp. destruct (pend_waits _ _ _ HL Hh Hn Hp) as (c & Hf & Hc).
  destruct (Ht _ _ _ Hn Hf) as (p' & Hf' & Hp'). exists c, p'. repeat split; auto.
  destruct Hp' as [-> | ->]; [left | right; left]; reflexivity.
Qed.

(** a task whose pc is not a pending one has no pending plugin *)
Lemma not_pend s t c p : CJ s -> find_task (tasks s) t = Some (c, p) ->
  is_cont c = false \/ pend_pcb p = false \/ (p = R_WaitStarted /\ started_ev s = true) ->
  ~ In (t, false) (cont_plugins s).
Proof.
  intros HC Hf Hor Hin. destruct (cj_pend _ HC _ Hin) as (c' & p' & Hf' & Hc' & Hp').
  rewrite Hf in Hf'. inversion Hf'; subst c' p'.
  destruct Hor as [E | [E | (-> & E)]].
  - congruence.
  - destruct Hp' as [-> | [-> | (-> & _)]]; discriminate.
  - destruct Hp' as [? | [? | (_ & _ & _ & Hfr)]]; try discriminate.
    rewrite (cj_ev _ HC Hfr) in E. discriminate.
Qed.

Lemma no_task_no_pend s t : CJ s -> find_task (tasks s) t = None -> ~ In (t, false) (cont_plugins s).
Proof.
  intros HC Hf Hin. destruct (cj_pend _ HC _ Hin) as (c' & p' & Hf' & _). congruence.
Qed.

(** ---- steps that do not touch the plugins, the flag or the run task ---- *)
Definition cvw (s : state) :=
  (cont_plugins s, cont_closed s, nl_started s, run_owner s, run_cont s, runt s, started_ev s,
   enabled_of (trace s)).

Lemma cvw_fields s s' : cvw s' = cvw s ->
  cont_plugins s' = cont_plugins s /\ cont_closed s' = cont_closed s /\ nl_started s' = nl_started s /\
  run_owner s' = run_owner s /\ run_cont s' = run_cont s /\ runt s' = runt s /\
  started_ev s' = started_ev s /\ enabled_of (trace s') = enabled_of (trace s).
Proof. unfold cvw. intros E. inversion E. repeat split; reflexivity. Qed.

Lemma CJ_frame s s' :
  cvw s' = cvw s -> (st_fsm s = Closed -> st_fsm s' = Closed) ->
  (forall t', In (t', false) (cont_plugins s) -> pend_ok s t' -> pend_ok s' t') ->
  CJ s -> CJ s'.
Proof.
  intros E Hcl Hp HC. destruct (cvw_fields _ _ E) as (E1 & E2 & E3 & E4 & E5 & E6 & E7 & E8).
  destruct HC as [h1 h2 h3 h4 h5 h6 h7].
  constructor; rewrite ?E1, ?E2, ?E3, ?E4, ?E5, ?E6, ?E7, ?E8; auto.
Qed.

Lemma CJ_holder_neutral s s' t :
  LkS s -> CJ s -> holder s = Some t -> HRes s t s' ->
  cvw s' = cvw s -> (st_fsm s = Closed -> st_fsm s' = Closed) ->
  ~ In (t, false) (cont_plugins s) -> CJ s'.
Proof.
  intros HL HC Hh HR E Hcl Hni. eapply CJ_frame; eauto.
  intros t' Hin Hp. destruct (Nat.eq_dec t' t) as [->|Hn]; [contradiction|].
  eapply pend_other; eauto. apply HRes_tstep; auto.
Qed.

(** a task outside the lock changes only its own entry *)
Lemma pend_free s s' t t' :
  (forall u, u <> t -> find_task (tasks s') u = find_task (tasks s) u) ->
  run_owner s' = run_owner s -> run_cont s' = run_cont s -> runt s' = runt s ->
  t' <> t -> pend_ok s t' -> pend_ok s' t'.
Proof.
  intros Ht E1 E2 E3 Hn (c & p & Hf & Hc & Hp). exists c, p. rewrite Ht by assumption.
  repeat split; auto. unfold pend_pc. rewrite E1, E2, E3. exact Hp.
Qed.

Lemma CJ_free_neutral s s' t :
  CJ s -> (forall u, u <> t -> find_task (tasks s') u = find_task (tasks s) u) ->
  cvw s' = cvw s -> (st_fsm s = Closed -> st_fsm s' = Closed) ->
  ~ In (t, false) (cont_plugins s) -> CJ s'.
Proof.
  intros HC Ht E Hcl Hni. destruct (cvw_fields _ _ E) as (E1 & E2 & E3 & E4 & E5 & E6 & E7 & E8).
  eapply CJ_frame; eauto.
  intros t' Hin Hp. destruct (Nat.eq_dec t' t) as [->|Hn]; [contradiction|].
  eapply pend_free; eauto.
Qed.

Lemma find_remove_other ts t u : u <> t -> find_task (remove_task ts t) u = find_task ts u.
Proof. intros. apply find_remove_neq. assumption. Qed.
Lemma find_put_other ts t x u : u <> t -> find_task (put_task ts t x) u = find_task ts u.
Proof. intros. apply find_put_neq. assumption. Qed.

(** ---- a refused request ---- *)
Definition unreg_pred (t : nat) (x : nat * bool) : bool := negb (Nat.eqb (fst x) t && negb (snd x)).

Lemma CJ_holder_unreg s s' t :
  LkS s -> CJ s -> holder s = Some t -> HRes s t s' ->
  cont_plugins s' = filter (unreg_pred t) (cont_plugins s) ->
  cont_closed s' = cont_closed s -> nl_started s' = nl_started s ->
  run_owner s' = run_owner s -> run_cont s' = run_cont s -> runt s' = runt s ->
  started_ev s' = started_ev s -> st_fsm s' = st_fsm s ->
  (cont_closed s = false -> enabled_of (trace s') = Some (nonempty (cont_plugins s'))) -> CJ s'.
Proof.
  intros HL HC Hh HR Ep E2 E3 E4 E5 E6 E7 E8 Hfl.
  destruct HC as [h1 h2 h3 h4 h5 h6 h7].
  constructor; rewrite ?E2, ?E3, ?E4, ?E5, ?E6, ?E7, ?E8; auto.
  - intros t' Hin. rewrite Ep in Hin. apply filter_In in Hin. destruct Hin as (Hin & Hpr).
    assert (Hn : t' <> t).
    { intros ->. unfold unreg_pred in Hpr. simpl in Hpr. rewrite Nat.eqb_refl in Hpr. discriminate. }
    eapply pend_other; eauto. apply HRes_tstep; auto.
  - rewrite Ep. apply NoDup_filter. auto.
  - intros t' Hin. rewrite Ep in Hin. apply filter_In in Hin. destruct Hin as (Hin & _). auto.
Qed.

Lemma CJ_refuse s t c p :
  LkS s -> CJ s -> holder s = Some t -> find_task (tasks s) t = Some (c, p) -> CJ (refuse s t c).
Proof.
  intros HL HC Hh Hf. unfold refuse. destruct (is_cont c) eqn:Ec.
  - destruct (cont_closed (release s)) eqn:Ecl; rewrite rl_closed in Ecl.
    + eapply CJ_holder_unreg; eauto; try (cv_simpl; reflexivity).
      * apply HRes_release_finish; reflexivity.
      * intros E. congruence.
    + eapply CJ_holder_unreg; eauto; try (cv_simpl; reflexivity).
      apply HRes_release_finish; reflexivity.
  - eapply CJ_holder_neutral; eauto.
    + apply HRes_release_finish; reflexivity.
    + unfold cvw. cv_simpl. reflexivity.
    + cv_simpl. auto.
    + eapply not_pend; eauto.
Qed.

(** ---- an accepted run request ---- *)
Lemma tstep_put ts t x : tstep ts (put_task ts t x) t.
Proof. intros u c p Hn Hf. rewrite find_put_neq by assumption. eauto. Qed.

Lemma CJ_enter_run s t c G :
  LkS s -> FI s -> CJ s -> holder s = Some t -> find_task (tasks s) t = Some (c, G) ->
  CJ (enter_run s t c).
Proof.
  intros HL HF HC Hh Hf. unfold enter_run.
  destruct (st_fsm s) eqn:Efs; try (eapply CJ_refuse; eauto).
  assert (Hr : runt s = None).
  { destruct HF as [_ HS]. eapply Scal_idle; eauto; rewrite Efs; discriminate. }
  pose proof HC as [h1 h2 h3 h4 h5 h6 h7].
  constructor; simpl; auto.
  - intros t' Hin. destruct (Nat.eq_dec t' t) as [->|Hn].
    + destruct (h2 _ Hin) as (c' & p' & Hf' & Hc' & _). rewrite Hf in Hf'. inversion Hf'; subst c' p'.
      exists c, R_WaitStarted. simpl. rewrite find_put_eq. repeat split; auto.
      right. right. simpl. auto.
    + eapply (pend_other s); eauto. simpl. apply tstep_put.
  - intros t' Hin. destruct (h4 _ Hin) as (_ & _ & Hm). rewrite Hr in Hm. discriminate.
  - intros Hc. rewrite (h6 Hc) in Efs. discriminate.
Qed.

(** ---- close ---- *)
Lemma CJ_close_finish s t c :
  LkS s -> CJ s -> holder s = Some t -> st_fsm s = Closed -> ~ In (t, false) (cont_plugins s) ->
  CJ (finish_call (close_cont (release s)) t c ROk).
Proof.
  intros HL HC Hh Hfs Hni. pose proof HC as [h1 h2 h3 h4 h5 h6 h7].
  constructor; cv_simpl; auto; try discriminate.
  intros t' Hin. destruct (Nat.eq_dec t' t) as [->|Hn]; [contradiction|].
  eapply (pend_other s); eauto. apply HRes_tstep.
  apply (HRes_release_finish s (close_cont (release s)) t c ROk); reflexivity.
Qed.

Ltac neutral_by HR :=
  eapply CJ_holder_neutral;
  [ eassumption | eassumption | eassumption | exact HR
  | unfold cvw; cv_simpl; reflexivity
  | cv_simpl; intros; try congruence; auto
  | eapply not_pend; eauto ].

Lemma CJ_close_trigger s t p :
  LkS s -> CJ s -> holder s = Some t -> find_task (tasks s) t = Some (CClose, p) ->
  CJ (close_trigger s t).
Proof.
  intros HL HC Hh Hf. pose proof (HRes_close_trigger s t) as HR. unfold close_trigger in *.
  destruct (st_fsm s) eqn:Efs.
  - neutral_by HR.
  - neutral_by HR.
  - neutral_by HR.
  - destruct (runt s); neutral_by HR.
  - apply CJ_close_finish; auto. eapply not_pend; eauto.
Qed.

Lemma CJ_pub_endall s : CJ s -> CJ (publish s PEndAll).
Proof.
  intros HC. eapply (CJ_frame s); [reflexivity | auto | | exact HC]. intros t' _ Hp. exact Hp.
Qed.

Ltac neutral_with tac :=
  eapply CJ_holder_neutral;
  [ eassumption | eassumption | eassumption | tac
  | unfold cvw; cv_simpl; reflexivity
  | cv_simpl; intros; try congruence; auto
  | eapply not_pend; eauto ].

Lemma CJ_enter_close s t p :
  LkS s -> CJ s -> holder s = Some t -> find_task (tasks s) t = Some (CClose, p) ->
  CJ (enter_close s t).
Proof.
  intros HL HC Hh Hf. unfold enter_close.
  assert (HL1 : LkS (publish s PEndAll)) by exact HL.
  pose proof (CJ_pub_endall _ HC) as HC1.
  destruct (st_fsm (publish s PEndAll)) eqn:Efs;
    try (eapply CJ_close_trigger; eauto; fail).
  destruct (run_finished (publish s PEndAll)) as [[|]|].
  - eapply CJ_close_trigger; eauto.
  - neutral_with ltac:(hput CClose C_WaitRunFinished).
  - neutral_with ltac:(apply HRes_release_finish; reflexivity).
Qed.

Lemma CJ_enter s t c part2 G :
  LkS s -> FI s -> CJ s -> holder s = Some t -> find_task (tasks s) t = Some (c, G) ->
  CJ (enter s t c part2).
Proof.
  intros HL HF HC Hh Hf. unfold enter.
  destruct c; auto; try (eapply CJ_enter_run; eauto; fail).
  - unfold enter_start. destruct (st_fsm s) eqn:Efs; try (eapply CJ_refuse; eauto; fail).
    neutral_with ltac:(hput CStart S_G1).
  - unfold enter_reset. destruct (st_fsm s) eqn:Efs; try (eapply CJ_refuse; eauto; fail).
    + destruct (o_stmt o); [neutral_with ltac:(hput (CReset o) Z_G1) | neutral_with ltac:(hput (CReset o) Z_G1b)].
    + destruct (o_stmt o); [neutral_with ltac:(hput (CReset o) Z_G1) | neutral_with ltac:(hput (CReset o) Z_G1b)].
  - destruct part2; [eapply CJ_enter_close; eauto |].
    unfold enter_start. destruct (st_fsm s) eqn:Efs; try (eapply CJ_refuse; eauto; fail).
    neutral_with ltac:(hput CClose S_G1).
Qed.

(** ---- a new call asks for the lock ---- *)
Lemma CJ_ext s s' :
  tasks s' = tasks s -> cvw s' = cvw s -> st_fsm s' = st_fsm s -> CJ s -> CJ s'.
Proof.
  intros Et E Ef HC. destruct (cvw_fields _ _ E) as (E1 & E2 & E3 & E4 & E5 & E6 & E7 & E8).
  eapply (CJ_frame s); eauto; [congruence|].
  intros t' _ (c & p & Hf & Hc & Hp). exists c, p. rewrite Et. repeat split; auto.
  unfold pend_pc. rewrite E4, E5, E6. exact Hp.
Qed.

Lemma CJ_acquire (s : state) (t : nat) (c : call) (part2 : bool) :
  LkS s -> FI s -> find_task (tasks s) t = None ->
  compat c (if part2 then Granted2 else Granted1) = true ->
  CJ (set_pc s t c (if part2 then WaitLock2 else WaitLock1)) ->
  CJ (set_pc s t c (if part2 then Granted2 else Granted1)) ->
  CJ (acquire s t c part2).
Proof.
  intros HL HF Hnew Hc HW HG. unfold acquire.
  destruct (holder s) as [h|] eqn:Eh.
  - eapply CJ_ext; [| | | exact HW]; reflexivity.
  - destruct (lockq s) as [|t1 q] eqn:Eq.
    + set (G := if part2 then Granted2 else Granted1) in *.
      set (s2 := set_pc (set_holder s (Some t)) t c G).
      assert (HL2 : LkS s2).
      { unfold LkS, s2. simpl. rewrite Eq. unfold LkS in HL. rewrite Eh, Eq in HL.
        apply Lk_take; auto. unfold G. destruct part2; reflexivity. }
      assert (HF2 : FI s2).
      { destruct HF as [HP HS]. split; auto. unfold s2. simpl. apply PcOk_put; auto.
        unfold G. destruct part2; reflexivity. }
      assert (HC2 : CJ s2) by (eapply CJ_ext; [| | | exact HG]; reflexivity).
      eapply CJ_enter; eauto. unfold s2. simpl. apply find_put_eq.
    + eapply CJ_ext; [| | | exact HW]; reflexivity.
Qed.

Lemma CJ_new_task s s1 t c p :
  CJ s -> find_task (tasks s) t = None -> tasks s1 = tasks s -> cvw s1 = cvw s -> st_fsm s1 = st_fsm s ->
  CJ (set_pc s1 t c p).
Proof.
  intros HC Hnew Et E Ef. eapply (CJ_free_neutral s _ t); eauto.
  - intros u Hn. simpl. rewrite Et. apply find_put_other; auto.
  - simpl. intros; congruence.
  - apply no_task_no_pend; auto.
Qed.

Lemma nonempty_snoc {A} (l : list A) x : nonempty (l ++ [x]) = true.
Proof. destruct l; reflexivity. Qed.

Lemma CJ_register s t c p :
  CJ s -> find_task (tasks s) t = None -> is_cont c = true -> p = WaitLock1 \/ p = Granted1 ->
  CJ (set_pc (set_cont_plugins (publish (set_trace s (EvCall t c :: trace s)) (PCont true))
                               (cont_plugins s ++ [(t, false)])) t c p).
Proof.
  intros HC Hnew Hc Hp. pose proof (no_task_no_pend _ _ HC Hnew) as Hni.
  pose proof HC as [h1 h2 h3 h4 h5 h6 h7].
  constructor; simpl; auto.
  - intros t' Hin. apply in_app_or in Hin. destruct Hin as [Hin | [Hin | []]].
    + assert (t' <> t) by (intros ->; contradiction).
      eapply (pend_free s _ t); eauto. intros u Hn. simpl. apply find_put_other; auto.
    + inversion Hin; subst t'. exists c, p. simpl. rewrite find_put_eq. repeat split; auto.
      destruct Hp as [-> | ->]; [left | right; left]; reflexivity.
  - apply NoDup_snoc; auto.
  - intros t' Hin. apply in_app_or in Hin. destruct Hin as [Hin | [Hin | []]]; auto. discriminate.
  - intros _. rewrite nonempty_snoc. reflexivity.
Qed.

Lemma CJ_finish_free s s1 t c r :
  CJ s -> tasks s1 = tasks s -> cvw s1 = cvw s -> st_fsm s1 = st_fsm s ->
  ~ In (t, false) (cont_plugins s) -> CJ (finish_call s1 t c r).
Proof.
  intros HC Et E Ef Hni. eapply (CJ_free_neutral s _ t); eauto.
  - intros u Hn. simpl. rewrite Et. apply find_remove_other; auto.
  - simpl. intros; congruence.
Qed.

Lemma CJ_do_call s t c : LkS s -> FI s -> CJ s -> CJ (do_call s t c).
Proof.
  intros HL HF HC. unfold do_call. destruct (find_task (tasks s) t) as [x|] eqn:Ef; auto.
  pose proof (no_task_no_pend _ _ HC Ef) as Hni.
  pose proof (cj_started _ HC) as Hst.
  set (s0 := set_trace s (EvCall t c :: trace s)).
  assert (HL0 : LkS s0) by exact HL. assert (HF0 : FI s0) by exact HF.
  assert (Hacq : forall part2 : bool, compat c (if part2 then Granted2 else Granted1) = true ->
                 CJ (acquire s0 t c part2)).
  { intros part2 Hc. apply CJ_acquire; auto; apply (CJ_new_task s); auto. }
  destruct c; cbn [nl_started nl_closed cont_closed running_process send_command set_trace];
    try (apply (Hacq false); reflexivity).
  - unfold s0. simpl. rewrite Hst. apply (CJ_finish_free s); auto.
  - destruct (nl_closed s0); [apply (CJ_finish_free s); auto|].
    simpl. rewrite Hst.
    apply CJ_acquire; [exact HL | exact HF | exact Ef | reflexivity | apply (CJ_new_task s); auto | apply (CJ_new_task s); auto].
  - destruct (cont_closed s0) eqn:Ecl; [apply (CJ_finish_free s); auto|].
    apply CJ_acquire; [exact HL | exact HF | exact Ef | reflexivity
                     | exact (CJ_register s t CRunCont WaitLock1 HC Ef eq_refl (or_introl eq_refl))
                     | exact (CJ_register s t CRunCont Granted1 HC Ef eq_refl (or_intror eq_refl))].
  - destruct (cont_closed s0) eqn:Ecl; [apply (CJ_finish_free s); auto|].
    apply CJ_acquire; [exact HL | exact HF | exact Ef | reflexivity
                     | exact (CJ_register s t CRunContWait WaitLock1 HC Ef eq_refl (or_introl eq_refl))
                     | exact (CJ_register s t CRunContWait Granted1 HC Ef eq_refl (or_intror eq_refl))].
  - destruct (running_process s0); [apply (CJ_new_task s) | apply (CJ_finish_free s)]; auto.
  - destruct (send_command s0); [apply (CJ_new_task s) | apply (CJ_finish_free s)]; auto.
Qed.

(** ---- close(): the start part is over, queue again for the close part ---- *)
Lemma tstep_rel_put q ts t x : tstep ts (put_task (rel_tasks q ts) t x) t.
Proof. intros u c p Hn Hf. rewrite find_put_neq by assumption. apply find_rel_tasks_fwd; auto. Qed.

Lemma CJ_holder_neutral_ts s s' t :
  LkS s -> CJ s -> holder s = Some t -> tstep (tasks s) (tasks s') t ->
  cvw s' = cvw s -> (st_fsm s = Closed -> st_fsm s' = Closed) ->
  ~ In (t, false) (cont_plugins s) -> CJ s'.
Proof.
  intros HL HC Hh HR E Hcl Hni. eapply CJ_frame; eauto.
  intros t' Hin Hp. destruct (Nat.eq_dec t' t) as [->|Hn]; [contradiction|].
  eapply pend_other; eauto.
Qed.

Lemma CJ_requeue s t :
  LkS s -> FI s -> CJ s -> holder s = Some t -> find_task (tasks s) t = Some (CClose, S_G3) ->
  CJ (acquire (release s) t CClose true).
Proof.
  intros HL HF HC Hh Hf. pose proof HF as [HP HS].
  assert (Hni : ~ In (t, false) (cont_plugins s)) by (eapply not_pend; eauto).
  pose proof HL as HL0. unfold LkS in HL0. rewrite Hh in HL0.
  pose proof (Lk_release_forget _ _ _ HL0) as HFg.
  assert (HSr : Scal (st_fsm (release s)) (runt (release s)) (run_finished (release s)) (alive (release s))
                     (pending_exit (release s)) (run_arg (release s))).
  { rewrite rl_fsm, rl_runt, rl_rf, rl_alive, rl_pe, rl_ra. exact HS. }
  assert (Hgen : forall s', tasks s' = put_task (tasks (release s)) t (CClose, WaitLock2) \/
                            tasks s' = put_task (tasks (release s)) t (CClose, Granted2) ->
                            cvw s' = cvw (release s) -> st_fsm s' = st_fsm (release s) -> CJ s').
  { intros s' Et E Ef. eapply (CJ_holder_neutral_ts s s' t); eauto.
    - rewrite release_tasks in Et. destruct Et as [-> | ->]; apply tstep_rel_put.
    - rewrite E. unfold cvw. cv_simpl. reflexivity.
    - rewrite Ef, rl_fsm. auto. }
  unfold acquire. rewrite release_holder, release_lockq.
  destruct (rel_holder (lockq s)) as [h|] eqn:Eh.
  - apply Hgen; auto.
  - destruct (tl (lockq s)) as [|t1 q] eqn:Eq.
    + set (s2 := set_pc (set_holder (release s) (Some t)) t CClose Granted2).
      assert (HL2 : LkS s2).
      { unfold LkS, s2. simpl. rewrite ?release_lockq, ?release_tasks, ?Eq. apply Lk_readd_take; auto. }
      assert (HF2 : FI s2).
      { split; auto. unfold s2. simpl. rewrite release_tasks. apply PcOk_release_put; auto. }
      assert (HC2 : CJ s2) by (apply Hgen; auto).
      eapply CJ_enter; eauto. unfold s2. simpl. apply find_put_eq.
    + apply Hgen; auto.
Qed.

(** ---- a step of an API task ---- *)
Ltac relfin := apply HRes_release_finish; reflexivity.

Lemma CJ_do_step s t : LkS s -> FI s -> CJ s -> CJ (do_step s t).
Proof.
  intros HL HF HC. unfold do_step. destruct (find_task (tasks s) t) as [[c p]|] eqn:Ef; auto.
  pose proof HF as [HP HS].
  pose proof (HP _ _ _ Ef) as Hok.
  pose proof (lk_compat _ _ _ HL _ _ _ Ef) as Hc.
  assert (Hhold : locked_pc p = true -> holder s = Some t) by (intros Hl; eapply (lk_holder_of _ _ _ HL); eauto).
  destruct p; simpl in Hhold; try specialize (Hhold eq_refl); auto; simpl in Hok.
  - eapply CJ_enter; eauto.
  - eapply CJ_enter; eauto.
  - (* S_G1 *) destruct (st_fsm s) eqn:Efs; try discriminate. neutral_with ltac:(hput c S_G2).
  - neutral_with ltac:(hput c S_G3).
  - (* S_G3 *) destruct c; simpl in Hc; try discriminate.
    + neutral_with relfin.
    + apply CJ_requeue; auto.
  - (* R_WaitStarted *) destruct (started_ev s) eqn:Esv; auto. neutral_with ltac:(hput c R_G).
  - (* R_G *)
    destruct c; simpl in Hc; try discriminate; try (neutral_with relfin; fail);
      (neutral_with ltac:(right; right; simpl; rewrite release_holder, release_lockq, release_tasks;
                          repeat split; auto;
                          match goal with E : find_task _ _ = Some (?c0, _) |- _ => apply (ex_intro _ c0) end;
                          exists P_WaitRunFinished; simpl; auto)).
  - (* Z_G1 *) destruct c; simpl in Hc; try discriminate. neutral_with ltac:(hput (CReset o) Z_G1b).
  - (* Z_G1b *)
    destruct (st_fsm s) eqn:Efs; try discriminate.
    + neutral_with ltac:(hput c Z_G3).
    + destruct (runt s) eqn:Er; [neutral_with ltac:(hput c Z_WaitRunTask) | neutral_with ltac:(hput c Z_G3)].
  - (* Z_WaitRunTask *)
    destruct (runt s) eqn:Er; auto. destruct (st_fsm s) eqn:Efs; try discriminate; neutral_with ltac:(hput c Z_G3).
  - neutral_with ltac:(hput c Z_G4).
  - neutral_with relfin.
  - (* C_WaitRunFinished *)
    destruct (run_finished s) as [[|]|] eqn:Erf; auto.
    destruct c; simpl in Hc; try discriminate. eapply CJ_close_trigger; eauto.
  - (* C_WaitRunTask *)
    destruct (runt s) eqn:Er; auto. destruct c; simpl in Hc; try discriminate.
    neutral_with ltac:(hput CClose C_G3).
  - neutral_with ltac:(hput c C_G4).
  - (* C_G4 *) destruct (st_fsm s) eqn:Efs; try discriminate.
    apply CJ_close_finish; auto. eapply not_pend; eauto.
  - (* P_WaitRunFinished *)
    destruct (run_finished s) as [[|]|]; auto. apply (CJ_finish_free s); auto. eapply not_pend; eauto.
  - apply (CJ_finish_free s); auto. eapply not_pend; eauto.
Qed.

(** ---- [cont_finished]: every started plugin unregisters itself ---- *)
Definition cfv (s : state) :=
  (nl_started s, cont_closed s, run_owner s, run_cont s, started_ev s, runt s, st_fsm s, tasks s).

Lemma cf_fields n : forall s, cfv (cont_finished s n) = cfv s.
Proof.
  induction n as [|n IH]; intros s; simpl; auto.
  destruct (filter _ (cont_plugins s)) as [|[t b] r]; auto. rewrite IH. reflexivity.
Qed.

Definition unstarted (x : nat * bool) : bool := negb (snd x).

Lemma filter_snd_nil l : filter (fun x : nat * bool => snd x) l = [] -> filter unstarted l = l.
Proof.
  intros H. apply filter_all. intros [t b] Hin. unfold unstarted. simpl. destruct b; auto.
  assert (Hi : In (t, true) (filter (fun x : nat * bool => snd x) l)) by (apply filter_In; auto).
  rewrite H in Hi. destruct Hi.
Qed.

Lemma cf_plugins n : forall s, (length (filter (fun x => snd x) (cont_plugins s)) <= n)%nat ->
  cont_plugins (cont_finished s n) = filter unstarted (cont_plugins s).
Proof.
  induction n as [|n IH]; intros s Hle; simpl.
  - symmetry. apply filter_snd_nil. destruct (filter _ (cont_plugins s)); auto. simpl in Hle. lia.
  - destruct (filter (fun x => snd x) (cont_plugins s)) as [|[t b] r] eqn:E.
    + symmetry. apply filter_snd_nil. auto.
    + rewrite IH; simpl.
      * apply filter_filter_imp. intros [t' b']. unfold unstarted. simpl. destruct b'; simpl; auto; discriminate.
      * rewrite filter_comm, E. simpl. rewrite Nat.eqb_refl.
        assert (b = true).
        { assert (Hi : In (t, b) (filter (fun x => snd x) (cont_plugins s))) by (rewrite E; left; auto).
          apply filter_In in Hi. destruct Hi as (_ & Hi). exact Hi. }
        subst b. simpl. simpl in Hle. pose proof (filter_length_le (fun x : nat * bool => negb (snd x && Nat.eqb (fst x) t)) r). lia.
Qed.

Lemma cf_flag n : forall s, enabled_of (trace s) = Some (nonempty (cont_plugins s)) ->
  enabled_of (trace (cont_finished s n)) = Some (nonempty (cont_plugins (cont_finished s n))).
Proof.
  induction n as [|n IH]; intros s H; simpl; auto.
  destruct (filter _ (cont_plugins s)) as [|[t b] r]; auto.
Qed.

Lemma cfv_fields s s' : cfv s' = cfv s ->
  nl_started s' = nl_started s /\ cont_closed s' = cont_closed s /\ run_owner s' = run_owner s /\
  run_cont s' = run_cont s /\ started_ev s' = started_ev s /\ runt s' = runt s /\
  st_fsm s' = st_fsm s /\ tasks s' = tasks s.
Proof. unfold cfv. intros E. inversion E. repeat split; reflexivity. Qed.

(** the completion of the run: every started plugin goes, the flag follows *)
Lemma CJ_run_finish s x :
  FI s -> CJ s -> runt s = Some x -> early x = true -> fresh (runt s) = false -> CJ (run_finish s).
Proof.
  intros [HP HS] HC Hr He Hnf. pose proof (sc_early _ _ _ _ _ _ HS x Hr He) as Hfs.
  unfold run_finish. simpl. rewrite Hfs.
  set (s3 := log_hook (set_st_fsm (set_run_arg (set_started_ev s true) None) Finished) HFinished None None).
  set (n := length (cont_plugins s3)).
  destruct (cfv_fields _ _ (cf_fields n s3)) as (E1 & E2 & E3 & E4 & E5 & E6 & E7 & E8).
  assert (Ep : cont_plugins (cont_finished s3 n) = filter unstarted (cont_plugins s)).
  { rewrite cf_plugins; [reflexivity|]. unfold n. apply filter_length_le. }
  pose proof HC as [h1 h2 h3 h4 h5 h6 h7].
  constructor; simpl; rewrite ?E1, ?E2, ?E3, ?E4, ?E5, ?E8, ?Ep; simpl; auto.
  - intros t' Hin. apply filter_In in Hin. destruct Hin as (Hin & _).
    destruct (h2 _ Hin) as (c & p & Hf & Hc & Hp). exists c, p. simpl. rewrite E8. simpl.
    repeat split; auto. destruct Hp as [-> | [-> | (_ & _ & _ & Hfr)]]; [left | right; left | congruence]; reflexivity.
  - apply NoDup_filter. auto.
  - intros t' Hin. apply filter_In in Hin. destruct Hin as (_ & Hu). discriminate.
  - discriminate.
  - intros Hcl. rewrite (h6 Hcl) in Hfs. discriminate.
  - intros Hcl. rewrite <- Ep. apply cf_flag. simpl. auto.
Qed.
