(** Proofs about Life/FailStart.v, for EVERY oracle: the predicate is checked on each of the
    finitely many executions of the program ([outcomes], by computation) and every oracle's
    execution is one of them ([exec_in_outcomes]). *)
From Coq Require Import List Bool.
From NL Require Import Life.FailStart.
Import ListNotations.

(** the inlined program contains no context, call or yield any more *)
Lemma program_flat : flat program = true.
Proof. vm_compute. reflexivity. Qed.

Lemma run_arg_withdrawn : forall o, run_arg_withdrawn_before_finished (trace o) = true.
Proof. apply forall_oracles. vm_compute. reflexivity. Qed.

Lemma no_hook_after_finished : forall o, nothing_after_finished (trace o) = true.
Proof. apply forall_oracles. vm_compute. reflexivity. Qed.

Lemma end_run_iff_all_returned : forall o, end_run_iff (trace o) = true.
Proof. apply forall_oracles. vm_compute. reflexivity. Qed.

Lemma process_awaited_partial : forall o, process_awaited_if_started (trace o) = true.
Proof. apply forall_oracles. vm_compute. reflexivity. Qed.

(** on_start_run raises: the process was spawned and is never awaited *)
Lemma process_awaited_refuted :
  exists o, returned Spawn (trace o) = true /\ called AwaitProcess (trace o) = false /\
            run_arg_withdrawn_before_finished (trace o) = true.
Proof. exists [false; false; true]. vm_compute. repeat split. Qed.

Lemma monitor_always_closed : forall o, monitor_closed (trace o) = true.
Proof. apply forall_oracles. vm_compute. reflexivity. Qed.
