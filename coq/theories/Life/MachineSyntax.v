(** AST of the methods of nextline/fsm/machine.py (class StateMachine) and
    nextline/fsm/callback.py (class Callback), as emitted by translate/machine_wiring.py
    into Gen/MachineWiring.v.  Types only; the meaning is given in Life/MachineTie.v. *)
From Coq Require Import List String.
Import ListNotations.

(** an argument of a call *)
Inductive arg :=
| ASelfState                 (* self.state *)
| ASelfContext               (* self._context *)
| ALocal (v : string).       (* a parameter / local of the enclosing method *)

(** an asyncio.Event: an attribute of self or a local *)
Inductive target := TSelf (attr : string) | TLocal (v : string).

(** conditions over the EventData parameter of a StateMachine callback *)
Inductive expr :=
| EEvTransition              (* event.transition *)
| EEvDest                    (* event.transition.dest *)
| EEvArgs                    (* list(event.args) *)
| EEvKwargs                  (* event.kwargs *)
| EIsInstance (v cls : string)
| ENot (e : expr)
| EAnd (a b : expr)
| EOr (a b : expr).

Inductive stmt :=
| SSkip
| SSeq (a b : stmt)
| SIf (c : expr) (th el : stmt)
| SReturn                                   (* return *)
| SReturnSelf                               (* return self *)
| SAssert (c : expr)
| SPopKwarg (v key : string)                (* v = event.kwargs.pop(key) *)
| SAwaitCallback (m : string) (pos : list arg) (kw : list (string * arg))
                                            (* await self._callback.m(pos, kw) *)
| SAwaitSelf (m : string)                   (* await self.m()   (a trigger / aopen / aclose / _finish) *)
| SAwaitMachine (m : string)                (* await self._machine.m()   (Callback only) *)
| SAHook (h : string) (kw : list (string * arg))         (* await self._hook.ahook.h(kw) *)
| SRunArgFromHook (h : string) (kw : list (string * arg))(* self._context.run_arg = self._hook.hook.h(kw) *)
| SRunArgNone                               (* self._context.run_arg = None *)
| SNewEvent (t : target)                    (* t = asyncio.Event() *)
| SEventSet (t : target)                    (* t.set() *)
| SAwaitEventWait (t : target)              (* await t.wait() *)
| SCreateTask (attr m : string) (kw : list (string * arg))
                                            (* self.attr = asyncio.create_task(self.m(kw)) *)
| SAwaitTask (attr : string)                (* await self.attr *)
| STryExcept (body : stmt) (cls : string) (handler : stmt)
| STryFinally (body fin : stmt)
| SAWith (h : string) (kw : list (string * arg)) (body : stmt)
                                            (* async with self._hook.awith.h(kw): body *)
| SLogException.                            (* self._logger.exception(<constant>) *)

Record method := mkMethod {
  m_name : string;
  m_async : bool;
  m_params : list string;      (* after self; "*x" / "**x" for the star parameters *)
  m_body : stmt }.

(** statements of an __init__ *)
Inductive init_val :=
| VParam (p : string)                    (* a parameter *)
| VParamAttr (p a : string)              (* p.a *)
| VLogger.                               (* getLogger(__name__) *)

Inductive init_stmt :=
| IAssign (attr : string) (v : init_val)         (* self.attr = v *)
| IBackRef (attr sub : string)                   (* self.attr.sub = self *)
| IMachine (v cls : string) (model_self config_splat : bool)
                                                 (* v = cls(model=self, **CONFIG) *)
| IAfterStateChange (v name : string)            (* v.after_state_change = <the name of a method of self> *)
| IAssertAttr (attr : string)                    (* assert self.attr *)
| IAssertCallable (attr : string).               (* assert callable(self.attr) *)
