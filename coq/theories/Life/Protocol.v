(** The hook protocol of a run and the run-record (`run_info`) protocol, as
    functions of the history alone, and the invariant tying them to the state
    of the lifecycle model in every reachable state (every label sequence).

    Organisation.  Only four hooks and the [PRunInfo] publications matter here
    ([relevant]); [core_of s] is the part of the state the protocols depend on
    (scalars + the relevant events).  [cls_step] classifies every step of the
    model: it either leaves the core alone or is one of the eleven abstract
    transitions [astep].  The invariant [AInv] is then proved on [astep]. *)
From NL Require Import Life.Model Life.LockInv Life.FsmInv Life.Hist.
From Coq Require Import Lia.

(** ---- the run protocol over hook records (chronological) ---- *)
Inductive pst := PN | PI (n : Z) | PS (n : Z) | PE (n : Z) | PF | PBad.

Definition pstep (p : pst) (h : hookrec) : pst :=
  match h_hook h with
  | HInitRun =>
    match h_runno h, p with
    | Some n, (PN | PI _ | PF) => PI n
    | _, _ => PBad
    end
  | HStartRun =>
    match h_runno h, p with
    | Some n, PI m => if Z.eqb n m then PS n else PBad
    | _, _ => PBad
    end
  | HEndRun =>
    match h_runno h, h_fsm h, p with
    | Some n, Running, PS m => if Z.eqb n m then PE n else PBad
    | _, _, _ => PBad
    end
  | HFinished =>
    match h_runno h, h_fsm h, p with
    | None, Finished, PE _ => PF
    | _, _, _ => PBad
    end
  | _ => p
  end.

Definition proto (l : list hookrec) : pst := fold_left pstep l PN.

(** ---- the run record over publications (chronological) ---- *)
Inductive qst := QN | QI (n st : Z) | QR (n st : Z) | QF (n st : Z) (o : outcome) | QBad.

Definition qstep (q : qst) (p : pub) : qst :=
  match p with
  | PRunInfo n RInitialized st None =>
    match q with QN | QI _ _ | QF _ _ _ => QI n st | _ => QBad end
  | PRunInfo n RRunning st None =>
    match q with
    | QI m st' => if Z.eqb n m && Z.eqb st st' then QR n st else QBad
    | _ => QBad
    end
  | PRunInfo n RFinished st (Some o) =>
    match q with
    | QR m st' => if Z.eqb n m && Z.eqb st st' then QF n st o else QBad
    | _ => QBad
    end
  | PRunInfo _ _ _ _ => QBad
  | _ => q
  end.

Definition rinfo (l : list pub) : qst := fold_left qstep l QN.

(** the result carried by the last `finished` record *)
Definition last_result (l : list pub) : option outcome :=
  fold_left (fun acc p => match p with PRunInfo _ RFinished _ r => r | _ => acc end) l None.

(** the run-number / run-argument window of C12 *)
Definition window_ok (h : hookrec) : Prop :=
  match h_hook h with
  | HInitRun | HStartRun | HEndRun => h_runno h <> None
  | HFinished => h_runno h = None
  | _ => True
  end.

(** ---- pure facts about the automata ---- *)
Lemma pstep_bad h : pstep PBad h = PBad.
Proof. unfold pstep. destruct (h_hook h), (h_runno h), (h_fsm h); reflexivity. Qed.

Lemma proto_from_bad l : fold_left pstep l PBad = PBad.
Proof. induction l as [|h l IH]; simpl; auto. rewrite pstep_bad. exact IH. Qed.

Lemma qstep_bad p : qstep QBad p = QBad.
Proof. destruct p as [| n ph st r | | | | |]; simpl; auto. destruct ph, r; reflexivity. Qed.

Lemma rinfo_from_bad l : fold_left qstep l QBad = QBad.
Proof. induction l as [|h l IH]; simpl; auto. rewrite qstep_bad. exact IH. Qed.

(** the protocol is prefix-closed: a good history has only good prefixes *)
Lemma proto_prefix l1 l2 : proto (l1 ++ l2) <> PBad -> proto l1 <> PBad.
Proof.
  unfold proto. rewrite fold_left_app. intros H E. rewrite E, proto_from_bad in H. auto.
Qed.

Lemma rinfo_prefix l1 l2 : rinfo (l1 ++ l2) <> QBad -> rinfo l1 <> QBad.
Proof.
  unfold rinfo. rewrite fold_left_app. intros H E. rewrite E, rinfo_from_bad in H. auto.
Qed.

Lemma pstep_window p h : pstep p h <> PBad -> window_ok h.
Proof.
  unfold pstep, window_ok. destruct (h_hook h); auto; destruct (h_runno h); auto; try discriminate;
    intros H; exfalso; apply H; destruct (h_fsm h); reflexivity.
Qed.

Lemma proto_window_from l : forall p, fold_left pstep l p <> PBad -> Forall window_ok l.
Proof.
  induction l as [|h l IH]; intros p H; constructor.
  - apply (pstep_window p). intros E. simpl in H. rewrite E, proto_from_bad in H. auto.
  - eapply IH. exact H.
Qed.

Lemma proto_window l : proto l <> PBad -> Forall window_ok l.
Proof. apply proto_window_from. Qed.

(** ---- the protocols as recursive functions of the trace (newest first) ---- *)
Definition pstep_ev (p : pst) (e : event) : pst := match e with EvHook h => pstep p h | _ => p end.
Definition qstep_ev (q : qst) (e : event) : qst := match e with EvPub x => qstep q x | _ => q end.
Definition lstep_ev (a : option outcome) (e : event) : option outcome :=
  match e with EvPub (PRunInfo _ RFinished _ r) => r | _ => a end.

Fixpoint ptr (tr : list event) : pst := match tr with [] => PN | e :: r => pstep_ev (ptr r) e end.
Fixpoint qtr (tr : list event) : qst := match tr with [] => QN | e :: r => qstep_ev (qtr r) e end.
Fixpoint ltr (tr : list event) : option outcome := match tr with [] => None | e :: r => lstep_ev (ltr r) e end.

Lemma hooks_of_app a b : hooks_of (a ++ b) = hooks_of a ++ hooks_of b.
Proof. induction a as [|[| | |] a IH]; simpl; auto. rewrite IH. reflexivity. Qed.

Lemma pubs_of_app a b : pubs_of (a ++ b) = pubs_of a ++ pubs_of b.
Proof. induction a as [|[| | |] a IH]; simpl; auto. rewrite IH. reflexivity. Qed.

Lemma proto_ptr tr : proto (hooks_of (rev tr)) = ptr tr.
Proof.
  induction tr as [|e tr IH]; simpl; auto.
  rewrite hooks_of_app. unfold proto in *. rewrite fold_left_app, IH.
  destruct e; reflexivity.
Qed.

Lemma rinfo_qtr tr : rinfo (pubs_of (rev tr)) = qtr tr.
Proof.
  induction tr as [|e tr IH]; simpl; auto.
  rewrite pubs_of_app. unfold rinfo in *. rewrite fold_left_app, IH.
  destruct e; reflexivity.
Qed.

Lemma last_result_ltr tr : last_result (pubs_of (rev tr)) = ltr tr.
Proof.
  induction tr as [|e tr IH]; simpl; auto.
  rewrite pubs_of_app. unfold last_result in *. rewrite fold_left_app, IH.
  destruct e; reflexivity.
Qed.

(** ---- the events the protocols depend on ---- *)
Definition relevant (e : event) : bool :=
  match e with
  | EvHook h => match h_hook h with HInitRun | HStartRun | HEndRun | HFinished => true | _ => false end
  | EvPub (PRunInfo _ _ _ _) => true
  | _ => false
  end.

Fixpoint rel (tr : list event) : list event :=
  match tr with
  | [] => []
  | e :: r => if relevant e then e :: rel r else rel r
  end.

Lemma rel_cont_off s0 tr : rel (cont_off_events s0 ++ tr) = rel tr.
Proof. unfold cont_off_events. destruct (cont_plugins s0); reflexivity. Qed.

Lemma irrelevant_steps e : relevant e = false ->
  (forall p, pstep_ev p e = p) /\ (forall q, qstep_ev q e = q) /\ (forall a, lstep_ev a e = a).
Proof.
  destruct e as [t c|h|p|t c r]; simpl; intros H; repeat split; auto.
  - intros p. unfold pstep. destruct (h_hook h); auto; discriminate.
  - destruct p; auto; discriminate.
  - destruct p; auto; discriminate.
Qed.

Lemma ptr_rel tr : ptr (rel tr) = ptr tr.
Proof.
  induction tr as [|e tr IH]; simpl; auto. destruct (relevant e) eqn:E; simpl; rewrite IH; auto.
  symmetry. apply (irrelevant_steps e E).
Qed.

Lemma qtr_rel tr : qtr (rel tr) = qtr tr.
Proof.
  induction tr as [|e tr IH]; simpl; auto. destruct (relevant e) eqn:E; simpl; rewrite IH; auto.
  symmetry. apply (irrelevant_steps e E).
Qed.

Lemma ltr_rel tr : ltr (rel tr) = ltr tr.
Proof.
  induction tr as [|e tr IH]; simpl; auto. destruct (relevant e) eqn:E; simpl; rewrite IH; auto.
  symmetry. apply (irrelevant_steps e E).
Qed.

(** ---- the core of a state ---- *)
Record core := mkCore {
  k_fsm : fsm; k_runt : option rpc; k_rf : option bool; k_alive : nat; k_pe : option outcome;
  k_ra : option runarg; k_ex : option outcome; k_sev : bool; k_rel : list event }.

Definition core_of (s : state) : core :=
  mkCore (st_fsm s) (runt s) (run_finished s) (alive s) (pending_exit s) (run_arg s) (exited_proc s)
         (started_ev s) (rel (trace s)).

Definition ScalK (k : core) : Prop := Scal (k_fsm k) (k_runt k) (k_rf k) (k_alive k) (k_pe k) (k_ra k).

Lemma FI_ScalK s : FI s -> ScalK (core_of s).
Proof. intros [_ H]. exact H. Qed.

Lemma core_fields s s' : core_of s' = core_of s ->
  st_fsm s' = st_fsm s /\ runt s' = runt s /\ run_finished s' = run_finished s /\ alive s' = alive s /\
  pending_exit s' = pending_exit s /\ run_arg s' = run_arg s /\ exited_proc s' = exited_proc s /\
  started_ev s' = started_ev s /\ rel (trace s') = rel (trace s).
Proof. unfold core_of. intros E. inversion E. repeat split; reflexivity. Qed.

Definition hook_ev (h : hook) (f : fsm) (n : option Z) (st : option Z) : event := EvHook (mkHook h f n st None).

(** the transitions of the API calls that touch the core (labels [Call], [Step]) *)
Inductive aapi : core -> core -> Prop :=
| a_init f rf al pe ra ex sv rl a :         (* Callback.initialize_run (start / reset) *)
    aapi (mkCore f None rf al pe ra ex sv rl)
         (mkCore Initialized None rf al pe (Some a) ex sv
                 (hook_ev HInitRun Initialized (Some (ra_no a)) (Some (ra_stmt a))
                  :: EvPub (PRunInfo (ra_no a) RInitialized (ra_stmt a) None) :: rl))
| a_run r rf al pe ra ex sv rl :            (* an accepted run request: Callback.start_run *)
    aapi (mkCore Initialized r rf al pe ra ex sv rl)
         (mkCore Running (Some RT_New) (Some false) al pe ra ex false rl)
| a_closed f rf al pe ra ex sv rl :         (* the trigger `close`, with no run task *)
    f <> Running ->
    aapi (mkCore f None rf al pe ra ex sv rl) (mkCore Closed None rf al pe ra ex sv rl).

(** the transitions of the run task (label [StepRun]) *)
Inductive arun : core -> core -> Prop :=
| a_new f rf al pe a ex sv rl :             (* the process gets created *)
    arun (mkCore f (Some RT_New) rf al pe (Some a) ex sv rl)
         (mkCore f (Some RT_Created) rf (S al) pe (Some a) None sv rl)
| a_created f rf al pe a ex sv rl :         (* on_start_run *)
    arun (mkCore f (Some RT_Created) rf al pe (Some a) ex sv rl)
         (mkCore f (Some RT_G_start) rf al pe (Some a) ex sv
                 (hook_ev HStartRun f (Some (ra_no a)) (Some (ra_stmt a))
                  :: EvPub (PRunInfo (ra_no a) RRunning (ra_stmt a) None) :: rl))
| a_gstart f rf al pe ra ex sv rl :         (* started.set() *)
    arun (mkCore f (Some RT_G_start) rf al pe ra ex sv rl) (mkCore f (Some RT_WaitChild) rf al pe ra ex true rl)
| a_wait f rf al o a ex sv rl :             (* the child has exited: on_end_run *)
    arun (mkCore f (Some RT_WaitChild) rf al (Some o) (Some a) ex sv rl)
         (mkCore f (Some RT_G_end) rf al None (Some a) (Some o) sv
                 (hook_ev HEndRun f (Some (ra_no a)) None
                  :: EvPub (PRunInfo (ra_no a) RFinished (ra_stmt a) (Some o)) :: rl))
| a_end rf al pe ra ex sv rl :              (* Callback._finish: the trigger `finish`, on_finished *)
    arun (mkCore Running (Some RT_G_end) rf al pe ra ex sv rl)
         (mkCore Finished (Some RT_G_fin) rf al pe None ex true
                 (hook_ev HFinished Finished None None :: rl))
| a_fin f rf al pe ra ex sv rl :
    arun (mkCore f (Some RT_G_fin) rf al pe ra ex sv rl) (mkCore f (Some RT_G_cs) rf al pe ra ex sv rl)
| a_cs f rf al pe ra ex sv rl :             (* `finally: _run_finished.set()`, the task ends *)
    arun (mkCore f (Some RT_G_cs) rf al pe ra ex sv rl) (mkCore f None (Some true) al pe ra ex sv rl).

(** the environment (label [ChildExit o]) *)
Inductive aenv (o : outcome) : core -> core -> Prop :=
| a_child f r rf al pe ra ex sv rl :        (* the child process exits *)
    aenv o (mkCore f r rf (S al) pe ra ex sv rl) (mkCore f r rf al (Some o) ra ex sv rl).

Definition astep (k k' : core) : Prop := aapi k k' \/ arun k k' \/ exists o, aenv o k k'.

Definition cls (R : core -> core -> Prop) (s s' : state) : Prop :=
  core_of s' = core_of s \/ R (core_of s) (core_of s').

(** ---- field lemmas for the opaque pieces ---- *)
Lemma rl_ex s : exited_proc (release s) = exited_proc s.
Proof. unfold release. destruct (lockq s) as [|t q]; simpl; auto. destruct (find_task (tasks s) t) as [[c p]|]; reflexivity. Qed.
Lemma rl_trace s : trace (release s) = trace s.
Proof. unfold release. destruct (lockq s) as [|t q]; simpl; auto. destruct (find_task (tasks s) t) as [[c p]|]; reflexivity. Qed.
Lemma rl_cont_closed s : cont_closed (release s) = cont_closed s.
Proof. unfold release. destruct (lockq s) as [|t q]; simpl; auto. destruct (find_task (tasks s) t) as [[c p]|]; reflexivity. Qed.
Lemma ar_ex s o : exited_proc (apply_rest s o) = exited_proc s.
Proof. unfold apply_rest. destruct (o_start o), (o_threads o), (o_modules o); reflexivity. Qed.
Lemma ar_trace s o : trace (apply_rest s o) = trace s.
Proof. unfold apply_rest. destruct (o_start o), (o_threads o), (o_modules o); reflexivity. Qed.
Lemma rl_sev s : started_ev (release s) = started_ev s.
Proof. unfold release. destruct (lockq s) as [|t q]; simpl; auto. destruct (find_task (tasks s) t) as [[c p]|]; reflexivity. Qed.
Lemma ar_sev s o : started_ev (apply_rest s o) = started_ev s.
Proof. unfold apply_rest. destruct (o_start o), (o_threads o), (o_modules o); reflexivity. Qed.

Ltac core_simpl :=
  unfold core_of; simpl;
  rewrite ?ar_fsm, ?ar_runt, ?ar_rf, ?ar_alive, ?ar_pe, ?ar_ra, ?ar_ex, ?ar_trace,
          ?rl_fsm, ?rl_runt, ?rl_rf, ?rl_alive, ?rl_pe, ?rl_ra, ?rl_ex, ?rl_trace, ?rl_sev, ?ar_sev; simpl;
  rewrite ?rel_cont_off.

Lemma core_release s : core_of (release s) = core_of s.
Proof. core_simpl. reflexivity. Qed.

Lemma core_cont_finished n : forall s, core_of (cont_finished s n) = core_of s.
Proof.
  induction n as [|n IH]; intros s; simpl; auto.
  destruct (filter _ (cont_plugins s)) as [|[t b] r]; auto.
  rewrite IH. reflexivity.
Qed.

Lemma cls_refl R s : cls R s s.
Proof. left. reflexivity. Qed.

Lemma cls_pre R s s1 s' : core_of s1 = core_of s -> cls R s1 s' -> cls R s s'.
Proof. unfold cls. intros E. rewrite E. auto. Qed.

Ltac quiet := left; core_simpl; reflexivity.

Lemma cls_refuse s t c : cls aapi s (refuse s t c).
Proof.
  unfold refuse. destruct (is_cont c); [destruct (cont_closed (release s))|]; quiet.
Qed.

Lemma cls_close_enter_closed s t : runt s = None -> st_fsm s <> Running -> cls aapi s (close_enter_closed s t).
Proof.
  intros Hr Hf. right. core_simpl. rewrite Hr. apply a_closed. exact Hf.
Qed.

Lemma cls_close_trigger s t : ScalK (core_of s) -> st_fsm s <> Running -> cls aapi s (close_trigger s t).
Proof.
  intros HS Hnr. unfold close_trigger. destruct (st_fsm s) eqn:Ef.
  - eapply cls_pre; [|apply cls_close_enter_closed].
    + core_simpl. reflexivity.
    + simpl. eapply Scal_idle; [exact HS | |]; simpl; rewrite Ef; discriminate.
    + simpl. rewrite Ef. discriminate.
  - apply cls_close_enter_closed; [|rewrite Ef; discriminate].
    eapply Scal_idle; [exact HS | |]; simpl; rewrite Ef; discriminate.
  - congruence.
  - destruct (runt s) eqn:Er; [quiet|]. apply cls_close_enter_closed; auto. rewrite Ef. discriminate.
  - quiet.
Qed.

Lemma cls_enter_close s t : ScalK (core_of s) -> cls aapi s (enter_close s t).
Proof.
  intros HS. unfold enter_close.
  assert (E : core_of (publish s PEndAll) = core_of s) by reflexivity.
  assert (HS1 : ScalK (core_of (publish s PEndAll))) by (rewrite E; exact HS).
  destruct (st_fsm (publish s PEndAll)) eqn:Ef;
    try (eapply cls_pre; [exact E | apply cls_close_trigger; [exact HS1 | rewrite Ef; discriminate]]).
  destruct (Scal_running_not_none _ _ _ _ _ _ HS1 Ef) as (x & Hr & He & Hrf). simpl in Hrf.
  simpl. rewrite Hrf. quiet.
Qed.

Lemma cls_enter s t c part2 : ScalK (core_of s) -> cls aapi s (enter s t c part2).
Proof.
  intros HS. unfold enter.
  assert (Hrun : forall c, cls aapi s (enter_run s t c)).
  { intros c0. unfold enter_run. destruct (st_fsm s) eqn:Ef; try apply cls_refuse.
    right. core_simpl. rewrite Ef. apply a_run. }
  assert (Hstart : forall c, cls aapi s (enter_start s t c)).
  { intros c0. unfold enter_start. destruct (st_fsm s) eqn:Ef; try apply cls_refuse. quiet. }
  destruct c; auto using cls_refl.
  - unfold enter_reset. destruct (st_fsm s) eqn:Ef; try apply cls_refuse; destruct (o_stmt o); quiet.
  - destruct part2; [apply cls_enter_close; auto | apply Hstart].
Qed.

Lemma cls_acquire s t c part2 : ScalK (core_of s) -> cls aapi s (acquire s t c part2).
Proof.
  intros HS. unfold acquire. destruct (holder s); [quiet|]. destruct (lockq s); [|quiet].
  eapply cls_pre; [|apply cls_enter].
  - reflexivity.
  - exact HS.
Qed.

Lemma cls_acquire_pre s s1 t c part2 :
  ScalK (core_of s) -> core_of s1 = core_of s -> cls aapi s (acquire s1 t c part2).
Proof. intros HS E. eapply cls_pre; [exact E|]. apply cls_acquire. rewrite E. exact HS. Qed.

Lemma cls_do_call s t c : FI s -> cls aapi s (do_call s t c).
Proof.
  intros HF. pose proof (FI_ScalK _ HF) as HS. unfold do_call.
  destruct (find_task (tasks s) t); [apply cls_refl|].
  destruct c; cbn [nl_started nl_closed cont_closed running_process send_command set_trace].
  - destruct (nl_started s); [quiet|]. apply cls_acquire_pre; auto.
  - apply cls_acquire_pre; auto.
  - apply cls_acquire_pre; auto.
  - destruct (nl_closed s); [quiet|]. simpl. destruct (nl_started s); apply cls_acquire_pre; auto.
  - destruct (cont_closed s); [quiet|]. apply cls_acquire_pre; auto.
  - destruct (cont_closed s); [quiet|]. apply cls_acquire_pre; auto.
  - apply cls_acquire_pre; auto.
  - destruct (running_process s); quiet.
  - destruct (send_command s); quiet.
Qed.

Lemma cls_reinit s t c p : runt s = None -> cls aapi s (set_pc (initialize_run (set_st_fsm s Initialized)) t c p).
Proof.
  intros Hr. right. core_simpl. rewrite Hr.
  apply (a_init _ _ _ _ _ _ _ _ (mkRunArg (c_next s) (c_stmt s) (c_threads s) (c_modules s))).
Qed.

Lemma cls_do_step s t : LkS s -> FI s -> cls aapi s (do_step s t).
Proof.
  intros HL HF. pose proof (FI_ScalK _ HF) as HS. unfold do_step.
  destruct (find_task (tasks s) t) as [[c p]|] eqn:Ef; [|apply cls_refl].
  pose proof HF as [HP HS0].
  pose proof (HP _ _ _ Ef) as Hok.
  pose proof (lk_compat _ _ _ HL _ _ _ Ef) as Hc.
  destruct p; simpl in Hok; try apply cls_refl; try (apply cls_enter; exact HS).
  - (* S_G1 *)
    destruct (st_fsm s) eqn:Efs; try discriminate. apply cls_reinit.
    eapply Scal_idle; [exact HS0 | |]; rewrite ?Efs; discriminate.
  - quiet.
  - (* S_G3 *)
    destruct c; try quiet. apply cls_acquire_pre; auto. apply core_release.
  - destruct (started_ev s); [quiet | apply cls_refl].
  - destruct c; quiet.
  - destruct c; try apply cls_refl. quiet.
  - (* Z_G1b *)
    unfold reset_reinit. destruct (st_fsm s) eqn:Efs; try discriminate.
    + apply cls_reinit. eapply Scal_idle; [exact HS0 | |]; rewrite ?Efs; discriminate.
    + destruct (runt s) eqn:Er; [quiet | apply cls_reinit; exact Er].
  - (* Z_WaitRunTask *)
    destruct (runt s) eqn:Er; [apply cls_refl | apply cls_reinit; exact Er].
  - quiet.
  - quiet.
  - (* C_WaitRunFinished *)
    destruct (run_finished s) as [[|]|] eqn:Erf; try apply cls_refl.
    apply cls_close_trigger; auto. intros Hr.
    destruct (Scal_running_not_none _ _ _ _ _ _ HS0 Hr) as (x & _ & _ & E). congruence.
  - (* C_WaitRunTask *)
    destruct (runt s) eqn:Er; [apply cls_refl|].
    destruct (st_fsm s) eqn:Efs; try discriminate.
    apply cls_close_enter_closed; auto. rewrite Efs. discriminate.
  - quiet.
  - quiet.
  - destruct (run_finished s) as [[|]|]; try apply cls_refl. quiet.
  - quiet.
Qed.

Lemma cls_run_finish s s0 :
  st_fsm s = Running -> runt s = Some RT_G_end -> core_of s = core_of s0 -> cls arun s0 (run_finish s).
Proof.
  intros Hf Hr E. right. rewrite <- E. unfold run_finish. simpl. rewrite Hf.
  unfold core_of at 2. simpl.
  match goal with |- context [cont_finished ?y ?n] =>
    destruct (core_fields _ _ (core_cont_finished n y)) as (E1 & E2 & E3 & E4 & E5 & E6 & E7 & E8 & E9) end.
  rewrite E1, E3, E4, E5, E6, E7, E8, E9. simpl.
  unfold core_of. rewrite Hf, Hr. apply a_end.
Qed.

Lemma cls_step_run s : FI s -> cls arun s (do_step_run s).
Proof.
  intros HF. pose proof HF as [HP HS]. unfold do_step_run.
  destruct (runt s) as [x|] eqn:Er; [|apply cls_refl].
  assert (Hra : early x = true -> st_fsm s = Running /\ exists a, run_arg s = Some a).
  { intros He. assert (Hf : st_fsm s = Running) by (eapply sc_early; eauto). split; auto.
    destruct (run_arg s) as [a|] eqn:Era; eauto. exfalso. apply (sc_ra _ _ _ _ _ _ HS); auto. }
  destruct x.
  - destruct Hra as (Hf & a & Era); auto. rewrite Era.
    right. core_simpl. rewrite Er, Era. apply a_new.
  - destruct Hra as (Hf & a & Era); auto. simpl. rewrite Era.
    right. core_simpl. rewrite Er, Era. apply a_created.
  - right. core_simpl. rewrite Er. apply a_gstart.
  - destruct (run_call_pending s); [apply cls_refl|].
    destruct (pending_exit s) as [o|] eqn:Epe; [|apply cls_refl].
    destruct Hra as (Hf & a & Era); auto. simpl. rewrite Era.
    right. core_simpl. rewrite Er, Era, Epe. apply a_wait.
  - destruct Hra as (Hf & a & Era); auto. apply cls_run_finish; auto.
  - right. core_simpl. rewrite Er. apply a_fin.
  - right. core_simpl. rewrite Er. apply a_cs.
Qed.

Definition lstep (l : label) : core -> core -> Prop :=
  match l with
  | Call _ _ | Step _ => aapi
  | StepRun => arun
  | ChildExit o => aenv o
  end.

Theorem cls_step s l : LkS s -> FI s -> cls (lstep l) s (step s l).
Proof.
  intros HL HF. destruct l; simpl.
  - apply cls_do_call; auto.
  - apply cls_do_step; auto.
  - apply cls_step_run; auto.
  - unfold do_child_exit. destruct (alive s) eqn:Ea; [apply cls_refl|].
    right. core_simpl. rewrite Ea. apply a_child.
Qed.

Lemma lstep_astep l k k' : lstep l k k' -> astep k k'.
Proof. unfold astep. destruct l; simpl; eauto. Qed.

(** ---- the invariant: automaton states versus the state of the model ---- *)
Definition fin_rec (k : core) : Prop :=
  exists n st o, k_ex k = Some o /\ qtr (k_rel k) = QF n st o.

Definition AInv (k : core) : Prop :=
  let p := ptr (k_rel k) in
  let q := qtr (k_rel k) in
  match k_runt k with
  | Some RT_New | Some RT_Created =>
    k_fsm k = Running /\ exists a, k_ra k = Some a /\ p = PI (ra_no a) /\ q = QI (ra_no a) (ra_stmt a)
  | Some RT_G_start | Some RT_WaitChild =>
    k_fsm k = Running /\ exists a, k_ra k = Some a /\ p = PS (ra_no a) /\ q = QR (ra_no a) (ra_stmt a)
  | Some RT_G_end =>
    k_fsm k = Running /\
    exists a o, k_ra k = Some a /\ k_ex k = Some o /\ p = PE (ra_no a) /\ q = QF (ra_no a) (ra_stmt a) o
  | Some RT_G_fin | Some RT_G_cs =>
    k_fsm k = Finished /\ k_ra k = None /\ p = PF /\ fin_rec k
  | None =>
    match k_fsm k with
    | Created => k_ra k = None /\ p = PN /\ q = QN
    | Initialized => exists a, k_ra k = Some a /\ p = PI (ra_no a) /\ q = QI (ra_no a) (ra_stmt a)
    | Running => False
    | Finished => k_ra k = None /\ p = PF /\ fin_rec k
    | Closed => (p = PN /\ q = QN) \/ (exists n st, p = PI n /\ q = QI n st) \/ (p = PF /\ fin_rec k)
    end
  end.

Lemma AInv_astep k k' : AInv k -> astep k k' -> AInv k'.
Proof.
  intros H [St | [St | (o0 & St)]]; destruct St; unfold AInv, fin_rec in *; simpl in *.
  - (* a_init *)
    exists a. split; auto.
    destruct f; try contradiction.
    + destruct H as (_ & -> & ->). auto.
    + destruct H as (a0 & _ & -> & ->). auto.
    + destruct H as (_ & -> & n & st & o & _ & ->). auto.
    + destruct H as [(-> & ->) | [(n & st & -> & ->) | (-> & n & st & o & _ & ->)]]; auto.
  - (* a_run *)
    split; auto. destruct r as [[]|]; try (destruct H as (? & _); discriminate). exact H.
  - (* a_closed *)
    destruct f; try contradiction; try congruence.
    + left. tauto.
    + right. left. destruct H as (a & _ & -> & ->). eauto.
    + right. right. tauto.
  - (* a_new *)
    exact H.
  - (* a_created *)
    destruct H as (Hf & a0 & Ea & -> & ->). inversion Ea; subst a0. split; auto. exists a. split; auto.
    unfold pstep; simpl; rewrite ?Z.eqb_refl; simpl; auto.
  - exact H.
  - (* a_wait *)
    destruct H as (Hf & a0 & Ea & -> & ->). inversion Ea; subst a0. split; auto. exists a, o. subst f.
    unfold pstep; simpl; rewrite ?Z.eqb_refl; simpl; auto.
  - (* a_end *)
    destruct H as (_ & a & o & _ & -> & -> & ->). repeat split; auto. eauto.
  - exact H.
  - (* a_cs *)
    destruct H as (-> & H). exact H.
  - exact H.
Qed.

Lemma AInv_init a b c d : AInv (core_of (init_state a b c d)).
Proof. unfold AInv. simpl. auto. Qed.

Definition PInv (s : state) : Prop := AInv (core_of s).

(** `started` is set from the moment the run task waits for the child *)
Definition SInv (k : core) : Prop :=
  match k_runt k with
  | Some RT_WaitChild | Some RT_G_end | Some RT_G_fin | Some RT_G_cs => k_sev k = true
  | _ => True
  end.

Lemma SInv_astep k k' : SInv k -> astep k k' -> SInv k'.
Proof.
  intros H [St | [St | (o0 & St)]]; destruct St; unfold SInv in *; simpl in *; auto.
Qed.

Lemma PInv_step s l : LkS s -> FI s -> PInv s -> PInv (step s l).
Proof.
  intros HL HF HP. unfold PInv in *. destruct (cls_step s l HL HF) as [E | St].
  - rewrite E. exact HP.
  - eapply AInv_astep; eauto. eapply lstep_astep; eauto.
Qed.

Lemma SInv_step s l : LkS s -> FI s -> SInv (core_of s) -> SInv (core_of (step s l)).
Proof.
  intros HL HF HP. destruct (cls_step s l HL HF) as [E | St].
  - rewrite E. exact HP.
  - eapply SInv_astep; eauto. eapply lstep_astep; eauto.
Qed.

Theorem reach_all a b c d ls :
  let s := run_labels (init_state a b c d) ls in LkS s /\ FI s /\ PInv s /\ SInv (core_of s).
Proof.
  simpl. unfold run_labels.
  assert (H0 : SInv (core_of (init_state a b c d))) by exact I.
  generalize (LkS_init a b c d) (FI_init a b c d) (AInv_init a b c d) H0. fold (PInv (init_state a b c d)).
  generalize (init_state a b c d). clear H0.
  induction ls as [|l ls IH]; intros s HL HF HP HS; simpl; auto.
  apply IH; [apply LkS_step | apply FI_step | apply PInv_step | apply SInv_step]; auto.
Qed.

Theorem PInv_reachable a b c d ls : PInv (run_labels (init_state a b c d) ls).
Proof. apply (reach_all a b c d ls). Qed.

(** ---- consequences, in terms of the history ---- *)
Lemma proto_core s : proto (hooks_of (history s)) = ptr (k_rel (core_of s)).
Proof. unfold history. rewrite proto_ptr. simpl. symmetry. apply ptr_rel. Qed.

Lemma rinfo_core s : rinfo (pubs_of (history s)) = qtr (k_rel (core_of s)).
Proof. unfold history. rewrite rinfo_qtr. simpl. symmetry. apply qtr_rel. Qed.

Lemma last_core s : last_result (pubs_of (history s)) = ltr (k_rel (core_of s)).
Proof. unfold history. rewrite last_result_ltr. simpl. symmetry. apply ltr_rel. Qed.

Lemma qtr_QF_ltr tr : forall n st o, qtr tr = QF n st o -> ltr tr = Some o.
Proof.
  induction tr as [|e tr IH]; simpl; intros n st o H; [discriminate|].
  destruct e as [| |p|]; simpl in *; eauto.
  destruct p as [|m ph s0 r| | | | |]; simpl in *; eauto.
  destruct ph, r; simpl in *; try discriminate; destruct (qtr tr); try discriminate.
  all: destruct (_ && _); inversion H; reflexivity.
Qed.

(** the exact correspondence between the hook protocol and the state *)
Definition hook_corr (p : pst) (f : fsm) (r : option rpc) (ra : option runarg) : Prop :=
  match r with
  | Some RT_New | Some RT_Created => f = Running /\ exists a, ra = Some a /\ p = PI (ra_no a)
  | Some RT_G_start | Some RT_WaitChild => f = Running /\ exists a, ra = Some a /\ p = PS (ra_no a)
  | Some RT_G_end => f = Running /\ exists a, ra = Some a /\ p = PE (ra_no a)
  | Some RT_G_fin | Some RT_G_cs => f = Finished /\ ra = None /\ p = PF
  | None =>
    match f with
    | Created => ra = None /\ p = PN
    | Initialized => exists a, ra = Some a /\ p = PI (ra_no a)
    | Running => False
    | Finished => ra = None /\ p = PF
    | Closed => p = PN \/ (exists n, p = PI n) \/ p = PF
    end
  end.

(** the exact correspondence between the run record and the state *)
Definition rec_corr (q : qst) (f : fsm) (r : option rpc) (ra : option runarg) (ex : option outcome) : Prop :=
  match r with
  | Some RT_New | Some RT_Created => exists a, ra = Some a /\ q = QI (ra_no a) (ra_stmt a)
  | Some RT_G_start | Some RT_WaitChild => exists a, ra = Some a /\ q = QR (ra_no a) (ra_stmt a)
  | Some RT_G_end => exists a o, ra = Some a /\ ex = Some o /\ q = QF (ra_no a) (ra_stmt a) o
  | Some RT_G_fin | Some RT_G_cs => exists n st o, ex = Some o /\ q = QF n st o
  | None =>
    match f with
    | Created => q = QN
    | Initialized => exists a, ra = Some a /\ q = QI (ra_no a) (ra_stmt a)
    | Running => False
    | Finished => exists n st o, ex = Some o /\ q = QF n st o
    | Closed => q = QN \/ (exists n st, q = QI n st) \/ (exists n st o, q = QF n st o)
    end
  end.

Ltac dex := repeat match goal with
  | H : exists _, _ |- _ => destruct H
  | H : _ /\ _ |- _ => destruct H
  | H : _ \/ _ |- _ => destruct H
  end.

Lemma PInv_hook_corr s : PInv s -> hook_corr (proto (hooks_of (history s))) (st_fsm s) (runt s) (run_arg s).
Proof.
  rewrite proto_core. unfold PInv, AInv, hook_corr, fin_rec. simpl.
  destruct (runt s) as [[]|]; [ | | | | | | | destruct (st_fsm s)]; intros H; dex; try contradiction; eauto 10.
Qed.

Lemma PInv_rec_corr s :
  PInv s -> rec_corr (rinfo (pubs_of (history s))) (st_fsm s) (runt s) (run_arg s) (exited_proc s).
Proof.
  rewrite rinfo_core. unfold PInv, AInv, rec_corr, fin_rec. simpl.
  destruct (runt s) as [[]|]; [ | | | | | | | destruct (st_fsm s)]; intros H; dex; try contradiction; eauto 10.
Qed.

Lemma hook_corr_not_bad p f r ra : hook_corr p f r ra -> p <> PBad.
Proof.
  unfold hook_corr. destruct r as [[]|]; try (intros (_ & a & _ & ->); discriminate);
    try (intros (_ & _ & ->); discriminate).
  destruct f; try tauto.
  - intros (_ & ->); discriminate.
  - intros (a & _ & ->); discriminate.
  - intros (_ & ->); discriminate.
  - intros [-> | [(n & ->) | ->]]; discriminate.
Qed.

Lemma rec_corr_not_bad q f r ra ex : rec_corr q f r ra ex -> q <> QBad.
Proof.
  unfold rec_corr. destruct r as [[]|]; try (intros (a & _ & ->); discriminate);
    try (intros (a & o & _ & _ & ->); discriminate); try (intros (n & st & o & _ & ->); discriminate).
  destruct f; try tauto.
  - intros ->; discriminate.
  - intros (a & _ & ->); discriminate.
  - intros (n & st & o & _ & ->); discriminate.
  - intros [-> | [(n & st & ->) | (n & st & o & ->)]]; discriminate.
Qed.

(** every started run has been closed out once the run task is gone, and conversely *)
Lemma hook_corr_complete p f r ra : hook_corr p f r ra ->
  (r = None -> p = PN \/ (exists n, p = PI n) \/ p = PF) /\
  (forall n, p = PS n -> r = Some RT_G_start \/ r = Some RT_WaitChild) /\
  (forall n, p = PE n -> r = Some RT_G_end) /\
  (p = PF -> r = Some RT_G_fin \/ r = Some RT_G_cs \/ (r = None /\ (f = Finished \/ f = Closed))) /\
  (p = PN -> r = None /\ (f = Created \/ f = Closed)) /\
  (forall n, p = PI n -> r = Some RT_New \/ r = Some RT_Created \/
                         (r = None /\ (f = Initialized \/ f = Closed))).
Proof.
  unfold hook_corr. intros H. destruct r as [[]|]; [ | | | | | | | destruct f]; dex; try contradiction; subst;
    repeat split; intros; try discriminate; eauto 10.
Qed.

Lemma rec_corr_complete q f r ra ex : rec_corr q f r ra ex ->
  (r = None -> q = QN \/ (exists n st, q = QI n st) \/ (exists n st o, q = QF n st o)) /\
  (forall n st, q = QR n st -> r = Some RT_G_start \/ r = Some RT_WaitChild).
Proof.
  unfold rec_corr. intros H. destruct r as [[]|]; [ | | | | | | | destruct f]; dex; try contradiction; subst;
    repeat split; intros; try discriminate; eauto 10.
Qed.

(** the result reported after the run is the one of the last `finished` record *)
Lemma PInv_result s : PInv s ->
  (runt s = Some RT_G_end \/ runt s = Some RT_G_fin \/ runt s = Some RT_G_cs \/
   (runt s = None /\ proto (hooks_of (history s)) = PF)) ->
  exists o, exited_proc s = Some o /\ last_result (pubs_of (history s)) = Some o.
Proof.
  rewrite proto_core, last_core. unfold PInv, AInv, fin_rec. simpl. intros H C.
  assert (G : exists n st o, exited_proc s = Some o /\ qtr (rel (trace s)) = QF n st o).
  { destruct C as [E | [E | [E | (E & Hp)]]]; rewrite E in H; [ | | | destruct (st_fsm s)];
      dex; try contradiction; try congruence; eauto 10. }
  destruct G as (n & st & o & He & Hq). exists o. split; auto. eapply qtr_QF_ltr; eauto.
Qed.

(** ---- what a single step appends to the trace ---- *)
Inductive Suf (l : list event) : list event -> list event -> Prop :=
| suf_nil : Suf l [] l
| suf_cons e n r : Suf l n r -> Suf l (e :: n) (e :: r).

Lemma Suf_eq l n r : Suf l n r -> r = n ++ l.
Proof. induction 1; simpl; congruence. Qed.

Lemma appended_ext s s' new : trace s' = new ++ trace s -> appended s s' = rev new.
Proof.
  intros E. unfold appended. rewrite E, app_length.
  replace (length new + length (trace s) - length (trace s))%nat with (length new) by lia.
  rewrite firstn_app, firstn_all, Nat.sub_diag. simpl. rewrite app_nil_r. reflexivity.
Qed.

Fixpoint has_me (l : list event) : bool :=
  match l with
  | [] => false
  | EvRet _ _ RMachineError :: _ => true
  | _ :: r => has_me r
  end.

Fixpoint has_hook (l : list event) : bool :=
  match l with
  | [] => false
  | EvHook _ :: _ => true
  | _ :: r => has_hook r
  end.

Lemma has_me_app a b : has_me (a ++ b) = has_me a || has_me b.
Proof. induction a as [|e a IH]; simpl; auto. destruct e as [| | |t c []]; auto. Qed.

Lemma has_hook_app a b : has_hook (a ++ b) = has_hook a || has_hook b.
Proof. induction a as [|e a IH]; simpl; auto. destruct e; auto. Qed.

Lemma has_me_In l t c : In (EvRet t c RMachineError) l -> has_me l = true.
Proof.
  induction l as [|e l IH]; simpl; [tauto|]. intros [-> | H]; auto.
  destruct e as [| | |t' c' []]; auto.
Qed.

Lemma has_hook_In l h : has_hook l = false -> ~ In (EvHook h) l.
Proof.
  induction l as [|e l IH]; simpl; [tauto|]. intros H [-> | Hin]; [discriminate|].
  destruct e; try discriminate; apply IH; auto.
Qed.

Definition no_hook (new : list event) : Prop := has_hook new = false.
Definition no_me (new : list event) : Prop := has_me new = false.
Definition okn (new : list event) : Prop := has_me new = true -> has_hook new = false.

Definition grows (P : list event -> Prop) (s s' : state) : Prop :=
  exists new, trace s' = new ++ trace s /\ P new.

Lemma grows_weaken (P Q : list event -> Prop) s s' : (forall n, P n -> Q n) -> grows P s s' -> grows Q s s'.
Proof. intros H (n & E & Hp). exists n. auto. Qed.

Lemma no_hook_okn n : no_hook n -> okn n.
Proof. unfold no_hook, okn. auto. Qed.
Lemma no_me_okn n : no_me n -> okn n.
Proof. unfold no_me, okn. intros -> ?. discriminate. Qed.

Lemma grows_pre (P : list event -> Prop) s s1 s' n1 :
  trace s1 = n1 ++ trace s -> grows P s1 s' -> (forall n, P n -> P (n ++ n1)) -> grows P s s'.
Proof.
  intros E (n & E' & Hp) Hc. exists (n ++ n1). split; auto. rewrite E', E, app_assoc. reflexivity.
Qed.

Lemma okn_plain n n1 : has_me n1 = false -> has_hook n1 = false -> okn n -> okn (n ++ n1).
Proof.
  unfold okn. intros A B H. rewrite has_me_app, has_hook_app, A, B, !orb_false_r. exact H.
Qed.

Lemma no_me_plain n n1 : has_me n1 = false -> no_me n -> no_me (n ++ n1).
Proof. unfold no_me. intros A H. rewrite has_me_app, A, H. reflexivity. Qed.

Ltac leaf :=
  solve [unfold grows; simpl; rewrite ?rl_trace, ?ar_trace; simpl;
         eexists; split; [apply Suf_eq; repeat constructor | unfold okn, no_me, no_hook; simpl; try congruence; auto]].

Lemma g_refuse s t c : grows no_hook s (refuse s t c).
Proof. unfold refuse. destruct (is_cont c); [destruct (cont_closed (release s))|]; leaf. Qed.

Lemma g_close_trigger s t : grows no_me s (close_trigger s t).
Proof.
  unfold close_trigger, close_enter_closed. destruct (st_fsm s); try leaf.
  - destruct (runt s); leaf.
  - unfold close_cont, cont_off_events; match goal with |- context [match cont_plugins ?x with _ => _ end] => destruct (cont_plugins x) end; leaf.
Qed.

Lemma g_enter_close s t : grows no_me s (enter_close s t).
Proof.
  unfold enter_close. simpl.
  assert (H : grows no_me s (close_trigger (publish s PEndAll) t)).
  { eapply (grows_pre _ s (publish s PEndAll) _ [EvPub PEndAll]); [reflexivity | apply g_close_trigger |].
    intros n. apply no_me_plain. reflexivity. }
  destruct (st_fsm s); auto. destruct (run_finished s) as [[|]|]; auto; leaf.
Qed.

Lemma g_enter s t c part2 : grows okn s (enter s t c part2).
Proof.
  assert (Hr : forall c, grows okn s (refuse s t c)).
  { intros c0. eapply grows_weaken; [apply no_hook_okn | apply g_refuse]. }
  unfold enter, enter_start, enter_run, enter_reset.
  destruct c; try (destruct (st_fsm s); auto; leaf); try leaf.
  - destruct (st_fsm s); auto; destruct (o_stmt o); leaf.
  - destruct part2; [eapply grows_weaken; [apply no_me_okn | apply g_enter_close]|].
    destruct (st_fsm s); auto; leaf.
Qed.

Lemma g_acquire s t c part2 : grows okn s (acquire s t c part2).
Proof.
  unfold acquire. destruct (holder s); [leaf|]. destruct (lockq s); [|leaf].
  eapply (grows_pre _ s (set_pc (set_holder s (Some t)) t c (if part2 then Granted2 else Granted1)) _ []);
    [reflexivity | apply g_enter |]. intros n. rewrite app_nil_r. auto.
Qed.

Lemma g_acquire_pre s s1 t c part2 n1 :
  trace s1 = n1 ++ trace s -> has_me n1 = false -> has_hook n1 = false -> grows okn s (acquire s1 t c part2).
Proof.
  intros E A B. eapply grows_pre; [exact E | apply g_acquire |]. intros n. apply okn_plain; auto.
Qed.

Ltac acq := eapply g_acquire_pre; [simpl; rewrite ?rl_trace; apply Suf_eq; repeat constructor | reflexivity | reflexivity].

Lemma g_do_call s t c : grows okn s (do_call s t c).
Proof.
  unfold do_call. destruct (find_task (tasks s) t); [leaf|].
  destruct c; cbn [nl_started nl_closed cont_closed running_process send_command set_trace].
  - destruct (nl_started s); [leaf | acq].
  - acq.
  - acq.
  - destruct (nl_closed s); [leaf|]. simpl. destruct (nl_started s); acq.
  - destruct (cont_closed s); [leaf | acq].
  - destruct (cont_closed s); [leaf | acq].
  - acq.
  - destruct (running_process s); leaf.
  - destruct (send_command s); leaf.
Qed.

Lemma g_do_step s t : grows okn s (do_step s t).
Proof.
  unfold do_step. destruct (find_task (tasks s) t) as [[c p]|]; [|leaf].
  destruct p; try leaf; try apply g_enter.
  - destruct c; try leaf. acq.
  - destruct (started_ev s); leaf.
  - destruct c; leaf.
  - destruct c; leaf.
  - unfold reset_reinit. destruct (st_fsm s); try leaf. destruct (runt s); leaf.
  - unfold reset_reinit. destruct (runt s); leaf.
  - destruct (run_finished s) as [[|]|]; try leaf.
    eapply grows_weaken; [apply no_me_okn | apply g_close_trigger].
  - unfold close_enter_closed. destruct (runt s); leaf.
  - unfold close_cont, cont_off_events; match goal with |- context [match cont_plugins ?x with _ => _ end] => destruct (cont_plugins x) end; leaf.
  - destruct (run_finished s) as [[|]|]; leaf.
Qed.

Lemma g_cont_finished n : forall s, grows no_me s (cont_finished s n).
Proof.
  induction n as [|n IH]; intros s; simpl; [leaf|].
  destruct (filter _ (cont_plugins s)) as [|[t b] r]; [leaf|].
  eapply grows_pre; [| apply IH |].
  - simpl. apply Suf_eq. repeat constructor.
  - intros m. apply no_me_plain. reflexivity.
Qed.

Lemma g_run_finish s s0 n1 :
  trace s = n1 ++ trace s0 -> has_me n1 = false -> grows no_me s0 (run_finish s).
Proof.
  intros E A. unfold run_finish. simpl. destruct (st_fsm s).
  1,2,4,5: (exists n1; split; [exact E | exact A]).
  match goal with |- grows _ _ (set_runt (cont_finished ?y ?n) _) =>
    destruct (g_cont_finished n y) as (m & Em & Hm) end.
  eexists. split.
  - simpl. rewrite Em. simpl. rewrite E. rewrite app_comm_cons, app_assoc. reflexivity.
  - unfold no_me in *. rewrite has_me_app, Hm. simpl. exact A.
Qed.

Lemma g_step_run s : grows no_me s (do_step_run s).
Proof.
  unfold do_step_run. destruct (runt s) as [[]|]; try leaf.
  - destruct (run_arg s); [leaf | apply (g_run_finish s s []); reflexivity].
  - simpl. destruct (run_arg s); [leaf | apply (g_run_finish _ s []); reflexivity].
  - destruct (run_call_pending s); [leaf|]. destruct (pending_exit s); [|leaf].
    simpl. destruct (run_arg s); [leaf | apply (g_run_finish _ s []); reflexivity].
  - apply (g_run_finish s s []); reflexivity.
Qed.

Theorem step_grows s l : grows okn s (step s l).
Proof.
  destruct l; simpl.
  - apply g_do_call.
  - apply g_do_step.
  - eapply grows_weaken; [apply no_me_okn | apply g_step_run].
  - unfold do_child_exit. destruct (alive s); leaf.
Qed.

(** a refused request adds nothing to the hook log *)
Theorem not_for_refused s l t c :
  In (EvRet t c RMachineError) (appended s (step s l)) ->
  forall h, ~ In (EvHook h) (appended s (step s l)).
Proof.
  destruct (step_grows s l) as (new & E & H). rewrite (appended_ext _ _ _ E).
  intros Hin h Hh. apply in_rev in Hin. apply in_rev in Hh.
  apply has_me_In in Hin. apply (has_hook_In _ h (H Hin)). exact Hh.
Qed.

(** ---- the `finished` record is published by the run task, with the child's outcome ---- *)
Lemma rel_app a b : rel (a ++ b) = rel a ++ rel b.
Proof. induction a as [|e a IH]; simpl; auto. destruct (relevant e); simpl; rewrite IH; reflexivity. Qed.

Lemma In_rel e l : In e l -> relevant e = true -> In e (rel l).
Proof.
  induction l as [|x l IH]; simpl; [tauto|]. intros [-> | H] Hr.
  - rewrite Hr. left. reflexivity.
  - destruct (relevant x); [right|]; auto.
Qed.

Definition is_fin_rec (e : event) : Prop := exists n st r, e = EvPub (PRunInfo n RFinished st r).

Lemma aapi_added k k' : aapi k k' ->
  exists add, k_rel k' = add ++ k_rel k /\ forall e, In e add -> ~ is_fin_rec e.
Proof.
  intros St. destruct St; simpl.
  - eexists [_; _]. split; [reflexivity|]. intros e [<- | [<- | []]] (n & st & r & E); discriminate.
  - exists []. split; [reflexivity|]. intros e [].
  - exists []. split; [reflexivity|]. intros e [].
Qed.

Lemma arun_added k k' : arun k k' ->
  exists add, k_rel k' = add ++ k_rel k /\
  forall n st r, In (EvPub (PRunInfo n RFinished st r)) add ->
    k_runt k = Some RT_WaitChild /\ k_runt k' = Some RT_G_end /\
    exists o a, r = Some o /\ k_pe k = Some o /\ k_ex k' = Some o /\ k_ra k = Some a /\ n = ra_no a /\ st = ra_stmt a.
Proof.
  intros St. destruct St; simpl; try (exists []; split; [reflexivity | intros ? ? ? []]).
  - eexists [_; _]. split; [reflexivity|]. intros n st r [E | [E | []]]; discriminate.
  - eexists [_; _]. split; [reflexivity|]. intros n st r [E | [E | []]]; [discriminate|].
    inversion E; subst. repeat split; auto. exists o, a. auto 10.
  - eexists [_]. split; [reflexivity|]. intros n st r [E | []]; discriminate.
Qed.

Lemma aenv_added o k k' : aenv o k k' -> k_rel k' = k_rel k.
Proof. intros St. destruct St; reflexivity. Qed.

Theorem result_from_child s l n st r : LkS s -> FI s ->
  In (EvPub (PRunInfo n RFinished st r)) (appended s (step s l)) ->
  l = StepRun /\ runt s = Some RT_WaitChild /\ runt (step s l) = Some RT_G_end /\
  exists o a, r = Some o /\ pending_exit s = Some o /\ exited_proc (step s l) = Some o /\
              run_arg s = Some a /\ n = ra_no a /\ st = ra_stmt a.
Proof.
  intros HL HF Hin. destruct (step_grows s l) as (new & E & _).
  rewrite (appended_ext _ _ _ E) in Hin. apply in_rev in Hin.
  assert (Hr : In (EvPub (PRunInfo n RFinished st r)) (rel new)) by (apply In_rel; auto).
  assert (Er : rel (trace (step s l)) = rel new ++ rel (trace s)) by (rewrite E, rel_app; reflexivity).
  assert (Hnil : rel (trace (step s l)) = rel (trace s) -> False).
  { intros E8. rewrite E8 in Er. symmetry in Er. apply (app_inv_tail _ _ []) in Er. rewrite Er in Hr. destruct Hr. }
  destruct (cls_step s l HL HF) as [Eq | St].
  - exfalso. apply Hnil. apply (core_fields _ _ Eq).
  - assert (Hapi : aapi (core_of s) (core_of (step s l)) -> False).
    { intros A. destruct (aapi_added _ _ A) as (add & Ea & Hno). simpl in Ea. rewrite Er in Ea.
      apply app_inv_tail in Ea. rewrite Ea in Hr. apply (Hno _ Hr). exists n, st, r. reflexivity. }
    destruct l; cbn [step lstep] in *; try (exfalso; apply Hapi; exact St).
    + destruct (arun_added _ _ St) as (add & Ea & Hyes). simpl in Ea. rewrite Er in Ea.
      apply app_inv_tail in Ea. rewrite Ea in Hr. destruct (Hyes _ _ _ Hr) as (H1 & H2 & H3).
      split; auto.
    + exfalso. apply Hnil. apply (aenv_added _ _ _ St).
Qed.

(** the pending outcome is the one the environment delivered with [ChildExit] *)
Theorem pe_source s l o : LkS s -> FI s ->
  pending_exit (step s l) = Some o -> pending_exit s = Some o \/ l = ChildExit o.
Proof.
  intros HL HF H. destruct (cls_step s l HL HF) as [Eq | St].
  - left. destruct (core_fields _ _ Eq) as (_ & _ & _ & _ & E & _). congruence.
  - unfold core_of in St. destruct l; cbn [step lstep] in *; inversion St; subst; try (left; congruence).
    right. f_equal. congruence.
Qed.

(** the record a publication follows *)
Definition last_rec (l : list pub) : option (Z * rphase * Z) :=
  fold_left (fun acc p => match p with PRunInfo n ph st _ => Some (n, ph, st) | _ => acc end) l None.

Definition q_last (q : qst) : option (Z * rphase * Z) :=
  match q with
  | QN => None
  | QI n st => Some (n, RInitialized, st)
  | QR n st => Some (n, RRunning, st)
  | QF n st _ => Some (n, RFinished, st)
  | QBad => None
  end.

Lemma rinfo_last_from l : forall q acc, q <> QBad -> q_last q = acc -> fold_left qstep l q <> QBad ->
  q_last (fold_left qstep l q) = fold_left (fun acc p => match p with PRunInfo n ph st _ => Some (n, ph, st) | _ => acc end) l acc.
Proof.
  induction l as [|p l IH]; simpl; intros q acc Hq Ha Hb; auto.
  assert (Hq' : qstep q p <> QBad) by (intros E; rewrite E, rinfo_from_bad in Hb; auto).
  apply IH; auto.
  destruct p as [|n ph st r| | | | |]; simpl in *; auto.
  destruct ph, r, q; simpl in *; try congruence; destruct (_ && _); simpl in *; congruence.
Qed.

Lemma rinfo_last l : rinfo l <> QBad -> q_last (rinfo l) = last_rec l.
Proof. intros H. apply rinfo_last_from; auto. discriminate. Qed.

(** a `running` / `finished` record carries the number and the script of the record before it *)
Lemma rinfo_numbering l1 l2 n ph st r :
  rinfo (l1 ++ PRunInfo n ph st r :: l2) <> QBad ->
  match ph with
  | RInitialized => r = None /\ (last_rec l1 = None \/ (exists m st', last_rec l1 = Some (m, RInitialized, st'))
                                \/ exists m st', last_rec l1 = Some (m, RFinished, st'))
  | RRunning => r = None /\ last_rec l1 = Some (n, RInitialized, st)
  | RFinished => r <> None /\ last_rec l1 = Some (n, RRunning, st)
  end.
Proof.
  intros H. change (l1 ++ PRunInfo n ph st r :: l2) with (l1 ++ [PRunInfo n ph st r] ++ l2) in H.
  rewrite app_assoc in H. apply rinfo_prefix in H.
  assert (H1 : rinfo l1 <> QBad) by (eapply rinfo_prefix; eauto).
  rewrite <- (rinfo_last _ H1). unfold rinfo in *. rewrite fold_left_app in H. simpl in H.
  destruct ph, r as [o|], (fold_left qstep l1 QN) as [|m st'|m st'|m st' o'|]; simpl in *; try congruence;
    try (split; [reflexivity || discriminate | eauto 6]; fail).
  - destruct (Z.eqb_spec n m), (Z.eqb_spec st st'); simpl in *; try congruence. subst. auto.
  - destruct (Z.eqb_spec n m), (Z.eqb_spec st st'); simpl in *; try congruence. subst. split; [discriminate | auto].
Qed.

(** ---- progress of the run task ---- *)
Definition rank (r : option rpc) : nat :=
  match r with
  | None => 0
  | Some RT_G_cs => 1 | Some RT_G_fin => 2 | Some RT_G_end => 3 | Some RT_WaitChild => 4
  | Some RT_G_start => 5 | Some RT_Created => 6 | Some RT_New => 7
  end%nat.

Lemma arun_rank k k' : arun k k' -> S (rank (k_runt k')) = rank (k_runt k).
Proof. intros St. destruct St; reflexivity. Qed.

(** [StepRun] is a no-op only when there is no run task or it waits for the child / for
    the state notification of the run() call (assumption F); otherwise it is a transition *)
Lemma step_run_cases s : FI s ->
  (do_step_run s = s /\
   (runt s = None \/ (runt s = Some RT_WaitChild /\ (run_call_pending s = true \/ pending_exit s = None))))
  \/ arun (core_of s) (core_of (do_step_run s)).
Proof.
  intros HF. pose proof HF as [HP HS]. unfold do_step_run.
  destruct (runt s) as [x|] eqn:Er; [|left; auto].
  assert (Hra : early x = true -> st_fsm s = Running /\ exists a, run_arg s = Some a).
  { intros He. assert (Hf : st_fsm s = Running) by (eapply sc_early; eauto). split; auto.
    destruct (run_arg s) as [a|] eqn:Era; eauto. exfalso. apply (sc_ra _ _ _ _ _ _ HS); auto. }
  destruct x.
  - destruct Hra as (Hf & a & Era); auto. rewrite Era.
    right. core_simpl. rewrite Er, Era. apply a_new.
  - destruct Hra as (Hf & a & Era); auto. simpl. rewrite Era.
    right. core_simpl. rewrite Er, Era. apply a_created.
  - right. core_simpl. rewrite Er. apply a_gstart.
  - destruct (run_call_pending s); [left; auto|].
    destruct (pending_exit s) as [o|] eqn:Epe; [|left; auto].
    destruct Hra as (Hf & a & Era); auto. simpl. rewrite Era.
    right. core_simpl. rewrite Er, Era, Epe. apply a_wait.
  - destruct Hra as (Hf & a & Era); auto.
    destruct (cls_run_finish s s Hf Er eq_refl) as [E | St]; [|right; exact St].
    exfalso. destruct (core_fields _ _ E) as (E1 & _). unfold run_finish in E1. simpl in E1. rewrite Hf in E1.
    simpl in E1.
    match type of E1 with context [cont_finished ?y ?n] =>
      destruct (core_fields _ _ (core_cont_finished n y)) as (E1' & _) end.
    simpl in E1'. rewrite E1' in E1. discriminate.
  - right. core_simpl. rewrite Er. apply a_fin.
  - right. core_simpl. rewrite Er. apply a_cs.
Qed.

Lemma arun_changes s s' : arun (core_of s) (core_of s') -> s' <> s.
Proof. intros St E. apply arun_rank in St. rewrite E in St. lia. Qed.

Theorem measure_decreases s : FI s ->
  step s StepRun <> s -> S (rank (runt (step s StepRun))) = rank (runt s).
Proof.
  intros HF Hne. simpl in *. destruct (step_run_cases s HF) as [(E & _) | St]; [contradiction|].
  apply (arun_rank _ _ St).
Qed.

Theorem run_enabled s r : FI s -> runt s = Some r ->
  (r = RT_WaitChild -> run_call_pending s = false /\ pending_exit s <> None) ->
  step s StepRun <> s /\ arun (core_of s) (core_of (step s StepRun)).
Proof.
  intros HF Hr Hw. simpl. destruct (step_run_cases s HF) as [(E & [C | (C & D)]) | St].
  - congruence.
  - rewrite Hr in C. inversion C. destruct (Hw H0) as (A & B). destruct D; congruence.
  - split; auto. apply arun_changes. exact St.
Qed.

Theorem measure_nonincreasing s l : LkS s -> FI s -> PInv s -> runt s <> None ->
  (rank (runt (step s l)) <= rank (runt s))%nat.
Proof.
  intros HL HF HP Hr. destruct (cls_step s l HL HF) as [E | St].
  - destruct (core_fields _ _ E) as (_ & -> & _). auto.
  - destruct l; cbn [step lstep] in *.
    1,2: (unfold PInv, AInv, core_of in *; simpl in HP; inversion St; subst; try congruence;
          match goal with H : Initialized = _ |- _ => rewrite <- H in HP end;
          destruct (runt _) as [[]|]; dex; congruence).
    + apply arun_rank in St. simpl in St. lia.
    + unfold core_of in St. inversion St. simpl. replace (runt (do_child_exit s o)) with (runt s) by congruence. auto.
Qed.

(** the F-guard is discharged by the run() call that holds the lock *)
Theorem f_guard_step s : run_call_pending s = true -> started_ev s = true ->
  exists t, holder s = Some t /\ step s (Step t) <> s /\ run_call_pending (step s (Step t)) = false.
Proof.
  unfold run_call_pending. destruct (holder s) as [t|] eqn:Eh; [|discriminate].
  destruct (find_task (tasks s) t) as [[c p]|] eqn:Ef; [|discriminate].
  destruct p; try discriminate. intros _ Hs. exists t. split; auto.
  simpl. unfold do_step. rewrite Ef, Hs. split.
  - intros E. apply (f_equal (fun x => find_task (tasks x) t)) in E. simpl in E.
    rewrite find_put_eq, Ef in E. discriminate.
  - simpl. rewrite Eh, find_put_eq. reflexivity.
Qed.

(** once the child has exited and the gates are released, the run task ends:
    the state is `finished` and everything waiting for the run is released *)
Theorem run_to_end n : forall s, LkS s -> FI s -> PInv s ->
  rank (runt s) = S n -> (S n <= 4)%nat ->
  (runt s = Some RT_WaitChild -> run_call_pending s = false /\ pending_exit s <> None) ->
  let s' := run_labels s (repeat StepRun (S n)) in
  runt s' = None /\ st_fsm s' = Finished /\ run_finished s' = Some true.
Proof.
  induction n as [|n IH]; intros s HL HF HP Hk Hle Hw.
  - simpl. destruct (runt s) as [[]|] eqn:Er; try discriminate.
    destruct (run_enabled s _ HF Er) as (_ & St); [discriminate|].
    unfold PInv, AInv, core_of in *. simpl in HP. rewrite Er in HP. destruct HP as (Hf & _).
    simpl in St. inversion St; repeat split; congruence.
  - destruct (runt s) as [r|] eqn:Er; [|discriminate].
    destruct (run_enabled s _ HF Er) as (_ & St).
    { intros ->. apply Hw. reflexivity. }
    pose proof (arun_rank _ _ St) as Hrk. simpl in Hrk. rewrite Er, Hk in Hrk.
    change (run_labels s (repeat StepRun (S (S n)))) with (run_labels (step s StepRun) (repeat StepRun (S n))).
    apply IH.
    + apply LkS_step; auto.
    + apply FI_step; auto.
    + apply PInv_step; auto.
    + simpl. lia.
    + lia.
    + intros E. simpl in E. rewrite E in Hrk. simpl in Hrk. lia.
Qed.

(** under ANY schedule: while the run task exists, the effective steps of the run task
    (those that lower the rank; by [measure_decreases] these are the ones that change
    the state) and the remaining rank never exceed the rank at the beginning *)
Fixpoint run_exists (s : state) (ls : list label) : Prop :=
  match ls with
  | [] => True
  | l :: r => runt s <> None /\ run_exists (step s l) r
  end.

Fixpoint eff (s : state) (ls : list label) : nat :=
  match ls with
  | [] => 0%nat
  | l :: r =>
    ((match l with
      | StepRun => if Nat.ltb (rank (runt (step s l))) (rank (runt s)) then 1 else 0
      | _ => 0
      end) + eff (step s l) r)%nat
  end.

Theorem eff_bound ls : forall s, LkS s -> FI s -> PInv s -> run_exists s ls ->
  (eff s ls + rank (runt (run_labels s ls)) <= rank (runt s))%nat.
Proof.
  induction ls as [|l ls IH]; intros s HL HF HP Hex.
  - simpl. lia.
  - destruct Hex as (Hr & Hex).
    specialize (IH (step s l) (LkS_step _ l HL) (FI_step _ l HL HF) (PInv_step _ l HL HF HP) Hex).
    pose proof (measure_nonincreasing s l HL HF HP Hr) as Hn.
    change (run_labels s (l :: ls)) with (run_labels (step s l) ls).
    cbn [eff]. destruct l; try lia.
    destruct (Nat.ltb_spec (rank (runt (step s StepRun))) (rank (runt s))); lia.
Qed.

(** ---- the statements, for every label sequence ---- *)
Section All.
  Variables (stmt start : Z) (th md : bool) (ls : list label).
  Let s := run_labels (init_state stmt start th md) ls.

  Lemma all_inv : LkS s /\ FI s /\ PInv s /\ SInv (core_of s).
  Proof. apply reach_all. Qed.

  Lemma all_order : proto (hooks_of (history s)) <> PBad.
  Proof. eapply hook_corr_not_bad. apply PInv_hook_corr. apply all_inv. Qed.

  Lemma all_window : Forall window_ok (hooks_of (history s)).
  Proof. apply proto_window. apply all_order. Qed.

  Lemma all_complete :
    let p := proto (hooks_of (history s)) in
    hook_corr p (st_fsm s) (runt s) (run_arg s) /\
    (runt s = None -> p = PN \/ (exists n, p = PI n) \/ p = PF) /\
    (forall n, p = PS n -> runt s = Some RT_G_start \/ runt s = Some RT_WaitChild) /\
    (forall n, p = PE n -> runt s = Some RT_G_end) /\
    (p = PF -> runt s = Some RT_G_fin \/ runt s = Some RT_G_cs \/
               (runt s = None /\ (st_fsm s = Finished \/ st_fsm s = Closed))) /\
    (p = PN -> runt s = None /\ (st_fsm s = Created \/ st_fsm s = Closed)) /\
    (forall n, p = PI n -> runt s = Some RT_New \/ runt s = Some RT_Created \/
                           (runt s = None /\ (st_fsm s = Initialized \/ st_fsm s = Closed))).
  Proof.
    simpl. assert (H : hook_corr (proto (hooks_of (history s))) (st_fsm s) (runt s) (run_arg s))
      by (apply PInv_hook_corr; apply all_inv).
    split; auto. apply (hook_corr_complete _ _ _ _ H).
  Qed.

  Lemma all_not_for_refused l t c :
    In (EvRet t c RMachineError) (appended s (step s l)) -> forall h, ~ In (EvHook h) (appended s (step s l)).
  Proof. apply not_for_refused. Qed.

  Lemma all_run_info_once :
    let q := rinfo (pubs_of (history s)) in
    q <> QBad /\
    rec_corr q (st_fsm s) (runt s) (run_arg s) (exited_proc s) /\
    (runt s = None -> q = QN \/ (exists n st, q = QI n st) \/ (exists n st o, q = QF n st o)) /\
    (forall n st, q = QR n st -> runt s = Some RT_G_start \/ runt s = Some RT_WaitChild).
  Proof.
    simpl. assert (H : rec_corr (rinfo (pubs_of (history s))) (st_fsm s) (runt s) (run_arg s) (exited_proc s))
      by (apply PInv_rec_corr; apply all_inv).
    split; [eapply rec_corr_not_bad; eauto|]. split; auto. apply (rec_corr_complete _ _ _ _ _ H).
  Qed.

  Lemma all_run_info_numbering l1 l2 n ph st r :
    pubs_of (history s) = l1 ++ PRunInfo n ph st r :: l2 ->
    match ph with
    | RInitialized => r = None /\ (last_rec l1 = None \/ (exists m st', last_rec l1 = Some (m, RInitialized, st'))
                                  \/ exists m st', last_rec l1 = Some (m, RFinished, st'))
    | RRunning => r = None /\ last_rec l1 = Some (n, RInitialized, st)
    | RFinished => r <> None /\ last_rec l1 = Some (n, RRunning, st)
    end.
  Proof.
    intros E. apply (rinfo_numbering l1 l2). rewrite <- E. apply all_run_info_once.
  Qed.

  Lemma all_result_matches :
    (runt s = Some RT_G_end \/ runt s = Some RT_G_fin \/ runt s = Some RT_G_cs \/
     (runt s = None /\ proto (hooks_of (history s)) = PF)) ->
    exists o, exited_proc s = Some o /\ last_result (pubs_of (history s)) = Some o.
  Proof. apply PInv_result. apply all_inv. Qed.

  Lemma all_result_from_child l n st r :
    In (EvPub (PRunInfo n RFinished st r)) (appended s (step s l)) ->
    l = StepRun /\ runt s = Some RT_WaitChild /\ runt (step s l) = Some RT_G_end /\
    exists o a, r = Some o /\ pending_exit s = Some o /\ exited_proc (step s l) = Some o /\
                run_arg s = Some a /\ n = ra_no a /\ st = ra_stmt a.
  Proof. apply result_from_child; apply all_inv. Qed.

  Lemma all_pending_exit_source l o :
    pending_exit (step s l) = Some o -> pending_exit s = Some o \/ l = ChildExit o.
  Proof. apply pe_source; apply all_inv. Qed.

  Lemma all_exited_proc_kept l :
    exited_proc (step s l) = exited_proc s \/ (l = StepRun /\ (runt s = Some RT_New \/ runt s = Some RT_WaitChild)).
  Proof.
    destruct all_inv as (HL & HF & _). destruct (cls_step s l HL HF) as [E | St].
    - left. apply (core_fields _ _ E).
    - unfold core_of in St. destruct l; cbn [step lstep] in *; inversion St; subst; auto.
  Qed.

  Lemma all_finished_set :
    (runt s = None -> run_finished s <> Some false) /\ (runt s <> None -> run_finished s = Some false).
  Proof.
    destruct all_inv as (_ & (_ & HS) & _). split.
    - apply (sc_rf_none _ _ _ _ _ _ HS).
    - destruct (runt s) as [x|] eqn:Er; [|congruence]. intros _. eapply sc_rf_some; eauto.
  Qed.

  Lemma all_measure_decreases :
    step s StepRun <> s -> S (rank (runt (step s StepRun))) = rank (runt s).
  Proof. apply measure_decreases. apply all_inv. Qed.

  Lemma all_measure_nonincreasing l : runt s <> None -> (rank (runt (step s l)) <= rank (runt s))%nat.
  Proof. apply measure_nonincreasing; apply all_inv. Qed.

  Lemma all_progress r : runt s = Some r ->
    step s StepRun <> s
    \/ (r = RT_WaitChild /\ run_call_pending s = false /\ pending_exit s = None)
    \/ (r = RT_WaitChild /\ run_call_pending s = true /\
        exists t, holder s = Some t /\ step s (Step t) <> s /\ run_call_pending (step s (Step t)) = false).
  Proof.
    intros Hr. destruct all_inv as (HL & HF & HP & HS).
    destruct (run_call_pending s) eqn:Ep.
    - destruct (Nat.eq_dec (rank (Some r)) 4%nat) as [E4 | N4].
      + assert (r = RT_WaitChild) by (destruct r; simpl in E4; congruence). subst r.
        right. right. repeat split; auto. apply f_guard_step; auto.
        unfold SInv in HS. simpl in HS. rewrite Hr in HS. exact HS.
      + left. apply (run_enabled s r HF Hr). intros ->. simpl in N4. congruence.
    - destruct (pending_exit s) eqn:Epe.
      + left. apply (run_enabled s r HF Hr). intros _. split; congruence.
      + destruct (Nat.eq_dec (rank (Some r)) 4%nat) as [E4 | N4].
        * assert (r = RT_WaitChild) by (destruct r; simpl in E4; congruence). subst r. right. left. auto.
        * left. apply (run_enabled s r HF Hr). intros ->. simpl in N4. congruence.
  Qed.

  Lemma all_eff_bound ls' : run_exists s ls' ->
    (eff s ls' + rank (runt (run_labels s ls')) <= rank (runt s))%nat.
  Proof. apply eff_bound; apply all_inv. Qed.

  Lemma all_run_to_end n :
    rank (runt s) = S n -> (S n <= 4)%nat ->
    (runt s = Some RT_WaitChild -> run_call_pending s = false /\ pending_exit s <> None) ->
    let s' := run_labels s (repeat StepRun (S n)) in
    runt s' = None /\ st_fsm s' = Finished /\ run_finished s' = Some true.
  Proof. apply run_to_end; apply all_inv. Qed.
End All.

(** ---- a concrete history for the non-vacuity examples ---- *)
Definition ex_run (t : nat) (c : call) (o : outcome) : list label :=
  [Call t c; StepRun; StepRun; StepRun; Step t; Step t; ChildExit o; StepRun; StepRun; StepRun; StepRun].

Definition ex_no_opts : opts := mkOpts None None None None.

(** start; run (returns); reset; run_and_continue (raises); close *)
Definition ex_labels : list label :=
  [Call 0%nat CStart; Step 0%nat; Step 0%nat; Step 0%nat]
  ++ ex_run 1%nat CRun OReturn
  ++ [Call 2%nat (CReset ex_no_opts); Step 2%nat; Step 2%nat; Step 2%nat]
  ++ ex_run 3%nat CRunCont ORaise
  ++ [Call 4%nat CClose; Step 4%nat; Step 4%nat].

Definition ex_init : state := init_state 7 1 false false.

(** the protocol state after every prefix of the history *)
Definition ex_proto_states : list pst :=
  map (fun n => proto (hooks_of (history (run_labels ex_init (firstn n ex_labels)))))
      (seq 0 (S (length ex_labels))).

Definition is_run_info (p : pub) : bool := match p with PRunInfo _ _ _ _ => true | _ => false end.

(** the state in the middle of the first run (the child is running) *)
Definition ex_mid : state := run_labels ex_init (firstn 10 ex_labels).
