(** What the run session does when ANY await inside it raises ("failure to start", a
    failing hook, a failing process wait, a failing on_finished ...).

    The programs are the control-flow skeletons of Callback._run / _finish
    (nextline/fsm/callback.py) and of RunSession.run / relay_events (session.py),
    REGENERATED from the source at every check (Gen/CallbackSkeleton.v, fail-closed
    translator translate/callback_skeleton.py).  This file gives them a semantics in which
    every [AwaitAct] either returns or raises, decided by an oracle (a list of booleans
    consumed in execution order, [true] = raises; exhausted = returns), with Python's
    propagation through try/finally and `async with`.

    `async with self._hook.awith.run(...)`: apluggy enters the `run` context of every plugin
    in pluggy order (a user plugin registered later comes FIRST) and exits them in reverse,
    passing the exception on: that is nesting.  [user_ctx] is a user plugin's context whose
    entry and exit may raise; inside it, RunSession.run; inside that, relay_events.  An
    asynccontextmanager is a generator: the body of the `async with` runs at its [Yield]
    (an exception of the body is thrown in there), hence [subst_yield]. *)
From Coq Require Import List Bool Arith ZArith.
From NL Require Export Gen.CallbackSkeleton.
Import ListNotations.

Definition user_ctx : stmt := Seq (AwaitAct UserEnter) (TryFinally Yield (AwaitAct UserExit)).

Fixpoint subst_yield (g body : stmt) : stmt :=
  match g with
  | Yield => body
  | Seq a b => Seq (subst_yield a body) (subst_yield b body)
  | TryFinally a b => TryFinally (subst_yield a body) (subst_yield b body)
  | WithCtx c b => WithCtx c (subst_yield b body)
  | x => x
  end.

Fixpoint inline (fuel : nat) (s : stmt) : stmt :=
  match fuel with
  | O => s
  | S f =>
    match s with
    | Seq a b => Seq (inline f a) (inline f b)
    | TryFinally a b => TryFinally (inline f a) (inline f b)
    | WithCtx HookRun b => inline f (subst_yield user_ctx (subst_yield session_skeleton b))
    | WithCtx RelayEvents b => inline f (subst_yield relay_skeleton b)
    | CallFinish => inline f finish_skeleton
    | x => x
    end
  end.

(** the whole of `Callback._run`, contexts and calls inlined *)
Definition program : stmt := inline 12 run_skeleton.

Fixpoint flat (s : stmt) : bool :=
  match s with
  | Seq a b | TryFinally a b => flat a && flat b
  | Yield | WithCtx _ _ | CallFinish => false
  | _ => true
  end.

(** ---- semantics *)
Inductive ev := Ev (a : act) (ok : bool).     (* ok = false: this await raised *)

(** (raised?, trace, rest of the oracle) *)
Fixpoint exec (s : stmt) (o : list bool) : bool * list ev * list bool :=
  match s with
  | Act a => (false, [Ev a true], o)
  | AwaitAct a =>
      match o with
      | true :: r => (true, [Ev a false], r)
      | false :: r => (false, [Ev a true], r)
      | [] => (false, [Ev a true], [])
      end
  | Seq a b =>
      let '(r, t, o1) := exec a o in
      if r then (true, t, o1)
      else let '(r2, t2, o2) := exec b o1 in (r2, t ++ t2, o2)
  | TryFinally a b =>
      let '(r, t, o1) := exec a o in
      let '(r2, t2, o2) := exec b o1 in
      (r || r2, t ++ t2, o2)        (* the finally block always runs; its own exception replaces the body's *)
  | _ => (false, [], o)
  end.

Definition trace (o : list bool) : list ev := snd (fst (exec program o)).
Definition raises (o : list bool) : bool := fst (fst (exec program o)).

(** every execution there is, independent of any oracle *)
Fixpoint outcomes (s : stmt) : list (bool * list ev) :=
  match s with
  | Act a => [(false, [Ev a true])]
  | AwaitAct a => [(false, [Ev a true]); (true, [Ev a false])]
  | Seq a b =>
      flat_map (fun x : bool * list ev => if fst x then [x] else map (fun y : bool * list ev => (fst y, snd x ++ snd y)) (outcomes b)) (outcomes a)
  | TryFinally a b =>
      flat_map (fun x : bool * list ev => map (fun y : bool * list ev => (fst x || fst y, snd x ++ snd y)) (outcomes b)) (outcomes a)
  | _ => [(false, @nil ev)]
  end.

Lemma exec_in_outcomes : forall s o, In (fst (exec s o)) (outcomes s).
Proof.
  induction s as [ | a IHa b IHb | a | a | | a IHa b IHb | c b IHb | ]; intros o; simpl; auto.
  - specialize (IHa o). destruct (exec a o) as [[r t] o1] eqn:Ea. simpl in IHa.
    apply in_flat_map. exists (r, t). split; [exact IHa | ]. simpl. destruct r.
    + left. reflexivity.
    + specialize (IHb o1). destruct (exec b o1) as [[r2 t2] o2]. simpl in *.
      apply in_map_iff. exists (r2, t2). split; auto.
  - destruct o as [ | [ | ] r]; simpl; auto.
  - specialize (IHa o). destruct (exec a o) as [[r t] o1] eqn:Ea. simpl in IHa.
    specialize (IHb o1). destruct (exec b o1) as [[r2 t2] o2]. simpl in *.
    apply in_flat_map. exists (r, t). split; [exact IHa | ].
    apply in_map_iff. exists (r2, t2). split; auto.
Qed.

Lemma forall_oracles : forall (P : list ev -> bool),
  forallb (fun x => P (snd x)) (outcomes program) = true -> forall o, P (trace o) = true.
Proof.
  intros P H o. rewrite forallb_forall in H. unfold trace.
  apply (H (fst (exec program o))). apply exec_in_outcomes.
Qed.

(** ---- reading a trace *)
Definition act_eqb (a b : act) : bool :=
  match a, b with
  | NewRunFinished, NewRunFinished | NewStarted, NewStarted | CreateTaskRun, CreateTaskRun | AwaitStarted, AwaitStarted
  | SetStarted, SetStarted | SetRunArgNone, SetRunArgNone | Finish, Finish | SetRunFinished, SetRunFinished
  | InitSession, InitSession | Spawn, Spawn | StartRunHook, StartRunHook | AwaitProcess, AwaitProcess
  | SetExited, SetExited | EndRunHook, EndRunHook | MonitorStart, MonitorStart | MarkInFinally, MarkInFinally
  | MonitorDrain, MonitorDrain | Sentinel, Sentinel | AwaitMonitor, AwaitMonitor | UserEnter, UserEnter
  | UserExit, UserExit => true
  | _, _ => false
  end.

Definition act_of (e : ev) : act := match e with Ev a _ => a end.
Definition acts (t : list ev) : list act := map act_of t.

Fixpoint count (a : act) (l : list act) : nat :=
  match l with [] => O | b :: r => (if act_eqb a b then 1 else 0) + count a r end.
Definition called (a : act) (t : list ev) : bool := negb (count a (acts t) =? 0).
(** the await of [a] was reached and returned *)
Definition returned (a : act) (t : list ev) : bool :=
  existsb (fun e => match e with Ev b ok => act_eqb a b && ok end) t.

Fixpoint index (a : act) (l : list act) : option nat :=
  match l with [] => None | b :: r => if act_eqb a b then Some O else option_map S (index a r) end.
Definition before (a b : act) (t : list ev) : bool :=
  match index a (acts t), index b (acts t) with Some i, Some j => i <? j | _, _ => false end.
Fixpoint after (a : act) (l : list act) : list act :=
  match l with [] => [] | b :: r => if act_eqb a b then r else after a r end.
Fixpoint acts_eqb (x y : list act) : bool :=
  match x, y with [] , [] => true | a :: x', b :: y' => act_eqb a b && acts_eqb x' y' | _, _ => false end.

(** ---- the statements of C12 about failing runs, as decidable predicates on a trace *)

(** run_arg is withdrawn before the (single) transition to `finished`; the event that wait()
    and close() wait for is set after it even if it raises; the run() call is unblocked *)
Definition run_arg_withdrawn_before_finished (t : list ev) : bool :=
  (count Finish (acts t) =? 1) && (count SetRunArgNone (acts t) =? 1)
  && before SetRunArgNone Finish t && before Finish SetRunFinished t
  && (count SetRunFinished (acts t) =? 1) && (1 <=? count SetStarted (acts t)).

(** after the transition to `finished` nothing happens but setting that event *)
Definition nothing_after_finished (t : list ev) : bool :=
  acts_eqb (after Finish (acts t)) [SetRunFinished].

(** on_end_run is called iff every earlier await of the session returned; on_start_run is
    called iff the user context was entered and the process was spawned *)
Definition end_run_iff (t : list ev) : bool :=
  Bool.eqb (called EndRunHook t)
           (returned UserEnter t && returned Spawn t && returned StartRunHook t && returned AwaitProcess t
            && returned MonitorDrain t && returned Sentinel t && returned AwaitMonitor t)
  && Bool.eqb (called StartRunHook t) (returned UserEnter t && returned Spawn t)
  && (count EndRunHook (acts t) <=? 1) && (count StartRunHook (acts t) <=? 1)
  && (negb (called EndRunHook t) || before StartRunHook EndRunHook t).

(** a spawned process is awaited -- provided on_start_run returned *)
Definition process_awaited_if_started (t : list ev) : bool :=
  negb (returned Spawn t && returned StartRunHook t) || called AwaitProcess t.
Definition process_awaited (t : list ev) : bool :=
  negb (returned Spawn t) || called AwaitProcess t.

(** the monitor task, once created, is sent towards its end (drain attempted); it is awaited
    iff the drain and the sentinel put returned *)
Definition monitor_closed (t : list ev) : bool :=
  Bool.eqb (called MonitorStart t) (called MonitorDrain t)
  && Bool.eqb (called AwaitMonitor t) (returned MonitorDrain t && returned Sentinel t).

(** ---- correspondence with real runs (harness/props/c12.py) ----
    observable projection: the hooks a recording plugin sees, in order
    (1 on_start_run, 2 on_end_run, 3 on_finished), whether run_arg was None at on_finished,
    whether the run() call was unblocked, whether the finished-event was set *)
Fixpoint hooks (l : list act) : list nat :=
  match l with
  | [] => []
  | StartRunHook :: r => 1 :: hooks r
  | EndRunHook :: r => 2 :: hooks r
  | Finish :: r => 3 :: hooks r
  | _ :: r => hooks r
  end.

Definition observation := (list nat * bool * bool * bool)%type.

Definition observe (o : list bool) : observation :=
  let t := trace o in
  (hooks (acts t), before SetRunArgNone Finish t, called SetStarted t, called SetRunFinished t).

Fixpoint nats_eqb (x y : list nat) : bool :=
  match x, y with [], [] => true | a :: x', b :: y' => (a =? b) && nats_eqb x' y' | _, _ => false end.

Definition case_ok (c : list bool * observation) : bool :=
  let '(o, (h, a, s, f)) := c in
  let '(h', a', s', f') := observe o in
  nats_eqb h h' && Bool.eqb a a' && Bool.eqb s s' && Bool.eqb f f'.

Fixpoint bad_from (n : nat) (cases : list (list bool * observation)) : list nat :=
  match cases with
  | [] => []
  | c :: r => if case_ok c then bad_from (S n) r else n :: bad_from (S n) r
  end.
