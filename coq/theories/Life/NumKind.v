(** C14 support: what one step of the lifecycle model can do to the
    RunArgComposer fields, [run_arg], the position of the lock holder inside a
    start / reset transition, and the trace.  One classification lemma
    ([step_kind]) proved once; the invariants of Life/Numbering.v are proved
    from it without unfolding the model again. *)
From NL Require Import Life.Model Life.LockInv Life.FsmInv Life.Hist.
From Coq Require Import Lia.
Open Scope Z_scope.

(** ---- the view of a state ---- *)
Definition comp (s : state) : Z * Z * bool * bool := (c_stmt s, c_next s, c_threads s, c_modules s).

(** how far the holder is inside a transition that touches the composer:
    1 = start, before initialize_run; 2 = reset, statement applied, the rest not yet;
    3 = reset, every option applied; 4 = reset, re-initialised *)
Definition stage (p : pc) : nat :=
  match p with
  | S_G1 => 1 | Z_G1 => 2 | Z_G1b | Z_WaitRunTask => 3 | Z_G3 | Z_G4 => 4 | _ => 0
  end%nat.

Definition hpc (s : state) : option (call * pc) :=
  match holder s with Some t => find_task (tasks s) t | None => None end.

Definition view_of (x : option (call * pc)) : option (call * nat) :=
  match x with
  | Some (c, p) => match stage p with O => None | k => Some (c, k) end
  | None => None
  end.

Definition hview (s : state) : option (call * nat) := view_of (hpc s).

Definition pre_init (f : fsm) : Prop := f = Created \/ f = Closed.

(** events that say nothing about numbering / script, given the composer's statement *)
Definition quiet_ev (cs : Z) (e : event) : Prop :=
  match e with
  | EvCall _ _ => True
  | EvRet _ c _ => match c with CReset _ => False | _ => True end
  | EvHook r => match h_hook r with HInitRun | HReset | HStartRun | HEndRun => False | _ => True end
  | EvPub (PStatement x) => x = cs
  | EvPub (PRunNo _) | EvPub (PRunInfo _ _ _ _) => False
  | EvPub _ => True
  end.

Definition call_ev (e : event) : Prop := match e with EvCall _ _ => True | _ => False end.

(** [tr'] is [tr] with events satisfying [P] consed on top *)
Inductive ext (P : event -> Prop) (tr : list event) : list event -> Prop :=
| ext_nil : ext P tr tr
| ext_cons e tr' : P e -> ext P tr tr' -> ext P tr (e :: tr').

Lemma ext_cont_off cs s0 tr tr' :
  ext (quiet_ev cs) tr tr' -> ext (quiet_ev cs) tr (cont_off_events s0 ++ tr').
Proof.
  intros H. unfold cont_off_events. destruct (cont_plugins s0); simpl; [exact H|].
  apply ext_cons; [exact I | exact H].
Qed.

Lemma ext_trans P a b c : ext P a b -> ext P b c -> ext P a c.
Proof. intros H1 H2. induction H2; auto. constructor; auto. Qed.

Lemma ext_app P tr tr' : ext P tr tr' -> exists new, tr' = new ++ tr /\ Forall P new.
Proof.
  induction 1 as [|e tr' He _ (new & -> & Hf)].
  - exists []. split; auto.
  - exists (e :: new). split; auto.
Qed.

Lemma ext_weaken (P Q : event -> Prop) tr tr' : (forall e, P e -> Q e) -> ext P tr tr' -> ext Q tr tr'.
Proof. intros HPQ. induction 1; constructor; auto. Qed.

Lemma call_quiet cs e : call_ev e -> quiet_ev cs e.
Proof. destruct e; simpl; tauto. Qed.

(** ---- stage / view lemmas ---- *)
Lemma stage_unlocked p : locked_pc p = false -> stage p = 0%nat.
Proof. destruct p; simpl; auto; discriminate. Qed.

Lemma stage_granted p : waitlock p = true -> stage (granted_pc p) = 0%nat.
Proof. destruct p; simpl; auto; discriminate. Qed.

Definition AllS0 (ts : ttab) : Prop := forall t c p, find_task ts t = Some (c, p) -> stage p = 0%nat.

Lemma hview_AllS0 s : AllS0 (tasks s) -> hview s = None.
Proof.
  intros H. unfold hview, hpc. destruct (holder s) as [t|]; auto.
  destruct (find_task (tasks s) t) as [[c p]|] eqn:E; auto. simpl. rewrite (H _ _ _ E). reflexivity.
Qed.

Lemma AllS0_release_remove q ts t : Lk (Some t) q ts -> AllS0 (remove_task (rel_tasks q ts) t).
Proof.
  intros HL t' c p Hf. destruct (Nat.eq_dec t' t) as [->|Hn].
  - rewrite find_remove_eq in Hf. discriminate.
  - rewrite find_remove_neq in Hf by assumption.
    destruct (find_rel_tasks_other _ _ _ _ _ _ HL Hn Hf) as [Hl | (p0 & Hw & ->)].
    + apply stage_unlocked; auto.
    + apply stage_granted; auto.
Qed.

Lemma AllS0_release_put q ts t c p :
  Lk (Some t) q ts -> stage p = 0%nat -> AllS0 (put_task (rel_tasks q ts) t (c, p)).
Proof.
  intros HL Hp t' c' p' Hf. destruct (Nat.eq_dec t' t) as [->|Hn].
  - rewrite find_put_eq in Hf. inversion Hf; subst. exact Hp.
  - rewrite find_put_neq in Hf by assumption.
    destruct (find_rel_tasks_other _ _ _ _ _ _ HL Hn Hf) as [Hl | (p0 & Hw & ->)].
    + apply stage_unlocked; auto.
    + apply stage_granted; auto.
Qed.

(** the holder's entry *)
Lemma hpc_holder s t c p : LkS s -> find_task (tasks s) t = Some (c, p) -> locked_pc p = true -> hpc s = Some (c, p).
Proof. intros HL Hf Hl. unfold hpc. rewrite (lk_holder_of _ _ _ HL _ _ _ Hf Hl). exact Hf. Qed.

Lemma hpc_put_holder s s' t x :
  holder s' = Some t -> tasks s' = put_task (tasks s) t x -> hpc s' = Some x.
Proof. intros Hh Et. unfold hpc. rewrite Hh, Et. apply find_put_eq. Qed.

(** a task that is not the holder changes / appears / disappears *)
Lemma not_holder s t : LkS s ->
  (forall c p, find_task (tasks s) t = Some (c, p) -> locked_pc p = false) -> holder s <> Some t.
Proof.
  intros HL Hfree Hh. destruct (lk_holder_has _ _ _ HL _ Hh) as (c & p & Hf & Hl).
  rewrite (Hfree _ _ Hf) in Hl. discriminate.
Qed.

Lemma hpc_put_other s s' t x :
  holder s <> Some t -> holder s' = holder s -> tasks s' = put_task (tasks s) t x -> hpc s' = hpc s.
Proof.
  intros Hn Hh Et. unfold hpc. rewrite Hh, Et. destruct (holder s) as [h|]; auto.
  apply find_put_neq. congruence.
Qed.

Lemma hpc_remove_other s s' t :
  holder s <> Some t -> holder s' = holder s -> tasks s' = remove_task (tasks s) t -> hpc s' = hpc s.
Proof.
  intros Hn Hh Et. unfold hpc. rewrite Hh, Et. destruct (holder s) as [h|]; auto.
  apply find_remove_neq. congruence.
Qed.

Lemma hpc_same s s' : holder s' = holder s -> tasks s' = tasks s -> hpc s' = hpc s.
Proof. intros Hh Et. unfold hpc. rewrite Hh, Et. reflexivity. Qed.

(** what the lifecycle state can be at each stage (from [FI]) *)
Lemma hview_fsm s c k : LkS s -> FI s -> hview s = Some (c, k) ->
  match k with
  | 1%nat => st_fsm s = Created
  | 2%nat | 3%nat => st_fsm s = Initialized \/ st_fsm s = Finished
  | _ => st_fsm s = Initialized
  end.
Proof.
  intros HL [HP _] Hv. unfold hview, hpc in Hv. destruct (holder s) as [t|]; [|discriminate].
  destruct (find_task (tasks s) t) as [[c0 p]|] eqn:Ef; [|discriminate].
  pose proof (HP _ _ _ Ef) as Hok. simpl in Hv.
  destruct p; simpl in Hv; try discriminate; inversion Hv; subst; simpl in Hok;
    destruct (st_fsm s); try discriminate; auto.
Qed.

Lemma hview_reset s c k : LkS s -> hview s = Some (c, k) -> (2 <= k)%nat -> exists o, c = CReset o.
Proof.
  intros HL Hv Hk. unfold hview, hpc in Hv. destruct (holder s) as [t|]; [|discriminate].
  destruct (find_task (tasks s) t) as [[c0 p]|] eqn:Ef; [|discriminate].
  pose proof (lk_compat _ _ _ HL _ _ _ Ef) as Hc. simpl in Hv.
  destruct p; simpl in Hv; try discriminate; inversion Hv; subst; try lia;
    destruct c; simpl in Hc; try discriminate; eauto.
Qed.

(** ---- kinds of steps ---- *)
Definition dflt {A} (d : A) (o : option A) : A := match o with Some x => x | None => d end.

Definition init_block (ra : runarg) : list event :=
  [EvHook (mkHook HInitRun Initialized (Some (ra_no ra)) (Some (ra_stmt ra)) None);
   EvPub (PRunInfo (ra_no ra) RInitialized (ra_stmt ra) None);
   EvPub (PRunNo (ra_no ra))].

Definition reset_rec (s : state) (o : opts) : hookrec :=
  mkHook HReset (st_fsm s) (option_map ra_no (run_arg s)) (o_stmt o) (o_start o).

Definition applied (s : state) (o : opts) : Z * Z * bool * bool :=
  (c_stmt s, dflt (c_next s) (o_start o), dflt (c_threads s) (o_threads o), dflt (c_modules s) (o_modules o)).

Inductive kind (s s' : state) : Prop :=
| K_quiet :
    comp s' = comp s -> run_arg s' = run_arg s -> hview s' = hview s ->
    (pre_init (st_fsm s) -> pre_init (st_fsm s')) ->
    ext (quiet_ev (c_stmt s)) (trace s) (trace s') -> kind s s'
| K_finish :
    comp s' = comp s -> run_arg s' = None -> st_fsm s = Running -> hview s' = hview s ->
    ext (quiet_ev (c_stmt s)) (trace s) (trace s') -> kind s s'
| K_start_enter (c : call) (r : hookrec) (tr1 : list event) :
    comp s' = comp s -> run_arg s' = run_arg s -> hview s = None -> hview s' = Some (c, 1%nat) ->
    st_fsm s' = st_fsm s -> ext (quiet_ev (c_stmt s)) (trace s) tr1 -> h_hook r = HChangeScript ->
    trace s' = EvHook r :: EvPub (PStatement (c_stmt s)) :: tr1 -> kind s s'
| K_init (ra : runarg) :
    ra = mkRunArg (c_next s) (c_stmt s) (c_threads s) (c_modules s) ->
    ((exists c, hview s = Some (c, 1%nat)) /\ hview s' = None \/
     exists o, hview s = Some (CReset o, 3%nat) /\ hview s' = Some (CReset o, 4%nat)) ->
    comp s' = (c_stmt s, c_next s + 1, c_threads s, c_modules s) ->
    run_arg s' = Some ra -> st_fsm s' = Initialized ->
    trace s' = init_block ra ++ trace s -> kind s s'
| K_reset_enter (o : opts) (pre : list event) :
    hview s = None -> st_fsm s = Initialized \/ st_fsm s = Finished -> st_fsm s' = st_fsm s ->
    run_arg s' = run_arg s -> ext call_ev (trace s) pre ->
    match o_stmt o with
    | Some x => comp s' = (x, c_next s, c_threads s, c_modules s) /\ hview s' = Some (CReset o, 2%nat) /\
                exists r, h_hook r = HChangeScript /\
                          trace s' = EvHook r :: EvPub (PStatement x) :: EvHook (reset_rec s o) :: pre
    | None => comp s' = applied s o /\ hview s' = Some (CReset o, 3%nat) /\
              trace s' = EvHook (reset_rec s o) :: pre
    end -> kind s s'
| K_apply (o : opts) :
    hview s = Some (CReset o, 2%nat) -> hview s' = Some (CReset o, 3%nat) -> comp s' = applied s o ->
    run_arg s' = run_arg s -> st_fsm s' = st_fsm s -> trace s' = trace s -> kind s s'
| K_return (t : nat) (o : opts) :
    hview s = Some (CReset o, 4%nat) -> hview s' = None -> comp s' = comp s ->
    run_arg s' = run_arg s -> st_fsm s' = st_fsm s ->
    trace s' = EvRet t (CReset o) ROk :: trace s -> kind s s'
| K_refused (t : nat) (o : opts) (pre : list event) :
    hview s = None -> hview s' = None -> comp s' = comp s -> run_arg s' = run_arg s -> st_fsm s' = st_fsm s ->
    ext call_ev (trace s) pre -> trace s' = EvRet t (CReset o) RMachineError :: pre -> kind s s'
| K_start_run (ra : runarg) :
    run_arg s = Some ra -> st_fsm s = Running -> comp s' = comp s -> run_arg s' = run_arg s ->
    hview s' = hview s -> st_fsm s' = st_fsm s ->
    trace s' = EvHook (mkHook HStartRun Running (Some (ra_no ra)) (Some (ra_stmt ra)) None)
               :: EvPub (PRunInfo (ra_no ra) RRunning (ra_stmt ra) None) :: trace s -> kind s s'
| K_end_run (ra : runarg) (oc : outcome) :
    run_arg s = Some ra -> st_fsm s = Running -> comp s' = comp s -> run_arg s' = run_arg s ->
    hview s' = hview s -> st_fsm s' = st_fsm s ->
    trace s' = EvHook (mkHook HEndRun Running (Some (ra_no ra)) None None)
               :: EvPub (PRunInfo (ra_no ra) RFinished (ra_stmt ra) (Some oc)) :: trace s -> kind s s'.

(** ---- frame lemmas ---- *)
Lemma release_comp s : comp (release s) = comp s.
Proof.
  unfold release, comp. destruct (lockq s) as [|t q]; simpl; auto.
  destruct (find_task (tasks s) t) as [[c p]|]; reflexivity.
Qed.
Lemma release_trace s : trace (release s) = trace s.
Proof.
  unfold release. destruct (lockq s) as [|t q]; simpl; auto.
  destruct (find_task (tasks s) t) as [[c p]|]; reflexivity.
Qed.
Lemma apply_rest_trace s o : trace (apply_rest s o) = trace s.
Proof. unfold apply_rest. destruct (o_start o), (o_threads o), (o_modules o); reflexivity. Qed.
Lemma apply_rest_comp s o : comp (apply_rest s o) = applied s o.
Proof. unfold apply_rest, applied, comp. destruct (o_start o), (o_threads o), (o_modules o); reflexivity. Qed.

Lemma comp_cont_finished n : forall s, comp (cont_finished s n) = comp s.
Proof.
  induction n as [|n IH]; intros s; simpl; auto.
  destruct (filter _ (cont_plugins s)) as [|[t b] r]; auto. rewrite IH. reflexivity.
Qed.

Lemma ext_cont_finished cs n : forall s, ext (quiet_ev cs) (trace s) (trace (cont_finished s n)).
Proof.
  induction n as [|n IH]; intros s; simpl; [constructor|].
  destruct (filter _ (cont_plugins s)) as [|[t b] r]; [constructor|].
  eapply ext_trans; [|apply IH]. simpl. apply ext_cons; [exact I | constructor].
Qed.

Lemma refuse_tasks s t c : tasks (refuse s t c) = remove_task (rel_tasks (lockq s) (tasks s)) t.
Proof.
  unfold refuse. destruct (is_cont c); [destruct (cont_closed (release s))|]; simpl; rewrite release_tasks; reflexivity.
Qed.
Lemma refuse_comp s t c : comp (refuse s t c) = comp s.
Proof.
  unfold refuse. destruct (is_cont c); [destruct (cont_closed (release s))|]; simpl;
    try apply release_comp; unfold comp; simpl; apply release_comp.
Qed.
Lemma refuse_scal s t c : scal_of (refuse s t c) = scal_of s.
Proof.
  unfold refuse. destruct (is_cont c); [destruct (cont_closed (release s))|]; simpl; apply release_scal.
Qed.
Lemma refuse_trace_reset s t o : trace (refuse s t (CReset o)) = EvRet t (CReset o) RMachineError :: trace s.
Proof. unfold refuse. simpl. rewrite release_trace. reflexivity. Qed.
Lemma refuse_trace_quiet cs s t c : (forall o, c <> CReset o) -> ext (quiet_ev cs) (trace s) (trace (refuse s t c)).
Proof.
  intros Hc. unfold refuse.
  assert (Q : forall r, quiet_ev cs (EvRet t c r)) by (intros r; destruct c; simpl; auto; eapply Hc; eauto).
  destruct (is_cont c); [destruct (cont_closed (release s))|]; simpl; rewrite release_trace;
    repeat (apply ext_cons; [auto; exact I|]); constructor.
Qed.

(** ---- steps of the lock holder ---- *)
Lemma hview_put s' t c p ts :
  holder s' = Some t -> tasks s' = put_task ts t (c, p) -> hview s' = view_of (Some (c, p)).
Proof. intros Hh Et. unfold hview, hpc. rewrite Hh, Et, find_put_eq. reflexivity. Qed.

Lemma hview_holder0 s t c p :
  LkS s -> find_task (tasks s) t = Some (c, p) -> locked_pc p = true -> stage p = 0%nat -> hview s = None.
Proof. intros HL Hf Hl Hs. unfold hview. rewrite (hpc_holder _ _ _ _ HL Hf Hl). simpl. rewrite Hs. reflexivity. Qed.

Lemma hview_released s s' t :
  LkS s -> holder s = Some t ->
  (tasks s' = remove_task (rel_tasks (lockq s) (tasks s)) t \/
   exists c p, stage p = 0%nat /\ tasks s' = put_task (rel_tasks (lockq s) (tasks s)) t (c, p)) ->
  hview s' = None.
Proof.
  intros HL Hh Et. apply hview_AllS0. unfold LkS in HL. rewrite Hh in HL.
  destruct Et as [-> | (c & p & Hs & ->)].
  - apply AllS0_release_remove; auto.
  - apply AllS0_release_put; auto.
Qed.

Lemma comp_stmt s1 s : comp s1 = comp s -> c_stmt s1 = c_stmt s.
Proof. unfold comp. intros E. inversion E. reflexivity. Qed.

Definition is_reset (c : call) : bool := match c with CReset _ => true | _ => false end.
Definition preP (c : call) (cs : Z) : event -> Prop := if is_reset c then call_ev else quiet_ev cs.

Lemma preP_quiet c cs tr tr' : ext (preP c cs) tr tr' -> ext (quiet_ev cs) tr tr'.
Proof. apply ext_weaken. unfold preP. destruct (is_reset c); auto. apply call_quiet. Qed.

Lemma kind_refuse s s1 t c :
  LkS s1 -> holder s1 = Some t ->
  comp s1 = comp s -> run_arg s1 = run_arg s -> st_fsm s1 = st_fsm s -> hview s = None ->
  ext (preP c (c_stmt s)) (trace s) (trace s1) ->
  kind s (refuse s1 t c).
Proof.
  intros HL Hh Ec Er Ef Hv Hx.
  assert (Hv' : hview (refuse s1 t c) = None).
  { eapply hview_released; eauto. left. apply refuse_tasks. }
  destruct (scal_of_fields _ _ (refuse_scal s1 t c)) as (F1 & _ & _ & _ & _ & F6).
  destruct (is_reset c) eqn:Eis.
  - destruct c; try discriminate. unfold preP in Hx. simpl in Hx.
    eapply K_refused with (pre := trace s1); eauto; try congruence.
    + rewrite refuse_comp. exact Ec.
    + apply refuse_trace_reset.
  - apply K_quiet; try congruence.
    + rewrite refuse_comp. exact Ec.
    + eapply ext_trans; [eapply preP_quiet; eauto|]. apply refuse_trace_quiet.
      intros o ->. discriminate.
Qed.

Lemma kind_close_enter_closed s s1 s2 t :
  holder s2 = Some t -> tasks s2 = tasks s1 -> comp s2 = comp s -> run_arg s2 = run_arg s -> hview s = None ->
  ext (quiet_ev (c_stmt s)) (trace s) (trace s2) ->
  kind s (close_enter_closed s2 t).
Proof.
  intros Hh Et Ec Er Hv Hx. apply K_quiet; auto.
  - rewrite Hv. erewrite hview_put; [|exact Hh|simpl; reflexivity]. reflexivity.
  - intros _. right. reflexivity.
  - simpl. apply ext_cons; [exact I | exact Hx].
Qed.

Lemma kind_close_trigger s s1 t :
  LkS s1 -> holder s1 = Some t ->
  comp s1 = comp s -> run_arg s1 = run_arg s -> st_fsm s1 = st_fsm s -> hview s = None ->
  ext (quiet_ev (c_stmt s)) (trace s) (trace s1) ->
  kind s (close_trigger s1 t).
Proof.
  intros HL Hh Ec Er Ef Hv Hx. pose proof (comp_stmt _ _ Ec) as Ecs.
  unfold close_trigger. destruct (st_fsm s1) eqn:Efs.
  - eapply kind_close_enter_closed with (s1 := s1); eauto.
    simpl. rewrite Ecs. repeat (apply ext_cons; [simpl; auto|]). exact Hx.
  - eapply kind_close_enter_closed with (s1 := s1); eauto.
  - eapply kind_close_enter_closed with (s1 := s1); eauto.
  - destruct (runt s1).
    + apply K_quiet; auto.
      * rewrite Hv. erewrite hview_put; [|exact Hh|simpl; reflexivity]. reflexivity.
      * simpl. rewrite Efs, <- Ef. auto.
    + eapply kind_close_enter_closed with (s1 := s1); eauto.
  - apply K_quiet.
    + unfold comp. simpl. fold (comp (release s1)). rewrite release_comp. exact Ec.
    + simpl. rewrite rl_ra. exact Er.
    + rewrite Hv. eapply hview_released; eauto. left. simpl. rewrite release_tasks. reflexivity.
    + simpl. rewrite rl_fsm, Efs. intros _. right. reflexivity.
    + simpl. rewrite release_trace. repeat (apply ext_cons; [simpl; auto|]). apply ext_cont_off.
      apply ext_cons; [exact I | exact Hx].
Qed.

Lemma kind_enter_close s s1 t :
  LkS s1 -> FI s1 -> holder s1 = Some t ->
  comp s1 = comp s -> run_arg s1 = run_arg s -> st_fsm s1 = st_fsm s -> hview s = None ->
  ext (quiet_ev (c_stmt s)) (trace s) (trace s1) ->
  kind s (enter_close s1 t).
Proof.
  intros HL HF Hh Ec Er Ef Hv Hx. unfold enter_close.
  set (s2 := publish s1 PEndAll).
  assert (HL2 : LkS s2) by exact HL.
  assert (Hx2 : ext (quiet_ev (c_stmt s)) (trace s) (trace s2)) by (simpl; apply ext_cons; [exact I | exact Hx]).
  assert (Hct : kind s (close_trigger s2 t)) by (apply kind_close_trigger; auto).
  destruct (st_fsm s2) eqn:Efs; auto.
  destruct (run_finished s2) as [[|]|]; auto.
  - apply K_quiet; auto.
    + rewrite Hv. erewrite hview_put; [|exact Hh|simpl; reflexivity]. reflexivity.
    + simpl. intros [H|H]; simpl in Efs; congruence.
  - apply K_quiet.
    + unfold comp. simpl. fold (comp (release s2)). rewrite release_comp. exact Ec.
    + simpl. rewrite rl_ra. exact Er.
    + rewrite Hv. eapply hview_released; eauto. left. simpl. rewrite release_tasks. reflexivity.
    + simpl. rewrite rl_fsm. simpl in Efs. intros [H|H]; congruence.
    + simpl. rewrite release_trace. repeat (apply ext_cons; [simpl; auto|]). exact Hx.
Qed.

Lemma kind_enter_run s s1 t c :
  LkS s1 -> holder s1 = Some t -> is_reset c = false ->
  comp s1 = comp s -> run_arg s1 = run_arg s -> st_fsm s1 = st_fsm s -> hview s = None ->
  ext (preP c (c_stmt s)) (trace s) (trace s1) ->
  kind s (enter_run s1 t c).
Proof.
  intros HL Hh Hnr Ec Er Ef Hv Hx. unfold enter_run.
  destruct (st_fsm s1) eqn:Efs; try (apply kind_refuse; auto; congruence).
  apply K_quiet; auto.
  - rewrite Hv. erewrite hview_put; [|exact Hh|simpl; reflexivity]. reflexivity.
  - rewrite <- Ef. intros [H|H]; discriminate.
  - simpl. eapply preP_quiet; eauto.
Qed.

Lemma kind_enter_start s s1 t c :
  LkS s1 -> holder s1 = Some t -> is_reset c = false ->
  comp s1 = comp s -> run_arg s1 = run_arg s -> st_fsm s1 = st_fsm s -> hview s = None ->
  ext (preP c (c_stmt s)) (trace s) (trace s1) ->
  kind s (enter_start s1 t c).
Proof.
  intros HL Hh Hnr Ec Er Ef Hv Hx. unfold enter_start. pose proof (comp_stmt _ _ Ec) as Ecs.
  destruct (st_fsm s1) eqn:Efs; try (apply kind_refuse; auto; congruence).
  eapply K_start_enter with (c := c)
    (tr1 := EvHook (mkHook HStart Created (option_map ra_no (run_arg s1)) None None) :: trace s1)
    (r := mkHook HChangeScript Created (option_map ra_no (run_arg s1)) (Some (c_stmt s1)) None); auto.
  - erewrite hview_put; [|exact Hh|simpl; reflexivity]. reflexivity.
  - simpl. congruence.
  - apply ext_cons; [exact I | eapply preP_quiet; eauto].
  - simpl. rewrite Efs, Ecs. reflexivity.
Qed.

Lemma kind_enter_reset s s1 t o :
  LkS s1 -> holder s1 = Some t ->
  comp s1 = comp s -> run_arg s1 = run_arg s -> st_fsm s1 = st_fsm s -> hview s = None ->
  ext call_ev (trace s) (trace s1) ->
  kind s (enter_reset s1 t o).
Proof.
  intros HL Hh Ec Er Ef Hv Hx. unfold enter_reset.
  assert (Hacc : st_fsm s = Initialized \/ st_fsm s = Finished ->
    kind s (let s2 := log_hook s1 HReset (o_stmt o) (o_start o) in
            match o_stmt o with
            | Some x => set_pc (change_script (set_c_stmt s2 x)) t (CReset o) Z_G1
            | None => set_pc (apply_rest s2 o) t (CReset o) Z_G1b
            end)).
  { intros Hfs. eapply K_reset_enter with (o := o) (pre := trace s1); auto.
    - destruct (o_stmt o); simpl; rewrite ?ar_fsm; auto.
    - destruct (o_stmt o); simpl; rewrite ?ar_ra; auto.
    - unfold comp in Ec. inversion Ec as [[E1 E2 E3 E4]].
      destruct (o_stmt o) as [x|] eqn:Eo.
      + split; [unfold comp; simpl; congruence|]. split.
        * erewrite hview_put; [|exact Hh|simpl; reflexivity]. reflexivity.
        * eexists. split; [|simpl; unfold reset_rec; rewrite Eo, Ef, Er; reflexivity]. reflexivity.
      + split; [|split].
        * unfold comp. simpl. fold (comp (apply_rest (log_hook s1 HReset None (o_start o)) o)).
          rewrite apply_rest_comp. unfold applied. simpl. congruence.
        * rewrite (hview_put _ t (CReset o) Z_G1b (tasks s1));
            [reflexivity | simpl; rewrite apply_rest_holder; exact Hh
             | simpl; rewrite apply_rest_tasks; reflexivity].
        * simpl. rewrite apply_rest_trace. simpl. unfold reset_rec. rewrite Eo, Ef, Er. reflexivity. }
  destruct (st_fsm s1) eqn:Efs; try (apply kind_refuse; auto; congruence); apply Hacc; rewrite <- Ef; auto.
Qed.

Lemma kind_enter (s s1 : state) (t : nat) (c : call) (part2 : bool) :
  LkS s1 -> FI s1 -> holder s1 = Some t ->
  comp s1 = comp s -> run_arg s1 = run_arg s -> st_fsm s1 = st_fsm s -> hview s = None ->
  ext (preP c (c_stmt s)) (trace s) (trace s1) ->
  compat c (if part2 then Granted2 else Granted1) = true ->
  kind s (enter s1 t c part2).
Proof.
  intros HL HF Hh Ec Er Ef Hv Hx Hc. unfold enter.
  destruct c; simpl in Hc; try (destruct part2; discriminate).
  - apply kind_enter_start; auto.
  - apply kind_enter_run; auto.
  - apply kind_enter_reset; auto.
  - destruct part2; [apply kind_enter_close; auto; eapply preP_quiet; eauto | apply kind_enter_start; auto].
  - apply kind_enter_run; auto.
  - apply kind_enter_run; auto.
  - apply kind_enter_run; auto.
Qed.

Lemma hview_no_holder s : holder s = None -> hview s = None.
Proof. intros H. unfold hview, hpc. rewrite H. reflexivity. Qed.

Lemma kind_acquire (s s1 : state) (t : nat) (c : call) (part2 : bool) :
  LkS s -> FI s ->
  (find_task (tasks s) t = None \/
   exists (c0 : call) (p0 : pc), find_task (tasks s) t = Some (c0, p0) /\ locked_pc p0 = false /\ waitlock p0 = false) ->
  compat c (if part2 then Granted2 else Granted1) = true ->
  holder s1 = holder s -> lockq s1 = lockq s -> tasks s1 = tasks s -> scal_of s1 = scal_of s ->
  comp s1 = comp s -> ext (preP c (c_stmt s)) (trace s) (trace s1) ->
  kind s (acquire s1 t c part2).
Proof.
  intros HL HF Hnew Hc Eh Eq Et Es Ec Hx. unfold acquire. rewrite Eh, Eq.
  destruct (scal_of_fields _ _ Es) as (E1 & E2 & E3 & E4 & E5 & E6).
  assert (HL1 : LkS s1) by (unfold LkS; rewrite Eh, Eq, Et; exact HL).
  assert (HF1 : FI s1).
  { destruct HF as [HP HS]. split; rewrite ?E1, ?E2, ?E3, ?E4, ?E5, ?E6, ?Et; auto. }
  assert (Hnh : holder s <> Some t).
  { apply not_holder; auto. intros c0 p0 Hf. destruct Hnew as [Hn | (c1 & p1 & Hf1 & Hl & _)]; congruence. }
  assert (Hnew1 : find_task (tasks s1) t = None \/
   exists (c0 : call) (p0 : pc), find_task (tasks s1) t = Some (c0, p0) /\ locked_pc p0 = false /\ waitlock p0 = false)
    by (rewrite Et; exact Hnew).
  assert (Hq : forall q p, waitlock p = true ->
               kind s (set_pc (set_lockq s1 q) t c p)).
  { intros q p Hw. apply K_quiet; auto.
    - unfold hview. f_equal. eapply hpc_put_other; [exact Hnh | simpl; exact Eh | simpl; rewrite Et; reflexivity].
    - simpl. rewrite E1. auto.
    - simpl. eapply preP_quiet; eauto. }
  destruct (holder s) as [h|] eqn:Eh0.
  - apply Hq. destruct part2; reflexivity.
  - destruct (lockq s) as [|t1 q] eqn:Eq0.
    + set (G := if part2 then Granted2 else Granted1).
      set (s2 := set_pc (set_holder s1 (Some t)) t c G).
      assert (HL2 : LkS s2).
      { unfold LkS, s2. simpl. rewrite Eq. unfold LkS in HL1. rewrite Eh, Eq in HL1.
        apply Lk_take; auto. unfold G. destruct part2; reflexivity. }
      assert (HF2 : FI s2).
      { destruct HF1 as [HP HS]. split; auto. unfold s2. simpl. apply PcOk_put; auto.
        unfold G. destruct part2; reflexivity. }
      apply kind_enter; auto. apply hview_no_holder; auto.
    + apply Hq. destruct part2; reflexivity.
Qed.

Lemma kind_requeue s t :
  LkS s -> FI s -> holder s = Some t -> hview s = None -> kind s (acquire (release s) t CClose true).
Proof.
  intros HL HF Hh Hv. pose proof HF as [HP HS].
  pose proof HL as HL0. unfold LkS in HL0. rewrite Hh in HL0.
  pose proof (Lk_release_forget _ _ _ HL0) as HFg.
  assert (HSr : Scal (st_fsm (release s)) (runt (release s)) (run_finished (release s)) (alive (release s))
                     (pending_exit (release s)) (run_arg (release s))).
  { rewrite rl_fsm, rl_runt, rl_rf, rl_alive, rl_pe, rl_ra. exact HS. }
  assert (Hq : forall q, kind s (set_pc (set_lockq (release s) q) t CClose WaitLock2)).
  { intros q. apply K_quiet.
    - unfold comp. simpl. fold (comp (release s)). apply release_comp.
    - simpl. apply rl_ra.
    - rewrite Hv. eapply hview_released; eauto. right. exists CClose, WaitLock2. split; auto.
      simpl. rewrite release_tasks. reflexivity.
    - simpl. rewrite rl_fsm. auto.
    - simpl. rewrite release_trace. constructor. }
  unfold acquire. rewrite release_holder, release_lockq.
  destruct (rel_holder (lockq s)) as [h|] eqn:Eh.
  - apply Hq.
  - destruct (tl (lockq s)) as [|t1 q] eqn:Eq.
    + set (s2 := set_pc (set_holder (release s) (Some t)) t CClose Granted2).
      assert (HL2 : LkS s2).
      { unfold LkS, s2. simpl. rewrite ?release_lockq, ?release_tasks, ?Eq. apply Lk_readd_take; auto. }
      assert (HF2 : FI s2).
      { split; auto. unfold s2. simpl. rewrite release_tasks. apply PcOk_release_put; auto. }
      apply kind_enter_close; auto.
      * unfold comp. simpl. fold (comp (release s)). apply release_comp.
      * simpl. apply rl_ra.
      * simpl. apply rl_fsm.
      * simpl. rewrite release_trace. constructor.
    + apply Hq.
Qed.

Lemma kind_refl s : kind s s.
Proof. apply K_quiet; auto. constructor. Qed.

(** a task outside the lock moves, appears or leaves *)
Lemma kind_free s s' t :
  LkS s -> (forall c p, find_task (tasks s) t = Some (c, p) -> locked_pc p = false) ->
  holder s' = holder s ->
  ((exists x, tasks s' = put_task (tasks s) t x) \/ tasks s' = remove_task (tasks s) t) ->
  comp s' = comp s -> run_arg s' = run_arg s -> st_fsm s' = st_fsm s ->
  ext (quiet_ev (c_stmt s)) (trace s) (trace s') -> kind s s'.
Proof.
  intros HL Hfree Hh Et Ec Er Ef Hx. pose proof (not_holder _ _ HL Hfree) as Hn.
  apply K_quiet; auto.
  - unfold hview. f_equal. destruct Et as [(x & Et) | Et].
    + eapply hpc_put_other; eauto.
    + eapply hpc_remove_other; eauto.
  - rewrite Ef. auto.
Qed.

Ltac qev := repeat (apply ext_cons; [simpl; auto; exact I|]); try apply ext_nil.

Lemma kind_do_call s t c : LkS s -> FI s -> kind s (do_call s t c).
Proof.
  intros HL HF. unfold do_call. destruct (find_task (tasks s) t) as [x|] eqn:Ef; [apply kind_refl|].
  assert (Hfree : forall c0 p0, find_task (tasks s) t = Some (c0, p0) -> locked_pc p0 = false) by (intros; congruence).
  assert (Hnew : find_task (tasks s) t = None \/
     exists (c0 : call) (p0 : pc), find_task (tasks s) t = Some (c0, p0) /\ locked_pc p0 = false /\ waitlock p0 = false)
    by (left; exact Ef).
  assert (Hfin : forall (s1 : state) (r : result), holder s1 = holder s -> tasks s1 = tasks s -> comp s1 = comp s ->
            run_arg s1 = run_arg s -> st_fsm s1 = st_fsm s -> (forall o, c <> CReset o) ->
            ext (quiet_ev (c_stmt s)) (trace s) (trace s1) -> kind s (finish_call s1 t c r)).
  { intros s1 r E1 E2 E3 E4 E5 Hc Hx. eapply kind_free; eauto.
    - right. simpl. rewrite E2. reflexivity.
    - simpl. apply ext_cons; [|exact Hx]. destruct c; simpl; auto. eapply Hc; eauto. }
  assert (Hput : forall (s1 : state) (p : pc), holder s1 = holder s -> tasks s1 = tasks s -> comp s1 = comp s ->
            run_arg s1 = run_arg s -> st_fsm s1 = st_fsm s ->
            ext (quiet_ev (c_stmt s)) (trace s) (trace s1) -> kind s (set_pc s1 t c p)).
  { intros s1 p E1 E2 E3 E4 E5 Hx. eapply kind_free; eauto. left. eexists. simpl. rewrite E2. reflexivity. }
  assert (Hacq : forall (s1 : state) (part2 : bool), compat c (if part2 then Granted2 else Granted1) = true ->
            holder s1 = holder s -> lockq s1 = lockq s -> tasks s1 = tasks s -> scal_of s1 = scal_of s ->
            comp s1 = comp s -> ext (preP c (c_stmt s)) (trace s) (trace s1) -> kind s (acquire s1 t c part2)).
  { intros. eapply kind_acquire; eauto. }
  destruct c; cbn [nl_started nl_closed cont_closed running_process send_command set_trace].
  - destruct (nl_started s); [apply Hfin; auto; [discriminate | qev]|].
    apply Hacq; auto. unfold preP; simpl. qev.
  - apply Hacq; auto. unfold preP; simpl. qev.
  - apply Hacq; auto. unfold preP; simpl. qev.
  - destruct (nl_closed s); [apply Hfin; auto; [discriminate | qev]|]. simpl.
    destruct (nl_started s); apply Hacq; auto; unfold preP; simpl; qev.
  - destruct (cont_closed s); [apply Hfin; auto; [discriminate | qev]|].
    apply Hacq; auto. unfold preP; simpl. qev.
  - destruct (cont_closed s); [apply Hfin; auto; [discriminate | qev]|].
    apply Hacq; auto. unfold preP; simpl. qev.
  - apply Hacq; auto. unfold preP; simpl. qev.
  - destruct (running_process s); [apply Hput | apply Hfin]; auto; try discriminate; simpl; qev.
  - destruct (send_command s); [apply Hput | apply Hfin]; auto; try discriminate; simpl; qev.
Qed.

Ltac hvput Hh := erewrite hview_put; [|simpl; rewrite ?apply_rest_holder; exact Hh
                                     |simpl; rewrite ?apply_rest_tasks; reflexivity].

Lemma kind_do_step s t : LkS s -> FI s -> kind s (do_step s t).
Proof.
  intros HL HF. unfold do_step. destruct (find_task (tasks s) t) as [[c p]|] eqn:Ef; [|apply kind_refl].
  pose proof HF as [HP HS].
  pose proof (HP _ _ _ Ef) as Hok.
  pose proof (lk_compat _ _ _ HL _ _ _ Ef) as Hc.
  assert (Hhold : locked_pc p = true -> holder s = Some t) by (intros Hl; eapply (lk_holder_of _ _ _ HL); eauto).
  assert (Hhv : locked_pc p = true -> hview s = view_of (Some (c, p))).
  { intros Hl. unfold hview. rewrite (hpc_holder _ _ _ _ HL Ef Hl). reflexivity. }
  assert (Hfree : locked_pc p = false -> forall c0 p0, find_task (tasks s) t = Some (c0, p0) -> locked_pc p0 = false).
  { intros Hl c0 p0 Hf. rewrite Ef in Hf. inversion Hf; subst. exact Hl. }
  assert (Hfin : forall (s1 : state) (r : result), locked_pc p = true ->
            tasks s1 = tasks (release s) -> comp s1 = comp s -> run_arg s1 = run_arg s -> st_fsm s1 = st_fsm s ->
            stage p = 0%nat -> (forall o, c <> CReset o) ->
            ext (quiet_ev (c_stmt s)) (trace s) (trace s1) -> kind s (finish_call s1 t c r)).
  { intros s1 r Hl E2 E3 E4 E5 Hs Hcr Hx. apply K_quiet; auto.
    - rewrite (Hhv Hl). simpl. rewrite Hs. eapply hview_released; eauto. left. simpl. rewrite E2, release_tasks. reflexivity.
    - simpl. rewrite E5. auto.
    - simpl. apply ext_cons; [|exact Hx]. destruct c; simpl; auto. eapply Hcr; eauto. }
  destruct p; simpl in Hhold, Hhv, Hfree; try specialize (Hhold eq_refl); try specialize (Hhv eq_refl);
    try specialize (Hfree eq_refl); simpl in Hhv; simpl in Hok.
  - apply kind_refl.
  - apply kind_enter; auto. unfold preP. destruct (is_reset c); constructor.
  - apply kind_refl.
  - apply kind_enter; auto. unfold preP. destruct (is_reset c); constructor.
  - (* S_G1 *)
    eapply K_init; [reflexivity | left; split; [eauto | hvput Hhold; reflexivity] | reflexivity | reflexivity | reflexivity | reflexivity].
  - (* S_G2 *)
    apply K_quiet; auto. { rewrite Hhv. hvput Hhold. reflexivity. } simpl. qev.
  - (* S_G3 *)
    destruct c; simpl in Hc; try discriminate.
    + apply Hfin; auto; try discriminate; try apply release_comp; try apply rl_ra; try apply rl_fsm.
      rewrite release_trace. constructor.
    + apply kind_requeue; auto.
  - (* R_WaitStarted *)
    destruct (started_ev s); [|apply kind_refl].
    apply K_quiet; auto. { rewrite Hhv. hvput Hhold. reflexivity. } simpl. qev.
  - (* R_G *)
    assert (Hp : kind s (set_pc (release s) t c P_WaitRunFinished)).
    { apply K_quiet.
      - unfold comp. simpl. fold (comp (release s)). apply release_comp.
      - simpl. apply rl_ra.
      - rewrite Hhv. eapply hview_released; eauto. right. exists c, P_WaitRunFinished. split; auto.
        simpl. rewrite release_tasks. reflexivity.
      - simpl. rewrite rl_fsm. auto.
      - simpl. rewrite release_trace. constructor. }
    destruct c; simpl in Hc; try discriminate; auto;
      (apply Hfin; auto; try discriminate; try apply release_comp; try apply rl_ra; try apply rl_fsm;
       rewrite release_trace; constructor).
  - (* Z_G1 *)
    destruct c; simpl in Hc; try discriminate.
    eapply K_apply with (o := o); auto.
    + hvput Hhold. reflexivity.
    + unfold comp. simpl. fold (comp (apply_rest s o)). apply apply_rest_comp.
    + simpl. apply ar_ra.
    + simpl. apply ar_fsm.
    + simpl. apply apply_rest_trace.
  - (* Z_G1b *)
    destruct c; simpl in Hc; try discriminate.
    assert (Hre : kind s (reset_reinit s t (CReset o))).
    { eapply K_init; [reflexivity | right; exists o; split; [exact Hhv | hvput Hhold; reflexivity]
                      | reflexivity | reflexivity | reflexivity | reflexivity]. }
    destruct (st_fsm s) eqn:Efs; auto. destruct (runt s); auto.
    apply K_quiet; auto. { rewrite Hhv. hvput Hhold. reflexivity. } constructor.
  - (* Z_WaitRunTask *)
    destruct c; simpl in Hc; try discriminate.
    destruct (runt s); [apply kind_refl|].
    eapply K_init; [reflexivity | right; exists o; split; [exact Hhv | hvput Hhold; reflexivity]
                    | reflexivity | reflexivity | reflexivity | reflexivity].
  - (* Z_G3 *)
    apply K_quiet; auto. { rewrite Hhv. hvput Hhold. reflexivity. } simpl. qev.
  - (* Z_G4 *)
    destruct c; simpl in Hc; try discriminate.
    eapply K_return with (t := t) (o := o); auto.
    + eapply hview_released; eauto. left. simpl. rewrite release_tasks. reflexivity.
    + unfold comp. simpl. fold (comp (release s)). apply release_comp.
    + simpl. apply rl_ra.
    + simpl. apply rl_fsm.
    + simpl. rewrite release_trace. reflexivity.
  - (* C_WaitRunFinished *)
    destruct (run_finished s) as [[|]|]; try apply kind_refl.
    apply kind_close_trigger; auto. constructor.
  - (* C_WaitRunTask *)
    destruct (runt s); [apply kind_refl|].
    eapply kind_close_enter_closed with (s1 := s); auto. constructor.
  - (* C_G3 *)
    apply K_quiet; auto. { rewrite Hhv. hvput Hhold. reflexivity. } simpl. qev.
  - (* C_G4 *)
    destruct c; simpl in Hc; try discriminate.
    apply Hfin; auto; try discriminate.
    + unfold comp. simpl. fold (comp (release s)). apply release_comp.
    + simpl. apply rl_ra.
    + simpl. apply rl_fsm.
    + simpl. rewrite release_trace. apply ext_cons; [exact I|]. apply ext_cont_off.
      apply ext_cons; [exact I | constructor].
  - (* P_WaitRunFinished *)
    destruct (run_finished s) as [[|]|]; try apply kind_refl.
    eapply kind_free; eauto. simpl. destruct c; simpl in Hc; try discriminate; qev.
  - (* Sig_G *)
    eapply kind_free; eauto. simpl. destruct c; simpl in Hc; try discriminate; qev.
Qed.

Lemma hview_slk s s' : slk s s' -> hview s' = hview s.
Proof. intros (E1 & _ & E3). unfold hview. f_equal. apply hpc_same; auto. Qed.

Lemma kind_run_finish s :
  st_fsm s = Running -> kind s (run_finish s).
Proof.
  intros Hf. unfold run_finish. simpl. rewrite Hf.
  match goal with |- kind _ (set_runt (cont_finished ?y ?n) _) =>
    pose proof (scal_of_fields _ _ (scal_cont_finished n y)) as (E1 & E2 & E3 & E4 & E5 & E6);
    pose proof (slk_cont_finished n y) as Hs;
    pose proof (comp_cont_finished n y) as Ec;
    pose proof (ext_cont_finished (c_stmt s) n y) as Hx
  end.
  apply K_finish.
  - unfold comp in *. simpl in *. exact Ec.
  - simpl. rewrite E6. reflexivity.
  - exact Hf.
  - destruct Hs as (S1 & S2 & S3). unfold hview. f_equal. apply hpc_same; simpl; auto.
  - simpl. eapply ext_trans; [|exact Hx]. simpl. qev.
Qed.

Lemma kind_step_run s : FI s -> kind s (do_step_run s).
Proof.
  intros HF. pose proof HF as [HP HS]. unfold do_step_run.
  destruct (runt s) as [x|] eqn:Er; [|apply kind_refl].
  assert (Hrun : early x = true -> st_fsm s = Running) by (intros He; eapply sc_early; eauto).
  assert (Hra : early x = true -> run_arg s <> None).
  { intros He. apply (sc_ra _ _ _ _ _ _ HS). right. auto. }
  destruct x; simpl in Hrun, Hra; try specialize (Hrun eq_refl); try specialize (Hra eq_refl).
  - destruct (run_arg s) eqn:Era; [|congruence]. apply K_quiet; auto. constructor.
  - simpl. destruct (run_arg s) as [ra|] eqn:Era; [|congruence].
    eapply K_start_run with (ra := ra); auto. simpl. rewrite Hrun, ?Era. reflexivity.
  - apply K_quiet; auto. constructor.
  - destruct (run_call_pending s); [apply kind_refl|]. destruct (pending_exit s) as [o|]; [|apply kind_refl].
    simpl. destruct (run_arg s) as [ra|] eqn:Era; [|congruence].
    eapply K_end_run with (ra := ra) (oc := o); auto. simpl. rewrite Hrun, ?Era. reflexivity.
  - apply kind_run_finish; auto.
  - apply K_quiet; auto. simpl. qev.
  - apply K_quiet; auto. constructor.
Qed.

Theorem step_kind s l : LkS s -> FI s -> kind s (step s l).
Proof.
  intros HL HF. destruct l; simpl.
  - apply kind_do_call; auto.
  - apply kind_do_step; auto.
  - apply kind_step_run; auto.
  - unfold do_child_exit. destruct (alive s); [apply kind_refl|]. apply K_quiet; auto. constructor.
Qed.
