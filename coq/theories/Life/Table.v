(** Tie between the transition table regenerated from nextline/fsm/config.py
    (Gen/FsmConfig.v), the documented diagram ([edge], Hist.v) and the accept
    conditions / destination states hard-wired in the lifecycle model. *)
From NL Require Import Life.Model Life.LockInv Life.FsmInv Life.Hist Life.Single Gen.FsmConfig.

Definition fsm_eqb (a b : fsm) : bool :=
  match a, b with
  | Created, Created | Initialized, Initialized | Running, Running | Finished, Finished | Closed, Closed => true
  | _, _ => false
  end.
Definition trig_eqb (a b : trig) : bool :=
  match a, b with
  | TInitialize, TInitialize | TRun, TRun | TFinish, TFinish | TClose, TClose | TReset, TReset => true
  | _, _ => false
  end.

Fixpoint lookup_in (l : list (trig * fsm * option fsm * before)) (tr : trig) (f : fsm) : option (option fsm * before) :=
  match l with
  | [] => None
  | (tr', f', d, b) :: r => if trig_eqb tr tr' && fsm_eqb f f' then Some (d, b) else lookup_in r tr f
  end.
Definition lookup := lookup_in table.
Definition accepts (tr : trig) (f : fsm) : bool := match lookup tr f with Some _ => true | None => false end.

Definition edge_b (a b : fsm) : bool :=
  match a, b with
  | Created, Initialized | Initialized, Running | Running, Finished
  | Initialized, Initialized | Finished, Initialized => true
  | Closed, Closed => true
  | Closed, _ => false
  | _, Closed => true
  | _, _ => false
  end.

Lemma edge_b_spec a b : edge_b a b = true <-> edge a b.
Proof. destruct a, b; simpl; split; intros; auto; try discriminate; try contradiction. Qed.

(** every entry of the table is an edge of the documented diagram; the only
    internal transition (no destination) is `close` in 'closed' *)
Lemma table_sound :
  forall tr a d b, In (tr, a, d, b) table ->
    match d with Some x => edge a x | None => a = Closed /\ tr = TClose end.
Proof.
  intros tr a d b H. vm_compute in H.
  repeat (destruct H as [H|H]; [inversion H; subst; simpl; auto|]). contradiction.
Qed.

(** every documented edge is in the table *)
Lemma table_complete :
  forall a b, edge a b -> (exists tr bf, In (tr, a, Some b, bf) table) \/ (a = Closed /\ b = Closed /\ lookup TClose Closed = Some (None, BNone)).
Proof.
  intros a b H. destruct a, b; simpl in H; try contradiction;
    try (left; do 2 eexists; vm_compute; auto 12; fail).
  right. repeat split.
Qed.

(** the model's accept conditions are the table's *)
Lemma accepts_run f : accepts TRun f = true <-> f = Initialized.
Proof. destruct f; vm_compute; split; intros; auto; discriminate. Qed.
Lemma accepts_reset f : accepts TReset f = true <-> f = Initialized \/ f = Finished.
Proof. destruct f; vm_compute; split; intros H; auto; try discriminate; destruct H; discriminate. Qed.
Lemma accepts_initialize f : accepts TInitialize f = true <-> f = Created.
Proof. destruct f; vm_compute; split; intros; auto; discriminate. Qed.
Lemma accepts_finish f : accepts TFinish f = true <-> f = Running.
Proof. destruct f; vm_compute; split; intros; auto; discriminate. Qed.
Lemma accepts_close f : accepts TClose f = true.
Proof. destruct f; reflexivity. Qed.

Lemma dests :
  lookup TRun Initialized = Some (Some Running, BNone) /\
  lookup TReset Initialized = Some (Some Initialized, BReset) /\
  lookup TReset Finished = Some (Some Initialized, BReset) /\
  lookup TInitialize Created = Some (Some Initialized, BNone) /\
  lookup TFinish Running = Some (Some Finished, BNone) /\
  lookup TClose Created = Some (Some Closed, BNone) /\
  lookup TClose Initialized = Some (Some Closed, BNone) /\
  lookup TClose Finished = Some (Some Closed, BNone) /\
  lookup TClose Running = Some (Some Closed, BCloseWhileRunning) /\
  lookup TClose Closed = Some (None, BNone) /\
  initial = Created /\ queued = false /\ ignore_invalid_triggers = false.
Proof. vm_compute. repeat split. Qed.

(** ... and the model does what the table says *)
Lemma model_run_follows_table s t c :
  runlike c = true ->
  (accepts TRun (st_fsm s) = false -> enter s t c false = refuse s t c) /\
  (accepts TRun (st_fsm s) = true -> st_fsm (enter s t c false) = Running).
Proof.
  intros Hc. split; intros H.
  - apply second_run_refused; auto. intros Hi. rewrite Hi in H. discriminate.
  - apply accepts_run in H. unfold enter. destruct c; simpl in Hc; try discriminate; unfold enter_run; rewrite H; reflexivity.
Qed.

Lemma model_reset_follows_table s t o :
  (accepts TReset (st_fsm s) = false -> enter s t (CReset o) false = refuse s t (CReset o)) /\
  (accepts TReset (st_fsm s) = true -> st_fsm (enter s t (CReset o) false) = st_fsm s).
Proof.
  split; intros H.
  - apply no_reset_during_run; intros Hi; rewrite Hi in H; discriminate.
  - apply accepts_reset in H. unfold enter, enter_reset.
    destruct H as [H|H]; rewrite H; destruct (o_stmt o); simpl; rewrite ?ar_fsm; simpl; auto.
Qed.

Lemma model_start_follows_table s t :
  (accepts TInitialize (st_fsm s) = false -> enter s t CStart false = refuse s t CStart).
Proof.
  intros H. unfold enter, enter_start. destruct (st_fsm s); try reflexivity. discriminate.
Qed.
