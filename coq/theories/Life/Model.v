(** Executable model (LTS) of the lifecycle of a Nextline object, as implemented
    by nextline/main.py, imp.py (the asyncio.Lock serialising start/run/reset/
    close), continuous.py, fsm/{config,machine,callback}.py,
    plugin/plugins/argument.py, session/session.py (RunSession.run) and the
    registrars that publish state/run info, after the `fix:` commits.
    Definitions only.

    Granularity.  A transition of the model is one *atomic segment* of a task:
    the code between two suspension points.  Suspension points are
      - a hook gate: every `await ahook.X(...)` waits for the implementations
        of user plugins, which may take arbitrarily long (public plugin API);
      - a genuine wait: the lifecycle lock, `started.wait()`,
        `_run_finished.wait()`, `await _task_run`, process creation, the exit
        of the child process.
    The scheduler is adversarial: [Step t] / [StepRun] advance one task by one
    segment; a label whose task waits on a false condition is a no-op.  "For
    every schedule / history" is "for every [list label]".

    One fairness fact of asyncio is built in (assumption F, DESIGN.md 4.2): the
    run task does not observe the child's exit while the run() call that
    started it still has to perform its (already enabled) state notification.
    It is a guard in [step_run] and is validated by the co-simulation. *)
From Coq Require Export List ZArith Bool Arith.
Export ListNotations.
Open Scope Z_scope.

Inductive fsm := Created | Initialized | Running | Finished | Closed.

Record opts := mkOpts {
  o_stmt : option Z; o_start : option Z; o_threads : option bool; o_modules : option bool }.

Record runarg := mkRunArg { ra_no : Z; ra_stmt : Z; ra_threads : bool; ra_modules : bool }.

Inductive outcome := OReturn | ORaise | OSysExit | ODied | OInterrupt.

Inductive call :=
| CStart | CRun | CReset (o : opts) | CClose
| CRunCont | CRunContWait | CRunSession | CSignal | CSend.

Inductive result := ROk | RMachineError | RAssertionError | RAttributeError | RRuntimeError.

Inductive hook :=
| HStart | HChangeScript | HInitRun | HChangeState | HStartRun | HEndRun | HFinished
| HReset | HClose | HSignal | HSend.

(** a hook invocation as a user plugin sees it *)
Record hookrec := mkHook {
  h_hook : hook;
  h_fsm : fsm;                 (* Nextline.state inside the hook *)
  h_runno : option Z;          (* context.run_arg.run_no, None if run_arg is None *)
  h_stmt : option Z            (* script id carried by the hook, where it has one *)
}.

Inductive rphase := RInitialized | RRunning | RFinished.

Inductive pub :=
| PState (s : fsm)
| PRunInfo (no : Z) (ph : rphase) (stmt : Z) (res : option outcome)
| PRunNo (no : Z)
| PStatement (s : Z)
| PCont (b : bool)
| PEndAll        (* PubSub.close(): every topic of the broker ended *)
| PEndCont.      (* the `continuous enabled` item closed *)

(** program counters of an API task = the suspension point it is at *)
Inductive pc :=
| WaitLock1 | Granted1        (* queued for / just given the lock: start part *)
| WaitLock2 | Granted2        (* the same for the close part of close() *)
| S_G1 | S_G2 | S_G3          (* start: gates start+on_change_script, on_initialize_run, on_change_state *)
| R_WaitStarted | R_G         (* run: started.wait(), gate on_change_state *)
| Z_G1 | Z_G1b | Z_WaitRunTask | Z_G3 | Z_G4
| C_WaitRunFinished | C_WaitRunTask | C_G3 | C_G4
| P_WaitRunFinished           (* run_session / run_continue_and_wait, after the lock *)
| Sig_G.

(** program counters of the run task (Callback._run) *)
Inductive rpc :=
| RT_New | RT_Created | RT_G_start | RT_WaitChild | RT_G_end | RT_G_fin | RT_G_cs.

Record state := mkState {
  st_fsm : fsm;
  nl_started : bool;
  nl_closed : bool;
  holder : option nat;                 (* task holding the lifecycle lock *)
  lockq : list nat;                    (* FIFO of waiters *)
  tasks : list (nat * (call * pc));    (* API calls in flight *)
  runt : option rpc;                   (* the run task, if it exists *)
  run_owner : nat;                     (* the task whose run() created it (its contextvars context) *)
  run_finished : option bool;          (* Callback._run_finished: None = no such attribute *)
  started_ev : bool;
  run_arg : option runarg;             (* Context.run_arg *)
  running_process : bool;              (* Context.running_process is not None *)
  send_command : bool;                 (* Context.send_command is not None *)
  exited_proc : option outcome;        (* Context.exited_process (its result) *)
  c_stmt : Z; c_next : Z; c_threads : bool; c_modules : bool;   (* RunArgComposer *)
  alive : nat;                         (* child processes alive *)
  pending_exit : option outcome;       (* a child has exited, not yet awaited *)
  cont_plugins : list (nat * bool);    (* registered Continue plugins: owner task, armed *)
  cont_closed : bool;                  (* the `continuous enabled` item is closed *)
  pubs : list pub;                     (* newest first *)
  hooks : list hookrec;                (* newest first *)
  rets : list (nat * call * result)    (* newest first *)
}.

Definition init_state (stmt start : Z) (threads modules : bool) : state :=
  mkState Created false false None [] [] None 0%nat None false None false false None
          stmt start threads modules 0%nat None [] false [] [] [].

(** ---- small updates ---- *)
Definition set_fsm (s : state) (f : fsm) : state :=
  mkState f (nl_started s) (nl_closed s) (holder s) (lockq s) (tasks s) (runt s) (run_owner s) (run_finished s) (started_ev s)
          (run_arg s) (running_process s) (send_command s) (exited_proc s) (c_stmt s) (c_next s) (c_threads s) (c_modules s)
          (alive s) (pending_exit s) (cont_plugins s) (cont_closed s) (pubs s) (hooks s) (rets s).
Definition set_flags (s : state) (st cl : bool) : state :=
  mkState (st_fsm s) st cl (holder s) (lockq s) (tasks s) (runt s) (run_owner s) (run_finished s) (started_ev s)
          (run_arg s) (running_process s) (send_command s) (exited_proc s) (c_stmt s) (c_next s) (c_threads s) (c_modules s)
          (alive s) (pending_exit s) (cont_plugins s) (cont_closed s) (pubs s) (hooks s) (rets s).
Definition set_lock (s : state) (h : option nat) (q : list nat) : state :=
  mkState (st_fsm s) (nl_started s) (nl_closed s) h q (tasks s) (runt s) (run_owner s) (run_finished s) (started_ev s)
          (run_arg s) (running_process s) (send_command s) (exited_proc s) (c_stmt s) (c_next s) (c_threads s) (c_modules s)
          (alive s) (pending_exit s) (cont_plugins s) (cont_closed s) (pubs s) (hooks s) (rets s).
Definition set_tasks (s : state) (l : list (nat * (call * pc))) : state :=
  mkState (st_fsm s) (nl_started s) (nl_closed s) (holder s) (lockq s) l (runt s) (run_owner s) (run_finished s) (started_ev s)
          (run_arg s) (running_process s) (send_command s) (exited_proc s) (c_stmt s) (c_next s) (c_threads s) (c_modules s)
          (alive s) (pending_exit s) (cont_plugins s) (cont_closed s) (pubs s) (hooks s) (rets s).
Definition set_run (s : state) (r : option rpc) (fin : option bool) (sev : bool) : state :=
  mkState (st_fsm s) (nl_started s) (nl_closed s) (holder s) (lockq s) (tasks s) r (run_owner s) fin sev
          (run_arg s) (running_process s) (send_command s) (exited_proc s) (c_stmt s) (c_next s) (c_threads s) (c_modules s)
          (alive s) (pending_exit s) (cont_plugins s) (cont_closed s) (pubs s) (hooks s) (rets s).
Definition set_ctx (s : state) (ra : option runarg) (rp sc : bool) (ep : option outcome) : state :=
  mkState (st_fsm s) (nl_started s) (nl_closed s) (holder s) (lockq s) (tasks s) (runt s) (run_owner s) (run_finished s) (started_ev s)
          ra rp sc ep (c_stmt s) (c_next s) (c_threads s) (c_modules s)
          (alive s) (pending_exit s) (cont_plugins s) (cont_closed s) (pubs s) (hooks s) (rets s).
Definition set_composer (s : state) (stmt next : Z) (th md : bool) : state :=
  mkState (st_fsm s) (nl_started s) (nl_closed s) (holder s) (lockq s) (tasks s) (runt s) (run_owner s) (run_finished s) (started_ev s)
          (run_arg s) (running_process s) (send_command s) (exited_proc s) stmt next th md
          (alive s) (pending_exit s) (cont_plugins s) (cont_closed s) (pubs s) (hooks s) (rets s).
Definition set_owner (s : state) (t : nat) : state :=
  mkState (st_fsm s) (nl_started s) (nl_closed s) (holder s) (lockq s) (tasks s) (runt s) t (run_finished s) (started_ev s)
          (run_arg s) (running_process s) (send_command s) (exited_proc s) (c_stmt s) (c_next s) (c_threads s) (c_modules s)
          (alive s) (pending_exit s) (cont_plugins s) (cont_closed s) (pubs s) (hooks s) (rets s).
Definition set_child (s : state) (a : nat) (p : option outcome) : state :=
  mkState (st_fsm s) (nl_started s) (nl_closed s) (holder s) (lockq s) (tasks s) (runt s) (run_owner s) (run_finished s) (started_ev s)
          (run_arg s) (running_process s) (send_command s) (exited_proc s) (c_stmt s) (c_next s) (c_threads s) (c_modules s)
          a p (cont_plugins s) (cont_closed s) (pubs s) (hooks s) (rets s).
Definition set_cont (s : state) (l : list (nat * bool)) : state :=
  mkState (st_fsm s) (nl_started s) (nl_closed s) (holder s) (lockq s) (tasks s) (runt s) (run_owner s) (run_finished s) (started_ev s)
          (run_arg s) (running_process s) (send_command s) (exited_proc s) (c_stmt s) (c_next s) (c_threads s) (c_modules s)
          (alive s) (pending_exit s) l (cont_closed s) (pubs s) (hooks s) (rets s).
Definition close_cont (s : state) : state :=
  mkState (st_fsm s) (nl_started s) (nl_closed s) (holder s) (lockq s) (tasks s) (runt s) (run_owner s) (run_finished s) (started_ev s)
          (run_arg s) (running_process s) (send_command s) (exited_proc s) (c_stmt s) (c_next s) (c_threads s) (c_modules s)
          (alive s) (pending_exit s) (cont_plugins s) true (PEndCont :: pubs s) (hooks s) (rets s).
Definition publish (s : state) (p : pub) : state :=
  mkState (st_fsm s) (nl_started s) (nl_closed s) (holder s) (lockq s) (tasks s) (runt s) (run_owner s) (run_finished s) (started_ev s)
          (run_arg s) (running_process s) (send_command s) (exited_proc s) (c_stmt s) (c_next s) (c_threads s) (c_modules s)
          (alive s) (pending_exit s) (cont_plugins s) (cont_closed s) (p :: pubs s) (hooks s) (rets s).
Definition log_hook (s : state) (h : hook) (stmt : option Z) : state :=
  mkState (st_fsm s) (nl_started s) (nl_closed s) (holder s) (lockq s) (tasks s) (runt s) (run_owner s) (run_finished s) (started_ev s)
          (run_arg s) (running_process s) (send_command s) (exited_proc s) (c_stmt s) (c_next s) (c_threads s) (c_modules s)
          (alive s) (pending_exit s) (cont_plugins s) (cont_closed s) (pubs s)
          (mkHook h (st_fsm s) (option_map ra_no (run_arg s)) stmt :: hooks s) (rets s).
Definition add_ret (s : state) (t : nat) (c : call) (r : result) : state :=
  mkState (st_fsm s) (nl_started s) (nl_closed s) (holder s) (lockq s) (tasks s) (runt s) (run_owner s) (run_finished s) (started_ev s)
          (run_arg s) (running_process s) (send_command s) (exited_proc s) (c_stmt s) (c_next s) (c_threads s) (c_modules s)
          (alive s) (pending_exit s) (cont_plugins s) (cont_closed s) (pubs s) (hooks s) ((t, c, r) :: rets s).

(** ---- task table ---- *)
Fixpoint find_task (l : list (nat * (call * pc))) (t : nat) : option (call * pc) :=
  match l with
  | [] => None
  | (t', x) :: r => if Nat.eqb t t' then Some x else find_task r t
  end.

Fixpoint remove_task (l : list (nat * (call * pc))) (t : nat) : list (nat * (call * pc)) :=
  match l with
  | [] => []
  | (t', x) :: r => if Nat.eqb t t' then remove_task r t else (t', x) :: remove_task r t
  end.

Fixpoint update_task (l : list (nat * (call * pc))) (t : nat) (x : call * pc) : list (nat * (call * pc)) :=
  match l with
  | [] => []
  | (t', y) :: r => if Nat.eqb t t' then (t', x) :: r else (t', y) :: update_task r t x
  end.

Definition set_pc (s : state) (t : nat) (c : call) (p : pc) : state :=
  set_tasks s (update_task (tasks s) t (c, p)).

(** the call returns: the task leaves the table *)
Definition finish_call (s : state) (t : nat) (c : call) (r : result) : state :=
  add_ret (set_tasks s (remove_task (tasks s) t)) t c r.

(** ---- the lock (asyncio.Lock: FIFO, handed to the first waiter on release) ---- *)
Definition granted_pc (p : pc) : pc :=
  match p with WaitLock1 => Granted1 | WaitLock2 => Granted2 | x => x end.

Definition release (s : state) : state :=
  match lockq s with
  | [] => set_lock s None []
  | t :: q =>
    let s1 := set_lock s (Some t) q in
    match find_task (tasks s1) t with
    | Some (c, p) => set_pc s1 t c (granted_pc p)
    | None => s1
    end
  end.

(** ---- pieces shared by several calls ---- *)

(** RunArgComposer.compose_run_arg + Callback.initialize_run + the built-in
    implementations of on_initialize_run *)
Definition initialize_run (s : state) : state :=
  let ra := mkRunArg (c_next s) (c_stmt s) (c_threads s) (c_modules s) in
  let s1 := set_composer s (c_stmt s) (c_next s + 1) (c_threads s) (c_modules s) in
  let s2 := set_ctx s1 (Some ra) (running_process s1) (send_command s1) (exited_proc s1) in
  let s3 := publish (publish s2 (PRunNo (ra_no ra))) (PRunInfo (ra_no ra) RInitialized (ra_stmt ra) None) in
  log_hook s3 HInitRun (Some (ra_stmt ra)).

(** StateMachine.after_state_change -> on_change_state(self.state) *)
Definition change_state_hook (s : state) : state :=
  log_hook (publish s (PState (st_fsm s))) HChangeState None.

(** ScriptRegistrar.on_change_script *)
Definition change_script (s : state) : state :=
  log_hook (publish s (PStatement (c_stmt s))) HChangeScript (Some (c_stmt s)).

(** the plugin of a refused request: registered by task t and never armed
    (a plugin of an earlier, accepted request of the same task is armed by then) *)
Definition unregister_cont (s : state) (t : nat) : state :=
  set_cont s (filter (fun x => negb (Nat.eqb (fst x) t && negb (snd x))) (cont_plugins s)).

Definition is_cont (c : call) : bool :=
  match c with CRunCont | CRunContWait => true | _ => false end.

(** a refused request: the exception propagates out of the API call *)
Definition refuse (s : state) (t : nat) (c : call) : state :=
  let s1 := release s in
  if is_cont c then
    (* Continuous._enabled: undo; publishing on the closed item raises RuntimeError instead *)
    if cont_closed s1 then finish_call (unregister_cont s1 t) t c RRuntimeError
    else finish_call (publish (unregister_cont s1 t) (PCont false)) t c RMachineError
  else finish_call s1 t c RMachineError.

(** ---- first segment of each call once it holds the lock ---- *)

(** Imp.aopen: hook.init, then the trigger `initialize` up to its first gate *)
Definition enter_start (s : state) (t : nat) (c : call) : state :=
  match st_fsm s with
  | Created => set_pc (change_script (log_hook s HStart None)) t c S_G1
  | _ => refuse s t c
  end.

Definition enter_run (s : state) (t : nat) (c : call) : state :=
  match st_fsm s with
  | Initialized =>
    let s1 := set_fsm s Running in
    let s2 := set_owner (set_run s1 (Some RT_New) (Some false) false) t in   (* Callback.start_run *)
    set_pc s2 t c R_WaitStarted
  | _ => refuse s t c
  end.

Definition apply_rest (s : state) (o : opts) : state :=
  set_composer s (c_stmt s)
    (match o_start o with Some n => n | None => c_next s end)
    (match o_threads o with Some b => b | None => c_threads s end)
    (match o_modules o with Some b => b | None => c_modules s end).

Definition enter_reset (s : state) (t : nat) (o : opts) : state :=
  match st_fsm s with
  | Initialized | Finished =>
    let s1 := log_hook s HReset None in
    match o_stmt o with
    | Some x =>
      let s2 := set_composer s1 x (c_next s1) (c_threads s1) (c_modules s1) in
      set_pc (change_script s2) t (CReset o) Z_G1
    | None => set_pc (apply_rest s1 o) t (CReset o) Z_G1b
    end
  | _ => refuse s t (CReset o)
  end.

(** the trigger `close` from its (current) source state up to the gate of the close hook *)
Definition close_enter_closed (s : state) (t : nat) : state :=
  set_pc (log_hook (set_fsm s Closed) HClose None) t CClose C_G3.

Definition close_trigger (s : state) (t : nat) : state :=
  match st_fsm s with
  | Closed =>       (* internal transition: no callbacks *)
    finish_call (close_cont (release s)) t CClose ROk
  | Finished =>
    match runt s with
    | Some _ => set_pc s t CClose C_WaitRunTask
    | None => close_enter_closed s t
    end
  | Created => close_enter_closed (change_script (log_hook s HStart None)) t
  | _ => close_enter_closed s t
  end.

(** Imp.aclose once it holds the lock *)
Definition enter_close (s : state) (t : nat) : state :=
  let s1 := publish s PEndAll in
  match st_fsm s1 with
  | Running =>
    match run_finished s1 with
    | None => finish_call (release s1) t CClose RAttributeError
    | Some true => close_trigger s1 t
    | Some false => set_pc s1 t CClose C_WaitRunFinished
    end
  | _ => close_trigger s1 t
  end.

Definition enter (s : state) (t : nat) (c : call) (part2 : bool) : state :=
  match c with
  | CStart => enter_start s t c
  | CClose => if part2 then enter_close s t else enter_start s t c
  | CReset o => enter_reset s t o
  | CRun | CRunCont | CRunContWait | CRunSession => enter_run s t c
  | _ => s
  end.

(** `async with self._lock`: immediate if free and nobody waits *)
Definition acquire (s : state) (t : nat) (c : call) (part2 : bool) : state :=
  match holder s, lockq s with
  | None, [] => enter (set_lock s (Some t) []) t c part2
  | _, _ => set_pc (set_lock s (holder s) (lockq s ++ [t])) t c (if part2 then WaitLock2 else WaitLock1)
  end.

(** ---- labels ---- *)
Inductive label :=
| Call (t : nat) (c : call)
| Step (t : nat)
| StepRun
| ChildExit (o : outcome).

Definition do_call (s : state) (t : nat) (c : call) : state :=
  match find_task (tasks s) t with
  | Some _ => s                        (* the task is busy: not a possible label *)
  | None =>
    let s0 := set_tasks s ((t, (c, WaitLock1)) :: tasks s) in
    match c with
    | CStart =>
      if nl_started s0 then finish_call s0 t c ROk
      else acquire (publish (set_flags s0 true (nl_closed s0)) (PCont false)) t c false
    | CClose =>
      if nl_closed s0 then finish_call s0 t c ROk
      else
        let s1 := set_flags s0 (nl_started s0) true in
        if nl_started s1 then acquire s1 t c true
        else acquire (publish (set_flags s1 true true) (PCont false)) t c false
    | CRun | CRunSession | CReset _ => acquire s0 t c false
    | CRunCont | CRunContWait =>
      (* PubSubItem.publish on a closed item raises RuntimeError *)
      if cont_closed s0 then finish_call s0 t c RRuntimeError
      else acquire (set_cont (publish s0 (PCont true)) (cont_plugins s0 ++ [(t, false)])) t c false
    | CSignal =>
      (* the user plugins' implementations run in any case; the built-in one asserts *)
      if running_process s0 then set_pc (log_hook s0 HSignal None) t c Sig_G
      else finish_call (log_hook s0 HSignal None) t c RAssertionError
    | CSend =>
      if send_command s0 then set_pc (log_hook s0 HSend None) t c Sig_G
      else finish_call (log_hook s0 HSend None) t c RAssertionError
    end
  end.

(** the re-initialisation part shared by reset (and used after waiting for the run task) *)
Definition reset_reinit (s : state) (t : nat) (c : call) : state :=
  set_pc (initialize_run (set_fsm s Initialized)) t c Z_G3.

Definition do_step (s : state) (t : nat) : state :=
  match find_task (tasks s) t with
  | None => s
  | Some (c, p) =>
    match p with
    | WaitLock1 | WaitLock2 => s                                   (* waits for the lock *)
    | Granted1 => enter s t c false
    | Granted2 => enter s t c true
    | S_G1 => set_pc (initialize_run (set_fsm s Initialized)) t c S_G2
    | S_G2 => set_pc (change_state_hook s) t c S_G3
    | S_G3 =>
      let s1 := release s in
      match c with
      | CClose => acquire s1 t c true
      | _ => finish_call s1 t c ROk
      end
    | R_WaitStarted =>
      if started_ev s then set_pc (change_state_hook s) t c R_G else s
    | R_G =>
      let s1 := release s in
      match c with
      | CRunContWait | CRunSession => set_pc s1 t c P_WaitRunFinished
      | _ => finish_call s1 t c ROk
      end
    | P_WaitRunFinished =>
      match run_finished s with
      | Some true => finish_call s t c ROk
      | _ => s
      end
    | Z_G1 =>
      match c with
      | CReset o => set_pc (apply_rest s o) t c Z_G1b
      | _ => s
      end
    | Z_G1b =>
      match st_fsm s, runt s with
      | Finished, Some _ => set_pc s t c Z_WaitRunTask
      | _, _ => reset_reinit s t c
      end
    | Z_WaitRunTask =>
      match runt s with
      | None => reset_reinit s t c
      | Some _ => s
      end
    | Z_G3 => set_pc (change_state_hook s) t c Z_G4
    | Z_G4 => finish_call (release s) t c ROk
    | C_WaitRunFinished =>
      match run_finished s with
      | Some true => close_trigger s t
      | _ => s
      end
    | C_WaitRunTask =>
      match runt s with
      | None => close_enter_closed s t
      | Some _ => s
      end
    | C_G3 => set_pc (change_state_hook s) t c C_G4
    | C_G4 => finish_call (close_cont (release s)) t c ROk
    | Sig_G => finish_call s t c ROk
    end
  end.

(** assumption F *)
Definition run_call_pending (s : state) : bool :=
  existsb (fun x => match snd (snd x) with R_WaitStarted => true | _ => false end) (tasks s).

(** Continue.on_start_run: only the plugin of the request that started this run *)
Definition arm (owner : nat) (l : list (nat * bool)) : list (nat * bool) :=
  map (fun x => (fst x, snd x || Nat.eqb (fst x) owner)) l.

(** Continue.on_finished of every registered plugin whose run started: unregister, publish False *)
Fixpoint cont_finished (s : state) (l : list (nat * bool)) : state :=
  match l with
  | [] => s
  | (_, true) :: r => cont_finished (publish s (PCont false)) r
  | (_, false) :: r => cont_finished s r
  end.

(** Callback._finish up to the gate of on_finished *)
Definition run_finish (s : state) : state :=
  let s1 := set_run s (runt s) (run_finished s) true in                 (* started.set() in finally *)
  let s2 := set_ctx s1 None (running_process s1) (send_command s1) (exited_proc s1) in
  match st_fsm s2 with
  | Running =>
    let s3 := log_hook (set_fsm s2 Finished) HFinished None in
    let s4 := cont_finished (set_cont s3 (filter (fun x => negb (snd x)) (cont_plugins s3))) (cont_plugins s3) in
    set_run s4 (Some RT_G_fin) (run_finished s4) (started_ev s4)
  | _ =>
    (* MachineError out of the nested trigger: `finally: _run_finished.set()`, task ends *)
    set_run s2 None (Some true) true
  end.

Definition do_step_run (s : state) : state :=
  match runt s with
  | None => s
  | Some RT_New =>
    match run_arg s with
    | None => run_finish s                                       (* `assert context.run_arg` *)
    | Some _ =>
      let s1 := set_ctx s (run_arg s) (running_process s) true None in   (* exited_process = None; send_command *)
      set_run (set_child s1 (S (alive s1)) (pending_exit s1)) (Some RT_Created) (run_finished s1) (started_ev s1)
    end
  | Some RT_Created =>
    let s1 := set_ctx s (run_arg s) true (send_command s) (exited_proc s) in
    match run_arg s1 with
    | Some ra =>
      let s2 := publish s1 (PRunInfo (ra_no ra) RRunning (ra_stmt ra) None) in
      let s3 := log_hook s2 HStartRun (Some (ra_stmt ra)) in
      set_run (set_cont s3 (arm (run_owner s3) (cont_plugins s3))) (Some RT_G_start) (run_finished s3) (started_ev s3)
    | None => run_finish s1
    end
  | Some RT_G_start => set_run s (Some RT_WaitChild) (run_finished s) true
  | Some RT_WaitChild =>
    if run_call_pending s then s else
    match pending_exit s with
    | None => s
    | Some o =>
      let s1 := set_child s (alive s) None in
      let s2 := set_ctx s1 (run_arg s1) false (send_command s1) (Some o) in
      match run_arg s2 with
      | Some ra =>
        let s3 := publish s2 (PRunInfo (ra_no ra) RFinished (ra_stmt ra) (Some o)) in
        set_run (log_hook s3 HEndRun None) (Some RT_G_end) (run_finished s3) (started_ev s3)
      | None => run_finish s2
      end
    end
  | Some RT_G_end => run_finish s
  | Some RT_G_fin => set_run (change_state_hook s) (Some RT_G_cs) (run_finished s) (started_ev s)
  | Some RT_G_cs => set_run s None (Some true) (started_ev s)
  end.

Definition do_child_exit (s : state) (o : outcome) : state :=
  match alive s with
  | O => s
  | S n => set_child s n (Some o)
  end.

Definition step (s : state) (l : label) : state :=
  match l with
  | Call t c => do_call s t c
  | Step t => do_step s t
  | StepRun => do_step_run s
  | ChildExit o => do_child_exit s o
  end.

Definition run_labels (s : state) (ls : list label) : state := fold_left step ls s.

(** ---- which waits resolve by themselves (used by the co-simulation only) ----
    The harness controls: calls, the release of hook gates, the exit of the
    child.  Everything else happens on its own as soon as it is enabled. *)
Definition auto_pc (p : pc) : bool :=
  match p with
  | Granted1 | Granted2 | R_WaitStarted | P_WaitRunFinished | Z_WaitRunTask
  | C_WaitRunFinished | C_WaitRunTask | Sig_G => true     (* the co-simulation does not hold signal/command hooks *)
  | _ => false
  end.

Definition auto_rpc (r : rpc) : bool :=
  match r with RT_New | RT_Created | RT_WaitChild => true | _ => false end.

(** one round: the run task, then every API task at a self-resolving wait *)
Definition settle_round (s : state) : state :=
  let s1 := match runt s with Some r => if auto_rpc r then do_step_run s else s | None => s end in
  fold_left (fun st x => match find_task (tasks st) (fst x) with
                         | Some (_, p) => if auto_pc p then do_step st (fst x) else st
                         | None => st end) (tasks s1) s1.

Fixpoint settle (fuel : nat) (s : state) : state :=
  match fuel with
  | O => s
  | S n => settle n (settle_round s)
  end.
