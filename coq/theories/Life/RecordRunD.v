(** C02, Life/RecordRun.v: every run is good -- the child `ChDied` (one quarter of the case
    analysis of [every_run_good], Life/RecordTie.v) *)
From Coq Require Import List String ZArith Bool.
From NL Require Import Life.RecordSyntax Life.RecordInterp Gen.RunRecord Life.RecordRun.
Import ListNotations.

Lemma good_D : forall  code look no script prev ran o,
  good_run (mkRun (ChDied) code look no script prev ran) (FS.trace o).
Proof. intros  code look no script prev ran. all_traces_good code look script ran. Qed.
