(** C16 tie, whole histories on the REGENERATED code: a small task-pool system whose every
    step is [exec] (Life/ContTie.v) on a program of Gen/ContinuousSkel.v, with the scheduler
    as a label list, and the invariant

        coherent  /\  flag = (counter > 0) unless closed (then off)
                  /\  counter = number of registered Continue plugins (>= once closed)

    proved by induction over ALL label lists.  It replaces, for the flag, the rely
    hypothesis of [flag_requested] and the constant-environment hypotheses of [tie_refuse]:
    here the environment of a request IS the rest of the system.

    A request is two steps.  [LEnter t]: task t runs `_requested` up to its `yield`; the
    state at the yield is what [exec] hands to the body ([requested_all_env]), obtained by
    running the whole generator with a body that returns at once ([env_pass]; lemma
    [enter_state]).  The pool remembers the state and frame the generator was started in.
    [LExit t r own]: the body of t's request returns ([r = None]) or raises ([Some x], any
    class): the WHOLE generator is run from the state it was really started in, in the
    environment "meanwhile the rest of the system has turned the shared state into the
    current one, then the body ends with r" ([env_at]).  The other steps: the
    on_start_run hooks of a run ([LArm]), its on_finished hooks ([LFinished]),
    Continuous.close ([LClose], once: Nextline.close is guarded), and anything else that
    appends events that are not publications of the flag ([LOther]).

    What is NOT in this system (it is in Life/Model.v and its co-simulation): which of these
    steps are possible when -- the lifecycle lock, the state machine, the refusal rule. *)
From Coq Require Import List ZArith Bool Arith Lia.
From NL Require Import Life.Model Life.Hist Life.ContFlag Life.ContTie.
Import ListNotations.
Open Scope Z_scope.

Record sys := mkSys {
  y_sh : shared;
  y_pend : list (nat * (shared * frame))      (* requests suspended at the yield *)
}.

Inductive slabel :=
| LEnter (t : nat) (ctx : option nat)
| LExit (t : nat) (r : option exc) (own : bool)
| LArm (requested : bool) (owner : nat)
| LFinished
| LClose
| LOther (evs : list event).

Definition env_pass : env := mkEnv (fun _ => None) (fun _ _ x => x) false.
Definition env_at (cur : shared) (r : option exc) (own : bool) : env :=
  mkEnv (fun c => match c with CBody => r | _ => None end) (fun _ _ _ => cur) own.

Fixpoint find_pend (l : list (nat * (shared * frame))) (t : nat) : option (shared * frame) :=
  match l with
  | [] => None
  | (t', x) :: r => if Nat.eqb t t' then Some x else find_pend r t
  end.
Fixpoint remove_pend (l : list (nat * (shared * frame))) (t : nat) : list (nat * (shared * frame)) :=
  match l with
  | [] => []
  | (t', x) :: r => if Nat.eqb t t' then r else (t', x) :: remove_pend r t
  end.

Definition not_flag (ev : event) : bool := match ev with EvPub (PCont _) => false | _ => true end.

Definition on_finished_all (sh : shared) : shared :=
  fold_left (fun s x => snd (fst (exec (prog MOnFinished) env_pass None s (plugin_frame x None))))
            (cont_plugins (sh_m sh)) sh.

Definition sstep (y : sys) (l : slabel) : sys :=
  match l with
  | LEnter t ctx =>
      match find_pend (y_pend y) t with
      | Some _ => y                                   (* t is suspended in the body of its request *)
      | None =>
          let fr := mkFr t false ctx None None [] 0 in
          let '(o, sh', _) := exec (prog MRequested) env_pass None (y_sh y) fr in
          match o with
          | Fin => mkSys sh' (y_pend y ++ [(t, (y_sh y, fr))])
          | _ => mkSys sh' (y_pend y)                  (* publish(True) raised: the item is closed *)
          end
      end
  | LExit t r own =>
      match find_pend (y_pend y) t with
      | None => y
      | Some (sh0, fr) =>
          let '(_, sh', _) := exec (prog MRequested) (env_at (y_sh y) r own) None sh0 fr in
          mkSys sh' (remove_pend (y_pend y) t)
      end
  | LArm requested owner =>
      let sh := y_sh y in
      mkSys (set_m sh (set_cont_plugins (sh_m sh)
               (map (fun x => (fst x, fr_started (snd (exec (prog MOnStartRun) env_pass None sh
                                                            (plugin_frame x (run_ctx requested owner))))))
                    (cont_plugins (sh_m sh)))))
            (y_pend y)
  | LFinished => mkSys (on_finished_all (y_sh y)) (y_pend y)
  | LClose =>
      if sh_item (y_sh y) then y
      else mkSys (snd (fst (exec (prog MClose) env_pass None (y_sh y) (mkFr 0 false None None None [] 0)))) (y_pend y)
  | LOther evs =>
      let m := sh_m (y_sh y) in
      mkSys (set_m (y_sh y) (set_trace m (filter not_flag evs ++ trace m))) (y_pend y)
  end.

Definition srun (y : sys) (ls : list slabel) : sys := fold_left sstep ls y.

(** Continuous.__init__ then Continuous.start on a fresh object *)
Definition sys_init (a b : Z) (c d : bool) : sys :=
  let fr := mkFr 0 false None None None [] 0 in
  let sh0 := snd (fst (exec (prog MInit) env_pass None (mkSh (init_state a b c d) 0 false) fr)) in
  mkSys (snd (fst (exec (prog MStart) env_pass None sh0 fr))) [].

(** ---- the invariant ---- *)
Definition J (sh : shared) : Prop :=
  coherent sh /\ flag_inv sh /\
  (if cont_closed (sh_m sh) then Z.of_nat (length (cont_plugins (sh_m sh))) <= sh_cnt sh
   else sh_cnt sh = Z.of_nat (length (cont_plugins (sh_m sh)))).

Definition SInv (y : sys) : Prop :=
  J (y_sh y) /\
  forall t sh0 fr, In (t, (sh0, fr)) (y_pend y) ->
                   coherent sh0 /\ cont_closed (sh_m sh0) = false /\ fr_me fr = t.

Lemma env_at_ok cur r own : coherent cur -> env_ok (env_at cur r own).
Proof. intros H c v sh _. exact H. Qed.

Lemma env_pass_ok : env_ok env_pass.
Proof. intros c v sh H. exact H. Qed.

(** the state at the yield, for every environment, is the state [LEnter] computes *)
Lemma enter_state : forall sh fr,
  coherent sh -> cont_closed (sh_m sh) = false ->
  exec (prog MRequested) env_pass None sh fr =
  (Fin, mkSh (entry_m (sh_m sh) (fr_me fr)) (sh_cnt sh + 1) false, after_with fr).
Proof. intros sh fr Hco Hcl. rewrite (requested_all_env env_pass None sh fr env_pass_ok Hco Hcl). reflexivity. Qed.

Lemma J_entry sh t : J sh -> cont_closed (sh_m sh) = false ->
  J (mkSh (entry_m (sh_m sh) t) (sh_cnt sh + 1) false).
Proof.
  intros (Hco & Hfl & Hn) Hcl. rewrite Hcl in Hn. split; [ | split].
  - unfold coherent. simpl. symmetry. exact Hcl.
  - apply (flag_entry sh t Hcl). lia.
  - simpl. change (cont_closed (publish (sh_m sh) (PCont true))) with (cont_closed (sh_m sh)). rewrite Hcl.
    rewrite app_length. simpl. lia.
Qed.

Lemma J_closed_entry sh : J sh -> sh_item sh = true -> J (set_cnt sh (sh_cnt sh + 1)).
Proof.
  intros (Hco & Hfl & Hn) Hit. unfold coherent in Hco. rewrite Hit in Hco.
  split; [ | split].
  - unfold coherent. simpl. rewrite Hit. exact Hco.
  - unfold flag_inv in *. simpl. rewrite <- Hco in *. exact Hfl.
  - simpl. rewrite <- Hco in *. lia.
Qed.

Lemma J_unreg_disable sh t b : J sh -> has_plugin (sh_m sh) t b = true ->
  J (disable_sh (set_m sh (unreg_m (sh_m sh) t b))).
Proof.
  intros (Hco & Hfl & Hn) Hhas.
  pose proof (unreg_length (sh_m sh) t b Hhas) as Hlen.
  assert (Hpos : (0 < length (cont_plugins (sh_m sh)))%nat).
  { apply has_plugin_in in Hhas. destruct (cont_plugins (sh_m sh)); [destruct Hhas | simpl; lia]. }
  split; [ | split].
  - destruct sh as [m n it]. unfold coherent, disable_sh, set_m, set_cnt in *. cbn [sh_m sh_cnt sh_item] in *.
    rewrite closed_unreg. destruct (cont_closed m) eqn:Ec; cbn [sh_m sh_cnt sh_item];
      change (cont_closed (publish ?a ?p)) with (cont_closed a); rewrite ?closed_unreg, ?Ec; exact Hco.
  - apply flag_disable, flag_unreg. exact Hfl.
  - destruct sh as [m n it]. unfold disable_sh, set_m, set_cnt in *. cbn [sh_m sh_cnt sh_item] in *. rewrite closed_unreg.
    destruct (cont_closed m) eqn:Ec; cbn [sh_m sh_cnt sh_item].
    + rewrite closed_unreg, Ec, Hlen. lia.
    + change (cont_closed (publish ?a ?p)) with (cont_closed a). rewrite closed_unreg, Ec.
      change (cont_plugins (publish ?a ?p)) with (cont_plugins a). rewrite Hlen. lia.
Qed.

Lemma J_close sh : J sh -> sh_item sh = false -> J (close_sh sh).
Proof.
  intros (Hco & Hfl & Hn) Hit. unfold coherent in Hco. rewrite Hit in Hco.
  split; [ | split].
  - destruct sh as [m n it]. unfold coherent, close_sh. simpl. destruct (n >? 0); destruct m; reflexivity.
  - apply flag_close; [exact Hfl | symmetry; exact Hco].
  - rewrite <- Hco in Hn. destruct sh as [m n it]. unfold close_sh. simpl in *.
    destruct (n >? 0); destruct m; simpl in *; lia.
Qed.

Lemma enabled_other evs tr : enabled_of (filter not_flag evs ++ tr) = enabled_of tr.
Proof.
  induction evs as [ | ev evs IH]; simpl; [reflexivity | ].
  destruct ev as [ | | p | ]; simpl; try exact IH. destruct p; simpl; exact IH.
Qed.

Lemma J_other sh evs : J sh -> J (set_m sh (set_trace (sh_m sh) (filter not_flag evs ++ trace (sh_m sh)))).
Proof.
  intros (Hco & Hfl & Hn). split; [ | split].
  - exact Hco.
  - unfold flag_inv in *. simpl. rewrite enabled_other. exact Hfl.
  - exact Hn.
Qed.

Lemma J_plugins_map sh (f : nat * bool -> nat * bool) : J sh ->
  J (set_m sh (set_cont_plugins (sh_m sh) (map f (cont_plugins (sh_m sh))))).
Proof.
  intros (Hco & Hfl & Hn). split; [ | split].
  - exact Hco.
  - exact Hfl.
  - simpl. rewrite map_length. exact Hn.
Qed.

(** one on_finished hook *)
Lemma J_on_finished sh x : J sh ->
  J (snd (fst (exec (prog MOnFinished) env_pass None sh (plugin_frame x None)))).
Proof.
  intros HJ. destruct HJ as (Hco & Hrest). rewrite (on_finished_exec env_pass None sh _ Hco).
  cbn [plugin_frame fr_started fr_me].
  destruct (snd x); [ | exact (conj Hco Hrest)].
  destruct (has_plugin (sh_m sh) (fst x) true) eqn:Eh; cbn [fst snd]; [ | exact (conj Hco Hrest)].
  apply J_unreg_disable; [exact (conj Hco Hrest) | exact Eh].
Qed.

Lemma J_on_finished_all sh : J sh -> J (on_finished_all sh).
Proof.
  unfold on_finished_all. generalize (cont_plugins (sh_m sh)). intros l. revert sh.
  induction l as [ | x l IH]; intros sh HJ; simpl; [exact HJ | ].
  apply IH. apply J_on_finished. exact HJ.
Qed.

Lemma find_pend_in l t x : find_pend l t = Some x -> In (t, x) l.
Proof.
  induction l as [ | [t' y] l IH]; simpl; [discriminate | ]. destruct (Nat.eqb t t') eqn:E.
  - intros H. inversion H. subst. apply Nat.eqb_eq in E. subst. left. reflexivity.
  - intros H. right. apply IH. exact H.
Qed.

Lemma remove_pend_in l t e : In e (remove_pend l t) -> In e l.
Proof.
  induction l as [ | [t' y] l IH]; simpl; [tauto | ]. destruct (Nat.eqb t t').
  - intros H. right. exact H.
  - intros [H | H]; [left; exact H | right; apply IH; exact H].
Qed.

Theorem SInv_step : forall y l, SInv y -> SInv (sstep y l).
Proof.
  intros [sh pend] l [HJ HP]. cbn [y_sh y_pend] in HJ, HP.
  destruct l as [t ctx | t r own | rq ow | | | evs]; unfold sstep; cbn [y_sh y_pend].
  - (* LEnter *)
    destruct (find_pend pend t) eqn:Ef; [split; assumption | ].
    assert (HJ0 := HJ). destruct HJ as (Hco & _).
    destruct (cont_closed (sh_m sh)) eqn:Ec.
    + assert (Hit : sh_item sh = true) by (rewrite Hco; exact Ec).
      rewrite (requested_closed env_pass None sh _ Hit). split; cbn [y_sh y_pend].
      * apply J_closed_entry; [exact HJ0 | exact Hit].
      * exact HP.
    + rewrite (enter_state sh _ Hco Ec). split; cbn [y_sh y_pend fr_me].
      * apply J_entry; [exact HJ0 | exact Ec].
      * intros u sh0 fr Hin. apply in_app_or in Hin. destruct Hin as [Hin | [Hin | []]].
        -- apply (HP u). exact Hin.
        -- inversion Hin. subst. repeat split; [exact Hco | exact Ec].
  - (* LExit *)
    destruct (find_pend pend t) as [[sh0 fr] | ] eqn:Ef; [ | split; assumption].
    destruct (HP t sh0 fr (find_pend_in _ _ _ Ef)) as (Hco0 & Hcl0 & Hme).
    destruct HJ as (Hco & Hrest).
    rewrite (requested_all_env (env_at sh r own) None sh0 fr (env_at_ok sh r own Hco) Hco0 Hcl0).
    cbv zeta. cbn [env_at e_exc e_interf e_own_started].
    assert (Hpool : forall u sh1 fr1, In (u, (sh1, fr1)) (remove_pend pend t) ->
                    coherent sh1 /\ cont_closed (sh_m sh1) = false /\ fr_me fr1 = u).
    { intros u sh1 fr1 H. apply (HP u). apply (remove_pend_in _ _ _ H). }
    destruct r as [[ | | ] | ]; cbv beta iota zeta;
      try (split; [exact (conj Hco Hrest) | exact Hpool]);
      (destruct (has_plugin (sh_m sh) (fr_me fr) own) eqn:Eh; cbv beta iota zeta;
       [split; [apply J_unreg_disable; [exact (conj Hco Hrest) | exact Eh] | exact Hpool]
       | split; [exact (conj Hco Hrest) | exact Hpool]]).
  - (* LArm *) split; [apply J_plugins_map; exact HJ | exact HP].
  - (* LFinished *) split; [apply J_on_finished_all; exact HJ | exact HP].
  - (* LClose *)
    destruct (sh_item sh) eqn:Eit; [split; assumption | ].
    rewrite (close_exec env_pass None sh _ Eit). split; [apply J_close; assumption | exact HP].
  - (* LOther *) split; [apply J_other; exact HJ | exact HP].
Qed.

Lemma SInv_init a b c d : SInv (sys_init a b c d).
Proof.
  unfold sys_init. rewrite init_exec. cbn [fst snd]. rewrite start_exec by reflexivity. cbn [fst snd].
  split; simpl.
  - split; [reflexivity | split; reflexivity].
  - intros t sh0 fr [].
Qed.

(** ==== the whole-history statement on the regenerated code ==== *)
Theorem SInv_reachable : forall a b c d ls, SInv (srun (sys_init a b c d) ls).
Proof.
  intros a b c d ls. unfold srun. generalize (SInv_init a b c d). generalize (sys_init a b c d).
  induction ls as [ | l ls IH]; intros y H; simpl; [exact H | ]. apply IH. apply SInv_step. exact H.
Qed.

(** for every schedule: while open, the published flag is true exactly when a Continue plugin
    is registered (= a request is pending or its run in progress) and the counter is their
    number; once closed the flag is off *)
Theorem sys_flag : forall a b c d ls,
  let sh := y_sh (srun (sys_init a b c d) ls) in
  coherent sh /\
  (cont_closed (sh_m sh) = false ->
     sh_cnt sh = Z.of_nat (length (cont_plugins (sh_m sh))) /\
     enabled_of (trace (sh_m sh)) = Some (nonempty (cont_plugins (sh_m sh)))) /\
  (cont_closed (sh_m sh) = true -> enabled_of (trace (sh_m sh)) = Some false).
Proof.
  intros a b c d ls sh. destruct (SInv_reachable a b c d ls) as ((Hco & Hfl & Hn) & _). fold sh in Hco, Hfl, Hn.
  split; [exact Hco | ]. unfold flag_inv in Hfl. split; intros Hc; rewrite Hc in *.
  - split; [exact Hn | ]. rewrite Hfl, Hn, gt0_nonempty. reflexivity.
  - exact Hfl.
Qed.

(** non-vacuity: two requests refused in FIFO order (the history of seed C16-1), then one
    accepted, armed and finished, then close *)
Example sys_example :
  let y1 := srun (sys_init 7 1 true false)
              [LEnter 1 None; LEnter 2 None; LExit 1 (Some XOrdinary) false; LExit 2 (Some XOrdinary) false] in
  let y2 := srun y1 [LEnter 3 None; LArm true 3; LExit 3 None false] in
  let y3 := srun y2 [LFinished; LEnter 4 None; LClose; LExit 4 (Some XBaseOnly) false] in
  (rev (cpubs (trace (sh_m (y_sh y1)))) = [false; true; true; true; false] /\ cont_plugins (sh_m (y_sh y1)) = [] /\ sh_cnt (y_sh y1) = 0) /\
  (cont_plugins (sh_m (y_sh y2)) = [(3%nat, true)] /\ sh_cnt (y_sh y2) = 1 /\ enabled_of (trace (sh_m (y_sh y2))) = Some true) /\
  (rev (cpubs (trace (sh_m (y_sh y3)))) = [false; true; true; true; false; true; false; true; false] /\
   cont_plugins (sh_m (y_sh y3)) = [] /\ sh_cnt (y_sh y3) = 0 /\ sh_item (y_sh y3) = true /\ y_pend y3 = []).
Proof. vm_compute. repeat split; reflexivity. Qed.
