(** What `subscribe_state()` yields: the published lifecycle states form a path of
    the documented diagram starting at `initialized`; every publication shows the
    state the object is in.  For every reachable state of the lifecycle model. *)
From NL Require Import Life.Model Life.LockInv Life.FsmInv Life.Hist Life.Close.
From Coq Require Import Lia.

(** ---- the path property, on the trace (newest first) ---- *)
Fixpoint lastst (tr : list event) : option fsm :=
  match tr with
  | [] => None
  | EvPub (PState f) :: _ => Some f
  | _ :: r => lastst r
  end.

Definition step_ok (a : option fsm) (f : fsm) : Prop :=
  match a with None => f = Initialized | Some a => a = f \/ edge a f end.

Fixpoint okpath (tr : list event) : Prop :=
  match tr with
  | [] => True
  | EvPub (PState f) :: r => step_ok (lastst r) f /\ okpath r
  | _ :: r => okpath r
  end.

(** the same on the chronological list of published states *)
Fixpoint is_path (l : list fsm) : Prop :=
  match l with
  | [] => True
  | a :: r => match r with [] => True | b :: _ => a = b \/ edge a b end /\ is_path r
  end.

Definition path_from_initialized (l : list fsm) : Prop :=
  match l with [] => True | a :: _ => a = Initialized end /\ is_path l.

Fixpoint states_tr (tr : list event) : list fsm :=   (* newest first *)
  match tr with
  | [] => []
  | EvPub (PState f) :: r => f :: states_tr r
  | _ :: r => states_tr r
  end.

Lemma states_of_app a b : states_of (a ++ b) = states_of a ++ states_of b.
Proof. induction a as [|[] a IH]; simpl; auto. rewrite IH. reflexivity. Qed.
Lemma pubs_of_app a b : pubs_of (a ++ b) = pubs_of a ++ pubs_of b.
Proof. induction a as [|[] a IH]; simpl; auto. rewrite IH. reflexivity. Qed.

Lemma states_tr_rev tr : states_of (pubs_of (rev tr)) = rev (states_tr tr).
Proof.
  induction tr as [|e tr IH]; simpl; auto.
  rewrite pubs_of_app, states_of_app, IH.
  destruct e as [| |[]|]; simpl; rewrite ?app_nil_r; reflexivity.
Qed.

Lemma lastst_hd tr : lastst tr = hd_error (states_tr tr).
Proof. induction tr as [|e tr IH]; simpl; auto. destruct e as [| |[]|]; simpl; auto. Qed.

(** [okpath] on the reversed (newest first) list of states *)
Fixpoint okrev (l : list fsm) : Prop :=
  match l with
  | [] => True
  | f :: r => step_ok (hd_error r) f /\ okrev r
  end.

Lemma okpath_okrev tr : okpath tr <-> okrev (states_tr tr).
Proof.
  induction tr as [|e tr IH]; simpl; [tauto|].
  destruct e as [| |[]|]; simpl; try exact IH. rewrite lastst_hd. tauto.
Qed.

Lemma is_path_snoc l a : is_path (l ++ [a]) <->
  is_path l /\ match hd_error (rev l) with None => True | Some b => b = a \/ edge b a end.
Proof.
  induction l as [|x l IH]; simpl; [tauto|].
  destruct l as [|y l]; simpl in *; [tauto|].
  rewrite IH. clear IH.
  assert (E : hd_error ((rev l ++ [y]) ++ [x]) = hd_error (rev l ++ [y])).
  { destruct (rev l ++ [y]) eqn:El; [destruct (rev l); discriminate | reflexivity]. }
  rewrite E. tauto.
Qed.

Lemma okrev_path l : okrev l -> path_from_initialized (rev l).
Proof.
  induction l as [|f r IH]; simpl; [split; exact I|].
  intros (Hs & Hr). destruct (IH Hr) as (Hi & Hp). split.
  - destruct r as [|b r]; simpl in *; [exact Hs|].
    destruct (rev r ++ [b]) eqn:E; [destruct (rev r); discriminate|]. simpl. exact Hi.
  - apply is_path_snoc. split; auto. rewrite rev_involutive.
    destruct r as [|b r]; simpl in *; auto.
Qed.

(** ---- who still owes a state publication ---- *)
Definition hpc (s : state) : option pc :=
  match holder s with
  | Some t => match find_task (tasks s) t with Some (_, p) => Some p | None => None end
  | None => None
  end.

Definition owe_pc (p : pc) : bool :=
  match p with S_G2 | R_WaitStarted | Z_G3 | C_G3 => true | _ => false end.

Definition owe_h (s : state) : bool := match hpc s with Some p => owe_pc p | None => false end.
Definition owe_r (s : state) : bool := match runt s with Some RT_G_fin => true | _ => false end.
Definition owes (s : state) : bool := owe_h s || owe_r s.

Definition settled (s : state) : Prop :=
  lastst (trace s) = Some (st_fsm s) \/ (lastst (trace s) = None /\ st_fsm s = Created).

Definition SP (s : state) : Prop :=
  okpath (trace s) /\
  (if owes s then step_ok (lastst (trace s)) (st_fsm s) else settled s).

(** no state publication among the new events *)
Fixpoint nostate (new : list event) : Prop :=
  match new with
  | [] => True
  | EvPub (PState _) :: _ => False
  | _ :: r => nostate r
  end.

Lemma lastst_nostate new tr : nostate new -> lastst (new ++ tr) = lastst tr.
Proof. induction new as [|e new IH]; simpl; auto. destruct e as [| |[]|]; simpl; tauto. Qed.
Lemma okpath_nostate new tr : nostate new -> (okpath (new ++ tr) <-> okpath tr).
Proof. induction new as [|e new IH]; simpl; [tauto|]. destruct e as [| |[]|]; simpl; tauto. Qed.

Lemma nostate_only_cont new : only_cont new -> nostate new.
Proof.
  induction new as [|e new IH]; simpl; auto. intros H.
  destruct (H e (or_introl eq_refl)) as (b & ->). apply IH. intros e' Hin. apply H. right. exact Hin.
Qed.

(** the three kinds of steps *)
Lemma SP_neutral s s' new :
  SP s -> trace s' = new ++ trace s -> nostate new -> st_fsm s' = st_fsm s -> owes s' = owes s -> SP s'.
Proof.
  intros (Hp & Ho) E Hn Ef Eo. unfold SP, settled. rewrite Eo, E, Ef, lastst_nostate by assumption.
  split; auto. apply okpath_nostate; auto.
Qed.

Lemma SP_owe s s' new :
  SP s -> trace s' = new ++ trace s -> nostate new -> owes s = false -> owes s' = true ->
  (st_fsm s = Created -> st_fsm s' = Initialized) -> (st_fsm s' = st_fsm s \/ edge (st_fsm s) (st_fsm s')) ->
  SP s'.
Proof.
  intros (Hp & Ho) E Hn Eo Eo' Hcr Hedge. unfold SP. rewrite Eo', E, lastst_nostate by assumption.
  split; [apply okpath_nostate; auto|]. rewrite Eo in Ho.
  destruct Ho as [-> | (-> & Hc)]; simpl; auto. destruct Hedge as [<-|?]; auto.
Qed.

Lemma SP_pay s s' new new' :
  SP s -> trace s' = new' ++ EvPub (PState (st_fsm s)) :: new ++ trace s -> nostate new -> nostate new' ->
  owes s = true -> owes s' = false -> st_fsm s' = st_fsm s -> SP s'.
Proof.
  intros (Hp & Ho) E Hn Hn' Eo Eo' Ef. unfold SP, settled. rewrite Eo', E, Ef. rewrite Eo in Ho.
  rewrite lastst_nostate by assumption. simpl. split; auto.
  apply okpath_nostate; auto. simpl. rewrite lastst_nostate by assumption.
  split; auto. apply okpath_nostate; auto.
Qed.

(** ---- computing [hpc] ---- *)
Lemma hpc_inside s' t c p ts : holder s' = Some t -> tasks s' = put_task ts t (c, p) -> hpc s' = Some p.
Proof. intros Hh Et. unfold hpc. rewrite Hh, Et, find_put_eq. reflexivity. Qed.

Lemma owe_h_inside s' t c p ts :
  holder s' = Some t -> tasks s' = put_task ts t (c, p) -> owe_h s' = owe_pc p.
Proof. intros Hh Et. unfold owe_h. rewrite (hpc_inside _ _ _ _ _ Hh Et). reflexivity. Qed.

Lemma owe_h_of s t c p : holder s = Some t -> find_task (tasks s) t = Some (c, p) -> owe_h s = owe_pc p.
Proof. intros Hh Hf. unfold owe_h, hpc. rewrite Hh, Hf. reflexivity. Qed.

Lemma owe_h_none s : holder s = None -> owe_h s = false.
Proof. intros Hh. unfold owe_h, hpc. rewrite Hh. reflexivity. Qed.

Lemma owe_h_release s s' t :
  LkS s -> holder s = Some t -> holder s' = rel_holder (lockq s) ->
  (forall t', t' <> t -> find_task (tasks s') t' = find_task (rel_tasks (lockq s) (tasks s)) t') ->
  owe_h s' = false.
Proof.
  intros HL Hh Hh' Hsame. unfold owe_h, hpc. rewrite Hh'.
  destruct (lockq s) as [|t1 q] eqn:Eq; simpl; auto.
  unfold LkS in HL. rewrite Hh, Eq in HL.
  assert (Hn : t1 <> t) by (eapply Lk_head_neq; eauto).
  destruct (lk_q_wait _ _ _ HL t1 (or_introl eq_refl)) as (c1 & p1 & Hf1 & Hw1).
  rewrite Hsame by assumption. simpl. rewrite Hf1, find_put_eq.
  destruct p1; simpl in *; try discriminate; reflexivity.
Qed.

Lemma owe_h_same s s' t :
  holder s' = holder s -> holder s <> Some t ->
  (forall t', t' <> t -> find_task (tasks s') t' = find_task (tasks s) t') -> owe_h s' = owe_h s.
Proof.
  intros Hh Hn Hsame. unfold owe_h, hpc. rewrite Hh. destruct (holder s) as [h|]; auto.
  rewrite Hsame; auto; congruence.
Qed.

Lemma owe_r_none s : runt s = None -> owe_r s = false.
Proof. unfold owe_r. intros ->. reflexivity. Qed.

Lemma FI_idle_runt s : FI s -> st_fsm s <> Running -> st_fsm s <> Finished -> runt s = None.
Proof. intros [_ HS] H1 H2. eapply Scal_idle; eauto. Qed.

Lemma owe_r_running s : FI s -> st_fsm s = Running -> owe_r s = false.
Proof.
  intros [_ HS] Hr. destruct (Scal_running_not_none _ _ _ _ _ _ HS Hr) as (x & E & He & _).
  unfold owe_r. rewrite E. destruct x; simpl in He; try discriminate; reflexivity.
Qed.

Ltac tr_eq := fsimpl; reflexivity.

Ltac neutral s :=
  first [ eapply (SP_neutral s _ []); [eassumption | tr_eq | exact I | fsimpl | ]
        | eapply (SP_neutral s _ [_]); [eassumption | tr_eq | exact I | fsimpl | ]
        | eapply (SP_neutral s _ [_; _]); [eassumption | tr_eq | exact I | fsimpl | ]
        | eapply (SP_neutral s _ [_; _; _]); [eassumption | tr_eq | exact I | fsimpl | ]
        | eapply (SP_neutral s _ [_; _; _; _]); [eassumption | tr_eq | exact I | fsimpl | ]
        | eapply (SP_neutral s _ [_; _; _; _; _]); [eassumption | tr_eq | exact I | fsimpl | ] ].

Ltac owe s :=
  first [ eapply (SP_owe s _ []); [eassumption | tr_eq | exact I | | | fsimpl | fsimpl ]
        | eapply (SP_owe s _ [_]); [eassumption | tr_eq | exact I | | | fsimpl | fsimpl ]
        | eapply (SP_owe s _ [_; _]); [eassumption | tr_eq | exact I | | | fsimpl | fsimpl ]
        | eapply (SP_owe s _ [_; _; _]); [eassumption | tr_eq | exact I | | | fsimpl | fsimpl ]
        | eapply (SP_owe s _ [_; _; _; _]); [eassumption | tr_eq | exact I | | | fsimpl | fsimpl ] ].

Lemma runt_refuse s t c : runt (refuse s t c) = runt s.
Proof. unfold refuse. destruct (is_cont c); [destruct (cont_closed (release s))|]; simpl; apply rl_runt. Qed.

Lemma owes_eq s s' : owe_h s' = owe_h s -> runt s' = runt s -> owes s' = owes s.
Proof. intros E1 E2. unfold owes, owe_r. rewrite E1, E2. reflexivity. Qed.

Lemma SP_refuse s t c p0 :
  LkS s -> SP s -> holder s = Some t -> find_task (tasks s) t = Some (c, p0) -> owe_pc p0 = false ->
  SP (refuse s t c).
Proof.
  intros HL HP Hh Hf Hp0.
  assert (Ho : owes (refuse s t c) = owes s).
  { apply owes_eq; [|apply runt_refuse]. rewrite (owe_h_of _ _ _ _ Hh Hf), Hp0.
    eapply owe_h_release; eauto.
    - unfold refuse. destruct (is_cont c); [destruct (cont_closed (release s))|]; simpl; apply release_holder.
    - intros t' Hn. unfold refuse. destruct (is_cont c); [destruct (cont_closed (release s))|]; simpl;
        rewrite release_tasks; apply find_remove_neq; auto. }
  unfold refuse in *. destruct (is_cont c); [destruct (cont_closed (release s))|]; neutral s; auto.
Qed.

Lemma owes_false s : owe_h s = false -> owe_r s = false -> owes s = false.
Proof. unfold owes. intros -> ->. reflexivity. Qed.
Lemma owes_true_h s : owe_h s = true -> owes s = true.
Proof. unfold owes. intros ->. reflexivity. Qed.

Lemma SP_close_enter_closed s t p0 :
  LkS s -> FI s -> SP s -> holder s = Some t -> find_task (tasks s) t = Some (CClose, p0) ->
  owe_pc p0 = false -> runt s = None -> st_fsm s <> Created ->
  SP (close_enter_closed s t).
Proof.
  intros HL HF HP Hh Hf Hp0 Hr Hncr. unfold close_enter_closed. owe s.
  - apply owes_false; [rewrite (owe_h_of _ _ _ _ Hh Hf); auto | apply owe_r_none; auto].
  - apply owes_true_h. erewrite owe_h_inside; [| simpl; eauto | simpl; reflexivity]. reflexivity.
  - congruence.
  - right. destruct (st_fsm s); simpl; auto.
Qed.

Lemma SP_close_trigger s t p0 :
  LkS s -> FI s -> SP s -> holder s = Some t -> find_task (tasks s) t = Some (CClose, p0) ->
  owe_pc p0 = false -> st_fsm s <> Created -> st_fsm s <> Running ->
  SP (close_trigger s t).
Proof.
  intros HL HF HP Hh Hf Hp0 Hncr Hnr. unfold close_trigger.
  destruct (st_fsm s) eqn:Efs; try congruence.
  - eapply SP_close_enter_closed; eauto; try congruence. apply FI_idle_runt; auto; congruence.
  - destruct (runt s) eqn:Er.
    + neutral s; auto. apply owes_eq; auto.
      rewrite (owe_h_of _ _ _ _ Hh Hf), Hp0. erewrite owe_h_inside; [| simpl; eauto | simpl; reflexivity]. reflexivity.
    + eapply SP_close_enter_closed; eauto; congruence.
  - cc_cases s;
    (neutral s; auto; apply owes_eq; [|fsimpl; auto];
     rewrite (owe_h_of _ _ _ _ Hh Hf), Hp0; eapply owe_h_release; eauto;
     [ fsimpl; reflexivity | intros t' Hn; fsimpl; apply find_remove_neq; auto ]).
Qed.

Lemma SP_same s s' :
  SP s -> trace s' = trace s -> st_fsm s' = st_fsm s -> owes s' = owes s -> SP s'.
Proof. intros HP E1 E2 E3. eapply (SP_neutral s s' []); eauto. exact I. Qed.

Lemma SP_enter_close s t p0 :
  LkS s -> FI s -> SP s -> holder s = Some t -> find_task (tasks s) t = Some (CClose, p0) ->
  owe_pc p0 = false -> st_fsm s <> Created -> SP (enter_close s t).
Proof.
  intros HL HF HP Hh Hf Hp0 Hncr. unfold enter_close.
  assert (HP1 : SP (publish s PEndAll)) by (neutral s; auto).
  assert (HL1 : LkS (publish s PEndAll)) by exact HL.
  assert (HF1 : FI (publish s PEndAll)) by exact HF.
  destruct (st_fsm (publish s PEndAll)) eqn:Efs; simpl in Efs;
    try (eapply SP_close_trigger; eauto; simpl; congruence).
  simpl. rewrite (FI_rf _ HF Efs).
  neutral (publish s PEndAll); auto. apply owes_eq; auto.
  rewrite (owe_h_of (publish s PEndAll) _ _ _ Hh Hf), Hp0.
  erewrite owe_h_inside; [| simpl; eauto | simpl; reflexivity]. reflexivity.
Qed.

Ltac inside_same Hh Hf Hp0 :=
  apply owes_eq; [| fsimpl; auto];
  rewrite (owe_h_of _ _ _ _ Hh Hf), Hp0;
  erewrite owe_h_inside; [| fsimpl; eauto | fsimpl; reflexivity]; reflexivity.

Lemma SP_enter_start s t c p0 :
  LkS s -> SP s -> holder s = Some t -> find_task (tasks s) t = Some (c, p0) -> owe_pc p0 = false ->
  SP (enter_start s t c).
Proof.
  intros HL HP Hh Hf Hp0. unfold enter_start.
  destruct (st_fsm s) eqn:Efs; try (eapply SP_refuse; eauto).
  neutral s; auto. inside_same Hh Hf Hp0.
Qed.

Lemma SP_enter_run s t c p0 :
  LkS s -> FI s -> SP s -> holder s = Some t -> find_task (tasks s) t = Some (c, p0) -> owe_pc p0 = false ->
  SP (enter_run s t c).
Proof.
  intros HL HF HP Hh Hf Hp0. unfold enter_run.
  destruct (st_fsm s) eqn:Efs; try (eapply SP_refuse; eauto).
  owe s.
  - apply owes_false; [rewrite (owe_h_of _ _ _ _ Hh Hf); auto | apply owe_r_none].
    apply FI_idle_runt; auto; congruence.
  - apply owes_true_h. erewrite owe_h_inside; [| simpl; eauto | simpl; reflexivity]. reflexivity.
  - congruence.
  - right. rewrite Efs. exact I.
Qed.

Lemma SP_enter_reset s t o p0 :
  LkS s -> SP s -> holder s = Some t -> find_task (tasks s) t = Some (CReset o, p0) -> owe_pc p0 = false ->
  SP (enter_reset s t o).
Proof.
  intros HL HP Hh Hf Hp0. unfold enter_reset.
  destruct (st_fsm s) eqn:Efs; try (eapply SP_refuse; eauto);
    (destruct (o_stmt o); neutral s; auto; inside_same Hh Hf Hp0).
Qed.

Lemma SP_enter s t c part2 p0 :
  LkS s -> FI s -> SP s -> holder s = Some t -> find_task (tasks s) t = Some (c, p0) -> owe_pc p0 = false ->
  (c = CClose -> part2 = true -> st_fsm s <> Created) ->
  SP (enter s t c part2).
Proof.
  intros HL HF HP Hh Hf Hp0 Hncr. unfold enter. destruct c; auto.
  - eapply SP_enter_start; eauto.
  - eapply SP_enter_run; eauto.
  - eapply SP_enter_reset; eauto.
  - destruct part2; [eapply SP_enter_close; eauto | eapply SP_enter_start; eauto].
  - eapply SP_enter_run; eauto.
  - eapply SP_enter_run; eauto.
  - eapply SP_enter_run; eauto.
Qed.

Lemma take_inv (s : state) (t : nat) (c : call) (part2 : bool) :
  LkS s -> FI s -> holder s = None -> find_task (tasks s) t = None ->
  compat c (if part2 then Granted2 else Granted1) = true ->
  lockq s = [] /\
  LkS (set_pc (set_holder s (Some t)) t c (if part2 then Granted2 else Granted1)) /\
  FI (set_pc (set_holder s (Some t)) t c (if part2 then Granted2 else Granted1)).
Proof.
  intros HL HF Hh Hfree Hc.
  assert (Hq : lockq s = []).
  { destruct (lockq s) eqn:Eq; auto. exfalso. apply (lk_q_holder _ _ _ HL); [rewrite Eq; discriminate | exact Hh]. }
  split; auto. split.
  - unfold LkS. simpl. rewrite Hq. unfold LkS in HL. rewrite Hh, Hq in HL.
    apply Lk_take; auto. destruct part2; reflexivity.
  - destruct HF as [HP HS]. split; auto. simpl. apply PcOk_put; auto. destruct part2; reflexivity.
Qed.

Lemma SP_acquire (s : state) (t : nat) (c : call) (part2 : bool) :
  LkS s -> FI s -> SP s -> find_task (tasks s) t = None ->
  compat c (if part2 then Granted2 else Granted1) = true ->
  (c = CClose -> part2 = true -> holder s = None -> st_fsm s <> Created) ->
  SP (acquire s t c part2).
Proof.
  intros HL HF HP Hfree Hc Hncr. pose proof (free_not_holder _ _ HL Hfree) as Hnh.
  destruct (holder s) as [h|] eqn:Eh.
  - rewrite (acquire_busy _ _ _ _ h Eh). eapply SP_same; eauto.
    apply owes_eq; auto. eapply (owe_h_same s _ t); simpl; auto; try congruence.
    intros t' Hn. apply find_put_neq; auto.
  - destruct (take_inv s t c part2 HL HF Eh Hfree Hc) as (Hq & HL2 & HF2).
    rewrite acquire_free by assumption.
    set (s2 := set_pc (set_holder s (Some t)) t c (if part2 then Granted2 else Granted1)) in *.
    assert (HP2 : SP s2).
    { eapply SP_same; eauto. apply owes_eq; auto. rewrite (owe_h_none s Eh).
      unfold s2. erewrite owe_h_inside; [| simpl; eauto | simpl; reflexivity]. destruct part2; reflexivity. }
    eapply (SP_enter s2); eauto.
    + unfold s2. simpl. apply find_put_eq.
    + destruct part2; reflexivity.
Qed.

Lemma SP_free_neutral s s' t new :
  SP s -> holder s <> Some t -> trace s' = new ++ trace s -> nostate new ->
  st_fsm s' = st_fsm s -> runt s' = runt s -> holder s' = holder s ->
  (forall t', t' <> t -> find_task (tasks s') t' = find_task (tasks s) t') -> SP s'.
Proof.
  intros HP Hnh E Hn Ef Er Eh Hsame. eapply SP_neutral; eauto.
  apply owes_eq; auto. eapply owe_h_same; eauto.
Qed.

Ltac free_neutral s t :=
  first [ eapply (SP_free_neutral s _ t []); [eassumption | eassumption | tr_eq | exact I | fsimpl; auto | fsimpl; auto | fsimpl; auto | ]
        | eapply (SP_free_neutral s _ t [_]); [eassumption | eassumption | tr_eq | exact I | fsimpl; auto | fsimpl; auto | fsimpl; auto | ]
        | eapply (SP_free_neutral s _ t [_; _]); [eassumption | eassumption | tr_eq | exact I | fsimpl; auto | fsimpl; auto | fsimpl; auto | ]
        | eapply (SP_free_neutral s _ t [_; _; _]); [eassumption | eassumption | tr_eq | exact I | fsimpl; auto | fsimpl; auto | fsimpl; auto | ] ];
  let t' := fresh "t" in let Hn := fresh "Hn" in
  intros t' Hn; fsimpl; rewrite ?find_remove_neq, ?find_put_neq by assumption; reflexivity.

Lemma SP_do_call s t c :
  LkS s -> FI s -> CI s -> SP s -> find_task (tasks s) t = None -> SP (do_call s t c).
Proof.
  intros HL HF HC HP Hfree. unfold do_call. rewrite Hfree.
  pose proof (free_not_holder _ _ HL Hfree) as Hnh.
  set (s0 := set_trace s (EvCall t c :: trace s)).
  assert (HP0 : SP s0) by (unfold s0; neutral s; auto).
  assert (HL0 : LkS s0) by exact HL.
  assert (HF0 : FI s0) by exact HF.
  assert (Hnc : forall s1, holder s1 = holder s -> st_fsm s1 = st_fsm s -> nl_started s = true ->
                           holder s1 = None -> st_fsm s1 <> Created).
  { intros s1 E1 E2 Hst Hn Hcr. destruct (ci_created _ HC Hst) as (t0 & c0 & Hh0 & _); congruence. }
  destruct c; cbn [nl_started nl_closed cont_closed running_process send_command set_trace s0].
  - destruct (nl_started s); [free_neutral s t|].
    apply SP_acquire; auto; try discriminate; try (neutral s0; auto).
  - apply SP_acquire; auto; discriminate.
  - apply SP_acquire; auto; discriminate.
  - destruct (nl_closed s); [free_neutral s t|]. simpl.
    destruct (nl_started s) eqn:Est.
    + apply SP_acquire; auto; try (intros _ _; apply Hnc; auto); try (eapply SP_same; eauto).
    + apply SP_acquire; auto; try discriminate; try (neutral s0; auto).
  - destruct (cont_closed s); [free_neutral s t|].
    apply SP_acquire; auto; try discriminate; try (neutral s0; auto).
  - destruct (cont_closed s); [free_neutral s t|].
    apply SP_acquire; auto; try discriminate; try (neutral s0; auto).
  - apply SP_acquire; auto; discriminate.
  - destruct (running_process s); free_neutral s t.
  - destruct (send_command s); free_neutral s t.
Qed.

Ltac release_same s Hh Hf :=
  apply owes_eq; [| fsimpl; auto];
  rewrite (owe_h_of _ _ _ _ Hh Hf); simpl;
  eapply (owe_h_release s); eauto; [ fsimpl; reflexivity
  | let t' := fresh "t" in let Hn := fresh "Hn" in
    intros t' Hn; fsimpl; rewrite ?find_remove_neq, ?find_put_neq by assumption; reflexivity ].

Ltac pay s Hh Hf :=
  eapply (SP_pay s _ [] [_]); [eassumption | tr_eq | exact I | exact I
    | apply owes_true_h; rewrite (owe_h_of _ _ _ _ Hh Hf); reflexivity
    | apply owes_false; [erewrite owe_h_inside; [| fsimpl; eauto | fsimpl; reflexivity]; reflexivity | change (owe_r s = false)]
    | fsimpl; auto ].

Lemma SP_do_step s t : LkS s -> FI s -> CI s -> SP s -> SP (do_step s t).
Proof.
  intros HL HF HC HP. unfold do_step. destruct (find_task (tasks s) t) as [[c p]|] eqn:Ef; auto.
  pose proof HF as [HPc HS].
  pose proof (HPc _ _ _ Ef) as Hok.
  pose proof (lk_compat _ _ _ HL _ _ _ Ef) as Hc.
  pose proof (ci_tasks _ HC _ _ _ Ef) as (Hq1 & Hq2 & Hq3 & Hq4).
  assert (Hhold : locked_pc p = true -> holder s = Some t /\ (p <> S_G1 -> st_fsm s <> Created)).
  { intros Hl. assert (Hh : holder s = Some t) by (eapply (lk_holder_of _ _ _ HL); eauto).
    split; auto. intros Hp. eapply holder_not_created; eauto. }
  destruct p; simpl in Hhold; try (destruct (Hhold eq_refl) as (Hh & Hncr); clear Hhold); auto; simpl in Hok.
  - (* Granted1 *)
    eapply SP_enter; eauto. intros ->. destruct (Hq1 (or_intror eq_refl)) as (_ & Hn). congruence.
  - (* Granted2 *)
    eapply SP_enter; eauto. intros _ _. apply Hncr. discriminate.
  - (* S_G1 *)
    destruct (st_fsm s) eqn:Efs; try discriminate.
    owe s; auto.
    + apply owes_false; [rewrite (owe_h_of _ _ _ _ Hh Ef); auto | apply owe_r_none].
      apply FI_idle_runt; auto; congruence.
    + apply owes_true_h. erewrite owe_h_inside; [| simpl; eauto | simpl; reflexivity]. reflexivity.
    + right. rewrite Efs. exact I.
  - (* S_G2 *)
    pay s Hh Ef. apply owe_r_none. apply FI_idle_runt; auto; intros E; rewrite E in Hok; discriminate.
  - (* S_G3 *)
    specialize (Hncr ltac:(discriminate)).
    destruct c; simpl in Hc; try discriminate.
    + neutral s; auto. release_same s Hh Ef.
    + pose proof HL as HL0. unfold LkS in HL0. rewrite Hh in HL0.
      pose proof (Lk_release_forget _ _ _ HL0) as HFg.
      destruct (lockq s) as [|t1 q] eqn:Eq.
      * rewrite acquire_free by (rewrite ?release_holder, ?release_lockq, Eq; reflexivity).
        set (s2 := set_pc (set_holder (release s) (Some t)) t CClose Granted2).
        assert (HL2 : LkS s2).
        { unfold LkS, s2. simpl. rewrite ?release_lockq, ?release_tasks, ?Eq. apply Lk_readd_take; auto. }
        assert (HF2 : FI s2).
        { split; unfold s2; simpl.
          - rewrite rl_fsm, release_tasks, Eq. apply PcOk_release_put; auto.
          - rewrite rl_fsm, rl_runt, rl_rf, rl_alive, rl_pe, rl_ra. exact HS. }
        assert (HP2 : SP s2).
        { unfold s2. eapply SP_same; eauto; fsimpl; auto.
          apply owes_eq; [|fsimpl; auto]. rewrite (owe_h_of _ _ _ _ Hh Ef).
          erewrite owe_h_inside; [| simpl; eauto | simpl; reflexivity]. reflexivity. }
        unfold enter. eapply (SP_enter_close s2); eauto.
        -- unfold s2. simpl. apply find_put_eq.
        -- reflexivity.
        -- unfold s2. simpl. rewrite rl_fsm. exact Hncr.
      * rewrite (acquire_busy _ _ _ _ t1) by (rewrite release_holder, Eq; reflexivity).
        eapply SP_same; eauto; fsimpl; auto. release_same s Hh Ef.
  - (* R_WaitStarted *)
    destruct (started_ev s); auto. destruct (Hq4 eq_refl) as (Hrun & _).
    pay s Hh Ef. apply owe_r_running; auto.
  - (* R_G *)
    destruct c; simpl in Hc; try discriminate; neutral s; auto; release_same s Hh Ef.
  - (* Z_G1 *)
    destruct c; simpl in Hc; try discriminate. neutral s; auto. inside_same Hh Ef (eq_refl : owe_pc Z_G1 = false).
  - (* Z_G1b *)
    assert (Hre : runt s = None -> SP (reset_reinit s t c)).
    { intros Hr. unfold reset_reinit. owe s; auto.
      - apply owes_false; [rewrite (owe_h_of _ _ _ _ Hh Ef); auto | apply owe_r_none; auto].
      - apply owes_true_h. erewrite owe_h_inside; [| simpl; eauto | simpl; reflexivity]. reflexivity.
      - destruct (st_fsm s); try discriminate; simpl; auto. }
    destruct (st_fsm s) eqn:Efs; try discriminate.
    + apply Hre. apply FI_idle_runt; auto; congruence.
    + destruct (runt s) eqn:Er; [|apply Hre; auto].
      neutral s; auto. inside_same Hh Ef (eq_refl : owe_pc Z_G1b = false).
  - (* Z_WaitRunTask *)
    destruct (runt s) eqn:Er; auto. unfold reset_reinit. owe s; auto.
    + apply owes_false; [rewrite (owe_h_of _ _ _ _ Hh Ef); auto | apply owe_r_none; auto].
    + apply owes_true_h. erewrite owe_h_inside; [| simpl; eauto | simpl; reflexivity]. reflexivity.
    + destruct (st_fsm s); try discriminate; simpl; auto.
  - (* Z_G3 *)
    pay s Hh Ef. apply owe_r_none. apply FI_idle_runt; auto; intros E; rewrite E in Hok; discriminate.
  - (* Z_G4 *) neutral s; auto. release_same s Hh Ef.
  - (* C_WaitRunFinished *)
    destruct (run_finished s) as [[|]|] eqn:Erf; auto.
    destruct c; simpl in Hc; try discriminate.
    eapply SP_close_trigger; eauto. apply Hncr; discriminate.
    intros Hr. rewrite (FI_rf _ HF Hr) in Erf. discriminate.
  - (* C_WaitRunTask *)
    destruct (runt s) eqn:Er; auto. destruct c; simpl in Hc; try discriminate.
    eapply SP_close_enter_closed; eauto. apply Hncr; discriminate.
  - (* C_G3 *)
    pay s Hh Ef. apply owe_r_none. apply FI_idle_runt; auto; intros E; rewrite E in Hok; discriminate.
  - (* C_G4 *) cc_cases s; (neutral s; auto; release_same s Hh Ef).
  - (* P_WaitRunFinished *)
    destruct (run_finished s) as [[|]|]; auto.
    assert (Hnh : holder s <> Some t) by (eapply unlocked_not_holder; eauto).
    free_neutral s t.
  - (* Sig_G *)
    assert (Hnh : holder s <> Some t) by (eapply unlocked_not_holder; eauto).
    free_neutral s t.
Qed.

Lemma owe_h_fsm s :
  FI s -> CI s ->
  st_fsm s = Finished \/ (st_fsm s = Running /\ rws_ok (runt s) = false) -> owe_h s = false.
Proof.
  intros [HPc _] HC Hcase. unfold owe_h, hpc. destruct (holder s) as [h|]; auto.
  destruct (find_task (tasks s) h) as [[c p]|] eqn:Ef; auto.
  pose proof (HPc _ _ _ Ef) as Hok. pose proof (ci_tasks _ HC _ _ _ Ef) as (_ & _ & _ & Hq4).
  destruct p; simpl; auto; simpl in Hok.
  - destruct Hcase as [E | (E & _)]; rewrite E in Hok; discriminate.
  - destruct (Hq4 eq_refl) as (Hr & Hw). destruct Hcase as [E | (_ & E)]; congruence.
  - destruct Hcase as [E | (E & _)]; rewrite E in Hok; discriminate.
  - destruct Hcase as [E | (E & _)]; rewrite E in Hok; discriminate.
Qed.

Lemma SP_step_run s : LkS s -> FI s -> CI s -> SP s -> SP (do_step_run s).
Proof.
  intros HL HF HC HP. pose proof HF as [HPc HS]. unfold do_step_run.
  destruct (runt s) as [x|] eqn:Er; auto.
  assert (Hfsm : if early x then st_fsm s = Running else st_fsm s = Finished).
  { destruct (early x) eqn:Ee; [eapply sc_early | eapply sc_late]; eauto. }
  assert (Hra : early x = true -> run_arg s <> None).
  { intros He. apply (sc_ra _ _ _ _ _ _ HS). right. rewrite He in Hfsm. exact Hfsm. }
  destruct x; simpl in Hfsm.
  - destruct (run_arg s) eqn:Era; [|exfalso; apply Hra; auto].
    neutral s; auto. unfold owes, owe_r. simpl. rewrite Er. reflexivity.
  - simpl. destruct (run_arg s) eqn:Era; [|exfalso; apply Hra; auto].
    neutral s; auto. unfold owes, owe_r. simpl. rewrite Er. reflexivity.
  - neutral s; auto. unfold owes, owe_r. simpl. rewrite Er. reflexivity.
  - destruct (run_call_pending s) eqn:Epend; auto. destruct (pending_exit s) as [o|] eqn:Epe; auto.
    simpl. destruct (run_arg s) eqn:Era; [|exfalso; apply Hra; auto].
    neutral s; auto. unfold owes, owe_r. simpl. rewrite Er. reflexivity.
  - (* RT_G_end: the completion transition *)
    rewrite run_finish_running by assumption.
    match goal with |- context [cont_finished ?y ?n] => destruct (cf_trace n y) as (new & Et & Hoc) end.
    eapply (SP_owe s _ (new ++ [_])); [exact HP | | | | | |].
    + simpl. rewrite Et. simpl. rewrite <- app_assoc. reflexivity.
    + clear Et. induction new as [|e new IH]; simpl; auto.
      destruct (Hoc e (or_introl eq_refl)) as (b & ->). apply IH. intros e' Hin. apply Hoc. right. exact Hin.
    + apply owes_false; [|unfold owe_r; rewrite Er; reflexivity].
      apply owe_h_fsm; auto. right. rewrite Er. auto.
    + unfold owes, owe_r. simpl. apply orb_true_r.
    + congruence.
    + simpl. rewrite cf_fsm. simpl. right. rewrite Hfsm. exact I.
  - (* RT_G_fin *)
    eapply (SP_pay s _ [] [_]); [exact HP | reflexivity | exact I | exact I | | | reflexivity].
    + unfold owes, owe_r. rewrite Er. apply orb_true_r.
    + apply owes_false; [|reflexivity]. change (owe_h s = false). apply owe_h_fsm; auto.
  - neutral s; auto. unfold owes, owe_r. simpl. rewrite Er. reflexivity.
Qed.

Lemma SP_child_exit s o : SP s -> SP (do_child_exit s o).
Proof. intros HP. unfold do_child_exit. destruct (alive s); auto. Qed.

Theorem SP_step s l : LkS s -> FI s -> CI s -> SP s -> SP (step s l).
Proof.
  intros HL HF HC HP. destruct l; simpl.
  - destruct (find_task (tasks s) t) eqn:Ef.
    + unfold do_call. rewrite Ef. exact HP.
    + apply SP_do_call; auto.
  - apply SP_do_step; auto.
  - apply SP_step_run; auto.
  - apply SP_child_exit; auto.
Qed.

Lemma SP_init a b c d : SP (init_state a b c d).
Proof. split; simpl; auto. right. auto. Qed.

Theorem SP_reachable a b c d ls : SP (run_labels (init_state a b c d) ls).
Proof.
  unfold run_labels.
  generalize (LkS_init a b c d) (FI_init a b c d) (CI_init a b c d) (SP_init a b c d).
  generalize (init_state a b c d).
  induction ls as [|l ls IH]; intros s HL HF HC HP; simpl; auto.
  apply IH; [apply LkS_step | apply FI_step | apply CI_step | apply SP_step]; auto.
Qed.

(** ---- the subscription half of C01 ---- *)
Theorem state_pubs_path : forall stmt start th md ls,
  let s := run_labels (init_state stmt start th md) ls in
  path_from_initialized (states_of (pubs_of (history s))).
Proof.
  intros. unfold history. rewrite states_tr_rev. apply okrev_path. apply okpath_okrev.
  apply (SP_reachable stmt start th md ls).
Qed.

(** the same, index by index *)
Lemma is_path_nth l : is_path l ->
  forall i a b, nth_error l i = Some a -> nth_error l (S i) = Some b -> a = b \/ edge a b.
Proof.
  induction l as [|x l IH]; intros Hp i a b Ha Hb; [destruct i; discriminate|].
  destruct Hp as (Hh & Hp). destruct i as [|i]; simpl in *.
  - inversion Ha; subst. destruct l; [discriminate|]. inversion Hb; subst. exact Hh.
  - eapply IH; eauto.
Qed.

Theorem state_pubs_path_nth : forall stmt start th md ls,
  let l := states_of (pubs_of (history (run_labels (init_state stmt start th md) ls))) in
  (forall a, nth_error l 0 = Some a -> a = Initialized) /\
  (forall i a b, nth_error l i = Some a -> nth_error l (S i) = Some b -> a = b \/ edge a b).
Proof.
  intros. pose proof (state_pubs_path stmt start th md ls) as H. cbv zeta in H. fold l in H.
  destruct H as (Hi & Hp). split.
  - intros a Ha. destruct l; [discriminate|]. simpl in Ha, Hi. congruence.
  - apply is_path_nth. exact Hp.
Qed.

(** ---- every state publication shows the current state ---- *)
Definition nops (new : list event) : Prop := forall f, ~ In (EvPub (PState f)) new.
Definition NoPS (s s' : state) : Prop := exists new, trace s' = new ++ trace s /\ nops new.

Lemma nops_app a b : nops a -> nops b -> nops (a ++ b).
Proof. intros Ha Hb f Hin. apply in_app_or in Hin. destruct Hin; [eapply Ha | eapply Hb]; eauto. Qed.
Lemma NoPS_refl s s' : trace s' = trace s -> NoPS s s'.
Proof. intros E. exists []. split; auto. intros f []. Qed.
Lemma NoPS_trans s s1 s' : NoPS s s1 -> NoPS s1 s' -> NoPS s s'.
Proof.
  intros (n1 & E1 & H1) (n2 & E2 & H2). exists (n2 ++ n1). split.
  - rewrite E2, E1, app_assoc. reflexivity.
  - apply nops_app; auto.
Qed.

Ltac nops_tac := let H := fresh in intros ? H; simpl in H; intuition discriminate.

Ltac nps :=
  unfold NoPS; fsimpl;
  match goal with
  | |- exists new, ?tr = new ++ ?tr /\ _ => exists []
  | |- exists new, ?a :: ?tr = new ++ ?tr /\ _ => exists [a]
  | |- exists new, ?a :: ?b :: ?tr = new ++ ?tr /\ _ => exists [a; b]
  | |- exists new, ?a :: ?b :: ?c :: ?tr = new ++ ?tr /\ _ => exists [a; b; c]
  | |- exists new, ?a :: ?b :: ?c :: ?d :: ?tr = new ++ ?tr /\ _ => exists [a; b; c; d]
  | |- exists new, ?a :: ?b :: ?c :: ?d :: ?e :: ?tr = new ++ ?tr /\ _ => exists [a; b; c; d; e]
  end; split; [reflexivity | nops_tac].

Lemma NoPS_refuse s t c : NoPS s (refuse s t c).
Proof. unfold refuse. destruct (is_cont c); [destruct (cont_closed (release s))|]; nps. Qed.

Lemma NoPS_close_trigger s t : NoPS s (close_trigger s t).
Proof.
  unfold close_trigger, close_enter_closed. destruct (st_fsm s); try nps.
  - destruct (runt s); nps.
  - cc_cases s; nps.
Qed.

Lemma NoPS_enter_close s t : NoPS s (enter_close s t).
Proof.
  unfold enter_close. assert (HQ : NoPS s (publish s PEndAll)) by nps.
  destruct (st_fsm (publish s PEndAll)); try (eapply NoPS_trans; [exact HQ | apply NoPS_close_trigger]).
  destruct (run_finished (publish s PEndAll)) as [[|]|]; try nps.
  eapply NoPS_trans; [exact HQ | apply NoPS_close_trigger].
Qed.

Lemma NoPS_enter s t c b : NoPS s (enter s t c b).
Proof.
  unfold enter, enter_start, enter_run, enter_reset.
  destruct c; try (apply NoPS_refl; reflexivity);
    try (destruct b; [apply NoPS_enter_close|]);
    destruct (st_fsm s); try apply NoPS_refuse; try nps; destruct (o_stmt o); nps.
Qed.

Lemma NoPS_acquire s t c b : NoPS s (acquire s t c b).
Proof.
  unfold acquire. destruct (holder s); [apply NoPS_refl; reflexivity|].
  destruct (lockq s); [|apply NoPS_refl; reflexivity].
  eapply NoPS_trans; [|apply NoPS_enter]. apply NoPS_refl. reflexivity.
Qed.

Lemma NoPS_do_call s t c : NoPS s (do_call s t c).
Proof.
  unfold do_call. destruct (find_task (tasks s) t); [apply NoPS_refl; reflexivity|].
  destruct c; cbn [nl_started nl_closed cont_closed running_process send_command set_trace];
    repeat match goal with |- context [if ?b then _ else _] => destruct b end;
    try nps; (eapply NoPS_trans; [|apply NoPS_acquire]); nps.
Qed.

Lemma NoPS_run_finish s : NoPS s (run_finish s).
Proof.
  unfold run_finish. simpl. destruct (st_fsm s); try (apply NoPS_refl; reflexivity).
  match goal with |- context [cont_finished ?y ?n] => destruct (cf_trace n y) as (new & Et & Hoc) end.
  exists (new ++ [EvHook (mkHook HFinished Finished None None None)]). split.
  - simpl. rewrite Et. simpl. rewrite <- app_assoc. reflexivity.
  - apply nops_app; [|nops_tac]. intros f Hin. destruct (Hoc _ Hin) as (b & E). discriminate.
Qed.

(** the step either publishes no state, or exactly the current one and keeps it *)
Definition PubCur (s s' : state) : Prop :=
  NoPS s s' \/
  (st_fsm s' = st_fsm s /\
   exists h, trace s' = EvHook h :: EvPub (PState (st_fsm s)) :: trace s).

Lemma PubCur_step s l : PubCur s (step s l).
Proof.
  destruct l as [t c | t | | o]; simpl.
  - left. apply NoPS_do_call.
  - unfold do_step. destruct (find_task (tasks s) t) as [[c p]|]; [|left; apply NoPS_refl; reflexivity].
    destruct p; try (left; nps; fail); try (left; cc_cases s; nps; fail); try (left; apply NoPS_enter);
      try (right; split; [reflexivity | eexists; reflexivity]).
    + (* S_G3 *) left. destruct c; try nps.
      eapply NoPS_trans; [|apply NoPS_acquire]. apply NoPS_refl. apply rl_trace.
    + (* R_WaitStarted *) destruct (started_ev s); [right; split; [reflexivity | eexists; reflexivity] | left; nps].
    + (* R_G *) left. destruct c; nps.
    + (* Z_G1 *) left. destruct c; nps.
    + (* Z_G1b *) left. unfold reset_reinit. destruct (st_fsm s); try nps. destruct (runt s); nps.
    + (* Z_WaitRunTask *) left. unfold reset_reinit. destruct (runt s); nps.
    + (* C_WaitRunFinished *) left. destruct (run_finished s) as [[|]|]; try nps. apply NoPS_close_trigger.
    + (* C_WaitRunTask *) left. unfold close_enter_closed. destruct (runt s); nps.
    + (* P_WaitRunFinished *) left. destruct (run_finished s) as [[|]|]; nps.
  - unfold do_step_run. destruct (runt s) as [[]|]; try (left; nps; fail).
    + left. destruct (run_arg s); [nps | apply NoPS_run_finish].
    + left. simpl. destruct (run_arg s); [nps|].
      eapply NoPS_trans; [|apply NoPS_run_finish]. apply NoPS_refl. reflexivity.
    + left. destruct (run_call_pending s); [nps|]. destruct (pending_exit s); [|nps]. simpl.
      destruct (run_arg s); [nps|]. eapply NoPS_trans; [|apply NoPS_run_finish]. apply NoPS_refl. reflexivity.
    + left. apply NoPS_run_finish.
    + right. split; [reflexivity | eexists; reflexivity].
  - left. unfold do_child_exit. destruct (alive s); nps.
Qed.

Theorem state_pubs_reflect : forall stmt start th md ls l f,
  let s := run_labels (init_state stmt start th md) ls in
  In (EvPub (PState f)) (appended s (step s l)) -> st_fsm s = f /\ st_fsm (step s l) = f.
Proof.
  intros stmt start th md ls l f s Hin.
  destruct (PubCur_step s l) as [(new & E & Hn) | (Ef & h & E)].
  - exfalso. rewrite (appended_ext _ _ _ E) in Hin. apply in_rev in Hin. eapply Hn; eauto.
  - rewrite (appended_ext s _ [EvHook h; EvPub (PState (st_fsm s))]) in Hin by exact E.
    simpl in Hin. destruct Hin as [Hin | [Hin | []]]; [|discriminate].
    inversion Hin; subst. split; auto.
Qed.
