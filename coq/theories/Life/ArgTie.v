(** Tie of the RunArgComposer part of Life/Model.v to the source.

    Gen/ArgComposer.v is regenerated on every run by translate/arg_composer.py: a transcription into
    Gallina of RunArgComposer.init / start / reset / compose_run_arg (argument.py), RunNoCounter
    (count.py), the option records and their defaults (types.py, spawned/types.py), the option
    records built by Nextline(...) / Nextline.reset(...) (main.py) and what the registrars publish
    (run_no.py, run_info.py, script.py).

    This file proves, for ALL states and ALL option records, that the functions the frozen model uses
    ([init_state], [initialize_run], [enter_start], [enter_reset], [apply_rest]) are the generated
    functions read through the obvious representation ([get_comp] / [put_comp]: the model keeps the
    four composer fields; the file name is the constant SCRIPT_FILE_NAME, which the generated
    functions are shown never to change).  So every theorem about [run_labels] (Life/Numbering.v,
    Props/C14.v) is a theorem about the transcribed code; corollaries at the end state the C14
    facts directly on the generated functions. *)
From Coq Require Import List ZArith Bool String Lia.
From NL Require Import Life.Model Life.LockInv Life.FsmInv Life.Hist Life.NumKind Life.Numbering Gen.ArgComposer.
Import ListNotations.
Open Scope Z_scope.

(** ---- representation ---- *)

(** the composer of a model state (the model does not store the file name: it is constant) *)
Definition get_comp (s : state) : Composer :=
  Composer_mk (c_next s) (c_stmt s) SCRIPT_FILE_NAME (c_threads s) (c_modules s).

(** write a composer back into a model state *)
Definition put_comp (s : state) (c : Composer) : state :=
  set_c_modules (set_c_threads (set_c_next (set_c_stmt s (a_statement c)) (a_run_no_count c)) (a_trace_threads c)) (a_trace_modules c).

Definition ropts (o : opts) : ResetOptions :=
  Nextline_reset_options (o_stmt o) (o_start o) (o_threads o) (o_modules o).

Definition cfields_of (c : Composer) : Z * Z * bool * bool :=
  (a_statement c, a_run_no_count c, a_trace_threads c, a_trace_modules c).

Definition composer_of (f : Z * Z * bool * bool) : Composer :=
  match f with (a, b, x, y) => Composer_mk b a SCRIPT_FILE_NAME x y end.

Definition runarg_of (r : RunArg) : runarg :=
  mkRunArg (rg_run_no r) (rg_statement r) (rg_trace_threads r) (rg_trace_modules r).

Definition arg_of (r : runarg) : RunArg :=
  {| rg_run_no := ra_no r; rg_statement := ra_stmt r; rg_filename := Some SCRIPT_FILE_NAME;
     rg_trace_threads := ra_threads r; rg_trace_modules := ra_modules r |}.

Lemma put_get s : put_comp s (get_comp s) = s.
Proof. destruct s; reflexivity. Qed.

Lemma get_put s c : get_comp (put_comp s c) = set_filename c SCRIPT_FILE_NAME.
Proof. destruct s, c; reflexivity. Qed.

Lemma comp_get s : cfields_of (get_comp s) = comp s.
Proof. reflexivity. Qed.

Lemma composer_of_comp s : composer_of (comp s) = get_comp s.
Proof. reflexivity. Qed.

(** publications of the built-in plugins -> publications of the model.  The model does not track
    the topic `script_file_name`: what is published there must be the constant SCRIPT_FILE_NAME (then it
    decodes to nothing).  A publication this table does not know, or an assert that fails in the
    registrar ([None]), makes the whole list undecodable, which no lemma below survives. *)
Definition decode (p : string * pubval) : option (list pub) :=
  match p with
  | (topic, PvStmt x) => if String.eqb topic "statement" then Some [PStatement x] else None
  | (topic, PvStr f) => if String.eqb topic "script_file_name" then (if String.eqb f SCRIPT_FILE_NAME then Some [] else None) else None
  | (topic, PvInt n) => if String.eqb topic "run_no" then Some [PRunNo n] else None
  | (topic, PvRunInfo r) =>
      if String.eqb topic "run_info" then
        match ri_script r with
        | Some x => if String.eqb (ri_state r) "initialized" then Some [PRunInfo (ri_run_no r) RInitialized x None] else None
        | None => None
        end
      else None
  end.

Fixpoint decode_all (l : list (string * pubval)) : option (list pub) :=
  match l with
  | [] => Some []
  | p :: r => match decode p, decode_all r with Some a, Some b => Some (a ++ b) | _, _ => None end
  end.

(** the outcome of a registrar: [None] = AssertionError *)
Definition decode_res (r : option (list (string * pubval))) : option (list pub) :=
  match r with Some l => decode_all l | None => None end.

Definition pubs_of (r : option (list (string * pubval))) : list pub :=
  match decode_res r with Some ps => ps | None => [] end.

Definition publish_all (s : state) (ps : list pub) : state := fold_left publish ps s.

(** ---- the registrars ---- *)

(** ScriptRegistrar.on_change_script does not read the context; given the composer's file name it publishes
    the script (and the file name, which the model does not track) *)
Lemma tie_script_registrar : forall cx x,
  decode_res (ScriptRegistrar_on_change_script cx x SCRIPT_FILE_NAME) = Some [PStatement x].
Proof. reflexivity. Qed.

Lemma tie_run_no_registrar : forall ra,
  decode_res (RunNoRegistrar_on_initialize_run (HookContext_mk (Some ra))) = Some [PRunNo (rg_run_no ra)].
Proof. reflexivity. Qed.

(** the statement of the model is a script string *)
Lemma tie_run_info_registrar : forall ra,
  decode_res (RunInfoRegistrar_on_initialize_run (HookContext_mk (Some ra)) true)
  = Some [PRunInfo (rg_run_no ra) RInitialized (rg_statement ra) None].
Proof. reflexivity. Qed.

Lemma tie_registrars : forall ra cx x,
  decode_res (ScriptRegistrar_on_change_script cx x SCRIPT_FILE_NAME) = Some [PStatement x] /\
  decode_res (RunNoRegistrar_on_initialize_run (HookContext_mk (Some ra))) = Some [PRunNo (rg_run_no ra)] /\
  decode_res (RunInfoRegistrar_on_initialize_run (HookContext_mk (Some ra)) true)
    = Some [PRunInfo (rg_run_no ra) RInitialized (rg_statement ra) None].
Proof. intros ra cx x. exact (conj (tie_script_registrar cx x) (conj (tie_run_no_registrar ra) (tie_run_info_registrar ra))). Qed.

(** their asserts (`assert context.run_arg`): without a run_arg they raise and publish nothing; the model
    calls on_initialize_run only right after storing run_arg ([gen_initialize_run]) *)
Lemma registrars_assert : forall b,
  RunNoRegistrar_on_initialize_run (HookContext_mk None) = None /\
  RunInfoRegistrar_on_initialize_run (HookContext_mk None) b = None.
Proof. intros b. split; reflexivity. Qed.

(** ---- init ---- *)

Theorem tie_init : forall stmt start th md,
  get_comp (init_state stmt start th md) = RunArgComposer_init (Nextline_init_options stmt start th md).
Proof. reflexivity. Qed.

Theorem tie_init_state : forall stmt start th md,
  init_state stmt start th md
  = put_comp (init_state 0 0 false false) (RunArgComposer_init (Nextline_init_options stmt start th md)).
Proof. reflexivity. Qed.

(** ---- compose_run_arg (+ the registrars at on_initialize_run) = [initialize_run] ---- *)

Definition gen_initialize_run (s : state) : state :=
  let '(ra, c) := RunArgComposer_compose_run_arg (get_comp s) in
  let s2 := set_run_arg (put_comp s c) (Some (runarg_of ra)) in
  let cx := HookContext_mk (Some ra) in
  let s3 := publish_all s2 (pubs_of (RunNoRegistrar_on_initialize_run cx) ++ pubs_of (RunInfoRegistrar_on_initialize_run cx true)) in
  log_hook s3 HInitRun (Some (rg_statement ra)) None.

Theorem tie_initialize_run : forall s, initialize_run s = gen_initialize_run s.
Proof. intros s. destruct s; reflexivity. Qed.

(** ---- the hook on_change_script as the model logs it ---- *)

Definition gen_hook_script (s : state) (h : hookcall) : state :=
  match h with
  | OnChangeScript x f =>
    log_hook (publish_all s (pubs_of (ScriptRegistrar_on_change_script (HookContext_mk (option_map arg_of (run_arg s))) x f)))
             HChangeScript (Some x) None
  end.

(** ---- start = [enter_start] ---- *)

Definition gen_enter_start (s : state) (t : nat) (c : call) : option state :=
  match st_fsm s with
  | Created =>
    let s1 := log_hook s HStart None None in
    match RunArgComposer_start (get_comp s1) with
    | Await c' h _ => Some (set_pc (gen_hook_script (put_comp s1 c') h) t c S_G1)
    | Ret _ | Raise _ => None        (* not what the model does *)
    end
  | _ => Some (refuse s t c)
  end.

Theorem tie_enter_start : forall s t c, Some (enter_start s t c) = gen_enter_start s t c.
Proof. intros s t c. unfold enter_start, gen_enter_start. destruct s as [f]; destruct f; reflexivity. Qed.

(** after the gate of on_change_script, start does nothing more (the model goes on with
    initialize_run on the state as it is) *)
Theorem tie_start_resume : forall c,
  exists k, RunArgComposer_start c = Await c (OnChangeScript (a_statement c) (a_filename c)) k /\
            forall c', k c' = Ret c'.
Proof. intros c. eexists. split; [reflexivity | reflexivity]. Qed.

(** ---- reset = [enter_reset] up to the gate, [apply_rest] after it ---- *)

Definition gen_enter_reset (s : state) (t : nat) (o : opts) : option state :=
  match st_fsm s with
  | Initialized | Finished =>
    let s1 := log_hook s HReset (o_stmt o) (o_start o) in
    match RunArgComposer_reset (get_comp s1) (ropts o) with
    | Await c h _ => Some (set_pc (gen_hook_script (put_comp s1 c) h) t (CReset o) Z_G1)
    | Ret c => Some (set_pc (put_comp s1 c) t (CReset o) Z_G1b)
    | Raise _ => None                (* the model's reset hook never raises *)
    end
  | _ => Some (refuse s t (CReset o))
  end.

Theorem tie_enter_reset : forall s t o, Some (enter_reset s t o) = gen_enter_reset s t o.
Proof.
  intros s t o. unfold enter_reset, gen_enter_reset.
  destruct o as [[x|] [n|] [b|] [m|]]; destruct s as [f]; destruct f; reflexivity.
Qed.

(** the continuation of the reset that was suspended in state [s0], resumed in state [s] *)
Definition gen_resume_reset (s0 s : state) (o : opts) : option state :=
  match RunArgComposer_reset (get_comp s0) (ropts o) with
  | Await _ _ k => match k (get_comp s) with Ret c => Some (put_comp s c) | _ => None end
  | _ => None
  end.

(** the step at Z_G1 (the model is at Z_G1 only with a statement given) *)
Theorem tie_resume_reset : forall s0 s o, o_stmt o <> None -> Some (apply_rest s o) = gen_resume_reset s0 s o.
Proof.
  intros s0 s o H. unfold apply_rest, gen_resume_reset.
  destruct o as [[x|] [n|] [b|] [m|]]; try (exfalso; apply H; reflexivity); destruct s; reflexivity.
Qed.

(** a method run to its end when nothing else touches the composer while it is suspended *)
Fixpoint finish (r : susp) : Composer :=
  match r with Ret c => c | Raise c => c | Await c _ k => finish (k c) end.

Fixpoint hooks_in (r : susp) : list hookcall :=
  match r with Ret _ | Raise _ => [] | Await c h k => h :: hooks_in (k c) end.

(** an assert of the method fails on the way *)
Fixpoint raises (r : susp) : bool :=
  match r with Ret _ => false | Raise _ => true | Await c _ k => raises (k c) end.

(** the composer that is left when the awaited hook raises, or the task is cancelled while suspended there.
    The translator refuses `try` / `with` in these methods, so nothing of the method runs after that point. *)
Definition interrupted_at_hook (r : susp) : option Composer :=
  match r with Await c _ _ => Some c | Ret _ | Raise _ => None end.

(** both segments together: the model's reset (statement first, the rest after the gate) *)
Definition model_reset (s : state) (o : opts) : state :=
  apply_rest (match o_stmt o with Some x => set_c_stmt s x | None => s end) o.

Theorem tie_reset_whole : forall s o,
  model_reset s o = put_comp s (finish (RunArgComposer_reset (get_comp s) (ropts o))).
Proof.
  intros s o. unfold model_reset, apply_rest.
  destruct o as [[x|] [n|] [b|] [m|]]; destruct s; reflexivity.
Qed.

Theorem tie_reset_merged : forall c o,
  cfields_of (finish (RunArgComposer_reset (composer_of c) (ropts o))) = merged c o.
Proof. intros [[[a b] x] y] o. destruct o as [[x'|] [n|] [b'|] [m|]]; reflexivity. Qed.

(** ---- corollaries on the generated functions ---- *)

(** neither start nor reset contains an assert that can fail: they raise only if the awaited hook does *)
Theorem never_raises : forall c o,
  raises (RunArgComposer_reset c o) = false /\ raises (RunArgComposer_start c) = false /\
  (forall c1 k, RunArgComposer_reset c o = Await (set_statement c (dflt (a_statement c) (ro_statement o)))
                                             (OnChangeScript (dflt (a_statement c) (ro_statement o)) (a_filename c)) k ->
                raises (k c1) = false).
Proof.
  intros c o. destruct o as [[x|] [n|] [b|] [m|]]; destruct c; repeat split; try reflexivity;
    intros c1 k H; try discriminate H; injection H as <-; reflexivity.
Qed.

(** NOT in the model (it has no label for a raising hook or a cancellation; DESIGN 6.1 excludes raising plugins):
    if on_change_script raises inside reset, or the task is cancelled there, the composer keeps the new
    statement and NONE of the other options -- the exception propagates out of reset() *)
Theorem reset_interrupted_at_hook : forall c o,
  interrupted_at_hook (RunArgComposer_reset c o) = option_map (set_statement c) (ro_statement o).
Proof. intros c o. destruct o as [[x|] [n|] [b|] [m|]]; reflexivity. Qed.

(** a reset applies exactly the options that were given and nothing else (an option that is None
    leaves the attribute alone, an option that is given -- False and 0 included -- replaces it; the file
    name never changes) *)
Theorem reset_exact : forall c o,
  let c' := finish (RunArgComposer_reset c o) in
  a_statement c' = dflt (a_statement c) (ro_statement o) /\
  a_run_no_count c' = dflt (a_run_no_count c) (ro_run_no_start_from o) /\
  a_trace_threads c' = dflt (a_trace_threads c) (ro_trace_threads o) /\
  a_trace_modules c' = dflt (a_trace_modules c) (ro_trace_modules o) /\
  a_filename c' = a_filename c.
Proof. intros c o. destruct o as [[x|] [n|] [b|] [m|]]; destruct c; repeat split; reflexivity. Qed.

(** where the nested hook call sits: on_change_script is awaited iff a statement is given, with that
    statement, when ONLY the statement has been stored; everything else is applied after it, to the
    composer as it is then *)
Theorem reset_hook_position : forall c o,
  match ro_statement o with
  | Some x => exists k, RunArgComposer_reset c o = Await (set_statement c x) (OnChangeScript x (a_filename c)) k /\
                        forall c1, exists c2, k c1 = Ret c2 /\
                          a_statement c2 = a_statement c1 /\
                          a_run_no_count c2 = dflt (a_run_no_count c1) (ro_run_no_start_from o) /\
                          a_trace_threads c2 = dflt (a_trace_threads c1) (ro_trace_threads o) /\
                          a_trace_modules c2 = dflt (a_trace_modules c1) (ro_trace_modules o) /\
                          a_filename c2 = a_filename c1
  | None => exists c2, RunArgComposer_reset c o = Ret c2
  end.
Proof.
  intros c o. destruct o as [[x|] [n|] [b|] [m|]]; cbn [ro_statement];
    try (eexists; reflexivity);
    (eexists; split; [reflexivity | intros c1; eexists; split; [reflexivity | destruct c1; repeat split; reflexivity]]).
Qed.

Theorem reset_no_options_is_identity : forall c,
  finish (RunArgComposer_reset c ResetOptions_defaults) = c /\ hooks_in (RunArgComposer_reset c ResetOptions_defaults) = [].
Proof. intros c. destruct c; split; reflexivity. Qed.

(** compose_run_arg hands out the counter's number, advances the counter by exactly one, copies the
    other attributes and changes none of them *)
Theorem compose_one : forall c,
  let '(ra, c') := RunArgComposer_compose_run_arg c in
  rg_run_no ra = a_run_no_count c /\ rg_statement ra = a_statement c /\ rg_filename ra = Some (a_filename c) /\
  rg_trace_threads ra = a_trace_threads c /\ rg_trace_modules ra = a_trace_modules c /\
  c' = set_run_no_count c (a_run_no_count c + 1).
Proof. intros c. destruct c; repeat split; reflexivity. Qed.

(** n initialisations in a row *)
Fixpoint compose_n (n : nat) (c : Composer) : list Z * Composer :=
  match n with
  | O => ([], c)
  | S m => let '(ra, c1) := RunArgComposer_compose_run_arg c in
           let '(l, c2) := compose_n m c1 in (rg_run_no ra :: l, c2)
  end.

Lemma compose_n_spec : forall n c,
  compose_n n c = (map (fun i => a_run_no_count c + Z.of_nat i) (seq 0 n), set_run_no_count c (a_run_no_count c + Z.of_nat n)).
Proof.
  induction n as [|n IH]; intros c.
  - simpl. rewrite Z.add_0_r. destruct c; reflexivity.
  - cbn [compose_n]. pose proof (compose_one c) as H.
    destruct (RunArgComposer_compose_run_arg c) as [ra c1]. destruct H as (H1 & _ & _ & _ & _ & H6).
    rewrite IH. subst c1. rewrite H1. destruct c as [k a f x y].
    unfold set_run_no_count; cbn [a_run_no_count a_statement a_filename a_trace_threads a_trace_modules seq map].
    rewrite <- seq_shift, map_map. f_equal.
    + f_equal; [lia|]. apply map_ext; intros i; lia.
    + f_equal; lia.
Qed.

(** the numbers handed out are consecutive from the counter's value ... *)
Theorem numbers_consecutive : forall n c,
  fst (compose_n n c) = map (fun i => a_run_no_count c + Z.of_nat i) (seq 0 n).
Proof. intros. rewrite compose_n_spec. reflexivity. Qed.

(** ... which is the configured start value of a new object ... *)
Theorem numbers_from_init : forall n io,
  fst (compose_n n (RunArgComposer_init io)) = map (fun i => io_run_no_start_from io + Z.of_nat i) (seq 0 n).
Proof. intros. rewrite numbers_consecutive. reflexivity. Qed.

(** ... the restart value after a reset that gives one (whatever was handed out before, and also when
    it equals the value already in effect) ... *)
Theorem numbers_after_restart : forall n c o start,
  ro_run_no_start_from o = Some start ->
  fst (compose_n n (finish (RunArgComposer_reset c o))) = map (fun i => start + Z.of_nat i) (seq 0 n).
Proof.
  intros n c o start H. rewrite numbers_consecutive.
  destruct (reset_exact c o) as (_ & E & _). cbv zeta in E. rewrite E, H. reflexivity.
Qed.

(** ... and simply goes on after a reset that gives none *)
Theorem numbers_after_plain_reset : forall n c o,
  ro_run_no_start_from o = None ->
  fst (compose_n n (finish (RunArgComposer_reset c o))) = map (fun i => a_run_no_count c + Z.of_nat i) (seq 0 n).
Proof.
  intros n c o H. rewrite numbers_consecutive.
  destruct (reset_exact c o) as (_ & E & _). cbv zeta in E. rewrite E, H. reflexivity.
Qed.

(** defaults: Nextline(statement) numbers from 1 with thread and module tracing off, as InitOptions
    itself; Nextline.reset() without arguments is ResetOptions(), every option None *)
Theorem tie_defaults :
  (forall stmt, Nextline_init_options stmt Nextline_init_default_run_no_start_from
                  Nextline_init_default_trace_threads Nextline_init_default_trace_modules
                = InitOptions_defaults stmt) /\
  (forall stmt, cfields_of (RunArgComposer_init (InitOptions_defaults stmt)) = (stmt, 1, false, false)) /\
  Nextline_reset_options Nextline_reset_default_statement Nextline_reset_default_run_no_start_from
    Nextline_reset_default_trace_threads Nextline_reset_default_trace_modules = ResetOptions_defaults /\
  ResetOptions_defaults = ResetOptions_kw None None None None /\
  RunNoCounter_default_start = 1.
Proof. repeat split; reflexivity. Qed.

(** the arguments of Nextline(...) / Nextline.reset(...) reach the records un-crossed *)
Theorem tie_option_wiring :
  (forall a b c d, Nextline_init_options a b c d = InitOptions_kw a b c d) /\
  (forall a b c d, Nextline_reset_options a b c d = ResetOptions_kw a b c d).
Proof. split; reflexivity. Qed.

(** ---- transfer: C14_reset_atomic read on the generated functions ----
    when reset(o) returns normally, [run_arg] is what the transcribed compose_run_arg makes of the
    transcribed reset applied to the composer as it was when this reset began *)
Lemma ra_of_merged_gen : forall c o,
  ra_of (merged c o)
  = runarg_of (fst (RunArgComposer_compose_run_arg (finish (RunArgComposer_reset (composer_of c) (ropts o))))).
Proof. intros [[[a b] x] y] o. destruct o as [[x'|] [n|] [b'|] [m|]]; reflexivity. Qed.

Theorem reset_atomic_gen : forall stmt start th md ls l t o,
  let s := run_labels (init_state stmt start th md) ls in
  let s' := step s l in
  In (EvRet t (CReset o) ROk) (appended s s') ->
  st_fsm s' = Initialized /\
  run_arg s' = Some (runarg_of (fst (RunArgComposer_compose_run_arg
                 (finish (RunArgComposer_reset (composer_of (fst (snapshot stmt start th md ls))) (ropts o)))))).
Proof.
  intros stmt start th md ls l t o s s' H.
  destruct (thm_reset_ok stmt start th md ls l t o H) as (A & B & _).
  split; [exact A|]. subst s s'. rewrite B, ra_of_merged_gen. reflexivity.
Qed.

(** non-vacuity / the difference the translation must show: `is not None` applies an explicit False *)
Example reset_false_is_applied :
  a_trace_threads (finish (RunArgComposer_reset (Composer_mk 3 1 SCRIPT_FILE_NAME true true)
                                                 (ResetOptions_kw None None (Some false) None))) = false /\
  fst (compose_n 3 (finish (RunArgComposer_reset (Composer_mk 3 1 SCRIPT_FILE_NAME true true)
                                                  (ResetOptions_kw (Some 2) (Some 3) None None)))) = [3; 4; 5].
Proof. split; reflexivity. Qed.
