(** State-machine invariants of the lifecycle model: where each task may be for
    each lifecycle state, the run task versus the state, the child process.
    Hold in every reachable state (every label sequence). *)
From NL Require Import Life.Model Life.LockInv.
From Coq Require Import Lia.

Definition early (r : rpc) : bool :=
  match r with RT_New | RT_Created | RT_G_start | RT_WaitChild | RT_G_end => true | _ => false end.

(** the lifecycle states a task may observe at each of its suspension points *)
Definition pc_fsm_ok (p : pc) (f : fsm) : bool :=
  match p with
  | S_G1 => match f with Created => true | _ => false end
  | S_G2 | S_G3 | Z_G3 | Z_G4 => match f with Initialized => true | _ => false end
  | R_WaitStarted | R_G | C_WaitRunFinished => match f with Running | Finished => true | _ => false end
  | Z_G1 | Z_G1b | Z_WaitRunTask => match f with Initialized | Finished => true | _ => false end
  | C_WaitRunTask => match f with Finished => true | _ => false end
  | C_G3 | C_G4 => match f with Closed => true | _ => false end
  | _ => true
  end.

Definition PcOk (ts : ttab) (f : fsm) : Prop :=
  forall t c p, find_task ts t = Some (c, p) -> pc_fsm_ok p f = true.

(** child process versus the run task *)
Definition child_ok (r : option rpc) (a : nat) (p : option outcome) : Prop :=
  match r with
  | Some RT_Created | Some RT_G_start | Some RT_WaitChild =>
    (a = 1%nat /\ p = None) \/ (a = 0%nat /\ p <> None)
  | _ => a = 0%nat /\ p = None
  end.

Record Scal (f : fsm) (r : option rpc) (rf : option bool) (a : nat) (pe : option outcome)
            (ra : option runarg) : Prop := mkScal {
  sc_early : forall x, r = Some x -> early x = true -> f = Running;
  sc_late : forall x, r = Some x -> early x = false -> f = Finished;
  sc_none : r = None -> f <> Running;
  sc_rf_some : forall x, r = Some x -> rf = Some false;
  sc_rf_none : r = None -> rf <> Some false;
  sc_child : child_ok r a pe;
  sc_ra : f = Initialized \/ f = Running -> ra <> None
}.

Definition FI (s : state) : Prop :=
  PcOk (tasks s) (st_fsm s) /\ Scal (st_fsm s) (runt s) (run_finished s) (alive s) (pending_exit s) (run_arg s).

(** ---- PcOk ---- *)
Lemma unlocked_ok p f : locked_pc p = false -> pc_fsm_ok p f = true.
Proof. destruct p; simpl; try discriminate; auto. Qed.

Lemma granted_ok p f : waitlock p = true -> pc_fsm_ok (granted_pc p) f = true.
Proof. destruct p; simpl; try discriminate; auto. Qed.

Lemma pc_ok_run_fin p : pc_fsm_ok p Running = true -> pc_fsm_ok p Finished = true.
Proof. destruct p; simpl; auto. Qed.

Lemma PcOk_put_holder q ts t c p f' :
  Lk (Some t) q ts -> pc_fsm_ok p f' = true -> PcOk (put_task ts t (c, p)) f'.
Proof.
  intros HL Hp t' c' p' Hf. destruct (Nat.eq_dec t' t) as [->|Hn].
  - rewrite find_put_eq in Hf. inversion Hf; subst. exact Hp.
  - rewrite find_put_neq in Hf by assumption. apply unlocked_ok.
    destruct (locked_pc p') eqn:El; auto. pose proof (lk_holder_of _ _ _ HL _ _ _ Hf El). congruence.
Qed.

Lemma find_rel_tasks_other q ts t t' c p :
  Lk (Some t) q ts -> t' <> t -> find_task (rel_tasks q ts) t' = Some (c, p) ->
  locked_pc p = false \/ exists p0, waitlock p0 = true /\ p = granted_pc p0.
Proof.
  intros HL Hn Hf. unfold rel_tasks in Hf. destruct q as [|t1 q].
  - left. destruct (locked_pc p) eqn:El; auto. pose proof (lk_holder_of _ _ _ HL _ _ _ Hf El). congruence.
  - destruct (lk_q_wait _ _ _ HL t1 (or_introl eq_refl)) as (c1 & p1 & Hf1 & Hw1). rewrite Hf1 in Hf.
    destruct (Nat.eq_dec t' t1) as [->|Hn1].
    + rewrite find_put_eq in Hf. inversion Hf; subst. right. eauto.
    + rewrite find_put_neq in Hf by assumption. left.
      destruct (locked_pc p) eqn:El; auto. pose proof (lk_holder_of _ _ _ HL _ _ _ Hf El). congruence.
Qed.

Lemma PcOk_release_remove q ts t f' :
  Lk (Some t) q ts -> PcOk (remove_task (rel_tasks q ts) t) f'.
Proof.
  intros HL t' c p Hf. destruct (Nat.eq_dec t' t) as [->|Hn].
  - rewrite find_remove_eq in Hf. discriminate.
  - rewrite find_remove_neq in Hf by assumption.
    destruct (find_rel_tasks_other _ _ _ _ _ _ HL Hn Hf) as [Hl | (p0 & Hw & ->)].
    + apply unlocked_ok; auto.
    + apply granted_ok; auto.
Qed.

Lemma PcOk_release_put q ts t c p f' :
  Lk (Some t) q ts -> pc_fsm_ok p f' = true -> PcOk (put_task (rel_tasks q ts) t (c, p)) f'.
Proof.
  intros HL Hp t' c' p' Hf. destruct (Nat.eq_dec t' t) as [->|Hn].
  - rewrite find_put_eq in Hf. inversion Hf; subst. exact Hp.
  - rewrite find_put_neq in Hf by assumption.
    destruct (find_rel_tasks_other _ _ _ _ _ _ HL Hn Hf) as [Hl | (p0 & Hw & ->)].
    + apply unlocked_ok; auto.
    + apply granted_ok; auto.
Qed.

Lemma PcOk_put ts t c p f : PcOk ts f -> pc_fsm_ok p f = true -> PcOk (put_task ts t (c, p)) f.
Proof.
  intros H Hp t' c' p' Hf. destruct (Nat.eq_dec t' t) as [->|Hn].
  - rewrite find_put_eq in Hf. inversion Hf; subst. exact Hp.
  - rewrite find_put_neq in Hf by assumption. eauto.
Qed.

Lemma PcOk_remove ts t f : PcOk ts f -> PcOk (remove_task ts t) f.
Proof.
  intros H t' c' p' Hf. destruct (Nat.eq_dec t' t) as [->|Hn].
  - rewrite find_remove_eq in Hf. discriminate.
  - rewrite find_remove_neq in Hf by assumption. eauto.
Qed.

Lemma PcOk_run_fin ts : PcOk ts Running -> PcOk ts Finished.
Proof. intros H t c p Hf. apply pc_ok_run_fin. eauto. Qed.

(** ---- what a step of the holder does, including the scalars ---- *)
Definition scal_of (s : state) := (st_fsm s, runt s, run_finished s, alive s, pending_exit s, run_arg s).

Lemma FI_holder_put s s' t c p :
  LkS s -> holder s = Some t ->
  tasks s' = put_task (tasks s) t (c, p) -> pc_fsm_ok p (st_fsm s') = true ->
  Scal (st_fsm s') (runt s') (run_finished s') (alive s') (pending_exit s') (run_arg s') -> FI s'.
Proof.
  intros HL Hh Et Hp HS. split; auto. rewrite Et. unfold LkS in HL. rewrite Hh in HL.
  eapply PcOk_put_holder; eauto.
Qed.

Lemma FI_holder_release s s' t :
  LkS s -> holder s = Some t ->
  (tasks s' = remove_task (rel_tasks (lockq s) (tasks s)) t \/
   exists c p, locked_pc p = false /\ tasks s' = put_task (rel_tasks (lockq s) (tasks s)) t (c, p)) ->
  Scal (st_fsm s') (runt s') (run_finished s') (alive s') (pending_exit s') (run_arg s') -> FI s'.
Proof.
  intros HL Hh Et HS. split; auto. unfold LkS in HL. rewrite Hh in HL.
  destruct Et as [-> | (c & p & Hl & ->)].
  - apply PcOk_release_remove; auto.
  - apply PcOk_release_put; auto. apply unlocked_ok; auto.
Qed.

Lemma apply_rest_scal s o : scal_of (apply_rest s o) = scal_of s.
Proof. unfold apply_rest, scal_of. destruct (o_start o), (o_threads o), (o_modules o); reflexivity. Qed.

Lemma Scal_same s s' : scal_of s' = scal_of s -> FI s ->
  Scal (st_fsm s') (runt s') (run_finished s') (alive s') (pending_exit s') (run_arg s').
Proof. unfold scal_of. intros E [_ HS]. inversion E. congruence. Qed.

(** ---- the scalars at the places where the state changes ---- *)
Lemma Scal_idle f r rf a pe ra :
  Scal f r rf a pe ra -> f <> Running -> f <> Finished -> r = None.
Proof.
  intros H H1 H2. destruct r as [x|]; auto. destruct (early x) eqn:E.
  - exfalso. apply H1. eapply sc_early; eauto.
  - exfalso. apply H2. eapply sc_late; eauto.
Qed.

Lemma Scal_to_initialized f r rf a pe ra ra' :
  Scal f r rf a pe ra -> r = None -> Scal Initialized r rf a pe (Some ra').
Proof.
  intros H ->. constructor; try (intros; discriminate).
  - apply (sc_rf_none _ _ _ _ _ _ H).
  - apply (sc_child _ _ _ _ _ _ H).
Qed.

Lemma Scal_to_closed f rf a pe ra :
  Scal f None rf a pe ra -> Scal Closed None rf a pe ra.
Proof.
  intros H. constructor; try (intros; discriminate).
  - apply (sc_rf_none _ _ _ _ _ _ H).
  - apply (sc_child _ _ _ _ _ _ H).
  - intros [?|?]; discriminate.
Qed.

Lemma Scal_run_start r rf a pe ra :
  Scal Initialized r rf a pe ra -> Scal Running (Some RT_New) (Some false) a pe ra.
Proof.
  intros H. assert (r = None) by (eapply Scal_idle; eauto; discriminate). subst r.
  constructor; try (intros; discriminate); auto.
  - intros x Hx Hl. inversion Hx; subst. discriminate.
  - apply (sc_child _ _ _ _ _ _ H).
  - intros _. apply (sc_ra _ _ _ _ _ _ H). auto.
Qed.

Lemma Scal_running_not_none f r rf a pe ra : Scal f r rf a pe ra -> f = Running -> exists x, r = Some x /\ early x = true /\ rf = Some false.
Proof.
  intros H Hf. destruct r as [x|].
  - exists x. repeat split; auto.
    + destruct (early x) eqn:E; auto. pose proof (sc_late _ _ _ _ _ _ H x eq_refl E). congruence.
    + eapply sc_rf_some; eauto.
  - exfalso. apply (sc_none _ _ _ _ _ _ H); auto.
Qed.

Lemma release_scal s : scal_of (release s) = scal_of s.
Proof.
  unfold release, scal_of. destruct (lockq s) as [|t q]; simpl; auto.
  destruct (find_task (tasks s) t) as [[c p]|]; reflexivity.
Qed.

Lemma scal_of_fields s s' : scal_of s' = scal_of s ->
  st_fsm s' = st_fsm s /\ runt s' = runt s /\ run_finished s' = run_finished s /\ alive s' = alive s
  /\ pending_exit s' = pending_exit s /\ run_arg s' = run_arg s.
Proof. unfold scal_of. intros E. inversion E. repeat split; reflexivity. Qed.

Lemma ar_fsm s o : st_fsm (apply_rest s o) = st_fsm s.
Proof. apply (scal_of_fields _ _ (apply_rest_scal s o)). Qed.
Lemma ar_runt s o : runt (apply_rest s o) = runt s.
Proof. apply (scal_of_fields _ _ (apply_rest_scal s o)). Qed.
Lemma ar_rf s o : run_finished (apply_rest s o) = run_finished s.
Proof. apply (scal_of_fields _ _ (apply_rest_scal s o)). Qed.
Lemma ar_alive s o : alive (apply_rest s o) = alive s.
Proof. apply (scal_of_fields _ _ (apply_rest_scal s o)). Qed.
Lemma ar_pe s o : pending_exit (apply_rest s o) = pending_exit s.
Proof. apply (scal_of_fields _ _ (apply_rest_scal s o)). Qed.
Lemma ar_ra s o : run_arg (apply_rest s o) = run_arg s.
Proof. apply (scal_of_fields _ _ (apply_rest_scal s o)). Qed.
Lemma rl_fsm s : st_fsm (release s) = st_fsm s.
Proof. apply (scal_of_fields _ _ (release_scal s)). Qed.
Lemma rl_runt s : runt (release s) = runt s.
Proof. apply (scal_of_fields _ _ (release_scal s)). Qed.
Lemma rl_rf s : run_finished (release s) = run_finished s.
Proof. apply (scal_of_fields _ _ (release_scal s)). Qed.
Lemma rl_alive s : alive (release s) = alive s.
Proof. apply (scal_of_fields _ _ (release_scal s)). Qed.
Lemma rl_pe s : pending_exit (release s) = pending_exit s.
Proof. apply (scal_of_fields _ _ (release_scal s)). Qed.
Lemma rl_ra s : run_arg (release s) = run_arg s.
Proof. apply (scal_of_fields _ _ (release_scal s)). Qed.

Ltac scal_simpl :=
  unfold scal_of; simpl;
  rewrite ?ar_fsm, ?ar_runt, ?ar_rf, ?ar_alive, ?ar_pe, ?ar_ra, ?rl_fsm, ?rl_runt, ?rl_rf, ?rl_alive, ?rl_pe, ?rl_ra; simpl.
Ltac same_scal := eapply Scal_same; [| eassumption]; scal_simpl; reflexivity.

(** a refused request, a finished call: the holder leaves *)
Lemma FI_refuse s t c : LkS s -> FI s -> holder s = Some t -> FI (refuse s t c).
Proof.
  intros HL HF Hh. eapply FI_holder_release; eauto.
  - left. unfold refuse. destruct (is_cont c); [destruct (cont_closed (release s))|]; simpl; rewrite release_tasks; reflexivity.
  - eapply Scal_same; [|eassumption]. unfold refuse.
    destruct (is_cont c); [destruct (cont_closed (release s))|]; simpl; apply release_scal.
Qed.

Lemma FI_release_finish s s1 t c r :
  LkS s -> FI s -> holder s = Some t -> tasks s1 = tasks (release s) -> scal_of s1 = scal_of s ->
  FI (finish_call s1 t c r).
Proof.
  intros HL HF Hh Et Es. eapply FI_holder_release; eauto.
  - left. simpl. rewrite Et, release_tasks. reflexivity.
  - eapply Scal_same; [|eassumption]. exact Es.
Qed.

Lemma FI_close_enter_closed s s1 t :
  LkS s -> FI s -> holder s = Some t -> tasks s1 = tasks s -> scal_of s1 = scal_of s -> runt s = None ->
  FI (close_enter_closed s1 t).
Proof.
  intros HL HF Hh Et Es Hr. destruct (scal_of_fields _ _ Es) as (E1 & E2 & E3 & E4 & E5 & E6).
  eapply FI_holder_put; eauto.
  - simpl. rewrite Et. reflexivity.
  - reflexivity.
  - simpl. rewrite E2, E3, E4, E5, E6, Hr. destruct HF as [_ HS]. rewrite Hr in HS. eapply Scal_to_closed; eauto.
Qed.

Lemma FI_close_trigger s t :
  LkS s -> FI s -> holder s = Some t -> st_fsm s <> Running -> FI (close_trigger s t).
Proof.
  intros HL HF Hh Hnr. unfold close_trigger. pose proof HF as [_ HS].
  destruct (st_fsm s) eqn:Ef.
  - eapply FI_close_enter_closed; eauto. eapply Scal_idle; eauto; discriminate.
  - eapply FI_close_enter_closed; eauto. eapply Scal_idle; eauto; discriminate.
  - (* Running: not possible, the caller has waited for the run *)
    congruence.
  - destruct (runt s) eqn:Er.
    + eapply FI_holder_put; eauto; [reflexivity | simpl; rewrite Ef; reflexivity | same_scal].
    + eapply FI_close_enter_closed; eauto.
  - eapply FI_release_finish; eauto. simpl. apply release_scal.
Qed.

Lemma FI_enter_close s t : LkS s -> FI s -> holder s = Some t -> FI (enter_close s t).
Proof.
  intros HL HF Hh. unfold enter_close. pose proof HF as [HP HS].
  assert (HL1 : LkS (publish s PEndAll)) by exact HL.
  assert (HF1 : FI (publish s PEndAll)) by exact HF.
  destruct (st_fsm (publish s PEndAll)) eqn:Ef; try (apply FI_close_trigger; auto; simpl in *; congruence).
  simpl in Ef.
  destruct (Scal_running_not_none _ _ _ _ _ _ HS Ef) as (x & Hr & He & Hrf).
  simpl. rewrite Hrf.
  eapply (FI_holder_put s _ t); [exact HL | exact Hh | reflexivity | simpl; rewrite Ef; reflexivity | same_scal].
Qed.

Lemma FI_enter s t c part2 :
  LkS s -> FI s -> holder s = Some t -> FI (enter s t c part2).
Proof.
  intros HL HF Hh. pose proof HF as [HP HS]. unfold enter.
  destruct c; auto.
  - (* CStart *)
    unfold enter_start. destruct (st_fsm s) eqn:Ef; try (apply FI_refuse; auto).
    eapply (FI_holder_put s _ t); [exact HL | exact Hh | reflexivity | simpl; rewrite Ef; reflexivity | same_scal].
  - (* CRun *)
    unfold enter_run. destruct (st_fsm s) eqn:Ef; try (apply FI_refuse; auto).
    eapply (FI_holder_put s _ t); [exact HL | exact Hh | reflexivity | reflexivity |]. simpl. rewrite ?Ef in HS. eapply Scal_run_start; eauto.
  - (* CReset *)
    unfold enter_reset. destruct (st_fsm s) eqn:Ef; try (apply FI_refuse; auto).
    + destruct (o_stmt o);
        (eapply (FI_holder_put s _ t); [exact HL | exact Hh | simpl; rewrite ?apply_rest_tasks; reflexivity
                                      | simpl; rewrite ?ar_fsm; simpl; rewrite Ef; reflexivity
                                      | same_scal]).
    + destruct (o_stmt o);
        (eapply (FI_holder_put s _ t); [exact HL | exact Hh | simpl; rewrite ?apply_rest_tasks; reflexivity
                                      | simpl; rewrite ?ar_fsm; simpl; rewrite Ef; reflexivity
                                      | same_scal]).
  - (* CClose *)
    destruct part2; [apply FI_enter_close; auto|].
    unfold enter_start. destruct (st_fsm s) eqn:Ef; try (apply FI_refuse; auto).
    eapply (FI_holder_put s _ t); [exact HL | exact Hh | reflexivity | simpl; rewrite Ef; reflexivity | same_scal].
  - unfold enter_run. destruct (st_fsm s) eqn:Ef; try (apply FI_refuse; auto).
    eapply (FI_holder_put s _ t); [exact HL | exact Hh | reflexivity | reflexivity |]. simpl. rewrite ?Ef in HS. eapply Scal_run_start; eauto.
  - unfold enter_run. destruct (st_fsm s) eqn:Ef; try (apply FI_refuse; auto).
    eapply (FI_holder_put s _ t); [exact HL | exact Hh | reflexivity | reflexivity |]. simpl. rewrite ?Ef in HS. eapply Scal_run_start; eauto.
  - unfold enter_run. destruct (st_fsm s) eqn:Ef; try (apply FI_refuse; auto).
    eapply (FI_holder_put s _ t); [exact HL | exact Hh | reflexivity | reflexivity |]. simpl. rewrite ?Ef in HS. eapply Scal_run_start; eauto.
Qed.

(** a task outside the lock (dis)appears or moves between free pcs *)
Lemma FI_free_put s s1 t c p :
  FI s -> tasks s1 = tasks s -> scal_of s1 = scal_of s -> locked_pc p = false -> FI (set_pc s1 t c p).
Proof.
  intros [HP HS] Et Es Hl. destruct (scal_of_fields _ _ Es) as (E1 & E2 & E3 & E4 & E5 & E6).
  split; simpl; rewrite ?E1, ?E2, ?E3, ?E4, ?E5, ?E6, ?Et; auto.
  apply PcOk_put; auto. apply unlocked_ok; auto.
Qed.

Lemma FI_free_finish s s1 t c r :
  FI s -> tasks s1 = tasks s -> scal_of s1 = scal_of s -> FI (finish_call s1 t c r).
Proof.
  intros [HP HS] Et Es. destruct (scal_of_fields _ _ Es) as (E1 & E2 & E3 & E4 & E5 & E6).
  split; simpl; rewrite ?E1, ?E2, ?E3, ?E4, ?E5, ?E6, ?Et; auto.
  apply PcOk_remove; auto.
Qed.

Lemma FI_acquire (s s1 : state) (t : nat) (c : call) (part2 : bool) :
  LkS s -> FI s ->
  (find_task (tasks s) t = None \/
   exists (c0 : call) (p0 : pc), find_task (tasks s) t = Some (c0, p0) /\ locked_pc p0 = false /\ waitlock p0 = false) ->
  compat c (if part2 then Granted2 else Granted1) = true ->
  holder s1 = holder s -> lockq s1 = lockq s -> tasks s1 = tasks s -> scal_of s1 = scal_of s ->
  FI (acquire s1 t c part2).
Proof.
  intros HL HF Hnew Hc Eh Eq Et Es. unfold acquire. rewrite Eh, Eq.
  assert (HL1 : LkS s1) by (unfold LkS; rewrite Eh, Eq, Et; exact HL).
  assert (HF1 : FI s1).
  { destruct HF as [HP HS]. destruct (scal_of_fields _ _ Es) as (E1 & E2 & E3 & E4 & E5 & E6).
    split; rewrite ?E1, ?E2, ?E3, ?E4, ?E5, ?E6, ?Et; auto. }
  assert (Hnew1 : find_task (tasks s1) t = None \/
   exists (c0 : call) (p0 : pc), find_task (tasks s1) t = Some (c0, p0) /\ locked_pc p0 = false /\ waitlock p0 = false)
    by (rewrite Et; exact Hnew).
  destruct (holder s) as [h|] eqn:Eh0.
  - apply (FI_free_put s1); auto. destruct part2; reflexivity.
  - destruct (lockq s) as [|t1 q] eqn:Eq0.
    + set (G := if part2 then Granted2 else Granted1).
      set (s2 := set_pc (set_holder s1 (Some t)) t c G).
      assert (HL2 : LkS s2).
      { unfold LkS, s2. simpl. rewrite Eq. unfold LkS in HL1. rewrite Eh, Eq in HL1.
        apply Lk_take; auto. unfold G. destruct part2; reflexivity. }
      assert (HF2 : FI s2).
      { destruct HF1 as [HP HS]. split; auto. unfold s2. simpl. apply PcOk_put; auto.
        unfold G. destruct part2; reflexivity. }
      apply FI_enter; auto.
    + apply (FI_free_put s1); auto. destruct part2; reflexivity.
Qed.

Lemma FI_do_call s t c : LkS s -> FI s -> FI (do_call s t c).
Proof.
  intros HL HF. unfold do_call. destruct (find_task (tasks s) t) as [x|] eqn:Ef; auto.
  destruct c; cbn [nl_started nl_closed cont_closed running_process send_command set_trace].
  - destruct (nl_started s); [apply (FI_free_finish s); auto|]. eapply FI_acquire; eauto.
  - eapply FI_acquire; eauto.
  - eapply FI_acquire; eauto.
  - destruct (nl_closed s); [apply (FI_free_finish s); auto|]. simpl.
    destruct (nl_started s); eapply FI_acquire; eauto.
  - destruct (cont_closed s); [apply (FI_free_finish s); auto|]. eapply FI_acquire; eauto.
  - destruct (cont_closed s); [apply (FI_free_finish s); auto|]. eapply FI_acquire; eauto.
  - eapply FI_acquire; eauto.
  - destruct (running_process s); [apply (FI_free_put s) | apply (FI_free_finish s)]; auto.
  - destruct (send_command s); [apply (FI_free_put s) | apply (FI_free_finish s)]; auto.
Qed.

Lemma FI_requeue s t : LkS s -> FI s -> holder s = Some t -> FI (acquire (release s) t CClose true).
Proof.
  intros HL HF Hh. pose proof HF as [HP HS].
  pose proof HL as HL0. unfold LkS in HL0. rewrite Hh in HL0.
  pose proof (Lk_release_forget _ _ _ HL0) as HFg.
  assert (HSr : Scal (st_fsm (release s)) (runt (release s)) (run_finished (release s)) (alive (release s))
                     (pending_exit (release s)) (run_arg (release s))).
  { rewrite rl_fsm, rl_runt, rl_rf, rl_alive, rl_pe, rl_ra. exact HS. }
  unfold acquire. rewrite release_holder, release_lockq.
  destruct (rel_holder (lockq s)) as [h|] eqn:Eh.
  - split; auto. simpl. rewrite release_tasks. apply PcOk_release_put; auto.
  - destruct (tl (lockq s)) as [|t1 q] eqn:Eq.
    + set (s2 := set_pc (set_holder (release s) (Some t)) t CClose Granted2).
      assert (HL2 : LkS s2).
      { unfold LkS, s2. simpl. rewrite ?release_lockq, ?release_tasks, ?Eq. apply Lk_readd_take; auto. }
      assert (HF2 : FI s2).
      { split; auto. unfold s2. simpl. rewrite release_tasks. apply PcOk_release_put; auto. }
      apply FI_enter; auto.
    + split; auto. simpl. rewrite release_tasks. apply PcOk_release_put; auto.
Qed.

Ltac fi_inside s t HL Hh Ef :=
  eapply (FI_holder_put s _ t); [exact HL | exact Hh | simpl; rewrite ?apply_rest_tasks; reflexivity
                                | simpl; rewrite ?ar_fsm; simpl; rewrite ?Ef; try reflexivity | try same_scal].

Lemma FI_do_step s t : LkS s -> FI s -> FI (do_step s t).
Proof.
  intros HL HF. unfold do_step. destruct (find_task (tasks s) t) as [[c p]|] eqn:Ef; auto.
  pose proof HF as [HP HS].
  pose proof (HP _ _ _ Ef) as Hok.
  pose proof (lk_compat _ _ _ HL _ _ _ Ef) as Hc.
  assert (Hhold : locked_pc p = true -> holder s = Some t) by (intros Hl; eapply (lk_holder_of _ _ _ HL); eauto).
  destruct p; simpl in Hhold; try specialize (Hhold eq_refl); auto; simpl in Hok.
  - apply FI_enter; auto.
  - apply FI_enter; auto.
  - (* S_G1: Created -> Initialized, initialize_run *)
    destruct (st_fsm s) eqn:Efs; try discriminate.
    eapply (FI_holder_put s _ t); [exact HL | exact Hhold | reflexivity | reflexivity |].
    simpl. rewrite ?Er. eapply Scal_to_initialized; eauto. eapply Scal_idle; eauto; discriminate.
  - destruct (st_fsm s) eqn:Efs; try discriminate. fi_inside s t HL Hhold Efs.
  - (* S_G3 *)
    destruct c; simpl in Hc; try discriminate.
    + eapply FI_release_finish; eauto. apply release_scal.
    + apply FI_requeue; auto.
  - destruct (started_ev s); auto. fi_inside s t HL Hhold Hok; try exact Hok.
  - (* R_G *)
    destruct c; simpl in Hc; try discriminate;
      try (eapply FI_release_finish; eauto; apply release_scal);
      (eapply FI_holder_release; eauto;
       [right; simpl; rewrite release_tasks; eexists; exists P_WaitRunFinished; split; reflexivity | same_scal]).
  - destruct c; simpl in Hc; try discriminate. fi_inside s t HL Hhold Hok; try exact Hok.
  - (* Z_G1b *)
    destruct (st_fsm s) eqn:Efs; try discriminate.
    + eapply (FI_holder_put s _ t); [exact HL | exact Hhold | reflexivity | reflexivity |].
      simpl. rewrite ?Er. eapply Scal_to_initialized; eauto. eapply Scal_idle; eauto; discriminate.
    + destruct (runt s) eqn:Er.
      * fi_inside s t HL Hhold Efs.
      * eapply (FI_holder_put s _ t); [exact HL | exact Hhold | reflexivity | reflexivity |].
        simpl. rewrite ?Er. eapply Scal_to_initialized; eauto.
  - (* Z_WaitRunTask *)
    destruct (runt s) eqn:Er; auto.
    eapply (FI_holder_put s _ t); [exact HL | exact Hhold | reflexivity | reflexivity |].
    simpl. rewrite ?Er. eapply Scal_to_initialized; eauto.
  - destruct (st_fsm s) eqn:Efs; try discriminate. fi_inside s t HL Hhold Efs.
  - eapply FI_release_finish; eauto. apply release_scal.
  - (* C_WaitRunFinished *)
    destruct (run_finished s) as [[|]|] eqn:Erf; auto.
    apply FI_close_trigger; auto. intros Hr.
    destruct (Scal_running_not_none _ _ _ _ _ _ HS Hr) as (x & _ & _ & E). congruence.
  - (* C_WaitRunTask *)
    destruct (runt s) eqn:Er; auto. eapply FI_close_enter_closed; eauto.
  - destruct (st_fsm s) eqn:Efs; try discriminate. fi_inside s t HL Hhold Efs.
  - eapply FI_release_finish; eauto. simpl. apply release_scal.
  - (* P_WaitRunFinished *)
    destruct (run_finished s) as [[|]|]; auto. apply (FI_free_finish s); auto.
  - apply (FI_free_finish s); auto.
Qed.

Lemma scal_cont_finished n : forall s, scal_of (cont_finished s n) = scal_of s.
Proof.
  induction n as [|n IH]; intros s; simpl; auto.
  destruct (filter _ (cont_plugins s)) as [|[t b] r]; auto.
  rewrite IH. reflexivity.
Qed.

Lemma tasks_cont_finished n : forall s, tasks (cont_finished s n) = tasks s.
Proof. intros s. apply (slk_cont_finished n s). Qed.

(** the completion transition of the run task *)
Lemma FI_run_finish s x :
  FI s -> runt s = Some x -> early x = true -> alive s = 0%nat -> pending_exit s = None -> FI (run_finish s).
Proof.
  intros [HP HS] Hr He Ha Hp. pose proof (sc_early _ _ _ _ _ _ HS x Hr He) as Hf.
  unfold run_finish. simpl. rewrite Hf.
  match goal with |- FI (set_runt (cont_finished ?y ?n) _) =>
    pose proof (scal_of_fields _ _ (scal_cont_finished n y)) as (E1 & E2 & E3 & E4 & E5 & E6);
    pose proof (tasks_cont_finished n y) as Et end.
  simpl in *. split; simpl; rewrite ?E1, ?E2, ?E3, ?E4, ?E5, ?E6, ?Et.
  - apply PcOk_run_fin. rewrite <- Hf. exact HP.
  - constructor.
    + intros y Hy Hl. inversion Hy; subst. discriminate.
    + intros; reflexivity.
    + intros; discriminate.
    + intros y Hy. eapply sc_rf_some; eauto.
    + intros; discriminate.
    + simpl. auto.
    + intros [?|?]; discriminate.
Qed.

Lemma Scal_early_step f x y rf a pe ra a' pe' ra' :
  Scal f (Some x) rf a pe ra -> early x = true -> early y = true ->
  child_ok (Some y) a' pe' -> ra' <> None -> Scal f (Some y) rf a' pe' ra'.
Proof.
  intros H Hx Hy Hc Hr. pose proof (sc_early _ _ _ _ _ _ H x eq_refl Hx) as Hf. constructor.
  - intros; assumption.
  - intros z Hz Hl. inversion Hz; subst. congruence.
  - intros; discriminate.
  - intros z _. eapply sc_rf_some; eauto.
  - intros; discriminate.
  - exact Hc.
  - intros _. exact Hr.
Qed.

Lemma Scal_late_step f x y rf a pe ra :
  Scal f (Some x) rf a pe ra -> early x = false -> early y = false ->
  child_ok (Some y) a pe -> Scal f (Some y) rf a pe ra.
Proof.
  intros H Hx Hy Hc. pose proof (sc_late _ _ _ _ _ _ H x eq_refl Hx) as Hf. constructor.
  - intros z Hz He. inversion Hz; subst. congruence.
  - intros; assumption.
  - intros; discriminate.
  - intros z _. eapply sc_rf_some; eauto.
  - intros; discriminate.
  - exact Hc.
  - apply (sc_ra _ _ _ _ _ _ H).
Qed.

Lemma Scal_done f x rf a pe ra :
  Scal f (Some x) rf a pe ra -> early x = false -> child_ok None a pe -> Scal f None (Some true) a pe ra.
Proof.
  intros H Hx Hc. pose proof (sc_late _ _ _ _ _ _ H x eq_refl Hx) as Hf. constructor; try (intros; discriminate).
  - intros _. rewrite Hf. discriminate.
  - exact Hc.
  - apply (sc_ra _ _ _ _ _ _ H).
Qed.

Lemma FI_step_run s : FI s -> FI (do_step_run s).
Proof.
  intros HF. pose proof HF as [HP HS]. unfold do_step_run.
  destruct (runt s) as [x|] eqn:Er; auto.
  pose proof (sc_child _ _ _ _ _ _ HS) as Hch.
  assert (Hra : early x = true -> run_arg s <> None).
  { intros He. apply (sc_ra _ _ _ _ _ _ HS). right. eapply sc_early; eauto. }
  destruct x; simpl in Hch.
  - (* RT_New *)
    destruct (run_arg s) eqn:Era; [|exfalso; apply Hra; auto].
    destruct Hch as (Ha & Hp). split; simpl; auto. rewrite Era.
    eapply Scal_early_step; [exact HS | reflexivity | reflexivity | simpl; left; rewrite Ha; auto | discriminate].
  - (* RT_Created *)
    simpl. destruct (run_arg s) eqn:Era; [|exfalso; apply Hra; auto].
    split; simpl; auto. rewrite Era.
    eapply Scal_early_step; [exact HS | reflexivity | reflexivity | exact Hch | discriminate].
  - (* RT_G_start *)
    split; simpl; auto.
    eapply Scal_early_step; [exact HS | reflexivity | reflexivity | exact Hch | apply Hra; reflexivity].
  - (* RT_WaitChild *)
    destruct (run_call_pending s); auto. destruct (pending_exit s) as [o|] eqn:Epe; auto.
    simpl. destruct (run_arg s) eqn:Era; [|exfalso; apply Hra; auto].
    destruct Hch as [(_ & ?) | (Ha & _)]; [discriminate|].
    split; simpl; auto. rewrite Era.
    eapply Scal_early_step; [exact HS | reflexivity | reflexivity | simpl; auto | discriminate].
  - (* RT_G_end *)
    destruct Hch as (Ha & Hp). eapply FI_run_finish; eauto.
  - (* RT_G_fin *)
    split; simpl; auto. eapply Scal_late_step; [exact HS | reflexivity | reflexivity | exact Hch].
  - (* RT_G_cs *)
    split; simpl; auto. eapply Scal_done; [exact HS | reflexivity | exact Hch].
Qed.

Lemma FI_child_exit s o : FI s -> FI (do_child_exit s o).
Proof.
  intros [HP HS]. unfold do_child_exit. destruct (alive s) as [|n] eqn:Ea; [split; auto; rewrite Ea; auto|].
  split; simpl; auto.
  destruct HS as [h1 h2 h3 h4 h5 h6 h7]. rewrite ?Ea in h6. constructor; auto.
  unfold child_ok in *.
  destruct (runt s) as [x|]; [destruct x|]; try (destruct h6 as (? & _); discriminate).
  all: destruct h6 as [(Hn & _) | (? & _)]; try discriminate; right; split; [congruence | discriminate].
Qed.

Theorem FI_step s l : LkS s -> FI s -> FI (step s l).
Proof.
  intros HL HF. destruct l; simpl.
  - apply FI_do_call; auto.
  - apply FI_do_step; auto.
  - apply FI_step_run; auto.
  - apply FI_child_exit; auto.
Qed.

Lemma FI_init a b c d : FI (init_state a b c d).
Proof.
  split; simpl.
  - intros t c0 p H. discriminate.
  - constructor; try (intros; discriminate); simpl; auto. intros [?|?]; discriminate.
Qed.

Theorem inv_reachable a b c d ls :
  LkS (run_labels (init_state a b c d) ls) /\ FI (run_labels (init_state a b c d) ls).
Proof.
  unfold run_labels. generalize (LkS_init a b c d) (FI_init a b c d). generalize (init_state a b c d).
  induction ls as [|l ls IH]; intros s HL HF; simpl; auto.
  apply IH; [apply LkS_step | apply FI_step]; auto.
Qed.
