(** TIE of the hand-written Ids/Model.v to the code regenerated from /repo (Gen/IdsFuns.v).
    Obligations of kind (b): the interpreter of Ids/Interp.v, run on the REGENERATED method
    bodies, computes exactly the operations of the model -- for every state related by [Rst],
    every actor, every answer of `asyncio.current_task()` (task / None / RuntimeError) and every
    assignment of event loops to tasks. *)
From NL Require Import Ids.Interp Gen.IdsFuns Ids.Inv Ids.TieBase.
Open Scope Z_scope.

Local Notation pev := (eval program).
Local Notation pex := (exec program).

(** what the code relies on, and the model's invariant [Inv] provides: numbers handed out are
    never 0 (`if not thread_no:` treats 0 like None), and an actor that is between its two counter
    calls already has its ThreadTaskId *)
Record Pre (s : state) : Prop := {
  p_thctr : c_thread_ctr s <> 0;
  p_thno : forall th n, c_thread_no s th = Some n -> n <> 0;
  p_tkno : forall a n, c_task_no s a = Some n -> n <> 0;
  p_pend : forall a, k_pend s a = true -> c_map s a <> None
}.

Lemma Inv_Pre tr s : Inv tr s -> Pre s.
Proof.
  intros I. destruct (i_pos _ _ I) as (P1 & P2 & P3). constructor.
  - lia.
  - intros th n H. apply (i_th_range _ _ I) in H. lia.
  - intros a n H. destruct (i_tk _ _ I _ _ H) as (_ & tn & _ & Hr). lia.
  - intros a H. apply (i_pend _ _ I a H).
Qed.

Ltac leaf := fail.
Ltac norm := cbn -[eval exec Z.add]; unfold lookup; cbn [fst snd].
Ltac stop_check := idtac.
Ltac step1 := first [leaf | (stop_check; first [rewrite eval_S | rewrite exec_S])]; norm.
Ltac steps := repeat step1.
Ltac go := norm; steps.
Local Tactic Notation "fuel" integer(k) ident(n) ident(H) := do k (destruct n; [lia|]); clear H.

Definition task_val (th : Z) (ok : option Z) : value := match ok with Some k => VTask th k | None => VNone end.

(** ThreadTaskIdComposer._current_thread_task / nextline.utils.current_task_or_thread: the
    RuntimeError of asyncio.current_task() is caught *)
Lemma eval_current_thread_task : forall n th ok nl lp st en, (8 <= n)%nat ->
  pev (mkCx (th, ok) nl lp) n st en (EMethod Composer "_current_thread_task" []) = EV st en (VPair (VThread th) (task_val th ok)).
Proof.
  intros n th ok nl lp st en H. fuel 8 n H. steps.
  destruct ok as [k|]; [|destruct nl]; go; reflexivity.
Qed.

Lemma eval_current_task_or_thread : forall n th ok nl lp st en, (8 <= n)%nat ->
  pev (mkCx (th, ok) nl lp) n st en (EFunc "current_task_or_thread") = EV st en (aval (th, ok)).
Proof.
  intros n th ok nl lp st en H. fuel 8 n H. steps.
  destruct ok as [k|]; [|destruct nl]; go; reflexivity.
Qed.

Ltac leaf ::= first [rewrite eval_current_thread_task by lia | rewrite eval_current_task_or_thread by lia].

Lemma truthy_task_val th ok : truthy (task_val th ok) = is_some ok.
Proof. destruct ok; reflexivity. Qed.
Lemma key_aval th ok : (if is_some ok then task_val th ok else VThread th) = aval (th, ok).
Proof. destruct ok; reflexivity. Qed.
Lemma nz_eqb z : z <> 0 -> Z.eqb z 0 = false.
Proof. intros. destruct (Z.eqb_spec z 0); [contradiction|reflexivity]. Qed.

(** the kinds of the containers, as the regenerated __init__ bodies create them *)
Ltac init_kind c n :=
  let k := eval vm_compute in (i_kinds st_init c n) in
  change (i_kinds st_init c n) with k.

(** ---- the task half of ThreadTaskIdComposer._compose (everything after `if not task: return ..`) *)
Definition compose_task_part : stmt :=
  match composer_compose_body with SSeq _ (SSeq _ (SSeq _ r)) => r | _ => SSkip end.

Definition m_task_part (s1 : state) (a : actor) (tn : Z) : state * ttid :=
  match c_task_no s1 a with
  | Some kn => (s1, (tn, Some kn))
  | None =>
    let kn := c_task_ctr s1 tn in
    (mkSt (k_set s1) (k_pend s1) (c_thread_ctr s1) (c_thread_no s1) (updf Z.eqb (c_task_ctr s1) tn (kn + 1))
          (updf actor_eqb (c_task_no s1) a (Some kn)) (c_map s1) (m_ctr s1) (m_map s1), (tn, Some kn))
  end.

Lemma exec_task_part : forall n cx st en lt lm s th k tn, (12 <= n)%nat ->
  Rst lt lm st s -> (forall a n, c_task_no s a = Some n -> n <> 0) ->
  en "task"%string = Some (VTask th k) -> en "thread_no"%string = Some (VInt tn) ->
  exists st',
    pex cx n st en ltac:(let t := eval cbv in compose_task_part in exact t)
      = RRet st' (enc_id (snd (m_task_part s (th, Some k) tn))) /\
    Rst lt lm st' (fst (m_task_part s (th, Some k) tn)) /\ rest_of st' = rest_of st.
Proof.
  intros n cx st en lt lm s th k tn Hn R Pr He1 He2. fuel 12 n Hn.
  destruct s as [ks kp tc tno tkc tkn cm mc mm]. unfold m_task_part. cbn [c_task_no c_task_ctr].
  steps. rewrite He1. go.
  pose proof (r_tkno _ _ _ _ R th k) as Ht. cbn in Ht. rewrite Ht. clear Ht.
  destruct (tkn (th, Some k)) as [kn|] eqn:Ekn.
  - go. rewrite (nz_eqb kn) by (apply (Pr (th, Some k)); exact Ekn). go.
    rewrite He2. go.
    exists st. split; [reflexivity|split; [exact R|reflexivity]].
  - go. rewrite He2. go.
    pose proof (r_tkctr _ _ _ _ R tn) as Hc. cbn in Hc.
    destruct (i_dicts st Composer "_task_no_counter_map" (VInt tn)) as [[| | | | | | | |l| | | | |]|] eqn:Ed; try contradiction.
    + (* the counter of this thread number exists *)
      destruct Hc as (Hh & Hl & Hlt & Hlm). go. rewrite Hh, He1. go. rewrite He2. go.
      pose proof (Rst_task_ctr _ _ _ _ tn l R Ed) as R1.
      pose proof (Rst_tkno _ _ _ _ th k (tkc tn) R1) as R2.
      eexists. split; [reflexivity|split; [exact R2|reflexivity]].
    + (* defaultdict miss: the factory creates it *)
      rewrite (r_kinds _ _ _ _ R). init_kind Composer "_task_no_counter_map". go.
      rewrite Nat.eqb_refl, He1. go. rewrite He2. go. rewrite Hc.
      pose proof (Rst_new_task_ctr _ _ _ _ tn R Ed) as R1.
      assert (Ed1 : i_dicts (set_entry (fst (alloc st 1)) (Composer, "_task_no_counter_map"%string) (VInt tn) (Some (VCtr (i_next st))))
                      Composer "_task_no_counter_map" (VInt tn) = Some (VCtr (i_next st)))
        by (cbn; rewrite Z.eqb_refl; reflexivity).
      pose proof (Rst_task_ctr _ _ _ _ tn _ R1 Ed1) as R2. cbn -[Z.add] in R2. rewrite Hc in R2.
      pose proof (Rst_tkno _ _ _ _ th k 1 R2) as R3.
      eexists. split; [reflexivity|split; [exact R3|reflexivity]].
Qed.



(** ---- ThreadTaskIdComposer._compose = [compose] of the model *)
Lemma eval_compose : forall n th ok nl lp st en lt lm s, (24 <= n)%nat ->
  Rst lt lm st s -> Pre s ->
  en "thread"%string = Some (VThread th) -> en "task"%string = Some (task_val th ok) ->
  exists st',
    pev (mkCx (th, ok) nl lp) n st en (EMethod Composer "_compose" [EVar "thread"; EVar "task"])
      = EV st' en (enc_id (snd (compose s (th, ok)))) /\
    Rst lt lm st' (fst (compose s (th, ok))) /\ rest_of st' = rest_of st.
Proof.
  intros n th ok nl lp st en lt lm s Hn R Pr He1 He2. fuel 24 n Hn.
  destruct s as [ks kp tc tno tkc tkn cm mc mm].
  steps. rewrite He1. go. rewrite He2. go.
  pose proof (r_thno _ _ _ _ R th) as Ht. cbn in Ht. rewrite Ht. clear Ht.
  unfold compose. cbn [fst snd c_thread_no].
  destruct (tno th) as [tn|] eqn:Etn.
  - (* the thread has its number *)
    go. rewrite (nz_eqb tn) by (apply (p_thno _ Pr th); exact Etn). go.
    destruct ok as [k|].
    + norm.
      match goal with |- context [pex ?cx ?n ?st ?en (SSeq (SAssign "task_no" _) _)] =>
        destruct (exec_task_part n cx st en lt lm _ th k tn ltac:(lia) R (p_tkno _ Pr) eq_refl eq_refl) as (st' & Hx & HR & Ho)
      end.
      rewrite Hx. clear Hx. go. unfold m_task_part in HR |- *. cbn -[eval exec Z.add] in HR |- *.
      exists st'. split; [reflexivity|split; [exact HR|exact Ho]].
    + go. exists st. split; [reflexivity|split; [exact R|reflexivity]].
  - (* a new thread number *)
    go. rewrite (r_lt _ _ _ _ R). go.
    pose proof (r_lt_h _ _ _ _ R) as Hh. cbn in Hh. rewrite Hh.
    rewrite (nz_eqb tc) by (apply (p_thctr _ Pr)). go.
    pose proof (Rst_thno _ _ _ _ th tc (Rst_thread_ctr _ _ _ _ R)) as R2. cbn -[Z.add] in R2.
    destruct ok as [k|].
    + norm.
      match goal with |- context [pex ?cx ?n ?st ?en (SSeq (SAssign "task_no" _) _)] =>
        destruct (exec_task_part n cx st en lt lm _ th k tc ltac:(lia) R2 (p_tkno _ Pr) eq_refl eq_refl) as (st' & Hx & HR & Ho)
      end.
      rewrite Hx. clear Hx. go. unfold m_task_part in HR |- *. cbn -[eval exec Z.add] in HR |- *.
      exists st'. split; [reflexivity|split; [exact HR|exact Ho]].
    + go. eexists. split; [reflexivity|split; [exact R2|reflexivity]].
Qed.

(** from here on the symbolic execution stops at a call of _compose: [eval_compose] is used instead *)
Ltac stop_check ::=
  lazymatch goal with
  | |- context [eval ?p1 ?p2 ?p3 ?p4 ?p5 (EMethod Composer "_compose" ?p6)] => fail
  | _ => idtac
  end.

(** ---- ThreadTaskIdComposer.__call__ (reached through `self._counter()` of the keeper) = [composer_call] *)
Lemma composer_call_tie : forall n th ok nl lp st en lt lm s, (36 <= n)%nat ->
  Rst lt lm st s -> Pre s ->
  exists st',
    pev (mkCx (th, ok) nl lp) n st en (ECall (EAttr Keeper "_counter")) = EV st' en (enc_id (snd (composer_call s (th, ok)))) /\
    Rst lt lm st' (fst (composer_call s (th, ok))) /\ rest_of st' = rest_of st.
Proof.
  intros n th ok nl lp st en lt lm s Hn R Pr. fuel 36 n Hn.
  steps. rewrite (r_kc _ _ _ _ R). go.
  pose proof (r_cmap _ _ _ _ R (th, ok)) as Hc.
  unfold composer_call. destruct (c_map s (th, ok)) as [id|] eqn:Ecm.
  - destruct ok as [k|]; cbn in Hc; go; rewrite Hc; go;
      (exists st; split; [reflexivity|split; [exact R|reflexivity]]).
  - destruct ok as [k|]; cbn in Hc; go; rewrite Hc; go;
      match goal with |- context [pev (mkCx (th, ?o) _ _) ?n ?st0 ?en0 (EMethod Composer "_compose" _)] =>
        destruct (eval_compose n th o nl lp st0 en0 lt lm s ltac:(lia) R Pr eq_refl eq_refl) as (st' & Hx & HR & Ho);
        rewrite Hx; clear Hx; destruct (compose s (th, o)) as [s1 id]; cbn [fst snd] in *; go;
        eexists; (split; [reflexivity|split; [exact (Rst_cmap _ _ _ _ (th, o) id HR)|exact Ho]])
      end.
Qed.

(** from here on the symbolic execution also stops at `self._counter()` of the keeper:
    [composer_call_tie] is used instead *)
Ltac stop_check ::=
  lazymatch goal with
  | |- context [eval ?p1 ?p2 ?p3 ?p4 ?p5 (EMethod Composer "_compose" ?p6)] => fail
  | |- context [eval ?q1 ?q2 ?q3 ?q4 ?q5 (ECall (EAttr Keeper "_counter"))] => fail
  | _ => idtac
  end.

Ltac use_composer_call R Pr :=
  match goal with |- context [pev (mkCx (?th, ?ok) ?nl ?lp) ?n ?st0 ?en0 (ECall (EAttr Keeper "_counter"))] =>
    let st' := fresh "st'" in let Hx := fresh "Hx" in let HR := fresh "HR" in let Ho := fresh "Ho" in
    destruct (composer_call_tie n th ok nl lp st0 en0 _ _ _ ltac:(lia) R Pr) as (st' & Hx & HR & Ho);
    rewrite Hx; clear Hx
  end.

(** ---- the hooks current_thread_no / current_task_no (TaskAndThreadKeeper): the composer again *)
Lemma eval_current_thread_no : forall n th ok nl lp st en lt lm s, (40 <= n)%nat ->
  Rst lt lm st s -> Pre s ->
  exists st',
    pev (mkCx (th, ok) nl lp) n st en (EHook "current_thread_no") = EV st' en (VInt (fst (snd (composer_call s (th, ok))))) /\
    Rst lt lm st' (fst (composer_call s (th, ok))) /\ rest_of st' = rest_of st.
Proof.
  intros n th ok nl lp st en lt lm s Hn R Pr. fuel 40 n Hn.
  steps. use_composer_call R Pr. go.
  exists st'. split; [reflexivity|split; [exact HR|exact Ho]].
Qed.

Lemma eval_current_task_no : forall n th ok nl lp st en lt lm s, (40 <= n)%nat ->
  Rst lt lm st s -> Pre s ->
  exists st',
    pev (mkCx (th, ok) nl lp) n st en (EHook "current_task_no") = EV st' en (enc_oz (snd (snd (composer_call s (th, ok))))) /\
    Rst lt lm st' (fst (composer_call s (th, ok))) /\ rest_of st' = rest_of st.
Proof.
  intros n th ok nl lp st en lt lm s Hn R Pr. fuel 40 n Hn.
  steps. use_composer_call R Pr. go.
  exists st'. split; [reflexivity|split; [exact HR|exact Ho]].
Qed.

(** ---- the hook current_trace_no (TaskOrThreadToTraceMapper): a pure read of _map by the current task or thread *)
Lemma eval_current_trace_no : forall n th ok nl lp st en lt lm s, (14 <= n)%nat ->
  Rst lt lm st s ->
  pev (mkCx (th, ok) nl lp) n st en (EHook "current_trace_no") = EV st en (enc_oz (m_map s (th, ok))).
Proof.
  intros n th ok nl lp st en lt lm s Hn R. fuel 14 n Hn.
  steps. rewrite (r_mmap _ _ _ _ R (th, ok)). destruct (m_map s (th, ok)); reflexivity.
Qed.

(** ================= the labels ================= *)

Local Notation drv := (drive program).
Local Notation istp := (istep program).

(** what is left of `filtered` for an actor stopped at the call of on_start_task_or_thread:
    whenever it is resumed it adds the actor to TaskAndThreadKeeper._set and does nothing else *)
Definition good_kont (a : actor) (ks : list frame) : Prop :=
  forall n cx cut st, (8 <= n)%nat ->
    drv n cx cut st ks = DDone (set_entry st (Keeper, "_set"%string) (aval a) (Some VNone)).

Record Rsys (lt lm : nat) (pv : _) (y : sys) (s : state) : Prop := {
  rs_st : Rst lt lm (y_st y) s;
  rs_susp : forall a, match y_susp y a with
                      | Some ks => k_pend s a = true /\ good_kont a ks
                      | None => k_pend s a = false
                      end;
  rs_pv : pview (y_st y) = pv       (* the debugger side of the state (see [pview]): untouched by the numbering *)
}.

Ltac dstep := first [rewrite drive_cons | rewrite drive_nil | rewrite drive_k_norm | rewrite drive_k_ret | rewrite drive_k_exc | rewrite drive_k_hook].

(** ---- Emit: an event produced by actor a carries current_trace_no() *)
Lemma step_emit : forall nl lp lt lm pv y s a x, Rsys lt lm pv y s ->
  Rsys lt lm pv (fst (istp nl lp y (Emit a x))) (fst (step s (Emit a x))) /\
  snd (istp nl lp y (Emit a x)) = snd (step s (Emit a x)).
Proof.
  intros nl lp lt lm pv y s [th ok] x [R Hs Hv]. unfold istep.
  pose proof (Rst_clear_out _ _ _ _ R) as R0.
  unfold FUEL. rewrite (eval_current_trace_no _ th ok _ _ _ _ lt lm s) by (lia || exact R0).
  cbn [step fst snd]. destruct (m_map s (th, ok)) as [t|]; cbn; (split; [constructor; assumption|reflexivity]).
Qed.

Ltac norm ::= cbn -[eval exec drive drive_k Z.add aval]; unfold lookup; cbn [fst snd].
Ltac dgo := norm; repeat (first [dstep | step1]; norm).

(** ---- End: TaskAndThreadKeeper._on_end(a) -> on_end_task_or_thread -> _map[a] -> on_end_trace -> OnEndTrace *)
Lemma step_end : forall nl lp lt lm pv y s a, Rsys lt lm pv y s ->
  Rsys lt lm pv (fst (istp nl lp y (End a))) (fst (step s (End a))) /\
  snd (istp nl lp y (End a)) = snd (step s (End a)).
Proof.
  intros nl lp lt lm pv y s [th ok] [R Hs Hv]. unfold istep, FUEL. norm. dgo.
  rewrite (r_mmap _ _ _ _ R (th, ok)). cbn [step].
  destruct (m_map s (th, ok)) as [t|] eqn:Em; norm.
  - dgo. split; [|reflexivity]. constructor; [|exact Hs|exact Hv].
    apply Rst_put_out, Rst_clear_out. exact R.
  - rewrite (r_kinds _ _ _ _ R). init_kind Mapper "_map"%string. dgo.
    split; [|reflexivity]. constructor; [|exact Hs|exact Hv]. apply Rst_clear_out. exact R.
Qed.

Lemma composer_call_frame s a :
  k_pend (fst (composer_call s a)) = k_pend s /\ k_set (fst (composer_call s a)) = k_set s /\
  m_ctr (fst (composer_call s a)) = m_ctr s /\ m_map (fst (composer_call s a)) = m_map s.
Proof.
  destruct s as [ks kp tc tno tkc tkn cm mc mm]. destruct a as [th [k|]]; unfold composer_call, compose; cbn.
  - destruct (cm (th, Some k)); cbn; auto. destruct (tno th); cbn; destruct (tkn (th, Some k)); cbn; auto.
  - destruct (cm (th, None)); cbn; auto. destruct (tno th); cbn; auto.
Qed.

(** ---- Filtered: the hook `filtered` in actor a, up to the call of on_start_task_or_thread *)
Lemma step_filtered : forall nl lp lt lm pv y s a, Rsys lt lm pv y s -> Pre s ->
  Rsys lt lm pv (fst (istp nl lp y (Filtered a))) (fst (step s (Filtered a))) /\
  snd (istp nl lp y (Filtered a)) = snd (step s (Filtered a)).
Proof.
  intros nl lp lt lm pv y s [th ok] [R Hs Hv] Pr. unfold istep, FUEL. cbn [step].
  pose proof (Hs (th, ok)) as Hsa. destruct (y_susp y (th, ok)) as [ks|] eqn:Esu.
  - destruct Hsa as [Hp _]. rewrite Hp, orb_true_r. cbn. split; [constructor; assumption|reflexivity].
  - rewrite Hsa, orb_false_r. norm. dgo.
    pose proof (r_set _ _ _ _ R (th, ok)) as Hset.
    destruct (i_dicts (y_st y) Keeper "_set" (aval (th, ok))) eqn:Ed; cbn in Hset; rewrite <- Hset; norm.
    + dgo. split; [|reflexivity]. constructor; [|exact Hs|exact Hv]. apply Rst_clear_out. exact R.
    + dgo.
      pose proof (composer_call_frame s (th, ok)) as (Hkp & _).
      assert (Hfin : forall st1, Rst lt lm st1 s -> i_out st1 = [] ->
        forall r, r = pex (mkCx (th, ok) (nl (th, ok)) lp) 54 st1 (eupd eempty "current"%string (aval (th, ok)))
                        (SSeq (SExpr (ECall (EAttr Keeper "_counter"))) (SHook "on_start_task_or_thread" [])) ->
        exists st', r = RHook st' "on_start_task_or_thread" [] [] SSkip (eupd eempty "current"%string (aval (th, ok))) /\
                    Rst lt lm st' (fst (composer_call s (th, ok))) /\ i_out st' = [] /\ pview st' = pview st1).
      { intros st1 R1 Ho1 r ->. steps. use_composer_call R1 Pr. go.
        exists st'. split; [reflexivity|split; [exact HR|split; [rewrite <- Ho1; exact (rest_out _ _ Ho)|exact (rest_pv _ _ Ho)]]]. }
      assert (R0 : Rst lt lm (clear_out (y_st y)) s) by (apply Rst_clear_out; exact R).
      destruct (veqb (aval (th, ok)) (i_attrs (y_st y) Keeper "_main_thread")); norm;
        match goal with |- context [pex _ 54 ?st1 _ (SSeq (SExpr _) _)] =>
          assert (R1 : Rst lt lm st1 s) by (first [exact R0 | apply Rst_set_attr; [reflexivity|reflexivity|reflexivity|exact R0]]);
          destruct (Hfin st1 R1 eq_refl _ eq_refl) as (st' & Hx & HR & Ho & Hpv)
        end;
        rewrite Hx; clear Hx; dgo; rewrite Ho; norm;
        destruct (composer_call s (th, ok)) as [s1 id]; cbn [fst snd] in *;
        (split; [|reflexivity]); (constructor; cbn [y_st y_susp k_pend]);
        [ exact (Rst_kpend _ _ _ _ _ HR)
        | intros b; unfold updf; destruct (actor_eqb_spec b (th, ok)) as [->|Hne];
          [ split; [reflexivity|]; intros n cx cut st Hn; fuel 8 n Hn; dgo; reflexivity
          | rewrite Hkp; exact (Hs b) ]
        | exact (eq_trans Hpv Hv)
        | exact (Rst_kpend _ _ _ _ _ HR)
        | intros b; unfold updf; destruct (actor_eqb_spec b (th, ok)) as [->|Hne];
          [ split; [reflexivity|]; intros n cx cut st Hn; fuel 8 n Hn; dgo; reflexivity
          | rewrite Hkp; exact (Hs b) ]
        | exact (eq_trans Hpv Hv) ].
Qed.

(** from here on the hook reads are not unfolded either *)
Ltac stop_check ::=
  lazymatch goal with
  | |- context [eval ?p1 ?p2 ?p3 ?p4 ?p5 (EMethod Composer "_compose" ?p6)] => fail
  | |- context [eval ?q1 ?q2 ?q3 ?q4 ?q5 (ECall (EAttr Keeper "_counter"))] => fail
  | |- context [eval ?r1 ?r2 ?r3 ?r4 ?r5 (EHook ?r6)] => fail
  | _ => idtac
  end.

Lemma composer_call_hit s a id : c_map s a = Some id -> composer_call s a = (s, id).
Proof. intros H. unfold composer_call. rewrite H. reflexivity. Qed.

Lemma Pre_frame s s' :
  c_thread_ctr s' = c_thread_ctr s -> c_thread_no s' = c_thread_no s -> c_task_no s' = c_task_no s ->
  k_pend s' = k_pend s -> c_map s' = c_map s -> Pre s -> Pre s'.
Proof. intros H1 H2 H3 H4 H5 []. constructor; rewrite ?H1, ?H2, ?H3, ?H4, ?H5; assumption. Qed.

Lemma pair_goal {A B} (t : A * B) (P : A -> Prop) (b : B) :
  (exists a', t = (a', b) /\ P a') -> P (fst t) /\ snd t = b.
Proof. intros (a' & -> & H). split; [exact H|reflexivity]. Qed.

(** ---- Mapped: actor a resumes at on_start_task_or_thread: trace number, _map[a], on_start_trace
    (Repeater: current_thread_no / current_task_no, OnStartTrace), then the rest of `filtered` *)
Lemma step_mapped : forall nl lp lt lm pv y s a, Rsys lt lm pv y s -> Pre s ->
  Rsys lt lm pv (fst (istp nl lp y (Mapped a))) (fst (step s (Mapped a))) /\
  snd (istp nl lp y (Mapped a)) = snd (step s (Mapped a)).
Proof.
  intros nl lp lt lm pv y s [th ok] [R Hs Hv] Pr. unfold istep, FUEL. cbn [step].
  pose proof (Hs (th, ok)) as Hsa. destruct (y_susp y (th, ok)) as [ks|] eqn:Esu.
  2:{ rewrite Hsa. cbn. split; [constructor; assumption|reflexivity]. }
  destruct Hsa as [Hp Hk]. rewrite Hp.
  destruct (c_map s (th, ok)) as [id|] eqn:Ecm; [|exfalso; apply (p_pend _ Pr _ Hp); exact Ecm].
  pose proof (Rst_clear_out _ _ _ _ R) as R0.
  pose proof (Rst_trace_ctr _ _ _ _ R0) as R1.
  pose proof (Rst_mmap _ _ _ _ (th, ok) (m_ctr s) R1) as R2.
  match goal with |- Rsys _ _ _ (fst ?t) ?s' /\ snd ?t = ?b => apply (pair_goal t (fun y' => Rsys lt lm pv y' s') b) end.
  norm. dgo. rewrite (r_lm _ _ _ _ R). norm. rewrite (r_lm_h _ _ _ _ R). dgo.
  match goal with |- context [pev (mkCx (?th, ?ok) ?nl ?lp) ?n ?st0 ?en0 (EHook "current_trace_no")] =>
    rewrite (eval_current_trace_no n th ok nl lp st0 en0 lt lm _ ltac:(lia) R2)
  end.
  unfold w_mmap at 1. cbn [m_map]. unfold updf at 1. rewrite actor_eqb_refl. norm. rewrite Z.eqb_refl. dgo.
  set (s2 := w_mmap (w_mctr s (m_ctr s + 1)) (updf actor_eqb (m_map (w_mctr s (m_ctr s + 1))) (th, ok) (Some (m_ctr s)))) in *.
  assert (Pr2 : Pre s2) by (eapply Pre_frame; [..|exact Pr]; reflexivity).
  assert (Ecm2 : composer_call s2 (th, ok) = (s2, id)) by (apply composer_call_hit; exact Ecm).
  match goal with |- context [pev (mkCx (?th, ?ok) ?nl ?lp) ?n ?st0 ?en0 (EHook "current_thread_no")] =>
    destruct (eval_current_thread_no n th ok nl lp st0 en0 lt lm _ ltac:(lia) R2 Pr2) as (st3 & Hx3 & HR3 & Ho3);
    rewrite Hx3; clear Hx3
  end.
  rewrite Ecm2 in *. cbn [fst snd] in HR3 |- *. dgo.
  match goal with |- context [pev (mkCx (?th, ?ok) ?nl ?lp) ?n ?st0 ?en0 (EHook "current_task_no")] =>
    destruct (eval_current_task_no n th ok nl lp st0 en0 lt lm _ ltac:(lia) HR3 Pr2) as (st4 & Hx4 & HR4 & Ho4);
    rewrite Hx4; clear Hx4
  end.
  rewrite Ecm2 in *. cbn [fst snd] in HR4 |- *. dgo.
  match goal with |- context [drv ?n ?cx ?cut ?st0 ks] => rewrite (Hk n cx cut st0 ltac:(lia)) end. norm.
  assert (Ho : i_out st4 = []) by (rewrite (rest_out _ _ Ho4), (rest_out _ _ Ho3); reflexivity).
  assert (Hpv : pview st4 = pv) by (rewrite (rest_pv _ _ Ho4), (rest_pv _ _ Ho3); exact Hv).
  rewrite Ho. destruct id as [tn [kn|]]; cbn [enc_oz fst snd];
    (eexists; split; [reflexivity|]; constructor; cbn [y_st y_susp k_pend];
     [ exact (Rst_kpend _ _ _ _ _ (Rst_kset _ _ _ _ (th, ok) (Rst_put_out _ _ _ _ _ HR4)))
     | intros b; unfold updf; destruct (actor_eqb b (th, ok)); [reflexivity|exact (Hs b)]
     | exact Hpv ]).
Qed.

(** ================= all labels, the initial state, whole runs ================= *)

(** ONE step of the regenerated code = ONE step of the model, for every related pair of states *)
Theorem tie_step : forall nl lp lt lm pv y s l, Rsys lt lm pv y s -> Pre s ->
  Rsys lt lm pv (fst (istp nl lp y l)) (fst (step s l)) /\ snd (istp nl lp y l) = snd (step s l).
Proof.
  intros nl lp lt lm pv y s [a|a|a x|a] H Pr.
  - apply step_filtered; assumption.
  - apply step_mapped; assumption.
  - apply step_emit; assumption.
  - apply step_end; assumption.
Qed.

(** the regenerated __init__ bodies (counters from 1, empty maps, defaultdict of task counters) give the model's [init] *)
Theorem tie_init : exists lt lm, Rsys lt lm (pview st_init) (iinit program) init.
Proof.
  eexists. eexists. constructor; [constructor| |].
  - reflexivity.
  - vm_compute. reflexivity.
  - vm_compute. reflexivity.
  - vm_compute. reflexivity.
  - discriminate.
  - vm_compute. reflexivity.
  - vm_compute. reflexivity.
  - vm_compute. lia.
  - vm_compute. lia.
  - intros a. vm_compute. reflexivity.
  - intros th. vm_compute. reflexivity.
  - intros th k. vm_compute. reflexivity.
  - intros a. vm_compute. reflexivity.
  - intros a. vm_compute. reflexivity.
  - intros tn. vm_compute. reflexivity.
  - intros tn tn' l H. vm_compute in H. discriminate.
  - intros a. vm_compute. reflexivity.
  - reflexivity.
Qed.

Local Notation itr := (itrace_from program).
Local Notation iex := (iexec_from program).

(** simulation: from related states, every label sequence gives the same observations *)
Theorem tie_sim_from : forall nl lp lt lm pv ls y s tr, Rsys lt lm pv y s -> Inv tr s ->
  itr nl lp y ls = trace_from s ls /\ Rsys lt lm pv (iex nl lp y ls) (exec_from s ls).
Proof.
  intros nl lp lt lm pv ls. induction ls as [|l ls IH]; intros y s tr H I.
  - split; [reflexivity|exact H].
  - destruct (tie_step nl lp lt lm pv y s l H (Inv_Pre _ _ I)) as [H1 H2].
    destruct (IH _ _ _ H1 (Inv_step _ _ l I)) as [E1 E2].
    cbn [itrace_from iexec_from trace_from exec_from]. rewrite H2, E1. split; [reflexivity|exact E2].
Qed.

Theorem tie_trace : forall nl lp ls, itrace program nl lp ls = trace ls.
Proof.
  intros nl lp ls. destruct tie_init as (lt & lm & H).
  exact (proj1 (tie_sim_from nl lp lt lm _ ls _ _ [] H Inv_init)).
Qed.

Theorem tie_outs : forall nl lp ls, iouts program nl lp ls = outs ls.
Proof. intros. unfold iouts, outs. rewrite tie_trace. reflexivity. Qed.

Theorem tie_final : forall nl lp ls, exists lt lm, Rsys lt lm (pview st_init) (ifinal program nl lp ls) (final ls).
Proof.
  intros nl lp ls. destruct tie_init as (lt & lm & H). exists lt, lm.
  exact (proj2 (tie_sim_from nl lp lt lm _ ls _ _ [] H Inv_init)).
Qed.

(** ================= the C06 invariants hold of the regenerated code ================= *)

Theorem tie_trace_no_injective : forall nl lp ls a b ta ida tb idb,
  started (itrace program nl lp ls) a = Some (ta, ida) -> started (itrace program nl lp ls) b = Some (tb, idb) ->
  (a = b <-> ta = tb).
Proof. intros nl lp ls. rewrite tie_trace. apply trace_no_injective. Qed.

Theorem tie_trace_numbers_sequential : forall nl lp ls,
  map (fun x => fst (snd x)) (starts (itrace program nl lp ls)) =
  map Z.of_nat (seq 1 (length (starts (itrace program nl lp ls)))).
Proof. intros nl lp ls. rewrite tie_trace. apply start_numbers. Qed.

Theorem tie_thread_task_pair_identifies : forall nl lp ls a b ta na ka tb nb kb,
  started (itrace program nl lp ls) a = Some (ta, (na, ka)) -> started (itrace program nl lp ls) b = Some (tb, (nb, kb)) ->
  (fst a = fst b <-> na = nb) /\
  (fst a = fst b -> a <> b -> ka <> kb) /\
  ((na, ka) = (nb, kb) -> a = b) /\
  (snd a = None <-> ka = None).
Proof. intros nl lp ls. rewrite tie_trace. apply thread_task_pair_identifies. Qed.

Theorem tie_numbers_stable : forall nl lp ls ls' a v,
  started (itrace program nl lp ls) a = Some v -> started (itrace program nl lp (ls ++ ls')) a = Some v.
Proof.
  intros nl lp ls ls' a v. rewrite !tie_trace. unfold trace. rewrite trace_from_app. apply started_stable.
Qed.

Theorem tie_attribution : forall nl lp ls pre a x o post,
  itrace program nl lp ls = pre ++ (Emit a x, o) :: post ->
  o = OEv (option_map fst (started pre a)) x.
Proof. intros nl lp ls. rewrite tie_trace. apply attribution. Qed.

Theorem tie_end_attribution : forall nl lp ls pre a o post,
  itrace program nl lp ls = pre ++ (End a, o) :: post ->
  o = match started pre a with Some (t, _) => OEnd t | None => OErr end.
Proof. intros nl lp ls. rewrite tie_trace. apply end_attribution. Qed.

(** ================= the remaining methods of ThreadTaskIdComposer ================= *)

(** has_id(): a pure read of _map by the current task or thread *)
Theorem tie_has_id : forall n th ok nl lp st en lt lm s, (16 <= n)%nat -> Rst lt lm st s ->
  pev (mkCx (th, ok) nl lp) n st en (EMethod Composer "has_id" []) = EV st en (VBool (is_some (c_map s (th, ok)))).
Proof.
  intros n th ok nl lp st en lt lm s Hn R. fuel 16 n Hn. steps.
  pose proof (r_cmap _ _ _ _ R (th, ok)) as Hc.
  destruct ok as [k|]; cbn in Hc; go; rewrite Hc; destruct (c_map s _); reflexivity.
Qed.

(** reset(): a NEW thread counter from 1 and no task counters; the maps from objects to numbers are kept.
    (Not called anywhere in nextline; after it, numbers already handed out can be handed out again.) *)
Lemma Rst_reset lt lm st s :
  Rst lt lm st s ->
  Rst (i_next st) lm
      (clear_container (set_attr (fst (alloc st 1)) Composer "thread_no_counter" (VCtr (i_next st))) (Composer, "_task_no_counter_map"%string))
      (w_tkctr (w_thctr s 1) (fun _ => 1)).
Proof.
  intros []. constructor; auto; cbn.
  - lia.
  - rewrite Nat.eqb_refl. reflexivity.
  - rewrite nat_eqb_neq by lia. assumption.
  - lia.
  - lia.
  - discriminate.
Qed.

Theorem tie_reset : forall n cx st en lt lm s, (8 <= n)%nat -> Rst lt lm st s ->
  exists st' lt',
    pev cx n st en (EMethod Composer "reset" []) = EV st' en VNone /\
    Rst lt' lm st' (w_tkctr (w_thctr s 1) (fun _ => 1)).
Proof.
  intros n cx st en lt lm s Hn R. fuel 8 n Hn. steps.
  eexists. exists (i_next st). split; [reflexivity|]. exact (Rst_reset _ _ _ _ R).
Qed.

(** ================= the USE of the trace number: one debugger per trace =================
    LocalTraceFunc.local_trace_func (local_.py) looks the trace function up in a defaultdict BY
    current_trace_no(); on a miss the closure of local_.Factory asks the hook create_local_trace_func, i.e.
    PdbInstanceFactory, whose closure (pdb_/factory.py) creates a NEW StdInOut and a NEW CustomizedPdb, and wraps
    pdb.trace_dispatch in WithContext.  (The SHAPE of the two `Factory(hook)` functions -- set-up assignments, one
    nested `_factory`, `return _factory` -- and three facts about WithContext are pinned by the translator; the
    bodies of `_factory`, `init`, `local_trace_func`, `create_local_trace_func` are translated and interpreted.) *)

Ltac stop_check ::=
  lazymatch goal with
  | |- context [eval ?p1 ?p2 ?p3 ?p4 ?p5 (EMethod Composer "_compose" ?p6)] => fail
  | |- context [eval ?q1 ?q2 ?q3 ?q4 ?q5 (ECall (EAttr Keeper "_counter"))] => fail
  | |- context [eval ?r1 ?r2 ?r3 ?r4 ?r5 (EHook "current_trace_no")] => fail
  | |- context [eval ?r1 ?r2 ?r3 ?r4 ?r5 (EHook "current_thread_no")] => fail
  | |- context [eval ?r1 ?r2 ?r3 ?r4 ?r5 (EHook "current_task_no")] => fail
  | _ => idtac
  end.

Notation pvt := ((value -> option value) * nat * option ckind * value)%type.
Definition pv_map (pv : pvt) : value -> option value := fst (fst (fst pv)).
Definition pv_n (pv : pvt) : nat := snd (fst (fst pv)).

(** the trace function the two closures build: WithContext #lw around the trace_dispatch of CustomizedPdb #lp,
    whose stdin and stdout are StdInOut #ls *)
Definition pdb_obj (ls lp : nat) : value :=
  VInst "CustomizedPdb" lp [("stdin"%string, VInst "StdInOut" ls []); ("stdout"%string, VInst "StdInOut" ls [])].
Definition tf_of (lw ls lp : nat) : value :=
  VInst "WithContext" lw [("trace"%string, VBound (pdb_obj ls lp) "trace_dispatch")].

(** the Pdb instance behind the entry of a trace number (None: the key of a thread / task without a trace) *)
Definition pdb_at (pv : pvt) (o : option Z) : option value :=
  match pv_map pv (enc_oz o) with
  | Some (VInst _ _ fs) => match find_str fs "trace" with Some (VBound self _) => Some self | _ => None end
  | _ => None
  end.

Record PInv (pv : pvt) : Prop := {
  pi_kind : snd (fst pv) = i_kinds st_init Local "_map";
  pi_fact : snd pv = i_attrs st_init PdbFactory "_factory";
  pi_shape : forall o v, pv_map pv (enc_oz o) = Some v ->
      exists lw ls lp, v = tf_of lw ls lp /\ (lw < pv_n pv)%nat /\ (ls < pv_n pv)%nat /\ (lp < pv_n pv)%nat;
  (* ONE Pdb and ONE StdInOut per key: two entries never share either *)
  pi_inj : forall o o' lw ls lp lw' ls' lp',
      pv_map pv (enc_oz o) = Some (tf_of lw ls lp) -> pv_map pv (enc_oz o') = Some (tf_of lw' ls' lp') ->
      lp = lp' \/ ls = ls' -> o = o'
}.

Lemma PInv_init : PInv (pview st_init).
Proof.
  constructor.
  - reflexivity.
  - reflexivity.
  - intros o v H. vm_compute in H. discriminate.
  - intros o o' lw ls lp lw' ls' lp' H. vm_compute in H. discriminate.
Qed.

Lemma veqb_enc_oz o o' : veqb (enc_oz o) (enc_oz o') = true <-> o = o'.
Proof.
  destruct o as [x|], o' as [y|]; simpl; split; intros H; try discriminate; try reflexivity.
  - apply Z.eqb_eq in H. congruence.
  - inversion H. apply Z.eqb_refl.
Qed.

Local Notation idsp := (idispatch program).

Ltac init_attr c n :=
  let k := eval vm_compute in (i_attrs st_init c n) in
  change (i_attrs st_init c n) with k.

Lemma dispatch_core : forall nl lp lt lm pv y s a x, Rsys lt lm pv y s -> PInv pv ->
  exists pv' y' r,
    idsp nl lp y a x = (y', r) /\ Rsys lt lm pv' y' s /\ PInv pv' /\
    r = pdb_at pv' (m_map s a) /\ r <> None /\
    (forall o, o <> m_map s a -> pv_map pv' (enc_oz o) = pv_map pv (enc_oz o)) /\
    (pv_map pv (enc_oz (m_map s a)) <> None -> pv' = pv).
Proof.
  intros nl lp lt lm pv y s [th ok] x [R Hs Hv] PI. unfold idispatch, FUEL.
  pose proof (Rst_clear_out _ _ _ _ R) as R0.
  destruct pv as [[[d n] k] f]. unfold pview in Hv. injection Hv as Hd Hn Hk Hf.
  destruct PI as [PK PF PS PJ]. unfold pv_map, pv_n in *. cbn [fst snd] in *.
  norm. dgo.
  match goal with |- context [pev (mkCx (?th, ?ok) ?nl ?lp) ?n0 ?st0 ?en0 (EHook "current_trace_no")] =>
    rewrite (eval_current_trace_no n0 th ok nl lp st0 en0 lt lm _ ltac:(lia) R0)
  end.
  dgo. rewrite Hd. set (t := m_map s (th, ok)) in *.
  destruct (d (enc_oz t)) as [v|] eqn:Ed.
  - destruct (PS t v Ed) as (lw & ls & lpp & -> & Hlw & Hls & Hlp).
    norm. dgo. rewrite Z.eqb_refl.
    exists (d, n, k, f). eexists. eexists. split; [reflexivity|].
    split; [constructor; [apply Rst_put_out; exact R0|exact Hs|unfold pview; cbn; rewrite Hd, Hn, Hk, Hf; reflexivity]|].
    split; [constructor; assumption|].
    split; [unfold pdb_at, pv_map; cbn [fst snd]; rewrite Ed; reflexivity|].
    split; [discriminate|]. split; [reflexivity|reflexivity].
  - rewrite Hk, PK. init_kind Local "_map"%string. dgo.
    rewrite Hf, PF. init_attr PdbFactory "_factory"%string. dgo.
    rewrite Z.eqb_refl.
    eexists. eexists. eexists. split; [reflexivity|].
    split; [constructor; [|exact Hs|reflexivity]|].
    { exact (Rst_put_out _ _ _ _ _ (Rst_local_entry _ _ _ _ _ _ (Rst_new_obj _ _ _ _ (Rst_new_obj _ _ _ _ (Rst_new_obj _ _ _ _ R0))))). }
    unfold pview, pdb_at, pv_map, pv_n. cbn -[veqb enc_oz]. rewrite Hd, Hn.
    fold (pdb_obj n (S n)). fold (tf_of (S (S n)) n (S n)).
    split; [constructor; unfold pv_map, pv_n; cbn -[veqb enc_oz]|].
    + rewrite Hk. exact PK.
    + rewrite Hf. exact PF.
    + intros o v H. destruct (veqb (enc_oz o) (enc_oz t)).
      * injection H as <-. exists (S (S n)), n, (S n). repeat split; lia.
      * destruct (PS o v H) as (lw & ls & lpp & -> & A & B & C). exists lw, ls, lpp. repeat split; lia.
    + intros o o' lw ls lpp lw' ls' lpp' H H'.
      destruct (veqb (enc_oz o) (enc_oz t)) eqn:E; destruct (veqb (enc_oz o') (enc_oz t)) eqn:E'.
      * intros _. apply veqb_enc_oz in E. apply veqb_enc_oz in E'. congruence.
      * intros D. exfalso. inversion H. destruct (PS o' _ H') as (a1 & a2 & a3 & Q & A & B & C). inversion Q. lia.
      * intros D. exfalso. inversion H'. destruct (PS o _ H) as (a1 & a2 & a3 & Q & A & B & C). inversion Q. lia.
      * eauto.
    + split; [rewrite (proj2 (veqb_enc_oz t t) eq_refl); reflexivity|].
      split; [discriminate|]. split; [|intros C; exfalso; apply C; reflexivity].
      intros o Ho. destruct (veqb (enc_oz o) (enc_oz t)) eqn:E; [apply veqb_enc_oz in E; contradiction|reflexivity].
Qed.

(** the call local_trace_func(frame=x, ..) in actor a reaches the Pdb stored under a's CURRENT TRACE NUMBER; if there
    is none yet, a new (StdInOut, CustomizedPdb) pair is created for that number and stored; nothing else changes *)
Theorem tie_dispatch : forall nl lp lt lm pv y s a x, Rsys lt lm pv y s -> PInv pv ->
  exists pv',
    Rsys lt lm pv' (fst (idsp nl lp y a x)) s /\ PInv pv' /\
    snd (idsp nl lp y a x) = pdb_at pv' (m_map s a) /\ snd (idsp nl lp y a x) <> None /\
    (forall o, o <> m_map s a -> pv_map pv' (enc_oz o) = pv_map pv (enc_oz o)) /\
    (pv_map pv (enc_oz (m_map s a)) <> None -> pv' = pv).
Proof.
  intros nl lp lt lm pv y s a x H PI.
  destruct (dispatch_core nl lp lt lm pv y s a x H PI) as (pv' & y' & r & E & H1 & H2 & H3 & H4 & H5 & H6).
  exists pv'. rewrite E. cbn [fst snd]. split; [exact H1|split; [exact H2|split; [exact H3|split; [exact H4|split; [exact H5|exact H6]]]]].
Qed.

(** ---- runs in which the numbering labels and calls of local_trace_func are interleaved *)
Inductive xlabel := XL (l : label) | XD (a : actor) (x : Z).

Definition xstep nl lp (y : sys) (xl : xlabel) : sys :=
  match xl with
  | XL l => fst (istp nl lp y l)
  | XD a x => fst (idsp nl lp y a x)
  end.
Fixpoint xexec nl lp (y : sys) (xls : list xlabel) : sys :=
  match xls with [] => y | xl :: r => xexec nl lp (xstep nl lp y xl) r end.
Fixpoint xproj (xls : list xlabel) : list label :=
  match xls with [] => [] | XL l :: r => l :: xproj r | XD _ _ :: r => xproj r end.
Fixpoint xouts nl lp (y : sys) (xls : list xlabel) : list out :=
  match xls with
  | [] => []
  | XL l :: r => snd (istp nl lp y l) :: xouts nl lp (xstep nl lp y (XL l)) r
  | XD a x :: r => xouts nl lp (xstep nl lp y (XD a x)) r
  end.

(** an entry of LocalTraceFunc._map, once there, is never replaced *)
Definition pv_le (pv pv' : pvt) : Prop :=
  forall o v, pv_map pv (enc_oz o) = Some v -> pv_map pv' (enc_oz o) = Some v.

Lemma dispatch_pv_le nl lp lt lm pv y s a x : Rsys lt lm pv y s -> PInv pv ->
  exists pv', Rsys lt lm pv' (fst (idsp nl lp y a x)) s /\ PInv pv' /\ pv_le pv pv' /\
              snd (idsp nl lp y a x) = pdb_at pv' (m_map s a) /\ snd (idsp nl lp y a x) <> None.
Proof.
  intros H PI. destruct (tie_dispatch nl lp lt lm pv y s a x H PI) as (pv' & H1 & H2 & H3 & H4 & H5 & H6).
  exists pv'. split; [exact H1|split; [exact H2|split; [|split; [exact H3|exact H4]]]].
  intros o v E. destruct (pv_map pv (enc_oz (m_map s a))) eqn:Em.
  - rewrite H6; [exact E|congruence].
  - assert (Hne : o <> m_map s a) by (intros ->; congruence). rewrite (H5 _ Hne). exact E.
Qed.

Theorem tie_xrun_from : forall nl lp lt lm xls pv y s tr, Rsys lt lm pv y s -> PInv pv -> Inv tr s ->
  exists pv' tr', Rsys lt lm pv' (xexec nl lp y xls) (exec_from s (xproj xls)) /\ PInv pv' /\ pv_le pv pv' /\
                  Inv tr' (exec_from s (xproj xls)) /\ xouts nl lp y xls = map snd (trace_from s (xproj xls)).
Proof.
  intros nl lp lt lm xls. induction xls as [|[l|a x] r IH]; intros pv y s tr H PI I.
  - exists pv, tr. split; [exact H|split; [exact PI|split; [intros o v E; exact E|split; [exact I|reflexivity]]]].
  - destruct (tie_step nl lp lt lm pv y s l H (Inv_Pre _ _ I)) as [H1 H2].
    destruct (IH _ _ _ _ H1 PI (Inv_step _ _ l I)) as (pv' & tr' & A & B & C & D & E).
    exists pv', tr'. cbn [xexec xstep xproj xouts exec_from trace_from map snd]. rewrite H2, E.
    split; [exact A|split; [exact B|split; [exact C|split; [exact D|reflexivity]]]].
  - destruct (dispatch_pv_le nl lp lt lm pv y s a x H PI) as (pv1 & A1 & B1 & C1 & _).
    destruct (IH _ _ _ _ A1 B1 I) as (pv' & tr' & A & B & C & D & E).
    exists pv', tr'. cbn [xexec xstep xproj xouts].
    split; [exact A|split; [exact B|split; [intros o v Ev; apply C, C1, Ev|split; [exact D|exact E]]]].
Qed.

(** from the initial state: the numbering labels of a run behave as in the model, whatever calls of local_trace_func
    are interleaved, and the one-debugger-per-key invariant holds at the end *)
Theorem tie_xrun : forall nl lp xls,
  exists lt lm pv tr, Rsys lt lm pv (xexec nl lp (iinit program) xls) (final (xproj xls)) /\ PInv pv /\
                      Inv tr (final (xproj xls)) /\ xouts nl lp (iinit program) xls = outs (xproj xls).
Proof.
  intros nl lp xls. destruct tie_init as (lt & lm & H).
  destruct (tie_xrun_from nl lp lt lm xls _ _ _ [] H PInv_init Inv_init) as (pv & tr & A & B & _ & D & E).
  exists lt, lm, pv, tr. split; [exact A|split; [exact B|split; [exact D|exact E]]].
Qed.

(** a trace number, once given, stays (one step of the model) *)
Lemma m_map_stable tr s l a t : Inv tr s -> m_map s a = Some t -> m_map (fst (step s l)) a = Some t.
Proof.
  intros I H. destruct l as [b|b|b x|b]; cbn [step].
  - destruct (k_set s b || k_pend s b); [exact H|].
    pose proof (composer_call_frame s b) as (_ & _ & _ & Hm). destruct (composer_call s b) as [s1 id]. cbn [fst] in *.
    cbn. rewrite Hm. exact H.
  - destruct (k_pend s b) eqn:Ep; [|exact H]. cbn. unfold updf.
    destruct (actor_eqb_spec a b) as [->|]; [|exact H].
    destruct (i_pend _ _ I _ Ep) as [_ Hn]. congruence.
  - exact H.
  - destruct (m_map s b); exact H.
Qed.

Lemma m_map_stable_run : forall ls tr s a t, Inv tr s -> m_map s a = Some t -> m_map (exec_from s ls) a = Some t.
Proof.
  induction ls as [|l r IH]; intros tr s a t I H; [exact H|].
  cbn [exec_from]. eapply IH; [apply (Inv_step _ _ l I)|eapply m_map_stable; eauto].
Qed.

(** TWO DIFFERENT started actors are never served by the same Pdb nor by the same StdInOut (for all related states) *)
Theorem tie_dispatch_separates : forall nl lp lt lm pv y s tr a b ta tb x x',
  Rsys lt lm pv y s -> PInv pv -> Inv tr s ->
  m_map s a = Some ta -> m_map s b = Some tb -> a <> b ->
  exists ls lpp ls' lpp',
    snd (idsp nl lp y a x) = Some (pdb_obj ls lpp) /\
    snd (idsp nl lp (fst (idsp nl lp y a x)) b x') = Some (pdb_obj ls' lpp') /\
    lpp <> lpp' /\ ls <> ls'.
Proof.
  intros nl lp lt lm pv y s tr a b ta tb x x' H PI I Ha Hb Hab.
  destruct (dispatch_pv_le nl lp lt lm pv y s a x H PI) as (pv1 & A1 & B1 & C1 & D1 & E1).
  destruct (dispatch_pv_le nl lp lt lm pv1 _ s b x' A1 B1) as (pv2 & A2 & B2 & C2 & D2 & E2).
  rewrite Ha in D1. rewrite Hb in D2. rewrite D1 in *. rewrite D2 in *. clear D1 D2.
  unfold pdb_at in *.
  destruct (pv_map pv1 (enc_oz (Some ta))) as [v1|] eqn:V1; [|congruence].
  destruct (pv_map pv2 (enc_oz (Some tb))) as [v2|] eqn:V2; [|congruence].
  pose proof (C2 _ _ V1) as V1'.
  destruct (pi_shape _ B2 _ _ V1') as (lw & ls & lpp & -> & _). destruct (pi_shape _ B2 _ _ V2) as (lw' & ls' & lpp' & -> & _).
  exists ls, lpp, ls', lpp'. cbn. split; [reflexivity|split; [reflexivity|split]].
  - intros ->. assert (Some ta = Some tb) by (eapply (pi_inj _ B2); eauto). 
    apply Hab. eapply (i_tr_inj _ _ I); [exact Ha|congruence].
  - intros ->. assert (Some ta = Some tb) by (eapply (pi_inj _ B2); eauto).
    apply Hab. eapply (i_tr_inj _ _ I); [exact Ha|congruence].
Qed.

(** the SAME actor is served by the same Pdb again, whatever happens in between (numbering labels of any actors,
    calls of local_trace_func of any actors) *)
Theorem tie_dispatch_same_pdb : forall nl lp lt lm pv y s tr a t x x' xls,
  Rsys lt lm pv y s -> PInv pv -> Inv tr s -> m_map s a = Some t ->
  snd (idsp nl lp (xexec nl lp (fst (idsp nl lp y a x)) xls) a x') = snd (idsp nl lp y a x).
Proof.
  intros nl lp lt lm pv y s tr a t x x' xls H PI I Ha.
  destruct (dispatch_pv_le nl lp lt lm pv y s a x H PI) as (pv1 & A1 & B1 & C1 & D1 & E1).
  destruct (tie_xrun_from nl lp lt lm xls _ _ _ _ A1 B1 I) as (pv2 & tr2 & A2 & B2 & C2 & I2 & _).
  destruct (dispatch_pv_le nl lp lt lm pv2 _ _ a x' A2 B2) as (pv3 & A3 & B3 & C3 & D3 & E3).
  rewrite D3, D1, (m_map_stable_run _ _ _ _ _ I Ha), Ha. rewrite D1, Ha in E1.
  unfold pdb_at in *. destruct (pv_map pv1 (enc_oz (Some t))) as [v|] eqn:V; [|congruence].
  rewrite (C3 _ _ (C2 _ _ V)). reflexivity.
Qed.
