(** Invariants of the numbering of threads, tasks and traces. *)
From NL Require Import Ids.Model.
Open Scope Z_scope.

Lemma oz_eqb_spec a b : reflect (a = b) (oz_eqb a b).
Proof.
  destruct a as [x|], b as [y|]; simpl; try (constructor; congruence).
  destruct (Z.eqb_spec x y); constructor; congruence.
Qed.

Lemma actor_eqb_spec (a b : actor) : reflect (a = b) (actor_eqb a b).
Proof.
  destruct a as [x k], b as [y k']. unfold actor_eqb. simpl.
  destruct (Z.eqb_spec x y); simpl; [|constructor; congruence].
  destruct (oz_eqb_spec k k'); constructor; congruence.
Qed.

Lemma actor_eqb_refl a : actor_eqb a a = true.
Proof. destruct (actor_eqb_spec a a); congruence. Qed.

(** ---- traces as lists *)
Lemma trace_from_app : forall a s b,
  trace_from s (a ++ b) = trace_from s a ++ trace_from (exec_from s a) b.
Proof. induction a; simpl; intros; [reflexivity | rewrite IHa; reflexivity]. Qed.
Lemma exec_from_app : forall a s b, exec_from s (a ++ b) = exec_from (exec_from s a) b.
Proof. induction a; simpl; intros; [reflexivity | apply IHa]. Qed.
Lemma trace_snoc ls l : trace (ls ++ [l]) = trace ls ++ [(l, snd (step (final ls) l))].
Proof. unfold trace, final. rewrite trace_from_app. reflexivity. Qed.
Lemma final_snoc ls l : final (ls ++ [l]) = fst (step (final ls) l).
Proof. unfold final. rewrite exec_from_app. reflexivity. Qed.

Lemma trace_split : forall ls s pre l o post,
  trace_from s ls = pre ++ (l, o) :: post ->
  exists l1 l2, ls = l1 ++ l :: l2 /\ pre = trace_from s l1 /\ o = snd (step (exec_from s l1) l).
Proof.
  induction ls as [|a ls IH]; intros s pre l o post H.
  - destruct pre; discriminate.
  - destruct pre as [|e pre]; simpl in H.
    + inversion H; subst. exists [], ls. repeat split.
    + inversion H; subst. destruct (IH _ _ _ _ _ H2) as (l1 & l2 & -> & -> & ->).
      exists (a :: l1), l2. repeat split.
Qed.

Lemma started_app tr tr' a :
  started (tr ++ tr') a = match started tr a with Some v => Some v | None => started tr' a end.
Proof.
  induction tr as [|[l o] tr IH]; simpl; [reflexivity|].
  destruct l; auto. destruct o; auto. destruct (actor_eqb a a0); auto.
Qed.

(** ---- the invariant *)
Record Inv (tr : list ev) (s : state) : Prop := {
  i_pos : 1 <= m_ctr s /\ 1 <= c_thread_ctr s /\ forall tn, 1 <= c_task_ctr s tn;
  i_tr_range : forall a t, m_map s a = Some t -> 1 <= t < m_ctr s;
  i_tr_inj : forall a b t, m_map s a = Some t -> m_map s b = Some t -> a = b;
  i_set : forall a, k_set s a = true <-> m_map s a <> None;
  i_started : forall a, started tr a =
      match m_map s a, c_map s a with Some t, Some id => Some (t, id) | _, _ => None end;
  i_set_cmap : forall a, m_map s a <> None -> c_map s a <> None;
  i_pend : forall a, k_pend s a = true -> c_map s a <> None /\ m_map s a = None;
  i_th_range : forall th n, c_thread_no s th = Some n -> 1 <= n < c_thread_ctr s;
  i_th_inj : forall th th' n, c_thread_no s th = Some n -> c_thread_no s th' = Some n -> th = th';
  i_tk : forall a kn, c_task_no s a = Some kn ->
      snd a <> None /\ exists tn, c_thread_no s (fst a) = Some tn /\ 1 <= kn < c_task_ctr s tn;
  i_tk_inj : forall a b kn, c_task_no s a = Some kn -> c_task_no s b = Some kn -> fst a = fst b -> a = b;
  i_cmap : forall a tn okn, c_map s a = Some (tn, okn) ->
      c_thread_no s (fst a) = Some tn /\
      match snd a with None => okn = None | Some _ => exists kn, okn = Some kn /\ c_task_no s a = Some kn end
}.

Lemma Inv_init : Inv [] init.
Proof. constructor; simpl; intros; try discriminate; try reflexivity; try congruence; [repeat split; intros; lia|split; intros; congruence]. Qed.

(** the composer part of the invariant, as a predicate on states *)
Record CInv (s : state) : Prop := {
  c_pos : 1 <= c_thread_ctr s /\ forall tn, 1 <= c_task_ctr s tn;
  c_th_range : forall th n, c_thread_no s th = Some n -> 1 <= n < c_thread_ctr s;
  c_th_inj : forall th th' n, c_thread_no s th = Some n -> c_thread_no s th' = Some n -> th = th';
  c_tk : forall a kn, c_task_no s a = Some kn ->
      snd a <> None /\ exists tn, c_thread_no s (fst a) = Some tn /\ 1 <= kn < c_task_ctr s tn;
  c_tk_inj : forall a b kn, c_task_no s a = Some kn -> c_task_no s b = Some kn -> fst a = fst b -> a = b;
  c_cmap : forall a tn okn, c_map s a = Some (tn, okn) ->
      c_thread_no s (fst a) = Some tn /\
      match snd a with None => okn = None | Some _ => exists kn, okn = Some kn /\ c_task_no s a = Some kn end
}.

Lemma Inv_CInv tr s : Inv tr s -> CInv s.
Proof. intros []. constructor; try assumption. tauto. Qed.

Ltac updz := unfold updf in *; repeat match goal with
  | H : context [Z.eqb ?a ?b] |- _ => destruct (Z.eqb_spec a b); subst
  | |- context [Z.eqb ?a ?b] => destruct (Z.eqb_spec a b); subst
  | H : context [actor_eqb ?a ?b] |- _ => destruct (actor_eqb_spec a b); subst
  | |- context [actor_eqb ?a ?b] => destruct (actor_eqb_spec a b); subst
  end.

(** thread number assignment (first half of _compose) *)
Definition with_thread (s : state) (th : Z) : state * Z :=
  match c_thread_no s th with
  | Some tn => (s, tn)
  | None =>
    (mkSt (k_set s) (k_pend s) (c_thread_ctr s + 1) (updf Z.eqb (c_thread_no s) th (Some (c_thread_ctr s)))
          (c_task_ctr s) (c_task_no s) (c_map s) (m_ctr s) (m_map s), c_thread_ctr s)
  end.

Lemma with_thread_inv s th : CInv s ->
  let '(s1, tn) := with_thread s th in
  CInv s1 /\ c_thread_no s1 th = Some tn /\ k_set s1 = k_set s /\ k_pend s1 = k_pend s /\ m_ctr s1 = m_ctr s /\ m_map s1 = m_map s /\
  c_map s1 = c_map s /\ c_task_no s1 = c_task_no s /\ c_task_ctr s1 = c_task_ctr s /\
  (forall x n, c_thread_no s x = Some n -> c_thread_no s1 x = Some n).
Proof.
  intros I. unfold with_thread. destruct (c_thread_no s th) as [tn|] eqn:E.
  - split; [exact I|]. repeat split; auto.
  - destruct I. split; [|repeat split; simpl; auto].
    + destruct c_pos0 as [P1 P2]. constructor; simpl; intros.
      * split; [lia|assumption].
      * updz. { inversion H; lia. } apply c_th_range0 in H. lia.
      * updz; auto; try solve [eauto];
          repeat match goal with H : Some _ = Some _ |- _ => inversion H; clear H; subst end;
          match goal with H : c_thread_no s _ = Some (c_thread_ctr s) |- _ => apply c_th_range0 in H; lia end.
      * destruct (c_tk0 _ _ H) as (A & tn & B & C). split; auto. exists tn. split; auto. updz; [congruence|assumption].
      * eauto.
      * destruct (c_cmap0 _ _ _ H) as (A & B). split; auto. updz; [congruence|assumption].
    + updz; congruence.
    + intros. updz; [congruence|assumption].
Qed.

Lemma compose_eq s a :
  compose s a =
  let '(s1, tn) := with_thread s (fst a) in
  match snd a with
  | None => (s1, (tn, None))
  | Some _ =>
    match c_task_no s1 a with
    | Some kn => (s1, (tn, Some kn))
    | None =>
      let kn := c_task_ctr s1 tn in
      (mkSt (k_set s1) (k_pend s1) (c_thread_ctr s1) (c_thread_no s1) (updf Z.eqb (c_task_ctr s1) tn (kn + 1))
            (updf actor_eqb (c_task_no s1) a (Some kn)) (c_map s1) (m_ctr s1) (m_map s1), (tn, Some kn))
    end
  end.
Proof. unfold compose, with_thread. destruct (c_thread_no s (fst a)); reflexivity. Qed.

(** what a fresh identifier looks like *)
Definition good_id (s : state) (a : actor) (id : ttid) : Prop :=
  c_thread_no s (fst a) = Some (fst id) /\
  match snd a with None => snd id = None | Some _ => exists kn, snd id = Some kn /\ c_task_no s a = Some kn end.

Lemma compose_inv s a : CInv s ->
  let '(s1, id) := compose s a in
  CInv s1 /\ good_id s1 a id /\ k_set s1 = k_set s /\ k_pend s1 = k_pend s /\ m_ctr s1 = m_ctr s /\ m_map s1 = m_map s /\ c_map s1 = c_map s.
Proof.
  intros I. rewrite compose_eq. pose proof (with_thread_inv s (fst a) I) as W.
  destruct (with_thread s (fst a)) as [s1 tn].
  destruct W as (I1 & Hth & Hk & Hkp & Hc & Hm & Hcm & Htk & Htc & Hmono).
  destruct a as [th [k|]]; simpl in *.
  2:{ split; [exact I1|]. repeat split; auto. }
  destruct (c_task_no s1 (th, Some k)) as [kn|] eqn:Ek.
  - split; [exact I1|]. repeat split; auto. simpl. eauto.
  - destruct I1. split; [|repeat split; simpl; auto].
    + destruct c_pos0 as [P1 P2]. constructor; simpl; eauto.
      * split; [assumption|]. intros x. unfold updf. destruct (Z.eqb_spec x tn); [specialize (P2 tn); lia|apply P2].
      * intros a' kn' H. unfold updf in H. destruct (actor_eqb_spec a' (th, Some k)).
        -- subst. inversion H; subst. split; [discriminate|]. exists tn. split; [exact Hth|].
           unfold updf. rewrite Z.eqb_refl. specialize (P2 tn). lia.
        -- destruct (c_tk0 _ _ H) as (A & tn' & B & C). split; auto. exists tn'. split; auto.
           unfold updf. destruct (Z.eqb_spec tn' tn); [subst|]; lia.
      * intros a' b' kn' H H0 H1. unfold updf in *.
        destruct (actor_eqb_spec a' (th, Some k)); destruct (actor_eqb_spec b' (th, Some k)); subst; auto.
        -- inversion H; subst. destruct (c_tk0 _ _ H0) as (_ & tn' & B & C). simpl in H1. rewrite <- H1 in B.
           rewrite Hth in B. inversion B; subst. lia.
        -- inversion H0; subst. destruct (c_tk0 _ _ H) as (_ & tn' & B & C). simpl in H1. rewrite H1 in B.
           rewrite Hth in B. inversion B; subst. lia.
        -- eauto.
      * intros a' tn' okn H. destruct (c_cmap0 _ _ _ H) as (A & B). split; auto.
        destruct a' as [th' [k'|]]; simpl in *; auto. destruct B as (kn & B1 & B2). exists kn. split; auto.
        unfold updf. destruct (actor_eqb_spec (th', Some k') (th, Some k)); [congruence|assumption].
    + exists (c_task_ctr s1 tn). split; auto. unfold updf. rewrite actor_eqb_refl. reflexivity.
Qed.

Lemma composer_call_inv s a : CInv s ->
  let '(s1, id) := composer_call s a in
  CInv s1 /\ c_map s1 a = Some id /\ k_set s1 = k_set s /\ k_pend s1 = k_pend s /\ m_ctr s1 = m_ctr s /\ m_map s1 = m_map s /\
  (forall b, b <> a -> c_map s1 b = c_map s b) /\ (forall b id', c_map s b = Some id' -> c_map s1 b = Some id').
Proof.
  intros I. unfold composer_call. destruct (c_map s a) as [id|] eqn:E.
  - split; [exact I|]. repeat split; auto.
  - pose proof (compose_inv s a I) as W. destruct (compose s a) as [s1 id].
    destruct W as (I1 & G & Hk & Hkp & Hc & Hm & Hcm). destruct I1. split; [|repeat split; simpl; auto].
    + constructor; simpl; eauto. intros a' tn okn H. unfold updf in H.
      destruct (actor_eqb_spec a' a); [|eauto].
      subst. inversion H; subst. destruct G as [G1 G2]. simpl in *. split; auto.
    + updz; congruence.
    + intros. updz; congruence.
    + intros. updz; [congruence|]. rewrite Hcm. assumption.
Qed.

Definition is_start (e : ev) : bool :=
  match e with (Mapped _, OStart _ _ _) => true | _ => false end.

Lemma Inv_silent tr s e : is_start e = false -> Inv tr s -> Inv (tr ++ [e]) s.
Proof.
  intros He I. destruct I. constructor; auto.
  intros a. rewrite started_app, i_started0.
  destruct (m_map s a), (c_map s a); auto; destruct e as [[] []]; simpl in *; auto; discriminate.
Qed.

Lemma Inv_step tr s l : Inv tr s -> Inv (tr ++ [(l, snd (step s l))]) (fst (step s l)).
Proof.
  intros I. destruct l as [a|a|a x|a].
  3:{ simpl. apply Inv_silent; auto. }
  3:{ simpl. destruct (m_map s a); simpl; apply Inv_silent; auto. }
  - (* Filtered: thread / task numbers *)
    simpl. destruct (k_set s a || k_pend s a) eqn:Ek; [simpl; apply Inv_silent; auto|].
    apply orb_false_iff in Ek. destruct Ek as [Ek Ep].
    pose proof (composer_call_inv s a (Inv_CInv _ _ I)) as W.
    destruct (composer_call s a) as [s1 id]. destruct W as (C1 & Hid & Hk & Hkp & Hc & Hm & Hother & Hmono).
    assert (Hma : m_map s a = None).
    { destruct (m_map s a) eqn:E; auto. assert (k_set s a = true) by (apply (i_set _ _ I); congruence). congruence. }
    simpl. apply Inv_silent; [reflexivity|].
    destruct I. destruct i_pos0 as (P1 & P2 & P3). destruct C1. simpl.
    constructor; simpl; eauto.
    + rewrite Hc. repeat split; try lia; tauto.
    + intros b t H. rewrite Hm in H. rewrite Hc. eauto.
    + intros b b' t H H0. rewrite Hm in *. eauto.
    + intros b. rewrite Hk, Hm. apply i_set0.
    + intros b. rewrite i_started0, Hm. destruct (actor_eqb_spec b a).
      * subst. rewrite Hma. reflexivity.
      * rewrite (Hother _ n). reflexivity.
    + intros b H. rewrite Hm in H. apply i_set_cmap0 in H. destruct (c_map s b) eqn:E; [|congruence].
      rewrite (Hmono _ _ E). discriminate.
    + intros b H. unfold updf in H. rewrite Hm. destruct (actor_eqb_spec b a).
      * subst. split; [congruence|assumption].
      * rewrite Hkp in H. destruct (i_pend0 _ H) as [A B]. split; auto.
        destruct (c_map s b) eqn:E; [|congruence]. rewrite (Hmono _ _ E). discriminate.
  - (* Mapped: trace number, OnStartTrace *)
    simpl. destruct (k_pend s a) eqn:Ep; [|simpl; apply Inv_silent; auto].
    destruct (i_pend _ _ I _ Ep) as [Hca Hma].
    destruct (c_map s a) as [id|] eqn:Eid; [|congruence].
    destruct I. destruct i_pos0 as (P1 & P2 & P3). simpl.
    constructor; simpl; eauto.
    + repeat split; try lia; tauto.
    + intros b t H. unfold updf in H. destruct (actor_eqb_spec b a).
      * inversion H; subst. lia.
      * apply i_tr_range0 in H. lia.
    + intros b b' t H H0. unfold updf in *.
      destruct (actor_eqb_spec b a); destruct (actor_eqb_spec b' a); subst; auto.
      * inversion H; subst. apply i_tr_range0 in H0. lia.
      * inversion H0; subst. apply i_tr_range0 in H. lia.
      * eauto.
    + intros b. unfold updf. destruct (actor_eqb_spec b a); [split; intros; congruence|apply i_set0].
    + intros b. rewrite started_app, i_started0. simpl. unfold updf.
      destruct (actor_eqb_spec b a).
      * subst. rewrite Hma, Eid. destruct id; reflexivity.
      * destruct (m_map s b), (c_map s b); reflexivity.
    + intros b H. unfold updf in H. destruct (actor_eqb_spec b a); [subst; congruence|eauto].
    + intros b H. unfold updf in *. destruct (actor_eqb_spec b a); [discriminate|eauto].
Qed.

Theorem Inv_reach : forall ls, Inv (trace ls) (final ls).
Proof.
  induction ls using rev_ind.
  - apply Inv_init.
  - rewrite trace_snoc, final_snoc. apply Inv_step. assumption.
Qed.

(** ---- consequences, in terms of the history only *)

Lemma started_maps ls a t id :
  started (trace ls) a = Some (t, id) -> m_map (final ls) a = Some t /\ c_map (final ls) a = Some id.
Proof.
  intros H. rewrite (i_started _ _ (Inv_reach ls)) in H.
  destruct (m_map (final ls) a), (c_map (final ls) a); inversion H; auto.
Qed.

Theorem trace_no_injective : forall ls a b ta ida tb idb,
  started (trace ls) a = Some (ta, ida) -> started (trace ls) b = Some (tb, idb) ->
  (a = b <-> ta = tb).
Proof.
  intros ls a b ta ida tb idb Ha Hb.
  apply started_maps in Ha. apply started_maps in Hb. destruct Ha as [Ha _], Hb as [Hb _]. split.
  - intros ->. congruence.
  - intros ->. eapply (i_tr_inj _ _ (Inv_reach ls)); eauto.
Qed.

Theorem thread_task_pair_identifies : forall ls a b ta na ka tb nb kb,
  started (trace ls) a = Some (ta, (na, ka)) -> started (trace ls) b = Some (tb, (nb, kb)) ->
  (fst a = fst b <-> na = nb) /\
  (fst a = fst b -> a <> b -> ka <> kb) /\
  ((na, ka) = (nb, kb) -> a = b) /\
  (snd a = None <-> ka = None).
Proof.
  intros ls a b ta na ka tb nb kb Ha Hb.
  apply started_maps in Ha. apply started_maps in Hb. destruct Ha as [_ Ha], Hb as [_ Hb].
  pose proof (Inv_reach ls) as I.
  destruct (i_cmap _ _ I _ _ _ Ha) as (A1 & A2). destruct (i_cmap _ _ I _ _ _ Hb) as (B1 & B2).
  assert (Hthread : fst a = fst b <-> na = nb).
  { split; [intros E; rewrite E in A1; congruence|intros ->; eapply (i_th_inj _ _ I); eauto]. }
  assert (Hpair : fst a = fst b -> ka = kb -> a = b).
  { intros E1 E2. destruct a as [th [k|]], b as [th' [k'|]]; simpl in *; subst th'; subst kb.
    - destruct A2 as (kn & Ek & A2). destruct B2 as (kn' & Ek' & B2). rewrite Ek in Ek'. inversion Ek'; subst kn'.
      eapply (i_tk_inj _ _ I); eauto.
    - destruct A2 as (kn & Ek & _); congruence.
    - destruct B2 as (kn & Ek & _); congruence.
    - reflexivity. }
  repeat split.
  - apply Hthread.
  - apply Hthread.
  - intros E Hne Hk. apply Hne. apply Hpair; assumption.
  - intros E. inversion E; subst. apply Hpair; auto. apply Hthread. reflexivity.
  - intros E. rewrite E in A2. assumption.
  - intros ->. destruct (snd a); auto. destruct A2 as (kn & E & _). discriminate.
Qed.

(** every event produced by an actor carries the trace number given to that
    actor when it started (none if it has not started) *)
Theorem attribution : forall ls pre a x o post,
  trace ls = pre ++ (Emit a x, o) :: post ->
  o = OEv (option_map fst (started pre a)) x.
Proof.
  intros ls pre a x o post H.
  destruct (trace_split _ _ _ _ _ _ H) as (l1 & l2 & -> & -> & ->).
  simpl. fold (trace l1). fold (final l1). rewrite (i_started _ _ (Inv_reach l1)).
  destruct (m_map (final l1) a) eqn:E; simpl.
  - pose proof (i_set_cmap _ _ (Inv_reach l1) a) as Hc. rewrite E in Hc.
    destruct (c_map (final l1) a); [reflexivity|exfalso; apply Hc; [discriminate|reflexivity]].
  - reflexivity.
Qed.

(** the numbers of an actor never change once given *)
Theorem started_stable : forall pre post a v, started pre a = Some v -> started (pre ++ post) a = Some v.
Proof. intros. rewrite started_app, H. reflexivity. Qed.

(** OnEndTrace carries the actor's trace number *)
Theorem end_attribution : forall ls pre a o post,
  trace ls = pre ++ (End a, o) :: post ->
  o = match started pre a with Some (t, _) => OEnd t | None => OErr end.
Proof.
  intros ls pre a o post H.
  destruct (trace_split _ _ _ _ _ _ H) as (l1 & l2 & -> & -> & ->).
  simpl. fold (trace l1). fold (final l1). rewrite (i_started _ _ (Inv_reach l1)).
  destruct (m_map (final l1) a) eqn:E; simpl; [|reflexivity].
  pose proof (i_set_cmap _ _ (Inv_reach l1) a) as Hc. rewrite E in Hc.
  destruct (c_map (final l1) a); [reflexivity|exfalso; apply Hc; [discriminate|reflexivity]].
Qed.

(** an actor starts at most once, and the trace numbers given are 1, 2, 3, ... *)
Theorem start_numbers : forall ls, map (fun x => fst (snd x)) (starts (trace ls)) = map Z.of_nat (seq 1 (length (starts (trace ls)))).
Proof.
  intros ls.
  assert (H : map (fun x => fst (snd x)) (starts (trace ls)) = map Z.of_nat (seq 1 (length (starts (trace ls))))
              /\ m_ctr (final ls) = Z.of_nat (S (length (starts (trace ls))))).
  { induction ls using rev_ind; [split; reflexivity|].
    destruct IHls as [IH1 IH2]. rewrite trace_snoc, final_snoc.
    assert (Happ : forall a b, starts (a ++ b) = starts a ++ starts b).
    { induction a as [|[[] []] a IHa]; intros; simpl; rewrite ?IHa; reflexivity. }
    rewrite Happ. destruct x as [a|a|a y|a]; simpl.
    - destruct (k_set (final ls) a || k_pend (final ls) a) eqn:Ek; simpl; [rewrite app_nil_r; auto|].
      pose proof (composer_call_inv (final ls) a (Inv_CInv _ _ (Inv_reach ls))) as W.
      destruct (composer_call (final ls) a) as [s1 id]. destruct W as (_ & _ & _ & _ & Hc & _). simpl.
      rewrite app_nil_r, Hc. auto.
    - destruct (k_pend (final ls) a); simpl; [|rewrite app_nil_r; auto].
      rewrite app_length, map_app. simpl. rewrite Nat.add_1_r, seq_S, map_app, <- IH1. simpl.
      rewrite IH2. split; [reflexivity|lia].
    - rewrite app_nil_r. auto.
    - destruct (m_map (final ls) a); simpl; rewrite app_nil_r; auto. }
  apply H.
Qed.
