(** An interpreter for the syntax of Ids/Syntax.v (executable definitions, plus the one-line
    unfolding equations eval_S / exec_S / drive_* that Ids/Tie.v steps with; [eval_body] /
    [exec_body] / [drive_k] are one level of the evaluator, open in their recursive calls, so that
    a symbolic run can be unfolded one level at a time).

    Objects.  Each of the four classes has ONE instance; `self.<name>` of class c is the
    attribute (c, name).  Containers (WeakKeyDictionary / defaultdict / WeakSet) are finite
    maps from values to values held per (class, attribute); a weak container keeps an entry
    as long as its key object is alive and object identities are never re-used (the same
    reading as Ids/Model.v).  Counter objects (`XNoCounter(n)`) live in a heap: creating one
    allocates a new location, calling one returns its next value and advances it; a counter
    is a first-class value, so the term shows where it is kept and by which key it is found.

    The executing thread / task.  A body runs "in" an actor (thread, optional task):
    `current_thread()` is the thread, `asyncio.current_task()` is the task, or None, or --
    when the thread runs no event loop ([cx_noloop]) -- raises RuntimeError.
    `task.get_loop()` is an arbitrary function [cx_loop] of the task.

    Hooks.  `self._hook.hook.h(k=v)` as a STATEMENT suspends the running method: [exec]
    returns [RHook] with the frames that remain.  The driver [drive] then runs every
    implementation of h found in the regenerated @hookimpl table and resumes the frames --
    except at a hook the caller declares a preemption point ([cut]), where the frames are
    handed back.  That is how the two halves of the start of a trace (labels Filtered and
    Mapped of Ids/Model.v: other threads run between `self._counter()` of the keeper and
    `self._counter()` of the mapper) are obtained from ONE method body.  A hook read inside
    an expression (`self._hook.hook.current_thread_no()`) calls the first implementation. *)
From NL Require Export Ids.Syntax Ids.Model.
Open Scope string_scope.
Open Scope list_scope.
Open Scope Z_scope.

Inductive value :=
| VNone | VBool (b : bool) | VInt (z : Z)
| VThread (th : Z)                   (* a threading.Thread object *)
| VTask (th k : Z)                   (* an asyncio.Task object (it runs in thread th) *)
| VLoop (l : Z)                      (* an event loop *)
| VId (tn kn : value)                (* ThreadTaskId(thread_no, task_no) *)
| VPair (a b : value)
| VCtr (loc : nat)                   (* a counter object *)
| VObj (c : cls)                     (* the instance of class c *)
| VEvent (name : string) (fields : list (string * value))
| VInst (kind : string) (loc : nat) (fields : list (string * value))   (* an object of a class not looked into (a Pdb, its StdInOut) *)
| VBound (self : value) (m : string)  (* a bound method / attribute of such an object: pdb.trace_dispatch *)
| VFun (f : string).                  (* a closure: a translated parameterless function *)

Definition cls_eqb (a b : cls) : bool :=
  match a, b with
  | Keeper, Keeper | Composer, Composer | Mapper, Mapper | Repeater, Repeater | Local, Local | PdbFactory, PdbFactory => true
  | _, _ => false
  end.

Fixpoint veqb (a b : value) : bool :=
  match a, b with
  | VNone, VNone => true
  | VBool x, VBool y => Bool.eqb x y
  | VInt x, VInt y => Z.eqb x y
  | VThread x, VThread y => Z.eqb x y
  | VTask x k, VTask y k' => Z.eqb x y && Z.eqb k k'
  | VLoop x, VLoop y => Z.eqb x y
  | VId a1 a2, VId b1 b2 => veqb a1 b1 && veqb a2 b2
  | VPair a1 a2, VPair b1 b2 => veqb a1 b1 && veqb a2 b2
  | VCtr x, VCtr y => Nat.eqb x y
  | VObj c, VObj c' => cls_eqb c c'
  | VInst k l _, VInst k' l' _ => String.eqb k k' && Nat.eqb l l'      (* identity: the class and the allocation number *)
  | VBound a1 m, VBound b1 m' => veqb a1 b1 && String.eqb m m'
  | VFun f, VFun f' => String.eqb f f'
  | _, _ => false
  end.

(** Python truth value *)
Definition truthy (v : value) : bool :=
  match v with
  | VNone => false
  | VBool b => b
  | VInt z => negb (Z.eqb z 0)
  | _ => true
  end.

Definition env := string -> option value.
Definition eempty : env := fun _ => None.
Definition eupd (en : env) (x : string) (v : value) : env := fun y => if String.eqb y x then Some v else en y.

Notation frame := (stmt * env)%type.

Record istate := mkI {
  i_attrs : cls -> string -> value;
  i_dicts : cls -> string -> value -> option value;
  i_kinds : cls -> string -> option ckind;
  i_heap : nat -> Z;                     (* counter objects: location -> next value *)
  i_next : nat;                          (* next free location *)
  i_out : list value;                    (* events put to queue_out / calls of trace functions, newest first *)
  i_nobj : nat                           (* number of opaque objects (StdInOut, CustomizedPdb, ..) created so far *)
}.

Definition st0 : istate :=
  mkI (fun _ _ => VNone) (fun _ _ _ => None) (fun _ _ => None) (fun _ => 0) 0%nat [] 0%nat.

Definition same_ref (c : cls) (n : string) (c' : cls) (n' : string) : bool := cls_eqb c c' && String.eqb n n'.

Definition set_attr (st : istate) (c : cls) (n : string) (v : value) : istate :=
  mkI (fun c' n' => if same_ref c' n' c n then v else i_attrs st c' n') (i_dicts st) (i_kinds st) (i_heap st) (i_next st) (i_out st) (i_nobj st).
Definition set_entry (st : istate) (d : cref) (k : value) (ov : option value) : istate :=
  mkI (i_attrs st)
      (fun c' n' x => if same_ref c' n' (fst d) (snd d) then (if veqb x k then ov else i_dicts st c' n' x) else i_dicts st c' n' x)
      (i_kinds st) (i_heap st) (i_next st) (i_out st) (i_nobj st).
Definition set_container (st : istate) (d : cref) (k : option ckind) : istate :=
  mkI (i_attrs st)
      (fun c' n' x => if same_ref c' n' (fst d) (snd d) then None else i_dicts st c' n' x)
      (fun c' n' => if same_ref c' n' (fst d) (snd d) then k else i_kinds st c' n')
      (i_heap st) (i_next st) (i_out st) (i_nobj st).
Definition clear_container (st : istate) (d : cref) : istate :=
  mkI (i_attrs st)
      (fun c' n' x => if same_ref c' n' (fst d) (snd d) then None else i_dicts st c' n' x)
      (i_kinds st) (i_heap st) (i_next st) (i_out st) (i_nobj st).
Definition set_heap (st : istate) (l : nat) (z : Z) : istate :=
  mkI (i_attrs st) (i_dicts st) (i_kinds st) (fun l' => if Nat.eqb l' l then z else i_heap st l') (i_next st) (i_out st) (i_nobj st).
Definition alloc (st : istate) (z : Z) : istate * nat :=
  (mkI (i_attrs st) (i_dicts st) (i_kinds st) (fun l' => if Nat.eqb l' (i_next st) then z else i_heap st l') (S (i_next st)) (i_out st) (i_nobj st),
   i_next st).
Definition put_out (st : istate) (v : value) : istate :=
  mkI (i_attrs st) (i_dicts st) (i_kinds st) (i_heap st) (i_next st) (v :: i_out st) (i_nobj st).
Definition clear_out (st : istate) : istate :=
  mkI (i_attrs st) (i_dicts st) (i_kinds st) (i_heap st) (i_next st) [] (i_nobj st).
Definition new_obj (st : istate) : istate * nat :=
  (mkI (i_attrs st) (i_dicts st) (i_kinds st) (i_heap st) (i_next st) (i_out st) (S (i_nobj st)), i_nobj st).
Definition lookup (st : istate) (d : cref) (k : value) : option value := i_dicts st (fst d) (snd d) k.

(** who is executing *)
Record ctx := mkCx {
  cx_actor : actor;
  cx_noloop : bool;               (* asyncio.current_task() raises RuntimeError (no running loop) when there is no task *)
  cx_loop : Z -> Z -> Z           (* the event loop of task (th, k) *)
}.

Definition aval (a : actor) : value :=
  match snd a with Some k => VTask (fst a) k | None => VThread (fst a) end.

Inductive eres :=
| EV (st : istate) (en : env) (v : value)
| EExc (st : istate) (exc : string)         (* a Python exception *)
| EBad (why : string).                      (* the interpreter is stuck: ill-typed, unbound, out of fuel, unsupported *)

Inductive sres :=
| RNorm (st : istate) (en : env)
| RRet (st : istate) (v : value)
| RExc (st : istate) (exc : string)
| RHook (st : istate) (h : string) (kw : list (string * value)) (inner : list frame) (cur : stmt) (en : env)
| RBad (why : string).

Fixpoint find_method (ms : list (cls * string * (list string * stmt))) (c : cls) (m : string) : option (list string * stmt) :=
  match ms with
  | [] => None
  | ((c', m'), pb) :: r => if same_ref c m c' m' then Some pb else find_method r c m
  end.
Fixpoint find_str {A} (l : list (string * A)) (x : string) : option A :=
  match l with
  | [] => None
  | (y, v) :: r => if String.eqb x y then Some v else find_str r x
  end.
Fixpoint bind_params (ps : list string) (vs : list value) (en : env) : option env :=
  match ps, vs with
  | [], [] => Some en
  | p :: ps, v :: vs => bind_params ps vs (eupd en p v)
  | _, _ => None
  end.
Fixpoint bind_kw (ps : list string) (kw : list (string * value)) (en : env) : option env :=
  match ps with
  | [] => Some en
  | p :: ps => match find_str kw p with Some v => bind_kw ps kw (eupd en p v) | None => None end
  end.

Section Interp.
Variable P : prog.

Section InCtx.
Variable cx : ctx.

(** argument lists, left to right *)
Fixpoint eval_list (ev : istate -> env -> expr -> eres) (st : istate) (en : env) (es : list expr) (acc : list value)
  : istate * env * list value + eres :=
  match es with
  | [] => inl (st, en, rev acc)
  | e :: r => match ev st en e with EV st' en' v => eval_list ev st' en' r (v :: acc) | other => inr other end
  end.

(** self.m(vs) inside an expression: the callee gets its own locals, the caller keeps [en] *)
Definition call_method (exb : istate -> env -> stmt -> sres) (st : istate) (en : env) (c : cls) (m : string) (vs : list value) : eres :=
  match find_method (p_methods P) c m with
  | None => EBad "no such method"
  | Some (ps, body) =>
    match bind_params ps vs eempty with
    | None => EBad "arity"
    | Some en' =>
      match exb st en' body with
      | RNorm st' _ => EV st' en VNone
      | RRet st' v => EV st' en v
      | RExc st' x => EExc st' x
      | RHook _ _ _ _ _ _ => EBad "hook call inside an expression"
      | RBad w => EBad w
      end
    end
  end.

Definition lift (r : eres) (k : istate -> env -> value -> sres) : sres :=
  match r with EV st' en' v => k st' en' v | EExc st' x => RExc st' x | EBad w => RBad w end.

(** one level of the evaluator, open in its recursive calls: [ev] / [exb] evaluate sub-expressions /
    run callee bodies with the remaining fuel *)
Definition eval_body (ev : istate -> env -> expr -> eres) (exb : istate -> env -> stmt -> sres)
    (st : istate) (en : env) (e : expr) : eres :=
    match e with
    | ENone => EV st en VNone
    | EBool b => EV st en (VBool b)
    | EInt z => EV st en (VInt z)
    | EVar x => match en x with Some v => EV st en v | None => EBad "unbound local" end
    | EAttr c name => EV st en (i_attrs st c name)
    | EField e f =>
      match ev st en e with
      | EV st' en' (VId tn kn) =>
        if String.eqb f "thread_no" then EV st' en' tn else if String.eqb f "task_no" then EV st' en' kn else EBad "field"
      | EV st' en' (VInst k l fs) =>
        EV st' en' (match find_str fs f with Some v => v | None => VBound (VInst k l fs) f end)
      | EV _ _ _ => EBad "field of a non-id"
      | other => other
      end
    | ECurrentThread => EV st en (VThread (fst (cx_actor cx)))
    | ECurrentTask =>
      match snd (cx_actor cx) with
      | Some k => EV st en (VTask (fst (cx_actor cx)) k)
      | None => if cx_noloop cx then EExc st "RuntimeError" else EV st en VNone
      end
    | EGetLoop e =>
      match ev st en e with
      | EV st' en' (VTask th k) => EV st' en' (VLoop (cx_loop cx th k))
      | EV _ _ _ => EBad "get_loop of a non-task"
      | other => other
      end
    | EFunc f =>
      match find_str (p_functions P) f with
      | None => EBad "no such function"
      | Some body =>
        match exb st eempty body with
        | RNorm st' _ => EV st' en VNone
        | RRet st' v => EV st' en v
        | RExc st' x => EExc st' x
        | RHook _ _ _ _ _ _ => EBad "hook call inside an expression"
        | RBad w => EBad w
        end
      end
    | EOr a b =>
      match ev st en a with
      | EV st' en' v => if truthy v then EV st' en' v else ev st' en' b
      | other => other
      end
    | EAnd a b =>
      match ev st en a with
      | EV st' en' v => if truthy v then ev st' en' b else EV st' en' v
      | other => other
      end
    | ENot a =>
      match ev st en a with
      | EV st' en' v => EV st' en' (VBool (negb (truthy v)))
      | other => other
      end
    | EIs a b | EEq a b =>
      match ev st en a with
      | EV st1 en1 va => match ev st1 en1 b with EV st2 en2 vb => EV st2 en2 (VBool (veqb va vb)) | other => other end
      | other => other
      end
    | EIsNot a b =>
      match ev st en a with
      | EV st1 en1 va => match ev st1 en1 b with EV st2 en2 vb => EV st2 en2 (VBool (negb (veqb va vb))) | other => other end
      | other => other
      end
    | EWalrus x e =>
      match ev st en e with
      | EV st' en' v => EV st' (eupd en' x v) v
      | other => other
      end
    | ETuple a b =>
      match ev st en a with
      | EV st1 en1 va => match ev st1 en1 b with EV st2 en2 vb => EV st2 en2 (VPair va vb) | other => other end
      | other => other
      end
    | EMkId a b =>
      match ev st en a with
      | EV st1 en1 va => match ev st1 en1 b with EV st2 en2 vb => EV st2 en2 (VId va vb) | other => other end
      | other => other
      end
    | EEvent name fields =>
      match eval_list ev st en (map snd fields) [] with
      | inl (st', en', vs) => EV st' en' (VEvent name (combine (map fst fields) vs))
      | inr other => other
      end
    | EGet d k =>
      match ev st en k with
      | EV st' en' vk => EV st' en' (match lookup st' d vk with Some v => v | None => VNone end)
      | other => other
      end
    | EGetD d k dflt =>
      match ev st en k with
      | EV st1 en1 vk =>
        match ev st1 en1 dflt with
        | EV st2 en2 vd => EV st2 en2 (match lookup st2 d vk with Some v => v | None => vd end)
        | other => other
        end
      | other => other
      end
    | EItem d k =>
      match ev st en k with
      | EV st' en' vk =>
        match lookup st' d vk with
        | Some v => EV st' en' v
        | None =>
          match i_kinds st' (fst d) (snd d) with
          | Some (KDefault f) =>
            match ev st' eempty f with
            | EV st2 _ v => EV (set_entry st2 d vk (Some v)) en' v
            | other => other
            end
          | Some KDict => EExc st' "KeyError"
          | _ => EBad "[] of a non-dict"
          end
        end
      | other => other
      end
    | EIn k d =>
      match ev st en k with
      | EV st' en' vk => EV st' en' (VBool (match lookup st' d vk with Some _ => true | None => false end))
      | other => other
      end
    | ENotIn k d =>
      match ev st en k with
      | EV st' en' vk => EV st' en' (VBool (match lookup st' d vk with Some _ => false | None => true end))
      | other => other
      end
    | EPop d k =>
      match ev st en k with
      | EV st' en' vk =>
        match lookup st' d vk with
        | Some v => EV (set_entry st' d vk None) en' v
        | None => EExc st' "KeyError"
        end
      | other => other
      end
    | EPopD d k dflt =>
      match ev st en k with
      | EV st1 en1 vk =>
        match ev st1 en1 dflt with
        | EV st2 en2 vd =>
          match lookup st2 d vk with
          | Some v => EV (set_entry st2 d vk None) en2 v
          | None => EV st2 en2 vd
          end
        | other => other
        end
      | other => other
      end
    | ESetDefault d k v =>
      match ev st en k with
      | EV st1 en1 vk =>
        match ev st1 en1 v with
        | EV st2 en2 vv =>
          match lookup st2 d vk with
          | Some old => EV st2 en2 old
          | None => EV (set_entry st2 d vk (Some vv)) en2 vv
          end
        | other => other
        end
      | other => other
      end
    | ECall f =>
      match ev st en f with
      | EV st' en' (VCtr l) => EV (set_heap st' l (i_heap st' l + 1)) en' (VInt (i_heap st' l))
      | EV st' en' (VObj c) =>
        match call_method exb st' en c "__call__" [] with
        | EV st2 _ v => EV st2 en' v
        | other => other
        end
      | EV st' en' (VFun g) =>
        match find_str (p_functions P) g with
        | None => EBad "no such function"
        | Some body =>
          match exb st' eempty body with
          | RNorm st2 _ => EV st2 en' VNone
          | RRet st2 v => EV st2 en' v
          | RExc st2 x => EExc st2 x
          | RHook _ _ _ _ _ _ => EBad "hook call inside an expression"
          | RBad w => EBad w
          end
        end
      | EV _ _ _ => EBad "call of a non-callable"
      | other => other
      end
    | EMethod c m args =>
      match eval_list ev st en args [] with
      | inl (st', en', vs) =>
        match call_method exb st' en c m vs with
        | EV st2 _ v => EV st2 en' v
        | other => other
        end
      | inr other => other
      end
    | EHook h =>
      match find_str (p_hookimpls P) h with
      | Some c => call_method exb st en c h []
      | None => EBad "no implementation of the hook"
      end
    | ENewCounter ctor args =>
      match eval_list ev st en args [] with
      | inl (st', en', vs) =>
        match find_str (p_counters P) ctor with
        | None => EBad "no such counter constructor"
        | Some cd =>
          let ostart := match vs with [VInt z] => Some z | [] => cd_default cd | _ => None end in
          match ostart with
          | None => EBad "counter constructor arguments"
          | Some start =>
            if Z.eqb (cd_step cd) 1 then
              let from := match cd_from cd with CFromParam => start | CFromConst z => z end in
              let '(st2, l) := alloc st' from in EV st2 en' (VCtr l)
            else EBad "itertools.count with a step other than 1"
          end
        end
      | inr other => other
      end
    | ENewObj c =>
      match call_method exb st en c "__init__" [] with
      | EV st' _ _ => EV st' en (VObj c)
      | other => other
      end
    | ENewInst kind fields =>
      match eval_list ev st en (map snd fields) [] with
      | inl (st', en', vs) => let '(st2, l) := new_obj st' in EV st2 en' (VInst kind l (combine (map fst fields) vs))
      | inr other => other
      end
    | EFunRef f => EV st en (VFun f)
    | ECallArgs f args =>
      match ev st en f with
      | EV st1 en1 vf =>
        match eval_list ev st1 en1 args [] with
        | inl (st2, en2, vs) =>
          (* WithContext(trace, ..) calls `trace` with the same arguments *)
          let target := match vf with
                        | VInst k _ fs => if String.eqb k "WithContext" then match find_str fs "trace" with Some t => t | None => VNone end else vf
                        | _ => vf
                        end in
          match target with
          | VBound self m => EV (put_out st2 (VEvent m [("self", self); ("arg", hd VNone vs)])) en2 VNone
          | _ => EBad "call of something that is not a trace function"
          end
        | inr other => other
        end
      | other => other
      end
    end.

Definition exec_body (ev : istate -> env -> expr -> eres) (exb : istate -> env -> stmt -> sres)
    (st : istate) (en : env) (s : stmt) : sres :=
    match s with
    | SSkip => RNorm st en
    | SSeq a b =>
      match exb st en a with
      | RNorm st' en' => exb st' en' b
      | RHook st' h kw inner cur en' => RHook st' h kw inner (SSeq cur b) en'
      | other => other
      end
    | SAssign x e => lift (ev st en e) (fun st' en' v => RNorm st' (eupd en' x v))
    | SAssign2 x y e =>
      lift (ev st en e) (fun st' en' v =>
        match v with VPair a b => RNorm st' (eupd (eupd en' x a) y b) | _ => RBad "unpacking a non-pair" end)
    | SSetAttr c name e => lift (ev st en e) (fun st' en' v => RNorm (set_attr st' c name v) en')
    | SNewContainer d k => RNorm (set_container st d (Some k)) en
    | SSetItem d k v =>
      lift (ev st en v) (fun st1 en1 vv =>
        lift (ev st1 en1 k) (fun st2 en2 vk => RNorm (set_entry st2 d vk (Some vv)) en2))
    | SDelItem d k =>
      lift (ev st en k) (fun st' en' vk =>
        match lookup st' d vk with Some _ => RNorm (set_entry st' d vk None) en' | None => RExc st' "KeyError" end)
    | SAdd d e => lift (ev st en e) (fun st' en' v => RNorm (set_entry st' d v (Some VNone)) en')
    | SDiscard d e => lift (ev st en e) (fun st' en' v => RNorm (set_entry st' d v None) en')
    | SClear d => RNorm (clear_container st d) en
    | SExpr e => lift (ev st en e) (fun st' en' _ => RNorm st' en')
    | SCallMethod c m args =>
      match eval_list ev st en args [] with
      | inl (st', en', vs) =>
        match find_method (p_methods P) c m with
        | None => RBad "no such method"
        | Some (ps, body) =>
          match bind_params ps vs eempty with
          | None => RBad "arity"
          | Some en0 =>
            match exb st' en0 body with
            | RNorm st2 _ | RRet st2 _ => RNorm st2 en'
            | RExc st2 x => RExc st2 x
            | RHook st2 h kw inner cur en2 => RHook st2 h kw (inner ++ [(cur, en2)]) SSkip en'
            | RBad w => RBad w
            end
          end
        end
      | inr (EExc st' x) => RExc st' x
      | inr (EBad w) => RBad w
      | inr (EV _ _ _) => RBad "impossible"
      end
    | SHook h kw =>
      match eval_list ev st en (map snd kw) [] with
      | inl (st', en', vs) => RHook st' h (combine (map fst kw) vs) [] SSkip en'
      | inr (EExc st' x) => RExc st' x
      | inr (EBad w) => RBad w
      | inr (EV _ _ _) => RBad "impossible"
      end
    | SPut e => lift (ev st en e) (fun st' en' v => RNorm (put_out st' v) en')
    | SIf c a b => lift (ev st en c) (fun st' en' v => if truthy v then exb st' en' a else exb st' en' b)
    | SReturn e => lift (ev st en e) (fun st' _ v => RRet st' v)
    | SRaise exc => RExc st exc
    | STry body exc handler =>
      match exb st en body with
      | RExc st' x => if String.eqb x exc then exb st' en handler else RExc st' x
      | RHook _ _ _ _ _ _ => RBad "hook call inside try"
      | other => other
      end
    | SOpaque _ => RNorm st en
    end.

Fixpoint eval (n : nat) (st : istate) (en : env) (e : expr) {struct n} : eres :=
  match n with
  | O => EBad "fuel"
  | S n => eval_body (eval n) (exec n) st en e
  end
with exec (n : nat) (st : istate) (en : env) (s : stmt) {struct n} : sres :=
  match n with
  | O => RBad "fuel"
  | S n => exec_body (eval n) (exec n) st en s
  end.

Lemma eval_S n st en e : eval (S n) st en e = eval_body (eval n) (exec n) st en e.
Proof. reflexivity. Qed.
Lemma exec_S n st en s : exec (S n) st en s = exec_body (eval n) (exec n) st en s.
Proof. reflexivity. Qed.

End InCtx.

(** ---- hooks: the frames of the implementations of hook h called with keyword arguments kw *)
Fixpoint impl_frames (impls : list (string * cls)) (h : string) (kw : list (string * value)) : option (list frame) :=
  match impls with
  | [] => Some []
  | (h', c) :: r =>
    if String.eqb h h' then
      match find_method (p_methods P) c h with
      | None => None
      | Some (ps, body) =>
        match bind_kw ps kw eempty, impl_frames r h kw with
        | Some en, Some fs => Some ((body, en) :: fs)
        | _, _ => None
        end
      end
    else impl_frames r h kw
  end.

Inductive dres :=
| DDone (st : istate)
| DSusp (st : istate) (ks : list frame)       (* stopped at a preemption point; ks remain *)
| DExc (st : istate) (exc : string)
| DBad (why : string).

(** what the driver does with the outcome [r] of the innermost frame; [drv] = drive the rest with the
    remaining fuel *)
Definition drive_k (drv : istate -> list frame -> dres) (cut : string -> bool) (rest : list frame) (r : sres) : dres :=
  match r with
  | RNorm st' _ | RRet st' _ => drv st' rest
  | RExc st' x => DExc st' x
  | RBad w => DBad w
  | RHook st' h kw inner cur en' =>
    let ks' := inner ++ (cur, en') :: rest in
    if cut h then DSusp st' ks'
    else match impl_frames (p_hookimpls P) h kw with
         | Some fs => drv st' (fs ++ ks')
         | None => DBad "hook implementation parameters"
         end
  end.

(** run a stack of frames (innermost first) to the end, dispatching hook calls *)
Fixpoint drive (n : nat) (cx : ctx) (cut : string -> bool) (st : istate) (ks : list frame) {struct n} : dres :=
  match n with
  | O => DBad "fuel"
  | S n =>
    match ks with
    | [] => DDone st
    | (s, en) :: rest => drive_k (drive n cx cut) cut rest (exec cx n st en s)
    end
  end.

Lemma drive_nil n cx cut st : drive (S n) cx cut st [] = DDone st.
Proof. reflexivity. Qed.
Lemma drive_cons n cx cut st s en rest :
  drive (S n) cx cut st ((s, en) :: rest) = drive_k (drive n cx cut) cut rest (exec cx n st en s).
Proof. reflexivity. Qed.

Lemma drive_k_norm drv cut rest st en : drive_k drv cut rest (RNorm st en) = drv st rest.
Proof. reflexivity. Qed.
Lemma drive_k_ret drv cut rest st v : drive_k drv cut rest (RRet st v) = drv st rest.
Proof. reflexivity. Qed.
Lemma drive_k_exc drv cut rest st x : drive_k drv cut rest (RExc st x) = DExc st x.
Proof. reflexivity. Qed.
Lemma drive_k_hook drv cut rest st h kw inner cur en :
  drive_k drv cut rest (RHook st h kw inner cur en) =
  if cut h then DSusp st (inner ++ (cur, en) :: rest)
  else match impl_frames (p_hookimpls P) h kw with
       | Some fs => drv st (fs ++ inner ++ (cur, en) :: rest)
       | None => DBad "hook implementation parameters"
       end.
Proof. reflexivity. Qed.

(** ---- the labels of Ids/Model.v, executed by the regenerated code *)

Record sys := mkSys {
  y_st : istate;
  y_susp : actor -> option (list frame)     (* an actor stopped inside `filtered`, at the call of on_start_task_or_thread *)
}.

Definition FUEL : nat := 60.

Definition cut_start (h : string) : bool := String.eqb h "on_start_task_or_thread".
Definition no_cut (h : string) : bool := false.

Definition field_z (fs : list (string * value)) (f : string) : option Z :=
  match find_str fs f with Some (VInt z) => Some z | _ => None end.

(** what the main process sees of an OnStartTrace / OnEndTrace event *)
Definition decode_start (evs : list value) : out :=
  match evs with
  | [VEvent name fs] =>
    if String.eqb name "OnStartTrace" then
      match field_z fs "trace_no", field_z fs "thread_no", find_str fs "task_no" with
      | Some tr, Some tn, Some VNone => OStart tr tn None
      | Some tr, Some tn, Some (VInt kn) => OStart tr tn (Some kn)
      | _, _, _ => OErr
      end
    else OErr
  | _ => OErr
  end.
Definition decode_end (evs : list value) : out :=
  match evs with
  | [VEvent name fs] =>
    if String.eqb name "OnEndTrace" then
      match field_z fs "trace_no" with Some tr => OEnd tr | None => OErr end
    else OErr
  | _ => OErr
  end.

Definition istep (nl : actor -> bool) (lp : Z -> Z -> Z) (y : sys) (l : label) : sys * out :=
  let st := clear_out (y_st y) in
  match l with
  | Filtered a =>
    (* the hook `filtered` is called in actor a *)
    match y_susp y a with
    | Some _ => (y, OSeen)                    (* a is stopped inside filtered: it cannot enter it again (Ids/Model.v: OSeen) *)
    | None =>
      match impl_frames (p_hookimpls P) "filtered" [] with
      | None => (y, OErr)
      | Some fs =>
        match drive FUEL (mkCx a (nl a) lp) cut_start st fs with
        | DDone st' => match i_out st' with [] => (mkSys st' (y_susp y), OSeen) | _ => (mkSys st' (y_susp y), OErr) end
        | DSusp st' ks =>
          match i_out st' with
          | [] => (mkSys st' (updf actor_eqb (y_susp y) a (Some ks)), OComposed)
          | _ => (mkSys st' (y_susp y), OErr)
          end
        | DExc st' _ => (mkSys st' (y_susp y), OErr)
        | DBad _ => (y, OErr)
        end
      end
    end
  | Mapped a =>
    (* a resumes: the implementations of on_start_task_or_thread, then the rest of `filtered` *)
    match y_susp y a with
    | None => (y, OErr)
    | Some ks =>
      match impl_frames (p_hookimpls P) "on_start_task_or_thread" [] with
      | None => (y, OErr)
      | Some fs =>
        match drive FUEL (mkCx a (nl a) lp) no_cut st (fs ++ ks) with
        | DDone st' => (mkSys st' (updf actor_eqb (y_susp y) a None), decode_start (i_out st'))
        | DSusp st' _ | DExc st' _ => (mkSys st' (updf actor_eqb (y_susp y) a None), OErr)
        | DBad _ => (y, OErr)
        end
      end
    end
  | Emit a x =>
    (* a plugin reads the hook current_trace_no() in actor a and tags what it emits *)
    match eval (mkCx a (nl a) lp) FUEL st eempty (EHook "current_trace_no") with
    | EV st' _ VNone => (mkSys st' (y_susp y), OEv None x)
    | EV st' _ (VInt t) => (mkSys st' (y_susp y), OEv (Some t) x)
    | EV st' _ _ | EExc st' _ => (mkSys st' (y_susp y), OErr)
    | EBad _ => (y, OErr)
    end
  | End a =>
    (* the done-callback calls TaskAndThreadKeeper._on_end(a) (in some other thread: the body never asks who runs it) *)
    match find_method (p_methods P) Keeper "_on_end" with
    | Some ([p], body) =>
      match drive FUEL (mkCx a (nl a) lp) no_cut st [(body, eupd eempty p (aval a))] with
      | DDone st' => (mkSys st' (y_susp y), decode_end (i_out st'))
      | DSusp st' _ | DExc st' _ => (mkSys st' (y_susp y), OErr)
      | DBad _ => (y, OErr)
      end
    | _ => (y, OErr)
    end
  end.

(** ---- the USE of the trace number: the hook local_trace_func(frame, event, arg) called in actor a
    (by the global trace function, for every trace event of a).  The result is the object whose trace function
    received the call (a CustomizedPdb instance), if exactly one received it with the same first argument. *)
Definition decode_dispatch (evs : list value) (x : Z) : option value :=
  match evs with
  | [VEvent m fs] =>
    if String.eqb m "trace_dispatch" then
      match find_str fs "self", find_str fs "arg" with
      | Some self, Some (VInt x') => if Z.eqb x x' then Some self else None
      | _, _ => None
      end
    else None
  | _ => None
  end.

Definition idispatch (nl : actor -> bool) (lp : Z -> Z -> Z) (y : sys) (a : actor) (x : Z) : sys * option value :=
  let st := clear_out (y_st y) in
  match impl_frames (p_hookimpls P) "local_trace_func" [("frame", VInt x); ("event", VNone); ("arg", VNone)] with
  | None => (y, None)
  | Some fs =>
    match drive FUEL (mkCx a (nl a) lp) no_cut st fs with
    | DDone st' => (mkSys st' (y_susp y), decode_dispatch (i_out st') x)
    | DSusp st' _ | DExc st' _ => (mkSys st' (y_susp y), None)
    | DBad _ => (y, None)
    end
  end.

(** the plugins are instantiated -- TaskAndThreadKeeper() (which creates its ThreadTaskIdComposer),
    TaskOrThreadToTraceMapper() -- and the hook init(hook=..) of LocalTraceFunc and PdbInstanceFactory has run *)
Definition iinit : sys :=
  let cx := mkCx (0, None) false (fun _ _ => 0) in
  match find_method (p_methods P) Keeper "__init__", find_method (p_methods P) Mapper "__init__",
        find_method (p_methods P) Local "init", find_method (p_methods P) PdbFactory "init" with
  | Some ([], kb), Some ([], mb), Some ([p1], lb), Some ([p2], pb) =>
    match drive FUEL cx no_cut st0 [(kb, eempty); (mb, eempty); (lb, eupd eempty p1 VNone); (pb, eupd eempty p2 VNone)] with
    | DDone st => mkSys st (fun _ => None)
    | _ => mkSys st0 (fun _ => None)
    end
  | _, _, _, _ => mkSys st0 (fun _ => None)
  end.

Fixpoint itrace_from (nl : actor -> bool) (lp : Z -> Z -> Z) (y : sys) (ls : list label) : list (label * out) :=
  match ls with
  | [] => []
  | l :: r => (l, snd (istep nl lp y l)) :: itrace_from nl lp (fst (istep nl lp y l)) r
  end.
Fixpoint iexec_from (nl : actor -> bool) (lp : Z -> Z -> Z) (y : sys) (ls : list label) : sys :=
  match ls with
  | [] => y
  | l :: r => iexec_from nl lp (fst (istep nl lp y l)) r
  end.
Definition itrace nl lp (ls : list label) := itrace_from nl lp iinit ls.
Definition ifinal nl lp (ls : list label) := iexec_from nl lp iinit ls.
Definition iouts nl lp (ls : list label) : list out := map snd (itrace nl lp ls).

End Interp.
