(** Executable model of how nextline names the units of concurrency:
    nextline/spawned/plugin/plugins/concurrency.py (TaskAndThreadKeeper,
    TaskOrThreadToTraceMapper), nextline/utils/thread_task_id.py
    (ThreadTaskIdComposer), nextline/utils/aio.py (current_task_or_thread),
    nextline/count.py (counters from 1).  Definitions only.

    An actor is what `current_task_or_thread()` can return: a thread, or an
    asyncio task.  A Task object runs in exactly one thread, so the model names
    it (thread, Some k).  Python object identities are never re-used in the
    model (the WeakKeyDictionary's drop entries of dead objects only). *)
From Coq Require Export List ZArith Bool Arith Lia.
Export ListNotations.
Open Scope Z_scope.

Notation actor := (Z * option Z)%type.

Definition oz_eqb (a b : option Z) : bool :=
  match a, b with
  | None, None => true
  | Some x, Some y => Z.eqb x y
  | _, _ => false
  end.
Definition actor_eqb (a b : actor) : bool := Z.eqb (fst a) (fst b) && oz_eqb (snd a) (snd b).

Definition updf {K A} (eqb : K -> K -> bool) (f : K -> A) (k : K) (v : A) : K -> A :=
  fun x => if eqb x k then v else f x.

Notation ttid := (Z * option Z)%type.      (* ThreadTaskId(thread_no, task_no) *)

Record state := mkSt {
  k_set : actor -> bool;                 (* TaskAndThreadKeeper._set *)
  k_pend : actor -> bool;                (* the actor is inside TaskAndThreadKeeper._on_start (between its two counter calls) *)
  c_thread_ctr : Z;                      (* ThreadTaskIdComposer.thread_no_counter (next value) *)
  c_thread_no : Z -> option Z;           (* _thread_no_map : Thread -> ThreadNo *)
  c_task_ctr : Z -> Z;                   (* _task_no_counter_map : ThreadNo -> next TaskNo (defaultdict: 1) *)
  c_task_no : actor -> option Z;         (* _task_no_map : Task -> TaskNo *)
  c_map : actor -> option ttid;          (* _map : (task or thread) -> ThreadTaskId *)
  m_ctr : Z;                             (* TaskOrThreadToTraceMapper._counter (next value) *)
  m_map : actor -> option Z              (* TaskOrThreadToTraceMapper._map *)
}.

Definition init : state :=
  mkSt (fun _ => false) (fun _ => false) 1 (fun _ => None) (fun _ => 1) (fun _ => None) (fun _ => None) 1 (fun _ => None).

(** ThreadTaskIdComposer._compose *)
Definition compose (s : state) (a : actor) : state * ttid :=
  let th := fst a in
  let '(s1, tn) :=
    match c_thread_no s th with
    | Some tn => (s, tn)
    | None =>
      (mkSt (k_set s) (k_pend s) (c_thread_ctr s + 1) (updf Z.eqb (c_thread_no s) th (Some (c_thread_ctr s)))
            (c_task_ctr s) (c_task_no s) (c_map s) (m_ctr s) (m_map s), c_thread_ctr s)
    end in
  match snd a with
  | None => (s1, (tn, None))
  | Some _ =>
    match c_task_no s1 a with
    | Some kn => (s1, (tn, Some kn))
    | None =>
      let kn := c_task_ctr s1 tn in
      (mkSt (k_set s1) (k_pend s1) (c_thread_ctr s1) (c_thread_no s1) (updf Z.eqb (c_task_ctr s1) tn (kn + 1))
            (updf actor_eqb (c_task_no s1) a (Some kn)) (c_map s1) (m_ctr s1) (m_map s1), (tn, Some kn))
    end
  end.

(** ThreadTaskIdComposer.__call__ *)
Definition composer_call (s : state) (a : actor) : state * ttid :=
  match c_map s a with
  | Some id => (s, id)
  | None =>
    let '(s1, id) := compose s a in
    (mkSt (k_set s1) (k_pend s1) (c_thread_ctr s1) (c_thread_no s1) (c_task_ctr s1) (c_task_no s1)
          (updf actor_eqb (c_map s1) a (Some id)) (m_ctr s1) (m_map s1), id)
  end.

(** The start of a trace takes two counter calls in the actor's own thread
    (`self._counter()` in TaskAndThreadKeeper._on_start, then
    `trace_no = self._counter()` in TaskOrThreadToTraceMapper); other threads can
    run in between, so they are two labels. *)
Inductive label :=
| Filtered (a : actor)            (* TaskAndThreadKeeper.filtered in actor a, up to and including self._counter() *)
| Mapped (a : actor)              (* on_start_task_or_thread: trace number, OnStartTrace, then _set.add *)
| Emit (a : actor) (payload : Z)  (* a trace call / prompt / stdout line produced by a: tagged current_trace_no() *)
| End (a : actor).                (* TaskAndThreadKeeper._on_end(a) *)

Inductive out :=
| OComposed                                               (* thread / task numbers exist now; nothing emitted *)
| OStart (trace_no thread_no : Z) (task_no : option Z)   (* OnStartTrace *)
| OSeen                                                   (* already in _set (or already starting) *)
| OEv (trace_no : option Z) (payload : Z)                 (* event carrying trace_no (None: not attributed, dropped) *)
| OEnd (trace_no : Z)                                     (* OnEndTrace *)
| OErr.                                                   (* KeyError in on_end_task_or_thread / label not enabled *)

Definition step (s : state) (l : label) : state * out :=
  match l with
  | Filtered a =>
    if k_set s a || k_pend s a then (s, OSeen)
    else
      let '(s1, id) := composer_call s a in
      (mkSt (k_set s1) (updf actor_eqb (k_pend s1) a true) (c_thread_ctr s1) (c_thread_no s1) (c_task_ctr s1)
            (c_task_no s1) (c_map s1) (m_ctr s1) (m_map s1), OComposed)
  | Mapped a =>
    if k_pend s a then
      (* trace_no = counter(); _map[current] = trace_no; on_start_trace -> Repeater reads
         current_thread_no / current_task_no (composer again: cached in _map) *)
      let tr := m_ctr s in
      let id := match c_map s a with Some id => id | None => (0, None) end in
      (mkSt (updf actor_eqb (k_set s) a true) (updf actor_eqb (k_pend s) a false) (c_thread_ctr s) (c_thread_no s)
            (c_task_ctr s) (c_task_no s) (c_map s) (tr + 1) (updf actor_eqb (m_map s) a (Some tr)),
       OStart tr (fst id) (snd id))
    else (s, OErr)
  | Emit a x => (s, OEv (m_map s a) x)
  | End a =>
    match m_map s a with
    | Some tr => (s, OEnd tr)
    | None => (s, OErr)
    end
  end.

Fixpoint trace_from (s : state) (ls : list label) : list (label * out) :=
  match ls with
  | [] => []
  | l :: r => (l, snd (step s l)) :: trace_from (fst (step s l)) r
  end.
Fixpoint exec_from (s : state) (ls : list label) : state :=
  match ls with
  | [] => s
  | l :: r => exec_from (fst (step s l)) r
  end.
Definition trace (ls : list label) := trace_from init ls.
Definition final (ls : list label) := exec_from init ls.
Definition outs (ls : list label) : list out := map snd (trace ls).

(** ---- history functions (independent of the state) *)

Notation ev := (label * out)%type.

(** the OnStartTrace numbers given to actor a, if it has started in the history *)
Fixpoint started (tr : list ev) (a : actor) : option (Z * ttid) :=
  match tr with
  | [] => None
  | (Mapped b, OStart t tn kn) :: r => if actor_eqb a b then Some (t, (tn, kn)) else started r a
  | _ :: r => started r a
  end.

Fixpoint starts (tr : list ev) : list (actor * (Z * ttid)) :=
  match tr with
  | [] => []
  | (Mapped b, OStart t tn kn) :: r => (b, (t, (tn, kn))) :: starts r
  | _ :: r => starts r
  end.

(** ---- comparison with the implementation (correspondence) *)

Definition out_eqb (a b : out) : bool :=
  match a, b with
  | OStart t n k, OStart t' n' k' => Z.eqb t t' && Z.eqb n n' && oz_eqb k k'
  | OSeen, OSeen | OErr, OErr | OComposed, OComposed => true
  | OEv t x, OEv t' x' => oz_eqb t t' && Z.eqb x x'
  | OEnd t, OEnd t' => Z.eqb t t'
  | _, _ => false
  end.
Fixpoint outs_eqb (a b : list out) : bool :=
  match a, b with
  | [], [] => true
  | x :: a, y :: b => out_eqb x y && outs_eqb a b
  | _, _ => false
  end.
Fixpoint bad_from (n : nat) (cases : list (list label * list out)) : list nat :=
  match cases with
  | [] => []
  | (ls, o) :: r => if outs_eqb (outs ls) o then bad_from (S n) r else n :: bad_from (S n) r
  end.
