(** The relation between the state of the interpreter of Ids/Interp.v and the state of the
    hand-written Ids/Model.v, and the elementary updates that preserve it.  Nothing here depends
    on the regenerated code except [st_init] (the kinds of the containers that the regenerated
    __init__ bodies create). *)
From NL Require Import Ids.Interp Gen.IdsFuns Ids.Inv.
Open Scope Z_scope.

Definition enc_oz (o : option Z) : value := match o with Some k => VInt k | None => VNone end.
Definition enc_id (id : ttid) : value := VId (VInt (fst id)) (enc_oz (snd id)).
Definition is_some {A} (o : option A) : bool := match o with Some _ => true | None => false end.

(** the interpreter's state after the regenerated __init__ bodies have run *)
Definition st_init : istate := y_st (iinit program).

(** [lt], [lm]: the heap locations of the composer's thread counter and of the mapper's trace
    counter.  A task counter exists for a thread NUMBER once the defaultdict was asked for it; the
    model's total function [c_task_ctr] reads 1 where there is none yet. *)
Record Rst (lt lm : nat) (st : istate) (s : state) : Prop := {
  r_kinds : forall c n, i_kinds st c n = i_kinds st_init c n;
  r_kc : i_attrs st Keeper "_counter" = VObj Composer;
  r_lt : i_attrs st Composer "thread_no_counter" = VCtr lt;
  r_lm : i_attrs st Mapper "_counter" = VCtr lm;
  r_ltm : lt <> lm;
  r_lt_h : i_heap st lt = c_thread_ctr s;
  r_lm_h : i_heap st lm = m_ctr s;
  r_lt_n : (lt < i_next st)%nat;
  r_lm_n : (lm < i_next st)%nat;
  r_set : forall a, is_some (i_dicts st Keeper "_set" (aval a)) = k_set s a;
  r_thno : forall th, i_dicts st Composer "_thread_no_map" (VThread th) = option_map VInt (c_thread_no s th);
  r_tkno : forall th k, i_dicts st Composer "_task_no_map" (VTask th k) = option_map VInt (c_task_no s (th, Some k));
  r_cmap : forall a, i_dicts st Composer "_map" (aval a) = option_map enc_id (c_map s a);
  r_mmap : forall a, i_dicts st Mapper "_map" (aval a) = option_map VInt (m_map s a);
  r_tkctr : forall tn, match i_dicts st Composer "_task_no_counter_map" (VInt tn) with
                       | None => c_task_ctr s tn = 1
                       | Some (VCtr l) => i_heap st l = c_task_ctr s tn /\ (l < i_next st)%nat /\ l <> lt /\ l <> lm
                       | Some _ => False
                       end;
  r_tk_inj : forall tn tn' l, i_dicts st Composer "_task_no_counter_map" (VInt tn) = Some (VCtr l) ->
                              i_dicts st Composer "_task_no_counter_map" (VInt tn') = Some (VCtr l) -> tn = tn'
}.

(** model-side field updates *)
Definition w_kset s f := mkSt f (k_pend s) (c_thread_ctr s) (c_thread_no s) (c_task_ctr s) (c_task_no s) (c_map s) (m_ctr s) (m_map s).
Definition w_kpend s f := mkSt (k_set s) f (c_thread_ctr s) (c_thread_no s) (c_task_ctr s) (c_task_no s) (c_map s) (m_ctr s) (m_map s).
Definition w_thctr s z := mkSt (k_set s) (k_pend s) z (c_thread_no s) (c_task_ctr s) (c_task_no s) (c_map s) (m_ctr s) (m_map s).
Definition w_thno s f := mkSt (k_set s) (k_pend s) (c_thread_ctr s) f (c_task_ctr s) (c_task_no s) (c_map s) (m_ctr s) (m_map s).
Definition w_tkctr s f := mkSt (k_set s) (k_pend s) (c_thread_ctr s) (c_thread_no s) f (c_task_no s) (c_map s) (m_ctr s) (m_map s).
Definition w_tkno s f := mkSt (k_set s) (k_pend s) (c_thread_ctr s) (c_thread_no s) (c_task_ctr s) f (c_map s) (m_ctr s) (m_map s).
Definition w_cmap s f := mkSt (k_set s) (k_pend s) (c_thread_ctr s) (c_thread_no s) (c_task_ctr s) (c_task_no s) f (m_ctr s) (m_map s).
Definition w_mctr s z := mkSt (k_set s) (k_pend s) (c_thread_ctr s) (c_thread_no s) (c_task_ctr s) (c_task_no s) (c_map s) z (m_map s).
Definition w_mmap s f := mkSt (k_set s) (k_pend s) (c_thread_ctr s) (c_thread_no s) (c_task_ctr s) (c_task_no s) (c_map s) (m_ctr s) f.

Lemma veqb_aval a b : veqb (aval a) (aval b) = actor_eqb a b.
Proof.
  destruct a as [th [k|]], b as [th' [k'|]]; unfold aval, actor_eqb; simpl; try reflexivity.
  - rewrite andb_false_r. reflexivity.
  - rewrite andb_false_r. reflexivity.
  - rewrite andb_true_r. reflexivity.
Qed.

Lemma nat_eqb_neq a b : a <> b -> Nat.eqb a b = false.
Proof. intros. destruct (Nat.eqb_spec a b); congruence. Qed.

(** ---- updates that leave every related field alone *)
Lemma Rst_put_out lt lm st s v : Rst lt lm st s -> Rst lt lm (put_out st v) s.
Proof. intros []. constructor; auto. Qed.
Lemma Rst_clear_out lt lm st s : Rst lt lm st s -> Rst lt lm (clear_out st) s.
Proof. intros []. constructor; auto. Qed.
Lemma Rst_kpend lt lm st s f : Rst lt lm st s -> Rst lt lm st (w_kpend s f).
Proof. intros []. constructor; auto. Qed.

Lemma Rst_set_attr lt lm st s c n v :
  same_ref Keeper "_counter" c n = false -> same_ref Composer "thread_no_counter" c n = false ->
  same_ref Mapper "_counter" c n = false ->
  Rst lt lm st s -> Rst lt lm (set_attr st c n v) s.
Proof. intros H1 H2 H3 []. constructor; auto; cbn [set_attr i_attrs]; rewrite ?H1, ?H2, ?H3; auto. Qed.

(** ---- the counters *)
Lemma Rst_thread_ctr lt lm st s :
  Rst lt lm st s -> Rst lt lm (set_heap st lt (c_thread_ctr s + 1)) (w_thctr s (c_thread_ctr s + 1)).
Proof.
  intros []. constructor; auto; cbn.
  - rewrite Nat.eqb_refl. lia.
  - rewrite nat_eqb_neq by auto. assumption.
  - intros tn. specialize (r_tkctr0 tn). destruct (i_dicts st Composer "_task_no_counter_map" (VInt tn)) as [[]|]; auto.
    destruct r_tkctr0 as (A & B & C & D). rewrite nat_eqb_neq by auto. auto.
Qed.

Lemma Rst_trace_ctr lt lm st s :
  Rst lt lm st s -> Rst lt lm (set_heap st lm (m_ctr s + 1)) (w_mctr s (m_ctr s + 1)).
Proof.
  intros []. constructor; auto; cbn.
  - rewrite nat_eqb_neq by auto. assumption.
  - rewrite Nat.eqb_refl. lia.
  - intros tn. specialize (r_tkctr0 tn). destruct (i_dicts st Composer "_task_no_counter_map" (VInt tn)) as [[]|]; auto.
    destruct r_tkctr0 as (A & B & C & D). rewrite nat_eqb_neq by auto. auto.
Qed.

(** defaultdict miss: a new counter that starts at 1 is stored under the thread number *)
Lemma Rst_new_task_ctr lt lm st s tn :
  Rst lt lm st s -> i_dicts st Composer "_task_no_counter_map" (VInt tn) = None ->
  Rst lt lm (set_entry (fst (alloc st 1)) (Composer, "_task_no_counter_map") (VInt tn) (Some (VCtr (i_next st)))) s.
Proof.
  intros [] Hn. constructor; auto; cbn.
  - rewrite nat_eqb_neq by lia. assumption.
  - rewrite nat_eqb_neq by lia. assumption.
  - lia.
  - lia.
  - intros tn'. destruct (Z.eqb_spec tn' tn).
    + subst. rewrite Nat.eqb_refl. specialize (r_tkctr0 tn). rewrite Hn in r_tkctr0. repeat split; auto; lia.
    + specialize (r_tkctr0 tn'). destruct (i_dicts st Composer "_task_no_counter_map" (VInt tn')) as [[]|]; auto.
      destruct r_tkctr0 as (A & B & C & D). rewrite nat_eqb_neq by lia. repeat split; auto.
  - intros a b l. destruct (Z.eqb_spec a tn); destruct (Z.eqb_spec b tn); subst; auto; intros H1 H2.
    + inversion H1; subst. specialize (r_tkctr0 b). rewrite H2 in r_tkctr0. lia.
    + inversion H2; subst. specialize (r_tkctr0 a). rewrite H1 in r_tkctr0. lia.
    + eauto.
Qed.

Lemma Rst_task_ctr lt lm st s tn l :
  Rst lt lm st s -> i_dicts st Composer "_task_no_counter_map" (VInt tn) = Some (VCtr l) ->
  Rst lt lm (set_heap st l (c_task_ctr s tn + 1)) (w_tkctr s (updf Z.eqb (c_task_ctr s) tn (c_task_ctr s tn + 1))).
Proof.
  intros [] Hl. pose proof (r_tkctr0 tn) as Htn. rewrite Hl in Htn. destruct Htn as (A & B & C & D).
  constructor; auto; cbn.
  - rewrite nat_eqb_neq by auto. assumption.
  - rewrite nat_eqb_neq by auto. assumption.
  - intros tn'. unfold updf. destruct (Z.eqb_spec tn' tn).
    + subst. rewrite Hl. rewrite Nat.eqb_refl. repeat split; auto.
    + pose proof (r_tkctr0 tn') as H'. destruct (i_dicts st Composer "_task_no_counter_map" (VInt tn')) as [[]|] eqn:E; auto.
      destruct H' as (A' & B' & C' & D'). rewrite nat_eqb_neq; [auto|]. intros ->. apply n. eauto.
Qed.

(** ---- the maps *)
Lemma Rst_thno lt lm st s th n :
  Rst lt lm st s ->
  Rst lt lm (set_entry st (Composer, "_thread_no_map") (VThread th) (Some (VInt n))) (w_thno s (updf Z.eqb (c_thread_no s) th (Some n))).
Proof.
  intros []. constructor; auto; cbn.
  intros th'. unfold updf. destruct (Z.eqb th' th); auto.
Qed.

Lemma Rst_tkno lt lm st s th k n :
  Rst lt lm st s ->
  Rst lt lm (set_entry st (Composer, "_task_no_map") (VTask th k) (Some (VInt n)))
      (w_tkno s (updf actor_eqb (c_task_no s) (th, Some k) (Some n))).
Proof.
  intros []. constructor; auto; cbn.
  intros th' k'. unfold updf, actor_eqb. cbn. destruct (Z.eqb th' th && Z.eqb k' k); auto.
Qed.

Lemma Rst_cmap lt lm st s a id :
  Rst lt lm st s ->
  Rst lt lm (set_entry st (Composer, "_map") (aval a) (Some (enc_id id))) (w_cmap s (updf actor_eqb (c_map s) a (Some id))).
Proof.
  intros []. constructor; auto; cbn.
  intros b. unfold updf. rewrite veqb_aval. destruct (actor_eqb b a); auto.
Qed.

Lemma Rst_mmap lt lm st s a t :
  Rst lt lm st s ->
  Rst lt lm (set_entry st (Mapper, "_map") (aval a) (Some (VInt t))) (w_mmap s (updf actor_eqb (m_map s) a (Some t))).
Proof.
  intros []. constructor; auto; cbn.
  intros b. unfold updf. rewrite veqb_aval. destruct (actor_eqb b a); auto.
Qed.

Lemma Rst_kset lt lm st s a :
  Rst lt lm st s ->
  Rst lt lm (set_entry st (Keeper, "_set") (aval a) (Some VNone)) (w_kset s (updf actor_eqb (k_set s) a true)).
Proof.
  intros []. constructor; auto; cbn.
  intros b. unfold updf. rewrite veqb_aval. destruct (actor_eqb b a); auto.
Qed.

(** ---- the part of the state the USE of the trace number lives in: LocalTraceFunc._map (trace number -> the
    trace function of its own Pdb), the objects created so far, the closure held by PdbInstanceFactory.
    None of the numbering methods touches it ([rest_of] is what every numbering lemma preserves). *)
Definition pview (st : istate) :=
  (i_dicts st Local "_map", i_nobj st, i_kinds st Local "_map", i_attrs st PdbFactory "_factory").
Definition rest_of (st : istate) := (i_out st, pview st).
Lemma rest_out a b : rest_of a = rest_of b -> i_out a = i_out b.
Proof. intros H. exact (f_equal fst H). Qed.
Lemma rest_pv a b : rest_of a = rest_of b -> pview a = pview b.
Proof. intros H. exact (f_equal snd H). Qed.

Lemma Rst_local_entry lt lm st s k v : Rst lt lm st s -> Rst lt lm (set_entry st (Local, "_map"%string) k v) s.
Proof. intros []. constructor; auto. Qed.
Lemma Rst_new_obj lt lm st s : Rst lt lm st s -> Rst lt lm (fst (new_obj st)) s.
Proof. intros []. constructor; auto. Qed.
