(** Abstract syntax of the fragment of Python in which nextline hands out thread numbers,
    task numbers and trace numbers (property C06):

      nextline/utils/thread_task_id.py                 ThreadTaskIdComposer          (class Composer)
      nextline/spawned/plugin/plugins/concurrency.py   TaskAndThreadKeeper           (class Keeper)
                                                       TaskOrThreadToTraceMapper     (class Mapper)
      nextline/spawned/plugin/plugins/repeat.py        Repeater.on_start_trace / on_end_trace (class Repeater)
      nextline/spawned/plugin/plugins/local_.py        LocalTraceFunc.init / local_trace_func (class Local),
                                                       the closure Factory(hook)._factory      (function "local_factory")
      nextline/spawned/plugin/plugins/pdb_/factory.py  PdbInstanceFactory.init / create_local_trace_func (class PdbFactory),
                                                       the closure Factory(hook)._factory      (function "pdb_factory")
      nextline/utils/aio.py                            current_task_or_thread        (a module-level function)
      nextline/count.py                                the counter constructors

    Hand-written; the TERMS of these types are regenerated from the source on every check by
    translate/ids_funs.py into Gen/IdsFuns.v.  Ids/Interp.v gives them a semantics, Ids/Tie.v
    ties the regenerated bodies to the hand-written Ids/Model.v.

    What is visible in a term: which container (class, attribute) is read or written, BY WHICH
    KEY (an expression: the thread object, the task object, the thread NUMBER, the event loop of
    a task, a constant), with which dict operation (get / [] / []= / in / pop / setdefault / add /
    clear), what a `defaultdict` creates on a miss, which counter object is called, and where
    the hooks are called.  Statements that do not touch any of this (logging, typing,
    docstrings, asserts without effects) have no constructor: the translator drops them. *)
From Coq Require Export List ZArith Bool String.
Export ListNotations.

Inductive cls := Keeper | Composer | Mapper | Repeater | Local | PdbFactory.

(** a container attribute `self.<name>` of the (single) instance of a class *)
Notation cref := (cls * string)%type.

Inductive expr :=
| ENone | EBool (b : bool) | EInt (z : Z)
| EVar (x : string)                         (* a local variable / parameter *)
| EAttr (c : cls) (name : string)           (* self.<name>   (a plain attribute, not a container) *)
| EField (e : expr) (f : string)            (* e.thread_no / e.task_no *)
| ECurrentThread                            (* threading.current_thread() *)
| ECurrentTask                              (* asyncio.current_task(): raises RuntimeError without a running loop *)
| EGetLoop (e : expr)                       (* e.get_loop() *)
| EFunc (f : string)                        (* a translated module-level function without parameters: f() *)
| EOr (a b : expr) | EAnd (a b : expr)      (* Python semantics: the VALUE of an operand *)
| ENot (a : expr)
| EIs (a b : expr) | EIsNot (a b : expr)
| EEq (a b : expr)
| EWalrus (x : string) (e : expr)           (* (x := e) *)
| ETuple (a b : expr)
| EMkId (tn kn : expr)                      (* ThreadTaskId(thread_no=tn, task_no=kn) *)
| EEvent (name : string) (fields : list (string * expr))   (* OnStartTrace(trace_no=.., ..): tracked fields only *)
| EGet (d : cref) (k : expr)                (* self.d.get(k) *)
| EGetD (d : cref) (k dflt : expr)          (* self.d.get(k, dflt) *)
| EItem (d : cref) (k : expr)               (* self.d[k]: KeyError on a miss, or the defaultdict factory *)
| EIn (k : expr) (d : cref)                 (* k in self.d *)
| ENotIn (k : expr) (d : cref)              (* k not in self.d *)
| EPop (d : cref) (k : expr)                (* self.d.pop(k): KeyError on a miss *)
| EPopD (d : cref) (k dflt : expr)          (* self.d.pop(k, dflt) *)
| ESetDefault (d : cref) (k v : expr)       (* self.d.setdefault(k, v) *)
| ECall (f : expr)                          (* f(): f is a counter object or the composer (its __call__) *)
| EMethod (c : cls) (m : string) (args : list expr)   (* self.m(args): must not reach a hook call *)
| EHook (h : string)                        (* self._hook.hook.h(): a firstresult hook read by a plugin *)
| ENewCounter (ctor : string) (args : list expr)      (* ThreadNoCounter(1): a NEW counter object *)
| ENewObj (c : cls)                         (* ThreadTaskIdComposer(): runs __init__ *)
| ENewInst (kind : string) (fields : list (string * expr))
                                            (* StdInOut(..) / CustomizedPdb(stdin=.., stdout=..) / WithContext(trace, ..):
                                               a NEW object of a class this model does not look into; tracked arguments only *)
| EFunRef (f : string)                      (* the closure returned by Factory(hook): a reference to a translated function *)
| ECallArgs (f : expr) (args : list expr).  (* f(a, b, c): f is a trace function (a bound method of an instance, or a
                                               WithContext wrapper of one) *)

(** what `self.d = ...()` creates *)
Inductive ckind :=
| KDict                                     (* WeakKeyDictionary() / dict() *)
| KDefault (factory : expr)                 (* defaultdict(lambda: factory) *)
| KSet.                                     (* WeakSet() / set() *)

Inductive stmt :=
| SSkip
| SSeq (a b : stmt)
| SAssign (x : string) (e : expr)           (* x = e *)
| SAssign2 (x y : string) (e : expr)        (* x, y = e *)
| SSetAttr (c : cls) (name : string) (e : expr)   (* self.<name> = e *)
| SNewContainer (d : cref) (k : ckind)      (* self.d = WeakKeyDictionary() / defaultdict(..) / WeakSet() *)
| SSetItem (d : cref) (k v : expr)          (* self.d[k] = v *)
| SDelItem (d : cref) (k : expr)            (* del self.d[k] *)
| SAdd (d : cref) (e : expr)                (* self.d.add(e) *)
| SDiscard (d : cref) (e : expr)            (* self.d.discard(e) *)
| SClear (d : cref)                         (* self.d.clear() *)
| SExpr (e : expr)                          (* an expression statement: value discarded *)
| SCallMethod (c : cls) (m : string) (args : list expr)   (* self.m(args) as a statement: may reach a hook call *)
| SHook (h : string) (kw : list (string * expr))   (* self._hook.hook.h(k=v, ..): calls every implementation *)
| SPut (e : expr)                           (* self._queue_out.put(e): an event leaves for the main process *)
| SIf (c : expr) (a b : stmt)
| SReturn (e : expr)
| SRaise (exc : string)
| STry (body : stmt) (exc : string) (handler : stmt)   (* try: body except exc: handler *)
| SOpaque (what : string).                  (* a tracked call outside this model (self._callback.register(current)) *)

(** nextline/count.py: XNoCounter(start=<default>) = CastedCounter(count(<from>).__next__, X) *)
Inductive cstart := CFromParam | CFromConst (z : Z).
Record cdef := mkCdef {
  cd_default : option Z;       (* default of the parameter `start` *)
  cd_from : cstart;            (* the argument of itertools.count *)
  cd_step : Z                  (* the step of itertools.count *)
}.

Record prog := mkProg {
  p_methods : list (cls * string * (list string * stmt));   (* (class, method) -> (parameters without self, body) *)
  p_functions : list (string * stmt);                        (* parameterless module-level functions *)
  p_hookimpls : list (string * cls);                         (* hook name -> a class implementing it (@hookimpl), in source order *)
  p_counters : list (string * cdef)
}.
