(** The debugger's own text: pdb_/factory.py gives every trace its own
    StdInOut (pdb_/stream.py): `write` appends to the trace's `_prompt_text`,
    `readline` takes the whole buffer as the prompt text and empties it.
    Executable model with one buffer per trace, and the (by construction)
    statement that a readline of trace t returns exactly what t's Pdb wrote
    since t's previous readline. *)
From Coq Require Export List ZArith Bool Arith Lia.
Export ListNotations.
Open Scope Z_scope.

Inductive tlabel :=
| TWrite (t : Z) (x : Z)      (* StdInOut.write(s) by the Pdb of trace t; x stands for the string *)
| TRead (t : Z).              (* StdInOut.readline() by the Pdb of trace t *)

Definition tstate := Z -> list Z.          (* trace -> _prompt_text (pieces, in order) *)
Definition tinit : tstate := fun _ => [].

Definition tstep (s : tstate) (l : tlabel) : tstate * option (list Z) :=
  match l with
  | TWrite t x => ((fun u => if Z.eqb u t then s t ++ [x] else s u), None)
  | TRead t => ((fun u => if Z.eqb u t then [] else s u), Some (s t))
  end.

Fixpoint trun (s : tstate) (ls : list tlabel) : tstate * list (option (list Z)) :=
  match ls with
  | [] => (s, [])
  | l :: r => let '(s1, o) := tstep s l in let '(s2, os) := trun s1 r in (s2, o :: os)
  end.

(** history function: what trace t wrote since its last read, oldest first *)
Fixpoint pending (t : Z) (rev_hist : list tlabel) : list Z :=
  match rev_hist with
  | [] => []
  | TWrite u x :: r => if Z.eqb t u then pending t r ++ [x] else pending t r
  | TRead u :: r => if Z.eqb t u then [] else pending t r
  end.

Lemma tstate_pending : forall ls t, fst (trun tinit ls) t = pending t (rev ls).
Proof.
  assert (G : forall ls s h, (forall t, s t = pending t (rev h)) ->
                             forall t, fst (trun s ls) t = pending t (rev (h ++ ls))).
  { induction ls as [|l ls IH]; intros s h Hs t; [rewrite app_nil_r; apply Hs|].
    simpl. destruct (tstep s l) as [s1 o] eqn:E. destruct (trun s1 ls) as [s2 os] eqn:E2. simpl.
    replace (h ++ l :: ls) with ((h ++ [l]) ++ ls) by (rewrite <- app_assoc; reflexivity).
    change s2 with (fst (s2, os)). rewrite <- E2. apply IH. clear t.
    intros t. rewrite rev_app_distr. simpl. destruct l as [u x|u]; simpl in E; inversion E; subst; clear E;
      destruct (Z.eqb_spec t u); subst; rewrite ?Hs; reflexivity. }
  intros ls t. apply (G ls tinit []). reflexivity.
Qed.

(** what the k-th label returns: a read of t returns exactly t's own pending text *)
Theorem read_returns_own_text : forall pre t post,
  nth_error (snd (trun tinit (pre ++ TRead t :: post))) (length pre) = Some (Some (pending t (rev pre))).
Proof.
  intros pre t post.
  assert (G : forall p0 s, nth_error (snd (trun s (p0 ++ TRead t :: post))) (length p0) = Some (Some (fst (trun s p0) t))).
  { clear pre. induction p0 as [|l pre IH]; intros s.
    - simpl. match goal with |- context [trun ?a post] => destruct (trun a post) end. reflexivity.
    - simpl. destruct (tstep s l) as [s1 o]. specialize (IH s1).
      destruct (trun s1 (pre ++ TRead t :: post)) as [s2 os]. destruct (trun s1 pre) as [s3 os3]. simpl in *. exact IH. }
  rewrite G. rewrite tstate_pending. reflexivity.
Qed.
