(** Comparison functions used by the correspondence run (harness/props/c07.py).
    Definitions only. *)
From NL Require Export Prompt.Hist.
Open Scope Z_scope.

Definition exec3 (tr : list ev) : list (Z * Z * Z) :=
  map (fun e => match e with (t, p, _, c) => (t, p, c_text c) end) (execs tr).

(** (prompt that was open, prompt number of the discarded command) *)
Fixpoint discards (tr : list ev) : list (Z * Z) :=
  match tr with
  | [] => []
  | (_, ODiscard p _ c) :: r => (p, c_prompt c) :: discards r
  | _ :: r => discards r
  end.

Definition eq3 (a b : Z * Z * Z) : bool :=
  match a, b with (a1, a2, a3), (b1, b2, b3) => Z.eqb a1 b1 && Z.eqb a2 b2 && Z.eqb a3 b3 end.
Definition eq2 (a b : Z * Z) : bool := Z.eqb (fst a) (fst b) && Z.eqb (snd a) (snd b).

Fixpoint zlist_eqb (a b : list Z) : bool :=
  match a, b with
  | [], [] => true
  | x :: a, y :: b => Z.eqb x y && zlist_eqb a b
  | _, _ => false
  end.

Fixpoint list_eqb {A} (eqb : A -> A -> bool) (a b : list A) : bool :=
  match a, b with
  | [], [] => true
  | x :: a, y :: b => eqb x y && list_eqb eqb a b
  | _, _ => false
  end.

(** what the implementation showed for one stream *)
Record observed := mkObs {
  o_opens : list (Z * Z);            (* OnStartPrompt (trace, prompt) in prompt-number order *)
  o_execs : list (Z * Z * Z);        (* OnEndPrompt (trace, prompt, command text), any order *)
  o_discards : list (Z * list Z);    (* per open prompt: prompt numbers of the 'PromptNo mismatch' warnings, in order *)
  o_asserts : nat                    (* 'TraceNo mismatch' assertion failures *)
}.

Definition n_asserts (tr : list ev) : nat :=
  length (filter (fun e => match snd e with OAssert _ => true | _ => false end) tr).

Definition agrees (ls : list label) (o : observed) : bool :=
  let tr := trace ls in
  list_eqb eq2 (opens tr) (o_opens o)
  && Nat.eqb (length (exec3 tr)) (length (o_execs o))
  && forallb (fun e => existsb (eq3 e) (exec3 tr)) (o_execs o)
  && forallb (fun pn => zlist_eqb (map snd (filter (fun d => Z.eqb (fst d) (fst pn)) (discards tr))) (snd pn)) (o_discards o)
  && Nat.eqb (length (discards tr)) (fold_right (fun pn n => (length (snd pn) + n)%nat) 0%nat (o_discards o))
  && Nat.eqb (n_asserts tr) (o_asserts o).

Fixpoint bad_from (n : nat) (cases : list (list label * observed)) : list nat :=
  match cases with
  | [] => []
  | (ls, o) :: r => if agrees ls o then bad_from (S n) r else n :: bad_from (S n) r
  end.
