(** Functions of the observable history (labels with their outputs), defined
    without reference to the model's state.  Definitions only. *)
From NL Require Export Prompt.Model.
Open Scope Z_scope.

Notation ev := (label * out)%type.

(** the commands sent, in order; the n-th element is the instance with tag n *)
Fixpoint sends (tr : list ev) : list cmd :=
  match tr with
  | [] => []
  | (Send c, _) :: r => c :: sends r
  | _ :: r => sends r
  end.

(** which prompt of trace t is open after the history: opened and not closed *)
Definition open_step (o : Z -> option Z) (e : ev) : Z -> option Z :=
  match e with
  | (OpenPrompt t, OOpened p) => upd o t (Some p)
  | (Take t, OExec _ _ _) => upd o t None
  | (Take t, OAssert _) => upd o t None
  | _ => o
  end.
Definition open_in (tr : list ev) : Z -> option Z := fold_left open_step tr (fun _ => None).

(** executed commands: (trace, prompt closed, instance, command) *)
Fixpoint execs (tr : list ev) : list (Z * Z * nat * cmd) :=
  match tr with
  | [] => []
  | (Take t, OExec p i c) :: r => (t, p, i, c) :: execs r
  | _ :: r => execs r
  end.
Definition exec_ids (tr : list ev) : list nat := map (fun e => snd (fst e)) (execs tr).
Definition exec_prompts (tr : list ev) : list Z := map (fun e => snd (fst (fst e))) (execs tr).

(** instances that reached a per-trace queue *)
Fixpoint relayed (tr : list ev) : list nat :=
  match tr with
  | [] => []
  | (Relay, ORelayed i) :: r => i :: relayed r
  | _ :: r => relayed r
  end.

(** prompts opened: (trace, prompt number) *)
Fixpoint opens (tr : list ev) : list (Z * Z) :=
  match tr with
  | [] => []
  | (OpenPrompt t, OOpened p) :: r => (t, p) :: opens r
  | _ :: r => opens r
  end.
